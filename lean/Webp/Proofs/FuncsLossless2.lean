import Generated.Funcs
import Webp.Impl.LTransform
import Webp.Proofs.FuncsBridge
import Webp.Proofs.FuncsLossless
import Webp.Proofs.LTransformColor
/-
  More helper lemmas for the tie theorems of `Webp/Props/C01Funcs.lean` / `C03Funcs.lean`
  (translated VP8L functions of `Generated/Funcs.lean`): the `for n > 1 { log++; n >>= 1 }` loop of
  `bitsLog2Floor`, `uint32` subtraction, `int8` conversions and the cross-colour mask composition.
  No `bv_decide` here, and none of the lemmas used from `LTransformColor` depends on one (the
  `bv_decide` lemmas `chR_mk`… of `LTransformPixel` carry extra axioms: `chR_mk0`… below replace them).
-/
namespace Webp.Proofs.FuncsLossless2
open Webp.Go Webp.Go.IntSem Webp.Proofs.FuncsBridge Webp.Proofs.FuncsLossless
open Webp.Spec.LTransform (sext8 byteOfInt chR chG chB mk colorDelta)
open Webp.Proofs.LTransformColor (byteOfInt_toNat sext8_mod)

/-! ## `Nat.log2` and the `bitsLog2Floor` loop -/

theorem log2_step (n : Nat) (h : 2 ≤ n) : Nat.log2 n = Nat.log2 (n / 2) + 1 := by
  rw [Nat.log2_def n]; simp [h]
theorem log2_small (n : Nat) (h : n < 2) : Nat.log2 n = 0 := by
  rw [Nat.log2_def n]; simp; omega

theorem whileFuel_log2 (fuel : Nat) : ∀ (log : Int) (n : Nat), Nat.log2 n ≤ fuel →
    ∃ m : Int, whileFuel fuel (fun ((_log, n) : Int × Int) => (decide (n > 1))) (fun ((log, n) : Int × Int) =>
      let log : Int := (log + 1)
      let n : Int := (shr n 1)
      (.ok (log, n) : R (Int × Int))) (log, (n : Int)) = .ok (log + (Nat.log2 n : Int), m) := by
  induction fuel with
  | zero =>
    intro log n h
    have hn : n < 2 := by
      by_cases h2 : 2 ≤ n
      · rw [log2_step n h2] at h; omega
      · omega
    have : ¬ ((n : Int) > 1) := by omega
    refine ⟨n, ?_⟩
    simp [whileFuel, this, log2_small n hn]
  | succ f ih =>
    intro log n h
    by_cases h2 : 2 ≤ n
    · have hc : ((n : Int) > 1) := by omega
      rw [log2_step n h2] at h
      obtain ⟨m, hm⟩ := ih (log + 1) (n / 2) (by omega)
      refine ⟨m, ?_⟩
      have e : shr (n : Int) 1 = ((n / 2 : Nat) : Int) := by
        rw [shr_nat_lit, nat_shr]
      simp only [whileFuel, hc, decide_true, if_true, Res.bind, e, hm, log2_step n h2]
      congr 2; omega
    · have : ¬ ((n : Int) > 1) := by omega
      refine ⟨n, ?_⟩
      simp [whileFuel, this, log2_small n (by omega)]

theorem log2_pos (n : Nat) (h : 2 ≤ n) : 1 ≤ Nat.log2 n := by
  rw [log2_step n h]; omega

/-! ## `uint32` subtraction -/

theorem wrapU32_sub_nat (x y : Nat) (hy : y ≤ 4294967296) :
    wrapU 32 ((x : Int) - (y : Int)) = (((4294967296 - y + x) % 4294967296 : Nat) : Int) := by
  rw [wrapU32_eq]; omega

/-! ## `int8` conversions, the cross-colour delta -/

theorem sext8_range (b : UInt8) : -128 ≤ sext8 b ∧ sext8 b ≤ 127 := by
  unfold sext8; have := b.toNat_lt; split <;> omega

/-- product of two `int8` values -/
theorem mul_s8_range (a b : Int) (ha0 : -128 ≤ a) (ha1 : a ≤ 127) (hb0 : -128 ≤ b) (hb1 : b ≤ 127) :
    -16256 ≤ a * b ∧ a * b ≤ 16384 := by
  have h1 : 0 ≤ (a + 128) * (127 - b) := Int.mul_nonneg (by omega) (by omega)
  have h2 : 0 ≤ (127 - a) * (b + 128) := Int.mul_nonneg (by omega) (by omega)
  have h3 : 0 ≤ (a + 128) * (b + 128) := Int.mul_nonneg (by omega) (by omega)
  have h4 : 0 ≤ (127 - a) * (127 - b) := Int.mul_nonneg (by omega) (by omega)
  simp only [Int.add_mul, Int.mul_add, Int.sub_mul, Int.mul_sub] at h1 h2 h3 h4
  have : b * a = a * b := Int.mul_comm b a
  omega

/-- `int8(v)` is the sign extension of the low byte -/
theorem wrapS8_eq_sext8 (v : Int) : wrapS 8 v = sext8 (byteOfInt v) := by
  have h := byteOfInt_toNat v
  rw [wrapS8_cases]; unfold sext8
  have h0 : 0 ≤ v % 256 := Int.emod_nonneg _ (by decide)
  split <;> split <;> omega

theorem wrapS8_nat_eq_sext8 (c : UInt8) : wrapS 8 (c.toNat : Int) = sext8 c := by
  rw [wrapS8_eq_sext8, Webp.Proofs.LTransformColor.byteOfInt_toNat_self]

theorem shr_5 (a : Int) : shr a 5 = a >>> 5 := rfl

theorem xor255 : ∀ k : Fin 256, 255 ^^^ k.val = 255 - k.val := by decide +kernel

/-- `x & 0xff` on any integer is the residue mod 256 -/
theorem band_255_int (x : Int) : band x 255 = x % 256 := by
  cases x with
  | ofNat n =>
    show ((n &&& 255 : Nat) : Int) = (n : Int) % 256
    rw [nat_and_255]; omega
  | negSucc n =>
    show ((natLdiff 255 n : Nat) : Int) = Int.negSucc n % 256
    unfold natLdiff
    have h1 : 255 &&& (255 ^^^ n) = (255 ^^^ n) % 256 := by rw [Nat.and_comm]; exact nat_and_255 _
    have h2 : (255 ^^^ n) % 256 = 255 ^^^ (n % 256) := by
      have := @Nat.xor_mod_two_pow 255 n 8
      simpa using this
    have h3 := xor255 ⟨n % 256, Nat.mod_lt _ (by decide)⟩
    simp only at h3
    rw [h1, h2, h3]
    omega

theorem wrapU8_wrapS8 (x : Int) : wrapU 8 (wrapS 8 x) = x % 256 := by
  rw [wrapU8_eq, wrapS8_cases]; split <;> omega

theorem wrapU8_sext8 (b : UInt8) : wrapU 8 (sext8 b) = (b.toNat : Int) := by
  rw [wrapU8_eq, sext8_mod]

theorem chG_toNat (p : UInt32) : ((chG p).toNat : Int) = ((p.toNat >>> 8 : Nat) : Int) % 256 := by
  simp only [chG, UInt32.toNat_toUInt8, UInt32.toNat_shiftRight, UInt32.toNat_ofNat, Nat.reducePow, Nat.reduceMod]
  omega
theorem chR_toNat (p : UInt32) : ((chR p).toNat : Int) = ((p.toNat >>> 16 : Nat) : Int) % 256 := by
  simp only [chR, UInt32.toNat_toUInt8, UInt32.toNat_shiftRight, UInt32.toNat_ofNat, Nat.reducePow, Nat.reduceMod]
  omega
theorem chB_toNat (p : UInt32) : ((chB p).toNat : Int) = (p.toNat : Int) % 256 := by
  simp only [chB, UInt32.toNat_toUInt8]
  omega

/-- the mask composition on both sides, for channel values already reduced mod 256 -/
theorem compose_px (p : UInt32) (r b : Int) (hr0 : 0 ≤ r) (hr1 : r < 256) (hb0 : 0 ≤ b) (hb1 : b < 256) :
    bor (bor (band (p.toNat : Int) 4278255360) (wrapU 32 (shl (wrapU 32 r) 16))) (wrapU 32 b)
      = ((((p &&& 0xff00ff00) ||| ((byteOfInt r).toUInt32 <<< (16 : UInt32))) ||| (byteOfInt b).toUInt32).toNat : Int) := by
  obtain ⟨rn, rfl⟩ := Int.eq_ofNat_of_zero_le hr0
  obtain ⟨bn, rfl⟩ := Int.eq_ofNat_of_zero_le hb0
  have er : (byteOfInt (rn : Int)).toNat = rn := by have := byteOfInt_toNat (rn : Int); omega
  have eb : (byteOfInt (bn : Int)).toNat = bn := by have := byteOfInt_toNat (bn : Int); omega
  simp only [band_nat_lit, wrapU_nat, shl_nat_lit, bor_nat, UInt32.toNat_or, UInt32.toNat_and, UInt32.toNat_shiftLeft,
    UInt32.toNat_ofNat, UInt8.toNat_toUInt32, Nat.reducePow, Nat.reduceMod]
  rw [er, eb, Nat.mod_eq_of_lt (by omega : rn < 4294967296), Nat.mod_eq_of_lt (by omega : bn < 4294967296)]

/-! ## channels of a packed multiplier word (arithmetic proofs, no `bv_decide`) -/

theorem or3_nat (r g b : Nat) (hg : g < 256) (hb : b < 256) :
    (r <<< 16 ||| g <<< 8) ||| b = r * 65536 + g * 256 + b := by
  have hA : r <<< 16 ||| g <<< 8 = (r * 256 + g) <<< 8 := by
    rw [← Nat.shiftLeft_add_eq_or_of_lt (i := 16) (b := g <<< 8) (by rw [Nat.shiftLeft_eq]; omega) r]
    simp only [Nat.shiftLeft_eq]; omega
  rw [hA, ← Nat.shiftLeft_add_eq_or_of_lt (i := 8) (by omega) _]
  simp only [Nat.shiftLeft_eq]; omega

theorem mk0_toNat (r g b : UInt8) : (mk 0 r g b).toNat = r.toNat * 65536 + g.toNat * 256 + b.toNat := by
  have hr := r.toNat_lt; have hg := g.toNat_lt; have hb := b.toNat_lt
  simp only [mk, UInt32.toNat_or, UInt32.toNat_shiftLeft, UInt32.toNat_ofNat, UInt8.toNat_toUInt32, Nat.reducePow,
    Nat.reduceMod]
  have h0 : (0 : UInt8).toNat <<< 24 % 4294967296 = 0 := by decide
  have h1 : r.toNat <<< 16 % 4294967296 = r.toNat <<< 16 := by
    apply Nat.mod_eq_of_lt; rw [Nat.shiftLeft_eq]; omega
  have h2 : g.toNat <<< 8 % 4294967296 = g.toNat <<< 8 := by
    apply Nat.mod_eq_of_lt; rw [Nat.shiftLeft_eq]; omega
  rw [h0, h1, h2, Nat.zero_or]
  exact or3_nat _ _ _ (by omega) (by omega)

theorem chR_mk0 (r g b : UInt8) : chR (mk 0 r g b) = r := by
  apply UInt8.toNat_inj.mp
  have hr := r.toNat_lt; have hg := g.toNat_lt; have hb := b.toNat_lt
  simp only [chR, UInt32.toNat_toUInt8, UInt32.toNat_shiftRight, UInt32.toNat_ofNat, Nat.reducePow, Nat.reduceMod,
    mk0_toNat, nat_shr]
  omega
theorem chG_mk0 (r g b : UInt8) : chG (mk 0 r g b) = g := by
  apply UInt8.toNat_inj.mp
  have hr := r.toNat_lt; have hg := g.toNat_lt; have hb := b.toNat_lt
  simp only [chG, UInt32.toNat_toUInt8, UInt32.toNat_shiftRight, UInt32.toNat_ofNat, Nat.reducePow, Nat.reduceMod,
    mk0_toNat, nat_shr]
  omega
theorem chB_mk0 (r g b : UInt8) : chB (mk 0 r g b) = b := by
  apply UInt8.toNat_inj.mp
  have hr := r.toNat_lt; have hg := g.toNat_lt; have hb := b.toNat_lt
  simp only [chB, UInt32.toNat_toUInt8, mk0_toNat]
  omega
end Webp.Proofs.FuncsLossless2
