import Webp.Proofs.ContainerBounds
import Webp.Proofs.ContainerDemux
/-
  C16 helper lemmas: magic bytes, the glue functions of webp.go against the parser result, and
  the lock-step simulation between `container.Parser` and `mux.Demuxer` on the same bytes.
-/
namespace Webp.Go
set_option maxHeartbeats 400000

theorem byteAt_take {l : Bytes} {k i : Nat} (h : i < k) : byteAt (l.take k) i = byteAt l i := by
  unfold byteAt
  simp [List.getD, h]

theorem byteAt_eq_getElem {l : Bytes} {i : Nat} (h : i < l.length) :
    byteAt l i = (l[i]).toNat := by
  unfold byteAt
  simp [List.getD, List.getElem?_eq_getElem h]

/-- four bytes are determined by their little-endian value -/
theorem take4_of_le32 {b : Bytes} {o : Nat} (h : o + 4 ≤ b.length) {v0 v1 v2 v3 : UInt8}
    (hv : le32 b o = v0.toNat + v1.toNat * 256 + v2.toNat * 65536 + v3.toNat * 16777216) :
    (b.drop o).take 4 = [v0, v1, v2, v3] := by
  unfold le32 at hv
  rw [byteAt_eq_getElem (show o < b.length by omega),
    byteAt_eq_getElem (show o + 1 < b.length by omega),
    byteAt_eq_getElem (show o + 2 < b.length by omega),
    byteAt_eq_getElem (show o + 3 < b.length by omega)] at hv
  have l0 := UInt8.toNat_lt b[o]
  have l1 := UInt8.toNat_lt b[o+1]
  have l2 := UInt8.toNat_lt b[o+2]
  have l3 := UInt8.toNat_lt b[o+3]
  have m0 := UInt8.toNat_lt v0
  have m1 := UInt8.toNat_lt v1
  have m2 := UInt8.toNat_lt v2
  have m3 := UInt8.toNat_lt v3
  have e0 : b[o] = v0 := UInt8.toNat_inj.mp (by omega)
  have e1 : b[o+1] = v1 := UInt8.toNat_inj.mp (by omega)
  have e2 : b[o+2] = v2 := UInt8.toNat_inj.mp (by omega)
  have e3 : b[o+3] = v3 := UInt8.toNat_inj.mp (by omega)
  apply List.ext_getElem
  · simp [List.length_take, List.length_drop]; omega
  · intro i h1 h2
    simp only [List.length_cons, List.length_nil] at h2
    have hi : i = 0 ∨ i = 1 ∨ i = 2 ∨ i = 3 := by omega
    rcases hi with rfl | rfl | rfl | rfl <;> simp [List.getElem_take, List.getElem_drop, e0, e1, e2, e3]

end Webp.Go

namespace Webp.Impl.Parser
open Webp.Go
set_option maxHeartbeats 400000
set_option linter.unusedTactic false
set_option linter.unusedVariables false

theorem tagRIFF : tagBytes "RIFF" = [82, 73, 70, 70] := by decide +kernel
theorem tagWEBP : tagBytes "WEBP" = [87, 69, 66, 80] := by decide +kernel

/-- `image.RegisterFormat("webp", "RIFF????WEBP", …)`: whatever the parser accepts carries the
    magic the standard library dispatches on -/
theorem parse_magic {b : Bytes} {s : State} (h : parse b = .ok s) :
    b.take 4 = tagBytes "RIFF" ∧ (b.drop 8).take 4 = tagBytes "WEBP" := by
  rcases parse_cases b with ⟨e, he⟩ | ⟨h12, hr, hw, _⟩
  · rewrite [he] at h; cases h
  · rw [ccRIFF_val] at hr
    rw [ccWEBP_val] at hw
    rw [tagRIFF, tagWEBP]
    constructor
    · have := take4_of_le32 (b := b) (o := 0) (by omega) (v0 := 82) (v1 := 73) (v2 := 70)
        (v3 := 70) (by rw [hr]; decide)
      simpa using this
    · exact take4_of_le32 (b := b) (o := 8) (by omega) (v0 := 87) (v1 := 69) (v2 := 66)
        (v3 := 80) (by rw [hw]; decide)

theorem ccVP8_ne_ccVP8L : ccVP8 ≠ ccVP8L := by rw [ccVP8_val, ccVP8L_val]; decide

/-- the lossless flag of a simple-format frame is decided by the chunk's FourCC -/
theorem simpleFinish_lossless {st : State} {fc : Nat} {pl : Bytes} {sd : State}
    (h : simpleFinish st fc pl = .ok sd) (hf : st.frames = []) :
    ∃ f, sd.frames = [f] ∧ (fc = ccVP8L → f.isLossless = true) ∧
      (fc ≠ ccVP8L → f.isLossless = false) := by
  unfold simpleFinish at h
  by_cases c1 : fc = ccVP8L
  · rewrite [if_pos c1] at h
    cases hh : parseVP8LHeader pl with
    | err e => rewrite [hh] at h; cases h
    | panic => rewrite [hh] at h; cases h
    | hang => rewrite [hh] at h; cases h
    | ok v =>
      obtain ⟨w, hgt, a⟩ := v
      rewrite [hh] at h
      injection h with h
      subst h
      exact ⟨_, by rw [hf]; rfl, fun _ => rfl, fun hn => absurd c1 hn⟩
  · rewrite [if_neg c1] at h
    cases hh : parseVP8Header pl with
    | err e => rewrite [hh] at h; cases h
    | panic => rewrite [hh] at h; cases h
    | hang => rewrite [hh] at h; cases h
    | ok v =>
      obtain ⟨w, hgt⟩ := v
      rewrite [hh] at h
      injection h with h
      subst h
      exact ⟨_, by rw [hf]; rfl, fun hn => absurd hn c1, fun _ => rfl⟩

/-- format reported for a simple file ↔ codec of its only frame -/
theorem parse_format_lossless {data : Bytes} {s : State} (h : parse data = .ok s) :
    (s.features.format = .vp8 → ∃ f, s.frames = [f] ∧ f.isLossless = false) ∧
    (s.features.format = .vp8l → ∃ f, s.frames = [f] ∧ f.isLossless = true) := by
  rcases parse_cases data with ⟨e, he⟩ | ⟨_, _, _, _, h8, he⟩
  · rewrite [he] at h; cases h
  rewrite [he] at h
  unfold dispatch at h
  generalize riffBuf data = buf at h h8
  have simple : ∀ fmt, le32 buf 0 = ccVP8 ∨ le32 buf 0 = ccVP8L →
      parseSingleImage { features := { format := fmt } } buf = .ok s →
      s.features.format = fmt ∧ ∃ f, s.frames = [f] ∧
        (le32 buf 0 = ccVP8L → f.isLossless = true) ∧
        (le32 buf 0 ≠ ccVP8L → f.isLossless = false) := by
    intro fmt _ hs
    obtain ⟨_, f0, pl0, _, _, hfm, _⟩ := parseSingleImage_ok hs rfl rfl
    rewrite [parseSingleImage_eq] at hs
    rcases chunkAt_cases buf with ⟨e, hc⟩ | ⟨_, hc⟩
    · rewrite [hc] at hs; cases hs
    · rewrite [hc] at hs
      obtain ⟨f, h1, h2, h3⟩ := simpleFinish_lossless hs rfl
      exact ⟨hfm, f, h1, h2, h3⟩
  by_cases c1 : le32 buf 0 = ccVP8X
  · rewrite [if_pos c1] at h
    have := (parseVP8X_ok h).2
    constructor <;> intro hf <;> rewrite [this] at hf <;> cases hf
  rewrite [if_neg c1] at h
  by_cases c2 : le32 buf 0 = ccVP8
  · rewrite [if_pos c2] at h
    obtain ⟨hfm, f, h1, _, h3⟩ := simple _ (.inl c2) h
    constructor
    · intro _; exact ⟨f, h1, h3 (by rw [c2]; exact ccVP8_ne_ccVP8L)⟩
    · intro hf; rewrite [hfm] at hf; cases hf
  rewrite [if_neg c2] at h
  by_cases c3 : le32 buf 0 = ccVP8L
  · rewrite [if_pos c3] at h
    obtain ⟨hfm, f, h1, h2, _⟩ := simple _ (.inr c3) h
    constructor
    · intro hf; rewrite [hfm] at hf; cases hf
    · intro _; exact ⟨f, h1, h2 c3⟩
  · rewrite [if_neg c3] at h; cases h

end Webp.Impl.Parser

namespace Webp.Impl.Config
open Webp.Go Webp.Impl.Parser

theorem decodeTarget_ok_inv {b : Bytes} {t : DecodeTarget} (h : decodeTarget b = .ok (some t)) :
    ∃ p f rest, parse b = .ok p ∧ p.frames = f :: rest ∧
      t = { isLossless := f.isLossless, payload := f.payload.getD [], alpha := f.alphaData.getD [],
            model := if f.isLossless then .nrgba
                     else if (f.alphaData.getD []).length > 0 then .nrgba else .ycbcr,
            width := f.width, height := f.height } := by
  unfold decodeTarget at h
  cases hp : parse b with
  | err e => rw [hp] at h; cases h
  | panic => rw [hp] at h; cases h
  | hang => rw [hp] at h; cases h
  | ok p =>
    rw [hp, Res.bind_ok] at h
    cases hf : p.frames with
    | nil => rw [hf] at h; injection h with h; cases h
    | cons f rest =>
      rw [hf] at h
      injection h with h; injection h with h
      exact ⟨p, f, rest, rfl, hf, h.symm⟩

theorem getFeatures_of_frames {b : Bytes} {p : State} {f : FrameInfo} {rest : List FrameInfo}
    (hp : parse b = .ok p) (hf : p.frames = f :: rest) :
    getFeatures b = .ok {
      width := p.features.width, height := p.features.height, hasAlpha := p.features.hasAlpha,
      hasAnimation := p.features.hasAnim, frameCount := p.frames.length,
      loopCount := p.features.loopCount,
      format := match p.features.format with
        | .vp8 => "lossy" | .vp8l => "lossless" | .vp8x => "extended" | .undefined => "unknown" } := by
  have hne : ¬ (p.frames.length = 0 ∧ (!p.features.hasAnim) = true) := by
    rw [hf]; exact fun h => absurd h.1 (by simp)
  unfold getFeatures
  rw [hp, Res.bind_ok, if_neg hne]
  rfl

theorem decodeConfig_of_frames (lt : Bool) {b : Bytes} {p : State} {f : FrameInfo}
    {rest : List FrameInfo} (hp : parse b = .ok p) (hf : p.frames = f :: rest) :
    decodeConfigWith lt b = .ok { model := configModel lt p, width := p.features.width,
                                  height := p.features.height } := by
  have hne : ¬ (p.frames.length = 0 ∧ (!p.features.hasAnim) = true) := by
    rw [hf]; exact fun h => absurd h.1 (by simp)
  unfold decodeConfigWith
  rw [hp, Res.bind_ok, if_neg hne]
  rfl

end Webp.Impl.Config
