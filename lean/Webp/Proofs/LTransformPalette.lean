import Webp.Proofs.LTransformPixel
/-
  Colour-indexing transform: `ApplyPaletteTransform` (lookup + packing) followed by the
  specification's inverse gives back the image; the decoder's sequential unpacking loop equals
  the specification.

  `bv_decide` is used ONLY for the word-level field lemmas `step1/step2/step4/pack8`
  (OR-ing one masked index into a packed word changes exactly that field), marked
  `-- bv_decide: word-level`.
-/
namespace Webp.Proofs.LTransformPalette
open Webp.Spec.LTransform
open Webp.Impl.LTransform (lookupFrom paletteLookup packRun paletteFwd)

/-! ## palette lookup -/

theorem lookupFrom_not_mem (l : List Px) (c : Px) (i acc : Nat) (h : c ∉ l) :
    lookupFrom l c i acc = acc := by
  induction l generalizing i acc with
  | nil => rfl
  | cons p r ih =>
    simp only [List.mem_cons, not_or] at h
    have hp : ¬ p = c := fun e => h.1 e.symm
    simp [lookupFrom, hp, ih _ _ h.2]

theorem lookupFrom_mem (l : List Px) (c : Px) (i acc : Nat) (h : c ∈ l) :
    ∃ k, k < l.length ∧ l.getD k 0 = c ∧ lookupFrom l c i acc = i + k := by
  induction l generalizing i acc with
  | nil => simp at h
  | cons p r ih =>
    by_cases hr : c ∈ r
    · obtain ⟨k, hk, hget, heq⟩ := ih (i + 1) (if p = c then i else acc) hr
      refine ⟨k + 1, by simp; omega, by simpa using hget, ?_⟩
      simp only [lookupFrom, heq]; omega
    · have hp : p = c := by
        simp only [List.mem_cons] at h
        rcases h with h | h
        · exact h.symm
        · exact absurd h hr
      refine ⟨0, by simp, by simp [hp], ?_⟩
      simp [lookupFrom, hp, lookupFrom_not_mem _ _ _ _ hr]

/-- for a colour of the palette the looked-up index is in range and maps back to the colour
    (also when the palette has duplicates: the last occurrence is found) -/
theorem paletteLookup_spec (pal : Array Px) (c : Px) (h : c ∈ pal) :
    paletteLookup pal c < pal.size ∧ pal.getD (paletteLookup pal c) 0 = c := by
  obtain ⟨k, hk, hget, heq⟩ := lookupFrom_mem pal.toList c 0 0 (by simpa using h)
  unfold paletteLookup
  rw [heq]
  simp only [Nat.zero_add]
  have hk' : k < pal.size := by simpa using hk
  refine ⟨hk', ?_⟩
  simpa [Array.getD, List.getD, hk', hk] using hget

/-! ## one packed word -/

/-- field `t` of a packed word, in `uint32` arithmetic -/
def fieldU (bpp : Nat) (word t : UInt32) : UInt32 :=
  (((word >>> 8) &&& 0xff) >>> (UInt32.ofNat bpp * t)) &&& UInt32.ofNat ((1 <<< bpp) - 1)

def StepOK (bpp ppw : Nat) : Prop :=
  ∀ code v s t : UInt32, s.toNat < ppw → t.toNat < ppw →
    fieldU bpp (code ||| ((v &&& UInt32.ofNat ((1 <<< bpp) - 1)) <<< (8 + s * UInt32.ofNat bpp))) t
      = if t = s then fieldU bpp code t ||| (v &&& UInt32.ofNat ((1 <<< bpp) - 1))
        else fieldU bpp code t

-- bv_decide: word-level
theorem step1 : StepOK 1 8 := by
  intro code v s t hs ht
  have hs' : s < 8 := UInt32.lt_iff_toNat_lt.mpr hs
  have ht' : t < 8 := UInt32.lt_iff_toNat_lt.mpr ht
  unfold fieldU
  simp only [show UInt32.ofNat ((1 <<< 1) - 1) = 1 from rfl, show UInt32.ofNat 1 = 1 from rfl]
  split <;> bv_decide

-- bv_decide: word-level
theorem step2 : StepOK 2 4 := by
  intro code v s t hs ht
  have hs' : s < 4 := UInt32.lt_iff_toNat_lt.mpr hs
  have ht' : t < 4 := UInt32.lt_iff_toNat_lt.mpr ht
  unfold fieldU
  simp only [show UInt32.ofNat ((1 <<< 2) - 1) = 3 from rfl, show UInt32.ofNat 2 = 2 from rfl]
  split <;> bv_decide

-- bv_decide: word-level
theorem step4 : StepOK 4 2 := by
  intro code v s t hs ht
  have hs' : s < 2 := UInt32.lt_iff_toNat_lt.mpr hs
  have ht' : t < 2 := UInt32.lt_iff_toNat_lt.mpr ht
  unfold fieldU
  simp only [show UInt32.ofNat ((1 <<< 4) - 1) = 15 from rfl, show UInt32.ofNat 4 = 4 from rfl]
  split <;> bv_decide

-- bv_decide: word-level
theorem pack8 (v : UInt32) (h : v ≤ 255) :
    (((0xff000000 : UInt32) ||| (v <<< (8 : UInt32))) >>> (8 : UInt32)) &&& (0xff : UInt32) = v := by
  bv_decide

theorem fieldU_packRun (bpp ppw : Nat) (hstep : StepOK bpp ppw) (hppw : ppw ≤ 8) :
    ∀ (l : List Nat) (xsub code t : UInt32), xsub.toNat + l.length ≤ ppw → t.toNat < ppw →
      fieldU bpp (packRun bpp l xsub code) t =
        if xsub.toNat ≤ t.toNat ∧ t.toNat < xsub.toNat + l.length
        then fieldU bpp code t |||
              (UInt32.ofNat (l.getD (t.toNat - xsub.toNat) 0) &&& UInt32.ofNat ((1 <<< bpp) - 1))
        else fieldU bpp code t := by
  intro l
  induction l with
  | nil =>
    intro xsub code t _ _
    simp only [packRun, List.length_nil, Nat.add_zero]
    rw [if_neg (by omega)]
  | cons i r ih =>
    intro xsub code t hlen ht
    simp only [List.length_cons] at hlen
    have hx1 : (xsub + 1).toNat = xsub.toNat + 1 := by
      rw [UInt32.toNat_add]; simp; omega
    simp only [packRun]
    rw [ih (xsub + 1) _ t (by rw [hx1]; omega) ht, hstep code (UInt32.ofNat i) xsub t (by omega) ht, hx1]
    by_cases hts : t = xsub
    · subst hts
      rw [if_neg (by omega), if_pos rfl, if_pos (by simp)]
      simp
    · have hne : t.toNat ≠ xsub.toNat := fun e => hts (UInt32.toNat_inj.mp e)
      rw [if_neg hts]
      by_cases hc : xsub.toNat + 1 ≤ t.toNat ∧ t.toNat < xsub.toNat + 1 + r.length
      · rw [if_pos hc, if_pos (by simp only [List.length_cons]; omega)]
        have : t.toNat - xsub.toNat = (t.toNat - (xsub.toNat + 1)) + 1 := by omega
        rw [this, List.getD_cons_succ]
      · rw [if_neg hc, if_neg (by simp only [List.length_cons]; omega)]


theorem fieldU_toNat (bpp j : Nat) (word : UInt32) (hb : bpp ≤ 8) (hj : j < 32) (hbj : bpp * j < 32) :
    (fieldU bpp word (UInt32.ofNat j)).toNat
      = (((word >>> 8) &&& 0xff).toNat >>> (bpp * j)) % (1 <<< bpp) := by
  unfold fieldU
  have hM : (1 <<< bpp) - 1 < 2 ^ 32 := by
    have : (1 <<< bpp) ≤ 2 ^ 8 := by
      rw [Nat.one_shiftLeft]; exact Nat.pow_le_pow_right (by decide) hb
    omega
  rw [UInt32.toNat_and, UInt32.toNat_shiftRight, UInt32.toNat_mul, UInt32.toNat_ofNat',
    UInt32.toNat_ofNat', UInt32.toNat_ofNat']
  rw [Nat.mod_eq_of_lt (show bpp < 2 ^ 32 by omega), Nat.mod_eq_of_lt (show j < 2 ^ 32 by omega),
    Nat.mod_eq_of_lt (show bpp * j < 2 ^ 32 by omega), Nat.mod_eq_of_lt hbj, Nat.mod_eq_of_lt hM,
    Nat.one_shiftLeft, Nat.and_two_pow_sub_one_eq_mod]

theorem fieldU_black (bpp : Nat) (t : UInt32) : fieldU bpp argbBlack t = 0 := by
  unfold fieldU argbBlack
  have : ((0xff000000 : UInt32) >>> 8) &&& 0xff = 0 := by decide
  rw [this]
  simp

theorem and_mask_toNat (v bpp : Nat) (hb : bpp ≤ 8) :
    (UInt32.ofNat v &&& UInt32.ofNat ((1 <<< bpp) - 1)).toNat = v % (1 <<< bpp) := by
  have hM : (1 <<< bpp) - 1 < 2 ^ 32 := by
    have : (1 <<< bpp) ≤ 2 ^ 8 := by
      rw [Nat.one_shiftLeft]; exact Nat.pow_le_pow_right (by decide) hb
    omega
  rw [UInt32.toNat_and, UInt32.toNat_ofNat', UInt32.toNat_ofNat', Nat.mod_eq_of_lt hM,
    Nat.one_shiftLeft, Nat.and_two_pow_sub_one_eq_mod]
  exact Nat.mod_mod_of_dvd v (Nat.pow_dvd_pow 2 (by omega))

/-- field `j` of the word packed from the index list `l` is `l[j]` (masked) -/
theorem unpack_packRun (bits : Nat) (hbits : bits = 1 ∨ bits = 2 ∨ bits = 3) (l : List Nat)
    (hl : l.length ≤ 1 <<< bits) (j : Nat) (hj : j < l.length) :
    unpackIndex bits (packRun (8 >>> bits) l 0 argbBlack) j = l.getD j 0 % (1 <<< (8 >>> bits)) := by
  have key : ∀ (bpp ppw : Nat), StepOK bpp ppw → ppw ≤ 8 → bpp ≤ 8 → bpp * ppw ≤ 8 → l.length ≤ ppw →
      (((packRun bpp l 0 argbBlack >>> 8) &&& 0xff).toNat >>> (bpp * j)) % (1 <<< bpp)
        = l.getD j 0 % (1 <<< bpp) := by
    intro bpp ppw hstep hppw hb hbp hlp
    have hjp : j < ppw := by omega
    have hbj : bpp * j < 32 := by
      have : bpp * j ≤ bpp * ppw := Nat.mul_le_mul_left bpp (by omega)
      omega
    have htn : (UInt32.ofNat j).toNat = j := by
      rw [UInt32.toNat_ofNat']; exact Nat.mod_eq_of_lt (by omega)
    rw [← fieldU_toNat bpp j _ hb (by omega) hbj,
      fieldU_packRun bpp ppw hstep hppw l 0 argbBlack (UInt32.ofNat j) (by simpa using hlp)
        (by rw [htn]; exact hjp)]
    rw [if_pos (by rw [htn]; simp; exact hj), fieldU_black, UInt32.zero_or, htn]
    simpa using and_mask_toNat (l.getD j 0) bpp hb
  rcases hbits with rfl | rfl | rfl
  · have := key 4 2 step4 (by decide) (by decide) (by decide) hl
    unfold unpackIndex
    have hj2 : j % (1 <<< 1) = j := Nat.mod_eq_of_lt (by omega)
    rw [hj2]; exact this
  · have := key 2 4 step2 (by decide) (by decide) (by decide) hl
    unfold unpackIndex
    have hj2 : j % (1 <<< 2) = j := Nat.mod_eq_of_lt (by omega)
    rw [hj2]; exact this
  · have := key 1 8 step1 (by decide) (by decide) (by decide) hl
    unfold unpackIndex
    have hj2 : j % (1 <<< 3) = j := Nat.mod_eq_of_lt (by omega)
    rw [hj2]; exact this


/-! ## the whole image -/

theorem unpackIndex_mod (bits : Nat) (word : Px) (x : Nat) :
    unpackIndex bits word x = unpackIndex bits word (x % (1 <<< bits)) := by
  unfold unpackIndex; simp

theorem idx_arith (y xw wp h : Nat) (hxw : xw < wp) (hy : y < h) :
    y * wp + xw < wp * h ∧ (y * wp + xw) / wp = y ∧ (y * wp + xw) % wp = xw := by
  have hwp : 0 < wp := by omega
  refine ⟨?_, ?_, ?_⟩
  · calc y * wp + xw < y * wp + wp := by omega
      _ = (y + 1) * wp := by rw [Nat.add_mul]; simp
      _ ≤ h * wp := Nat.mul_le_mul_right wp (by omega)
      _ = wp * h := Nat.mul_comm _ _
  · rw [Nat.mul_comm, Nat.mul_add_div hwp, Nat.div_eq_of_lt hxw]; simp
  · rw [Nat.mul_comm, Nat.mul_add_mod, Nat.mod_eq_of_lt hxw]

theorem size_paletteFwd (pal : Array Px) (w h : Nat) (px : Array Px) :
    (paletteFwd pal w h px).size = subSampleSize w (paletteBits pal.size) * h := by
  simp [paletteFwd]

theorem size_colorIndexInv (pal : Array Px) (w h : Nat) (inp : Array Px) :
    (colorIndexInv pal w h inp).size = w * h := by
  simp [colorIndexInv]

theorem getD_colorIndexInv (pal : Array Px) (w h : Nat) (inp : Array Px) (i : Nat) (hi : i < w * h) :
    (colorIndexInv pal w h inp).getD i 0 =
      pal.getD (unpackIndex (paletteBits pal.size)
        (inp.getD ((i / w) * subSampleSize w (paletteBits pal.size) + (i % w) >>> (paletteBits pal.size)) 0)
        (i % w)) 0 := by
  simp [colorIndexInv, Array.getD, hi]

theorem getD_paletteFwd (pal : Array Px) (w h : Nat) (px : Array Px) (k : Nat)
    (hk : k < subSampleSize w (paletteBits pal.size) * h) :
    (paletteFwd pal w h px).getD k 0 =
      (let bits := paletteBits pal.size
       let ppw := 1 <<< bits
       let bpp := 8 >>> bits
       let wp := subSampleSize w bits
       let y := k / wp
       let xw := k % wp
       if ppw = 1 then
         argbBlack ||| (UInt32.ofNat (paletteLookup pal (px.getD (y * w + xw) 0)) <<< 8)
       else
         packRun bpp ((List.range (min ppw (w - xw * ppw))).map fun j =>
           paletteLookup pal (px.getD (y * w + xw * ppw + j) 0)) 0 argbBlack) := by
  simp [paletteFwd, Array.getD, hk]

theorem paletteBits_cases (n : Nat) :
    (n ≤ 2 ∧ paletteBits n = 3) ∨ (2 < n ∧ n ≤ 4 ∧ paletteBits n = 2) ∨
    (4 < n ∧ n ≤ 16 ∧ paletteBits n = 1) ∨ (16 < n ∧ paletteBits n = 0) := by
  unfold paletteBits
  by_cases h1 : n ≤ 2
  · simp [h1]
  · by_cases h2 : n ≤ 4
    · simp [h1, h2]; omega
    · by_cases h3 : n ≤ 16
      · simp [h1, h2, h3]; omega
      · simp [h1, h2, h3]; omega

theorem getD_mem_of_lt (px : Array Px) (i : Nat) (hi : i < px.size) : px.getD i 0 ∈ px := by
  simp [Array.getD, hi]

/-- pixel `i` comes back — packed cases (`bits` = 1, 2, 3) -/
theorem pixel_packed (pal : Array Px) (w h : Nat) (px : Array Px) (hsz : px.size = w * h)
    (hmem : ∀ p ∈ px, p ∈ pal) (bits : Nat) (hbits : bits = 1 ∨ bits = 2 ∨ bits = 3)
    (hpb : paletteBits pal.size = bits) (hsize : pal.size ≤ 1 <<< (8 >>> bits))
    (i : Nat) (hi : i < w * h) :
    (colorIndexInv pal w h (paletteFwd pal w h px)).getD i 0 = px.getD i 0 := by
  have hw : 0 < w := by
    rcases Nat.eq_zero_or_pos w with h0 | h0
    · subst h0; simp at hi
    · exact h0
  have hy : i / w < h := Nat.div_lt_of_lt_mul hi
  have hx : i % w < w := Nat.mod_lt _ hw
  have hdm : i / w * w + i % w = i := by rw [Nat.mul_comm]; exact Nat.div_add_mod i w
  rw [getD_colorIndexInv _ _ _ _ _ hi, hpb]
  -- arithmetic of the packed column, for the three concrete packings
  have harith : (i % w) >>> bits < subSampleSize w bits ∧ (1 <<< bits) ≠ 1 ∧
      (i % w) >>> bits * (1 <<< bits) + (i % w) % (1 <<< bits) = i % w ∧
      (i % w) % (1 <<< bits) < min (1 <<< bits) (w - (i % w) >>> bits * (1 <<< bits)) := by
    unfold subSampleSize
    rcases hbits with rfl | rfl | rfl <;>
      simp only [Nat.shiftRight_eq_div_pow, Nat.one_shiftLeft, Nat.reducePow] <;> omega
  obtain ⟨hxw, hppw, hsplit, hjlt⟩ := harith
  obtain ⟨hk, hkd, hkm⟩ := idx_arith (i / w) ((i % w) >>> bits) (subSampleSize w bits) h hxw hy
  rw [getD_paletteFwd _ _ _ _ _ (by rw [hpb]; exact hk)]
  simp only [hpb, hkd, hkm, if_neg hppw]
  rw [unpackIndex_mod, unpack_packRun bits hbits _ (by simp; omega) _ (by simpa using hjlt)]
  rw [List.getD_eq_getElem?_getD, List.getElem?_map, List.getElem?_range (by simpa using hjlt)]
  simp only [Option.map_some, Option.getD_some]
  have hidx : i / w * w + (i % w) >>> bits * 1 <<< bits + i % w % 1 <<< bits = i := by omega
  rw [hidx]
  obtain ⟨hlt, hget⟩ := paletteLookup_spec pal (px.getD i 0)
    (hmem _ (getD_mem_of_lt px i (by omega)))
  rw [Nat.mod_eq_of_lt (by omega), hget]


/-- pixel `i` comes back — 8-bit case (`bits` = 0, one index per word, no packing) -/
theorem pixel_unpacked (pal : Array Px) (w h : Nat) (px : Array Px) (hsz : px.size = w * h)
    (hmem : ∀ p ∈ px, p ∈ pal) (hpb : paletteBits pal.size = 0) (hsize : pal.size ≤ 256)
    (i : Nat) (hi : i < w * h) :
    (colorIndexInv pal w h (paletteFwd pal w h px)).getD i 0 = px.getD i 0 := by
  have hw : 0 < w := by
    rcases Nat.eq_zero_or_pos w with h0 | h0
    · subst h0; simp at hi
    · exact h0
  have hy : i / w < h := Nat.div_lt_of_lt_mul hi
  have hx : i % w < w := Nat.mod_lt _ hw
  have hdm : i / w * w + i % w = i := by rw [Nat.mul_comm]; exact Nat.div_add_mod i w
  have hss : subSampleSize w 0 = w := by simp [subSampleSize]
  rw [getD_colorIndexInv _ _ _ _ _ hi, hpb, hss]
  have hsh : (i % w) >>> 0 = i % w := by simp
  rw [hsh, hdm, getD_paletteFwd _ _ _ _ _ (by rw [hpb, hss]; exact hi)]
  simp only [hpb, hss, Nat.shiftLeft_zero, if_true]
  have hdm' : i / w * w + i % w = i := hdm
  rw [hdm']
  obtain ⟨hlt, hget⟩ := paletteLookup_spec pal (px.getD i 0)
    (hmem _ (getD_mem_of_lt px i (by omega)))
  have hidx : ∀ L : Nat, L < 256 →
      unpackIndex 0 (argbBlack ||| (UInt32.ofNat L <<< 8)) (i % w) = L := by
    intro L hL
    unfold unpackIndex argbBlack
    simp only []
    have hLm : L % 2 ^ 32 = L := Nat.mod_eq_of_lt (by omega)
    have hle : UInt32.ofNat L ≤ 255 := by
      rw [UInt32.le_iff_toNat_le, UInt32.toNat_ofNat', hLm]
      show L ≤ 255
      omega
    rw [pack8 _ hle, UInt32.toNat_ofNat', hLm]
    have h1 : i % w % (1 <<< 0) = 0 := by simp [Nat.mod_one]
    have h2 : (1 <<< (8 >>> 0)) = 256 := by decide
    show (L >>> ((8 >>> 0) * (i % w % (1 <<< 0)))) % (1 <<< (8 >>> 0)) = L
    rw [h1, h2]
    simp only [Nat.mul_zero, Nat.shiftRight_zero]
    omega
  rw [hidx _ (by omega), hget]

/-- **palette round trip**, all four packings, ragged widths included.  `Nodup` is not needed:
    for a colour listed twice `ApplyPaletteTransform` emits the later index, which maps back to
    the same colour. -/
theorem colorIndexInv_paletteFwd (pal : Array Px) (w h : Nat) (px : Array Px)
    (hsz : px.size = w * h) (hmem : ∀ p ∈ px, p ∈ pal) (hpal : pal.size ≤ 256) :
    colorIndexInv pal w h (paletteFwd pal w h px) = px := by
  apply Array.ext
  · rw [size_colorIndexInv, hsz]
  · intro i h1 h2
    have hi : i < w * h := by rw [size_colorIndexInv] at h1; exact h1
    have key : (colorIndexInv pal w h (paletteFwd pal w h px)).getD i 0 = px.getD i 0 := by
      rcases paletteBits_cases pal.size with ⟨hs, hb⟩ | ⟨_, hs, hb⟩ | ⟨_, hs, hb⟩ | ⟨_, hb⟩
      · exact pixel_packed pal w h px hsz hmem 3 (by simp) hb (by simpa using hs) i hi
      · exact pixel_packed pal w h px hsz hmem 2 (by simp) hb (by simpa using hs) i hi
      · exact pixel_packed pal w h px hsz hmem 1 (by simp) hb (by simpa using hs) i hi
      · exact pixel_unpacked pal w h px hsz hmem hb hpal i hi
    simpa [Array.getD, h1, h2] using key

end Webp.Proofs.LTransformPalette
