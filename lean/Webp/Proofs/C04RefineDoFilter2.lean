import Webp.Proofs.C04RefineDoFilter
/-
  C04 refinement, loop filter (stage D), one macroblock in one plane: the Go decoder's `doFilter`
  (`Webp.Impl.VP8DecEdges.filterPlane`: left macroblock edge, inner vertical edges, top macroblock edge, inner
  horizontal edges, with `limit + 4` / `limit`, `ilevel`, `hevThresh`) = `Webp.Spec.VP8.filterMBPlane`.
-/
namespace Webp.Proofs.C04RefineDoFilter
open Webp.Spec.VP8 (filterEdge filterMBPlane FilterParams Plane)
open Webp.Impl.VP8DecEdges (simpleStep mbStep subStep edgeLoop innerLoop filterPlane FParams)
open Webp.Proofs.C04RefineEdge (edgeStep filterEdge_fold)
open Webp.Proofs.C04RefineHeader (forIn_list_id)

theorem foldl_congr_mem {α β : Type} (l : List β) (f g : α → β → α) (a : α) (h : ∀ k ∈ l, ∀ x, f x k = g x k) :
    l.foldl f a = l.foldl g a := by
  induction l generalizing a with
  | nil => rfl
  | cons k l ih =>
    rw [List.foldl_cons, List.foldl_cons, h k (by simp)]
    exact ih _ (fun k' hk' x => h k' (by simp [hk']) x)

/-- an edge loop whose body is the specification's body at every position it visits -/
theorem edgeLoop_eq (kind E I hevT : Nat) (f : ByteArray → Nat → Nat → ByteArray) (p : ByteArray) (base along across n : Nat)
    (hf : ∀ k, k < n → ∀ q, f q (base + k * along) across = edgeStep kind E I hevT q (base + k * along) across) :
    edgeLoop f p base along across n = filterEdge kind E I hevT p base along across n := by
  rw [filterEdge_fold, ← List.range_eq_range']
  unfold edgeLoop
  exact foldl_congr_mem _ _ _ _ (fun k hk q => hf k (List.mem_range.mp hk) q)

/-- the specification's `for k in [1:m]` loops -/
theorem forIn_from1 {σ : Type} (m : Nat) (init : σ) (G : σ → Nat → σ) :
    forIn (m := Id) [1:m] init (fun k s => pure (ForInStep.yield (G s k))) =
      pure ((List.range (m - 1)).foldl (fun s k => G s (k + 1)) init) := by
  rw [Std.Legacy.Range.forIn_eq_forIn_range', forIn_list_id _ _ _ (fun k s => G s k) (fun _ _ => rfl)]
  have : List.range' 1 (m - 1) = (List.range (m - 1)).map (· + 1) := by
    rw [List.range'_eq_map_range]; congr 1; funext k; omega
  simp only [Std.Legacy.Range.size, Nat.add_sub_cancel, Nat.div_one]
  rw [this, List.foldl_map]

end Webp.Proofs.C04RefineDoFilter
