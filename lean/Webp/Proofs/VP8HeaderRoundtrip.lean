import Webp.Proofs.VP8HeaderStream
/-
  C06 header, part 2: segment header, filter header, quantiser fields, probabilities, skip
  probability and the whole header on the decision stream.
-/
namespace Webp.Proofs.VP8HeaderRoundtrip
open Webp.Impl.VP8Recon Webp.Impl.VP8SyntaxBytes Webp.Impl.VP8HeaderBytes Webp.Impl.BoolCoder
open Webp.Proofs.VP8SyntaxTrees Webp.Proofs.VP8HeaderStream

/-- what `buildSegmentHeader` guarantees: `int8` values whose magnitudes fit 7 / 6 bits -/
structure SegWF (h : SegHdr) : Prop where
  q : ∀ i, (h.quantizer i).natAbs < 2 ^ 7
  f : ∀ i, (h.filterStrength i).natAbs < 2 ^ 6

structure FiltWF (h : FilterHdr) : Prop where
  level : h.level < 2 ^ 6
  sharp : h.sharpness < 2 ^ 3
  r : ∀ i, (h.refLFDelta i).natAbs < 2 ^ 6
  m : ∀ i, (h.modeLFDelta i).natAbs < 2 ^ 6

structure HdrWF (h : EncHeader) : Prop where
  seg : SegWF h.seg
  filt : FiltWF h.filt
  parts : h.numParts = 1 ∨ h.numParts = 2 ∨ h.numParts = 4 ∨ h.numParts = 8
  base : h.baseQ < 2 ^ 7
  d1 : h.dqY1DC.natAbs < 2 ^ 4
  d2 : h.dqY2DC.natAbs < 2 ^ 4
  d3 : h.dqY2AC.natAbs < 2 ^ 4
  d4 : h.dqUVDC.natAbs < 2 ^ 4
  d5 : h.dqUVAC.natAbs < 2 ^ 4
  coef : h.coef.length = 1056

/-- the segment header the decoder holds after `parseSegmentHeader` -/
def decSeg (h prev : SegHdr) : SegHdr :=
  if h.useSegment then
    { useSegment := true, updateMap := h.updateMap, absoluteDelta := h.absoluteDelta, quantizer := h.quantizer
      filterStrength := h.filterStrength, segProbs := if h.updateMap then h.segProbs else prev.segProbs }
  else { prev with useSegment := false, updateMap := false }

/-- the filter header the decoder holds after `parseFilterHeader`: a zero delta is not transmitted and
    leaves the decoder's previous value (0 after `acquireDecoder`) -/
def decFilt (h prev : FilterHdr) : FilterHdr :=
  let upd : Bool := h.useLFDelta && (decide (∃ i, h.refLFDelta i ≠ 0) || decide (∃ i, h.modeLFDelta i ≠ 0))
  { simple := h.simple, level := h.level, sharpness := h.sharpness, useLFDelta := h.useLFDelta
    refLFDelta := if upd then (fun i => if h.refLFDelta i ≠ 0 then h.refLFDelta i else prev.refLFDelta i) else prev.refLFDelta
    modeLFDelta := if upd then (fun i => if h.modeLFDelta i ≠ 0 then h.modeLFDelta i else prev.modeLFDelta i) else prev.modeLFDelta }

theorem fn4_eta (q : Fin 4 → Int) : T.fn4 (q 0) (q 1) (q 2) (q 3) = q := by
  funext i
  match i with
  | ⟨0, _⟩ => rfl
  | ⟨1, _⟩ => rfl
  | ⟨2, _⟩ => rfl
  | ⟨3, _⟩ => rfl

theorem fn3_eta (p : Fin 3 → UInt8) :
    (fun i : Fin 3 => if i.val = 0 then p 0 else if i.val = 1 then p 1 else p 2) = p := by
  funext i
  match i with
  | ⟨0, _⟩ => rfl
  | ⟨1, _⟩ => rfl
  | ⟨2, _⟩ => rfl

theorem ubit_stream (b : Bool) (ops : List Op) : opsStream (Op.ubit b :: ops) = ⟨.fixed 128, b⟩ :: opsStream ops := rfl
theorem bits_stream (v n : Nat) (ops : List Op) : opsStream (Op.bits v n :: ops) = msbS v n ++ opsStream ops := rfl

/-- **`segment_header_roundtrip`** on the decision stream -/
theorem runS_segHdr (h prev : SegHdr) (wf : SegWF h) (rest : Stream) :
    runS (T.parseSegmentHeader prev) (opsStream (segHdrOps h) ++ rest) = some (decSeg h prev, rest) := by
  unfold T.parseSegmentHeader segHdrOps decSeg
  rw [ubit_stream, List.cons_append, runS_bind_of (runS_flag _ _)]
  cases hu : h.useSegment
  · simp only [Bool.false_eq_true, if_false, opsStream_nil, List.nil_append]
    rfl
  · simp only [if_true]
    simp only [List.cons_append, List.nil_append, ubit_stream, opsStream_append, ops4, List.append_assoc]
    rw [runS_bind_of (runS_flag _ _), runS_bind_of (runS_flag _ _)]
    simp only [if_true]
    have hd : runS (T.flag >>= fun absDelta =>
          T.optSigned0 7 >>= fun q0 => T.optSigned0 7 >>= fun q1 => T.optSigned0 7 >>= fun q2 => T.optSigned0 7 >>= fun q3 =>
          T.optSigned0 6 >>= fun f0 => T.optSigned0 6 >>= fun f1 => T.optSigned0 6 >>= fun f2 => T.optSigned0 6 >>= fun f3 =>
          (pure (absDelta, T.fn4 q0 q1 q2 q3, T.fn4 f0 f1 f2 f3) : P (Bool × (Fin 4 → Int) × (Fin 4 → Int))))
        (⟨.fixed 128, h.absoluteDelta⟩ ::
          (opsStream (optMagOps (h.quantizer 0) 7) ++ (opsStream (optMagOps (h.quantizer 1) 7) ++
          (opsStream (optMagOps (h.quantizer 2) 7) ++ (opsStream (optMagOps (h.quantizer 3) 7) ++
          (opsStream (optMagOps (h.filterStrength 0) 6) ++ (opsStream (optMagOps (h.filterStrength 1) 6) ++
          (opsStream (optMagOps (h.filterStrength 2) 6) ++ (opsStream (optMagOps (h.filterStrength 3) 6) ++
          (opsStream (if h.updateMap = true then
              ([0, 1, 2] : List (Fin 3)).flatMap fun i =>
                if h.segProbs i ≠ 255 then [Op.ubit true, .bits (h.segProbs i).toNat 8] else [.ubit false]
            else []) ++ rest)))))))))) =
        some ((h.absoluteDelta, h.quantizer, h.filterStrength),
          opsStream (if h.updateMap = true then
              ([0, 1, 2] : List (Fin 3)).flatMap fun i =>
                if h.segProbs i ≠ 255 then [Op.ubit true, .bits (h.segProbs i).toNat 8] else [.ubit false]
            else []) ++ rest) := by
      rw [runS_bind_of (runS_flag _ _),
        runS_bind_of (runS_optSigned0 (by norm_num) (wf.q 0) _), runS_bind_of (runS_optSigned0 (by norm_num) (wf.q 1) _),
        runS_bind_of (runS_optSigned0 (by norm_num) (wf.q 2) _), runS_bind_of (runS_optSigned0 (by norm_num) (wf.q 3) _),
        runS_bind_of (runS_optSigned0 (by norm_num) (wf.f 0) _), runS_bind_of (runS_optSigned0 (by norm_num) (wf.f 1) _),
        runS_bind_of (runS_optSigned0 (by norm_num) (wf.f 2) _), runS_bind_of (runS_optSigned0 (by norm_num) (wf.f 3) _)]
      simp only [runS_pure, fn4_eta]
    rw [runS_bind_of hd]
    cases hm : h.updateMap
    · simp only [Bool.false_eq_true, if_false, opsStream_nil, List.nil_append]
      rfl
    · simp only [if_true, List.flatMap_cons, List.flatMap_nil, List.append_nil, opsStream_append, List.append_assoc]
      have hp : runS (T.segProb >>= fun p0 => T.segProb >>= fun p1 => T.segProb >>= fun p2 =>
            (pure (fun i : Fin 3 => if i.val = 0 then p0 else if i.val = 1 then p1 else p2) : P (Fin 3 → UInt8)))
          (opsStream (if h.segProbs 0 ≠ 255 then [Op.ubit true, Op.bits (h.segProbs 0).toNat 8] else [Op.ubit false]) ++
            (opsStream (if h.segProbs 1 ≠ 255 then [Op.ubit true, Op.bits (h.segProbs 1).toNat 8] else [Op.ubit false]) ++
              (opsStream (if h.segProbs 2 ≠ 255 then [Op.ubit true, Op.bits (h.segProbs 2).toNat 8] else [Op.ubit false]) ++
                rest))) = some (h.segProbs, rest) := by
        rw [runS_bind_of (runS_segProb _ _), runS_bind_of (runS_segProb _ _), runS_bind_of (runS_segProb _ _)]
        simp only [runS_pure, fn3_eta]
      rw [runS_bind_of hp]
      rfl

/-- **`filter_header_roundtrip`** on the decision stream -/
theorem runS_filterHdr (h prev : FilterHdr) (wf : FiltWF h) (rest : Stream) :
    runS (T.parseFilterHeader prev) (opsStream (filterHdrOps h) ++ rest) = some (decFilt h prev, rest) := by
  unfold T.parseFilterHeader filterHdrOps decFilt
  simp only [List.cons_append, List.nil_append, ubit_stream, bits_stream, opsStream_append, List.append_assoc]
  rw [runS_bind_of (runS_flag _ _), runS_bind_of (runS_getValue (by norm_num) wf.level _),
    runS_bind_of (runS_getValue (by norm_num) wf.sharp _), runS_bind_of (runS_flag _ _)]
  cases hu : h.useLFDelta
  · simp only [Bool.false_eq_true, if_false, opsStream_nil, List.nil_append, Bool.false_and]
    rfl
  · simp only [if_true, Bool.true_and]
    generalize hnu : (decide (∃ i, h.refLFDelta i ≠ 0) || decide (∃ i, h.modeLFDelta i ≠ 0)) = nu
    simp only [ubit_stream, List.cons_append]
    cases nu
    · simp only [Bool.false_eq_true, if_false, opsStream_nil, List.nil_append]
      have hd : runS (T.flag >>= fun upd => if upd then
            T.optSignedKeep 6 (prev.refLFDelta 0) >>= fun r0 => T.optSignedKeep 6 (prev.refLFDelta 1) >>= fun r1 =>
            T.optSignedKeep 6 (prev.refLFDelta 2) >>= fun r2 => T.optSignedKeep 6 (prev.refLFDelta 3) >>= fun r3 =>
            T.optSignedKeep 6 (prev.modeLFDelta 0) >>= fun m0 => T.optSignedKeep 6 (prev.modeLFDelta 1) >>= fun m1 =>
            T.optSignedKeep 6 (prev.modeLFDelta 2) >>= fun m2 => T.optSignedKeep 6 (prev.modeLFDelta 3) >>= fun m3 =>
            (pure (T.fn4 r0 r1 r2 r3, T.fn4 m0 m1 m2 m3) : P ((Fin 4 → Int) × (Fin 4 → Int)))
          else pure (prev.refLFDelta, prev.modeLFDelta)) (⟨.fixed 128, false⟩ :: rest) =
          some ((prev.refLFDelta, prev.modeLFDelta), rest) := by
        rw [runS_bind_of (runS_flag _ _)]; rfl
      rw [runS_bind_of hd]
      rfl
    · simp only [if_true, ops4, opsStream_append, List.append_assoc]
      have hd : runS (T.flag >>= fun upd => if upd then
            T.optSignedKeep 6 (prev.refLFDelta 0) >>= fun r0 => T.optSignedKeep 6 (prev.refLFDelta 1) >>= fun r1 =>
            T.optSignedKeep 6 (prev.refLFDelta 2) >>= fun r2 => T.optSignedKeep 6 (prev.refLFDelta 3) >>= fun r3 =>
            T.optSignedKeep 6 (prev.modeLFDelta 0) >>= fun m0 => T.optSignedKeep 6 (prev.modeLFDelta 1) >>= fun m1 =>
            T.optSignedKeep 6 (prev.modeLFDelta 2) >>= fun m2 => T.optSignedKeep 6 (prev.modeLFDelta 3) >>= fun m3 =>
            (pure (T.fn4 r0 r1 r2 r3, T.fn4 m0 m1 m2 m3) : P ((Fin 4 → Int) × (Fin 4 → Int)))
          else pure (prev.refLFDelta, prev.modeLFDelta))
          (⟨.fixed 128, true⟩ ::
            (opsStream (optMagOps (h.refLFDelta 0) 6) ++ (opsStream (optMagOps (h.refLFDelta 1) 6) ++
            (opsStream (optMagOps (h.refLFDelta 2) 6) ++ (opsStream (optMagOps (h.refLFDelta 3) 6) ++
            (opsStream (optMagOps (h.modeLFDelta 0) 6) ++ (opsStream (optMagOps (h.modeLFDelta 1) 6) ++
            (opsStream (optMagOps (h.modeLFDelta 2) 6) ++ (opsStream (optMagOps (h.modeLFDelta 3) 6) ++ rest))))))))) =
          some ((fun i => if h.refLFDelta i ≠ 0 then h.refLFDelta i else prev.refLFDelta i,
                 fun i => if h.modeLFDelta i ≠ 0 then h.modeLFDelta i else prev.modeLFDelta i), rest) := by
        rw [runS_bind_of (runS_flag _ _)]
        simp only [if_true]
        rw [runS_bind_of (runS_optSignedKeep (by norm_num) (wf.r 0) _ _), runS_bind_of (runS_optSignedKeep (by norm_num) (wf.r 1) _ _),
          runS_bind_of (runS_optSignedKeep (by norm_num) (wf.r 2) _ _), runS_bind_of (runS_optSignedKeep (by norm_num) (wf.r 3) _ _),
          runS_bind_of (runS_optSignedKeep (by norm_num) (wf.m 0) _ _), runS_bind_of (runS_optSignedKeep (by norm_num) (wf.m 1) _ _),
          runS_bind_of (runS_optSignedKeep (by norm_num) (wf.m 2) _ _), runS_bind_of (runS_optSignedKeep (by norm_num) (wf.m 3) _ _)]
        simp only [runS_pure]
        rw [fn4_eta (fun i => if h.refLFDelta i ≠ 0 then h.refLFDelta i else prev.refLFDelta i),
          fn4_eta (fun i => if h.modeLFDelta i ≠ 0 then h.modeLFDelta i else prev.modeLFDelta i)]
      rw [runS_bind_of hd]
      rfl

/-- the decoder's header state after `parseHeaders`, in terms of the encoder's -/
def decHdr (h : EncHeader) (prev : DecHeader) : DecHeader :=
  { colorspace := false, clampType := false
    seg := decSeg h.seg prev.seg, filt := decFilt h.filt prev.filt
    numPartsMinusOne := h.numParts - 1, baseQ0 := h.baseQ
    dqY1DC := h.dqY1DC, dqY2DC := h.dqY2DC, dqY2AC := h.dqY2AC, dqUVDC := h.dqUVDC, dqUVAC := h.dqUVAC
    coef := h.coef, useSkipProba := h.useSkip, skipP := if h.useSkip then h.skipProba else prev.skipP }

theorem sbits_stream (v : Int) (n : Nat) (ops : List Op) :
    opsStream (Op.sbits v n :: ops) = opStream (.sbits v n) ++ opsStream ops := rfl

theorem updDef_length : updDef.length = 1056 := by simp [updDef]

/-- **the whole header** on the decision stream -/
theorem runS_header (h : EncHeader) (prev : DecHeader) (wf : HdrWF h) (rest : Stream) :
    runS (T.parseHeader prev) (headerStream h ++ rest) = some (decHdr h prev, rest) := by
  unfold T.parseHeader headerStream headerOps quantOps
  simp only [List.cons_append, List.nil_append, ubit_stream, bits_stream, sbits_stream, opsStream_append,
    List.append_assoc, opsStream_nil]
  have hlg : log2Parts h.numParts < 2 ^ 2 := by
    unfold log2Parts; split_ifs <;> norm_num
  have hparts : (1 <<< log2Parts h.numParts) - 1 = h.numParts - 1 := by
    unfold log2Parts
    rcases wf.parts with h1 | h1 | h1 | h1 <;> rw [h1] <;> rfl
  rw [runS_bind_of (runS_flag _ _), runS_bind_of (runS_flag _ _),
    runS_bind_of (runS_segHdr h.seg prev.seg wf.seg _), runS_bind_of (runS_filterHdr h.filt prev.filt wf.filt _),
    runS_bind_of (runS_getValue (by norm_num) hlg _), runS_bind_of (runS_getValue (by norm_num) wf.base _),
    runS_bind_of (runS_readOptionalSigned (by norm_num) wf.d1 _), runS_bind_of (runS_readOptionalSigned (by norm_num) wf.d2 _),
    runS_bind_of (runS_readOptionalSigned (by norm_num) wf.d3 _), runS_bind_of (runS_readOptionalSigned (by norm_num) wf.d4 _),
    runS_bind_of (runS_readOptionalSigned (by norm_num) wf.d5 _), runS_bind_of (runS_flag _ _),
    runS_bind_of (runS_parseProbaLoop updDef h.coef (by rw [wf.coef, updDef_length]) _)]
  unfold skipOps decHdr
  cases hs : h.useSkip
  · simp only [Bool.false_eq_true, if_false]
    show runS _ (⟨.fixed 128, false⟩ :: ([] ++ rest)) = _
    rw [runS_bind_of (runS_flag _ _)]
    simp only [Bool.false_eq_true, if_false, List.nil_append]
    rw [runS_bind_of (a := prev.skipP) (by rfl), hparts]
    rfl
  · simp only [if_true]
    show runS _ (⟨.fixed 128, true⟩ :: (msbS h.skipProba.toNat 8 ++ ([] ++ rest))) = _
    rw [runS_bind_of (runS_flag _ _)]
    simp only [if_true, List.nil_append]
    rw [runS_bind_of (runS_byte8 _ _), hparts]
    rfl

end Webp.Proofs.VP8HeaderRoundtrip
