import Webp.Proofs.C04RefineHeader
import Webp.Impl.VP8Kernels
import Webp.Spec.VP8.Recon
import Mathlib.Tactic.IntervalCases
/-
  C04 refinement, reconstruction (stage C), transforms: the Go inverse transforms
  (`Webp.Impl.VP8Kernels.transformWHT`, `idctResidual` / `transformOne`, tied to the translated Go code by
  `Webp.Props.C04FuncsTransform`) are RFC 6386 §14.3 / §14.4 (`Webp.Spec.VP8.inverseWHT`, `inverseDCT`)
  on every 4×4 block.
-/
namespace Webp.Proofs.C04RefineXform
open Webp.Spec.VP8 (inverseWHT inverseDCT mulCos mulSin)
open Webp.Impl.VP8Kernels
open Webp.Proofs.C04RefineHeader (forIn_range_id)

theorem getD_set (a : Array Int) (i : Nat) (v : Int) (j : Nat) (hi : i < a.size) :
    (a.setIfInBounds i v).getD j 0 = if i = j then v else a.getD j 0 := by
  rw [Array.getD_eq_getD_getElem?, Array.getElem?_setIfInBounds, Array.getD_eq_getD_getElem?]
  split_ifs <;> rfl

/-- four stores into a 16-array -/
def set4 (a : Array Int) (i0 i1 i2 i3 : Nat) (v0 v1 v2 v3 : Int) : Array Int :=
  (((a.setIfInBounds i0 v0).setIfInBounds i1 v1).setIfInBounds i2 v2).setIfInBounds i3 v3

theorem set4_size (a : Array Int) (i0 i1 i2 i3 : Nat) (v0 v1 v2 v3 : Int) :
    (set4 a i0 i1 i2 i3 v0 v1 v2 v3).size = a.size := by simp [set4]

theorem set4_getD (a : Array Int) (i0 i1 i2 i3 : Nat) (v0 v1 v2 v3 : Int) (j : Nat)
    (h0 : i0 < a.size) (h1 : i1 < a.size) (h2 : i2 < a.size) (h3 : i3 < a.size) :
    (set4 a i0 i1 i2 i3 v0 v1 v2 v3).getD j 0 =
      if i3 = j then v3 else if i2 = j then v2 else if i1 = j then v1 else if i0 = j then v0 else a.getD j 0 := by
  unfold set4
  rw [getD_set _ _ _ _ (by simpa using h3), getD_set _ _ _ _ (by simpa using h2), getD_set _ _ _ _ (by simpa using h1),
    getD_set _ _ _ _ h0]

/-- a pass: for `i = 0..3` four stores at `idx i ·` of values `val i ·` (independent of the array being built) -/
def passStep (idx : Nat → Fin 4 → Nat) (val : Nat → Fin 4 → Int) (s : Array Int) (i : Nat) : Array Int :=
  set4 s (idx i 0) (idx i 1) (idx i 2) (idx i 3) (val i 0) (val i 1) (val i 2) (val i 3)

def pass (idx : Nat → Fin 4 → Nat) (val : Nat → Fin 4 → Int) : Array Int :=
  passStep idx val (passStep idx val (passStep idx val (passStep idx val (Array.replicate 16 0) 0) 1) 2) 3

theorem pass_getD (idx : Nat → Fin 4 → Nat) (val : Nat → Fin 4 → Int) (hidx : ∀ i, i < 4 → ∀ k, idx i k < 16) (j : Nat) :
    (pass idx val).getD j 0 =
      if idx 3 3 = j then val 3 3 else if idx 3 2 = j then val 3 2 else if idx 3 1 = j then val 3 1 else if idx 3 0 = j then val 3 0
      else if idx 2 3 = j then val 2 3 else if idx 2 2 = j then val 2 2 else if idx 2 1 = j then val 2 1 else if idx 2 0 = j then val 2 0
      else if idx 1 3 = j then val 1 3 else if idx 1 2 = j then val 1 2 else if idx 1 1 = j then val 1 1 else if idx 1 0 = j then val 1 0
      else if idx 0 3 = j then val 0 3 else if idx 0 2 = j then val 0 2 else if idx 0 1 = j then val 0 1 else if idx 0 0 = j then val 0 0
      else 0 := by
  unfold pass passStep
  have h16 : (Array.replicate 16 (0 : Int)).size = 16 := by simp
  have hs : ∀ (a : Array Int) (i : Nat) (hi : i < 4) (k : Fin 4), a.size = 16 → idx i k < a.size := by
    intro a i hi k ha; rw [ha]; exact hidx i hi k
  have s1 : (set4 (Array.replicate 16 (0 : Int)) (idx 0 0) (idx 0 1) (idx 0 2) (idx 0 3) (val 0 0) (val 0 1) (val 0 2) (val 0 3)).size = 16 := by
    rw [set4_size, h16]
  have s2 : (set4 (set4 (Array.replicate 16 (0 : Int)) (idx 0 0) (idx 0 1) (idx 0 2) (idx 0 3) (val 0 0) (val 0 1) (val 0 2) (val 0 3))
      (idx 1 0) (idx 1 1) (idx 1 2) (idx 1 3) (val 1 0) (val 1 1) (val 1 2) (val 1 3)).size = 16 := by
    rw [set4_size, s1]
  have s3 : (set4 (set4 (set4 (Array.replicate 16 (0 : Int)) (idx 0 0) (idx 0 1) (idx 0 2) (idx 0 3) (val 0 0) (val 0 1) (val 0 2) (val 0 3))
      (idx 1 0) (idx 1 1) (idx 1 2) (idx 1 3) (val 1 0) (val 1 1) (val 1 2) (val 1 3))
      (idx 2 0) (idx 2 1) (idx 2 2) (idx 2 3) (val 2 0) (val 2 1) (val 2 2) (val 2 3)).size = 16 := by
    rw [set4_size, s2]
  rw [set4_getD _ _ _ _ _ _ _ _ _ _ (hs _ 3 (by omega) 0 s3) (hs _ 3 (by omega) 1 s3) (hs _ 3 (by omega) 2 s3) (hs _ 3 (by omega) 3 s3),
    set4_getD _ _ _ _ _ _ _ _ _ _ (hs _ 2 (by omega) 0 s2) (hs _ 2 (by omega) 1 s2) (hs _ 2 (by omega) 2 s2) (hs _ 2 (by omega) 3 s2),
    set4_getD _ _ _ _ _ _ _ _ _ _ (hs _ 1 (by omega) 0 s1) (hs _ 1 (by omega) 1 s1) (hs _ 1 (by omega) 2 s1) (hs _ 1 (by omega) 3 s1),
    set4_getD _ _ _ _ _ _ _ _ _ _ (hs _ 0 (by omega) 0 h16) (hs _ 0 (by omega) 1 h16) (hs _ 0 (by omega) 2 h16) (hs _ 0 (by omega) 3 h16)]
  have : (Array.replicate 16 (0 : Int)).getD j 0 = 0 := by
    rw [Array.getD_eq_getD_getElem?]
    rcases Nat.lt_or_ge j 16 with h | h
    · rw [Array.getElem?_eq_getElem (by simpa using h)]; simp
    · rw [Array.getElem?_eq_none (by simpa using h)]; rfl
  rw [this]

/-- a `for i in [0:4]` loop whose body is a `passStep` -/
theorem forIn_pass (body : Nat → Array Int → Id (ForInStep (Array Int))) (idx : Nat → Fin 4 → Nat) (val : Nat → Fin 4 → Int)
    (hb : ∀ i s, body i s = pure (ForInStep.yield (passStep idx val s i))) :
    forIn (m := Id) [:4] (Array.replicate 16 (0 : Int)) body = pure (pass idx val) := by
  rw [forIn_range_id 4 _ _ (fun i s => passStep idx val s i) hb]
  have : List.range' 0 4 = [0, 1, 2, 3] := by decide
  rw [this]
  simp only [List.foldl_cons, List.foldl_nil]
  unfold pass
  rfl

/-! ## inverse WHT (§14.3) -/

/-- column `i`: positions `i, 4+i, 8+i, 12+i` -/
def colIdx (i : Nat) : Fin 4 → Nat
  | 0 => i | 1 => 4 + i | 2 => 8 + i | 3 => 12 + i
/-- row `r`: positions `4r, 4r+1, 4r+2, 4r+3` -/
def rowIdx (r : Nat) : Fin 4 → Nat
  | 0 => 4 * r | 1 => 4 * r + 1 | 2 => 4 * r + 2 | 3 => 4 * r + 3

theorem colIdx_lt (i : Nat) (hi : i < 4) (k : Fin 4) : colIdx i k < 16 := by
  have : k = 0 ∨ k = 1 ∨ k = 2 ∨ k = 3 := by omega
  rcases this with rfl | rfl | rfl | rfl <;> (unfold colIdx; simp only []; omega)
theorem rowIdx_lt (i : Nat) (hi : i < 4) (k : Fin 4) : rowIdx i k < 16 := by
  have : k = 0 ∨ k = 1 ∨ k = 2 ∨ k = 3 := by omega
  rcases this with rfl | rfl | rfl | rfl <;> (unfold rowIdx; simp only []; omega)

/-- vertical pass of §14.3 -/
def whtV (ip : Nat → Int) (i : Nat) : Fin 4 → Int
  | 0 => ip i + ip (12 + i) + (ip (4 + i) + ip (8 + i))
  | 1 => ip (4 + i) - ip (8 + i) + (ip i - ip (12 + i))
  | 2 => ip i + ip (12 + i) - (ip (4 + i) + ip (8 + i))
  | 3 => ip i - ip (12 + i) - (ip (4 + i) - ip (8 + i))

/-- horizontal pass of §14.3 -/
def whtH (t : Array Int) (r : Nat) : Fin 4 → Int
  | 0 => (t.getD (4 * r + 0) 0 + t.getD (4 * r + 3) 0 + (t.getD (4 * r + 1) 0 + t.getD (4 * r + 2) 0) + 3) >>> 3
  | 1 => (t.getD (4 * r + 1) 0 - t.getD (4 * r + 2) 0 + (t.getD (4 * r + 0) 0 - t.getD (4 * r + 3) 0) + 3) >>> 3
  | 2 => (t.getD (4 * r + 0) 0 + t.getD (4 * r + 3) 0 - (t.getD (4 * r + 1) 0 + t.getD (4 * r + 2) 0) + 3) >>> 3
  | 3 => (t.getD (4 * r + 0) 0 - t.getD (4 * r + 3) 0 - (t.getD (4 * r + 1) 0 - t.getD (4 * r + 2) 0) + 3) >>> 3

theorem inverseWHT_pass (c : Array Int) (base : Nat) :
    inverseWHT c base =
      pass rowIdx (whtH (pass colIdx (whtV fun k => c.getD (base + k) 0))) := by
  unfold inverseWHT
  simp only [Id.run, Bool.false_eq_true, if_false]
  rw [forIn_pass _ colIdx (whtV fun k => c.getD (base + k) 0) (by intro i s; rfl)]
  simp only [pure_bind]
  rw [forIn_pass _ rowIdx (whtH (pass colIdx (whtV fun k => c.getD (base + k) 0))) (by intro i s; rfl)]
  rfl

theorem whtT (ip : Nat → Int) (m : Nat) (hm : m < 16) :
    (pass colIdx (whtV ip)).getD m 0 = iwhtTmp ip m := by
  rw [pass_getD _ _ colIdx_lt]
  interval_cases m <;> simp [colIdx, whtV, iwhtTmp] <;> ring

/-- **`transformWHT` = RFC 6386 §14.3**: the value the Go code stores in `out[16·j]` is the `int16` of the
    RFC's output `j`, for every Y2 block (`Spec.reconMB` applies the same 16-bit store). -/
theorem wht_eq_spec (c : Array Int) (base j : Nat) (hj : j < 16) :
    toI16 ((inverseWHT c base).getD j 0) = transformWHT (fun k => c.getD (base + k) 0) j := by
  rw [inverseWHT_pass, pass_getD _ _ rowIdx_lt]
  have ht : ∀ m, m < 16 → (pass colIdx (whtV fun k => c.getD (base + k) 0))[m]?.getD 0 =
      iwhtTmp (fun k => c.getD (base + k) 0) m := by
    intro m hm; rw [← Array.getD_eq_getD_getElem?]; exact whtT _ m hm
  generalize pass colIdx (whtV fun k => c.getD (base + k) 0) = T at ht
  generalize (fun k => c.getD (base + k) 0) = ip at ht ⊢
  interval_cases j <;>
    simp [rowIdx, whtH, transformWHT, ht, Int.shiftRight_eq_div_pow] <;> ring_nf

end Webp.Proofs.C04RefineXform
