import Webp.Proofs.VP8LWindow2Top
/-
  The WINDOW BUDGET, part 9: `readHuffmanCode` with its table, the five codes of a group, and one whole
  entropy-coded image (`decodeSubImage`) on the window reader against the specification.
-/
namespace Webp.Proofs.VP8LWindow
open Webp.Go (Res)
open Webp.Spec.VP8L (BitReader Err Code Group pushN readCodeLengthsLoop readCodeLengths readCodeLengthCodeLengths
  readCodeLengthVector buildCode readCode readGroup readColorCacheInfo readEntropyCodedImage decodePixels
  greenAlphabetSize)
open Webp.Impl.VP8LEntropy
open Webp.Impl.VP8LWindow
open Webp.Impl.VP8LFastPaths (HTreeGroup mkGroup maxLenOf)
open Webp.Proofs.VP8LEntropyBits
open Webp.Proofs.VP8LEntropyReader

/-! ## the specification returns vectors of the alphabet's size -/

theorem loop_size (c : Code) (A : Nat) : ∀ (tokens prev : Nat) (acc : Array Nat) (br : BitReader)
    (lens : Array Nat) (br' : BitReader), acc.size ≤ A →
    readCodeLengthsLoop c A tokens prev acc br = .ok (lens, br') → lens.size = A := by
  intro tokens
  induction tokens with
  | zero =>
    intro prev acc br lens br' hle h
    rw [readCodeLengthsLoop] at h
    injection h with h; injection h with h1 _
    rw [← h1, pushN_size]; omega
  | succ t ih =>
    intro prev acc br lens br' hle h
    rw [loop_succ] at h
    by_cases hA : acc.size ≥ A
    · rw [if_pos hA] at h
      injection h with h; injection h with h1 _
      rw [← h1]; omega
    · rw [if_neg hA] at h
      unfold specStep at h
      cases hs : Webp.Spec.VP8L.readSymbol c br with
      | ok x =>
        obtain ⟨s, br1⟩ := x
        rw [hs] at h
        dsimp only at h
        by_cases h16 : s < 16
        · rw [if_pos h16] at h
          exact ih _ _ _ _ _ (by simp; omega) h
        · rw [if_neg h16] at h
          cases hr : br1.readBits (if s = 16 then 2 else if s = 17 then 3 else 7) with
          | ok y =>
            obtain ⟨e, br2⟩ := y
            rw [hr] at h
            dsimp only at h
            by_cases hov : acc.size + ((if s = 18 then 11 else 3) + e) > A
            · rw [if_pos hov] at h; cases h
            · rw [if_neg hov] at h
              exact ih _ _ _ _ _ (by rw [pushN_size]; omega) h
          | err e => rw [hr] at h; cases h
          | panic => rw [hr] at h; cases h
          | hang => rw [hr] at h; cases h
      | err e => rw [hs] at h; cases h
      | panic => rw [hs] at h; cases h
      | hang => rw [hs] at h; cases h

theorem readCodeLengths_size {c : Code} {A : Nat} {br : BitReader} {lens : Array Nat} {br' : BitReader}
    (h : readCodeLengths c A br = .ok (lens, br')) : lens.size = A := by
  unfold readCodeLengths at h
  simp only [bind, Res.bind, pure] at h
  cases h1 : br.readBits 1 with
  | ok x =>
    obtain ⟨u, b1⟩ := x
    rw [h1] at h
    dsimp only at h
    by_cases hu : u = 1
    · rw [if_pos hu] at h
      cases h2 : b1.readBits 3 with
      | ok y =>
        obtain ⟨n, b2⟩ := y
        rw [h2] at h
        dsimp only at h
        cases h3 : b2.readBits (2 + 2 * n) with
        | ok z =>
          obtain ⟨m, b3⟩ := z
          rw [h3] at h
          dsimp only at h
          by_cases hm : 2 + m > A
          · rw [if_pos hm] at h; cases h
          · rw [if_neg hm] at h
            exact loop_size c A _ _ _ _ _ _ (by simp) h
        | err e => rw [h3] at h; cases h
        | panic => rw [h3] at h; cases h
        | hang => rw [h3] at h; cases h
      | err e => rw [h2] at h; cases h
      | panic => rw [h2] at h; cases h
      | hang => rw [h2] at h; cases h
    · rw [if_neg hu] at h
      exact loop_size c A _ _ _ _ _ _ (by simp) h
  | err e => rw [h1] at h; cases h
  | panic => rw [h1] at h; cases h
  | hang => rw [h1] at h; cases h

theorem vector_size {A : Nat} {br : BitReader} {lens : Array Nat} {br' : BitReader}
    (h : readCodeLengthVector A br = .ok (lens, br')) : lens.size = A := by
  unfold readCodeLengthVector at h
  simp only [bind, Res.bind, pure] at h
  cases h1 : br.readBits 1 with
  | ok x =>
    obtain ⟨simple, b1⟩ := x
    rw [h1] at h
    dsimp only at h
    by_cases hs : simple = 1
    · rw [if_pos hs] at h
      cases h2 : b1.readBits 1 with
      | ok x2 =>
        obtain ⟨ns, b2⟩ := x2
        rw [h2] at h
        dsimp only at h
        cases h3 : b2.readBits 1 with
        | ok x3 =>
          obtain ⟨f, b3⟩ := x3
          rw [h3] at h
          dsimp only at h
          cases h4 : b3.readBits (1 + 7 * f) with
          | ok x4 =>
            obtain ⟨s0, b4⟩ := x4
            rw [h4] at h
            dsimp only at h
            by_cases hr : s0 ≥ A
            · rw [if_pos hr] at h; cases h
            · rw [if_neg hr] at h
              by_cases hn : ns = 1
              · rw [if_pos hn] at h
                cases h5 : b4.readBits 8 with
                | ok x5 =>
                  obtain ⟨s1, b5⟩ := x5
                  rw [h5] at h
                  dsimp only at h
                  by_cases hr2 : s1 ≥ A
                  · rw [if_pos hr2] at h; cases h
                  · rw [if_neg hr2] at h
                    injection h with h; injection h with h _
                    rw [← h]; simp
                | err e => rw [h5] at h; cases h
                | panic => rw [h5] at h; cases h
                | hang => rw [h5] at h; cases h
              · rw [if_neg hn] at h
                injection h with h; injection h with h _
                rw [← h]; simp
          | err e => rw [h4] at h; cases h
          | panic => rw [h4] at h; cases h
          | hang => rw [h4] at h; cases h
        | err e => rw [h3] at h; cases h
        | panic => rw [h3] at h; cases h
        | hang => rw [h3] at h; cases h
      | err e => rw [h2] at h; cases h
      | panic => rw [h2] at h; cases h
      | hang => rw [h2] at h; cases h
    · rw [if_neg hs] at h
      cases h2 : b1.readBits 4 with
      | ok x2 =>
        obtain ⟨n, b2⟩ := x2
        rw [h2] at h
        dsimp only at h
        cases h3 : readCodeLengthCodeLengths (4 + n) 0 (Array.replicate Webp.Spec.VP8L.numCodeLengthCodes 0) b2 with
        | ok x3 =>
          obtain ⟨cl, b3⟩ := x3
          rw [h3] at h
          dsimp only at h
          cases h4 : buildCode cl with
          | ok c => rw [h4] at h; exact readCodeLengths_size h
          | err e => rw [h4] at h; cases h
          | panic => rw [h4] at h; cases h
          | hang => rw [h4] at h; cases h
        | err e => rw [h3] at h; cases h
        | panic => rw [h3] at h; cases h
        | hang => rw [h3] at h; cases h
      | err e => rw [h2] at h; cases h
      | panic => rw [h2] at h; cases h
      | hang => rw [h2] at h; cases h
  | err e => rw [h1] at h; cases h
  | panic => rw [h1] at h; cases h
  | hang => rw [h1] at h; cases h

/-! ## `readHuffmanCode` -/

/-- table and `maxCodeLen` were built from a length vector of `A` symbols whose code is `c` -/
def CodeBuilt (A : Nat) (c : Code) (tm : Table × Nat) : Prop :=
  ∃ lens : Array Nat, lens.size = A ∧ buildCode lens = .ok c ∧ buildTable 8 lens = .ok tm.1 ∧ tm.2 = maxLenOf lens

/-- outcome of a function that reads from the window reader, against the specification's, with a
    relation between the values -/
def RelOut {α β : Type} (V : α → β → Prop) (buf : Array UInt8) (k : Nat) (go : Res Err (α × Reader))
    (sp : Res Err (β × BitReader)) : Prop :=
  match sp with
  | .ok (b, br') => ∃ a r' P', go = .ok (a, r') ∧ V a b ∧ br' = brAt buf P' ∧ Good buf r' P' k
  | .err _ => ∃ e', go = .err e'
  | .panic => True
  | .hang => True

open Webp.Proofs.VP8LEntropyTableF in
/-- **readHuffmanCode_eq_spec**: `readHuffmanCode(alphabetSize)` on the window reader — code lengths,
    `BuildHuffmanTable(8, ·)`, `maxCodeLen` — against the specification's `readCode` -/
theorem readHuffmanCodeGo_agree {buf : Array UInt8} (A : Nat) {r : Reader} {P : Nat} (hg : Good buf r P 63) :
    RelOut (fun tm c => CodeBuilt A c tm) buf 39 (readHuffmanCodeGo A r) (readCode A (brAt buf P)) := by
  have h := readHuffmanCodeLens_agree (buf := buf) A hg
  unfold readHuffmanCodeGo readHuffmanCodeAt readCode
  simp only [bind, Res.bind, pure]
  cases hsp : readCodeLengthVector A (brAt buf P) with
  | ok x =>
    obtain ⟨lens, br'⟩ := x
    rw [hsp] at h
    obtain ⟨r', P', hgo, hbr, hg'⟩ := h
    rw [hgo]
    dsimp only
    cases hc : buildCode lens with
    | ok c =>
      obtain ⟨t, ht⟩ := buildTable_ok_of_buildCode hc 8 (by omega) (by omega)
      rw [ht]
      exact ⟨_, r', P', rfl, ⟨lens, vector_size hsp, hc, ht, rfl⟩, hbr, hg'⟩
    | err e =>
      obtain ⟨e', he'⟩ := buildTable_err_of_buildCode hc 8 (by omega)
      rw [he']
      exact ⟨_, rfl⟩
    | panic => trivial
    | hang => trivial
  | err e =>
    rw [hsp] at h
    obtain ⟨e', hgo⟩ := h
    rw [hgo]
    exact ⟨e', rfl⟩
  | panic => trivial
  | hang => trivial

/-! ## the five codes of a group -/

/-- the specification's `readCode` for each alphabet size in turn -/
def readCodesSpec : List Nat → BitReader → Res Err (List Code × BitReader)
  | [], br => .ok ([], br)
  | a :: as, br =>
    match readCode a br with
    | .ok (c, br) =>
      match readCodesSpec as br with
      | .ok (l, br) => .ok (c :: l, br)
      | .err e => .err e
      | .panic => .panic
      | .hang => .hang
    | .err e => .err e
    | .panic => .panic
    | .hang => .hang

def CodesBuilt : List Nat → List (Table × Nat) → List Code → Prop
  | [], [], [] => True
  | a :: as, tm :: tms, c :: cs => CodeBuilt a c tm ∧ CodesBuilt as tms cs
  | _, _, _ => False

theorem readCodes_agree (buf : Array UInt8) : ∀ (as : List Nat) (r : Reader) (P : Nat), Good buf r P 63 →
    RelOut (fun tms cs => CodesBuilt as tms cs) buf 63 (readCodesGo as r) (readCodesSpec as (brAt buf P)) := by
  intro as
  induction as with
  | nil => intro r P hg; exact ⟨[], r, P, rfl, trivial, rfl, hg⟩
  | cons a as ih =>
    intro r P hg
    have h1 := readHuffmanCodeGo_agree (buf := buf) a hg
    unfold readCodesGo readCodesSpec
    cases hs : readCode a (brAt buf P) with
    | ok x =>
      obtain ⟨c, br1⟩ := x
      rw [hs] at h1
      obtain ⟨tm, r1, P1, hgo, hb, hbr, hg1⟩ := h1
      rw [hgo, hbr]
      dsimp only
      have h2 := ih r1 P1 (hg1.mono (by omega))
      cases hs2 : readCodesSpec as (brAt buf P1) with
      | ok y =>
        obtain ⟨cs, br2⟩ := y
        rw [hs2] at h2
        obtain ⟨tms, r2, P2, hgo2, hb2, hbr2, hg2⟩ := h2
        rw [hgo2]
        exact ⟨tm :: tms, r2, P2, rfl, ⟨hb, hb2⟩, hbr2, hg2⟩
      | err e =>
        rw [hs2] at h2
        obtain ⟨e', hgo2⟩ := h2
        rw [hgo2]
        exact ⟨e', rfl⟩
      | panic => trivial
      | hang => trivial
    | err e =>
      rw [hs] at h1
      obtain ⟨e', hgo⟩ := h1
      rw [hgo]
      exact ⟨e', rfl⟩
    | panic => trivial
    | hang => trivial

theorem readGroup_codes (cb : Nat) (br : BitReader) :
    (∀ G br', readGroup cb br = .ok (G, br') →
      readCodesSpec [greenAlphabetSize cb, 256, 256, 256, 40] br = .ok ([G.green, G.red, G.blue, G.alpha, G.dist], br')) ∧
    (∀ e, readGroup cb br = .err e → ∃ e', readCodesSpec [greenAlphabetSize cb, 256, 256, 256, 40] br = .err e') := by
  have e40 : Webp.Spec.VP8L.numDistanceCodes = 40 := rfl
  unfold readGroup
  simp only [bind, Res.bind, pure, readCodesSpec, e40]
  cases readCode (greenAlphabetSize cb) br with
  | ok x1 =>
    obtain ⟨c1, b1⟩ := x1
    dsimp only
    cases readCode 256 b1 with
    | ok x2 =>
      obtain ⟨c2, b2⟩ := x2
      dsimp only
      cases readCode 256 b2 with
      | ok x3 =>
        obtain ⟨c3, b3⟩ := x3
        dsimp only
        cases readCode 256 b3 with
        | ok x4 =>
          obtain ⟨c4, b4⟩ := x4
          dsimp only
          cases readCode 40 b4 with
          | ok x5 =>
            obtain ⟨c5, b5⟩ := x5
            dsimp only
            refine ⟨fun G br' h => ?_, fun e h => (by cases h)⟩
            injection h with h; injection h with h1 h2
            subst h1; subst h2; rfl
          | err e => exact ⟨fun _ _ h => (by cases h), fun e h => ⟨_, rfl⟩⟩
          | panic => exact ⟨fun _ _ h => (by cases h), fun e h => (by cases h)⟩
          | hang => exact ⟨fun _ _ h => (by cases h), fun e h => (by cases h)⟩
        | err e => exact ⟨fun _ _ h => (by cases h), fun e h => ⟨_, rfl⟩⟩
        | panic => exact ⟨fun _ _ h => (by cases h), fun e h => (by cases h)⟩
        | hang => exact ⟨fun _ _ h => (by cases h), fun e h => (by cases h)⟩
      | err e => exact ⟨fun _ _ h => (by cases h), fun e h => ⟨_, rfl⟩⟩
      | panic => exact ⟨fun _ _ h => (by cases h), fun e h => (by cases h)⟩
      | hang => exact ⟨fun _ _ h => (by cases h), fun e h => (by cases h)⟩
    | err e => exact ⟨fun _ _ h => (by cases h), fun e h => ⟨_, rfl⟩⟩
    | panic => exact ⟨fun _ _ h => (by cases h), fun e h => (by cases h)⟩
    | hang => exact ⟨fun _ _ h => (by cases h), fun e h => (by cases h)⟩
  | err e => exact ⟨fun _ _ h => (by cases h), fun e h => ⟨_, rfl⟩⟩
  | panic => exact ⟨fun _ _ h => (by cases h), fun e h => (by cases h)⟩
  | hang => exact ⟨fun _ _ h => (by cases h), fun e h => (by cases h)⟩

/-- **the group of five codes**: `readHuffmanCodes` (one group, no meta codes) on the window reader
    yields a group that stands for the specification's (`GroupFor`: tables, flags, packed table) -/
theorem readGroup_agree {buf : Array UInt8} (cb : Nat) (hcb : cb ≤ 11) {r : Reader} {P : Nat} (hg : Good buf r P 63) :
    RelOut (fun g G => GroupFor G g) buf 63 (readGroupGo cb r) (readGroup cb (brAt buf P)) := by
  have hL := readCodes_agree buf [greenAlphabetSize cb, 256, 256, 256, 40] r P hg
  obtain ⟨hok, herr⟩ := readGroup_codes cb (brAt buf P)
  have hgs : greenAlphabetSize cb ≤ 2 ^ 32 := by
    unfold greenAlphabetSize Webp.Spec.VP8L.numLiteralCodes Webp.Spec.VP8L.numLengthCodes
    split
    · decide
    · rw [Nat.one_shiftLeft]
      have : 2 ^ cb ≤ 2 ^ 11 := Nat.pow_le_pow_right (by decide) hcb
      omega
  unfold readGroupGo
  cases hsp : readGroup cb (brAt buf P) with
  | ok x =>
    obtain ⟨G, br'⟩ := x
    rw [hok G br' hsp] at hL
    obtain ⟨tms, r', P', hgo, hb, hbr, hg'⟩ := hL
    rw [hgo]
    match tms, hb with
    | [g, rd, b, a, d], ⟨⟨lg, sg, cg, tg, mg⟩, ⟨lr, sr, cr, tr, mr⟩, ⟨lb, sb, cb', tb, mb⟩, ⟨la, sa, ca, ta, ma⟩,
        ⟨ld, sd, cd, td, md⟩, _⟩ =>
      refine ⟨_, r', P', rfl, ?_, hbr, hg'⟩
      rw [mg, mr, mb, ma, md]
      exact .built _ _ _ (built_of_lens (by rw [sg]; exact hgs) (by omega) (by omega) (by omega) (by omega)
        cg tg cr tr cb' tb ca ta cd td) rfl
  | err e =>
    obtain ⟨e', he'⟩ := herr e hsp
    rw [he'] at hL
    obtain ⟨e2, hgo⟩ := hL
    rw [hgo]
    exact ⟨e2, rfl⟩
  | panic => trivial
  | hang => trivial

/-! ## one entropy-coded image -/

/-- the specification's `readEntropyCodedImage` after the colour-cache info -/
def specBody (w h cb : Nat) (br : BitReader) : Res Err (Array UInt32 × BitReader) := do
  let (g, br) ← readGroup cb br
  decodePixels { width := w, height := h, cacheBits := cb, groups := #[g] } br

theorem readEntropyCodedImage_eq (w h : Nat) (br : BitReader) :
    readEntropyCodedImage w h br = (do
      let (cb, br) ← readColorCacheInfo br
      specBody w h cb br) := rfl

theorem imageBody_agree {buf : Array UInt8} (w h cb : Nat) (hcb : cb ≤ 11) (hw : w ≤ 153391689) {r : Reader} {P : Nat}
    (hg : Good buf r P 63) :
    RelOut (fun a b => a = b) buf 64 (imageBody w h cb r) (specBody w h cb (brAt buf P)) := by
  have hG := readGroup_agree (buf := buf) cb hcb hg
  unfold imageBody specBody
  simp only [bind, Res.bind]
  cases hsp : readGroup cb (brAt buf P) with
  | ok x =>
    obtain ⟨G, br'⟩ := x
    rw [hsp] at hG
    obtain ⟨g, r', P', hgo, hfor, hbr, hg'⟩ := hG
    rw [hgo, hbr]
    dsimp only
    have hgs : GroupsOK { width := w, height := h, cacheBits := cb, groups := #[G] } #[g] := by
      refine ⟨rfl, ?_⟩
      intro i h1 h2
      have : i = 0 := by simp at h1; omega
      subst this
      exact hfor
    have hloop := decodePixelLoop_window hgs (by intro e he; simp at he) hw (hg'.mono (by omega : 63 ≤ 64))
    unfold SimRes at hloop
    cases hd : decodePixels { width := w, height := h, cacheBits := cb, groups := #[G] } (brAt buf P') with
    | ok y =>
      obtain ⟨px, br2⟩ := y
      rw [hd] at hloop
      obtain ⟨r2, hgo2, P2, hbr2, hg2⟩ := hloop
      exact ⟨px, r2, P2, hgo2, rfl, hbr2, hg2⟩
    | err e => rw [hd] at hloop; exact ⟨e, hloop⟩
    | panic => trivial
    | hang => trivial
  | err e =>
    rw [hsp] at hG
    obtain ⟨e', hgo⟩ := hG
    rw [hgo]
    exact ⟨e', rfl⟩
  | panic => trivial
  | hang => trivial

theorem readHuffmanCodeGo_doomed (A : Nat) {r : Reader} (hd : Doomed r) : ∃ e, readHuffmanCodeGo A r = .err e := by
  unfold readHuffmanCodeGo readHuffmanCodeAt
  obtain ⟨e, he⟩ := readHuffmanCodeLens_doomed A hd
  rw [he]
  exact ⟨e, rfl⟩

theorem imageBody_doomed (w h cb : Nat) {r : Reader} (hd : Doomed r) : ∃ e, imageBody w h cb r = .err e := by
  unfold imageBody readGroupGo readCodesGo
  obtain ⟨e, he⟩ := readHuffmanCodeGo_doomed (greenAlphabetSize cb) hd
  rw [he]
  exact ⟨e, rfl⟩

/-- **decodeEntropyImage_eq_spec_window**: colour-cache info, the five prefix codes and the pixel
    loop of one entropy-coded image (`decodeSubImage`) on the window reader, from any window state in
    which one more bit fits, against the specification's `readEntropyCodedImage` -/
theorem decodeEntropyImage_agree {buf : Array UInt8} (w h : Nat) (hw : w ≤ 153391689) {r : Reader} {P : Nat}
    (hg : Good buf r P 63) :
    RelOut (fun a b => a = b) buf 64 (decodeEntropyImageGo w h r) (readEntropyCodedImage w h (brAt buf P)) := by
  rw [readEntropyCodedImage_eq]
  unfold decodeEntropyImageGo readColorCacheInfo
  simp only [bind, Res.bind, pure]
  rcases readBits_good hg 1 (by omega) (by omega) with ⟨h1, g1⟩ | ⟨h1, d1⟩
  swap
  · rw [h1]
    show ∃ e', _ = Res.err e'
    by_cases hb : (r.readBits 1).1 = 1
    · rw [if_pos hb]
      exact ite_err _ _ _ (imageBody_doomed w h _ (doomed_readBits d1 4))
    · rw [if_neg hb]
      exact imageBody_doomed w h 0 d1
  rw [h1]
  simp only
  by_cases hb : (r.readBits 1).1 = 1
  · rw [if_pos hb, if_pos ((u32_eq_one _).mp hb)]
    rcases readBits_good g1 4 (by omega) (by omega) with ⟨h4, g4⟩ | ⟨h4, d4⟩
    swap
    · rw [h4]
      show ∃ e', _ = Res.err e'
      exact ite_err _ _ _ (imageBody_doomed w h _ d4)
    rw [h4]
    simp only
    by_cases hr : ((r.readBits 1).2.readBits 4).1.toNat < 1 ∨ ((r.readBits 1).2.readBits 4).1.toNat > 11
    · rw [if_pos hr, if_pos hr]
      exact ⟨_, rfl⟩
    · rw [if_neg hr, if_neg hr]
      exact imageBody_agree w h ((r.readBits 1).2.readBits 4).1.toNat (by omega) hw (g4.mono (by omega))
  · rw [if_neg hb, if_neg (fun hh => hb ((u32_eq_one _).mpr hh))]
    exact imageBody_agree w h 0 (by omega) hw (g1.mono (by omega))

end Webp.Proofs.VP8LWindow
