import Webp.Proofs.C04RefineFrame1
/-
  C04 refinement, towards the frame-level syntax theorem, part 2: in `parseMBsBytes` a reader whose `eof` is up stays up —
  so "all readers end with `eof` down" gives `eof` down after every macroblock, on the first partition and on every token
  partition.
-/
namespace Webp.Proofs.C04RefineFrame
open Webp.Impl.BoolCoder
open Webp.Impl.VP8SyntaxBytes (P runR rd parseMBsBytes)
open Webp.Impl.VP8Recon (Slot NzCtx TokCtx MBModes ResData ColData FrameSyntax Kernels QuantMatrix segFin)
open Webp.Proofs.C04RefineOps

theorem parseMBs_eof_mono (K : Kernels) (dqm : Fin 4 → QuantMatrix) (fs : FrameSyntax) (prob : Slot → UInt8) :
    ∀ (ks : List Nat) (c : TokCtx) (r0 : BoolReader) (rp : Nat → BoolReader) (col : ColData) (out : Nat → MBModes × ResData)
      (res : (Nat → MBModes × ResData) × BoolReader × (Nat → BoolReader)),
      parseMBsBytes K dqm fs prob ks c r0 rp col out = some res →
      (r0.eof = true → res.2.1.eof = true) ∧ (∀ p, (rp p).eof = true → (res.2.2 p).eof = true) := by
  intro ks
  induction ks with
  | nil =>
    intro c r0 rp col out res hp
    rw [parseMBsBytes] at hp; cases hp
    exact ⟨id, fun _ => id⟩
  | cons k ks ih =>
    intro c r0 rp col out res hp
    rw [parseMBsBytes] at hp
    simp only [] at hp
    cases hr : runR prob (Webp.Impl.VP8SyntaxBytes.T.parseModes fs.updateMap fs.useSkip (col.imodes (k % fs.mbW))
        ((if k % fs.mbW = 0 then c.rowStart else c).modes (k % fs.mbW))) r0 with
    | none => rw [hr] at hp; cases hp
    | some y =>
      obtain ⟨mm, r0'⟩ := y
      rw [hr] at hp
      simp only [Option.bind_some] at hp
      cases hq : runR prob (Webp.Impl.VP8SyntaxBytes.T.parseTokens K (dqm (segFin mm.1.segment)) mm.1.isI4 mm.1.skip
          fs.useSkip (col.coeffs (k % fs.mbW)) ((if k % fs.mbW = 0 then c.rowStart else c).nz (k % fs.mbW)))
          (rp (k / fs.mbW &&& (fs.numParts - 1))) with
      | none => rw [hq] at hp; cases hp
      | some z =>
        obtain ⟨rn, rpi'⟩ := z
        rw [hq] at hp
        simp only [Option.bind_some] at hp
        obtain ⟨h1, h2⟩ := ih _ _ _ _ _ res hp
        refine ⟨fun he => h1 (runR_eof_mono prob _ r0 mm r0' hr he), fun p he => h2 p ?_⟩
        by_cases hpp : p = k / fs.mbW &&& (fs.numParts - 1)
        · rw [if_pos hpp]; rw [hpp] at he; exact runR_eof_mono prob _ _ rn rpi' hq he
        · rw [if_neg hpp]; exact he

end Webp.Proofs.C04RefineFrame
