import Webp.Proofs.ContainerBounds
/-
  C17 helper lemmas: running the container parser on a prefix of a buffer.
  Every loop is followed in lock-step on the prefix `p` and the full buffer `d`: as long as the
  prefix still contains the complete current chunk both runs take the same decision in the
  same state; when it does not, the prefix run stops with `ErrTruncated` (or, between chunks
  of a VP8X file, returns what it has seen so far).
-/
namespace Webp.Impl.Parser
open Webp.Go
set_option maxHeartbeats 400000
set_option linter.unusedTactic false
set_option linter.unusedVariables false

theorem chunkAt_prefix {p d : Bytes} (hpd : p <+: d) (h8 : ¬ p.length < 8)
    {fc ps ct : Nat} {pl : Bytes} (hd : chunkAt d = .ok (fc, ps, ct, pl)) :
    (∃ e, chunkAt p = .err e) ∨ (ct ≤ p.length ∧ chunkAt p = .ok (fc, ps, ct, pl)) := by
  obtain ⟨e0, e4, ect, _, epl⟩ := chunkAt_ok hd
  rcases chunkAt_cases p with ⟨e, hp⟩ | ⟨hle, hp⟩
  · exact .inl ⟨e, hp⟩
  · have a0 : le32 p 0 = le32 d 0 := le32_prefix hpd (by omega)
    have a4 : le32 p 4 = le32 d 4 := le32_prefix hpd (by omega)
    rewrite [a0, a4] at hp
    rewrite [a4] at hle
    rewrite [← e4] at hp hle
    rewrite [← e0] at hp
    have hw : (p.take (8 + ps)).drop 8 = (d.take (8 + ps)).drop 8 :=
      window_prefix hpd 8 (8 + ps) (by omega)
    rewrite [hw, ← epl, ← ect] at hp
    rewrite [← ect] at hle
    exact .inr ⟨hle, hp⟩

theorem prefix_length_le {p d : Bytes} (h : p <+: d) : p.length ≤ d.length := h.length_le

theorem parseExtSingleImage_prefix (fuelp : Nat) :
    ∀ (fueld : Nat) (st : State) (fr : FrameInfo) (al : Option Bytes) (p d : Bytes) (sd : State),
      p <+: d → parseExtSingleImage fueld st fr al d = .ok sd → p.length < fuelp →
      (∃ e, parseExtSingleImage fuelp st fr al p = .err e) ∨
        parseExtSingleImage fuelp st fr al p = .ok sd := by
  induction fuelp with
  | zero => intro _ _ _ _ _ _ _ _ _ h; omega
  | succ fuelp ih =>
    intro fueld st fr al p d sd hpd hd hlen
    cases fueld with
    | zero => rewrite [parseExtSingleImage_zero] at hd; cases hd
    | succ fueld =>
      rewrite [parseExtSingleImage_succ] at hd ⊢
      by_cases h8 : p.length < 8
      · rewrite [extStep_short h8]; exact .inl ⟨_, rfl⟩
      · have h8d : ¬ d.length < 8 := by have := prefix_length_le hpd; omega
        rcases chunkAt_cases' d with ⟨e, hc⟩ | ⟨fc, ps, pl, hc, hle, _, _, -, -, -⟩
        · rewrite [extStep_chunkErr h8d hc] at hd; cases hd
        · rcases chunkAt_prefix hpd h8 hc with ⟨e, hcp⟩ | ⟨hlep, hcp⟩
          · rewrite [extStep_chunkErr h8 hcp]; exact .inl ⟨_, rfl⟩
          · by_cases hfc : fc = ccALPH
            · rewrite [extStep_alph h8d hc hfc hle] at hd
              rewrite [extStep_alph h8 hcp hfc hlep]
              exact ih _ _ _ _ _ _ _ (drop_prefix hpd _) hd (by rewrite [List.length_drop]; omega)
            · rewrite [extStep_fin h8d hc hfc] at hd
              rewrite [extStep_fin h8 hcp hfc]
              exact .inr hd

/-- frames and metadata chunks are only ever appended -/
theorem parseVP8XChunks_mono (fuel : Nat) :
    ∀ (st : State) (ac : Nat) (buf : Bytes) (sd : State),
      parseVP8XChunks fuel st ac buf = .ok sd →
      st.frames <+: sd.frames ∧ st.chunks <+: sd.chunks := by
  induction fuel with
  | zero => intro st ac buf sd h; rewrite [parseVP8XChunks_zero] at h; cases h
  | succ fuel ih =>
    intro st ac buf sd h
    rewrite [parseVP8XChunks_succ] at h
    by_cases h8 : buf.length < 8
    · rewrite [vp8xStep_short h8] at h
      injection h with h
      subst h
      exact ⟨List.prefix_refl _, List.prefix_refl _⟩
    · rcases chunkAt_cases' buf with ⟨e, hc⟩ | ⟨fc, ps, pl, hc, hle, _, _, -, -, -⟩
      · rewrite [vp8xStep_chunkErr h8 hc] at h; cases h
      · cases hdec : vp8xDecide st ac fc ps pl with
        | err e => rewrite [vp8xStep_err h8 hc hdec] at h; cases h
        | panic =>
          have := vp8xDecide_safe st ac fc ps pl
          rewrite [hdec] at this; exact absurd this id
        | hang =>
          have := vp8xDecide_safe st ac fc ps pl
          rewrite [hdec] at this; exact absurd this id
        | ok o =>
          cases o with
          | none =>
            rewrite [vp8xStep_ext h8 hc hdec] at h
            obtain ⟨f, pl', hok, _⟩ := parseExtSingleImage_ok _ _ _ _ _ _ h rfl
            rewrite [hok.frames, hok.chunks]
            exact ⟨List.prefix_append _ _, List.prefix_refl _⟩
          | some v =>
            obtain ⟨st', ac'⟩ := v
            rewrite [vp8xStep_next h8 hc hdec hle] at h
            obtain ⟨_, _, _, _, hfc⟩ := vp8xDecide_some hdec
            obtain ⟨i1, i2⟩ := ih _ _ _ _ h
            have h1 : st.frames <+: st'.frames ∧ st.chunks <+: st'.chunks := by
              rcases hfc with ⟨hfr, hch⟩ | ⟨_, _, hch, f, hfr, _⟩
              · rewrite [hfr]
                rcases hch with hch | hch
                · rewrite [hch]; exact ⟨List.prefix_refl _, List.prefix_refl _⟩
                · rewrite [hch]; exact ⟨List.prefix_refl _, List.prefix_append _ _⟩
              · rewrite [hfr, hch]; exact ⟨List.prefix_append _ _, List.prefix_refl _⟩
            exact ⟨h1.1.trans i1, h1.2.trans i2⟩

/-- how the result on a prefix relates to the result on the whole buffer -/
structure PrefixRel (sp sd : State) : Prop where
  frames : sp.frames <+: sd.frames
  chunks : sp.chunks <+: sd.chunks
  fmeta : sp.features.sameMeta sd.features
  dims : sp.frames = sd.frames → sp.features.sameDims sd.features
  loop : sd.features.hasAnim = false → sp.features.sameLoop sd.features

theorem PrefixRel.refl (s : State) : PrefixRel s s :=
  ⟨List.prefix_refl _, List.prefix_refl _, Features.sameMeta_refl _,
    fun _ => Features.sameDims_refl _, fun _ => Features.sameLoop_refl _⟩

theorem Features.sameMeta_symm {a b : Features} (h : a.sameMeta b) : b.sameMeta a := by
  obtain ⟨a1, a2, a3, a4, a5, a6, a7⟩ := h
  exact ⟨a1.symm, a2.symm, a3.symm, a4.symm, a5.symm, a6.symm, a7.symm⟩
theorem Features.sameDims_symm {a b : Features} (h : a.sameDims b) : b.sameDims a :=
  ⟨h.1.symm, h.2.1.symm, h.2.2.symm⟩
theorem Features.sameLoop_symm {a b : Features} (h : a.sameLoop b) : b.sameLoop a :=
  ⟨h.1.symm, h.2.symm⟩

theorem parseVP8XChunks_prefix (fuelp : Nat) :
    ∀ (fueld : Nat) (st : State) (ac : Nat) (p d : Bytes) (sd : State),
      p <+: d → parseVP8XChunks fueld st ac d = .ok sd → p.length < fuelp →
      (0 < ac → st.features.hasAnim = true) →
      (∃ e, parseVP8XChunks fuelp st ac p = .err e) ∨
        ∃ sp, parseVP8XChunks fuelp st ac p = .ok sp ∧ PrefixRel sp sd := by
  induction fuelp with
  | zero => intro _ _ _ _ _ _ _ _ h; omega
  | succ fuelp ih =>
    intro fueld st ac p d sd hpd hd hlen hac
    by_cases h8 : p.length < 8
    · -- the prefix ends between chunks: it returns the state reached so far
      rewrite [parseVP8XChunks_succ, vp8xStep_short h8]
      refine .inr ⟨st, rfl, ?_⟩
      obtain ⟨m1, m2⟩ := parseVP8XChunks_mono _ _ _ _ _ hd
      obtain ⟨imeta, _⟩ := parseVP8XChunks_ok _ _ _ _ _ hd
      obtain ⟨s1, s2⟩ := parseVP8XChunks_shape _ _ _ _ _ hd hac
      refine ⟨m1, m2, Features.sameMeta_symm imeta, fun hfe => ?_, fun hna => ?_⟩
      · cases hb : st.features.hasAnim with
        | true => exact Features.sameDims_symm (s2 hb)
        | false =>
          rcases (s1 hb).2 with ⟨_, k2⟩ | ⟨f, pl, k1, _⟩
          · exact Features.sameDims_symm k2
          · rewrite [k1] at hfe
            have := congrArg List.length hfe
            rewrite [List.length_append] at this
            simp at this
      · have : st.features.hasAnim = false := imeta.2.1.symm.trans hna
        exact Features.sameLoop_symm (s1 this).1
    · cases fueld with
      | zero => rewrite [parseVP8XChunks_zero] at hd; cases hd
      | succ fueld =>
        rewrite [parseVP8XChunks_succ] at hd ⊢
        have h8d : ¬ d.length < 8 := by have := prefix_length_le hpd; omega
        rcases chunkAt_cases' d with ⟨e, hc⟩ | ⟨fc, ps, pl, hc, hle, _, _, -, -, -⟩
        · rewrite [vp8xStep_chunkErr h8d hc] at hd; cases hd
        · rcases chunkAt_prefix hpd h8 hc with ⟨e, hcp⟩ | ⟨hlep, hcp⟩
          · rewrite [vp8xStep_chunkErr h8 hcp]; exact .inl ⟨_, rfl⟩
          · cases hdec : vp8xDecide st ac fc ps pl with
            | err e => rewrite [vp8xStep_err h8d hc hdec] at hd; cases hd
            | panic =>
              have := vp8xDecide_safe st ac fc ps pl
              rewrite [hdec] at this; exact absurd this id
            | hang =>
              have := vp8xDecide_safe st ac fc ps pl
              rewrite [hdec] at this; exact absurd this id
            | ok o =>
              cases o with
              | none =>
                rewrite [vp8xStep_ext h8d hc hdec] at hd
                rewrite [vp8xStep_ext h8 hcp hdec]
                rcases parseExtSingleImage_prefix _ _ _ _ _ _ _ _ hpd hd (Nat.lt_succ_self _) with
                  ⟨e, he⟩ | he
                · exact .inl ⟨e, he⟩
                · exact .inr ⟨sd, he, PrefixRel.refl _⟩
              | some v =>
                obtain ⟨st', ac'⟩ := v
                rewrite [vp8xStep_next h8d hc hdec hle] at hd
                rewrite [vp8xStep_next h8 hcp hdec hlep]
                obtain ⟨hmeta, _, _, hloop, _⟩ := vp8xDecide_some hdec
                have hac' : 0 < ac' → st'.features.hasAnim = true := by
                  intro hp
                  rewrite [hmeta.2.1]
                  rcases hloop with ⟨he, _⟩ | ⟨ht, _⟩
                  · exact hac (he ▸ hp)
                  · exact ht
                exact ih _ _ _ _ _ _ (drop_prefix hpd _) hd
                  (by rewrite [List.length_drop]; omega) hac'

/-! ### whole file -/

theorem take_prefix_mono {p d : Bytes} (hpd : p <+: d) {k1 k2 : Nat} (h : k1 ≤ k2) :
    p.take k1 <+: d.take k2 := by
  obtain ⟨t, rfl⟩ := hpd
  have h1 : p.take k1 <+: (p ++ t).take k1 := take_prefix_of_prefix (List.prefix_append _ _) _
  have h2 : (p ++ t).take k1 <+: (p ++ t).take k2 := by
    have e : (p ++ t).take k1 = ((p ++ t).take k2).take k1 := by
      rw [List.take_take, Nat.min_eq_left h]
    rw [e]
    exact List.take_prefix _ _
  exact h1.trans h2

theorem riffBuf_prefix {p d : Bytes} (hpd : p <+: d) (h12 : 12 ≤ p.length) :
    riffBuf p <+: riffBuf d := by
  unfold riffBuf
  have a4 : le32 p 4 = le32 d 4 := le32_prefix hpd (by omega)
  have hl := prefix_length_le hpd
  rewrite [a4]
  generalize le32 d 4 = fs
  apply drop_prefix
  apply take_prefix_mono hpd
  split_ifs <;> omega

theorem parseSingleImage_prefix {st : State} {p d : Bytes} {sd : State} (hpd : p <+: d)
    (h8 : ¬ p.length < 8) (hd : parseSingleImage st d = .ok sd) :
    (∃ e, parseSingleImage st p = .err e) ∨ parseSingleImage st p = .ok sd := by
  rewrite [parseSingleImage_eq] at hd ⊢
  rcases chunkAt_cases' d with ⟨e, hc⟩ | ⟨fc, ps, pl, hc, hle, _, _, -, -, -⟩
  · rewrite [hc] at hd; cases hd
  · rcases chunkAt_prefix hpd h8 hc with ⟨e, hcp⟩ | ⟨_, hcp⟩
    · rewrite [hcp]; exact .inl ⟨e, rfl⟩
    · rewrite [hc] at hd
      rewrite [hcp]
      exact .inr hd

theorem parseVP8X_prefix {p d : Bytes} {sd : State} (hpd : p <+: d)
    (hd : parseVP8X d = .ok sd) :
    (∃ e, parseVP8X p = .err e) ∨ ∃ sp, parseVP8X p = .ok sp ∧ PrefixRel sp sd := by
  rcases parseVP8X_cases d with ⟨e, hx⟩ | ⟨_, _, hx⟩
  · rewrite [hx] at hd; cases hd
  rewrite [hx] at hd
  rcases parseVP8X_cases p with ⟨e, hxp⟩ | ⟨h18, _, hxp⟩
  · exact .inl ⟨e, hxp⟩
  rewrite [hxp]
  have hw : (p.take 18).drop 8 = (d.take 18).drop 8 := window_prefix hpd 8 18 h18
  rewrite [hw]
  exact parseVP8XChunks_prefix _ _ _ _ _ _ _ (drop_prefix hpd _) hd (Nat.lt_succ_self _)
    (fun hp => absurd hp (Nat.lt_irrefl 0))

theorem dispatch_prefix {p d : Bytes} {sd : State} (hpd : p <+: d) (h8 : 8 ≤ p.length)
    (hd : dispatch d = .ok sd) :
    (∃ e, dispatch p = .err e) ∨ ∃ sp, dispatch p = .ok sp ∧ PrefixRel sp sd := by
  unfold dispatch at hd ⊢
  have a0 : le32 p 0 = le32 d 0 := le32_prefix hpd (by omega)
  rewrite [a0]
  have simple : ∀ st, parseSingleImage st d = .ok sd →
      (∃ e, parseSingleImage st p = .err e) ∨
        ∃ sp, parseSingleImage st p = .ok sp ∧ PrefixRel sp sd := by
    intro st hs
    rcases parseSingleImage_prefix hpd (by omega) hs with ⟨e, he⟩ | he
    · exact .inl ⟨e, he⟩
    · exact .inr ⟨sd, he, PrefixRel.refl _⟩
  by_cases c1 : le32 d 0 = ccVP8X
  · rewrite [if_pos c1] at hd ⊢; exact parseVP8X_prefix hpd hd
  rewrite [if_neg c1] at hd ⊢
  by_cases c2 : le32 d 0 = ccVP8
  · rewrite [if_pos c2] at hd ⊢; exact simple _ hd
  rewrite [if_neg c2] at hd ⊢
  by_cases c3 : le32 d 0 = ccVP8L
  · rewrite [if_pos c3] at hd ⊢; exact simple _ hd
  · rewrite [if_neg c3] at hd; cases hd

/-- the container-level core of C17, for *every* byte string `d` the parser accepts -/
theorem parse_prefix {p d : Bytes} {sd : State} (hpd : p <+: d) (hd : parse d = .ok sd) :
    (∃ e, parse p = .err e) ∨ ∃ sp, parse p = .ok sp ∧ PrefixRel sp sd := by
  rcases parse_cases d with ⟨e, he⟩ | ⟨_, _, _, _, _, he⟩
  · rewrite [he] at hd; cases hd
  rewrite [he] at hd
  rcases parse_cases p with ⟨e, hep⟩ | ⟨h12, _, _, _, h8, hep⟩
  · exact .inl ⟨e, hep⟩
  rewrite [hep]
  exact dispatch_prefix (riffBuf_prefix hpd h12) h8 hd

/-- a simple-format file whose image chunk fills the file: every proper prefix is rejected -/
theorem parse_simple_prefix_err {p d : Bytes} {sd : State} (hpd : p <+: d)
    (hlt : p.length < d.length) (hd : parse d = .ok sd) (hfmt : sd.features.format ≠ .vp8x)
    (hfill : 20 + (le32 d 16 + le32 d 16 % 2) = d.length) :
    ∃ e, parse p = .err e := by
  rcases parse_cases d with ⟨e, he⟩ | ⟨h12d, _, _, _, h8d, he⟩
  · rewrite [he] at hd; cases hd
  rewrite [he] at hd
  rcases parse_cases p with ⟨e, hep⟩ | ⟨h12, _, _, _, h8, hep⟩
  · exact ⟨e, hep⟩
  rewrite [hep]
  have hrp := riffBuf_prefix hpd h12
  have hlp := riffBuf_length p h12
  -- the chunk header the prefix sees is the one of the full file
  have a4 : le32 (riffBuf p) 4 = le32 d 16 := by
    have b1 : le32 (riffBuf p) 4 = le32 p 16 := by
      have hp20 : 20 ≤ p.length := by omega
      have : riffBuf p <+: p.drop 12 := by
        unfold riffBuf
        exact drop_prefix (List.take_prefix _ _) _
      rw [le32_prefix this (by omega), le32_drop]
    rw [b1]
    exact le32_prefix hpd (by omega)
  have a0 : le32 (riffBuf p) 0 = le32 (riffBuf d) 0 := le32_prefix hrp (by omega)
  unfold dispatch at hd ⊢
  rewrite [a0]
  have simple : ∀ st, ∃ e, parseSingleImage st (riffBuf p) = .err e := by
    intro st
    rewrite [parseSingleImage_eq]
    rcases chunkAt_cases (riffBuf p) with ⟨e, hc⟩ | ⟨hle, hc⟩
    · rewrite [hc]; exact ⟨e, rfl⟩
    · rewrite [a4] at hle
      omega
  by_cases c1 : le32 (riffBuf d) 0 = ccVP8X
  · rewrite [if_pos c1] at hd
    exact absurd (parseVP8X_ok hd).2 hfmt
  rewrite [if_neg c1] at hd ⊢
  by_cases c2 : le32 (riffBuf d) 0 = ccVP8
  · rewrite [if_pos c2]; exact simple _
  rewrite [if_neg c2] at hd ⊢
  by_cases c3 : le32 (riffBuf d) 0 = ccVP8L
  · rewrite [if_pos c3]; exact simple _
  · rewrite [if_neg c3] at hd; cases hd

end Webp.Impl.Parser
