import Webp.Proofs.AnimDecGeom
import Webp.Proofs.AnimDecBlend
/-
  The decoder state machine (two canvases + key-frame shortcut) refines the specification's
  playback.  Invariant: `prevDisposed` is the specification's canvas after the dispose step, and
  whenever the key-frame shortcut can fire, starting from a transparent canvas gives the same
  picture as starting from `prevDisposed` (the carried canvas is fully overwritten, or it is
  already fully transparent).
-/
namespace Webp.Proofs.AnimDecPlay
open Webp.Spec.Anim Webp.Impl.AnimDec Webp.Proofs.AnimDecLoops Webp.Proofs.AnimDecGeom
open Webp.Proofs.AnimDecBlend

/-! ### sizes (unconditional) -/

theorem loopN_size {body : Int → Array Px → Array Px} (hb : ∀ v c, (body v c).size = c.size)
    (lo : Int) (n : Nat) (c : Array Px) : (loopN body lo n c).size = c.size := by
  induction n with
  | zero => rfl
  | succ n ih => rw [loopN_succ, hb, ih]

theorem setNRGBA_size (w h : Nat) (c : Array Px) (x y : Int) (v : Px) :
    (setNRGBA w h c x y v).size = c.size := by
  unfold setNRGBA; split <;> simp

theorem compositeFrame_size (w h : Nat) (f : Frame) (c : Canvas) :
    (compositeFrame w h f c).size = c.size := by
  unfold compositeFrame
  simp only []
  split
  · rfl
  · rw [forRange_eq]
    apply loopN_size
    intro y c
    split
    · rfl
    · rw [forRange_eq]
      apply loopN_size
      intro x c
      split
      · rfl
      · split <;> exact setNRGBA_size ..

theorem fillRect_size (w h : Nat) (c : Canvas) (r : Rect) (v : Px) :
    (fillRect w h c r v).size = c.size := by
  unfold fillRect
  simp only [forRange_eq]
  apply loopN_size
  intro y c
  apply loopN_size
  intro x c
  exact setNRGBA_size ..

theorem applyDispose_size (w h : Nat) (c : Canvas) (f : Frame) :
    (applyDispose w h c f).size = c.size := by
  unfold applyDispose; split
  · exact fillRect_size ..
  · rfl

theorem clearCanvas_eq (w h : Nat) (c : Canvas) (hc : c.size = w * h) :
    clearCanvas c = transparent w h := by
  unfold clearCanvas transparent; rw [hc]

theorem step_sizes (allow : Bool) (w h n : Nat) (f : Frame) (st : State)
    (h1 : st.curr.size = n) (h2 : st.prevDisposed.size = n) :
    (step allow w h f st).2.curr.size = n ∧ (step allow w h f st).2.prevDisposed.size = n := by
  unfold step
  simp only []
  have : (if (allow && isKeyFrame w h f st.pos st) = true then clearCanvas st.curr else st.prevDisposed).size = n := by
    split
    · simp [clearCanvas, h1]
    · exact h2
  constructor
  · rw [compositeFrame_size, this]
  · rw [applyDispose_size, compositeFrame_size, this]

theorem runN_sizes (oracle : Nat → Bool) (w h n : Nat) (frames : List Frame) (k : Nat) (st : State)
    (h1 : st.curr.size = n) (h2 : st.prevDisposed.size = n) :
    (runN oracle w h frames k st).2.curr.size = n ∧
    (runN oracle w h frames k st).2.prevDisposed.size = n := by
  induction k generalizing st with
  | zero => exact ⟨h1, h2⟩
  | succ k ih =>
    unfold runN nextFrameCore
    cases hfr : frames[st.pos]? with
    | none => exact ⟨h1, h2⟩
    | some f =>
      simp only []
      obtain ⟨s1, s2⟩ := step_sizes (oracle st.pos) w h n f st h1 h2
      exact ih _ s1 s2

theorem reset_eq_init (w h : Nat) (st : State) (h1 : st.curr.size = w * h)
    (h2 : st.prevDisposed.size = w * h) : reset st = init w h := by
  unfold reset init
  rw [clearCanvas_eq w h _ h1, clearCanvas_eq w h _ h2]
  rfl


/-! ### specification-side facts -/

local notation "bl" => alphaBlendNRGBA

theorem draw_size (b : Px → Px → Px) (w h : Nat) (f : Frame) (c : Canvas) :
    (draw b w h f c).size = w * h := by simp [draw]

theorem transparent_size (w h : Nat) : (transparent w h).size = w * h := by simp [transparent]

theorem disposePrev_size (w h : Nat) (prev : Option Frame) (c : Canvas) (hc : c.size = w * h) :
    (disposePrev w h prev c).size = w * h := by
  unfold disposePrev
  cases prev with
  | none => exact hc
  | some p =>
    simp only []
    split
    · simp [disposeRect]
    · exact hc

theorem transparent_get (w h i : Nat) : (transparent w h).getD i Px.zero = Px.zero := by
  unfold transparent
  rw [getD_replicate]; split <;> rfl

theorem draw_get (b : Px → Px → Px) (w h : Nat) (f : Frame) (c : Canvas) (i : Nat) (hi : i < w * h) :
    (draw b w h f c).getD i Px.zero =
      if f.covers (i % w) (i / w) then
        (let s := f.at (((i % w : Nat) : Int) - f.offX).toNat (((i / w : Nat) : Int) - f.offY).toNat
         if f.blendNone then s else b s (c.getD i Px.zero))
      else c.getD i Px.zero := by
  unfold draw
  rw [getD_ofFn _ i hi]
  rfl

theorem disposeRect_get (w h : Nat) (p : Frame) (c : Canvas) (i : Nat) (hi : i < w * h) :
    (disposeRect w h p c).getD i Px.zero =
      if p.covers (i % w) (i / w) then Px.zero else c.getD i Px.zero := by
  unfold disposeRect
  rw [getD_ofFn _ i hi]
  rfl

/-- a frame that overwrites every canvas pixel makes the previous canvas irrelevant -/
theorem draw_full_irrelevant (w h : Nat) (f : Frame) (c1 c2 : Canvas)
    (hx : f.offX = 0) (hy : f.offY = 0) (hfw : f.fw = w) (hfh : f.fh = h)
    (hop : f.blendNone = true ∨ ∀ sx sy, sx < f.fw → sy < f.fh → (f.at sx sy).a = 255) :
    draw bl w h f c1 = draw bl w h f c2 := by
  apply canvas_ext (draw_size ..) (draw_size ..)
  intro i hi
  rw [draw_get _ _ _ _ _ _ hi, draw_get _ _ _ _ _ _ hi]
  have hxi := mod_lt_of_lt hi
  have hyi := div_lt_of_lt hi
  generalize i % w = x at *
  generalize i / w = y at *
  have hcov : f.covers x y = true := by
    unfold Frame.covers
    simp only [Bool.and_eq_true, decide_eq_true_eq]
    omega
  rw [if_pos hcov, if_pos hcov]
  simp only []
  rcases hop with hb | ho
  · rw [if_pos hb, if_pos hb]
  · by_cases hb : f.blendNone = true
    · rw [if_pos hb, if_pos hb]
    · rw [if_neg hb, if_neg hb]
      have ha := ho ((x : Int) - f.offX).toNat ((y : Int) - f.offY).toNat
        (by omega) (by omega)
      rw [alphaBlend_src255 _ _ ha, alphaBlend_src255 _ _ ha]

/-- disposing a frame that covers the whole canvas leaves a transparent canvas -/
theorem disposeRect_full (w h : Nat) (p : Frame) (c : Canvas)
    (hx : p.offX = 0) (hy : p.offY = 0) (hfw : p.fw = w) (hfh : p.fh = h) :
    disposeRect w h p c = transparent w h := by
  apply canvas_ext (by simp [disposeRect]) (transparent_size w h)
  intro i hi
  rw [disposeRect_get _ _ _ _ _ hi, transparent_get]
  have hxi := mod_lt_of_lt hi
  have hyi := div_lt_of_lt hi
  generalize i % w = x at *
  generalize i / w = y at *
  rw [if_pos]
  unfold Frame.covers
  simp only [Bool.and_eq_true, decide_eq_true_eq]
  omega

/-- disposing the only frame drawn on a transparent canvas leaves a transparent canvas -/
theorem disposeRect_outside (w h : Nat) (p : Frame) (c : Canvas)
    (hout : ∀ i, i < w * h → p.covers (i % w) (i / w) = false → c.getD i Px.zero = Px.zero) :
    disposeRect w h p c = transparent w h := by
  apply canvas_ext (by simp [disposeRect]) (transparent_size w h)
  intro i hi
  rw [disposeRect_get _ _ _ _ _ hi, transparent_get]
  by_cases hc : p.covers (i % w) (i / w) = true
  · rw [if_pos hc]
  · rw [if_neg hc]
    exact hout i hi (by simpa using hc)

theorem draw_transparent_outside (w h : Nat) (f : Frame) (i : Nat) (hi : i < w * h)
    (hc : f.covers (i % w) (i / w) = false) :
    (draw bl w h f (transparent w h)).getD i Px.zero = Px.zero := by
  rw [draw_get _ _ _ _ _ _ hi, if_neg (by simp [hc]), transparent_get]

/-! ### the invariant -/

/-- `st` (implementation) against the specification's canvas `C` after its last drawn frame
    `prev` -/
structure Inv (w h : Nat) (st : State) (C : Canvas) (prev : Option Frame) : Prop where
  currSize : st.curr.size = w * h
  cSize : C.size = w * h
  prevDisposed : st.prevDisposed = disposePrev w h prev C
  first : prev = none → st.pos = 0 ∧ C = transparent w h
  later : ∀ p, prev = some p →
    st.pos ≠ 0 ∧ st.prevDisposeBG = p.disposeBG ∧ st.prevBounds = frameBounds p ∧ GoFrame p ∧
    (st.prevWasKey = true →
      ∀ i, i < w * h → p.covers (i % w) (i / w) = false → C.getD i Px.zero = Px.zero)

theorem inv_init (w h : Nat) : Inv w h (init w h) (transparent w h) none where
  currSize := by simp [init]
  cSize := transparent_size w h
  prevDisposed := rfl
  first := fun _ => ⟨rfl, rfl⟩
  later := fun p hp => by cases hp

/-- **when the key-frame test succeeds, the carried canvas does not matter** -/
theorem keyframe_sound (w h : Nat) (f : Frame) (st : State) (C : Canvas) (prev : Option Frame)
    (hw : IsGoInt w) (hh : IsGoInt h)
    (hflag : f.hasAlpha = false → ∀ sx sy, sx < f.fw → sy < f.fh → (f.at sx sy).a = 255)
    (inv : Inv w h st C prev) (hk : isKeyFrame w h f st.pos st = true) :
    draw bl w h f (transparent w h) = draw bl w h f (disposePrev w h prev C) := by
  unfold isKeyFrame at hk
  by_cases h0 : st.pos = 0
  · -- first frame: nothing was drawn yet
    cases prev with
    | none => rw [(inv.first rfl).2]; rfl
    | some p => exact absurd h0 (inv.later p rfl).1
  · have h0' : (st.pos == 0) = false := by simpa using h0
    rw [h0'] at hk
    simp only [Bool.false_eq_true, if_false] at hk
    split at hk
    · -- full-canvas frame without alpha, or not blended
      rename_i hfull
      simp only [Bool.and_eq_true, beq_iff_eq, Bool.or_eq_true, Bool.not_eq_true'] at hfull
      obtain ⟨⟨⟨⟨hx, hy⟩, hfw⟩, hfh⟩, hop⟩ := hfull
      apply draw_full_irrelevant w h f _ _ hx hy (by omega) (by omega)
      rcases hop with ha | hb
      · exact Or.inr (hflag ha)
      · exact Or.inl hb
    · split at hk
      · rename_i hbg
        cases prev with
        | none => exact absurd (inv.first rfl).1 h0
        | some p =>
          obtain ⟨-, hdb, hpb, hgp, hkey⟩ := inv.later p rfl
          have hpd : p.disposeBG = true := by rw [← hdb]; exact hbg
          have hT : disposeRect w h p C = transparent w h := by
            split at hk
            · rename_i hor
              simp only [Bool.or_eq_true] at hor
              rcases hor with hfull | hwk
              · -- previous frame covered the whole canvas
                simp only [Bool.and_eq_true, beq_iff_eq] at hfull
                obtain ⟨⟨⟨hmx, hmy⟩, hdx⟩, hdy⟩ := hfull
                rw [hpb, frameBounds_eq p hgp] at hmx hmy hdx hdy
                obtain ⟨⟨a1, a2⟩, ⟨b1, b2⟩, ⟨c1, c2⟩, ⟨d1, d2⟩⟩ := hgp
                obtain ⟨w1, w2⟩ := hw
                obtain ⟨h1, h2⟩ := hh
                simp only [Rect.dx, Rect.dy] at hmx hmy hdx hdy
                unfold wrap maxInt at hdx hdy
                apply disposeRect_full w h p C hmx hmy <;> omega
              · -- previous frame was a key frame: C is transparent outside its rectangle
                exact disposeRect_outside w h p C (hkey hwk)
            · exact absurd hk (by simp)
          unfold disposePrev
          simp only [hpd, if_true]
          rw [hT]
      · exact absurd hk (by simp)


/-- one `NextFrame` call refines one step of the specification and re-establishes the invariant -/
theorem step_refines (allow : Bool) (w h : Nat) (f : Frame) (st : State) (C : Canvas)
    (prev : Option Frame) (hw : IsGoInt w) (hh : IsGoInt h) (hf : GoFrame f)
    (hflag : f.hasAlpha = false → ∀ sx sy, sx < f.fw → sy < f.fh → (f.at sx sy).a = 255)
    (inv : Inv w h st C prev) :
    (step allow w h f st).1 = draw bl w h f (disposePrev w h prev C) ∧
    Inv w h (step allow w h f st).2 (draw bl w h f (disposePrev w h prev C)) (some f) := by
  have hpd : (disposePrev w h prev C).size = w * h := disposePrev_size w h prev C inv.cSize
  -- the canvas the frame is composited on
  have hcurr : compositeFrame w h f
      (if (allow && isKeyFrame w h f st.pos st) = true then clearCanvas st.curr else st.prevDisposed)
      = draw bl w h f (disposePrev w h prev C) := by
    by_cases hk : (allow && isKeyFrame w h f st.pos st) = true
    · rw [if_pos hk, clearCanvas_eq w h _ inv.currSize,
        compositeFrame_eq_draw w h f _ hw hh hf (transparent_size w h)]
      have hk' : isKeyFrame w h f st.pos st = true := by
        simp only [Bool.and_eq_true] at hk; exact hk.2
      exact keyframe_sound w h f st C prev hw hh hflag inv hk'
    · rw [if_neg hk, inv.prevDisposed, compositeFrame_eq_draw w h f _ hw hh hf hpd]
  unfold step
  simp only []
  rw [hcurr]
  refine ⟨rfl, ?_⟩
  exact {
    currSize := draw_size ..
    cSize := draw_size ..
    prevDisposed := applyDispose_eq w h f _ hw hh hf (draw_size ..)
    first := fun hn => by cases hn
    later := fun p hp => by
      cases hp
      refine ⟨by simp, rfl, rfl, hf, ?_⟩
      intro hkey i hi hc
      simp only [] at hkey
      have hk' : isKeyFrame w h f st.pos st = true := by
        simp only [Bool.and_eq_true] at hkey; exact hkey.2
      rw [← keyframe_sound w h f st C prev hw hh hflag inv hk']
      exact draw_transparent_outside w h f i hi hc }

theorem drop_eq_cons {α : Type} {l : List α} {k : Nat} {a : α} {t : List α}
    (h : l.drop k = a :: t) : l[k]? = some a ∧ l.drop (k + 1) = t := by
  constructor
  · rw [← List.head?_drop, h]; rfl
  · rw [← List.tail_drop, h]; rfl

theorem runN_refines (oracle : Nat → Bool) (w h : Nat) (frames : List Frame)
    (hw : IsGoInt w) (hh : IsGoInt h) (hgo : ∀ f ∈ frames, GoFrame f)
    (hfl : FlagsConsistent frames) :
    ∀ (rest : List Frame) (st : State) (C : Canvas) (prev : Option Frame),
      Inv w h st C prev → frames.drop st.pos = rest →
      (runN oracle w h frames rest.length st).1 = playFrom bl w h C prev rest := by
  intro rest
  induction rest with
  | nil => intro st C prev _ _; rfl
  | cons f fs ih =>
    intro st C prev inv hd
    obtain ⟨hget, hdrop⟩ := drop_eq_cons hd
    have hmem : f ∈ frames := List.mem_of_getElem? hget
    obtain ⟨hsnap, hinv⟩ := step_refines (oracle st.pos) w h f st C prev hw hh (hgo f hmem)
      (hfl f hmem) inv
    simp only [List.length_cons, runN, nextFrameCore, hget, playFrom]
    rw [hsnap]
    congr 1
    apply ih _ _ _ hinv
    exact hdrop

/-- the implementation model with any subset of key-frame decisions forced off plays the
    specification (with the implementation's blend function) -/
theorem playAllO_eq_playWith (oracle : Nat → Bool) (w h : Nat) (frames : List Frame)
    (hty : GoTyped w h frames) (hfl : FlagsConsistent frames) :
    playAllO oracle w h frames = playWith alphaBlendNRGBA w h frames := by
  obtain ⟨hw, hh, hfr⟩ := hty
  have hgo : ∀ f ∈ frames, GoFrame f := fun f hf =>
    ⟨(hfr f hf).1, (hfr f hf).2.1, (hfr f hf).2.2.1, (hfr f hf).2.2.2⟩
  exact runN_refines oracle w h frames hw hh hgo hfl frames (init w h) (transparent w h) none
    (inv_init w h) rfl

theorem blend_fun_eq : alphaBlendNRGBA = blend := funext fun s => funext fun d => alphaBlend_eq_spec s d

end Webp.Proofs.AnimDecPlay
