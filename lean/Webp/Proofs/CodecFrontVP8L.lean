import Mathlib.Tactic.IntervalCases
import Webp.Proofs.CodecFrontCopy
/-
  VP8L front end: `decodeImageStream` / `readTransform` / `decodeSubImage` / `readHuffmanCodes`
  never panic or hang for ANY oracle, the recursion depth never exceeds 1, and every allocation is
  bounded in terms of the declared width and height.
-/
namespace Webp.Impl.CodecFrontL
open Webp.Go
open Webp.Impl.CodecFront (Mem memTotal)

variable {σ : Type}

/-! ### arithmetic -/

theorem rd_lt (L : LSrc σ) (s : σ) (n : Nat) : (rd L s n).1 < 2 ^ n :=
  Nat.mod_lt _ (Nat.pos_of_ne_zero (by positivity))

theorem subSample_eq (size bits : Nat) : subSampleSize size bits = (size + 2 ^ bits - 1) / 2 ^ bits := by
  unfold subSampleSize
  rw [Nat.shiftRight_eq_div_pow, Nat.one_shiftLeft]

theorem subSample_le {size : Nat} (bits : Nat) (h : 1 ≤ size) :
    1 ≤ subSampleSize size bits ∧ subSampleSize size bits ≤ size := by
  rw [subSample_eq]
  have hk : 1 ≤ 2 ^ bits := Nat.one_le_two_pow
  generalize 2 ^ bits = k at hk
  constructor
  · exact (Nat.le_div_iff_mul_le (by omega)).mpr (by omega)
  · apply Nat.div_le_of_le_mul
    have : k * size = size + (k - 1) * size := by
      have : k = (k - 1) + 1 := by omega
      conv_lhs => rw [this]
      ring
    have h2 : k - 1 ≤ (k - 1) * size := Nat.le_mul_of_pos_right _ (by omega)
    omega

/-- quarter size, rounded up -/
def q4 (n : Nat) : Nat := (n + 3) / 4

theorem subSample_le_q4 {size bits : Nat} (hb : 2 ≤ bits) : subSampleSize size bits ≤ q4 size := by
  rw [subSample_eq]
  unfold q4
  have hk : 4 ≤ 2 ^ bits := by
    calc 4 = 2 ^ 2 := by norm_num
      _ ≤ 2 ^ bits := Nat.pow_le_pow_right (by norm_num) hb
  generalize 2 ^ bits = k at hk
  apply Nat.le_of_lt_succ
  apply (Nat.div_lt_iff_lt_mul (by omega)).mpr
  have h4 : size ≤ 4 * ((size + 3) / 4) := by omega
  have h5 : 4 * ((size + 3) / 4) ≤ k * ((size + 3) / 4) := Nat.mul_le_mul_right _ hk
  have : ((size + 3) / 4).succ * k = k * ((size + 3) / 4) + k := by rw [Nat.succ_mul]; ring
  omega

theorem q4_mono {a b : Nat} (h : a ≤ b) : q4 a ≤ q4 b := Nat.div_le_div_right (by omega)

/-- number of set bits of a 4-bit mask -/
def pop4 (m : Nat) : Nat := m % 2 + m / 2 % 2 + m / 4 % 2 + m / 8 % 2

theorem pop4_set {m ty : Nat} (hm : m < 16) (ht : ty < 4) (hc : ¬ m / 2 ^ ty % 2 = 1) :
    (m ||| (1 <<< ty)) < 16 ∧ pop4 (m ||| (1 <<< ty)) = pop4 m + 1 ∧ pop4 m ≤ 3 := by
  interval_cases ty <;> interval_cases m <;> simp_all [pop4]

/-- cost already paid for the transforms whose bit is set (`c2 = 0`: subtract-green reads nothing) -/
def paid (c0 c1 c3 m : Nat) : Nat :=
  (if m % 2 = 1 then c0 else 0) + (if m / 2 % 2 = 1 then c1 else 0) + (if m / 8 % 2 = 1 then c3 else 0)

theorem paid_set {c0 c1 c3 m ty : Nat} (hm : m < 16) (ht : ty < 4) (hc : ¬ m / 2 ^ ty % 2 = 1) :
    paid c0 c1 c3 (m ||| (1 <<< ty)) =
      paid c0 c1 c3 m + (if ty = 0 then c0 else if ty = 1 then c1 else if ty = 3 then c3 else 0) := by
  interval_cases ty <;> interval_cases m <;> simp_all [paid] <;> omega

theorem paid_le (c0 c1 c3 m : Nat) : paid c0 c1 c3 m ≤ c0 + c1 + c3 := by
  unfold paid
  split <;> split <;> split <;> omega

/-! ### how a call may change the decoder state -/

/-- `st'` results from `st` by allocating at most `bytes` (each request ≤ `memCap`), with the
    recursion counter restored and the recorded maximum at most one above the current depth -/
structure Step (memCap : Nat) (st st' : St σ) (bytes : Nat) : Prop where
  depth : st'.depth = st.depth
  maxDepth : st'.maxDepth ≤ st.maxDepth ∨ st'.maxDepth ≤ st.depth + 1
  mem : memTotal st'.mem ≤ memTotal st.mem + bytes
  cap : ∀ v ∈ st'.mem, v ∈ st.mem ∨ v ≤ memCap

theorem Step.refl (memCap : Nat) (st : St σ) : Step memCap st st 0 :=
  ⟨rfl, Or.inl (Nat.le_refl _), Nat.le_refl _, fun _ h => Or.inl h⟩

theorem Step.trans {memCap : Nat} {a b c : St σ} {x y : Nat} (h1 : Step memCap a b x)
    (h2 : Step memCap b c y) : Step memCap a c (x + y) := by
  refine ⟨by rw [h2.depth, h1.depth], ?_, by have := h1.mem; have := h2.mem; omega, ?_⟩
  · have := h1.depth
    rcases h2.maxDepth with h | h <;> rcases h1.maxDepth with g | g <;> omega
  · intro v hv
    rcases h2.cap v hv with h | h
    · exact h1.cap v h
    · exact Or.inr h

theorem Step.weaken {memCap : Nat} {a b : St σ} {x y : Nat} (h : Step memCap a b x) (hxy : x ≤ y) :
    Step memCap a b y :=
  ⟨h.depth, h.maxDepth, by have := h.mem; omega, h.cap⟩

/-- a state that differs only in fields `Step` does not look at -/
theorem Step.of_eq {memCap : Nat} {a b : St σ} (hd : b.depth = a.depth) (hm : b.maxDepth = a.maxDepth)
    (hmem : b.mem = a.mem) : Step memCap a b 0 :=
  ⟨hd, Or.inl (by omega), by rw [hmem]; omega, fun v hv => Or.inl (by rw [hmem] at hv; exact hv)⟩

theorem Step.of_alloc {memCap : Nat} {a b : St σ} {bytes : Nat} (hd : b.depth = a.depth)
    (hm : b.maxDepth = a.maxDepth) (hmem : b.mem = bytes :: a.mem) (hle : bytes ≤ memCap) :
    Step memCap a b bytes := by
  refine ⟨hd, Or.inl (by omega), ?_, ?_⟩
  · rw [hmem]; unfold memTotal; simp only [List.sum_cons]; omega
  · intro v hv
    rw [hmem] at hv
    rcases List.mem_cons.mp hv with rfl | h
    · exact Or.inr hle
    · exact Or.inl h

/-- what `decodeSubImage(x, y)` guarantees -/
structure SubOK (memCap x y : Nat) (st : St σ) (r : Array UInt32 × St σ) : Prop where
  size : r.1.size = x * y
  step : Step memCap st r.2 (4 * (x * y) + 9352)
  seen : r.2.seen = st.seen
  transforms : r.2.transforms = st.transforms

/-! ### readHuffmanCodes pieces -/

theorem getU_post (a : Array UInt32) (i : Nat) (h : i < a.size) : (getU a i).Post (fun _ => True) := by
  unfold getU; rw [dif_pos h]; trivial

theorem group_lt (px : UInt32) : ((px >>> 8) &&& 0xffff).toNat < 65536 := by
  rw [UInt32.toNat_and]
  exact Nat.lt_of_le_of_lt Nat.and_le_right (by decide)

theorem groupScan_post (img : Array UInt32) : ∀ (n i mx : Nat) (acc : Array Nat),
    i + n ≤ img.size → 1 ≤ mx → mx ≤ 65536 →
    (groupScan img n i mx acc).Post (fun r => r.2.size = acc.size + n ∧ 1 ≤ r.1 ∧ r.1 ≤ 65536)
  | 0, _, _, _, _, hm, hM => ⟨rfl, hm, hM⟩
  | n + 1, i, mx, acc, hi, hm, hM => by
    unfold groupScan
    refine Res.Post.bind (getU_post img i (by omega)) (fun px _ => ?_)
    dsimp only
    have hg := group_lt px
    refine (groupScan_post img n (i + 1) _ (acc.push _) (by omega) (by split <;> omega)
      (by split <;> omega)).mono ?_
    intro r hr
    refine ⟨?_, hr.2⟩
    rw [hr.1, Array.size_push]; omega

/-- invariant of the remapping table: every assigned index is below the running count -/
def MapOK (mp : Array (Option Nat)) (num : Nat) : Prop :=
  ∀ j v, mp.getD j none = some v → v < num

theorem remapLoop_post (img : Array Nat) : ∀ (n i : Nat) (mp : Array (Option Nat)) (num : Nat)
    (acc : Array Nat), i + n ≤ img.size → MapOK mp num →
    (remapLoop img n i mp num acc).Post (fun r => r.1.size = mp.size ∧ r.2.1 ≤ num + n ∧
      MapOK r.1 r.2.1)
  | 0, _, mp, num, _, _, hok => ⟨rfl, Nat.le_refl _, hok⟩
  | n + 1, i, mp, num, acc, hi, hok => by
    unfold remapLoop
    rw [dif_pos (by omega)]
    dsimp only
    split
    · trivial
    · rename_i hg
      split
      · -- fresh group: mapping[g] = num
        have hok' : MapOK (mp.setIfInBounds img[i] (some num)) (num + 1) := by
          intro j v hj
          by_cases hjg : j = img[i]
          · subst hjg
            rw [Array.getD_eq_getD_getElem?, Array.getElem?_setIfInBounds_self_of_lt (by omega)] at hj
            simp at hj
            omega
          · rw [Array.getD_eq_getD_getElem?, Array.getElem?_setIfInBounds_ne (Ne.symm hjg)] at hj
            have := hok j v (by rw [Array.getD_eq_getD_getElem?]; exact hj)
            omega
        refine (remapLoop_post img n (i + 1) _ (num + 1) _ (by omega) hok').mono ?_
        intro r hr
        exact ⟨by rw [hr.1, Array.size_setIfInBounds], by omega, hr.2.2⟩
      · refine (remapLoop_post img n (i + 1) mp num _ (by omega) hok).mono ?_
        intro r hr
        exact ⟨hr.1, by omega, hr.2.2⟩

theorem readFive_post (L : LSrc σ) (cacheBits : Nat) (s : σ) :
    (readFive L cacheBits s).Post (fun _ => True) := by
  unfold readFive
  dsimp only
  repeat (first | trivial | split)

theorem groupLoop_post (L : LSrc σ) (cacheBits : Nat) (mapping : Option (Array (Option Nat)))
    (numGroups : Nat)
    (hmap : ∀ mp, mapping = some mp → MapOK mp numGroups) :
    ∀ (n i : Nat) (s : σ) (sel : Array Nat),
      (∀ mp, mapping = some mp → i + n ≤ mp.size) → (mapping = none → i + n ≤ numGroups) →
      (groupLoop L cacheBits mapping numGroups n i s sel).Post (fun _ => True)
  | 0, _, _, _, _, _ => trivial
  | n + 1, i, s, sel, h1, h2 => by
    unfold groupLoop
    have hm : (match mapping with
        | some mp => if h : i < mp.size then (.ok mp[i] : R (Option Nat)) else .panic
        | none => .ok (some i)).Post (fun mapped => ∀ k, mapped = some k → k < numGroups) := by
      cases hmp : mapping with
      | none =>
        intro k hk
        cases hk
        have := h2 hmp
        omega
      | some mp =>
        have := h1 mp hmp
        dsimp only
        rw [dif_pos (by omega)]
        intro k hk
        refine hmap mp hmp i k ?_
        rw [Array.getD_eq_getD_getElem?, Array.getElem?_eq_getElem (by omega)]
        simpa using hk
    refine Res.Post.bind hm (fun mapped hmapped => ?_)
    cases mapped with
    | none =>
      dsimp only
      refine Res.Post.bind (readFive_post L cacheBits s) (fun s' _ => ?_)
      exact groupLoop_post L cacheBits mapping numGroups hmap n (i + 1) s' sel
        (fun mp h => by have := h1 mp h; omega) (fun h => by have := h2 h; omega)
    | some k =>
      dsimp only
      rw [if_neg (by have := hmapped k rfl; omega)]
      refine Res.Post.bind (readFive_post L cacheBits s) (fun s' _ => ?_)
      exact groupLoop_post L cacheBits mapping numGroups hmap n (i + 1) s' _
        (fun mp h => by have := h1 mp h; omega) (fun h => by have := h2 h; omega)

/-! ### readHuffmanCodes -/

/-- a call that leaves everything but the reader, the log and the pooled capacities alone -/
structure Quiet (memCap : Nat) (st st' : St σ) (bytes : Nat) : Prop where
  step : Step memCap st st' bytes
  maxDepth : st'.maxDepth = st.maxDepth
  seen : st'.seen = st.seen
  transforms : st'.transforms = st.transforms

theorem Quiet.refl (memCap : Nat) (st : St σ) : Quiet memCap st st 0 :=
  ⟨Step.refl memCap st, rfl, rfl, rfl⟩

theorem Quiet.trans {memCap : Nat} {a b c : St σ} {x y : Nat} (h1 : Quiet memCap a b x)
    (h2 : Quiet memCap b c y) : Quiet memCap a c (x + y) :=
  ⟨h1.step.trans h2.step, by rw [h2.maxDepth, h1.maxDepth], by rw [h2.seen, h1.seen],
   by rw [h2.transforms, h1.transforms]⟩

theorem Quiet.weaken {memCap : Nat} {a b : St σ} {x y : Nat} (h : Quiet memCap a b x) (hxy : x ≤ y) :
    Quiet memCap a b y := ⟨h.step.weaken hxy, h.maxDepth, h.seen, h.transforms⟩

theorem setupCache_post (memCap bits : Nat) (st : St σ) (hb : bits ≤ 11) :
    (setupCache memCap bits st).Post (fun r => Quiet memCap st r.2 8192 ∧ r.2.br = st.br) := by
  unfold setupCache
  split
  · dsimp only
    have h2 : 1 <<< bits ≤ 2048 := by
      rw [Nat.one_shiftLeft]
      calc 2 ^ bits ≤ 2 ^ 11 := Nat.pow_le_pow_right (by norm_num) hb
        _ = 2048 := by norm_num
    split
    · rename_i hc
      unfold setupCache.reslice'
      rw [if_pos hc]
      exact ⟨(Quiet.refl memCap st).weaken (Nat.zero_le _), rfl⟩
    · refine Res.Post.bind (allocL_post memCap st.mem _) (fun m hm => ?_)
      exact ⟨⟨Step.weaken (y := 8192) (Step.of_alloc rfl rfl hm.1 hm.2) (by omega), rfl, rfl, rfl⟩, rfl⟩
  · exact ⟨(Quiet.refl memCap st).weaken (Nat.zero_le _), rfl⟩

/-- bytes of the meta-prefix block for an `xsize × ysize` image -/
def metaBytes (xsize ysize : Nat) : Nat := 4 * (q4 xsize * q4 ysize) + 9352 + 8 * 65536

structure MetaOK (memCap xsize ysize : Nat) (allowRecursion : Bool) (st : St σ)
    (r : Meta × Option (Array (Option Nat)) × St σ) : Prop where
  step : Step memCap st r.2.2 (metaBytes xsize ysize)
  seen : r.2.2.seen = st.seen
  transforms : r.2.2.transforms = st.transforms
  quiet : allowRecursion = false → Quiet memCap st r.2.2 0 ∧ r.1.numGroups = 1
  groups : r.1.numGroups ≤ 1000 + q4 xsize * q4 ysize
  map : ∀ mp, r.2.1 = some mp → MapOK mp r.1.numGroups ∧ r.1.numGroupsMax ≤ mp.size
  nomap : r.2.1 = none → r.1.numGroupsMax ≤ r.1.numGroups

theorem readMetaWith_post (L : LSrc σ) (memCap : Nat)
    (sub : Nat → Nat → St σ → R (Array UInt32 × St σ))
    (xsize ysize : Nat) (allowRecursion : Bool) (st : St σ)
    (hsub : allowRecursion = true → ∀ x y st, (sub x y st).Post (SubOK memCap x y st)) :
    (readMetaWith L memCap sub xsize ysize allowRecursion st).Post
      (MetaOK memCap xsize ysize allowRecursion st) := by
  unfold readMetaWith
  dsimp only
  cases allowRecursion with
  | false =>
    rw [if_neg (by simp)]
    have hq : Quiet memCap st { st with br := st.br } 0 := ⟨Step.of_eq rfl rfl rfl, rfl, rfl, rfl⟩
    exact ⟨hq.step.weaken (Nat.zero_le _), rfl, rfl, fun _ => ⟨hq, rfl⟩,
      (by show 1 ≤ 1000 + q4 xsize * q4 ysize; omega),
      (fun mp h => by cases h), fun _ => Nat.le_refl _⟩
  | true =>
    simp only [if_true, true_and]
    by_cases hf : (rd L st.br 1).1 = 1
    · rw [if_pos hf]
      have hpr := rd_lt L (rd L st.br 1).2 3
      generalize rd L (rd L st.br 1).2 3 = pr at hpr ⊢
      have hxq : subSampleSize xsize (2 + pr.1) ≤ q4 xsize := subSample_le_q4 (by omega)
      have hyq : subSampleSize ysize (2 + pr.1) ≤ q4 ysize := subSample_le_q4 (by omega)
      generalize subSampleSize xsize (2 + pr.1) = hx at hxq ⊢
      generalize subSampleSize ysize (2 + pr.1) = hy at hyq ⊢
      have hpix : hx * hy ≤ q4 xsize * q4 ysize := Nat.mul_le_mul hxq hyq
      split
      · trivial
      refine Res.Post.bind (hsub rfl hx hy _) (fun r hr => ?_)
      refine Res.Post.bind (groupScan_post r.1 (hx * hy) 0 1 #[] (by rw [hr.size]; omega)
        (Nat.le_refl _) (by decide)) (fun g hg => ?_)
      obtain ⟨gs, g1, g2⟩ := hg
      have hs0 : Step memCap st r.2 (4 * (hx * hy) + 9352) :=
        (Step.of_eq (a := st) (b := { st with br := pr.2 }) rfl rfl rfl).trans hr.step |>.weaken (by omega)
      split
      · refine Res.Post.bind (allocL_post memCap r.2.mem _) (fun m hm => ?_)
        have hrep : MapOK (Array.replicate g.1 (none : Option Nat)) 0 := by
          intro j v hj
          rw [Array.getD_eq_getD_getElem?, Array.getElem?_replicate] at hj
          split at hj <;> simp at hj
        refine Res.Post.bind (remapLoop_post g.2 (hx * hy) 0 _ 0 #[] (by rw [gs]; simp) hrep)
          (fun rm hrm => ?_)
        obtain ⟨r1, r2, r3⟩ := hrm
        have hs1 : Step memCap r.2 { r.2 with mem := m } (8 * g.1) :=
          Step.of_alloc rfl rfl hm.1 hm.2
        refine ⟨(hs0.trans hs1).weaken (by unfold metaBytes; omega), hr.seen, hr.transforms,
          (fun h => by cases h), ?_, ?_, (fun h => by cases h)⟩
        · show rm.2.1 ≤ _
          omega
        · intro mp hmp
          injection hmp with hmp
          subst hmp
          refine ⟨r3, ?_⟩
          show g.1 ≤ rm.1.size
          rw [r1, Array.size_replicate]
      · rename_i hno
        refine ⟨hs0.weaken (by unfold metaBytes; omega), hr.seen, hr.transforms,
          (fun h => by cases h), ?_, (fun mp h => by cases h), fun _ => Nat.le_refl _⟩
        show g.1 ≤ _
        omega
    · rw [if_neg hf]
      have hq : Quiet memCap st { st with br := (rd L st.br 1).2 } 0 :=
        ⟨Step.of_eq rfl rfl rfl, rfl, rfl, rfl⟩
      exact ⟨hq.step.weaken (Nat.zero_le _), rfl, rfl, (fun h => by cases h),
        (by show 1 ≤ 1000 + q4 xsize * q4 ysize; omega),
        (fun mp h => by cases h), fun _ => Nat.le_refl _⟩

theorem allocGroups_post (memCap n : Nat) (st : St σ) :
    (allocGroups memCap n st).Post (fun st' => Quiet memCap st st' (1160 * n) ∧ st'.br = st.br) := by
  unfold allocGroups
  split
  · exact ⟨(Quiet.refl memCap st).weaken (Nat.zero_le _), rfl⟩
  · refine Res.Post.bind (allocL_post memCap st.mem _) (fun m hm => ?_)
    exact ⟨⟨Step.of_alloc rfl rfl hm.1 hm.2, rfl, rfl, rfl⟩, rfl⟩

/-- bytes `readHuffmanCodes` may allocate for an `xsize × ysize` image: the meta sub-image, the
    remapping table (≤ 65536 ints), the groups (≤ 1000, or one per meta pixel) -/
def huffBytes (xsize ysize : Nat) : Nat :=
  metaBytes xsize ysize + 1160 * (1000 + q4 xsize * q4 ysize)

theorem readHuffmanCodesWith_post (L : LSrc σ) (memCap : Nat)
    (sub : Nat → Nat → St σ → R (Array UInt32 × St σ))
    (xsize ysize cacheBits : Nat) (allowRecursion : Bool) (st : St σ)
    (hsub : allowRecursion = true → ∀ x y st, (sub x y st).Post (SubOK memCap x y st)) :
    (readHuffmanCodesWith L memCap sub xsize ysize cacheBits allowRecursion st).Post (fun r =>
      Step memCap st r.2 (huffBytes xsize ysize) ∧ r.2.seen = st.seen ∧
      r.2.transforms = st.transforms ∧
      (allowRecursion = false → Quiet memCap st r.2 1160)) := by
  unfold readHuffmanCodesWith
  refine Res.Post.bind (readMetaWith_post L memCap sub xsize ysize allowRecursion st hsub)
    (fun r hr => ?_)
  dsimp only
  split
  · trivial
  refine Res.Post.bind (allocGroups_post memCap r.1.numGroups r.2.2) (fun st2 h2 => ?_)
  obtain ⟨q2, hbr⟩ := h2
  have hgl := groupLoop_post L cacheBits r.2.1 r.1.numGroups (fun mp h => (hr.map mp h).1)
    r.1.numGroupsMax 0 st2.br #[] (fun mp h => by have := (hr.map mp h).2; omega)
    (fun h => by have := hr.nomap h; omega)
  refine Res.Post.bind hgl (fun g _ => ?_)
  have hfin : Quiet memCap st2 { st2 with br := g.1 } 0 := ⟨Step.of_eq rfl rfl rfl, rfl, rfl, rfl⟩
  have hgr : 1160 * r.1.numGroups ≤ 1160 * (1000 + q4 xsize * q4 ysize) :=
    Nat.mul_le_mul_left _ hr.groups
  refine ⟨((hr.step.trans q2.step).trans hfin.step).weaken (by unfold huffBytes; omega), ?_, ?_, ?_⟩
  · show st2.seen = st.seen
    rw [q2.seen, hr.seen]
  · show st2.transforms = st.transforms
    rw [q2.transforms, hr.transforms]
  · intro hfalse
    obtain ⟨hq, hn⟩ := hr.quiet hfalse
    have := (hq.trans q2).trans hfin
    rw [hn] at this
    exact this.weaken (by omega)

end Webp.Impl.CodecFrontL
