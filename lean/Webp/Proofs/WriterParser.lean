import Webp.Proofs.WriterRead
/-
  `container.NewParser` (model `Impl.Parser.parse`) on the files the writers produce.
-/
namespace Webp.Impl.Writer
open Webp.Go
open Webp.Impl.Parser (ccRIFF ccWEBP ccVP8 ccVP8L ccVP8X ccALPH ccICCP ccEXIF ccXMP
  chunkHeaderSize vp8xChunkSize maxChunkPayload maxMetadataSize State Features FrameInfo Chunk)
set_option maxHeartbeats 400000

theorem cc_lt : ccRIFF < 4294967296 ∧ ccWEBP < 4294967296 ∧ ccVP8 < 4294967296 ∧
    ccVP8L < 4294967296 ∧ ccVP8X < 4294967296 ∧ ccALPH < 4294967296 ∧ ccICCP < 4294967296 ∧
    ccEXIF < 4294967296 ∧ ccXMP < 4294967296 := by
  rw [Parser.ccRIFF_val, Parser.ccWEBP_val, Parser.ccVP8_val, Parser.ccVP8L_val, Parser.ccVP8X_val,
    Parser.ccALPH_val, Parser.ccICCP_val, Parser.ccEXIF_val, Parser.ccXMP_val]
  omega

theorem riffFile_length (body : Bytes) : (riffFile body).length = 12 + body.length := by
  unfold riffFile
  simp only [List.length_append, putLE32_length]

/-- the RIFF header is read back and the parser is handed exactly `body` -/
theorem parse_riffFile (body : Bytes) (h8 : 8 ≤ body.length)
    (hsz : 4 + body.length ≤ maxChunkPayload) :
    Parser.parse (riffFile body) = Parser.dispatch body := by
  have hM := maxChunkPayload_val
  have hl := riffFile_length body
  have h0 : le32 (riffFile body) 0 = ccRIFF := by
    unfold riffFile
    rw [List.append_assoc, List.append_assoc]
    exact le32_putLE32 _ _ cc_lt.1
  have h4 : le32 (riffFile body) 4 = 4 + body.length := by
    unfold riffFile
    rw [List.append_assoc, List.append_assoc]
    have := le32_append_right (putLE32 ccRIFF) (putLE32 (4 + body.length) ++ (putLE32 ccWEBP ++ body)) 0
    rw [le32_putLE32 _ _ (by omega)] at this
    exact this
  have h8' : le32 (riffFile body) 8 = ccWEBP := by
    unfold riffFile
    rw [List.append_assoc]
    have := le32_append_right (putLE32 ccRIFF ++ putLE32 (4 + body.length)) (putLE32 ccWEBP ++ body) 0
    rw [le32_putLE32 _ _ cc_lt.2.1] at this
    exact this
  have hb : ((riffFile body).take (4 + body.length + 8)).drop 12 = body := by
    rw [List.take_of_length_le (by omega)]
    unfold riffFile
    exact List.drop_left' rfl
  generalize riffFile body = F at hl h0 h4 h8' hb
  unfold Parser.parse Parser.parseRIFFHeader Parser.riffHeaderSize chunkHeaderSize
  generalize maxChunkPayload = M at hsz hM
  rw [if_neg (by omega), if_neg (by rw [h0]; exact fun h => h rfl)]
  dsimp only
  rw [h4, if_neg (by omega), if_neg (by omega), if_neg (by rw [h8']; exact fun h => h rfl),
    Res.bind_ok, if_neg (by omega), slice_ok _ _ _ (by omega) (by omega), hb, Res.bind_ok,
    if_neg (by omega)]
  rfl

/-! ### simple layout -/

theorem cc_ne : ccVP8 ≠ ccVP8X ∧ ccVP8L ≠ ccVP8X ∧ ccVP8L ≠ ccVP8 ∧ ccALPH ≠ ccVP8X ∧
    ccALPH ≠ ccVP8 ∧ ccALPH ≠ ccVP8L ∧ ccICCP ≠ ccVP8X ∧ ccICCP ≠ ccVP8 ∧ ccICCP ≠ ccVP8L ∧
    ccICCP ≠ ccALPH ∧ ccICCP ≠ Parser.ccANIM ∧ ccICCP ≠ Parser.ccANMF ∧
    ccVP8 ≠ Parser.ccANIM ∧ ccVP8 ≠ Parser.ccANMF ∧ ccVP8L ≠ Parser.ccANIM ∧
    ccVP8L ≠ Parser.ccANMF ∧ ccALPH ≠ Parser.ccANIM ∧ ccALPH ≠ Parser.ccANMF := by
  rw [Parser.ccVP8_val, Parser.ccVP8L_val, Parser.ccVP8X_val, Parser.ccALPH_val, Parser.ccICCP_val,
    Parser.ccANIM_val, Parser.ccANMF_val]
  omega

/-- state `container.NewParser` reports for a simple lossless file -/
def simpleStateL (bs : Bytes) (w h : Nat) (a : Bool) : State :=
  { features := { format := .vp8l, hasAlpha := a, width := w, height := h,
                  canvasWidth := w, canvasHeight := h },
    frames := [{ payload := some bs, isLossless := true, width := w, height := h, hasAlpha := a }] }

/-- state `container.NewParser` reports for a simple lossy file -/
def simpleStateY (bs : Bytes) (w h : Nat) : State :=
  { features := { format := .vp8, width := w, height := h, canvasWidth := w, canvasHeight := h },
    frames := [{ payload := some bs, isLossless := false, width := w, height := h }] }

theorem simpleFile_body_length (fourcc : Nat) (bs : Bytes) :
    (chunkBytes fourcc bs).length = 8 + (bs.length + bs.length % 2) := by
  rw [chunkBytes_length]; omega

theorem parse_simple_vp8l (bs : Bytes) (hsz : 12 + (bs.length + bs.length % 2) ≤ maxChunkPayload)
    {w h : Nat} {a : Bool} (hh : Parser.parseVP8LHeader bs = .ok (w, h, a)) :
    Parser.parse (simpleFile ccVP8L bs) = .ok (simpleStateL bs w h a) := by
  have hbl := simpleFile_body_length ccVP8L bs
  unfold simpleFile
  rw [parse_riffFile _ (by omega) (by omega)]
  unfold Parser.dispatch
  have e : chunkBytes ccVP8L bs = chunkBytes ccVP8L bs ++ [] := (List.append_nil _).symm
  have h0 : le32 (chunkBytes ccVP8L bs) 0 = ccVP8L := by
    rw [e]; exact chunk_le32_0 _ _ _ cc_lt.2.2.2.1
  rw [h0, if_neg cc_ne.2.1, if_neg cc_ne.2.2.1, if_pos rfl, Parser.parseSingleImage_eq, e,
    chunkAt_chunk _ _ _ cc_lt.2.2.2.1 (by omega)]
  show Parser.simpleFinish _ ccVP8L bs = _
  unfold Parser.simpleFinish
  rw [if_pos rfl, hh]
  rfl

theorem parse_simple_vp8 (bs : Bytes) (hsz : 12 + (bs.length + bs.length % 2) ≤ maxChunkPayload)
    {w h : Nat} (hh : Parser.parseVP8Header bs = .ok (w, h)) :
    Parser.parse (simpleFile ccVP8 bs) = .ok (simpleStateY bs w h) := by
  have hbl := simpleFile_body_length ccVP8 bs
  unfold simpleFile
  rw [parse_riffFile _ (by omega) (by omega)]
  unfold Parser.dispatch
  have e : chunkBytes ccVP8 bs = chunkBytes ccVP8 bs ++ [] := (List.append_nil _).symm
  have h0 : le32 (chunkBytes ccVP8 bs) 0 = ccVP8 := by
    rw [e]; exact chunk_le32_0 _ _ _ cc_lt.2.2.1
  rw [h0, if_neg cc_ne.1, if_pos rfl, Parser.parseSingleImage_eq, e,
    chunkAt_chunk _ _ _ cc_lt.2.2.1 (by omega)]
  show Parser.simpleFinish _ ccVP8 bs = _
  unfold Parser.simpleFinish
  rw [if_neg (fun h => cc_ne.2.2.1 h.symm), hh]
  rfl

/-! ### extended layout: the VP8X chunk -/

/-- the alpha rule of the VP8X flags: an ALPH chunk is written, or the VP8L header says so -/
def alphaFlag (fourcc : Nat) (bs alpha : Bytes) : Bool :=
  decide (alpha.length > 0) || vp8lAlphaBit fourcc bs

theorem vp8xFlags_eq (fourcc : Nat) (bs alpha icc exif xmp : Bytes) :
    vp8xFlags fourcc bs alpha icc exif xmp =
      (if alphaFlag fourcc bs alpha then 16 else 0) + (if icc.length > 0 then 32 else 0) +
      (if exif.length > 0 then 8 else 0) + (if xmp.length > 0 then 4 else 0) := by
  unfold vp8xFlags alphaFlag
  by_cases h1 : alpha.length > 0 <;> by_cases h2 : vp8lAlphaBit fourcc bs = true <;>
  by_cases h3 : icc.length > 0 <;> by_cases h4 : exif.length > 0 <;> by_cases h5 : xmp.length > 0 <;>
  simp [h1, h2, h3, h4, h5]

theorem u32OfInt_pred (w : Nat) (h1 : 1 ≤ w) (h2 : w ≤ 4294967296) : u32OfInt ((w : Int) - 1) = w - 1 := by
  unfold u32OfInt
  omega

/-- the feature record `parseVP8X` derives from the VP8X chunk the writer emits -/
def feat0 (F w h : Nat) : Features :=
  { format := .vp8x
    hasAnim := decide (F / 2 % 2 ≠ 0), hasXMP := decide (F / 4 % 2 ≠ 0),
    hasEXIF := decide (F / 8 % 2 ≠ 0), hasAlpha := decide (F / 16 % 2 ≠ 0),
    hasICCP := decide (F / 32 % 2 ≠ 0),
    canvasWidth := w, canvasHeight := h, width := w, height := h,
    loopCount := 0, bgColor := 0xFFFFFFFF }

theorem vp8x_chunk_eq (F : Nat) (w h : Int) (rest : Bytes) :
    putLE32 ccVP8X ++ putLE32 10 ++ vp8xPayload F w h ++ rest =
      chunkBytes ccVP8X (vp8xPayload F w h) ++ rest := by
  unfold chunkBytes pad
  rw [vp8xPayload_length, if_neg (by decide), List.append_nil]

theorem parseVP8X_written (F w h : Nat) (rest : Bytes) (hF : F < 64) (hF0 : F % 2 = 0)
    (hw1 : 1 ≤ w) (hw2 : w ≤ 16383) (hh1 : 1 ≤ h) (hh2 : h ≤ 16383) :
    Parser.parseVP8X (chunkBytes ccVP8X (vp8xPayload F w h) ++ rest) =
      Parser.parseVP8XChunks (rest.length + 1) { features := feat0 F w h } 0 rest := by
  have hM := maxChunkPayload_val
  have h0 := chunk_le32_0 ccVP8X (vp8xPayload F w h) rest cc_lt.2.2.2.2.1
  have h4 := chunk_le32_4 ccVP8X (vp8xPayload F w h) rest (by rw [vp8xPayload_length]; omega)
  have hl := chunk_length ccVP8X (vp8xPayload F w h) rest
  have hp := chunk_payload ccVP8X (vp8xPayload F w h) rest
  have hr := chunk_rest ccVP8X (vp8xPayload F w h) rest
  rw [vp8xPayload_length] at h4 hl hp hr
  generalize chunkBytes ccVP8X (vp8xPayload F w h) ++ rest = X at h0 h4 hl hp hr
  unfold Parser.parseVP8X Parser.readChunkHeader chunkHeaderSize vp8xChunkSize
  generalize maxChunkPayload = M at hM
  rw [if_neg (by omega)]
  dsimp only
  rw [h4, if_neg (by omega), Res.bind_ok]
  dsimp only
  rw [if_neg (by omega), if_neg (by omega), slice_ok _ _ _ (by omega) (by omega), hp, Res.bind_ok]
  have hi : (idx (vp8xPayload F w h) 0 : Parser.R UInt8) = .ok (UInt8.ofNat (F % 256)) := rfl
  have hft : (UInt8.ofNat (F % 256)).toNat = F := by rw [toNat_ofNat_mod]; omega
  have s1 : (slice (vp8xPayload F w h) 4 7 : Parser.R Bytes) =
      .ok (putLE24 (u32OfInt ((w : Int) - 1))) := rfl
  have s2 : (slice (vp8xPayload F w h) 7 10 : Parser.R Bytes) =
      .ok (putLE24 (u32OfInt ((h : Int) - 1))) := rfl
  have l1 : le24 (putLE24 (u32OfInt ((w : Int) - 1))) 0 = w - 1 := by
    rw [u32OfInt_pred w hw1 (by omega)]
    have := le24_putLE24 (w - 1) [] (by omega)
    rw [List.append_nil] at this
    exact this
  have l2 : le24 (putLE24 (u32OfInt ((h : Int) - 1))) 0 = h - 1 := by
    rw [u32OfInt_pred h hh1 (by omega)]
    have := le24_putLE24 (h - 1) [] (by omega)
    rw [List.append_nil] at this
    exact this
  have e1 : 1 + (w - 1) = w := by omega
  have e2 : 1 + (h - 1) = h := by omega
  have hwh : w * h ≤ 16383 * 16383 := Nat.mul_le_mul hw2 hh2
  have hA : ¬ w * h ≥ Parser.maxImageArea := by
    have : Parser.maxImageArea = 1073741824 := rfl
    omega
  rw [hi, Res.bind_ok, hft, if_neg (by omega), s1, Res.bind_ok, s2, Res.bind_ok]
  rw [l1, l2, e1, e2, if_neg hA, sliceFrom_ok _ _ (by omega), hr, Res.bind_ok]
  rfl

/-! ### extended layout: the chunk loop -/

/-- state after the optional ICCP chunk -/
def stI (st : State) (icc : Bytes) : State :=
  if icc.length > 0 then { st with chunks := st.chunks ++ [⟨ccICCP, icc⟩] } else st

/-- state / frame / pending alpha after the optional ALPH chunk -/
def stA (st : State) (alpha : Bytes) : State :=
  if alpha.length > 0 then { st with features := { st.features with hasAlpha := true } } else st
def frA (alpha : Bytes) : FrameInfo := if alpha.length > 0 then { hasAlpha := true } else {}
def alA (alpha : Bytes) : Option Bytes := if alpha.length > 0 then some alpha else none

theorem maxMetadataSize_le : maxMetadataSize ≤ maxChunkPayload := by decide

theorem chunk_ge8 (fcc : Nat) (d rest : Bytes) : ¬ (chunkBytes fcc d ++ rest).length < 8 := by
  rw [chunk_length]; omega

/-- the parser's loop over VP8X sub-chunks consumes the ICCP chunk (if one was written) -/
theorem loop_iccp (fuel : Nat) (st : State) (icc R : Bytes)
    (hflag : icc.length > 0 → st.features.hasICCP = true)
    (hsz : icc.length ≤ maxMetadataSize) :
    ∃ fuel', Parser.parseVP8XChunks (fuel + 2) st 0 (optChunkBytes ccICCP icc ++ R) =
      Parser.parseVP8XChunks (fuel' + 1) (stI st icc) 0 R := by
  unfold optChunkBytes stI
  by_cases hd : icc.length > 0
  · rw [if_pos hd, if_pos hd]
    refine ⟨fuel, ?_⟩
    have hle := maxMetadataSize_le
    have hc := chunkAt_chunk ccICCP icc R cc_lt.2.2.2.2.2.2.1 (by omega)
    rw [Parser.parseVP8XChunks_succ,
      Parser.vp8xStep_next (st' := { st with chunks := st.chunks ++ [⟨ccICCP, icc⟩] }) (ac' := 0)
        (chunk_ge8 _ _ _) hc ?_ (by rw [chunk_length]; omega), chunk_rest]
    unfold Parser.vp8xDecide
    generalize maxMetadataSize = MM at hsz
    rw [if_neg cc_ne.2.2.2.2.2.2.1, if_neg cc_ne.2.2.2.2.2.2.2.2.2.2.1,
      if_neg cc_ne.2.2.2.2.2.2.2.2.2.2.2.1,
      if_neg (by
        rintro (h | h | h)
        · exact cc_ne.2.2.2.2.2.2.2.1 h
        · exact cc_ne.2.2.2.2.2.2.2.2.1 h
        · exact cc_ne.2.2.2.2.2.2.2.2.2.1 h),
      if_pos (Or.inl rfl), if_pos rfl, if_pos (hflag hd), if_neg (by omega)]
  · rw [if_neg hd, if_neg hd, List.nil_append]
    exact ⟨fuel + 1, rfl⟩

/-- entering `parseExtSingleImage` from the loop, on an ALPH / VP8 / VP8L chunk -/
theorem loop_enter (fuel : Nat) (st : State) (fcc : Nat) (d R : Bytes)
    (hfcc : fcc = ccVP8 ∨ fcc = ccVP8L ∨ fcc = ccALPH) (hanim : st.features.hasAnim = false)
    (hsz : d.length ≤ maxChunkPayload) :
    Parser.parseVP8XChunks (fuel + 1) st 0 (chunkBytes fcc d ++ R) =
      Parser.parseExtSingleImage ((chunkBytes fcc d ++ R).length + 1) st {} none
        (chunkBytes fcc d ++ R) := by
  have hlt : fcc < 4294967296 := by
    rcases hfcc with h | h | h <;> rw [h]
    · exact cc_lt.2.2.1
    · exact cc_lt.2.2.2.1
    · exact cc_lt.2.2.2.2.2.1
  have hc := chunkAt_chunk fcc d R hlt hsz
  rw [Parser.parseVP8XChunks_succ, Parser.vp8xStep_ext (chunk_ge8 _ _ _) hc]
  unfold Parser.vp8xDecide
  have n1 : ¬ fcc = ccVP8X := by
    rcases hfcc with h | h | h <;> rw [h]
    · exact cc_ne.1
    · exact cc_ne.2.1
    · exact cc_ne.2.2.2.1
  have n2 : ¬ fcc = Parser.ccANIM := by
    rcases hfcc with h | h | h <;> rw [h]
    · exact cc_ne.2.2.2.2.2.2.2.2.2.2.2.2.1
    · exact cc_ne.2.2.2.2.2.2.2.2.2.2.2.2.2.2.1
    · exact cc_ne.2.2.2.2.2.2.2.2.2.2.2.2.2.2.2.2.1
  have n3 : ¬ fcc = Parser.ccANMF := by
    rcases hfcc with h | h | h <;> rw [h]
    · exact cc_ne.2.2.2.2.2.2.2.2.2.2.2.2.2.1
    · exact cc_ne.2.2.2.2.2.2.2.2.2.2.2.2.2.2.2.1
    · exact cc_ne.2.2.2.2.2.2.2.2.2.2.2.2.2.2.2.2.2
  rw [if_neg n1, if_neg n2, if_neg n3, if_pos hfcc, hanim, if_neg (by simp)]

/-- the image chunk inside `parseExtSingleImage` -/
theorem ext_image (fuel : Nat) (st : State) (fr : FrameInfo) (al : Option Bytes) (fcc : Nat)
    (d R : Bytes) (hfcc : fcc = ccVP8 ∨ fcc = ccVP8L) (hsz : d.length ≤ maxChunkPayload) :
    Parser.parseExtSingleImage (fuel + 1) st fr al (chunkBytes fcc d ++ R) =
      Parser.extFinish st fr al fcc d := by
  have hlt : fcc < 4294967296 := by
    rcases hfcc with h | h <;> rw [h]
    · exact cc_lt.2.2.1
    · exact cc_lt.2.2.2.1
  have hne : ¬ fcc = ccALPH := by
    rcases hfcc with h | h <;> rw [h]
    · exact fun h => cc_ne.2.2.2.2.1 h.symm
    · exact fun h => cc_ne.2.2.2.2.2.1 h.symm
  rw [Parser.parseExtSingleImage_succ,
    Parser.extStep_fin (chunk_ge8 _ _ _) (chunkAt_chunk fcc d R hlt hsz) hne]

/-- optional ALPH chunk, then the image chunk; `T` (the EXIF / XMP chunks) is never looked at -/
theorem loop_image (fuel : Nat) (st : State) (alpha : Bytes) (fcc : Nat) (d T : Bytes)
    (hfcc : fcc = ccVP8 ∨ fcc = ccVP8L) (hanim : st.features.hasAnim = false)
    (hsa : alpha.length ≤ maxChunkPayload) (hsz : d.length ≤ maxChunkPayload) :
    Parser.parseVP8XChunks (fuel + 1) st 0 (optChunkBytes ccALPH alpha ++ (chunkBytes fcc d ++ T)) =
      Parser.extFinish (stA st alpha) (frA alpha) (alA alpha) fcc d := by
  unfold optChunkBytes stA frA alA
  by_cases hd : alpha.length > 0
  · rw [if_pos hd, if_pos hd, if_pos hd, if_pos hd,
      loop_enter fuel st ccALPH alpha _ (.inr (.inr rfl)) hanim hsa]
    have hfu : (chunkBytes ccALPH alpha ++ (chunkBytes fcc d ++ T)).length + 1 =
        ((chunkBytes ccALPH alpha ++ (chunkBytes fcc d ++ T)).length - 1) + 1 + 1 := by
      rw [chunk_length]; omega
    rw [hfu, Parser.parseExtSingleImage_succ,
      Parser.extStep_alph (chunk_ge8 _ _ _)
        (chunkAt_chunk ccALPH alpha _ cc_lt.2.2.2.2.2.1 hsa) rfl (by rw [chunk_length]; omega),
      chunk_rest, ext_image _ _ _ _ fcc d T hfcc hsz]
  · rw [if_neg hd, if_neg hd, if_neg hd, if_neg hd, List.nil_append,
      loop_enter fuel st fcc d T (by rcases hfcc with h | h; exact .inl h; exact .inr (.inl h))
        hanim hsz,
      ext_image _ _ _ _ fcc d T hfcc hsz]

/-! ### extended layout: whole file -/

theorem flags_bits (fourcc : Nat) (bs alpha icc exif xmp : Bytes) :
    vp8xFlags fourcc bs alpha icc exif xmp / 32 % 2 = (if icc.length > 0 then 1 else 0) ∧
    vp8xFlags fourcc bs alpha icc exif xmp / 16 % 2 = (if alphaFlag fourcc bs alpha then 1 else 0) ∧
    vp8xFlags fourcc bs alpha icc exif xmp / 8 % 2 = (if exif.length > 0 then 1 else 0) ∧
    vp8xFlags fourcc bs alpha icc exif xmp / 4 % 2 = (if xmp.length > 0 then 1 else 0) ∧
    vp8xFlags fourcc bs alpha icc exif xmp / 2 % 2 = 0 ∧
    vp8xFlags fourcc bs alpha icc exif xmp % 2 = 0 ∧
    vp8xFlags fourcc bs alpha icc exif xmp < 64 := by
  rw [vp8xFlags_eq]
  split_ifs <;> omega

theorem optLen_even (d : Bytes) : optLen d % 2 = 0 := by
  unfold optLen; split_ifs <;> omega

theorem optLen_ge (d : Bytes) : d.length ≤ optLen d := by
  unfold optLen; split_ifs <;> omega

theorem extBody_eq (fourcc : Nat) (bs alpha : Bytes) (w h : Int) (icc exif xmp : Bytes) :
    extBody fourcc bs alpha w h icc exif xmp =
      chunkBytes ccVP8X (vp8xPayload (vp8xFlags fourcc bs alpha icc exif xmp) w h) ++
        (optChunkBytes ccICCP icc ++ (optChunkBytes ccALPH alpha ++ (chunkBytes fourcc bs ++
          (optChunkBytes ccEXIF exif ++ optChunkBytes ccXMP xmp)))) := by
  unfold extBody
  rw [← vp8x_chunk_eq]
  simp only [List.append_assoc]

/-- the parser state right behind the VP8X chunk -/
def st0 (F w h : Nat) : State := { features := feat0 F w h }

theorem stI_features (st : State) (icc : Bytes) : (stI st icc).features = st.features := by
  unfold stI; split_ifs <;> rfl

/-- `container.NewParser` on an extended file: VP8X is read back, ICCP is collected, ALPH and
    the image chunk are handed to `extFinish`; EXIF / XMP are never looked at -/
theorem parse_extFile (fourcc : Nat) (bs alpha icc exif xmp : Bytes) (w h : Nat)
    (hfcc : fourcc = ccVP8 ∨ fourcc = ccVP8L)
    (hw1 : 1 ≤ w) (hw2 : w ≤ 16383) (hh1 : 1 ≤ h) (hh2 : h ≤ 16383)
    (hN : 4 + (extBody fourcc bs alpha w h icc exif xmp).length ≤ 4294967287)
    (hicc : icc.length ≤ maxMetadataSize) :
    Parser.parse (extFile fourcc bs alpha w h icc exif xmp) =
      Parser.extFinish
        (stA (stI (st0 (vp8xFlags fourcc bs alpha icc exif xmp) w h) icc) alpha)
        (frA alpha) (alA alpha) fourcc bs := by
  have hM := maxChunkPayload_val
  have hlen := extBody_length fourcc bs alpha w h icc exif xmp
  have e1 := optLen_even icc
  have e2 := optLen_even alpha
  have e3 := optLen_even exif
  have e4 := optLen_even xmp
  have g2 := optLen_ge alpha
  obtain ⟨fb32, fb16, fb8, fb4, fb2, fb1, fb64⟩ := flags_bits fourcc bs alpha icc exif xmp
  unfold extFile
  rw [parse_riffFile _ (by omega) (by omega)]
  unfold Parser.dispatch
  rw [extBody_eq, chunk_le32_0 _ _ _ cc_lt.2.2.2.2.1, if_pos rfl,
    parseVP8X_written _ w h _ fb64 fb1 hw1 hw2 hh1 hh2]
  generalize hR : optChunkBytes ccALPH alpha ++ (chunkBytes fourcc bs ++
      (optChunkBytes ccEXIF exif ++ optChunkBytes ccXMP xmp)) = R
  have hRl : 8 ≤ R.length := by
    rw [← hR, List.length_append, chunk_length]; omega
  obtain ⟨k, hk⟩ : ∃ k, (optChunkBytes ccICCP icc ++ R).length + 1 = k + 2 :=
    ⟨(optChunkBytes ccICCP icc ++ R).length - 1, by rw [List.length_append]; omega⟩
  rw [hk]
  obtain ⟨fuel', hf⟩ := loop_iccp k (st0 (vp8xFlags fourcc bs alpha icc exif xmp) w h) icc R
    (by
      intro hd
      show decide (vp8xFlags fourcc bs alpha icc exif xmp / 32 % 2 ≠ 0) = true
      rw [fb32, if_pos hd]; rfl) hicc
  show Parser.parseVP8XChunks (k + 2) (st0 _ w h) 0 _ = _
  rw [hf, ← hR]
  exact loop_image fuel' _ alpha fourcc bs _ hfcc
    (by
      rw [stI_features]
      show decide (vp8xFlags fourcc bs alpha icc exif xmp / 2 % 2 ≠ 0) = false
      rw [fb2]; rfl)
    (by omega) (by omega)

end Webp.Impl.Writer
