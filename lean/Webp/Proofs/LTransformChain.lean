import Webp.Proofs.LTransformPredictor
import Webp.Proofs.LTransformColor
import Webp.Proofs.LTransformPalette
import Webp.Proofs.LTransformPaletteDec
/-
  Lists of transforms: forward in encoder order, inverse in reverse order, with the width
  bookkeeping of a packing colour-index transform.   No `bv_decide` in this file.
-/
namespace Webp.Proofs.LTransformChain
open Webp.Spec.LTransform
open Webp.Impl.LTransform (forward1 applyForward)
open Webp.Proofs.LTransformPredictor (ModesAgree)

/-- what one forward transform needs for its inverse to undo it -/
def StepValid (h : Nat) : Xf → Nat → Array Px → Prop
  | .predictor _ tiles, _, _ => ModesAgree tiles
  | .crossColor _ _, _, _ => True
  | .subtractGreen, _, _ => True
  | .colorIndex pal, w, px => px.size = w * h ∧ (∀ p ∈ px, p ∈ pal) ∧ pal.size ≤ 256

/-- validity of a whole list: each transform is valid for the pixels *it is applied to* -/
def ChainValid (h : Nat) : List Xf → Nat → Array Px → Prop
  | [], _, _ => True
  | t :: ts, w, px => StepValid h t w px ∧ ChainValid h ts (t.widthAfter w) (forward1 t w h px)

theorem inverse_forward1 (h : Nat) (t : Xf) (w : Nat) (px : Array Px) (hv : StepValid h t w px) :
    t.inverse w h (forward1 t w h px) = px := by
  cases t with
  | predictor bits tiles =>
    exact Webp.Proofs.LTransformPredictor.predictInv_predictFwd w bits tiles px hv
  | crossColor bits tiles =>
    exact Webp.Proofs.LTransformColor.crossColorInv_crossColorFwd w bits tiles px
  | subtractGreen =>
    exact Webp.Proofs.LTransformColor.addGreen_subtractGreen px
  | colorIndex pal =>
    exact Webp.Proofs.LTransformPalette.colorIndexInv_paletteFwd pal w h px hv.1 hv.2.1 hv.2.2

theorem applyInverse_applyForward (h : Nat) (ts : List Xf) :
    ∀ (w : Nat) (px : Array Px), ChainValid h ts w px →
      applyInverse h ts w (applyForward h ts w px) = px := by
  induction ts with
  | nil => intro w px _; rfl
  | cons t ts ih =>
    intro w px hv
    simp only [applyForward, applyInverse]
    rw [ih _ _ hv.2]
    exact inverse_forward1 h t w px hv.1


/-- each inverse transform as coded (`in ≠ out`) computes the specification's inverse -/
theorem inverse1_eq_spec (t : Xf) (w h : Nat) (px : Array Px) :
    Webp.Impl.LTransform.inverse1 t w h px = t.inverse w h px := by
  cases t with
  | predictor bits tiles =>
    exact Webp.Proofs.LTransformPredictor.predictorInverse_eq_spec w bits tiles px
  | crossColor bits tiles =>
    exact Webp.Proofs.LTransformColor.colorSpaceInverse_eq_spec w bits tiles px
  | subtractGreen =>
    exact Webp.Proofs.LTransformColor.addGreenToBlueAndRed_eq_spec px
  | colorIndex pal =>
    exact Webp.Proofs.LTransformPaletteDec.colorIndexInverse_eq_spec pal w h px

theorem applyInverseTransforms_eq_spec (h : Nat) (ts : List Xf) :
    ∀ (w : Nat) (px : Array Px),
      Webp.Impl.LTransform.applyInverseTransforms h ts w px = applyInverse h ts w px := by
  induction ts with
  | nil => intro w px; rfl
  | cons t ts ih =>
    intro w px
    simp only [Webp.Impl.LTransform.applyInverseTransforms, applyInverse, ih, inverse1_eq_spec]

end Webp.Proofs.LTransformChain
