import Webp.Proofs.VP8ReconTokens
/-
  C06 helper: the residual tokens of one macroblock — `parseResiduals` reads back what
  `recordMBTokens` wrote, stores the coefficients `decCoeffs` describes and leaves the same
  non-zero context as the encoder's token pass.
-/
namespace Webp.Proofs.VP8ReconMB
open Webp.Impl.VP8Recon Webp.Proofs.VP8ReconTokens

def firstOf (d : MBDesc) : Nat := if d.isI4 then 0 else 1
def typeOf (d : MBDesc) : Nat := if d.isI4 then 3 else 0

/-- `block.Coeffs` after the Y2/WHT step, before any luma token is read -/
def S0 (K : Kernels) (qm : QuantMatrix) (d : MBDesc) : Nat → Coeffs := fun b =>
  if d.isI4 then Coeffs.zero
  else if h : b < 16 then Coeffs.zero.set 0 (decWht K qm (d.levels 24) ⟨b, h⟩) else Coeffs.zero

/-- `block.Coeffs` once the blocks `< cur` have been parsed -/
def mix (K : Kernels) (qm : QuantMatrix) (d : MBDesc) (cur : Nat) : Nat → Coeffs := fun b =>
  if b < cur then decBlock K qm d b else S0 K qm d b

def dcnz (K : Kernels) (qm : QuantMatrix) (d : MBDesc) (b : Nat) : Nat := if decBlock K qm d b 0 ≠ 0 then 1 else 0

theorem nz_luma (d : MBDesc) (b : Nat) (hb : b < 16) : d.nz b = nzCountFrom (firstOf d) (d.levels b) := by
  unfold MBDesc.nz firstOf
  cases d.isI4 <;> simp [hb]

theorem nz_other (d : MBDesc) (b : Nat) (hb : 16 ≤ b) : d.nz b = nzCountFrom 0 (d.levels b) := by
  unfold MBDesc.nz
  have : ¬ (b < 16) := by omega
  simp [this]

theorem decBlock_luma (K : Kernels) (qm : QuantMatrix) (d : MBDesc) (b : Nat) (hb : b < 16) :
    fillFrom (d.levels b) qm.y1dc qm.y1ac (firstOf d) (S0 K qm d b) = decBlock K qm d b := by
  unfold firstOf S0 decBlock
  cases h : d.isI4
  · simp only [hb, dite_true, Bool.false_eq_true, if_false]
    exact fillFrom_one_eq _ _ _ _
  · simp only [hb, dite_true, if_true]
    exact fillFrom_zero_eq_dequant _ _ _

theorem decBlock_chroma (K : Kernels) (qm : QuantMatrix) (d : MBDesc) (b : Nat) (h1 : 16 ≤ b) (h2 : b < 24) :
    fillFrom (d.levels b) qm.uvdc qm.uvac 0 (S0 K qm d b) = decBlock K qm d b := by
  have : ¬ (b < 16) := by omega
  unfold S0 decBlock
  simp only [this, dite_false, h2, if_true, ite_self]
  exact fillFrom_zero_eq_dequant _ _ _

theorem mix_step (K : Kernels) (qm : QuantMatrix) (d : MBDesc) (b : Nat) :
    (fun b' => if b' = b then decBlock K qm d b else mix K qm d b b') = mix K qm d (b + 1) := by
  funext b'
  unfold mix
  by_cases e : b' = b
  · subst e; simp
  · by_cases h : b' < b
    · have : b' < b + 1 := by omega
      simp [e, h, this]
    · have : ¬ (b' < b + 1) := by omega
      simp [e, h, this]

theorem mix_at (K : Kernels) (qm : QuantMatrix) (d : MBDesc) (b : Nat) : mix K qm d b b = S0 K qm d b := by
  unfold mix; simp

theorem min2_small (a b : Nat) (ha : a ≤ 1) : min2 (a + (b &&& 1)) = a + (b &&& 1) := by
  unfold min2
  rw [Nat.and_one_is_mod]
  have : b % 2 < 2 := Nat.mod_lt _ (by omega)
  split <;> omega

theorem decNz_gt (first n : Nat) : (decNz first n > first) ↔ (n > first) := by
  unfold decNz; split <;> omega

/-! ### luma -/

/-- the codes one luma row appends to `nzCoeffs` -/
def rowCodes (K : Kernels) (qm : QuantMatrix) (d : MBDesc) (first : Nat) (b0 : Nat) (xs : List Nat) (nzc : Nat) : Nat :=
  xs.foldl (fun acc x => nzCodeBits acc (decNz first (d.nz (b0 + x))) (dcnz K qm d (b0 + x))) nzc

theorem encYRow_l (d : MBDesc) (t first y : Nat) : ∀ (xs : List Nat) (tnz l : Nat), l ≤ 1 →
    (encYRow d t first y xs tnz l).2.2 ≤ 1 := by
  intro xs
  induction xs with
  | nil => intro tnz l h; simpa [encYRow] using h
  | cons x xs ih =>
    intro tnz l _
    simp only [encYRow]
    apply ih
    split <;> omega

theorem yrow (K : Kernels) (qm : QuantMatrix) (d : MBDesc) (hlev : ∀ b, LevelsInRange (d.levels b)) (y : Nat)
    (rest : Stream) :
    ∀ (len x0 tnz l nzc : Nat), 4 * y + x0 + len ≤ 16 → l ≤ 1 →
      decYRow (typeOf d) (firstOf d) qm y (List.range' x0 len)
        { tnz := tnz, l := l, nzCoeffs := nzc, store := mix K qm d (4 * y + x0)
          s := (encYRow d (typeOf d) (firstOf d) y (List.range' x0 len) tnz l).1 ++ rest } =
      some { tnz := (encYRow d (typeOf d) (firstOf d) y (List.range' x0 len) tnz l).2.1
             l := (encYRow d (typeOf d) (firstOf d) y (List.range' x0 len) tnz l).2.2
             nzCoeffs := rowCodes K qm d (firstOf d) (4 * y) (List.range' x0 len) nzc
             store := mix K qm d (4 * y + x0 + len), s := rest } := by
  intro len
  induction len with
  | zero => intro x0 tnz l nzc _ _; simp [decYRow, encYRow, rowCodes]
  | succ len ih =>
    intro x0 tnz l nzc hb hl
    have hb16 : 4 * y + x0 < 16 := by omega
    have hf : firstOf d ≤ 1 := by unfold firstOf; split <;> omega
    rw [List.range'_succ]
    simp only [decYRow, encYRow, List.append_assoc, rowCodes, List.foldl_cons]
    rw [min2_small l tnz hl, nz_luma d _ hb16, mix_at,
      block_roundtrip (d.levels (4 * y + x0)) (typeOf d) (firstOf d) (l + (tnz &&& 1)) qm.y1dc qm.y1ac hf
        (hlev _) (S0 K qm d (4 * y + x0))]
    simp only [Option.bind_some, decBlock_luma K qm d _ hb16, mix_step]
    have hflag : (if decNz (firstOf d) (nzCountFrom (firstOf d) (d.levels (4 * y + x0))) > firstOf d then 1 else 0) =
        (if nzCountFrom (firstOf d) (d.levels (4 * y + x0)) > firstOf d then 1 else 0) := by
      simp only [decNz_gt]
    rw [hflag]
    have h := ih (x0 + 1) ((tnz >>> 1) ||| ((if nzCountFrom (firstOf d) (d.levels (4 * y + x0)) > firstOf d then 1 else 0) <<< 7))
      (if nzCountFrom (firstOf d) (d.levels (4 * y + x0)) > firstOf d then 1 else 0)
      (nzCodeBits nzc (decNz (firstOf d) (nzCountFrom (firstOf d) (d.levels (4 * y + x0)))) (dcnz K qm d (4 * y + x0)))
      (by omega) (by split <;> omega)
    have e1 : 4 * y + (x0 + 1) = 4 * y + x0 + 1 := by omega
    have e2 : 4 * y + x0 + 1 + len = 4 * y + x0 + (len + 1) := by omega
    rw [e1] at h
    rw [e2] at h
    simp only [rowCodes, dcnz] at h ⊢
    exact h

theorem yrows (K : Kernels) (qm : QuantMatrix) (d : MBDesc) (hlev : ∀ b, LevelsInRange (d.levels b))
    (rest : Stream) :
    ∀ (len y0 tnz lnz nzY : Nat), 4 * (y0 + len) ≤ 16 →
      decYRows (typeOf d) (firstOf d) qm (List.range' y0 len)
        { tnz := tnz, lnz := lnz, nonZeroY := nzY, store := mix K qm d (4 * y0)
          s := (encYRows d (typeOf d) (firstOf d) (List.range' y0 len) tnz lnz).1 ++ rest } =
      some { tnz := (encYRows d (typeOf d) (firstOf d) (List.range' y0 len) tnz lnz).2.1
             lnz := (encYRows d (typeOf d) (firstOf d) (List.range' y0 len) tnz lnz).2.2
             nonZeroY := (List.range' y0 len).foldl
               (fun acc y => ((acc <<< 8) ||| rowCodes K qm d (firstOf d) (4 * y) [0, 1, 2, 3] 0) % 4294967296) nzY
             store := mix K qm d (4 * (y0 + len)), s := rest } := by
  intro len
  induction len with
  | zero => intro y0 tnz lnz nzY _; simp [decYRows, encYRows]
  | succ len ih =>
    intro y0 tnz lnz nzY hb
    rw [List.range'_succ]
    simp only [decYRows, encYRows, List.append_assoc, List.foldl_cons]
    have hl : lnz &&& 1 ≤ 1 := by rw [Nat.and_one_is_mod]; omega
    have hr := yrow K qm d hlev y0
      ((encYRows d (typeOf d) (firstOf d) (List.range' (y0 + 1) len)
          ((encYRow d (typeOf d) (firstOf d) y0 [0, 1, 2, 3] tnz (lnz &&& 1)).2.1 >>> 4)
          ((lnz >>> 1) ||| ((encYRow d (typeOf d) (firstOf d) y0 [0, 1, 2, 3] tnz (lnz &&& 1)).2.2 <<< 7))).1 ++ rest)
      4 0 tnz (lnz &&& 1) 0 (by omega) hl
    have e4 : List.range' 0 4 = [0, 1, 2, 3] := by decide
    rw [e4] at hr
    simp only [Nat.add_zero] at hr
    rw [hr]
    simp only [Option.bind_some]
    have h := ih (y0 + 1) ((encYRow d (typeOf d) (firstOf d) y0 [0, 1, 2, 3] tnz (lnz &&& 1)).2.1 >>> 4)
      ((lnz >>> 1) ||| ((encYRow d (typeOf d) (firstOf d) y0 [0, 1, 2, 3] tnz (lnz &&& 1)).2.2 <<< 7))
      (((nzY <<< 8) ||| rowCodes K qm d (firstOf d) (4 * y0) [0, 1, 2, 3] 0) % 4294967296) (by omega)
    have e1 : 4 * (y0 + 1) = 4 * y0 + 4 := by omega
    have e2 : 4 * (y0 + 1 + len) = 4 * (y0 + (len + 1)) := by omega
    rw [e1, e2] at h
    exact h

/-! ### chroma -/

theorem uvrow (K : Kernels) (qm : QuantMatrix) (d : MBDesc) (hlev : ∀ b, LevelsInRange (d.levels b))
    (base y : Nat) (hbase : 16 ≤ base) (rest : Stream) :
    ∀ (len x0 tnz l nzc : Nat), base + 2 * y + x0 + len ≤ 24 → l ≤ 1 →
      decUVRow qm base y (List.range' x0 len)
        { tnz := tnz, l := l, nzCoeffs := nzc, store := mix K qm d (base + 2 * y + x0)
          s := (encUVRow d base y (List.range' x0 len) tnz l).1 ++ rest } =
      some { tnz := (encUVRow d base y (List.range' x0 len) tnz l).2.1
             l := (encUVRow d base y (List.range' x0 len) tnz l).2.2
             nzCoeffs := rowCodes K qm d 0 (base + 2 * y) (List.range' x0 len) nzc
             store := mix K qm d (base + 2 * y + x0 + len), s := rest } := by
  intro len
  induction len with
  | zero => intro x0 tnz l nzc _ _; simp [decUVRow, encUVRow, rowCodes]
  | succ len ih =>
    intro x0 tnz l nzc hb hl
    have hb1 : 16 ≤ base + 2 * y + x0 := by omega
    have hb2 : base + 2 * y + x0 < 24 := by omega
    have hn16 : ¬ (base + 2 * y + x0 < 16) := by omega
    rw [List.range'_succ]
    simp only [decUVRow, encUVRow, List.append_assoc, rowCodes, List.foldl_cons]
    rw [min2_small l tnz hl, nz_other d _ hb1, mix_at,
      block_roundtrip (d.levels (base + 2 * y + x0)) 2 0 (l + (tnz &&& 1)) qm.uvdc qm.uvac (by omega)
        (hlev _) (S0 K qm d (base + 2 * y + x0))]
    simp only [Option.bind_some, decBlock_chroma K qm d _ hb1 hb2, mix_step]
    have hflag : (if decNz 0 (nzCountFrom 0 (d.levels (base + 2 * y + x0))) > 0 then 1 else 0) =
        (if nzCountFrom 0 (d.levels (base + 2 * y + x0)) > 0 then 1 else 0) := by
      simp only [decNz_gt]
    rw [hflag]
    have h := ih (x0 + 1) ((tnz >>> 1) ||| ((if nzCountFrom 0 (d.levels (base + 2 * y + x0)) > 0 then 1 else 0) <<< 3))
      (if nzCountFrom 0 (d.levels (base + 2 * y + x0)) > 0 then 1 else 0)
      (nzCodeBits nzc (decNz 0 (nzCountFrom 0 (d.levels (base + 2 * y + x0)))) (dcnz K qm d (base + 2 * y + x0)))
      (by omega) (by split <;> omega)
    have e1 : base + 2 * y + (x0 + 1) = base + 2 * y + x0 + 1 := by omega
    have e2 : base + 2 * y + x0 + 1 + len = base + 2 * y + x0 + (len + 1) := by omega
    rw [e1] at h
    rw [e2] at h
    simp only [rowCodes, dcnz] at h ⊢
    exact h

theorem uvrows (K : Kernels) (qm : QuantMatrix) (d : MBDesc) (hlev : ∀ b, LevelsInRange (d.levels b))
    (base : Nat) (hbase : 16 ≤ base) (rest : Stream) :
    ∀ (len y0 tnz lnz nzc : Nat), base + 2 * (y0 + len) ≤ 24 →
      decUVRows qm base (List.range' y0 len)
        { tnz := tnz, lnz := lnz, nzCoeffs := nzc, store := mix K qm d (base + 2 * y0)
          s := (encUVRows d base (List.range' y0 len) tnz lnz).1 ++ rest } =
      some { tnz := (encUVRows d base (List.range' y0 len) tnz lnz).2.1
             lnz := (encUVRows d base (List.range' y0 len) tnz lnz).2.2
             nzCoeffs := (List.range' y0 len).foldl
               (fun acc y => rowCodes K qm d 0 (base + 2 * y) [0, 1] acc) nzc
             store := mix K qm d (base + 2 * (y0 + len)), s := rest } := by
  intro len
  induction len with
  | zero => intro y0 tnz lnz nzc _; simp [decUVRows, encUVRows]
  | succ len ih =>
    intro y0 tnz lnz nzc hb
    rw [List.range'_succ]
    simp only [decUVRows, encUVRows, List.append_assoc, List.foldl_cons]
    have hl : lnz &&& 1 ≤ 1 := by rw [Nat.and_one_is_mod]; omega
    have hr := uvrow K qm d hlev base y0 hbase
      ((encUVRows d base (List.range' (y0 + 1) len)
          ((encUVRow d base y0 [0, 1] tnz (lnz &&& 1)).2.1 >>> 2)
          ((lnz >>> 1) ||| ((encUVRow d base y0 [0, 1] tnz (lnz &&& 1)).2.2 <<< 5))).1 ++ rest)
      2 0 tnz (lnz &&& 1) nzc (by omega) hl
    have e4 : List.range' 0 2 = [0, 1] := by decide
    rw [e4] at hr
    simp only [Nat.add_zero] at hr
    rw [hr]
    simp only [Option.bind_some]
    have h := ih (y0 + 1) ((encUVRow d base y0 [0, 1] tnz (lnz &&& 1)).2.1 >>> 2)
      ((lnz >>> 1) ||| ((encUVRow d base y0 [0, 1] tnz (lnz &&& 1)).2.2 <<< 5))
      (rowCodes K qm d 0 (base + 2 * y0) [0, 1] nzc) (by omega)
    have e1 : base + 2 * (y0 + 1) = base + 2 * y0 + 2 := by omega
    have e2 : base + 2 * (y0 + 1 + len) = base + 2 * (y0 + (len + 1)) := by omega
    rw [e1, e2] at h
    exact h

/-! ### the whole macroblock -/

theorem mask4 (x : Nat) (h : x < 256) : (x >>> 4) &&& 0x0f = x >>> 4 := by
  have : x >>> 4 < 16 := by rw [Nat.shiftRight_eq_div_pow]; omega
  have e : (0x0f : Nat) = 2 ^ 4 - 1 := by decide
  rw [e, Nat.and_two_pow_sub_one_eq_mod]; omega

theorem mask6 (x : Nat) (h : x < 256) : (x >>> 6) &&& 0x0f = x >>> 6 := by
  have : x >>> 6 < 4 := by rw [Nat.shiftRight_eq_div_pow]; omega
  have e : (0x0f : Nat) = 2 ^ 4 - 1 := by decide
  rw [e, Nat.and_two_pow_sub_one_eq_mod]; omega

theorem mix_zero (K : Kernels) (qm : QuantMatrix) (d : MBDesc) : mix K qm d 0 = S0 K qm d := by
  funext b; simp [mix]

theorem mix_24 (K : Kernels) (qm : QuantMatrix) (d : MBDesc) : mix K qm d 24 = decBlock K qm d := by
  funext b
  unfold mix
  by_cases h : b < 24
  · simp [h]
  · have h16 : ¬ (b < 16) := by omega
    simp [h, S0, decBlock, h16]

theorem decNz_zero (n : Nat) : decNz 0 n = n := by unfold decNz; split <;> omega

theorem store_i16 (K : Kernels) (qm : QuantMatrix) (d : MBDesc) (hI : d.isI4 = false) :
    (fun b => if h : b < 16 then
        Coeffs.zero.set 0 ((if nzCountFrom 0 (d.levels 24) > 1 then K.iwht (dequant qm.y2dc qm.y2ac (d.levels 24))
          else fun _ => wrap16 ((dequant qm.y2dc qm.y2ac (d.levels 24) 0 + 3) >>> 3)) ⟨b, h⟩)
      else Coeffs.zero) = mix K qm d 0 := by
  rw [mix_zero]
  funext b
  simp only [S0, hI, Bool.false_eq_true, if_false, decWht]

theorem codes_Y (K : Kernels) (qm : QuantMatrix) (d : MBDesc) :
    List.foldl (fun acc y => (acc <<< 8 ||| rowCodes K qm d (firstOf d) (4 * y) [0, 1, 2, 3] 0) % 4294967296) 0
      [0, 1, 2, 3] = (decCoeffs K qm d).nonZeroY := by
  have hf : ∀ b, b < 16 → (if (!d.isI4) = true ∧ b < 16 then 1 else 0) = firstOf d := by
    intro b hb; unfold firstOf; cases d.isI4 <;> simp [hb]
  simp only [decCoeffs, rowCodes, packRow, packRow.nzCodeBitsRaw, List.foldl_cons, List.foldl_nil, nzCodeBits,
    decCode, dcnz, Nat.mul_zero, Nat.mul_one, Nat.zero_add, Nat.add_zero]
  simp (disch := omega) only [hf]

theorem codes_UV (K : Kernels) (qm : QuantMatrix) (d : MBDesc) (base : Nat) (hb : 16 ≤ base) :
    List.foldl (fun acc y => rowCodes K qm d 0 (base + 2 * y) [0, 1] acc) 0 [0, 1] =
      packRow (decCode K qm d) base := by
  have hf : ∀ b, 16 ≤ b → (if (!d.isI4) = true ∧ b < 16 then 1 else 0) = 0 := by
    intro b hb
    have : ¬ (b < 16) := by omega
    simp [this]
  simp only [rowCodes, packRow, packRow.nzCodeBitsRaw, List.foldl_cons, List.foldl_nil, nzCodeBits,
    decCode, dcnz, Nat.mul_zero, Nat.mul_one, Nat.add_zero]
  simp (disch := omega) only [hf, Nat.add_assoc]

/-- **`parseResiduals` reads back `recordMBTokens`** and stores exactly `decCoeffs`. -/
theorem parseResiduals_roundtrip (K : Kernels) (qm : QuantMatrix) (d : MBDesc)
    (hlev : ∀ b, LevelsInRange (d.levels b)) (n : NzCtx) (hn : n.WF) (rest : Stream) :
    parseResiduals K qm d.isI4 n ((recordMBTokens d n).1 ++ rest) =
      some { coeffs := (decCoeffs K qm d).coeffs, nonZeroY := (decCoeffs K qm d).nonZeroY
             nonZeroUV := (decCoeffs K qm d).nonZeroUV, nz := (recordMBTokens d n).2, rest := rest } := by
  obtain ⟨h1, h2, h3, h4⟩ := hn
  have e4 : [0, 1, 2, 3] = List.range' 0 4 := by decide
  have e2 : [0, 1] = List.range' 0 2 := by decide
  have hy := fun tnz lnz r => yrows K qm d hlev r 4 0 tnz lnz 0 (by omega)
  have hu := fun tnz lnz r => uvrows K qm d hlev 16 (by omega) r 2 0 tnz lnz 0 (by omega)
  have hv := fun tnz lnz r => uvrows K qm d hlev 20 (by omega) r 2 0 tnz lnz 0 (by omega)
  simp only [← e4, ← e2, Nat.mul_zero, Nat.add_zero, Nat.zero_add] at hy hu hv
  have hmix16 : mix K qm d (4 * 4) = mix K qm d (16 + 2 * 0) := rfl
  unfold parseResiduals recordMBTokens
  cases hI : d.isI4
  · -- I16
    have hf : firstOf d = 1 := by simp [firstOf, hI]
    have ht : typeOf d = 0 := by simp [typeOf, hI]
    have cy := codes_Y K qm d
    rw [hf, ht] at hy
    rw [hf] at cy
    simp only [Bool.false_eq_true, if_false, List.append_assoc]
    have hdc : min2 (n.tnzDC + n.lnzDC) = n.tnzDC + n.lnzDC := by
      unfold min2; split <;> omega
    rw [hdc, nz_other d 24 (by omega),
      block_roundtrip (d.levels 24) 1 0 (n.tnzDC + n.lnzDC) qm.y2dc qm.y2ac (by omega) (hlev _) Coeffs.zero]
    simp only [Option.bind_some, decNz_zero, fillFrom_zero_eq_dequant, store_i16 K qm d hI]
    rw [mask4 n.tnz h1, mask4 n.lnz h2, mask6 n.tnz h1, mask6 n.lnz h2]
    rw [hy]
    simp only [Option.bind_some]
    rw [hmix16, hu]
    simp only [Option.bind_some]
    rw [hv]
    simp only [Option.bind_some, cy, codes_UV K qm d 16 (by omega), codes_UV K qm d 20 (by omega)]
    rw [show (20 + 2 * 2 : Nat) = 24 from rfl, mix_24]
    rfl
  · have hf : firstOf d = 0 := by simp [firstOf, hI]
    have ht : typeOf d = 3 := by simp [typeOf, hI]
    have cy := codes_Y K qm d
    rw [hf, ht] at hy
    rw [hf] at cy
    simp only [if_true, List.append_assoc, List.nil_append]
    have hs : (fun _ : Nat => Coeffs.zero) = mix K qm d 0 := by
      rw [mix_zero]; funext b; simp [S0, hI]
    simp only [Option.bind_some, hs]
    rw [mask4 n.tnz h1, mask4 n.lnz h2, mask6 n.tnz h1, mask6 n.lnz h2]
    rw [hy]
    simp only [Option.bind_some]
    rw [hmix16, hu]
    simp only [Option.bind_some]
    rw [hv]
    simp only [Option.bind_some, cy, codes_UV K qm d 16 (by omega), codes_UV K qm d 20 (by omega)]
    rw [show (20 + 2 * 2 : Nat) = 24 from rfl, mix_24]
    rfl

theorem encUVRow_l (d : MBDesc) (base y : Nat) : ∀ (xs : List Nat) (tnz l : Nat), l ≤ 1 →
    (encUVRow d base y xs tnz l).2.2 ≤ 1 := by
  intro xs
  induction xs with
  | nil => intro tnz l h; simpa [encUVRow] using h
  | cons x xs ih =>
    intro tnz l _
    simp only [encUVRow]
    apply ih
    split <;> omega

/-! ### the context stays well-formed -/

theorem or_lt (a b k : Nat) (ha : a < 2 ^ k) (hb : b < 2 ^ k) : a ||| b < 2 ^ k := Nat.or_lt_two_pow ha hb

theorem encYRow_bounds (d : MBDesc) (t first y : Nat) : ∀ (xs : List Nat) (tnz l : Nat), tnz < 256 → l ≤ 1 →
    (encYRow d t first y xs tnz l).2.1 < 256 ∧ (encYRow d t first y xs tnz l).2.2 ≤ 1 := by
  intro xs
  induction xs with
  | nil => intro tnz l h1 h2; simpa [encYRow] using ⟨h1, h2⟩
  | cons x xs ih =>
    intro tnz l h1 _
    simp only [encYRow]
    apply ih
    · apply or_lt _ _ 8
      · rw [Nat.shiftRight_eq_div_pow]; omega
      · rw [Nat.shiftLeft_eq]; split <;> omega
    · split <;> omega

theorem encYRows_bounds (d : MBDesc) (t first : Nat) : ∀ (ys : List Nat) (tnz lnz : Nat), tnz < 16 → lnz < 256 →
    (encYRows d t first ys tnz lnz).2.1 < 16 ∧ (encYRows d t first ys tnz lnz).2.2 < 256 := by
  intro ys
  induction ys with
  | nil => intro tnz lnz h1 h2; simpa [encYRows] using ⟨h1, h2⟩
  | cons y ys ih =>
    intro tnz lnz h1 h2
    simp only [encYRows]
    have hb := encYRow_bounds d t first y [0, 1, 2, 3] tnz (lnz &&& 1) (by omega)
      (by rw [Nat.and_one_is_mod]; omega)
    apply ih
    · rw [Nat.shiftRight_eq_div_pow]; omega
    · apply or_lt _ _ 8
      · rw [Nat.shiftRight_eq_div_pow]; omega
      · rw [Nat.shiftLeft_eq]; have := hb.2; omega

theorem encUVRow_bounds (d : MBDesc) (base y : Nat) : ∀ (xs : List Nat) (tnz l : Nat), tnz < 16 → l ≤ 1 →
    (encUVRow d base y xs tnz l).2.1 < 16 ∧ (encUVRow d base y xs tnz l).2.2 ≤ 1 := by
  intro xs
  induction xs with
  | nil => intro tnz l h1 h2; simpa [encUVRow] using ⟨h1, h2⟩
  | cons x xs ih =>
    intro tnz l h1 _
    simp only [encUVRow]
    apply ih
    · apply or_lt _ _ 4
      · rw [Nat.shiftRight_eq_div_pow]; omega
      · rw [Nat.shiftLeft_eq]; split <;> omega
    · split <;> omega

theorem encUVRows_bounds (d : MBDesc) (base : Nat) : ∀ (ys : List Nat) (tnz lnz : Nat), tnz < 4 → lnz < 64 →
    (encUVRows d base ys tnz lnz).2.1 < 4 ∧ (encUVRows d base ys tnz lnz).2.2 < 64 := by
  intro ys
  induction ys with
  | nil => intro tnz lnz h1 h2; simpa [encUVRows] using ⟨h1, h2⟩
  | cons y ys ih =>
    intro tnz lnz h1 h2
    simp only [encUVRows]
    have hb := encUVRow_bounds d base y [0, 1] tnz (lnz &&& 1) (by omega) (by rw [Nat.and_one_is_mod]; omega)
    apply ih
    · rw [Nat.shiftRight_eq_div_pow]; have := hb.1; omega
    · apply or_lt _ _ 6
      · rw [Nat.shiftRight_eq_div_pow]; omega
      · rw [Nat.shiftLeft_eq]; have := hb.2; omega

/-- the two chroma rows of one plane, started from a masked (4-bit) top word -/
theorem encUVRows2_bounds (d : MBDesc) (base tnz lnz : Nat) (h1 : tnz < 16) (h2 : lnz < 16) :
    (encUVRows d base [0, 1] tnz lnz).2.1 < 4 ∧ (encUVRows d base [0, 1] tnz lnz).2.2 < 64 := by
  rw [encUVRows]
  have hb := encUVRow_bounds d base 0 [0, 1] tnz (lnz &&& 1) h1 (by rw [Nat.and_one_is_mod]; omega)
  apply encUVRows_bounds
  · rw [Nat.shiftRight_eq_div_pow]; have := hb.1; omega
  · apply or_lt _ _ 6
    · rw [Nat.shiftRight_eq_div_pow]; omega
    · rw [Nat.shiftLeft_eq]; have := hb.2; omega

theorem and15_lt (x : Nat) : x &&& 0x0f < 16 := by
  have e : (0x0f : Nat) = 2 ^ 4 - 1 := by decide
  rw [e, Nat.and_two_pow_sub_one_eq_mod]; omega

/-- **the token pass keeps the context well-formed** (words below 2^8, flags 0/1) -/
theorem recordMBTokens_wf (d : MBDesc) (n : NzCtx) (hn : n.WF) : (recordMBTokens d n).2.WF := by
  obtain ⟨_, _, h3, h4⟩ := hn
  have hy := encYRows_bounds d (if d.isI4 then 3 else 0) (if d.isI4 then 0 else 1) [0, 1, 2, 3]
    (n.tnz &&& 0x0f) (n.lnz &&& 0x0f) (and15_lt _) (by have := and15_lt n.lnz; omega)
  have hu := encUVRows2_bounds d 16 ((n.tnz >>> 4) &&& 0x0f) ((n.lnz >>> 4) &&& 0x0f) (and15_lt _) (and15_lt _)
  have hv := encUVRows2_bounds d 20 ((n.tnz >>> 6) &&& 0x0f) ((n.lnz >>> 6) &&& 0x0f) (and15_lt _) (and15_lt _)
  unfold recordMBTokens NzCtx.WF
  refine ⟨?_, ?_, ?_, ?_⟩
  · apply or_lt _ _ 8
    · apply or_lt _ _ 8
      · have := hy.1; omega
      · simp only [Nat.shiftLeft_eq]; have := hu.1; omega
    · simp only [Nat.shiftLeft_eq]; have := hv.1; omega
  · apply or_lt _ _ 8
    · apply or_lt _ _ 8
      · rw [Nat.shiftRight_eq_div_pow]; have := hy.2; omega
      · simp only [Nat.shiftLeft_eq]
        have := Nat.and_le_left (n := (encUVRows d 16 [0, 1] ((n.tnz >>> 4) &&& 0x0f) ((n.lnz >>> 4) &&& 0x0f)).2.2) (m := 0xf0)
        have := hu.2; omega
    · simp only [Nat.shiftLeft_eq]
      have := Nat.and_le_left (n := (encUVRows d 20 [0, 1] ((n.tnz >>> 6) &&& 0x0f) ((n.lnz >>> 6) &&& 0x0f)).2.2) (m := 0xf0)
      have := hv.2; omega
  · show (if d.isI4 then n.tnzDC else if d.nz 24 > 0 then 1 else 0) ≤ 1
    split
    · exact h3
    · split <;> omega
  · show (if d.isI4 then n.lnzDC else if d.nz 24 > 0 then 1 else 0) ≤ 1
    split
    · exact h4
    · split <;> omega

theorem skipNz_wf (isI4 : Bool) (n : NzCtx) (hn : n.WF) : (skipNz isI4 n).WF := by
  obtain ⟨_, _, h3, h4⟩ := hn
  cases isI4 <;> simp [skipNz, NzCtx.WF, h3, h4]

theorem emitTokens_wf (d : MBDesc) (n : NzCtx) (hn : n.WF) : (emitTokens d n).2.WF := by
  unfold emitTokens
  split
  · exact skipNz_wf _ _ hn
  · exact recordMBTokens_wf _ _ hn

end Webp.Proofs.VP8ReconMB
