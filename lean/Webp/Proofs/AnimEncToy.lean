import Webp.Impl.AnimEnc
import Webp.Proofs.AnimDecLoops
/-
  The small concrete codec `Toy.codec` satisfies both codec contracts: the contracts are
  satisfiable (non-vacuity of every theorem that assumes them), and everything the driver
  computes with the toy codec (`animencplay`, `animencexh`) is an instance of the theorems.
-/
namespace Webp.Proofs.AnimEncToy
open Webp.Go Webp.Spec.Anim Webp.Impl.AnimEnc Webp.Proofs.AnimDecLoops

/-! ### lists of fixed-size chunks -/

theorem getD_append_left' (l l' : Bytes) (i : Nat) (h : i < l.length) : (l ++ l').getD i 0 = l.getD i 0 := by
  simp only [List.getD_eq_getElem?_getD, List.getElem?_append_left h]

theorem getD_append_right' (l l' : Bytes) (i : Nat) (h : l.length ≤ i) :
    (l ++ l').getD i 0 = l'.getD (i - l.length) 0 := by
  simp only [List.getD_eq_getElem?_getD, List.getElem?_append_right h]

theorem length_chunks (k : Nat) (f : Nat → Bytes) (hlen : ∀ i, (f i).length = k) (n : Nat) :
    ((List.range n).flatMap f).length = k * n := by
  induction n with
  | zero => simp
  | succ n ih =>
    rw [List.range_succ, List.flatMap_append, List.length_append, ih, List.flatMap_singleton, hlen,
      Nat.mul_succ]

/-- byte `j` of chunk `i` -/
theorem getD_chunks (k : Nat) (f : Nat → Bytes) (hlen : ∀ i, (f i).length = k) (n i j : Nat)
    (hi : i < n) (hj : j < k) :
    ((List.range n).flatMap f).getD (k * i + j) 0 = (f i).getD j 0 := by
  induction n with
  | zero => omega
  | succ n ih =>
    rw [List.range_succ, List.flatMap_append, List.flatMap_singleton]
    have hl := length_chunks k f hlen n
    by_cases hin : i < n
    · have hlt : k * i + j < ((List.range n).flatMap f).length := by
        rw [hl]
        calc k * i + j < k * i + k := by omega
          _ = k * (i + 1) := by rw [Nat.mul_succ]
          _ ≤ k * n := Nat.mul_le_mul_left _ hin
      rw [getD_append_left' _ _ _ hlt]
      exact ih hin
    · have hie : i = n := by omega
      subst hie
      rw [getD_append_right' _ _ _ (by rw [hl]; omega), hl]
      congr 1
      omega

theorem getD_map_range (f : Nat → UInt8) (n i : Nat) (hi : i < n) :
    ((List.range n).map f).getD i 0 = f i := by
  simp [List.getD_eq_getElem?_getD, List.getElem?_map, List.getElem?_range hi]

/-! ### headers -/

theorem u8_ofNat_toNat (n : Nat) : (UInt8.ofNat n).toNat = n % 256 := by
  simp [UInt8.toNat_ofNat']

theorem le16_put (n : Nat) (hn : n < 65536) (pre : UInt8) (rest : Bytes) :
    le16 (pre :: (putLE16 n ++ rest)) 1 = n := by
  unfold le16 putLE16 byteAt
  simp only [List.cons_append, List.nil_append, List.getD_cons_succ, List.getD_cons_zero, u8_ofNat_toNat]
  omega

/-- header of both toy streams: tag byte, width, height, then the payload -/
theorem header (tag : UInt8) (w h : Nat) (hw : w < 65536) (hh : h < 65536) (body : Bytes) :
    le16 (tag :: (putLE16 w ++ putLE16 h ++ body)) 1 = w ∧
    le16 (tag :: (putLE16 w ++ putLE16 h ++ body)) 3 = h ∧
    ∀ k, (tag :: (putLE16 w ++ putLE16 h ++ body)).getD (5 + k) 0 = body.getD k 0 := by
  refine ⟨?_, ?_, ?_⟩
  · rw [List.append_assoc]; exact le16_put w hw tag _
  · unfold le16 putLE16 byteAt
    simp only [List.cons_append, List.nil_append, List.getD_cons_succ, List.getD_cons_zero, u8_ofNat_toNat]
    omega
  · intro k
    unfold putLE16
    have : 5 + k = k + 1 + 1 + 1 + 1 + 1 := by omega
    rw [this]
    simp only [List.cons_append, List.nil_append, List.getD_cons_succ]

theorem bounded_lt (img : SubImage) (hb : Bounded img) : img.w < 65536 ∧ img.h < 65536 := by
  obtain ⟨_, h2, _, h4⟩ := hb; omega

/-! ### the lossless toy codec -/

def lchunk (img : SubImage) (i : Nat) : Bytes :=
  let p := img.at i
  if p.a = 0 then [0, 0, 0, 0] else Toy.pxBytes p

theorem lchunk_len (img : SubImage) (i : Nat) : (lchunk img i).length = 4 := by
  unfold lchunk Toy.pxBytes; simp only []; split <;> rfl

theorem toy_lossless_px (img : SubImage) (hb : Bounded img) :
    (Toy.decLossless (Toy.encLossless img)).w = img.w ∧
    (Toy.decLossless (Toy.encLossless img)).h = img.h ∧
    ∀ i, i < img.w * img.h →
      (Toy.decLossless (Toy.encLossless img)).at i =
        if (img.at i).a = 0 then Px.zero else img.at i := by
  obtain ⟨hw, hh⟩ := bounded_lt img hb
  have henc : Toy.encLossless img =
      0x2f :: (putLE16 img.w ++ putLE16 img.h ++ (List.range (img.w * img.h)).flatMap (lchunk img)) := rfl
  obtain ⟨e1, e2, e3⟩ := header 0x2f img.w img.h hw hh ((List.range (img.w * img.h)).flatMap (lchunk img))
  rw [← henc] at e1 e2 e3
  have hdw : (Toy.decLossless (Toy.encLossless img)).w = img.w := by
    unfold Toy.decLossless; simp only []; exact e1
  have hdh : (Toy.decLossless (Toy.encLossless img)).h = img.h := by
    unfold Toy.decLossless; simp only []; exact e2
  refine ⟨hdw, hdh, fun i hi => ?_⟩
  unfold SubImage.at Toy.decLossless
  simp only []
  have hi' : i < le16 (Toy.encLossless img) 1 * le16 (Toy.encLossless img) 3 := by rw [e1, e2]; exact hi
  rw [getD_ofFn _ i hi']
  simp only []
  have g : ∀ j, j < 4 → (Toy.encLossless img).getD (5 + 4 * i + j) 0 = (lchunk img i).getD j 0 := by
    intro j hj
    rw [Nat.add_assoc, e3, getD_chunks 4 (lchunk img) (lchunk_len img) _ i j hi hj]
  have g0 := g 0 (by omega); have g1 := g 1 (by omega); have g2 := g 2 (by omega); have g3 := g 3 (by omega)
  rw [Nat.add_zero] at g0
  rw [g0, g1, g2, g3]
  unfold lchunk Toy.pxBytes
  simp only []
  by_cases h0 : (img.at i).a = 0
  · rw [if_pos h0, if_pos (show (img.px.getD i Px.zero).a = 0 from h0)]; rfl
  · rw [if_neg h0, if_neg (show ¬ (img.px.getD i Px.zero).a = 0 from h0)]; rfl

/-! ### the lossy toy codec -/

def ychunk (img : SubImage) (i : Nat) : Bytes :=
  let p := img.at i
  [p.r &&& 0xf0, p.g &&& 0xf0, p.b &&& 0xf0]

theorem ychunk_len (img : SubImage) (i : Nat) : (ychunk img i).length = 3 := rfl

theorem toy_lossy_px (img : SubImage) (hb : Bounded img) :
    (Toy.decLossy (Toy.encLossy img).1 (Toy.encLossy img).2).w = img.w ∧
    (Toy.decLossy (Toy.encLossy img).1 (Toy.encLossy img).2).h = img.h ∧
    ∀ i, i < img.w * img.h →
      ((Toy.decLossy (Toy.encLossy img).1 (Toy.encLossy img).2).at i).a = (img.at i).a := by
  obtain ⟨hw, hh⟩ := bounded_lt img hb
  have henc : (Toy.encLossy img).1 =
      0x00 :: (putLE16 img.w ++ putLE16 img.h ++ (List.range (img.w * img.h)).flatMap (ychunk img)) := rfl
  obtain ⟨e1, e2, _⟩ := header 0x00 img.w img.h hw hh ((List.range (img.w * img.h)).flatMap (ychunk img))
  rw [← henc] at e1 e2
  have hdw : (Toy.decLossy (Toy.encLossy img).1 (Toy.encLossy img).2).w = img.w := by
    unfold Toy.decLossy; simp only []; exact e1
  have hdh : (Toy.decLossy (Toy.encLossy img).1 (Toy.encLossy img).2).h = img.h := by
    unfold Toy.decLossy; simp only []; exact e2
  refine ⟨hdw, hdh, fun i hi => ?_⟩
  unfold SubImage.at Toy.decLossy
  simp only []
  have hi' : i < le16 (Toy.encLossy img).1 1 * le16 (Toy.encLossy img).1 3 := by rw [e1, e2]; exact hi
  rw [getD_ofFn _ i hi']
  simp only []
  have halpha : (Toy.encLossy img).2 =
      if (List.range (img.w * img.h)).all (fun i => (img.at i).a = 255) then []
      else (List.range (img.w * img.h)).map fun i => (img.at i).a := rfl
  rw [halpha]
  by_cases hall : (List.range (img.w * img.h)).all (fun i => decide ((img.at i).a = 255)) = true
  · rw [if_pos hall]
    simp only [List.length_nil, if_true]
    rw [List.all_eq_true] at hall
    have := hall i (List.mem_range.mpr hi)
    simp only [decide_eq_true_eq] at this
    exact this.symm
  · rw [if_neg hall]
    have hlen : ((List.range (img.w * img.h)).map fun i => (img.at i).a).length ≠ 0 := by
      rw [List.length_map, List.length_range]; omega
    rw [if_neg hlen, getD_map_range _ _ i hi]
    rfl

/-! ### the contracts -/

theorem toy_wellFormed : CodecWellFormed Toy.codec where
  vp8l := fun img _ => ⟨_, rfl⟩
  vp8 := fun img _ => ⟨0x00, _, rfl, by decide⟩
  alphaLen := by
    intro img hb
    obtain ⟨_, h2, _, h4⟩ := hb
    show (Toy.encLossy img).2.length < 4294967296
    have halpha : (Toy.encLossy img).2 =
        if (List.range (img.w * img.h)).all (fun i => (img.at i).a = 255) then []
        else (List.range (img.w * img.h)).map fun i => (img.at i).a := rfl
    rw [halpha]
    split
    · decide
    · rw [List.length_map, List.length_range]
      calc img.w * img.h ≤ 16383 * 16383 := Nat.mul_le_mul h2 h4
        _ < 4294967296 := by decide

/-- **the toy codec is lossless** (equal, or both pixels fully transparent) -/
theorem toy_lossless : CodecLossless Toy.codec where
  vp8l := fun img _ => ⟨_, rfl⟩
  roundtrip := by
    intro img hb
    obtain ⟨h1, h2, h3⟩ := toy_lossless_px img hb
    refine ⟨h1, h2, fun i hi => ?_⟩
    show pxEqv ((Toy.decLossless (Toy.encLossless img)).at i) (img.at i) = true
    rw [h3 i hi]
    unfold pxEqv
    split
    · rename_i h0; simp [h0, Px.zero]
    · simp

/-- **the toy codec keeps alpha exactly**, with both of its codecs -/
theorem toy_alphaExact : CodecAlphaExact Toy.codec where
  wf := toy_wellFormed
  lossless := by
    intro img hb
    obtain ⟨h1, h2, h3⟩ := toy_lossless_px img hb
    refine ⟨h1, h2, fun i hi => ?_⟩
    show pxAlphaEq ((Toy.decLossless (Toy.encLossless img)).at i) (img.at i) = true
    rw [h3 i hi]
    unfold pxAlphaEq
    split
    · rename_i h0; simp [h0, Px.zero]
    · simp
  lossy := by
    intro img hb
    obtain ⟨h1, h2, h3⟩ := toy_lossy_px img hb
    refine ⟨h1, h2, fun i hi => ?_⟩
    show pxAlphaEq ((Toy.decLossy (Toy.encLossy img).1 (Toy.encLossy img).2).at i) (img.at i) = true
    unfold pxAlphaEq
    rw [h3 i hi]
    simp

end Webp.Proofs.AnimEncToy
