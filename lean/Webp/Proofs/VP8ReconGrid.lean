import Webp.Impl.VP8Recon
/-
  C06 helper: facts about the work-buffer operations of `Webp.Impl.VP8Recon` (block reads and
  writes at disjoint places).
-/
namespace Webp.Proofs.VP8ReconGrid
open Webp.Impl.VP8Recon

theorem writeBlk4_read_self (G : Grid) (bx by' : Nat) : writeBlk4 G bx by' (readBlk4 G bx by') = G := by
  funext R C
  unfold writeBlk4 readBlk4
  split
  · rename_i h
    obtain ⟨h1, h2, h3, h4⟩ := h
    have e1 : 4 * by' + 1 + ((R - (4 * by' + 1)) * 4 + (C - (4 * bx + 1))) / 4 = R := by omega
    have e2 : 4 * bx + 1 + ((R - (4 * by' + 1)) * 4 + (C - (4 * bx + 1))) % 4 = C := by omega
    simp only [e1, e2]
  · rfl

/-- an in-place operation that leaves the block unchanged leaves the buffer unchanged -/
theorem xfAt_id (G : Grid) (bx by' : Nat) (f : Blk4 → Blk4) (h : f (readBlk4 G bx by') = readBlk4 G bx by') :
    xfAt G bx by' f = G := by
  unfold xfAt; rw [h]; exact writeBlk4_read_self G bx by'

theorem readBlk4_writeBlk4_same (G : Grid) (bx by' : Nat) (b : Blk4) : readBlk4 (writeBlk4 G bx by' b) bx by' = b := by
  funext i
  unfold readBlk4 writeBlk4
  have h : 4 * by' + 1 ≤ 4 * by' + 1 + i.val / 4 ∧ 4 * by' + 1 + i.val / 4 < 4 * by' + 5 ∧
      4 * bx + 1 ≤ 4 * bx + 1 + i.val % 4 ∧ 4 * bx + 1 + i.val % 4 < 4 * bx + 5 := by omega
  simp only [h, and_self, dite_true]
  congr 1
  apply Fin.ext
  simp only
  omega

theorem readBlk4_writeBlk4_other (G : Grid) (bx by' cx cy : Nat) (b : Blk4) (hne : bx ≠ cx ∨ by' ≠ cy) :
    readBlk4 (writeBlk4 G bx by' b) cx cy = readBlk4 G cx cy := by
  funext i
  unfold readBlk4 writeBlk4
  have h : ¬ (4 * by' + 1 ≤ 4 * cy + 1 + i.val / 4 ∧ 4 * cy + 1 + i.val / 4 < 4 * by' + 5 ∧
      4 * bx + 1 ≤ 4 * cx + 1 + i.val % 4 ∧ 4 * cx + 1 + i.val % 4 < 4 * bx + 5) := by omega
  simp only [h, dite_false]

/-- composing in-place operations on one block -/
theorem xfAt_writeBlk4 (G : Grid) (bx by' : Nat) (b : Blk4) (f : Blk4 → Blk4) :
    xfAt (writeBlk4 G bx by' b) bx by' f = writeBlk4 G bx by' (f b) := by
  unfold xfAt
  rw [readBlk4_writeBlk4_same]
  funext R C
  unfold writeBlk4
  split <;> rfl

theorem read8_write8 (G : Grid) (b : Blk8) : read8 (write8 G b) = b := by
  funext i
  unfold read8 write8
  have h : 1 ≤ i.val / 8 + 1 ∧ i.val / 8 + 1 ≤ 8 ∧ 1 ≤ i.val % 8 + 1 ∧ i.val % 8 + 1 ≤ 8 := by omega
  simp only [h, and_self, dite_true]
  congr 1
  apply Fin.ext
  simp only
  omega

theorem read16_write16 (G : Grid) (b : Blk16) : read16 (write16 G b) = b := by
  funext i
  unfold read16 write16
  have h : 1 ≤ i.val / 16 + 1 ∧ i.val / 16 + 1 ≤ 16 ∧ 1 ≤ i.val % 16 + 1 ∧ i.val % 16 + 1 ≤ 16 := by omega
  simp only [h, and_self, dite_true]
  congr 1
  apply Fin.ext
  simp only
  omega

theorem readBlk4_eq_sub8 (G : Grid) (k : Fin 4) : readBlk4 G (k.val % 2) (k.val / 2) = sub8 (read8 G) k := by
  funext i
  unfold readBlk4 sub8 read8
  simp only
  congr 1 <;> omega

theorem app_congr (g : Fin 4 → Blk4) (k k' : Fin 4) (i i' : Fin 16) (hk : k = k') (hi : i = i') :
    g k i = g k' i' := by subst hk; subst hi; rfl

/-- four in-place block operations on an 8×8 plane are one 8×8 write of the joined results -/
theorem uv_blocks_eq_write8 (G : Grid) (f : Fin 4 → Blk4 → Blk4) :
    (List.finRange 4).foldl (fun G k => xfAt G (k.val % 2) (k.val / 2) (f k)) G =
      write8 G (join8 (fun k => f k (sub8 (read8 G) k))) := by
  have e : List.finRange 4 = [0, 1, 2, 3] := by decide
  rw [e]
  simp only [List.foldl_cons, List.foldl_nil]
  have r0 : readBlk4 G 0 0 = sub8 (read8 G) 0 := readBlk4_eq_sub8 G 0
  have r1 : readBlk4 G 1 0 = sub8 (read8 G) 1 := readBlk4_eq_sub8 G 1
  have r2 : readBlk4 G 0 1 = sub8 (read8 G) 2 := readBlk4_eq_sub8 G 2
  have r3 : readBlk4 G 1 1 = sub8 (read8 G) 3 := readBlk4_eq_sub8 G 3
  simp only [xfAt, Fin.isValue, Fin.val_zero, Fin.val_one,
    show ((2 : Fin 4).val) = 2 from rfl, show ((3 : Fin 4).val) = 3 from rfl, show (1 : Nat) / 2 = 0 from rfl,
    show (2 : Nat) % 2 = 0 from rfl, show (2 : Nat) / 2 = 1 from rfl, show (3 : Nat) % 2 = 1 from rfl]
  rw [readBlk4_writeBlk4_other _ 0 0 1 0 _ (by omega), r0]
  rw [readBlk4_writeBlk4_other _ 1 0 0 1 _ (by omega), readBlk4_writeBlk4_other _ 0 0 0 1 _ (by omega)]
  rw [readBlk4_writeBlk4_other _ 0 1 1 1 _ (by omega), readBlk4_writeBlk4_other _ 1 0 1 1 _ (by omega),
    readBlk4_writeBlk4_other _ 0 0 1 1 _ (by omega), r1, r2, r3]
  funext R C
  unfold writeBlk4 write8 join8
  by_cases hR : 1 ≤ R ∧ R ≤ 8 ∧ 1 ≤ C ∧ C ≤ 8
  · obtain ⟨a1, a2, a3, a4⟩ := hR
    by_cases hr : R ≤ 4 <;> by_cases hc : C ≤ 4
    ·
      have c3 : ¬ (4 * 1 + 1 ≤ R ∧ R < 4 * 1 + 5 ∧ 4 * 1 + 1 ≤ C ∧ C < 4 * 1 + 5) := by omega
      have c2 : ¬ (4 * 1 + 1 ≤ R ∧ R < 4 * 1 + 5 ∧ 4 * 0 + 1 ≤ C ∧ C < 4 * 0 + 5) := by omega
      have c1 : ¬ (4 * 0 + 1 ≤ R ∧ R < 4 * 0 + 5 ∧ 4 * 1 + 1 ≤ C ∧ C < 4 * 1 + 5) := by omega
      have c0 : 4 * 0 + 1 ≤ R ∧ R < 4 * 0 + 5 ∧ 4 * 0 + 1 ≤ C ∧ C < 4 * 0 + 5 := by omega
      rw [dif_neg c3, dif_neg c2, dif_neg c1, dif_pos c0, dif_pos (show 1 ≤ R ∧ R ≤ 8 ∧ 1 ≤ C ∧ C ≤ 8 from ⟨a1, a2, a3, a4⟩)]
      exact app_congr (fun k => f k (sub8 (read8 G) k)) _ _ _ _ (Fin.ext (by simp; omega)) (Fin.ext (by simp; omega))
    ·
      have c3 : ¬ (4 * 1 + 1 ≤ R ∧ R < 4 * 1 + 5 ∧ 4 * 1 + 1 ≤ C ∧ C < 4 * 1 + 5) := by omega
      have c2 : ¬ (4 * 1 + 1 ≤ R ∧ R < 4 * 1 + 5 ∧ 4 * 0 + 1 ≤ C ∧ C < 4 * 0 + 5) := by omega
      have c1 : 4 * 0 + 1 ≤ R ∧ R < 4 * 0 + 5 ∧ 4 * 1 + 1 ≤ C ∧ C < 4 * 1 + 5 := by omega
      rw [dif_neg c3, dif_neg c2, dif_pos c1, dif_pos (show 1 ≤ R ∧ R ≤ 8 ∧ 1 ≤ C ∧ C ≤ 8 from ⟨a1, a2, a3, a4⟩)]
      exact app_congr (fun k => f k (sub8 (read8 G) k)) _ _ _ _ (Fin.ext (by simp; omega)) (Fin.ext (by simp; omega))
    ·
      have c3 : ¬ (4 * 1 + 1 ≤ R ∧ R < 4 * 1 + 5 ∧ 4 * 1 + 1 ≤ C ∧ C < 4 * 1 + 5) := by omega
      have c2 : 4 * 1 + 1 ≤ R ∧ R < 4 * 1 + 5 ∧ 4 * 0 + 1 ≤ C ∧ C < 4 * 0 + 5 := by omega
      rw [dif_neg c3, dif_pos c2, dif_pos (show 1 ≤ R ∧ R ≤ 8 ∧ 1 ≤ C ∧ C ≤ 8 from ⟨a1, a2, a3, a4⟩)]
      exact app_congr (fun k => f k (sub8 (read8 G) k)) _ _ _ _ (Fin.ext (by simp; omega)) (Fin.ext (by simp; omega))
    ·
      have c3 : 4 * 1 + 1 ≤ R ∧ R < 4 * 1 + 5 ∧ 4 * 1 + 1 ≤ C ∧ C < 4 * 1 + 5 := by omega
      rw [dif_pos c3, dif_pos (show 1 ≤ R ∧ R ≤ 8 ∧ 1 ≤ C ∧ C ≤ 8 from ⟨a1, a2, a3, a4⟩)]
      exact app_congr (fun k => f k (sub8 (read8 G) k)) _ _ _ _ (Fin.ext (by simp; omega)) (Fin.ext (by simp; omega))
  · have c3 : ¬ (4 * 1 + 1 ≤ R ∧ R < 4 * 1 + 5 ∧ 4 * 1 + 1 ≤ C ∧ C < 4 * 1 + 5) := by omega
    have c2 : ¬ (4 * 1 + 1 ≤ R ∧ R < 4 * 1 + 5 ∧ 4 * 0 + 1 ≤ C ∧ C < 4 * 0 + 5) := by omega
    have c1 : ¬ (4 * 0 + 1 ≤ R ∧ R < 4 * 0 + 5 ∧ 4 * 1 + 1 ≤ C ∧ C < 4 * 1 + 5) := by omega
    have c0 : ¬ (4 * 0 + 1 ≤ R ∧ R < 4 * 0 + 5 ∧ 4 * 0 + 1 ≤ C ∧ C < 4 * 0 + 5) := by omega
    rw [dif_neg c3, dif_neg c2, dif_neg c1, dif_neg c0, dif_neg hR]

end Webp.Proofs.VP8ReconGrid
