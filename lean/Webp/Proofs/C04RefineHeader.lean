import Webp.Proofs.C04RefineTokens
import Webp.Impl.VP8HeaderBytes
import Webp.Spec.VP8.Header
/-
  C04 refinement, header transport on the decoder side: the Go `parseHeaders` chain as the decision
  tree `Webp.Impl.VP8HeaderBytes.T.parseHeader` vs the RFC frame header parse
  `Webp.Spec.VP8.parseFrameHdr` (§9.2–§9.11, §19.2), on the reference decoder (`runD`); with
  `tree_transfer` this is a statement about the Go reader on any first partition.
-/
namespace Webp.Proofs.C04RefineHeader
open Webp.Go (Bytes)
open Webp.Impl.BoolCoder
open Webp.Spec.VP8
open Webp.Proofs.BoolSpecDec (specBitsSt)
open Webp.Proofs.BoolReader (wrap32_of_lt or_eq_add)
open Webp.Proofs.C04RefineBool Webp.Proofs.C04RefineOps Webp.Proofs.C04RefineSyntax Webp.Proofs.C04RefineTokens
open Webp.Impl.VP8SyntaxBytes (P runR rd)
open Webp.Impl.VP8Recon (Slot)
open Webp.Impl.VP8HeaderBytes (SegHdr DecHeader updDef)

/-! ## literals on the reference decoder -/

theorem runD_flag (prob : Slot → UInt8) (hfix : FixedOK prob) (d : BoolDec) :
    runD prob Webp.Impl.VP8HeaderBytes.T.flag d = some (d.readBool 128) := by
  show some ((d.readBool (prob (.fixed 128)).toNat).1, (d.readBool (prob (.fixed 128)).toNat).2) = _
  rw [hfix 128 (by omega)]

theorem runD_flag_bind {β : Type} (prob : Slot → UInt8) (hfix : FixedOK prob) (f : Bool → P β) (d : BoolDec) :
    runD prob (Webp.Impl.VP8HeaderBytes.T.flag >>= f) d = runD prob (f (d.readBool 128).1) (d.readBool 128).2 := by
  show runD prob (f (d.readBool (prob (.fixed 128)).toNat).1) (d.readBool (prob (.fixed 128)).toNat).2 = _
  rw [hfix 128 (by omega)]

theorem specBitsSt_length (d : BoolDec) (ps : List Nat) : (specBitsSt d ps).1.length = ps.length := by
  induction ps generalizing d with
  | nil => rfl
  | cons p ps ih => show (_ :: _).length = _; rw [List.length_cons, ih, List.length_cons]

theorem runD_getValueLoop (prob : Slot → UInt8) (hfix : FixedOK prob) (i : Nat) (hi : i ≤ 32) (v : Nat) (d : BoolDec) :
    runD prob (Webp.Impl.VP8HeaderBytes.T.getValueLoop v i) d =
      some (v ||| ofBits (specBitsSt d (List.replicate i 128)).1, (specBitsSt d (List.replicate i 128)).2) := by
  induction i generalizing v d with
  | zero => show some (v, d) = some (v ||| 0, d); simp
  | succ i ih =>
    show runD prob (Webp.Impl.VP8HeaderBytes.T.flag >>= fun b =>
      Webp.Impl.VP8HeaderBytes.T.getValueLoop (v ||| wrap32 ((if b then 1 else 0) <<< i)) i) d = _
    rw [runD_flag_bind prob hfix, ih (by omega)]
    have hlen : (specBitsSt (d.readBool 128).2 (List.replicate i 128)).1.length = i := by
      rw [specBitsSt_length]; simp
    have hlt := ofBits_lt (specBitsSt (d.readBool 128).2 (List.replicate i 128)).1
    rw [hlen] at hlt
    have e : specBitsSt d (List.replicate (i + 1) 128) =
        ((d.readBool 128).1 :: (specBitsSt (d.readBool 128).2 (List.replicate i 128)).1,
         (specBitsSt (d.readBool 128).2 (List.replicate i 128)).2) := rfl
    rw [e]
    congr 2
    rw [Nat.or_assoc]
    congr 1
    rw [ofBits, hlen]
    have h2i : 2 ^ i < 2 ^ 32 := Nat.pow_lt_pow_right (by norm_num) (by omega)
    have hw : wrap32 ((if (d.readBool 128).1 then 1 else 0) <<< i) = (if (d.readBool 128).1 then 1 else 0) * 2 ^ i := by
      rw [Nat.shiftLeft_eq]
      apply wrap32_of_lt
      split_ifs <;> omega
    rw [hw, Nat.or_comm, or_eq_add hlt]

/-- `GetValue(n)` on the reference decoder is `read_literal(n)` -/
theorem runD_getValue (prob : Slot → UInt8) (hfix : FixedOK prob) (n : Nat) (hn : n ≤ 32) (d : BoolDec) :
    runD prob (Webp.Impl.VP8HeaderBytes.T.getValue n) d = some (BoolDec.readLiteral n d) := by
  unfold Webp.Impl.VP8HeaderBytes.T.getValue
  rw [runD_getValueLoop prob hfix n hn, readLiteral_bits]
  simp

theorem readLiteral_lt (n : Nat) (d : BoolDec) : (BoolDec.readLiteral n d).1 < 2 ^ n := by
  rw [readLiteral_bits]
  have := ofBits_lt (specBitsSt d (List.replicate n 128)).1
  rw [specBitsSt_length, List.length_replicate] at this
  simpa using this

theorem runD_getValue_bind {β : Type} (prob : Slot → UInt8) (hfix : FixedOK prob) (n : Nat) (hn : n ≤ 32)
    (f : Nat → P β) (d : BoolDec) :
    runD prob (Webp.Impl.VP8HeaderBytes.T.getValue n >>= f) d =
      runD prob (f (BoolDec.readLiteral n d).1) (BoolDec.readLiteral n d).2 := by
  rw [runD_bind, runD_getValue prob hfix n hn]; rfl

/-- `GetSignedValue(n)` on the reference decoder is magnitude-then-sign -/
theorem runD_getSignedValue (prob : Slot → UInt8) (hfix : FixedOK prob) (n : Nat) (hn : n ≤ 31) (d : BoolDec) :
    runD prob (Webp.Impl.VP8HeaderBytes.T.getSignedValue n) d = some (BoolDec.readSigned n d) := by
  unfold Webp.Impl.VP8HeaderBytes.T.getSignedValue
  rw [runD_getValue_bind prob hfix n (by omega), runD_flag_bind prob hfix]
  have hlt : (BoolDec.readLiteral n d).1 < 2 ^ 31 :=
    lt_of_lt_of_le (readLiteral_lt n d) (Nat.pow_le_pow_right (by norm_num) hn)
  have es : BoolDec.readSigned n d =
      (if ((BoolDec.readLiteral n d).2.readBool 128).1 then - (Int.ofNat (BoolDec.readLiteral n d).1)
       else Int.ofNat (BoolDec.readLiteral n d).1, ((BoolDec.readLiteral n d).2.readBool 128).2) := rfl
  rw [es]
  show some (_, _) = some (_, _)
  congr 2
  have hnge : ¬ (BoolDec.readLiteral n d).1 ≥ 2 ^ 31 := by omega
  simp only [hnge, if_false]
  have hne : ¬ (((BoolDec.readLiteral n d).1 : Int) = -2 ^ 31) := by
    have : (0 : Int) ≤ ((BoolDec.readLiteral n d).1 : Int) := Int.natCast_nonneg _
    have h31 : (-2 ^ 31 : Int) < 0 := by norm_num
    omega
  rw [if_neg hne]
  rfl

/-- an optional signed field: flag, then magnitude and sign; `dflt` when absent -/
def optS (n : Nat) (dflt : Int) (d : BoolDec) : Int × BoolDec :=
  if (d.readBool 128).1 then BoolDec.readSigned n (d.readBool 128).2 else (dflt, (d.readBool 128).2)

/-! ## `for i in [0:n]` loops of the specification as folds -/

theorem forIn_list_id {σ : Type} (l : List Nat) (init : σ) (body : Nat → σ → Id (ForInStep σ)) (g : Nat → σ → σ)
    (hb : ∀ i s, body i s = pure (ForInStep.yield (g i s))) :
    forIn (m := Id) l init body = pure (l.foldl (fun s i => g i s) init) := by
  induction l generalizing init with
  | nil => rfl
  | cons a l ih =>
    rw [List.forIn_cons, hb]
    exact ih _

theorem forIn_range_id {σ : Type} (n : Nat) (init : σ) (body : Nat → σ → Id (ForInStep σ)) (g : Nat → σ → σ)
    (hb : ∀ i s, body i s = pure (ForInStep.yield (g i s))) :
    forIn (m := Id) [:n] init body = pure ((List.range' 0 n).foldl (fun s i => g i s) init) := by
  rw [Std.Legacy.Range.forIn_eq_forIn_range', forIn_list_id _ _ _ g hb]
  simp [Std.Legacy.Range.size]

theorem readOptSigned4_eq (n : Nat) (dflt : Nat → Int) (d : BoolDec) :
    readOptSigned4 n dflt d =
      (#[(optS n (dflt 0) d).1, (optS n (dflt 1) (optS n (dflt 0) d).2).1,
         (optS n (dflt 2) (optS n (dflt 1) (optS n (dflt 0) d).2).2).1,
         (optS n (dflt 3) (optS n (dflt 2) (optS n (dflt 1) (optS n (dflt 0) d).2).2).2).1],
       (optS n (dflt 3) (optS n (dflt 2) (optS n (dflt 1) (optS n (dflt 0) d).2).2).2).2) := by
  unfold readOptSigned4
  simp only [Id.run]
  rw [forIn_range_id 4 _ _ (fun i s => ((optS n (dflt i) s.1).2, s.2.push (optS n (dflt i) s.1).1))
    (by intro i s; unfold optS BoolDec.readFlag; split_ifs <;> rfl)]
  rfl

/-! ## the small fields -/

theorem runD_bind_of {α β : Type} (prob : Slot → UInt8) {x : P α} {d : BoolDec} {r : α × BoolDec}
    (h : runD prob x d = some r) (f : α → P β) : runD prob (x >>= f) d = runD prob (f r.1) r.2 := by
  rw [runD_bind, h]; rfl

theorem readSigned_bound (n : Nat) (d : BoolDec) :
    - (2 ^ n : Int) < (BoolDec.readSigned n d).1 ∧ (BoolDec.readSigned n d).1 < 2 ^ n := by
  have es : BoolDec.readSigned n d =
      (if ((BoolDec.readLiteral n d).2.readBool 128).1 then - (Int.ofNat (BoolDec.readLiteral n d).1)
       else Int.ofNat (BoolDec.readLiteral n d).1, ((BoolDec.readLiteral n d).2.readBool 128).2) := rfl
  rw [es]
  have h := readLiteral_lt n d
  have h' : ((BoolDec.readLiteral n d).1 : Int) < 2 ^ n := by exact_mod_cast h
  have h0 : (0 : Int) ≤ ((BoolDec.readLiteral n d).1 : Int) := Int.natCast_nonneg _
  simp only [Int.ofNat_eq_natCast]
  split_ifs <;> constructor <;> omega

/-- `if GetBit(0x80) { x = int8(GetSignedValue(n)) } else { x = 0 }`, `n ≤ 7` -/
theorem runD_optSigned0 (prob : Slot → UInt8) (hfix : FixedOK prob) (n : Nat) (hn : n ≤ 7) (d : BoolDec) :
    runD prob (Webp.Impl.VP8HeaderBytes.T.optSigned0 n) d = some (optS n 0 d) := by
  unfold Webp.Impl.VP8HeaderBytes.T.optSigned0 optS
  rw [runD_flag_bind prob hfix]
  by_cases hb : (d.readBool 128).1 = true
  · simp only [hb, if_true]
    rw [runD_bind_of prob (runD_getSignedValue prob hfix n (by omega) _)]
    show some (_, _) = some _
    have hb2 := readSigned_bound n (d.readBool 128).2
    have h7 : (2 : Int) ^ n ≤ 2 ^ 7 := by exact_mod_cast Nat.pow_le_pow_right (by norm_num : 0 < 2) hn
    have e7 : (2 : Int) ^ 7 = 128 := by norm_num
    have : Webp.Impl.VP8Recon.wrap8 (BoolDec.readSigned n (d.readBool 128).2).1 = (BoolDec.readSigned n (d.readBool 128).2).1 := by
      unfold Webp.Impl.VP8Recon.wrap8; omega
    rw [this]
  · simp only [hb, if_false, Bool.false_eq_true]
    rfl

theorem runD_optSignedKeep (prob : Slot → UInt8) (hfix : FixedOK prob) (n : Nat) (hn : n ≤ 31) (old : Int) (d : BoolDec) :
    runD prob (Webp.Impl.VP8HeaderBytes.T.optSignedKeep n old) d = some (optS n old d) := by
  unfold Webp.Impl.VP8HeaderBytes.T.optSignedKeep optS
  rw [runD_flag_bind prob hfix]
  by_cases hb : (d.readBool 128).1 = true
  · simp only [hb, if_true]; exact runD_getSignedValue prob hfix n hn _
  · simp only [hb, if_false, Bool.false_eq_true]; rfl

theorem readOptSigned_eq (n : Nat) (d : BoolDec) : BoolDec.readOptSigned n d = optS n 0 d := by
  unfold BoolDec.readOptSigned optS
  by_cases hb : (d.readBool 128).1 = true <;> simp [hb]

theorem runD_readOptionalSigned (prob : Slot → UInt8) (hfix : FixedOK prob) (n : Nat) (hn : n ≤ 31) (d : BoolDec) :
    runD prob (Webp.Impl.VP8HeaderBytes.T.readOptionalSigned n) d = some (BoolDec.readOptSigned n d) := by
  rw [readOptSigned_eq]
  exact runD_optSignedKeep prob hfix n hn 0 d

theorem runD_byte8 (prob : Slot → UInt8) (hfix : FixedOK prob) (d : BoolDec) :
    runD prob Webp.Impl.VP8HeaderBytes.T.byte8 d = some (UInt8.ofNat (BoolDec.readLiteral 8 d).1, (BoolDec.readLiteral 8 d).2) := by
  unfold Webp.Impl.VP8HeaderBytes.T.byte8
  rw [runD_getValue_bind prob hfix 8 (by omega)]; rfl

/-- a segment-map probability: flag, then 8 bits; 255 when absent -/
def segProbS (d : BoolDec) : Nat × BoolDec :=
  if (d.readBool 128).1 then BoolDec.readLiteral 8 (d.readBool 128).2 else (255, (d.readBool 128).2)

theorem runD_segProb (prob : Slot → UInt8) (hfix : FixedOK prob) (d : BoolDec) :
    runD prob Webp.Impl.VP8HeaderBytes.T.segProb d = some (UInt8.ofNat (segProbS d).1, (segProbS d).2) := by
  unfold Webp.Impl.VP8HeaderBytes.T.segProb segProbS
  rw [runD_flag_bind prob hfix]
  by_cases hb : (d.readBool 128).1 = true
  · simp only [hb, if_true]; exact runD_byte8 prob hfix _
  · simp only [hb, if_false, Bool.false_eq_true]; rfl

theorem segProbS_lt (d : BoolDec) : (segProbS d).1 < 256 := by
  unfold segProbS
  split_ifs
  · have := readLiteral_lt 8 (d.readBool 128).2; norm_num at this; exact this
  · show 255 < 256; omega

/-! ## monad laws of decision trees, bind forms of the field lemmas -/

theorem bind_assoc' {α β γ : Type} (x : P α) (f : α → P β) (g : β → P γ) :
    (x >>= f) >>= g = x >>= fun a => f a >>= g := by
  induction x with
  | pure a => rfl
  | fail => rfl
  | read sl k ih =>
    show P.read sl (fun b => (k b >>= f) >>= g) = P.read sl (fun b => k b >>= fun a => f a >>= g)
    congr 1; funext b; exact ih b

theorem pure_bind' {α β : Type} (a : α) (f : α → P β) : (pure a : P α) >>= f = f a := rfl

theorem runD_pure {α : Type} (prob : Slot → UInt8) (a : α) (d : BoolDec) : runD prob (pure a : P α) d = some (a, d) := rfl

theorem runD_optSigned0_bind {β : Type} (prob : Slot → UInt8) (hfix : FixedOK prob) (n : Nat) (hn : n ≤ 7)
    (f : Int → P β) (d : BoolDec) :
    runD prob (Webp.Impl.VP8HeaderBytes.T.optSigned0 n >>= f) d = runD prob (f (optS n 0 d).1) (optS n 0 d).2 :=
  runD_bind_of prob (runD_optSigned0 prob hfix n hn d) f

theorem runD_optSignedKeep_bind {β : Type} (prob : Slot → UInt8) (hfix : FixedOK prob) (n : Nat) (hn : n ≤ 31) (old : Int)
    (f : Int → P β) (d : BoolDec) :
    runD prob (Webp.Impl.VP8HeaderBytes.T.optSignedKeep n old >>= f) d = runD prob (f (optS n old d).1) (optS n old d).2 :=
  runD_bind_of prob (runD_optSignedKeep prob hfix n hn old d) f

theorem runD_readOptionalSigned_bind {β : Type} (prob : Slot → UInt8) (hfix : FixedOK prob) (n : Nat) (hn : n ≤ 31)
    (f : Int → P β) (d : BoolDec) :
    runD prob (Webp.Impl.VP8HeaderBytes.T.readOptionalSigned n >>= f) d =
      runD prob (f (BoolDec.readOptSigned n d).1) (BoolDec.readOptSigned n d).2 :=
  runD_bind_of prob (runD_readOptionalSigned prob hfix n hn d) f

theorem runD_segProb_bind {β : Type} (prob : Slot → UInt8) (hfix : FixedOK prob) (f : UInt8 → P β) (d : BoolDec) :
    runD prob (Webp.Impl.VP8HeaderBytes.T.segProb >>= f) d = runD prob (f (UInt8.ofNat (segProbS d).1)) (segProbS d).2 :=
  runD_bind_of prob (runD_segProb prob hfix d) f

theorem runD_byte8_bind {β : Type} (prob : Slot → UInt8) (hfix : FixedOK prob) (f : UInt8 → P β) (d : BoolDec) :
    runD prob (Webp.Impl.VP8HeaderBytes.T.byte8 >>= f) d =
      runD prob (f (UInt8.ofNat (BoolDec.readLiteral 8 d).1)) (BoolDec.readLiteral 8 d).2 :=
  runD_bind_of prob (runD_byte8 prob hfix d) f

/-! ## segment header (§9.3) -/

/-- the Go decoder's segment state and the RFC's carry the same values -/
structure SegRel (g : SegHdr) (s : SegmentHdr) : Prop where
  use : g.useSegment = s.enabled
  map : g.updateMap = s.updateMap
  abs : g.absoluteDelta = s.absolute
  quant : ∀ i : Fin 4, g.quantizer i = s.quant.getD i.val 0
  lf : ∀ i : Fin 4, g.filterStrength i = s.lfLevel.getD i.val 0
  probs : s.updateMap = true → ∀ i : Fin 3, (g.segProbs i).toNat = s.treeProbs.getD i.val 255

/-- what `acquireDecoder` + `parseHeaders` leave before the segment header is parsed: delta mode, zero values -/
structure PrevSegZero (prev : SegHdr) : Prop where
  abs : prev.absoluteDelta = false
  quant : ∀ i, prev.quantizer i = 0
  lf : ∀ i, prev.filterStrength i = 0

theorem segProbs_loop (d0 : BoolDec) :
    (forIn (m := Id) [:3] (d0, (#[] : Array Nat)) fun _ s =>
        if s.1.readFlag.1 = true then
          pure (ForInStep.yield ((BoolDec.readLiteral 8 s.1.readFlag.2).2, s.2.push (BoolDec.readLiteral 8 s.1.readFlag.2).1))
        else pure (ForInStep.yield (s.1.readFlag.2, s.2.push 255))) =
      pure ((segProbS (segProbS (segProbS d0).2).2).2,
            #[(segProbS d0).1, (segProbS (segProbS d0).2).1, (segProbS (segProbS (segProbS d0).2).2).1]) := by
  rw [forIn_range_id 3 _ _ (fun _ s => ((segProbS s.1).2, s.2.push (segProbS s.1).1))
    (by intro i s; unfold segProbS BoolDec.readFlag; split_ifs <;> rfl)]
  rfl

theorem ofNat_toNat_lt {p : Nat} (h : p < 256) : (UInt8.ofNat p).toNat = p := by
  rw [UInt8.toNat_ofNat']; omega

theorem fin3_probs (a b c : Nat) (ha : a < 256) (hb : b < 256) (hc : c < 256) (i : Fin 3) :
    ((fun i : Fin 3 => if i.val = 0 then UInt8.ofNat a else if i.val = 1 then UInt8.ofNat b else UInt8.ofNat c) i).toNat =
      (#[a, b, c] : Array Nat).getD i.val 255 := by
  have : i = 0 ∨ i = 1 ∨ i = 2 := by omega
  rcases this with rfl | rfl | rfl
  · exact ofNat_toNat_lt ha
  · exact ofNat_toNat_lt hb
  · exact ofNat_toNat_lt hc

theorem fn4_getD (a b c e : Int) (i : Fin 4) :
    Webp.Impl.VP8HeaderBytes.T.fn4 a b c e i = (#[a, b, c, e] : Array Int).getD i.val 0 := by
  have : i = 0 ∨ i = 1 ∨ i = 2 ∨ i = 3 := by omega
  rcases this with rfl | rfl | rfl | rfl <;> rfl

theorem zeros4_getD (i : Fin 4) : (#[0, 0, 0, 0] : Array Int).getD i.val 0 = 0 := by
  have : i = 0 ∨ i = 1 ∨ i = 2 ∨ i = 3 := by omega
  rcases this with rfl | rfl | rfl | rfl <;> rfl

/-- **`parseSegmentHeader` = §9.3 `update_segmentation()`** on the reference decoder -/
theorem seg_runD (prob : Slot → UInt8) (hfix : FixedOK prob) (prev : SegHdr) (hz : PrevSegZero prev) (d : BoolDec) :
    ∃ g, runD prob (Webp.Impl.VP8HeaderBytes.T.parseSegmentHeader prev) d = some (g, (parseSegmentHdr d).2) ∧
      SegRel g (parseSegmentHdr d).1 := by
  unfold parseSegmentHdr
  simp only [Id.run, segProbs_loop]
  simp only [BoolDec.readFlag]
  unfold Webp.Impl.VP8HeaderBytes.T.parseSegmentHeader
  rw [runD_flag_bind prob hfix]
  by_cases h0 : (d.readBool 128).1 = true
  · simp only [h0, if_true, Bool.not_true, Bool.false_eq_true, if_false]
    rw [runD_flag_bind prob hfix, runD_flag_bind prob hfix]
    by_cases h2 : (((d.readBool 128).2.readBool 128).2.readBool 128).1 = true <;>
    by_cases h1 : ((d.readBool 128).2.readBool 128).1 = true
    all_goals
      simp only [h1, h2, if_true, if_false, Bool.false_eq_true, bind_assoc', pure_bind', runD_flag_bind prob hfix,
        runD_optSigned0_bind prob hfix 7 (by omega), runD_optSigned0_bind prob hfix 6 (by omega),
        runD_segProb_bind prob hfix, runD_pure, readOptSigned4_eq]
      refine ⟨_, rfl, ?_⟩
    · exact ⟨rfl, rfl, rfl, fun i => fn4_getD _ _ _ _ i, fun i => fn4_getD _ _ _ _ i,
        fun _ i => fin3_probs _ _ _ (segProbS_lt _) (segProbS_lt _) (segProbS_lt _) i⟩
    · exact ⟨rfl, rfl, rfl, fun i => fn4_getD _ _ _ _ i, fun i => fn4_getD _ _ _ _ i, fun h => by cases h⟩
    · exact ⟨rfl, rfl, hz.abs, fun i => (hz.quant i).trans (zeros4_getD i).symm, fun i => (hz.lf i).trans (zeros4_getD i).symm,
        fun _ i => fin3_probs _ _ _ (segProbS_lt _) (segProbS_lt _) (segProbS_lt _) i⟩
    · exact ⟨rfl, rfl, hz.abs, fun i => (hz.quant i).trans (zeros4_getD i).symm, fun i => (hz.lf i).trans (zeros4_getD i).symm,
        fun h => by cases h⟩
  · have h0' : (d.readBool 128).1 = false := by simpa using h0
    simp only [h0', Bool.not_false, if_true, Bool.false_eq_true, if_false]
    refine ⟨_, rfl, ?_⟩
    exact ⟨rfl, rfl, hz.abs, fun i => (hz.quant i).trans (zeros4_getD i).symm, fun i => (hz.lf i).trans (zeros4_getD i).symm,
      fun h => by cases h⟩

/-! ## filter header (§9.6) -/

/-- the Go decoder's filter header and the RFC's carry the same values -/
structure FiltHdrRel (g : Webp.Impl.VP8HeaderBytes.FilterHdr) (f : FilterHdr) : Prop where
  simple : g.simple = f.simple
  level : g.level = f.level
  sharp : g.sharpness = f.sharpness
  delta : g.useLFDelta = f.deltaEnabled
  ref : ∀ i : Fin 4, g.refLFDelta i = f.refDelta.getD i.val 0
  mode : ∀ i : Fin 4, g.modeLFDelta i = f.modeDelta.getD i.val 0
  level63 : f.level ≤ 63
  sharp7 : f.sharpness ≤ 7

/-- `acquireDecoder` zeroes the loop-filter deltas -/
structure PrevFiltZero (prev : Webp.Impl.VP8HeaderBytes.FilterHdr) : Prop where
  ref : ∀ i, prev.refLFDelta i = 0
  mode : ∀ i, prev.modeLFDelta i = 0

/-- **`parseFilterHeader` = §9.6 filter type/level/sharpness + `mb_lf_adjustments()`** -/
theorem filt_runD (prob : Slot → UInt8) (hfix : FixedOK prob) (prev : Webp.Impl.VP8HeaderBytes.FilterHdr)
    (hz : PrevFiltZero prev) (d : BoolDec) :
    ∃ g, runD prob (Webp.Impl.VP8HeaderBytes.T.parseFilterHeader prev) d = some (g, (parseFilterHdr d).2) ∧
      FiltHdrRel g (parseFilterHdr d).1 := by
  unfold parseFilterHdr
  simp only [Id.run]
  simp only [BoolDec.readFlag]
  unfold Webp.Impl.VP8HeaderBytes.T.parseFilterHeader
  rw [runD_flag_bind prob hfix, runD_getValue_bind prob hfix 6 (by omega), runD_getValue_bind prob hfix 3 (by omega),
    runD_flag_bind prob hfix]
  have h63 : (BoolDec.readLiteral 6 (d.readBool 128).2).1 ≤ 63 := by
    have := readLiteral_lt 6 (d.readBool 128).2; norm_num at this; omega
  have h7 : (BoolDec.readLiteral 3 (BoolDec.readLiteral 6 (d.readBool 128).2).2).1 ≤ 7 := by
    have := readLiteral_lt 3 (BoolDec.readLiteral 6 (d.readBool 128).2).2; norm_num at this; omega
  by_cases h1 : ((BoolDec.readLiteral 3 (BoolDec.readLiteral 6 (d.readBool 128).2).2).2.readBool 128).1 = true
  · by_cases h2 : (((BoolDec.readLiteral 3 (BoolDec.readLiteral 6 (d.readBool 128).2).2).2.readBool 128).2.readBool 128).1 = true
    · simp only [h1, h2, if_true, bind_assoc', pure_bind', runD_flag_bind prob hfix,
        runD_optSignedKeep_bind prob hfix 6 (by omega), runD_pure, readOptSigned4_eq, hz.ref, hz.mode]
      refine ⟨_, rfl, ?_⟩
      exact ⟨rfl, rfl, rfl, rfl, fun i => fn4_getD _ _ _ _ i, fun i => fn4_getD _ _ _ _ i, h63, h7⟩
    · simp only [h1, h2, if_true, if_false, Bool.false_eq_true, bind_assoc', pure_bind', runD_flag_bind prob hfix, runD_pure]
      refine ⟨_, rfl, ?_⟩
      exact ⟨rfl, rfl, rfl, rfl, fun i => (hz.ref i).trans (zeros4_getD i).symm,
        fun i => (hz.mode i).trans (zeros4_getD i).symm, h63, h7⟩
  · simp only [h1, if_false, Bool.false_eq_true, bind_assoc', pure_bind', runD_pure]
    refine ⟨_, rfl, ?_⟩
    exact ⟨rfl, rfl, rfl, rfl, fun i => (hz.ref i).trans (zeros4_getD i).symm,
      fun i => (hz.mode i).trans (zeros4_getD i).symm, h63, h7⟩

/-! ## token probability updates (§13.4) -/

theorem list_all_getD (a : Array Nat) (bound dflt : Nat) (hd : dflt ≤ bound)
    (h : a.toList.all (· ≤ bound) = true) (i : Nat) : a.getD i dflt ≤ bound := by
  apply getD_le_of_all a dflt bound hd
  intro j
  have hm : a[j] ∈ a.toList := by simp
  have := List.all_eq_true.mp h _ hm
  simpa using this

set_option maxRecDepth 100000 in
theorem upd_all : Tables.coeffUpdateProbs.toList.all (· ≤ 255) = true := by
  have h0 : Tables.coeffUpdateProbs0.toList.all (· ≤ 255) = true := by decide
  have h1 : Tables.coeffUpdateProbs1.toList.all (· ≤ 255) = true := by decide
  have h2 : Tables.coeffUpdateProbs2.toList.all (· ≤ 255) = true := by decide
  have h3 : Tables.coeffUpdateProbs3.toList.all (· ≤ 255) = true := by decide
  unfold Tables.coeffUpdateProbs
  rw [Array.toList_append, Array.toList_append, Array.toList_append, List.all_append, List.all_append, List.all_append,
    h0, h1, h2, h3]; rfl

set_option maxRecDepth 100000 in
theorem def_all : Tables.defaultCoeffProbs.toList.all (· ≤ 255) = true := by
  have h0 : Tables.defaultCoeffProbs0.toList.all (· ≤ 255) = true := by decide
  have h1 : Tables.defaultCoeffProbs1.toList.all (· ≤ 255) = true := by decide
  have h2 : Tables.defaultCoeffProbs2.toList.all (· ≤ 255) = true := by decide
  have h3 : Tables.defaultCoeffProbs3.toList.all (· ≤ 255) = true := by decide
  unfold Tables.defaultCoeffProbs
  rw [Array.toList_append, Array.toList_append, Array.toList_append, List.all_append, List.all_append, List.all_append,
    h0, h1, h2, h3]; rfl

set_option maxRecDepth 100000 in
theorem upd_size : Tables.coeffUpdateProbs.size = 1056 := by
  have h0 : Tables.coeffUpdateProbs0.size = 264 := by decide
  have h1 : Tables.coeffUpdateProbs1.size = 264 := by decide
  have h2 : Tables.coeffUpdateProbs2.size = 264 := by decide
  have h3 : Tables.coeffUpdateProbs3.size = 264 := by decide
  unfold Tables.coeffUpdateProbs
  rw [Array.size_append, Array.size_append, Array.size_append, h0, h1, h2, h3]

set_option maxRecDepth 100000 in
theorem def_size : Tables.defaultCoeffProbs.size = 1056 := by
  have h0 : Tables.defaultCoeffProbs0.size = 264 := by decide
  have h1 : Tables.defaultCoeffProbs1.size = 264 := by decide
  have h2 : Tables.defaultCoeffProbs2.size = 264 := by decide
  have h3 : Tables.defaultCoeffProbs3.size = 264 := by decide
  unfold Tables.defaultCoeffProbs
  rw [Array.size_append, Array.size_append, Array.size_append, h0, h1, h2, h3]

theorem getD_dflt_irrel (a : Array Nat) (i : Nat) (h : i < a.size) (x y : Nat) : a.getD i x = a.getD i y := by
  rw [Array.getD_eq_getD_getElem?, Array.getD_eq_getD_getElem?, Array.getElem?_eq_getElem h]; rfl

/-- the values `token_prob_update()` leaves at the positions `l`, and the decoder after them; `P0` holds
    the values before the frame -/
def probaL (P0 : Array Nat) : List Nat → BoolDec → List Nat × BoolDec
  | [], d => ([], d)
  | i :: l, d =>
    if (d.readBool (Tables.coeffUpdateProbs.getD i 255)).1 then
      ((BoolDec.readLiteral 8 (d.readBool (Tables.coeffUpdateProbs.getD i 255)).2).1 ::
          (probaL P0 l (BoolDec.readLiteral 8 (d.readBool (Tables.coeffUpdateProbs.getD i 255)).2).2).1,
       (probaL P0 l (BoolDec.readLiteral 8 (d.readBool (Tables.coeffUpdateProbs.getD i 255)).2).2).2)
    else
      (P0.getD i 128 :: (probaL P0 l (d.readBool (Tables.coeffUpdateProbs.getD i 255)).2).1,
       (probaL P0 l (d.readBool (Tables.coeffUpdateProbs.getD i 255)).2).2)

theorem probaL_length (P0 : Array Nat) (l : List Nat) (d : BoolDec) : (probaL P0 l d).1.length = l.length := by
  induction l generalizing d with
  | nil => rfl
  | cons i l ih => unfold probaL; split_ifs <;> simp [ih]

theorem probaL_lt (P0 : Array Nat) (hP : ∀ i, P0.getD i 128 ≤ 255) (l : List Nat) (d : BoolDec) :
    ∀ v ∈ (probaL P0 l d).1, v < 256 := by
  induction l generalizing d with
  | nil => intro v hv; cases hv
  | cons i l ih =>
    intro v hv
    unfold probaL at hv
    split_ifs at hv
    · rcases List.mem_cons.mp hv with rfl | h
      · have := readLiteral_lt 8 (d.readBool (Tables.coeffUpdateProbs.getD i 255)).2
        have h8 : (2 : Nat) ^ 8 = 256 := by norm_num
        rw [h8] at this; exact this
      · exact ih _ v h
    · rcases List.mem_cons.mp hv with rfl | h
      · have := hP i; omega
      · exact ih _ v h

theorem parseProbaLoop_cons (u : Nat) (d0 : UInt8) (uds : List (Nat × UInt8)) :
    Webp.Impl.VP8HeaderBytes.T.parseProbaLoop ((u, d0) :: uds) =
      (rd (.fixed u) >>= fun b =>
        (if b then Webp.Impl.VP8HeaderBytes.T.byte8 else pure d0) >>= fun x =>
        Webp.Impl.VP8HeaderBytes.T.parseProbaLoop uds >>= fun xs => pure (x :: xs)) := rfl

/-- `parseProba`'s loops on the reference decoder -/
theorem runD_probaLoop (prob : Slot → UInt8) (hfix : FixedOK prob) (l : List Nat) (hl : ∀ i ∈ l, i < 1056) (d : BoolDec) :
    runD prob (Webp.Impl.VP8HeaderBytes.T.parseProbaLoop
        (l.map fun i => (Tables.coeffUpdateProbs.getD i 0, UInt8.ofNat (Tables.defaultCoeffProbs.getD i 0)))) d =
      some ((probaL Tables.defaultCoeffProbs l d).1.map UInt8.ofNat, (probaL Tables.defaultCoeffProbs l d).2) := by
  induction l generalizing d with
  | nil => rfl
  | cons i l ih =>
    have hi : i < 1056 := hl i (by simp)
    have hu : Tables.coeffUpdateProbs.getD i 0 = Tables.coeffUpdateProbs.getD i 255 :=
      getD_dflt_irrel _ _ (by rw [upd_size]; exact hi) _ _
    have hd : Tables.defaultCoeffProbs.getD i 0 = Tables.defaultCoeffProbs.getD i 128 :=
      getD_dflt_irrel _ _ (by rw [def_size]; exact hi) _ _
    have hle : Tables.coeffUpdateProbs.getD i 255 ≤ 255 := list_all_getD _ 255 255 (by omega) upd_all i
    rw [List.map_cons, parseProbaLoop_cons]
    rw [runD_rd_bind, hu, hfix _ hle, hd]
    unfold probaL
    by_cases hb : (d.readBool (Tables.coeffUpdateProbs.getD i 255)).1 = true
    · simp only [hb, if_true]
      rw [runD_byte8_bind prob hfix, runD_bind_of prob (ih (fun j hj => hl j (by simp [hj])) _)]
      rfl
    · simp only [hb, if_false, Bool.false_eq_true]
      rw [pure_bind', runD_bind_of prob (ih (fun j hj => hl j (by simp [hj])) _)]
      rfl

/-- one iteration of the specification's loop -/
def probaStep (i : Nat) (s : Array Nat × BoolDec × Nat) : Array Nat × BoolDec × Nat :=
  if (s.2.1.readBool (Tables.coeffUpdateProbs.getD i 255)).1 then
    (s.1.setIfInBounds i (BoolDec.readLiteral 8 (s.2.1.readBool (Tables.coeffUpdateProbs.getD i 255)).2).1,
     (BoolDec.readLiteral 8 (s.2.1.readBool (Tables.coeffUpdateProbs.getD i 255)).2).2, s.2.2 + 1)
  else (s.1, (s.2.1.readBool (Tables.coeffUpdateProbs.getD i 255)).2, s.2.2)

theorem parseCoeffProbs_eq (P : Array Nat) (d : BoolDec) :
    parseCoeffProbs P d =
      (((List.range' 0 1056).foldl (fun s i => probaStep i s) (P, d, 0)).1,
       ((List.range' 0 1056).foldl (fun s i => probaStep i s) (P, d, 0)).2.2,
       ((List.range' 0 1056).foldl (fun s i => probaStep i s) (P, d, 0)).2.1) := by
  unfold parseCoeffProbs
  simp only [Id.run]
  rw [forIn_range_id (4 * 8 * 3 * 11) _ _ probaStep (by intro i s; unfold probaStep; split_ifs <;> rfl)]
  have e : 4 * 8 * 3 * 11 = 1056 := by norm_num
  rw [e]
  generalize List.foldl (fun s i => probaStep i s) (P, d, 0) (List.range' 0 1056) = X
  rfl

theorem proba_fold (P0 : Array Nat) (k : Nat) :
    ∀ (a : Nat) (P : Array Nat) (d : BoolDec) (n : Nat), a + k ≤ P.size → (∀ j, a ≤ j → P.getD j 128 = P0.getD j 128) →
      ((List.range' a k).foldl (fun s i => probaStep i s) (P, d, n)).2.1 = (probaL P0 (List.range' a k) d).2 ∧
      ((List.range' a k).foldl (fun s i => probaStep i s) (P, d, n)).1.size = P.size ∧
      ∀ j, ((List.range' a k).foldl (fun s i => probaStep i s) (P, d, n)).1.getD j 128 =
        if a ≤ j ∧ j < a + k then (probaL P0 (List.range' a k) d).1.getD (j - a) 0 else P.getD j 128 := by
  induction k with
  | zero =>
    intro a P d n _ _
    refine ⟨rfl, rfl, fun j => ?_⟩
    rw [if_neg (by omega)]; rfl
  | succ k ih =>
    intro a P d n hsz hun
    have er : List.range' a (k + 1) = a :: List.range' (a + 1) k := rfl
    rw [er, List.foldl_cons]
    by_cases hb : (d.readBool (Tables.coeffUpdateProbs.getD a 255)).1 = true
    · have hs : probaStep a (P, d, n) =
          (P.setIfInBounds a (BoolDec.readLiteral 8 (d.readBool (Tables.coeffUpdateProbs.getD a 255)).2).1,
           (BoolDec.readLiteral 8 (d.readBool (Tables.coeffUpdateProbs.getD a 255)).2).2, n + 1) := by
        unfold probaStep; simp only [hb, if_true]
      have hp : probaL P0 (a :: List.range' (a + 1) k) d =
          ((BoolDec.readLiteral 8 (d.readBool (Tables.coeffUpdateProbs.getD a 255)).2).1 ::
              (probaL P0 (List.range' (a + 1) k) (BoolDec.readLiteral 8 (d.readBool (Tables.coeffUpdateProbs.getD a 255)).2).2).1,
           (probaL P0 (List.range' (a + 1) k) (BoolDec.readLiteral 8 (d.readBool (Tables.coeffUpdateProbs.getD a 255)).2).2).2) := by
        rw [probaL]; simp only [hb, if_true]
      rw [hs, hp]
      obtain ⟨i1, i2, i3⟩ := ih (a + 1) (P.setIfInBounds a (BoolDec.readLiteral 8 (d.readBool (Tables.coeffUpdateProbs.getD a 255)).2).1)
        (BoolDec.readLiteral 8 (d.readBool (Tables.coeffUpdateProbs.getD a 255)).2).2 (n + 1)
        (by rw [Array.size_setIfInBounds]; omega)
        (by intro j hj
            rw [Array.getD_eq_getD_getElem?, Array.getElem?_setIfInBounds, if_neg (by omega), ← Array.getD_eq_getD_getElem?]
            exact hun j (by omega))
      refine ⟨i1, by rw [i2, Array.size_setIfInBounds], fun j => ?_⟩
      rw [i3 j]
      by_cases hj : j = a
      · subst hj
        rw [if_neg (by omega), if_pos (by omega), Nat.sub_self]
        rw [Array.getD_eq_getD_getElem?, Array.getElem?_setIfInBounds, if_pos rfl, if_pos (by omega)]
        rfl
      · by_cases hin : a + 1 ≤ j ∧ j < a + 1 + k
        · rw [if_pos hin, if_pos (by omega)]
          have : j - a = (j - (a + 1)) + 1 := by omega
          rw [this]; rfl
        · rw [if_neg hin, if_neg (by omega)]
          rw [Array.getD_eq_getD_getElem?, Array.getElem?_setIfInBounds, if_neg (by omega), ← Array.getD_eq_getD_getElem?]
    · have hs : probaStep a (P, d, n) = (P, (d.readBool (Tables.coeffUpdateProbs.getD a 255)).2, n) := by
        unfold probaStep; simp only [hb, if_false, Bool.false_eq_true]
      have hp : probaL P0 (a :: List.range' (a + 1) k) d =
          (P0.getD a 128 :: (probaL P0 (List.range' (a + 1) k) (d.readBool (Tables.coeffUpdateProbs.getD a 255)).2).1,
           (probaL P0 (List.range' (a + 1) k) (d.readBool (Tables.coeffUpdateProbs.getD a 255)).2).2) := by
        rw [probaL]; simp only [hb, if_false, Bool.false_eq_true]
      rw [hs, hp]
      obtain ⟨i1, i2, i3⟩ := ih (a + 1) P (d.readBool (Tables.coeffUpdateProbs.getD a 255)).2 n (by omega)
        (fun j hj => hun j (by omega))
      refine ⟨i1, i2, fun j => ?_⟩
      rw [i3 j]
      by_cases hj : j = a
      · subst hj
        rw [if_neg (by omega), if_pos (by omega), Nat.sub_self]
        exact hun j (by omega)
      · by_cases hin : a + 1 ≤ j ∧ j < a + 1 + k
        · rw [if_pos hin, if_pos (by omega)]
          have : j - a = (j - (a + 1)) + 1 := by omega
          rw [this]; rfl
        · rw [if_neg hin, if_neg (by omega)]

/-! ## the whole frame header (§19.2) -/

/-- the 1056 probability positions in loop order -/
def idxs : List Nat := List.range' 0 1056

theorem updDef_eq : updDef = idxs.map fun i =>
    (Tables.coeffUpdateProbs.getD i 0, UInt8.ofNat (Tables.defaultCoeffProbs.getD i 0)) := by
  unfold updDef idxs
  rw [List.range_eq_range']

theorem idxs_mem : ∀ i ∈ idxs, i < 1056 := by
  intro i hi; unfold idxs at hi; rw [List.mem_range'_1] at hi; omega

theorem idxs_len : idxs.length = 1056 := by unfold idxs; rw [List.length_range']

theorem parseCoeffProbs_idxs (P : Array Nat) (d : BoolDec) :
    parseCoeffProbs P d =
      ((idxs.foldl (fun s i => probaStep i s) (P, d, 0)).1,
       (idxs.foldl (fun s i => probaStep i s) (P, d, 0)).2.2,
       (idxs.foldl (fun s i => probaStep i s) (P, d, 0)).2.1) := by
  unfold idxs; exact parseCoeffProbs_eq P d

theorem proba_fold_idxs (d : BoolDec) :
    (idxs.foldl (fun s i => probaStep i s) (Tables.defaultCoeffProbs, d, 0)).2.1 = (probaL Tables.defaultCoeffProbs idxs d).2 ∧
    ∀ j, j < 1056 → (idxs.foldl (fun s i => probaStep i s) (Tables.defaultCoeffProbs, d, 0)).1.getD j 128 =
      (probaL Tables.defaultCoeffProbs idxs d).1.getD j 0 := by
  unfold idxs
  obtain ⟨a, _, c⟩ := proba_fold Tables.defaultCoeffProbs 1056 0 Tables.defaultCoeffProbs d 0 (by rw [def_size]) (fun _ _ => rfl)
  refine ⟨a, fun j hj => ?_⟩
  have := c j
  rw [if_pos (by omega), Nat.sub_zero] at this
  exact this

attribute [irreducible] idxs

theorem parseQuantHdr_eq (d : BoolDec) :
    (parseQuantHdr d).1.yacQi = (BoolDec.readLiteral 7 d).1 ∧
    (parseQuantHdr d).1.ydcDelta = (BoolDec.readOptSigned 4 (BoolDec.readLiteral 7 d).2).1 ∧
    (parseQuantHdr d).1.y2dcDelta = (BoolDec.readOptSigned 4 (BoolDec.readOptSigned 4 (BoolDec.readLiteral 7 d).2).2).1 ∧
    (parseQuantHdr d).1.y2acDelta = (BoolDec.readOptSigned 4 (BoolDec.readOptSigned 4 (BoolDec.readOptSigned 4 (BoolDec.readLiteral 7 d).2).2).2).1 ∧
    (parseQuantHdr d).1.uvdcDelta = (BoolDec.readOptSigned 4 (BoolDec.readOptSigned 4 (BoolDec.readOptSigned 4
            (BoolDec.readOptSigned 4 (BoolDec.readLiteral 7 d).2).2).2).2).1 ∧
    (parseQuantHdr d).1.uvacDelta = (BoolDec.readOptSigned 4 (BoolDec.readOptSigned 4 (BoolDec.readOptSigned 4 (BoolDec.readOptSigned 4
            (BoolDec.readOptSigned 4 (BoolDec.readLiteral 7 d).2).2).2).2).2).1 ∧
    (parseQuantHdr d).2 = (BoolDec.readOptSigned 4 (BoolDec.readOptSigned 4 (BoolDec.readOptSigned 4 (BoolDec.readOptSigned 4
            (BoolDec.readOptSigned 4 (BoolDec.readLiteral 7 d).2).2).2).2).2).2 := by
  unfold parseQuantHdr
  simp only []
  exact ⟨trivial, trivial, trivial, trivial, trivial, trivial, trivial⟩

/-- what the Go decoder holds after `parseHeaders` and what the RFC frame header says -/
structure HdrRel (g : DecHeader) (h : FrameHdr) : Prop where
  seg : SegRel g.seg h.seg
  filt : FiltHdrRel g.filt h.filter
  parts : g.numPartsMinusOne + 1 = h.numParts
  baseQ : g.baseQ0 = h.quant.yacQi
  d1 : g.dqY1DC = h.quant.ydcDelta
  d2 : g.dqY2DC = h.quant.y2dcDelta
  d3 : g.dqY2AC = h.quant.y2acDelta
  d4 : g.dqUVDC = h.quant.uvdcDelta
  d5 : g.dqUVAC = h.quant.uvacDelta
  coefLen : g.coef.length = 1056
  coef : ∀ i, i < 1056 → (g.coef.getD i 0).toNat = h.coeffProbs.getD i 128
  skip : g.useSkipProba = h.skipEnabled
  skipP : h.skipEnabled = true → g.skipP.toNat = h.probSkipFalse

/-- the decoder state `parseHeaders` starts from (`acquireDecoder`) -/
structure PrevZero (prev : DecHeader) : Prop where
  seg : PrevSegZero prev.seg
  filt : PrevFiltZero prev.filt

theorem pow_shift (n : Nat) : 1 <<< n - 1 + 1 = 1 <<< n := by
  rw [Nat.shiftLeft_eq, Nat.one_mul]
  have := Nat.two_pow_pos n
  omega

end Webp.Proofs.C04RefineHeader
