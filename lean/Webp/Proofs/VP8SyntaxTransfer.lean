import Webp.Proofs.VP8SyntaxTrees
import Webp.Proofs.VP8ReconSyntax
import Webp.Props.C06Bool
/-
  C06 bytes, part 2: the transfer lemma (a decision tree gives the same result on a `BoolReader`
  that reproduces the decision stream as on the stream itself), the simulation of `parseMBs` by
  `parseMBsBytes`, and the readers over the bytes the boolean writer produced.
-/
namespace Webp.Proofs.VP8SyntaxTransfer
open Webp.Go (Bytes)
open Webp.Impl.VP8Recon Webp.Impl.VP8SyntaxBytes Webp.Impl.BoolCoder
open Webp.Proofs.VP8SyntaxTrees Webp.Proofs.BoolOps

variable (prob : Slot → UInt8)

/-- the probabilities a decision stream is coded with -/
def probs (s : Stream) : List Nat := s.map fun d => (prob d.slot).toNat
def bitsOf (s : Stream) : List Bool := s.map (·.bit)

/-- `GetBit` on the stream's probabilities returns the stream's bits -/
def Repro (r : BoolReader) (s : Stream) : Prop := (readBitsSt r (probs prob s)).1 = bitsOf s
/-- the reader after those `GetBit`s -/
def after (r : BoolReader) (s : Stream) : BoolReader := (readBitsSt r (probs prob s)).2

theorem after_nil (r : BoolReader) : after prob r [] = r := rfl
theorem repro_nil (r : BoolReader) : Repro prob r [] := rfl

theorem after_append (r : BoolReader) (a b : Stream) : after prob r (a ++ b) = after prob (after prob r a) b := by
  unfold after probs
  rw [List.map_append, readBitsSt_append]

theorem repro_append (r : BoolReader) (a b : Stream) :
    Repro prob r (a ++ b) ↔ Repro prob r a ∧ Repro prob (after prob r a) b := by
  unfold Repro after probs bitsOf
  rw [List.map_append, List.map_append, readBitsSt_append]
  constructor
  · intro h
    have hlen : (readBitsSt r (List.map (fun d => (prob d.slot).toNat) a)).1.length = (List.map (·.bit) a).length := by
      rw [readBitsSt_length]; simp
    exact List.append_inj h hlen
  · rintro ⟨h1, h2⟩
    simp only
    rw [h1, h2]

theorem repro_cons (r : BoolReader) (d : Decision) (s : Stream) :
    Repro prob r (d :: s) ↔
      (getBit r (prob d.slot).toNat).1 = d.bit ∧ Repro prob (getBit r (prob d.slot).toNat).2 s := by
  unfold Repro probs bitsOf
  simp only [List.map_cons, readBitsSt_cons, List.cons.injEq]

theorem after_cons (r : BoolReader) (d : Decision) (s : Stream) :
    after prob r (d :: s) = after prob (getBit r (prob d.slot).toNat).2 s := rfl

/-- **Transfer lemma.**  If a decision tree succeeds on a decision stream, it consumed a prefix `pre`
    of it, and on every boolean reader that reproduces `pre` it returns the same result and leaves
    the reader where `pre` ends. -/
theorem transfer {α : Type} (x : P α) (full rest : Stream) (a : α) (h : runS x full = some (a, rest)) :
    ∃ pre, full = pre ++ rest ∧
      ∀ r, Repro prob r pre → runR prob x r = some (a, after prob r pre) := by
  induction x generalizing full with
  | pure b =>
    have : (b, full) = (a, rest) := Option.some.inj h
    obtain ⟨rfl, rfl⟩ := Prod.mk.inj this
    exact ⟨[], rfl, fun r _ => rfl⟩
  | fail => exact absurd h (by simp [runS])
  | read sl k ih =>
    cases full with
    | nil => exact absurd h (by simp [runS, readBit])
    | cons d tl =>
      have hsl : d.slot = sl := by
        by_contra hne
        simp [runS, readBit, hne] at h
      have h' : runS (k d.bit) tl = some (a, rest) := by
        simpa [runS, readBit, hsl] using h
      obtain ⟨pre, hpre, hrun⟩ := ih d.bit tl h'
      refine ⟨d :: pre, by rw [hpre]; rfl, fun r hr => ?_⟩
      obtain ⟨hb, hr'⟩ := (repro_cons prob r d pre).mp hr
      show runR prob (k (getBit r (prob sl).toNat).1) (getBit r (prob sl).toNat).2 = _
      rw [← hsl, hb, after_cons]
      exact hrun _ hr'

/-! ### `eof` is sticky -/

theorem getBit_eof_mono (r : BoolReader) (p : Nat) (h : (getBit r p).2.eof = false) : r.eof = false := by
  have e : (getBit r p).2.eof = (if r.bits < 0 then loadNewBytes r else r).eof := rfl
  rw [e] at h
  by_cases hb : r.bits < 0
  · simp only [hb, if_true] at h
    unfold loadNewBytes at h
    split at h
    · exact h
    · unfold loadFinalBytes at h
      split at h
      · exact h
      · split at h
        · simp at h
        · exact h
  · simpa [hb] using h

theorem after_eof_mono (r : BoolReader) (a b : Stream) (h : (after prob r (a ++ b)).eof = false) :
    (after prob r a).eof = false := by
  rw [after_append] at h
  generalize after prob r a = r1 at h
  induction b generalizing r1 with
  | nil => exact h
  | cons d b ih =>
    rw [after_cons] at h
    exact getBit_eof_mono _ _ (ih _ h)

/-! ### `parseMBsBytes` simulates `parseMBs` -/

theorem map_fl3_some {α β γ : Type} {o : Option ((α × β) × γ)} {a : α} {b : β} {c : γ}
    (h : o.map fl3 = some (a, b, c)) : o = some ((a, b), c) := by
  cases o with
  | none => simp at h
  | some p =>
    obtain ⟨⟨a', b'⟩, c'⟩ := p
    simp only [Option.map_some, fl3, Option.some.injEq, Prod.mk.injEq] at h
    obtain ⟨rfl, rfl, rfl⟩ := h
    rfl

/-- **Simulation.**  Whenever the stream-level frame parser succeeds, the byte-level one succeeds with
    the same records on readers that reproduce the streams, and leaves each reader at the end of a
    prefix of its stream. -/
theorem parseMBs_sim (K : Kernels) (dqm : Fin 4 → QuantMatrix) (fs : FrameSyntax) :
    ∀ (ks : List Nat) (c : TokCtx) (S : Streams) (col : ColData) (out out' : Nat → MBModes × ResData),
      parseMBs K dqm fs ks c S col out = some out' →
      ∀ (r0 : BoolReader) (rp : Nat → BoolReader), Repro prob r0 S.part0 → (∀ p, Repro prob (rp p) (S.parts p)) →
      ∃ r0' rp', parseMBsBytes K dqm fs prob ks c r0 rp col out = some (out', r0', rp') ∧
        (∃ pre, pre <+: S.part0 ∧ r0' = after prob r0 pre) ∧
        ∀ p, ∃ pre, pre <+: S.parts p ∧ rp' p = after prob (rp p) pre := by
  intro ks
  induction ks with
  | nil =>
    intro c S col out out' h r0 rp _ _
    have : out = out' := Option.some.inj h
    subst this
    exact ⟨r0, rp, rfl, ⟨[], List.nil_prefix, rfl⟩, fun p => ⟨[], List.nil_prefix, rfl⟩⟩
  | cons k ks ih =>
    intro c S col out out' h r0 rp h0 hp
    simp only [parseMBs] at h
    generalize hc1 : (if k % fs.mbW = 0 then c.rowStart else c) = c1 at h
    obtain ⟨⟨m, mc, p0⟩, hm, h⟩ := Option.bind_eq_some_iff.mp h
    simp only at h
    obtain ⟨⟨rd', nc, ps⟩, ht, h⟩ := Option.bind_eq_some_iff.mp h
    simp only at h
    -- modes from partition 0
    rw [← parseModes_eq] at hm
    obtain ⟨pre0, hS0, hrun0⟩ := transfer prob _ _ _ _ (map_fl3_some hm)
    rw [hS0] at h0
    obtain ⟨h0a, h0b⟩ := (repro_append prob r0 pre0 p0).mp h0
    -- tokens from partition `pi`
    rw [← parseTokens_eq] at ht
    obtain ⟨prei, hSi, hruni⟩ := transfer prob _ _ _ _ (map_fl3_some ht)
    have hpi := hp (k / fs.mbW &&& (fs.numParts - 1))
    rw [hSi] at hpi
    obtain ⟨hia, hib⟩ := (repro_append prob _ prei ps).mp hpi
    -- the remaining macroblocks
    obtain ⟨r0', rp', hrest, ⟨pre0', hpre0', hr0'⟩, hparts⟩ := ih _ _ _ _ _ h (after prob r0 pre0)
      (fun p => if p = k / fs.mbW &&& (fs.numParts - 1) then after prob (rp (k / fs.mbW &&& (fs.numParts - 1))) prei else rp p)
      h0b (fun p => by
        by_cases hpp : p = k / fs.mbW &&& (fs.numParts - 1)
        · simp only [hpp, if_true]; exact hib
        · simp only [hpp, if_false]; exact hp p)
    refine ⟨r0', rp', ?_, ?_, ?_⟩
    · simp only [parseMBsBytes]
      rw [hc1, hrun0 r0 h0a]
      simp only [Option.bind_some]
      rw [hruni _ hia]
      simp only [Option.bind_some]
      exact hrest
    · refine ⟨pre0 ++ pre0', ?_, ?_⟩
      · rw [hS0]; exact List.prefix_append_right_inj pre0 |>.mpr hpre0'
      · rw [hr0', after_append]
    · intro p
      obtain ⟨pre, hpre, hr⟩ := hparts p
      by_cases hpp : p = k / fs.mbW &&& (fs.numParts - 1)
      · simp only [hpp, if_true] at hpre hr
        refine ⟨prei ++ pre, ?_, ?_⟩
        · rw [hpp, hSi]; exact List.prefix_append_right_inj prei |>.mpr hpre
        · rw [hpp, hr, after_append]
      · simp only [hpp, if_false] at hpre hr
        exact ⟨pre, hpre, hr⟩

end Webp.Proofs.VP8SyntaxTransfer
