import Webp.Proofs.C04RefineResid6
import Webp.Proofs.C04RefineResid3
/-
  C04 refinement, residuals, part 7: the coefficient store relation (`StRel`: Go's per-block arrays vs the specification's
  400-entry array, with the inverse-WHT DCs Go keeps in the luma DC slots as overrides), one block step against `rStep`,
  and the queue invariant of the packed context words (`QInv`).
-/
namespace Webp.Proofs.C04RefineResid
open Webp.Spec.VP8
open Webp.Impl.VP8SyntaxBytes (P runR rd)
open Webp.Impl.VP8Recon (Slot Coeffs)
open Webp.Proofs.C04RefineOps Webp.Proofs.C04RefineTokens

/-- Go's `block.Coeffs[16·b ..]` vs the specification's array; `ov b = some v`: Go holds `v` in the DC slot of block `b` -/
def StRel (N : Nat) (ov : Nat → Option Int) (store : Nat → Coeffs) (coeffs : Array Int) : Prop :=
  coeffs.size = 400 ∧ ∀ b, b < N → ∀ j : Fin 16,
    store b j = if j.val = 0 then (ov b).getD (coeffs.getD (b * 16) 0) else coeffs.getD (b * 16 + j.val) 0

theorem getD_setI (a : Array Int) (i j : Nat) (v : Int) :
    (a.setIfInBounds i v).getD j 0 = if i = j ∧ i < a.size then v else a.getD j 0 := by
  rw [Array.getD_eq_getD_getElem?, Array.getElem?_setIfInBounds, Array.getD_eq_getD_getElem?]
  by_cases h1 : i = j
  · subst h1
    by_cases h2 : i < a.size
    · rw [if_pos rfl, if_pos h2, if_pos ⟨rfl, h2⟩]; rfl
    · rw [if_pos rfl, if_neg h2, if_neg (fun h => h2 h.2), Array.getElem?_eq_none (by omega)]
  · rw [if_neg h1, if_neg (fun h => h1 h.1)]

/-- **one block**: Go's `getCoeffs` call on block `b` of its store = `rStep` -/
theorem blk_sim (prob : Slot → UInt8) (probs : Array Nat) (t first : Nat) (dq0 dq1 : Int) (hc : CoefOK prob probs t)
    (hfix : FixedOK prob) (hf : first ≤ 16) (N : Nat) (hN : N ≤ 25) (ai li b : Nat) (hb : b < N) (s : RSt) (ov : Nat → Option Int)
    (store : Nat → Coeffs) (hst : StRel N ov store s.1) (hov : (ov b).isSome = true → 1 ≤ first)
    (c : Nat) (hcv : c = s.2.1.getD ai 0 + s.2.2.1.getD li 0) (hc2 : c ≤ 2) :
    ∃ out', runD prob (Webp.Impl.VP8SyntaxBytes.T.getCoeffs t c dq0 dq1 first (store b)) s.2.2.2.1 =
        some (((readBlock probs t first c dq0 dq1 (b * 16) s.1 s.2.2.2.1).1, out'),
              (rStep probs t first dq0 dq1 ai li b s).2.2.2.1) ∧
      StRel N ov (fun b' => if b' = b then out' else store b') (rStep probs t first dq0 dq1 ai li b s).1 := by
  obtain ⟨hsz, hrel⟩ := hst
  have e1 : (rStep probs t first dq0 dq1 ai li b s).2.2.2.1 = (readBlock probs t first c dq0 dq1 (b * 16) s.1 s.2.2.2.1).2.2.2 := by
    rw [hcv]; rfl
  have e2 : (rStep probs t first dq0 dq1 ai li b s).1 = (readBlock probs t first c dq0 dq1 (b * 16) s.1 s.2.2.2.1).2.1 := by
    rw [hcv]; rfl
  rw [e1, e2]
  obtain ⟨f1, f2⟩ := readBlock_frame probs t first c dq0 dq1 (b * 16) s.1 s.2.2.2.1
  cases ho : ov b with
  | none =>
    have hin : store b = toC s.1 (b * 16) := by
      funext j
      rw [hrel b hb j, ho]
      unfold toC
      by_cases hj : j.val = 0
      · rw [if_pos hj, hj]; rfl
      · rw [if_neg hj]
    rw [hin, getCoeffs_runD prob probs t c dq0 dq1 first (b * 16) s.1 hc hfix hf hc2 (by omega)]
    refine ⟨_, rfl, by rw [f1]; exact hsz, ?_⟩
    intro b' hb' j
    beta_reduce
    by_cases hbb : b' = b
    · rw [if_pos hbb, hbb, ho]
      unfold toC
      by_cases hj : j.val = 0
      · rw [if_pos hj, hj]; rfl
      · rw [if_neg hj]
    · rw [if_neg hbb, hrel b' hb' j]
      have := j.isLt
      rw [f2 (b' * 16) (by omega), f2 (b' * 16 + j.val) (by omega)]
  | some v =>
    have h1 : 1 ≤ first := hov (by rw [ho]; rfl)
    have hin : store b = toC (s.1.setIfInBounds (b * 16) v) (b * 16) := by
      funext j
      rw [hrel b hb j, ho]
      unfold toC
      rw [getD_setI]
      by_cases hj : j.val = 0
      · rw [if_pos hj, if_pos ⟨by omega, by omega⟩]; rfl
      · rw [if_neg hj, if_neg (by omega)]
    rw [hin, getCoeffs_runD prob probs t c dq0 dq1 first (b * 16) _ hc hfix hf hc2 (by rw [Array.size_setIfInBounds]; omega),
      readBlock_set0 probs t first c dq0 dq1 (b * 16) v h1]
    refine ⟨_, rfl, by rw [f1]; exact hsz, ?_⟩
    intro b' hb' j
    beta_reduce
    by_cases hbb : b' = b
    · rw [if_pos hbb, hbb, ho]
      unfold toC
      rw [getD_setI]
      by_cases hj : j.val = 0
      · rw [if_pos hj, if_pos ⟨by omega, by omega⟩]; rfl
      · rw [if_neg hj, if_neg (by omega)]
    · rw [if_neg hbb, hrel b' hb' j]
      have := j.isLt
      rw [f2 (b' * 16) (by omega), f2 (b' * 16 + j.val) (by omega)]

/-! ## the queue invariant -/

/-- word `w` as a queue over `arr[a0 .. a0+n)`: the unread flags from bit 0, the `x` rewritten ones below bit `p+1` -/
structure QInv (arr : Array Nat) (a0 n p x w : Nat) : Prop where
  un : ∀ k, x + k < n → bit w k = arr.getD (a0 + x + k) 0
  up : ∀ j, j < x → bit w (p + 1 - x + j) = arr.getD (a0 + j) 0
  lt : w < 2 ^ (p + 1)

theorem qinv_head {arr : Array Nat} {a0 n p x w : Nat} (h : QInv arr a0 n p x w) (hx : x < n) :
    w &&& 1 = arr.getD (a0 + x) 0 := by
  rw [bit_and1, h.un 0 (by omega)]; rfl

open Webp.Proofs.C04RefineModes (getD_setN) in
theorem qinv_step {arr : Array Nat} {a0 n p x w : Nat} (h : QInv arr a0 n p x w) (hx : x < n) (hn : n ≤ p + 1) (f : Nat)
    (hf : f ≤ 1) (hsz : a0 + n ≤ arr.size) :
    QInv (arr.setIfInBounds (a0 + x) f) a0 n p (x + 1) (w >>> 1 ||| f <<< p) := by
  refine ⟨?_, ?_, push_lt w f p hf h.lt⟩
  · intro k hk
    rw [bit_push w f p k hf h.lt, if_neg (by omega), if_pos (by omega), getD_setN, if_neg (by omega), h.un (k + 1) (by omega)]
    congr 1; omega
  · intro j hj
    rw [bit_push w f p _ hf h.lt, getD_setN]
    by_cases hjx : j = x
    · rw [if_pos (by omega), if_pos ⟨by omega, by omega⟩]
    · rw [if_neg (by omega), if_pos (by omega), if_neg (by omega), ← h.up j (by omega)]
      congr 1; omega

theorem qinv_frame {arr arr' : Array Nat} {a0 n p x w : Nat} (h : QInv arr a0 n p x w)
    (he : ∀ i, a0 ≤ i → i < a0 + n → arr'.getD i 0 = arr.getD i 0) (hxn : x ≤ n) : QInv arr' a0 n p x w :=
  ⟨fun k hk => by rw [h.un k hk, he _ (by omega) (by omega)], fun j hj => by rw [h.up j hj, he _ (by omega) (by omega)], h.lt⟩

end Webp.Proofs.C04RefineResid
