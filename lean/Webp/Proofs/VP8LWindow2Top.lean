import Webp.Proofs.VP8LWindow2Loop
/-
  The WINDOW BUDGET, part 8: `readHuffmanCodeLengths` and `readHuffmanCode` as a whole against the
  specification's `readCodeLengths` / `readCodeLengthVector`.
-/
namespace Webp.Proofs.VP8LWindow
open Webp.Go (Res)
open Webp.Spec.VP8L (BitReader Err Code pushN readCodeLengthsLoop readCodeLengths readCodeLengthCodeLengths
  readCodeLengthVector buildCode)
open Webp.Impl.VP8LEntropy
open Webp.Impl.VP8LWindow
open Webp.Proofs.VP8LEntropyBits
open Webp.Proofs.VP8LEntropyReader

/-- a whole function of the code reading against the specification's: the same value with a
    consistent window (register position `≤ k`) at the specification's position — or both fail
    (Go has the single error `ErrBitstream`; the model's class may differ once the end of the
    input was passed) -/
def TopOut {α : Type} (buf : Array UInt8) (k : Nat) (go : Res Err (α × Reader)) (sp : Res Err (α × BitReader)) : Prop :=
  match sp with
  | .ok (a, br') => ∃ r' P', go = .ok (a, r') ∧ br' = brAt buf P' ∧ Good buf r' P' k
  | .err _ => ∃ e', go = .err e'
  | .panic => True
  | .hang => True

theorem readBits_lt (r : Reader) (n : Nat) (hn : n ≤ 24) : (r.readBits n).1.toNat < 2 ^ n := by
  by_cases he : r.eos = true
  · rw [(readBits_eos r n he).1]; exact Nat.pow_pos (by decide)
  · have he' : r.eos = false := by cases hh : r.eos <;> simp_all
    rw [readBits_val r n he' hn]
    exact Nat.mod_lt _ (Nat.pow_pos (by decide))

theorem u32_eq_iff (v : UInt32) (n : Nat) (hn : n < 2 ^ 32) : v = UInt32.ofNat n ↔ v.toNat = n := by
  constructor
  · intro h; rw [h, UInt32.toNat_ofNat', Nat.mod_eq_of_lt hn]
  · intro h
    apply UInt32.toNat_inj.mp
    rw [h, UInt32.toNat_ofNat', Nat.mod_eq_of_lt hn]

theorem u32_eq_one (v : UInt32) : v = 1 ↔ v.toNat = 1 := u32_eq_iff v 1 (by decide)
theorem u32_eq_zero (v : UInt32) : v = 0 ↔ v.toNat = 0 := u32_eq_iff v 0 (by decide)

/-! ## `readHuffmanCodeLengths` -/

theorem finishCode_go (cl : Array Nat) (r : Reader) :
    finishCode goOps2 cl r = if r.isEndOfStream = true then .err .eos else .ok (cl, r) := rfl

theorem clTail_go (t : Table) (A ms : Nat) (r : Reader) :
    clTail goOps2 t A ms r =
      match clLoop goOps2 t A ms { codeLengths := Array.replicate A 0, symbol := 0, prev := 8 } r with
      | .ok (st, r) => if r.isEndOfStream = true then .err .eos else .ok (st.codeLengths, r)
      | .err e => .err e
      | .panic => .panic
      | .hang => .hang := by
  unfold clTail
  simp only [goOps2_note, goOps2_eos]
  cases clLoop goOps2 t A ms { codeLengths := Array.replicate A 0, symbol := 0, prev := 8 } r <;> rfl

theorem clMaxSymbol_go (A : Nat) (r : Reader) :
    clMaxSymbol goOps2 A r =
      if (r.readBits 1).1 = 1 then
        if 2 + (((r.readBits 1).2.readBits 3).2.readBits (2 + 2 * ((r.readBits 1).2.readBits 3).1.toNat)).1.toNat > A then
          .err .maxSymbol
        else .ok (2 + (((r.readBits 1).2.readBits 3).2.readBits (2 + 2 * ((r.readBits 1).2.readBits 3).1.toNat)).1.toNat,
              (((r.readBits 1).2.readBits 3).2.readBits (2 + 2 * ((r.readBits 1).2.readBits 3).1.toNat)).2)
      else .ok (A, (r.readBits 1).2) := rfl

theorem readCodeLengthsGo_go (t : Table) (A : Nat) (r : Reader) :
    readCodeLengthsGo goOps2 t A r =
      if (r.readBits 1).1 = 1 then
        if 2 + (((r.readBits 1).2.readBits 3).2.readBits (2 + 2 * ((r.readBits 1).2.readBits 3).1.toNat)).1.toNat > A then
          .err .maxSymbol
        else clTail goOps2 t A
          (2 + (((r.readBits 1).2.readBits 3).2.readBits (2 + 2 * ((r.readBits 1).2.readBits 3).1.toNat)).1.toNat)
          (((r.readBits 1).2.readBits 3).2.readBits (2 + 2 * ((r.readBits 1).2.readBits 3).1.toNat)).2
      else clTail goOps2 t A A (r.readBits 1).2 := by
  unfold readCodeLengthsGo
  rw [clMaxSymbol_go]
  by_cases h1 : (r.readBits 1).1 = 1
  · rw [if_pos h1, if_pos h1]
    by_cases h2 : 2 + (((r.readBits 1).2.readBits 3).2.readBits (2 + 2 * ((r.readBits 1).2.readBits 3).1.toNat)).1.toNat > A
    · rw [if_pos h2, if_pos h2]
    · rw [if_neg h2, if_neg h2]
  · rw [if_neg h1, if_neg h1]

/-- `if cnd then err else x` fails when `x` fails -/
theorem ite_err {α : Type} (cnd : Prop) [Decidable cnd] (e : Err) (x : Res Err α) (h : ∃ e', x = .err e') :
    ∃ e', (if cnd then (.err e : Res Err α) else x) = .err e' := by
  by_cases hc : cnd
  · rw [if_pos hc]; exact ⟨_, rfl⟩
  · rw [if_neg hc]; exact h

section lengths
variable {c : Code} {t : Table} (hT : CLTab c t) {buf : Array UInt8} (A : Nat)
include hT

theorem clTail_doomed (ms : Nat) {r : Reader} (hd : Doomed r) : ∃ e, clTail goOps2 t A ms r = .err e := by
  rw [clTail_go]
  rcases clLoop_doomed hT (A := A) ms _ r hd with ⟨e, h⟩ | ⟨st, r', h, hd'⟩
  · rw [h]; exact ⟨e, rfl⟩
  · rw [h]
    unfold Doomed at hd'
    simp only [hd', if_true]
    exact ⟨_, rfl⟩

theorem clTail_agree (ms : Nat) {r : Reader} {P : Nat} (hg : Good buf r P 39) :
    TopOut buf 39 (clTail goOps2 t A ms r)
      (readCodeLengthsLoop c A ms 8 (Array.emptyWithCapacity A) (brAt buf P)) := by
  have hrel : CLRel A { codeLengths := Array.replicate A 0, symbol := 0, prev := 8 } (Array.emptyWithCapacity A) 8 :=
    ⟨rfl, Nat.zero_le _, by simp [pad], rfl⟩
  have h := clLoop_agree hT (A := A) ms _ _ 8 r P hg hrel
  rw [clTail_go]
  cases hsp : readCodeLengthsLoop c A ms 8 (Array.emptyWithCapacity A) (brAt buf P) with
  | ok x =>
    obtain ⟨lens, br'⟩ := x
    rw [hsp] at h
    obtain ⟨st', r', P', hgo, hl, hbr, hg'⟩ := h
    rw [hgo]
    simp only [hg'.not_eos (by omega), Bool.false_eq_true, if_false]
    exact ⟨r', P', by rw [hl], hbr, hg'⟩
  | err e =>
    rw [hsp] at h
    show ∃ e', _ = Res.err e'
    rcases h with h | ⟨_, ⟨e', h⟩ | ⟨st', r', h, hd⟩⟩
    · rw [h]; exact ⟨_, rfl⟩
    · rw [h]; exact ⟨_, rfl⟩
    · rw [h]
      unfold Doomed at hd
      simp only [hd, if_true]
      exact ⟨_, rfl⟩
  | panic => trivial
  | hang => trivial

theorem readCodeLengthsGo_doomed {r : Reader} (hd : Doomed r) : ∃ e, readCodeLengthsGo goOps2 t A r = .err e := by
  rw [readCodeLengthsGo_go]
  have d1 := doomed_readBits hd 1
  have d3 := doomed_readBits (doomed_readBits d1 3) (2 + 2 * ((r.readBits 1).2.readBits 3).1.toNat)
  by_cases hb : (r.readBits 1).1 = 1
  · rw [if_pos hb]
    exact ite_err _ _ _ (clTail_doomed hT A _ d3)
  · rw [if_neg hb]
    exact clTail_doomed hT A _ d1

theorem readCodeLengthsGo_agree {r : Reader} {P : Nat} (hg : Good buf r P 39) :
    TopOut buf 39 (readCodeLengthsGo goOps2 t A r) (readCodeLengths c A (brAt buf P)) := by
  rw [readCodeLengthsGo_go]
  unfold readCodeLengths
  simp only [bind, Res.bind, pure]
  rcases readBits_good hg 1 (by omega) (by omega) with ⟨h1, g1⟩ | ⟨h1, d1⟩
  swap
  · rw [h1]
    show ∃ e', _ = Res.err e'
    have d3 := doomed_readBits (doomed_readBits d1 3) (2 + 2 * ((r.readBits 1).2.readBits 3).1.toNat)
    by_cases hb : (r.readBits 1).1 = 1
    · rw [if_pos hb]; exact ite_err _ _ _ (clTail_doomed hT A _ d3)
    · rw [if_neg hb]; exact clTail_doomed hT A _ d1
  rw [h1]
  simp only
  by_cases hb : (r.readBits 1).1 = 1
  · rw [if_pos hb, if_pos ((u32_eq_one _).mp hb)]
    rcases readBits_good g1 3 (by omega) (by omega) with ⟨h3, g3⟩ | ⟨h3, d3⟩
    swap
    · rw [h3]
      show ∃ e', _ = Res.err e'
      have d4 := doomed_readBits d3 (2 + 2 * ((r.readBits 1).2.readBits 3).1.toNat)
      exact ite_err _ _ _ (clTail_doomed hT A _ d4)
    rw [h3]
    simp only
    have hn3 := readBits_lt (r.readBits 1).2 3 (by omega)
    rcases readBits_good g3 (2 + 2 * ((r.readBits 1).2.readBits 3).1.toNat) (by omega) (by omega) with ⟨h4, g4⟩ | ⟨h4, d4⟩
    swap
    · rw [h4]
      show ∃ e', _ = Res.err e'
      exact ite_err _ _ _ (clTail_doomed hT A _ d4)
    rw [h4]
    simp only
    by_cases hov : 2 + (((r.readBits 1).2.readBits 3).2.readBits (2 + 2 * ((r.readBits 1).2.readBits 3).1.toNat)).1.toNat > A
    · rw [if_pos hov, if_pos hov]; exact ⟨_, rfl⟩
    · rw [if_neg hov, if_neg hov]
      exact clTail_agree hT A _ (g4.mono (by omega))
  · rw [if_neg hb, if_neg (fun h => hb ((u32_eq_one _).mpr h))]
    exact clTail_agree hT A _ (g1.mono (by omega))

end lengths

/-! ## `readHuffmanCode` -/

theorem readHuffmanCodeLens_go (A : Nat) (r : Reader) :
    readHuffmanCodeLens goOps2 A r =
      if (r.readBits 1).1 = 1 then readSimpleCode goOps2 A (r.readBits 1).2
      else readNormalCode goOps2 A (r.readBits 1).2 := rfl

theorem readSimpleCode_go (A : Nat) (r : Reader) :
    readSimpleCode goOps2 A r =
      if (((r.readBits 1).2.readBits 1).2.readBits (if ((r.readBits 1).2.readBits 1).1 = 0 then 1 else 8)).1.toNat ≥ A then
        .err .codeSymbolRange
      else
        if (r.readBits 1).1.toNat + 1 = 2 then
          if ((((r.readBits 1).2.readBits 1).2.readBits (if ((r.readBits 1).2.readBits 1).1 = 0 then 1 else 8)).2.readBits 8).1.toNat ≥ A then
            .err .codeSymbolRange
          else
            finishCode goOps2
              (((Array.replicate A 0).setIfInBounds
                (((r.readBits 1).2.readBits 1).2.readBits (if ((r.readBits 1).2.readBits 1).1 = 0 then 1 else 8)).1.toNat 1).setIfInBounds
                ((((r.readBits 1).2.readBits 1).2.readBits (if ((r.readBits 1).2.readBits 1).1 = 0 then 1 else 8)).2.readBits 8).1.toNat 1)
              ((((r.readBits 1).2.readBits 1).2.readBits (if ((r.readBits 1).2.readBits 1).1 = 0 then 1 else 8)).2.readBits 8).2
        else
          finishCode goOps2
            ((Array.replicate A 0).setIfInBounds
              (((r.readBits 1).2.readBits 1).2.readBits (if ((r.readBits 1).2.readBits 1).1 = 0 then 1 else 8)).1.toNat 1)
            (((r.readBits 1).2.readBits 1).2.readBits (if ((r.readBits 1).2.readBits 1).1 = 0 then 1 else 8)).2 := rfl

/-! ### the code-length-code lengths -/

/-- all entries `≤ 7` (as `getElem?`, robust under `setIfInBounds`) -/
def Le7 (a : Array Nat) : Prop := ∀ (j v : Nat), a[j]? = some v → v ≤ 7

theorem le7_set {a : Array Nat} (h : Le7 a) (i v : Nat) (hv : v ≤ 7) : Le7 (a.setIfInBounds i v) := by
  intro j x hx
  rw [Array.getElem?_setIfInBounds] at hx
  by_cases hij : i = j
  · rw [if_pos hij] at hx
    split at hx
    · injection hx with hx; omega
    · cases hx
  · rw [if_neg hij] at hx; exact h j x hx

theorem le7_mem {a : Array Nat} (h : Le7 a) : ∀ x ∈ a, x ≤ 7 := by
  intro x hx
  obtain ⟨i, hi, rfl⟩ := Array.mem_iff_getElem.mp hx
  exact h i _ (Array.getElem?_eq_getElem hi)

theorem clclLoop_succ_go (n i : Nat) (a : Array Nat) (r : Reader) :
    clclLoop goOps2 (n + 1) i a r =
      clclLoop goOps2 n (i + 1) (a.setIfInBounds (codeLengthCodeOrder.getD i 0) (r.readBits 3).1.toNat) (r.readBits 3).2 := rfl

theorem readNormalCode_go (A : Nat) (r : Reader) :
    readNormalCode goOps2 A r =
      normalTail goOps2 A
        (clclLoop goOps2 (if (r.readBits 4).1.toNat + 4 > 19 then 19 else (r.readBits 4).1.toNat + 4)
          0 (Array.replicate 19 0) (r.readBits 4).2).1
        (clclLoop goOps2 (if (r.readBits 4).1.toNat + 4 > 19 then 19 else (r.readBits 4).1.toNat + 4)
          0 (Array.replicate 19 0) (r.readBits 4).2).2 := rfl

theorem normalTail_ok {A : Nat} {cl : Array Nat} {t : Table} (ht : buildTable 7 cl = .ok t) (r : Reader) :
    normalTail goOps2 A cl r =
      match readCodeLengthsGo goOps2 t A r with
      | .ok (codeLengths, r) => finishCode goOps2 codeLengths r
      | .err e => .err e
      | .panic => .panic
      | .hang => .hang := by
  unfold normalTail
  rw [ht]
  simp only [goOps2_note]
  cases readCodeLengthsGo goOps2 t A r with
  | ok x => rfl
  | err e => rfl
  | panic => rfl
  | hang => rfl

theorem normalTail_err {A : Nat} {cl : Array Nat} {e : TErr} (ht : buildTable 7 cl = .err e) (r : Reader) :
    normalTail goOps2 A cl r = .err (tErr e) := by
  unfold normalTail
  rw [ht]

theorem clclLoop_shape (n : Nat) : ∀ (i : Nat) (a : Array Nat) (r : Reader), a.size = 19 → Le7 a →
    (clclLoop goOps2 n i a r).1.size = 19 ∧ Le7 (clclLoop goOps2 n i a r).1 := by
  induction n with
  | zero => intro i a r h1 h2; exact ⟨h1, h2⟩
  | succ n ih =>
    intro i a r h1 h2
    have hlt := readBits_lt r 3 (by omega)
    rw [clclLoop_succ_go]
    exact ih (i + 1) _ (r.readBits 3).2 (by simpa using h1) (le7_set h2 _ _ (by omega))

theorem clclLoop_doomed (n : Nat) : ∀ (i : Nat) (a : Array Nat) (r : Reader), Doomed r →
    Doomed (clclLoop goOps2 n i a r).2 := by
  induction n with
  | zero => intro i a r h; exact h
  | succ n ih => intro i a r h; rw [clclLoop_succ_go]; exact ih (i + 1) _ (r.readBits 3).2 (doomed_readBits h 3)

/-- the `numCodes` loop against the specification's `readCodeLengthCodeLengths` -/
theorem clclLoop_agree (buf : Array UInt8) (n : Nat) : ∀ (i : Nat) (a : Array Nat) (r : Reader) (P : Nat),
    Good buf r P 7 →
    match readCodeLengthCodeLengths n i a (brAt buf P) with
    | .ok (a', br') => (clclLoop goOps2 n i a r).1 = a' ∧
        ∃ P', br' = brAt buf P' ∧ Good buf (clclLoop goOps2 n i a r).2 P' 7
    | .err _ => Doomed (clclLoop goOps2 n i a r).2
    | .panic => True
    | .hang => True := by
  induction n with
  | zero => intro i a r P hg; exact ⟨rfl, P, rfl, hg⟩
  | succ n ih =>
    intro i a r P hg
    rw [readCodeLengthCodeLengths, clclLoop_succ_go]
    rcases readBits_good hg 3 (by omega) (by omega) with ⟨h, g⟩ | ⟨h, d⟩
    · rw [h]
      exact ih (i + 1) _ (r.readBits 3).2 (P + 3) g
    · rw [h]
      exact clclLoop_doomed n (i + 1) _ (r.readBits 3).2 d

theorem le7_replicate : Le7 (Array.replicate 19 0) := by
  intro j v h
  have : (Array.replicate 19 0)[j]? = if j < 19 then some 0 else none := by
    by_cases hj : j < 19
    · rw [if_pos hj, Array.getElem?_eq_getElem (by simpa using hj)]; simp
    · rw [if_neg hj, Array.getElem?_eq_none (by simpa using hj)]
  rw [this] at h
  split at h
  · injection h with h; omega
  · cases h

open Webp.Proofs.VP8LEntropyTableF in
/-- `BuildHuffmanTable(7, ·)` accepts exactly what the specification's `buildCode` accepts, and does
    neither panic nor hang -/
theorem buildTable7_cases (cl : Array Nat) :
    (∃ c t, buildCode cl = .ok c ∧ buildTable 7 cl = .ok t) ∨
    (∃ e e', buildCode cl = .err e ∧ buildTable 7 cl = .err e') := by
  cases hb : buildCode cl with
  | ok c =>
    obtain ⟨t, ht⟩ := buildTable_ok_of_buildCode hb 7 (by omega) (by omega)
    exact Or.inl ⟨c, t, rfl, ht⟩
  | err e =>
    obtain ⟨e', he'⟩ := buildTable_err_of_buildCode hb 7 (by omega)
    exact Or.inr ⟨e, e', rfl, he'⟩
  | panic =>
    exfalso; unfold buildCode at hb
    split at hb; · cases hb
    simp only at hb
    split at hb; · cases hb
    split at hb; · cases hb
    split at hb <;> cases hb
  | hang =>
    exfalso; unfold buildCode at hb
    split at hb; · cases hb
    simp only at hb
    split at hb; · cases hb
    split at hb; · cases hb
    split at hb <;> cases hb

/-! ### the two branches -/

theorem finishCode_doomed (cl : Array Nat) {r : Reader} (hd : Doomed r) : finishCode goOps2 cl r = .err .eos := by
  unfold Doomed at hd
  rw [finishCode_go, if_pos hd]

theorem readSimpleCode_doomed (A : Nat) {r : Reader} (hd : Doomed r) : ∃ e, readSimpleCode goOps2 A r = .err e := by
  rw [readSimpleCode_go]
  have d1 := doomed_readBits hd 1
  have d2 := doomed_readBits d1 1
  have d3 := doomed_readBits d2 (if ((r.readBits 1).2.readBits 1).1 = 0 then 1 else 8)
  have d4 := doomed_readBits d3 8
  refine ite_err _ _ _ ?_
  by_cases h2 : (r.readBits 1).1.toNat + 1 = 2
  · rw [if_pos h2]
    exact ite_err _ _ _ ⟨_, finishCode_doomed _ d4⟩
  · rw [if_neg h2]
    exact ⟨_, finishCode_doomed _ d3⟩

theorem readNormalCode_doomed (A : Nat) {r : Reader} (hd : Doomed r) : ∃ e, readNormalCode goOps2 A r = .err e := by
  rw [readNormalCode_go]
  have d1 := doomed_readBits hd 4
  generalize (if (r.readBits 4).1.toNat + 4 > 19 then 19 else (r.readBits 4).1.toNat + 4) = nc
  have dd := clclLoop_doomed nc 0 (Array.replicate 19 0) (r.readBits 4).2 d1
  obtain ⟨hsz, h7⟩ := clclLoop_shape nc 0 (Array.replicate 19 0) (r.readBits 4).2 (by simp) le7_replicate
  generalize clclLoop goOps2 nc 0 (Array.replicate 19 0) (r.readBits 4).2 = x at dd hsz h7
  obtain ⟨cl, rc⟩ := x
  dsimp only at dd hsz h7 ⊢
  rcases buildTable7_cases cl with ⟨c, t, hc, ht⟩ | ⟨e, e', _, he'⟩
  · rw [normalTail_ok ht]
    obtain ⟨e, he⟩ := readCodeLengthsGo_doomed (clTab_of_build hc ht hsz (le7_mem h7)) A dd
    rw [he]
    exact ⟨e, rfl⟩
  · rw [normalTail_err he']; exact ⟨_, rfl⟩

theorem readHuffmanCodeLens_doomed (A : Nat) {r : Reader} (hd : Doomed r) :
    ∃ e, readHuffmanCodeLens goOps2 A r = .err e := by
  rw [readHuffmanCodeLens_go]
  have d1 := doomed_readBits hd 1
  by_cases h : (r.readBits 1).1 = 1
  · rw [if_pos h]; exact readSimpleCode_doomed A d1
  · rw [if_neg h]; exact readNormalCode_doomed A d1

/-- the simple-code branch fails as soon as the reader behind the first symbol has passed the end -/
theorem readSimpleCode_fail (A : Nat) {r : Reader}
    (d3 : Doomed (((r.readBits 1).2.readBits 1).2.readBits (if ((r.readBits 1).2.readBits 1).1 = 0 then 1 else 8)).2) :
    ∃ e, readSimpleCode goOps2 A r = .err e := by
  rw [readSimpleCode_go]
  have d4 := doomed_readBits d3 8
  refine ite_err _ _ _ ?_
  by_cases h2 : (r.readBits 1).1.toNat + 1 = 2
  · rw [if_pos h2]
    exact ite_err _ _ _ ⟨_, finishCode_doomed _ d4⟩
  · rw [if_neg h2]
    exact ⟨_, finishCode_doomed _ d3⟩

theorem finishCode_good {buf : Array UInt8} {r : Reader} {P k : Nat} (hg : Good buf r P k) (hk : k ≤ 64)
    (cl : Array Nat) : finishCode goOps2 cl r = .ok (cl, r) := by
  rw [finishCode_go, hg.not_eos hk]
  simp

/-- **`readHuffmanCode` (code lengths) = the specification's `readCodeLengthVector`**, from any window
    state in which one more bit fits (register position `≤ 63`) -/
theorem readHuffmanCodeLens_agree {buf : Array UInt8} (A : Nat) {r : Reader} {P : Nat} (hg : Good buf r P 63) :
    TopOut buf 39 (readHuffmanCodeLens goOps2 A r) (readCodeLengthVector A (brAt buf P)) := by
  rw [readHuffmanCodeLens_go]
  unfold readCodeLengthVector
  simp only [bind, Res.bind, pure]
  rcases readBits_good hg 1 (by omega) (by omega) with ⟨h1, g1⟩ | ⟨h1, d1⟩
  swap
  · rw [h1]
    show ∃ e', _ = Res.err e'
    by_cases hb : (r.readBits 1).1 = 1
    · rw [if_pos hb]; exact readSimpleCode_doomed A d1
    · rw [if_neg hb]; exact readNormalCode_doomed A d1
  rw [h1]
  simp only
  generalize (r.readBits 1).2 = r1 at g1
  by_cases hb : (r.readBits 1).1 = 1
  · -- simple code
    rw [if_pos hb, if_pos ((u32_eq_one _).mp hb)]
    rcases readBits_good g1 1 (by omega) (by omega) with ⟨h2, g2⟩ | ⟨h2, d2⟩
    swap
    · rw [h2]
      exact readSimpleCode_fail A (doomed_readBits (doomed_readBits d2 1) _)
    rw [h2]
    simp only
    rcases readBits_good g2 1 (by omega) (by omega) with ⟨h3, g3⟩ | ⟨h3, d3⟩
    swap
    · rw [h3]
      exact readSimpleCode_fail A (doomed_readBits d3 _)
    rw [h3]
    simp only
    have hf := readBits_lt (r1.readBits 1).2 1 (by omega)
    have hbits : 1 + 7 * ((r1.readBits 1).2.readBits 1).1.toNat =
        (if ((r1.readBits 1).2.readBits 1).1 = 0 then 1 else 8) := by
      by_cases h0 : ((r1.readBits 1).2.readBits 1).1 = 0
      · rw [if_pos h0, (u32_eq_zero _).mp h0]
      · rw [if_neg h0]
        have : ((r1.readBits 1).2.readBits 1).1.toNat ≠ 0 := fun h => h0 ((u32_eq_zero _).mpr h)
        have : ((r1.readBits 1).2.readBits 1).1.toNat = 1 := by omega
        rw [this]
    rw [hbits]
    generalize hsb : (if ((r1.readBits 1).2.readBits 1).1 = 0 then 1 else 8) = sb
    have hsb8 : sb ≤ 8 := by rw [← hsb]; split <;> omega
    rcases readBits_good g3 sb (by omega) (by omega) with ⟨h4, g4⟩ | ⟨h4, d4⟩
    swap
    · rw [h4]
      exact readSimpleCode_fail A (by rw [hsb]; exact d4)
    rw [h4]
    simp only
    rw [readSimpleCode_go, hsb]
    by_cases hr : (((r1.readBits 1).2.readBits 1).2.readBits sb).1.toNat ≥ A
    · rw [if_pos hr, if_pos hr]; exact ⟨_, rfl⟩
    rw [if_neg hr, if_neg hr]
    by_cases hn2 : (r1.readBits 1).1.toNat = 1
    · rw [if_pos hn2, if_pos (by omega)]
      rcases readBits_good g4 8 (by omega) (by omega) with ⟨h5, g5⟩ | ⟨h5, d5⟩
      swap
      · rw [h5]
        exact ite_err _ _ _ ⟨_, finishCode_doomed _ d5⟩
      rw [h5]
      simp only
      by_cases hr2 : ((((r1.readBits 1).2.readBits 1).2.readBits sb).2.readBits 8).1.toNat ≥ A
      · rw [if_pos hr2, if_pos hr2]; exact ⟨_, rfl⟩
      rw [if_neg hr2, if_neg hr2, finishCode_good g5 (by omega)]
      exact ⟨_, _, rfl, rfl, g5.mono (by omega)⟩
    · rw [if_neg hn2, if_neg (by omega), finishCode_good g4 (by omega)]
      exact ⟨_, _, rfl, rfl, g4.mono (by omega)⟩
  · -- normal code
    rw [if_neg hb, if_neg (fun h => hb ((u32_eq_one _).mpr h))]
    rw [readNormalCode_go]
    rcases readBits_good g1 4 (by omega) (by omega) with ⟨h2, g2⟩ | ⟨h2, d2⟩
    swap
    · rw [h2]
      have := readNormalCode_doomed A (r := r1)
      -- the 4-bit read ran past the end: the loop keeps it, and whatever follows fails
      show ∃ e', _ = Res.err e'
      generalize (if (r1.readBits 4).1.toNat + 4 > 19 then 19 else (r1.readBits 4).1.toNat + 4) = nc
      have dd := clclLoop_doomed nc 0 (Array.replicate 19 0) (r1.readBits 4).2 d2
      obtain ⟨hsz, h7⟩ := clclLoop_shape nc 0 (Array.replicate 19 0) (r1.readBits 4).2 (by simp) le7_replicate
      generalize clclLoop goOps2 nc 0 (Array.replicate 19 0) (r1.readBits 4).2 = x at dd hsz h7
      obtain ⟨cl, rc⟩ := x
      dsimp only at dd hsz h7 ⊢
      rcases buildTable7_cases cl with ⟨c, t, hc, ht⟩ | ⟨e, e', _, he'⟩
      · rw [normalTail_ok ht]
        obtain ⟨e, he⟩ := readCodeLengthsGo_doomed (clTab_of_build hc ht hsz (le7_mem h7)) A dd
        rw [he]
        exact ⟨e, rfl⟩
      · rw [normalTail_err he']; exact ⟨_, rfl⟩
    rw [h2]
    simp only
    have hn4 := readBits_lt r1 4 (by omega)
    have hnc : (if (r1.readBits 4).1.toNat + 4 > 19 then 19 else (r1.readBits 4).1.toNat + 4) = 4 + (r1.readBits 4).1.toNat := by
      rw [if_neg (by omega)]; omega
    rw [hnc]
    have e19 : Webp.Spec.VP8L.numCodeLengthCodes = 19 := rfl
    rw [e19]
    have hcl := clclLoop_agree buf (4 + (r1.readBits 4).1.toNat) 0 (Array.replicate 19 0) (r1.readBits 4).2 (P + 1 + 4) g2
    obtain ⟨hsz, h7⟩ := clclLoop_shape (4 + (r1.readBits 4).1.toNat) 0 (Array.replicate 19 0) (r1.readBits 4).2 (by simp)
      le7_replicate
    generalize clclLoop goOps2 (4 + (r1.readBits 4).1.toNat) 0 (Array.replicate 19 0) (r1.readBits 4).2 = x at hcl hsz h7
    obtain ⟨cl, rc⟩ := x
    dsimp only at hcl hsz h7 ⊢
    cases hsp : readCodeLengthCodeLengths (4 + (r1.readBits 4).1.toNat) 0 (Array.replicate 19 0) (brAt buf (P + 1 + 4)) with
    | ok y =>
      obtain ⟨cl', br'⟩ := y
      rw [hsp] at hcl
      obtain ⟨hcleq, P', hbr, g3⟩ := hcl
      subst hcleq
      simp only
      rcases buildTable7_cases cl with ⟨c, t, hc, ht⟩ | ⟨e, e', he, he'⟩
      · rw [hc, normalTail_ok ht]
        simp only
        have hT := clTab_of_build hc ht hsz (le7_mem h7)
        have hrl := readCodeLengthsGo_agree hT (buf := buf) A (g3.mono (by omega : 7 ≤ 39))
        rw [hbr]
        cases hs2 : readCodeLengths c A (brAt buf P') with
        | ok z =>
          obtain ⟨lens, br2⟩ := z
          rw [hs2] at hrl
          obtain ⟨r', P2, hgo, hbr2, g4⟩ := hrl
          rw [hgo]
          simp only
          rw [finishCode_good g4 (by omega)]
          exact ⟨r', P2, rfl, hbr2, g4⟩
        | err e =>
          rw [hs2] at hrl
          obtain ⟨e', hgo⟩ := hrl
          rw [hgo]
          exact ⟨e', rfl⟩
        | panic => trivial
        | hang => trivial
      · rw [he, normalTail_err he']
        exact ⟨_, rfl⟩
    | err e =>
      rw [hsp] at hcl
      show ∃ e', _ = Res.err e'
      rcases buildTable7_cases cl with ⟨c, t, hc, ht⟩ | ⟨e1, e', _, he'⟩
      · rw [normalTail_ok ht]
        obtain ⟨e2, he2⟩ := readCodeLengthsGo_doomed (clTab_of_build hc ht hsz (le7_mem h7)) A hcl
        rw [he2]
        exact ⟨e2, rfl⟩
      · rw [normalTail_err he']; exact ⟨_, rfl⟩
    | panic => trivial
    | hang => trivial

end Webp.Proofs.VP8LWindow
