import Webp.Proofs.ImportSites
/-
  C19: lossy.imageHasAlpha (AND reduction), cleanupTransparentAreaLossyWith copy-in, sharpYUVConvert.
-/
namespace Webp.Proofs.Import
open Webp.Go Webp.Impl.Import

/-! ### lossy.imageHasAlpha -/

theorem and_eq_ff (a b : UInt8) : a &&& b = 0xff ↔ a = 0xff ∧ b = 0xff := by
  constructor
  · intro h
    have h' : a.toNat &&& b.toNat = 255 := by
      rw [← UInt8.toNat_and, h]; rfl
    have h1 : a.toNat &&& b.toNat ≤ a.toNat := Nat.and_le_left
    have h2 : a.toNat &&& b.toNat ≤ b.toNat := Nat.and_le_right
    have ha := a.toNat_lt
    have hb := b.toNat_lt
    constructor
    · apply UInt8.toNat_inj.mp; show a.toNat = 255; omega
    · apply UInt8.toNat_inj.mp; show b.toNat = 255; omega
  · rintro ⟨rfl, rfl⟩; rfl

theorem all_lt_succ (p : Nat → Prop) (n : Nat) : (∀ x, x < n + 1 → p x) ↔ (∀ x, x < n → p x) ∧ p n := by
  constructor
  · intro h; exact ⟨fun x hx => h x (by omega), h n (by omega)⟩
  · intro ⟨h1, h2⟩ x hx
    by_cases hxn : x = n
    · subst hxn; exact h2
    · exact h1 x (by omega)

theorem any_ne_iff (n : Nat) (al : Nat → UInt8) :
    ((List.range n).any fun x => al x != 255) = true ↔ ¬ ∀ x, x < n → al x = 255 := by
  simp only [List.any_eq_true, List.mem_range, bne_iff_ne, ne_eq]
  constructor
  · intro ⟨x, hx, hne⟩ h; exact hne (h x hx)
  · intro h
    apply Classical.byContradiction
    intro hc
    apply h
    intro x hx
    apply Classical.byContradiction
    intro hne
    exact hc ⟨x, hx, hne⟩

theorem lossyHasAlphaFast_spec (img : Img) (v : Valid img) :
    lossyHasAlphaFast img = .ok (anyAlpha img.rel img.w img.h) := by
  unfold lossyHasAlphaFast anyAlpha
  have hdy : img.bounds.maxY - img.bounds.minY = (img.h : Int) := v.dy_eq
  rw [forRangeI_eq _ _ img.h hdy]
  apply forN_any
  · intro y hy
    simp only [Bool.false_eq_true, if_false, Valid.bdx_eq v, Int.toNat_natCast]
    have hy' : (img.bounds.minY + (y : Int) - img.rect.minY) * img.stride
        + (img.bounds.minX - img.rect.minX) * 4 = (y : Int) * img.stride := by
      simp only [Img.bounds]
      have h1 : img.rect.minY + (y : Int) - img.rect.minY = y := by omega
      have h2 : img.rect.minX - img.rect.minX = 0 := by omega
      rw [h1, h2]; simp
    rw [hy']
    refine forN_inv_bind
      (fun i (st : UInt8 × Int) =>
        st.2 = (y : Int) * img.stride + 16 * (i : Int) ∧
        (st.1 = 0xff ↔ ∀ x, x < 4 * i → (img.rel x y).a = 255))
      ⟨by simp, by simp⟩ ?_ ?_
    · intro i st hi ⟨ho, hacc⟩
      have hx0 : 4 * i < img.w := by omega
      have hx1 : 4 * i + 1 < img.w := by omega
      have hx2 : 4 * i + 2 < img.w := by omega
      have hx3 : 4 * i + 3 < img.w := by omega
      have e0 : st.2 + 3 = (y : Int) * img.stride + ((4 * i : Nat) : Int) * 4 + 3 := by rw [ho]; push_cast; omega
      have e1 : st.2 + 7 = (y : Int) * img.stride + ((4 * i + 1 : Nat) : Int) * 4 + 3 := by rw [ho]; push_cast; omega
      have e2 : st.2 + 11 = (y : Int) * img.stride + ((4 * i + 2 : Nat) : Int) * 4 + 3 := by rw [ho]; push_cast; omega
      have e3 : st.2 + 15 = (y : Int) * img.stride + ((4 * i + 3 : Nat) : Int) * 4 + 3 := by rw [ho]; push_cast; omega
      refine ⟨_, by rw [e0, e1, e2, e3, ld_a img v hx0 hy, ld_a img v hx1 hy, ld_a img v hx2 hy, ld_a img v hx3 hy]; rfl, ?_, ?_⟩
      · simp only [ho]; push_cast; omega
      · simp only [and_eq_ff, hacc]
        have : 4 * (i + 1) = 4 * i + 1 + 1 + 1 + 1 := by omega
        rw [this, all_lt_succ, all_lt_succ, all_lt_succ, all_lt_succ]
    · intro s1 ⟨ho1, hacc1⟩
      refine forN_inv_eq
        (fun j (st : UInt8 × Int) =>
          st.2 = (y : Int) * img.stride + 4 * ((4 * (img.w / 4) + j : Nat) : Int) ∧
          (st.1 = 0xff ↔ ∀ x, x < 4 * (img.w / 4) + j → (img.rel x y).a = 255))
        ⟨by rw [ho1]; push_cast; omega, by simpa using hacc1⟩ ?_ ?_
      · intro j st hj ⟨ho, hacc⟩
        have hx0 : 4 * (img.w / 4) + j < img.w := by omega
        have e0 : st.2 + 3 = (y : Int) * img.stride + ((4 * (img.w / 4) + j : Nat) : Int) * 4 + 3 := by
          rw [ho]; omega
        refine ⟨_, by rw [e0, ld_a img v hx0 hy]; rfl, ?_, ?_⟩
        · simp only [ho]; push_cast; omega
        · simp only [and_eq_ff, hacc]
          rw [← Nat.add_assoc, all_lt_succ]
      · intro s2 ⟨_, hacc2⟩
        have hw : 4 * (img.w / 4) + img.w % 4 = img.w := by omega
        rw [hw] at hacc2
        rw [Bool.eq_iff_iff, any_ne_iff, bne_iff_ne, ne_eq, hacc2]
  · intro y; simp

/-! ### chunked stores -/

theorem wr_nat {α : Type} (buf : Array α) (i : Int) (n : Nat) (hi : i = (n : Int)) (v : α) (h : n < buf.size) :
    wr buf i v = .ok (buf.setIfInBounds n v) := by
  subst hi; exact wr_ok buf n v h

/-- the four stores of one pixel extend a filled prefix of length `4*p` to `4*(p+1)` -/
theorem wrPx_filled {G : Nat → UInt8} {p N : Nat} {dst : Array UInt8} (doff : Int) (c : RGBA8)
    (hd : doff = ((4 * p : Nat) : Int)) (hN : 4 * p + 3 < N) (hf : Filled G (4 * p) dst N)
    (g0 : G (4 * p) = c.r) (g1 : G (4 * p + 1) = c.g) (g2 : G (4 * p + 2) = c.b) (g3 : G (4 * p + 3) = c.a) :
    ∃ dst', wrPx dst doff c = .ok dst' ∧ Filled G (4 * (p + 1)) dst' N := by
  have f1 := hf.set (by omega)
  have f2 := f1.set (by omega)
  have f3 := f2.set (by omega)
  have f4 := f3.set (by omega)
  rw [g0] at f1 f2 f3 f4
  rw [g1] at f2 f3 f4
  rw [g2] at f3 f4
  rw [g3] at f4
  refine ⟨_, ?_, by rw [Nat.mul_add]; exact f4⟩
  unfold wrPx
  rw [wr_nat dst doff (4 * p) hd _ (by rw [hf.1]; omega)]
  simp only [Res.bind_ok]
  rw [wr_nat _ (doff + 1) (4 * p + 1) (by rw [hd]; push_cast; rfl) _ (by rw [f1.1]; omega)]
  simp only [Res.bind_ok]
  rw [wr_nat _ (doff + 2) (4 * p + 2) (by rw [hd]; push_cast; rfl) _ (by rw [f2.1]; omega)]
  simp only [Res.bind_ok]
  rw [wr_nat _ (doff + 3) (4 * p + 3) (by rw [hd]; push_cast; rfl) _ (by rw [f3.1]; omega)]

theorem bytesOf_get (f : Nat → Nat → RGBA8) (w x y : Nat) (hx : x < w) :
    let G := fun i : Nat =>
      let c := f (i / 4 % w) (i / 4 / w)
      match i % 4 with
      | 0 => c.r
      | 1 => c.g
      | 2 => c.b
      | _ => c.a
    G (4 * (y * w + x)) = (f x y).r ∧ G (4 * (y * w + x) + 1) = (f x y).g ∧
    G (4 * (y * w + x) + 2) = (f x y).b ∧ G (4 * (y * w + x) + 3) = (f x y).a := by
  obtain ⟨e1, e2⟩ := divmod_rowmajor w x y hx
  have d0 : 4 * (y * w + x) / 4 = y * w + x := by omega
  have d1 : (4 * (y * w + x) + 1) / 4 = y * w + x := by omega
  have d2 : (4 * (y * w + x) + 2) / 4 = y * w + x := by omega
  have d3 : (4 * (y * w + x) + 3) / 4 = y * w + x := by omega
  have m0 : 4 * (y * w + x) % 4 = 0 := by omega
  have m1 : (4 * (y * w + x) + 1) % 4 = 1 := by omega
  have m2 : (4 * (y * w + x) + 2) % 4 = 2 := by omega
  have m3 : (4 * (y * w + x) + 3) % 4 = 3 := by omega
  simp only [d0, d1, d2, d3, m0, m1, m2, m3, e1, e2, and_self]

/-- two nested loops whose body stores pixel `c x y` with `wrPx` at byte `4*(y*w+x)` produce `bytesOf c` -/
theorem fill2D_px (w h : Nat) (c : Nat → Nat → RGBA8) (body : Nat → Nat → Array UInt8 → R (Array UInt8))
    (hb : ∀ x y a, x < w → y < h → a.size = w * h * 4 →
      body x y a = wrPx a (((4 * (y * w + x) : Nat)) : Int) (c x y))
    (init : Array UInt8) (hsz : init.size = w * h * 4) :
    forN h (fun y a => forN w (fun x a => body x y a) a) init = .ok (bytesOf c w h) := by
  let G := fun i : Nat =>
      let cc := c (i / 4 % w) (i / 4 / w)
      match i % 4 with
      | 0 => cc.r
      | 1 => cc.g
      | 2 => cc.b
      | _ => cc.a
  obtain ⟨a, ha, hf⟩ := forN_inv (fun y a => Filled G (4 * (y * w)) a (w * h * 4)) h _ init
    (by simpa using Filled.zero G init _ hsz)
    (by
      intro y a hy ha
      obtain ⟨a', h1, h2⟩ := forN_inv (fun x a => Filled G (4 * (y * w + x)) a (w * h * 4)) w
        (fun x a => body x y a) a (by simpa using ha)
        (by
          intro x s hx hs
          have hlt : y * w + x < w * h := by
            have : (y + 1) * w ≤ h * w := Nat.mul_le_mul_right w hy
            rw [Nat.mul_comm w h]; rw [Nat.add_mul] at this; omega
          obtain ⟨g0, g1, g2, g3⟩ := bytesOf_get c w x y hx
          rw [hb x y s hx hy hs.1]
          have := wrPx_filled (G := G) (p := y * w + x) (N := w * h * 4) (dst := s) _ (c x y) rfl
            (by omega) hs g0 g1 g2 g3
          simpa only [Nat.add_assoc] using this)
      exact ⟨a', h1, by rw [Nat.add_mul, Nat.one_mul]; exact h2⟩)
  rw [ha]
  have hf' : Filled G (w * h * 4) a (w * h * 4) := by
    have : 4 * (h * w) = w * h * 4 := by rw [Nat.mul_comm h w, Nat.mul_comm]
    rw [this] at hf; exact hf
  exact congrArg Res.ok (Filled.eq_ofFn hf')

/-! ### cleanupTransparentAreaLossyWith: copy-in -/

theorem cleanupCopyRGBA_spec (img : Img) (v : Valid img) (init : Array UInt8)
    (hsz : init.size = img.w * img.h * 4) :
    cleanupCopyRGBA img init = .ok (bytesOf (fun x y => rgbaFastCleanup (img.rel x y)) img.w img.h) := by
  unfold cleanupCopyRGBA
  simp only [rowOff_eq, Valid.bdx_eq v, Valid.bdy_eq v, Int.toNat_natCast]
  refine fill2D_px img.w img.h _ _ ?_ init hsz
  intro x y a hx hy hs
  simp only [ldPx_rel img v hx hy, Res.bind_ok]
  congr 1
  push_cast
  rw [Int.mul_add, Int.mul_comm 4 ((y : Int) * (img.w : Int)), Int.mul_assoc, Int.mul_comm (img.w : Int) 4,
    Int.mul_comm 4 (x : Int)]

theorem cleanupCopyGeneric_spec (atFn : Int → Int → R RGBA8) (b : Rect) (w h : Nat) (f : Nat → Nat → RGBA8)
    (hat : Shows atFn b w h f) (init : Array UInt8) (hsz : init.size = w * h * 4) :
    cleanupCopyGeneric atFn b init = .ok (bytesOf f w h) := by
  obtain ⟨hw, hh, hat⟩ := hat
  unfold cleanupCopyGeneric
  simp only [hw, hh, Int.toNat_natCast]
  refine fill2D_px w h _ _ ?_ init hsz
  intro x y a hx hy hs
  simp only [hat x y hx hy, Res.bind_ok]
  congr 1
  push_cast
  rw [Int.mul_add, Int.mul_comm 4 ((y : Int) * (w : Int)), Int.mul_assoc, Int.mul_comm (w : Int) 4,
    Int.mul_comm 4 (x : Int)]

end Webp.Proofs.Import
