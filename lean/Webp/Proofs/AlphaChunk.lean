import Webp.Proofs.AlphaFilter
/-
  Helper lemmas for property C07: header byte, DecodeAlpha ∘ encodeAlphaInternal, and the
  selection loop of applyFiltersAndEncode.
-/
namespace Webp.Proofs.AlphaChunk
open Webp.Go Webp.Impl.Alpha Webp.Proofs.AlphaFilter

/-! ## header byte -/

theorem unpack_pack : ∀ m, m < 2 → ∀ f, f < 4 → ∀ p, p < 2 →
    unpackHeader (packHeader m f p) = ⟨m, f, p, 0⟩ := by decide

theorem accepted_iff_nat : ∀ n, n < 256 →
    (headerAccepted (UInt8.ofNat n) = true ↔ n % 4 ≤ 1) := by decide +kernel

theorem code_lt (f : Filter) : f.code < 4 := by cases f <;> decide

theorem ofField_code (f : Filter) : Filter.ofField f.code = f := by cases f <;> rfl

theorem pack_method (m : Nat) (hm : m < 2) (f : Filter) (pre : Nat) (hp : pre < 2) :
    (packHeader m f.code pre &&& 3).toNat = m := by
  have := unpack_pack m hm f.code (code_lt f) pre hp
  exact congrArg Header.method this

theorem pack_filter (m : Nat) (hm : m < 2) (f : Filter) (pre : Nat) (hp : pre < 2) :
    ((packHeader m f.code pre >>> 2) &&& 3).toNat = f.code := by
  have := unpack_pack m hm f.code (code_lt f) pre hp
  exact congrArg Header.filter this

/-! ## green channel -/

theorem green_embed_nat : ∀ n, n < 256 → greenOf (embedGreen (UInt8.ofNat n)) = UInt8.ofNat n := by
  decide +kernel

theorem green_embed (a : UInt8) : greenOf (embedGreen a) = a := by
  have := green_embed_nat a.toNat (UInt8.toNat_lt a)
  simpa using this

/-! ## DecodeAlpha on a raw chunk -/

theorem size_filter (f : Filter) (w h : Nat) (a : Plane) (ha : a.size = w * h) :
    (filter f w h a).size = w * h := by
  by_cases hf : f = .none
  · subst hf; exact ha
  · rw [filter_of_ne f hf]; simp

/-- what DecodeAlpha does with `header :: plane bytes` for the raw method -/
theorem decodeAlpha_raw (c : Codec) (hdr : UInt8) (raw : Plane) (w h : Nat)
    (hw : 0 < w) (hh : 0 < h) (harea : w * h ≤ 2 ^ 30) (hsz : raw.size = w * h)
    (hm : (hdr &&& 3).toNat = 0) :
    decodeAlpha c (hdr :: raw.toList) (w : Int) (h : Int)
      = .ok (unfilter (Filter.ofField ((hdr >>> 2) &&& 3).toNat) w h raw) := by
  have h1 : ¬ ((w : Int) ≤ 0 ∨ (h : Int) ≤ 0) := by omega
  have h2 : ¬ (w * h > 2 ^ 30) := by omega
  have h3 : ¬ (raw.toList.length < w * h) := by simp [hsz]
  have h4 : (raw.toList.take (w * h)).toArray = raw := by
    rw [List.take_of_length_le (by simp [hsz])]
  simp only [decodeAlpha, h1, if_false, Int.toNat_natCast, h2, hm, if_true, h3, h4]

/-- **raw method, no hypothesis**: the chunk built by `encodeAlphaInternal` with method 0 decodes
    to the plane it was built from, for every filter -/
theorem decode_encodeInternal_raw (c : Codec) (a : Plane) (w h : Nat) (hw : 0 < w) (hh : 0 < h)
    (harea : w * h ≤ 2 ^ 30) (ha : a.size = w * h) (f : Filter) (reduce : Bool) (effort : Nat)
    (b : Bytes) (hb : encodeAlphaInternal c a w h 0 f reduce effort = .ok b) :
    decodeAlpha c b w h = .ok a := by
  have hpre : (if reduce then 1 else 0) < 2 := by cases reduce <;> decide
  simp only [encodeAlphaInternal, Nat.zero_ne_one, if_false, Res.ok.injEq] at hb
  subst hb
  rw [decodeAlpha_raw c _ _ w h hw hh harea (size_filter f w h a ha)
    (pack_method 0 (by decide) f _ hpre)]
  rw [pack_filter 0 (by decide) f _ hpre, ofField_code, unfilter_filter f w h hw a ha]

/-! ## DecodeAlpha on a lossless chunk -/

/-- What alpha.go needs from the VP8L codec: whenever `lossless.Encode` succeeds on a green-only
    image, the decoder, given the stream that `alphaVP8LStream` rebuilds from the stored payload
    (the 5 header bytes are dropped on encode and re-synthesised on decode — with the
    `alpha_is_used` bit **cleared**, whereas `encodeStream` always sets it), returns that image.
    To be discharged by property C01's round-trip theorem together with "the decoder ignores the
    alpha hint bit" and "the encoder's first 5 bytes are 0x2f, w-1, h-1, 1, version 0". -/
def CodecExactOnAlpha (c : Codec) : Prop :=
  ∀ (w h : Nat) (g : Plane) (q m : Nat) (s : Bytes),
    g.size = w * h → c.enc w h (g.map embedGreen) q m = some s → 5 ≤ s.length →
    c.dec (alphaVP8LStream (s.drop 5) w h) = some ⟨w, h, g.map embedGreen⟩

theorem extractGreen_embed (g : Plane) (w h : Nat) (_hw : 0 < w) (hh : 0 < h) (hg : g.size = w * h) :
    extractGreen ⟨w, h, g.map embedGreen⟩ w h = .ok g := by
  have hle : ¬ ((h - 1) * w + w > (g.map embedGreen).size) := by
    have : (h - 1) * w + w = h * w := by
      rw [← Nat.succ_mul]; congr 1; omega
    simp only [Array.size_map, hg, this, Nat.mul_comm h w]; omega
  simp only [extractGreen, hle, if_false, Res.ok.injEq]
  apply Array.ext
  · simp [hg]
  · intro i h1 h2
    simp only [Array.size_ofFn] at h1
    simp only [Array.getElem_ofFn, Nat.div_add_mod']
    have hi : i < (g.map embedGreen).size := by simp [hg]; exact h1
    rw [Array.getD_eq_getD_getElem?, Array.getElem?_eq_getElem hi]
    simp [green_embed]

theorem decodeAlpha_lossless (c : Codec) (hdr : UInt8) (payload : Bytes) (g : Plane) (w h : Nat)
    (hw : 0 < w) (hh : 0 < h) (harea : w * h ≤ 2 ^ 30) (hg : g.size = w * h)
    (hm : (hdr &&& 3).toNat = 1)
    (hdec : c.dec (alphaVP8LStream payload w h) = some ⟨w, h, g.map embedGreen⟩) :
    decodeAlpha c (hdr :: payload) (w : Int) (h : Int)
      = .ok (unfilter (Filter.ofField ((hdr >>> 2) &&& 3).toNat) w h g) := by
  have h1 : ¬ ((w : Int) ≤ 0 ∨ (h : Int) ≤ 0) := by omega
  have h2 : ¬ (w * h > 2 ^ 30) := by omega
  simp only [decodeAlpha, h1, if_false, Int.toNat_natCast, h2, hm, Nat.one_ne_zero, if_true, hdec,
    Nat.lt_irrefl, or_self, extractGreen_embed g w h hw hh hg]

/-- the chunk built by `encodeAlphaInternal` with either method decodes to the plane it was built
    from, for every filter, given an exact codec (lossless method; also covers the fallback to
    raw when the compressed payload is larger than the plane) -/
theorem decode_encodeInternal (c : Codec) (hc : CodecExactOnAlpha c) (a : Plane) (w h : Nat)
    (hw : 0 < w) (hh : 0 < h) (harea : w * h ≤ 2 ^ 30) (ha : a.size = w * h) (method : Nat)
    (hmeth : method < 2) (f : Filter) (reduce : Bool) (effort : Nat)
    (b : Bytes) (hb : encodeAlphaInternal c a w h method f reduce effort = .ok b) :
    decodeAlpha c b w h = .ok a := by
  have hpre : (if reduce then 1 else 0) < 2 := by cases reduce <;> decide
  have hsz := size_filter f w h a ha
  by_cases hm0 : method = 1
  · subst hm0
    simp only [encodeAlphaInternal, if_true] at hb
    split at hb
    · cases hb
    · rename_i s hs
      by_cases hlen : s.length < 5
      · simp [hlen] at hb
      · simp only [hlen, if_false] at hb
        by_cases hbig : (s.drop 5).length > w * h
        · simp only [hbig, if_true, Res.ok.injEq] at hb
          subst hb
          rw [decodeAlpha_raw c _ _ w h hw hh harea hsz (pack_method 0 (by decide) f _ hpre),
            pack_filter 0 (by decide) f _ hpre, ofField_code, unfilter_filter f w h hw a ha]
        · simp only [hbig, if_false, Res.ok.injEq] at hb
          subst hb
          have hdec := hc w h (filter f w h a) _ _ s hsz hs (by omega)
          rw [decodeAlpha_lossless c _ _ (filter f w h a) w h hw hh harea hsz
              (pack_method 1 (by decide) f _ hpre) hdec,
            pack_filter 1 (by decide) f _ hpre, ofField_code, unfilter_filter f w h hw a ha]
  · have : method = 0 := by omega
    subst this
    exact decode_encodeInternal_raw c a w h hw hh harea ha f reduce effort b hb

/-! ## applyFiltersAndEncode returns one of its trials -/

theorem trialFold_is_trial (c : Codec) (a : Plane) (w h method : Nat) (reduce : Bool) (effort : Nat)
    (tryMap : Nat) (fs : List Filter) (acc : Res Err (Option Bytes))
    (hacc : ∀ best, acc = .ok (some best) →
      ∃ f, encodeAlphaInternal c a w h method f reduce effort = .ok best)
    (best : Bytes)
    (hfold : fs.foldl (trialStep c a w h method reduce effort tryMap) acc = .ok (some best)) :
    ∃ f, encodeAlphaInternal c a w h method f reduce effort = .ok best := by
  induction fs generalizing acc with
  | nil => exact hacc best hfold
  | cons f fs ih =>
    rw [List.foldl_cons] at hfold
    refine ih _ ?_ hfold
    intro b2 hb2
    cases acc with
    | ok cur =>
      simp only [trialStep] at hb2
      by_cases hbit : tryMap.testBit f.code
      · simp only [hbit, if_true] at hb2
        cases hr : encodeAlphaInternal c a w h method f reduce effort with
        | ok res =>
          rw [hr] at hb2
          cases cur with
          | none =>
            simp only [Res.ok.injEq, Option.some.injEq] at hb2
            exact ⟨f, by rw [hr, hb2]⟩
          | some b0 =>
            simp only at hb2
            by_cases hl : res.length < b0.length
            · simp only [hl, if_true, Res.ok.injEq, Option.some.injEq] at hb2
              exact ⟨f, by rw [hr, hb2]⟩
            · simp only [hl, if_false, Res.ok.injEq, Option.some.injEq] at hb2
              exact hacc b2 (by rw [hb2])
        | err e => rw [hr] at hb2; cases hb2
        | panic => rw [hr] at hb2; cases hb2
        | hang => rw [hr] at hb2; cases hb2
      · simp only [hbit] at hb2
        exact hacc b2 hb2
    | err e => simp [trialStep] at hb2
    | panic => simp [trialStep] at hb2
    | hang => simp [trialStep] at hb2

theorem applyFilters_is_trial (c : Codec) (a : Plane) (w h method : Nat) (filter : Int)
    (reduce : Bool) (effort : Nat) (b : Bytes)
    (hb : applyFiltersAndEncode c a w h method filter reduce effort = .ok b) :
    ∃ f, encodeAlphaInternal c a w h method f reduce effort = .ok b := by
  unfold applyFiltersAndEncode at hb
  split at hb
  · rename_i b0 hfold
    cases hb
    exact trialFold_is_trial c a w h method reduce effort _ Filter.all (.ok none)
      (by intro best hh; cases hh) b hfold
  · exact ⟨.none, hb⟩
  · cases hb
  · cases hb
  · cases hb

/-! ## EncodeAlpha -/

theorem size_quantizeLevels (num : Num) (a : Plane) (w h n : Nat) :
    (quantizeLevels num a w h n).size = a.size := by
  unfold quantizeLevels
  split
  · rfl
  · split
    · rfl
    · simp only []
      split
      · rfl
      · simp

/-- the plane that `EncodeAlpha` hands to the filters: the source plane, or the quantised one
    when the (clamped) quality is below 100 -/
def encodedPlane (num : Num) (a : Plane) (w h : Nat) (quality : Int) : Plane :=
  if (clampInt quality 0 100).toNat < 100
  then quantizeLevels num a w h (alphaLevels (clampInt quality 0 100).toNat) else a

/-- `DecodeAlpha ∘ EncodeAlpha`: whatever method, filter mode and effort are configured, whatever
    filter the selection loop ends up with and whether or not the raw fallback fires, the decoded
    plane is the plane that was handed to the filters.  Raw method: no hypothesis on the codec. -/
theorem decode_encodeAlpha (num : Num) (c : Codec) (a : Plane) (w h : Nat) (hw : 0 < w) (hh : 0 < h)
    (harea : w * h ≤ 2 ^ 30) (ha : a.size = w * h) (cfg : EncCfg)
    (hc : cfg.method = 0 ∨ CodecExactOnAlpha c) (b : Bytes)
    (hb : encodeAlpha num c a (w : Int) (h : Int) cfg = .ok b) :
    decodeAlpha c b w h = .ok (encodedPlane num a w h cfg.quality) := by
  have h1 : ¬ ((w : Int) ≤ 0 ∨ (h : Int) ≤ 0) := by omega
  have h2 : ¬ (a.size < w * h) := by omega
  have hex : a.extract 0 (w * h) = a := Array.extract_eq_self_of_le (by omega)
  simp only [encodeAlpha, h1, if_false, Int.toNat_natCast, h2, hex] at hb
  by_cases hmeth : cfg.method < 0 ∨ cfg.method > 1
  · simp [hmeth] at hb
  · simp only [hmeth, if_false] at hb
    obtain ⟨f, hf⟩ := applyFilters_is_trial c _ w h _ _ _ _ b hb
    have hm2 : cfg.method.toNat < 2 := by omega
    have hsz : (encodedPlane num a w h cfg.quality).size = w * h := by
      unfold encodedPlane
      split
      · rw [size_quantizeLevels, ha]
      · exact ha
    have hf : encodeAlphaInternal c (encodedPlane num a w h cfg.quality) w h cfg.method.toNat f
        (decide ((clampInt cfg.quality 0 100).toNat < 100)) (clampInt cfg.effort 0 6).toNat = .ok b := hf
    rcases hc with hc | hc
    · have : cfg.method.toNat = 0 := by omega
      rw [this] at hf
      exact decode_encodeInternal_raw c _ w h hw hh harea hsz f _ _ b hf
    · exact decode_encodeInternal c hc _ w h hw hh harea hsz _ hm2 f _ _ b hf

theorem trialFold_ok (c : Codec) (a : Plane) (w h method : Nat) (reduce : Bool) (effort : Nat)
    (tryMap : Nat) (hall : ∀ f, ∃ r, encodeAlphaInternal c a w h method f reduce effort = .ok r)
    (fs : List Filter) (x : Option Bytes) :
    ∃ y, fs.foldl (trialStep c a w h method reduce effort tryMap) (.ok x) = .ok y := by
  induction fs generalizing x with
  | nil => exact ⟨x, rfl⟩
  | cons f fs ih =>
    rw [List.foldl_cons]
    obtain ⟨r, hr⟩ := hall f
    simp only [trialStep, hr]
    split
    · cases x with
      | none => exact ih _
      | some b0 =>
        simp only []
        split <;> exact ih _
    · exact ih _

theorem applyFilters_raw_ok (c : Codec) (qa : Plane) (w h : Nat) (filter : Int) (reduce : Bool)
    (effort : Nat) : ∃ b, applyFiltersAndEncode c qa w h 0 filter reduce effort = .ok b := by
  have hall : ∀ f, ∃ r, encodeAlphaInternal c qa w h 0 f reduce effort = .ok r := by
    intro f; simp [encodeAlphaInternal]
  unfold applyFiltersAndEncode
  obtain ⟨y, hy⟩ := trialFold_ok c qa w h 0 reduce effort (getFilterMap qa w h filter effort)
    hall Filter.all none
  rw [hy]
  cases y with
  | none => exact hall .none
  | some b => exact ⟨b, rfl⟩

/-- with the raw method `EncodeAlpha` cannot fail -/
theorem encodeAlpha_raw_ok (num : Num) (c : Codec) (a : Plane) (w h : Nat) (hw : 0 < w) (hh : 0 < h)
    (ha : a.size = w * h) (cfg : EncCfg) (hm : cfg.method = 0) :
    ∃ b, encodeAlpha num c a (w : Int) (h : Int) cfg = .ok b := by
  have h1 : ¬ ((w : Int) ≤ 0 ∨ (h : Int) ≤ 0) := by omega
  have h2 : ¬ (a.size < w * h) := by omega
  have h3 : ¬ (cfg.method < 0 ∨ cfg.method > 1) := by omega
  simp only [encodeAlpha, h1, if_false, Int.toNat_natCast, h2, h3]
  rw [hm]
  exact applyFilters_raw_ok c _ w h _ _ _

end Webp.Proofs.AlphaChunk
