import Webp.Proofs.C04RefinePush
import Webp.Proofs.C04RefineSyntax
import Webp.Impl.VP8Kernels
import Webp.Spec.VP8.Recon
import Mathlib.Tactic.IntervalCases
/-
  C04 refinement, reconstruction (stage C), the ten sub-block predictors: `Webp.Impl.VP8Kernels.pred4`
  (predict_lossy.go, Go mode numbering) = RFC 6386 §12.3 `Webp.Spec.VP8.predictSubblock` (RFC numbering,
  `rfcB`) for every edge of byte samples.
-/
namespace Webp.Proofs.C04RefinePred4
open Webp.Spec.VP8 (predictSubblock)
open Webp.Impl.VP8Kernels (pred4)
open Webp.Proofs.C04RefinePush
open Webp.Proofs.C04RefineSyntax (rfcB)

theorem bnd (E : Array Nat) (hE : ∀ i, E.getD i 0 ≤ 255) (i : Nat) : E[i]?.getD 0 ≤ 255 := by
  rw [← Array.getD_eq_getD_getElem?]; exact hE i

set_option linter.unusedSimpArgs false

theorem pred4_m0 (E : Array Nat) (hE : ∀ i, E.getD i 0 ≤ 255) (x y : Nat) (hx : x < 4) (hy : y < 4) :
    (((predictSubblock (rfcB 0) E).getD (y * 4 + x) 0 : Nat) : Int) =
      pred4 0 (fun i => (E.getD (5 + i) 0 : Int)) (fun j => (E.getD (3 - j) 0 : Int)) (E.getD 4 0 : Int) x y := by
  unfold predictSubblock
  simp only [Id.run]
  rw [nested_push 4 4 _ _]
  show (((rows 4 _ #[] 4).getD (y * 4 + x) 0 : Nat) : Int) = _
  rw [rows_getD 4 _ 4 0 y x hy hx]
  have b0 := bnd E hE 0; have b1 := bnd E hE 1; have b2 := bnd E hE 2; have b3 := bnd E hE 3
  have b4 := bnd E hE 4; have b5 := bnd E hE 5; have b6 := bnd E hE 6; have b7 := bnd E hE 7
  have b8 := bnd E hE 8; have b9 := bnd E hE 9; have b10 := bnd E hE 10; have b11 := bnd E hE 11
  have b12 := bnd E hE 12
  interval_cases x <;> interval_cases y <;>
    simp [rfcB, pred4, Webp.Spec.VP8.B_DC_PRED, Webp.Spec.VP8.B_TM_PRED, Webp.Spec.VP8.B_VE_PRED,
      Webp.Spec.VP8.B_HE_PRED, Webp.Spec.VP8.B_LD_PRED, Webp.Spec.VP8.B_RD_PRED, Webp.Spec.VP8.B_VR_PRED,
      Webp.Spec.VP8.B_VL_PRED, Webp.Spec.VP8.B_HD_PRED, Webp.Spec.VP8.B_HU_PRED,
      Webp.Spec.VP8.vrTable, Webp.Spec.VP8.vlTable, Webp.Spec.VP8.hdTable,
      Webp.Spec.VP8.avg3, Webp.Spec.VP8.avg2, Webp.Impl.VP8Kernels.avg3, Webp.Impl.VP8Kernels.avg2,
      Webp.Impl.VP8Kernels.toU8, Webp.Impl.VP8Kernels.sumTo, Webp.Impl.VP8Kernels.clip8b, Webp.Spec.VP8.clampInt,
      Nat.shiftRight_eq_div_pow, List.range_succ] <;>
    omega

theorem pred4_m1 (E : Array Nat) (hE : ∀ i, E.getD i 0 ≤ 255) (x y : Nat) (hx : x < 4) (hy : y < 4) :
    (((predictSubblock (rfcB 1) E).getD (y * 4 + x) 0 : Nat) : Int) =
      pred4 1 (fun i => (E.getD (5 + i) 0 : Int)) (fun j => (E.getD (3 - j) 0 : Int)) (E.getD 4 0 : Int) x y := by
  unfold predictSubblock
  simp only [Id.run]
  rw [nested_push 4 4 _ _]
  show (((rows 4 _ #[] 4).getD (y * 4 + x) 0 : Nat) : Int) = _
  rw [rows_getD 4 _ 4 0 y x hy hx]
  have b0 := bnd E hE 0; have b1 := bnd E hE 1; have b2 := bnd E hE 2; have b3 := bnd E hE 3
  have b4 := bnd E hE 4; have b5 := bnd E hE 5; have b6 := bnd E hE 6; have b7 := bnd E hE 7
  have b8 := bnd E hE 8; have b9 := bnd E hE 9; have b10 := bnd E hE 10; have b11 := bnd E hE 11
  have b12 := bnd E hE 12
  interval_cases x <;> interval_cases y <;>
    simp [rfcB, pred4, Webp.Spec.VP8.B_DC_PRED, Webp.Spec.VP8.B_TM_PRED, Webp.Spec.VP8.B_VE_PRED,
      Webp.Spec.VP8.B_HE_PRED, Webp.Spec.VP8.B_LD_PRED, Webp.Spec.VP8.B_RD_PRED, Webp.Spec.VP8.B_VR_PRED,
      Webp.Spec.VP8.B_VL_PRED, Webp.Spec.VP8.B_HD_PRED, Webp.Spec.VP8.B_HU_PRED,
      Webp.Spec.VP8.vrTable, Webp.Spec.VP8.vlTable, Webp.Spec.VP8.hdTable,
      Webp.Spec.VP8.avg3, Webp.Spec.VP8.avg2, Webp.Impl.VP8Kernels.avg3, Webp.Impl.VP8Kernels.avg2,
      Webp.Impl.VP8Kernels.toU8, Webp.Impl.VP8Kernels.sumTo, Webp.Impl.VP8Kernels.clip8b, Webp.Spec.VP8.clampInt,
      Nat.shiftRight_eq_div_pow, List.range_succ] <;>
    omega

theorem pred4_m2 (E : Array Nat) (hE : ∀ i, E.getD i 0 ≤ 255) (x y : Nat) (hx : x < 4) (hy : y < 4) :
    (((predictSubblock (rfcB 2) E).getD (y * 4 + x) 0 : Nat) : Int) =
      pred4 2 (fun i => (E.getD (5 + i) 0 : Int)) (fun j => (E.getD (3 - j) 0 : Int)) (E.getD 4 0 : Int) x y := by
  unfold predictSubblock
  simp only [Id.run]
  rw [nested_push 4 4 _ _]
  show (((rows 4 _ #[] 4).getD (y * 4 + x) 0 : Nat) : Int) = _
  rw [rows_getD 4 _ 4 0 y x hy hx]
  have b0 := bnd E hE 0; have b1 := bnd E hE 1; have b2 := bnd E hE 2; have b3 := bnd E hE 3
  have b4 := bnd E hE 4; have b5 := bnd E hE 5; have b6 := bnd E hE 6; have b7 := bnd E hE 7
  have b8 := bnd E hE 8; have b9 := bnd E hE 9; have b10 := bnd E hE 10; have b11 := bnd E hE 11
  have b12 := bnd E hE 12
  interval_cases x <;> interval_cases y <;>
    simp [rfcB, pred4, Webp.Spec.VP8.B_DC_PRED, Webp.Spec.VP8.B_TM_PRED, Webp.Spec.VP8.B_VE_PRED,
      Webp.Spec.VP8.B_HE_PRED, Webp.Spec.VP8.B_LD_PRED, Webp.Spec.VP8.B_RD_PRED, Webp.Spec.VP8.B_VR_PRED,
      Webp.Spec.VP8.B_VL_PRED, Webp.Spec.VP8.B_HD_PRED, Webp.Spec.VP8.B_HU_PRED,
      Webp.Spec.VP8.vrTable, Webp.Spec.VP8.vlTable, Webp.Spec.VP8.hdTable,
      Webp.Spec.VP8.avg3, Webp.Spec.VP8.avg2, Webp.Impl.VP8Kernels.avg3, Webp.Impl.VP8Kernels.avg2,
      Webp.Impl.VP8Kernels.toU8, Webp.Impl.VP8Kernels.sumTo, Webp.Impl.VP8Kernels.clip8b, Webp.Spec.VP8.clampInt,
      Nat.shiftRight_eq_div_pow, List.range_succ] <;>
    omega

theorem pred4_m3 (E : Array Nat) (hE : ∀ i, E.getD i 0 ≤ 255) (x y : Nat) (hx : x < 4) (hy : y < 4) :
    (((predictSubblock (rfcB 3) E).getD (y * 4 + x) 0 : Nat) : Int) =
      pred4 3 (fun i => (E.getD (5 + i) 0 : Int)) (fun j => (E.getD (3 - j) 0 : Int)) (E.getD 4 0 : Int) x y := by
  unfold predictSubblock
  simp only [Id.run]
  rw [nested_push 4 4 _ _]
  show (((rows 4 _ #[] 4).getD (y * 4 + x) 0 : Nat) : Int) = _
  rw [rows_getD 4 _ 4 0 y x hy hx]
  have b0 := bnd E hE 0; have b1 := bnd E hE 1; have b2 := bnd E hE 2; have b3 := bnd E hE 3
  have b4 := bnd E hE 4; have b5 := bnd E hE 5; have b6 := bnd E hE 6; have b7 := bnd E hE 7
  have b8 := bnd E hE 8; have b9 := bnd E hE 9; have b10 := bnd E hE 10; have b11 := bnd E hE 11
  have b12 := bnd E hE 12
  interval_cases x <;> interval_cases y <;>
    simp [rfcB, pred4, Webp.Spec.VP8.B_DC_PRED, Webp.Spec.VP8.B_TM_PRED, Webp.Spec.VP8.B_VE_PRED,
      Webp.Spec.VP8.B_HE_PRED, Webp.Spec.VP8.B_LD_PRED, Webp.Spec.VP8.B_RD_PRED, Webp.Spec.VP8.B_VR_PRED,
      Webp.Spec.VP8.B_VL_PRED, Webp.Spec.VP8.B_HD_PRED, Webp.Spec.VP8.B_HU_PRED,
      Webp.Spec.VP8.vrTable, Webp.Spec.VP8.vlTable, Webp.Spec.VP8.hdTable,
      Webp.Spec.VP8.avg3, Webp.Spec.VP8.avg2, Webp.Impl.VP8Kernels.avg3, Webp.Impl.VP8Kernels.avg2,
      Webp.Impl.VP8Kernels.toU8, Webp.Impl.VP8Kernels.sumTo, Webp.Impl.VP8Kernels.clip8b, Webp.Spec.VP8.clampInt,
      Nat.shiftRight_eq_div_pow, List.range_succ] <;>
    omega

theorem pred4_m4 (E : Array Nat) (hE : ∀ i, E.getD i 0 ≤ 255) (x y : Nat) (hx : x < 4) (hy : y < 4) :
    (((predictSubblock (rfcB 4) E).getD (y * 4 + x) 0 : Nat) : Int) =
      pred4 4 (fun i => (E.getD (5 + i) 0 : Int)) (fun j => (E.getD (3 - j) 0 : Int)) (E.getD 4 0 : Int) x y := by
  unfold predictSubblock
  simp only [Id.run]
  rw [nested_push 4 4 _ _]
  show (((rows 4 _ #[] 4).getD (y * 4 + x) 0 : Nat) : Int) = _
  rw [rows_getD 4 _ 4 0 y x hy hx]
  have b0 := bnd E hE 0; have b1 := bnd E hE 1; have b2 := bnd E hE 2; have b3 := bnd E hE 3
  have b4 := bnd E hE 4; have b5 := bnd E hE 5; have b6 := bnd E hE 6; have b7 := bnd E hE 7
  have b8 := bnd E hE 8; have b9 := bnd E hE 9; have b10 := bnd E hE 10; have b11 := bnd E hE 11
  have b12 := bnd E hE 12
  interval_cases x <;> interval_cases y <;>
    simp [rfcB, pred4, Webp.Spec.VP8.B_DC_PRED, Webp.Spec.VP8.B_TM_PRED, Webp.Spec.VP8.B_VE_PRED,
      Webp.Spec.VP8.B_HE_PRED, Webp.Spec.VP8.B_LD_PRED, Webp.Spec.VP8.B_RD_PRED, Webp.Spec.VP8.B_VR_PRED,
      Webp.Spec.VP8.B_VL_PRED, Webp.Spec.VP8.B_HD_PRED, Webp.Spec.VP8.B_HU_PRED,
      Webp.Spec.VP8.vrTable, Webp.Spec.VP8.vlTable, Webp.Spec.VP8.hdTable,
      Webp.Spec.VP8.avg3, Webp.Spec.VP8.avg2, Webp.Impl.VP8Kernels.avg3, Webp.Impl.VP8Kernels.avg2,
      Webp.Impl.VP8Kernels.toU8, Webp.Impl.VP8Kernels.sumTo, Webp.Impl.VP8Kernels.clip8b, Webp.Spec.VP8.clampInt,
      Nat.shiftRight_eq_div_pow, List.range_succ] <;>
    omega

theorem pred4_m5 (E : Array Nat) (hE : ∀ i, E.getD i 0 ≤ 255) (x y : Nat) (hx : x < 4) (hy : y < 4) :
    (((predictSubblock (rfcB 5) E).getD (y * 4 + x) 0 : Nat) : Int) =
      pred4 5 (fun i => (E.getD (5 + i) 0 : Int)) (fun j => (E.getD (3 - j) 0 : Int)) (E.getD 4 0 : Int) x y := by
  unfold predictSubblock
  simp only [Id.run]
  rw [nested_push 4 4 _ _]
  show (((rows 4 _ #[] 4).getD (y * 4 + x) 0 : Nat) : Int) = _
  rw [rows_getD 4 _ 4 0 y x hy hx]
  have b0 := bnd E hE 0; have b1 := bnd E hE 1; have b2 := bnd E hE 2; have b3 := bnd E hE 3
  have b4 := bnd E hE 4; have b5 := bnd E hE 5; have b6 := bnd E hE 6; have b7 := bnd E hE 7
  have b8 := bnd E hE 8; have b9 := bnd E hE 9; have b10 := bnd E hE 10; have b11 := bnd E hE 11
  have b12 := bnd E hE 12
  interval_cases x <;> interval_cases y <;>
    simp [rfcB, pred4, Webp.Spec.VP8.B_DC_PRED, Webp.Spec.VP8.B_TM_PRED, Webp.Spec.VP8.B_VE_PRED,
      Webp.Spec.VP8.B_HE_PRED, Webp.Spec.VP8.B_LD_PRED, Webp.Spec.VP8.B_RD_PRED, Webp.Spec.VP8.B_VR_PRED,
      Webp.Spec.VP8.B_VL_PRED, Webp.Spec.VP8.B_HD_PRED, Webp.Spec.VP8.B_HU_PRED,
      Webp.Spec.VP8.vrTable, Webp.Spec.VP8.vlTable, Webp.Spec.VP8.hdTable,
      Webp.Spec.VP8.avg3, Webp.Spec.VP8.avg2, Webp.Impl.VP8Kernels.avg3, Webp.Impl.VP8Kernels.avg2,
      Webp.Impl.VP8Kernels.toU8, Webp.Impl.VP8Kernels.sumTo, Webp.Impl.VP8Kernels.clip8b, Webp.Spec.VP8.clampInt,
      Nat.shiftRight_eq_div_pow, List.range_succ] <;>
    omega

theorem pred4_m6 (E : Array Nat) (hE : ∀ i, E.getD i 0 ≤ 255) (x y : Nat) (hx : x < 4) (hy : y < 4) :
    (((predictSubblock (rfcB 6) E).getD (y * 4 + x) 0 : Nat) : Int) =
      pred4 6 (fun i => (E.getD (5 + i) 0 : Int)) (fun j => (E.getD (3 - j) 0 : Int)) (E.getD 4 0 : Int) x y := by
  unfold predictSubblock
  simp only [Id.run]
  rw [nested_push 4 4 _ _]
  show (((rows 4 _ #[] 4).getD (y * 4 + x) 0 : Nat) : Int) = _
  rw [rows_getD 4 _ 4 0 y x hy hx]
  have b0 := bnd E hE 0; have b1 := bnd E hE 1; have b2 := bnd E hE 2; have b3 := bnd E hE 3
  have b4 := bnd E hE 4; have b5 := bnd E hE 5; have b6 := bnd E hE 6; have b7 := bnd E hE 7
  have b8 := bnd E hE 8; have b9 := bnd E hE 9; have b10 := bnd E hE 10; have b11 := bnd E hE 11
  have b12 := bnd E hE 12
  interval_cases x <;> interval_cases y <;>
    simp [rfcB, pred4, Webp.Spec.VP8.B_DC_PRED, Webp.Spec.VP8.B_TM_PRED, Webp.Spec.VP8.B_VE_PRED,
      Webp.Spec.VP8.B_HE_PRED, Webp.Spec.VP8.B_LD_PRED, Webp.Spec.VP8.B_RD_PRED, Webp.Spec.VP8.B_VR_PRED,
      Webp.Spec.VP8.B_VL_PRED, Webp.Spec.VP8.B_HD_PRED, Webp.Spec.VP8.B_HU_PRED,
      Webp.Spec.VP8.vrTable, Webp.Spec.VP8.vlTable, Webp.Spec.VP8.hdTable,
      Webp.Spec.VP8.avg3, Webp.Spec.VP8.avg2, Webp.Impl.VP8Kernels.avg3, Webp.Impl.VP8Kernels.avg2,
      Webp.Impl.VP8Kernels.toU8, Webp.Impl.VP8Kernels.sumTo, Webp.Impl.VP8Kernels.clip8b, Webp.Spec.VP8.clampInt,
      Nat.shiftRight_eq_div_pow, List.range_succ] <;>
    omega

theorem pred4_m7 (E : Array Nat) (hE : ∀ i, E.getD i 0 ≤ 255) (x y : Nat) (hx : x < 4) (hy : y < 4) :
    (((predictSubblock (rfcB 7) E).getD (y * 4 + x) 0 : Nat) : Int) =
      pred4 7 (fun i => (E.getD (5 + i) 0 : Int)) (fun j => (E.getD (3 - j) 0 : Int)) (E.getD 4 0 : Int) x y := by
  unfold predictSubblock
  simp only [Id.run]
  rw [nested_push 4 4 _ _]
  show (((rows 4 _ #[] 4).getD (y * 4 + x) 0 : Nat) : Int) = _
  rw [rows_getD 4 _ 4 0 y x hy hx]
  have b0 := bnd E hE 0; have b1 := bnd E hE 1; have b2 := bnd E hE 2; have b3 := bnd E hE 3
  have b4 := bnd E hE 4; have b5 := bnd E hE 5; have b6 := bnd E hE 6; have b7 := bnd E hE 7
  have b8 := bnd E hE 8; have b9 := bnd E hE 9; have b10 := bnd E hE 10; have b11 := bnd E hE 11
  have b12 := bnd E hE 12
  interval_cases x <;> interval_cases y <;>
    simp [rfcB, pred4, Webp.Spec.VP8.B_DC_PRED, Webp.Spec.VP8.B_TM_PRED, Webp.Spec.VP8.B_VE_PRED,
      Webp.Spec.VP8.B_HE_PRED, Webp.Spec.VP8.B_LD_PRED, Webp.Spec.VP8.B_RD_PRED, Webp.Spec.VP8.B_VR_PRED,
      Webp.Spec.VP8.B_VL_PRED, Webp.Spec.VP8.B_HD_PRED, Webp.Spec.VP8.B_HU_PRED,
      Webp.Spec.VP8.vrTable, Webp.Spec.VP8.vlTable, Webp.Spec.VP8.hdTable,
      Webp.Spec.VP8.avg3, Webp.Spec.VP8.avg2, Webp.Impl.VP8Kernels.avg3, Webp.Impl.VP8Kernels.avg2,
      Webp.Impl.VP8Kernels.toU8, Webp.Impl.VP8Kernels.sumTo, Webp.Impl.VP8Kernels.clip8b, Webp.Spec.VP8.clampInt,
      Nat.shiftRight_eq_div_pow, List.range_succ] <;>
    omega

theorem pred4_m8 (E : Array Nat) (hE : ∀ i, E.getD i 0 ≤ 255) (x y : Nat) (hx : x < 4) (hy : y < 4) :
    (((predictSubblock (rfcB 8) E).getD (y * 4 + x) 0 : Nat) : Int) =
      pred4 8 (fun i => (E.getD (5 + i) 0 : Int)) (fun j => (E.getD (3 - j) 0 : Int)) (E.getD 4 0 : Int) x y := by
  unfold predictSubblock
  simp only [Id.run]
  rw [nested_push 4 4 _ _]
  show (((rows 4 _ #[] 4).getD (y * 4 + x) 0 : Nat) : Int) = _
  rw [rows_getD 4 _ 4 0 y x hy hx]
  have b0 := bnd E hE 0; have b1 := bnd E hE 1; have b2 := bnd E hE 2; have b3 := bnd E hE 3
  have b4 := bnd E hE 4; have b5 := bnd E hE 5; have b6 := bnd E hE 6; have b7 := bnd E hE 7
  have b8 := bnd E hE 8; have b9 := bnd E hE 9; have b10 := bnd E hE 10; have b11 := bnd E hE 11
  have b12 := bnd E hE 12
  interval_cases x <;> interval_cases y <;>
    simp [rfcB, pred4, Webp.Spec.VP8.B_DC_PRED, Webp.Spec.VP8.B_TM_PRED, Webp.Spec.VP8.B_VE_PRED,
      Webp.Spec.VP8.B_HE_PRED, Webp.Spec.VP8.B_LD_PRED, Webp.Spec.VP8.B_RD_PRED, Webp.Spec.VP8.B_VR_PRED,
      Webp.Spec.VP8.B_VL_PRED, Webp.Spec.VP8.B_HD_PRED, Webp.Spec.VP8.B_HU_PRED,
      Webp.Spec.VP8.vrTable, Webp.Spec.VP8.vlTable, Webp.Spec.VP8.hdTable,
      Webp.Spec.VP8.avg3, Webp.Spec.VP8.avg2, Webp.Impl.VP8Kernels.avg3, Webp.Impl.VP8Kernels.avg2,
      Webp.Impl.VP8Kernels.toU8, Webp.Impl.VP8Kernels.sumTo, Webp.Impl.VP8Kernels.clip8b, Webp.Spec.VP8.clampInt,
      Nat.shiftRight_eq_div_pow, List.range_succ] <;>
    omega

theorem pred4_m9 (E : Array Nat) (hE : ∀ i, E.getD i 0 ≤ 255) (x y : Nat) (hx : x < 4) (hy : y < 4) :
    (((predictSubblock (rfcB 9) E).getD (y * 4 + x) 0 : Nat) : Int) =
      pred4 9 (fun i => (E.getD (5 + i) 0 : Int)) (fun j => (E.getD (3 - j) 0 : Int)) (E.getD 4 0 : Int) x y := by
  unfold predictSubblock
  simp only [Id.run]
  rw [nested_push 4 4 _ _]
  show (((rows 4 _ #[] 4).getD (y * 4 + x) 0 : Nat) : Int) = _
  rw [rows_getD 4 _ 4 0 y x hy hx]
  have b0 := bnd E hE 0; have b1 := bnd E hE 1; have b2 := bnd E hE 2; have b3 := bnd E hE 3
  have b4 := bnd E hE 4; have b5 := bnd E hE 5; have b6 := bnd E hE 6; have b7 := bnd E hE 7
  have b8 := bnd E hE 8; have b9 := bnd E hE 9; have b10 := bnd E hE 10; have b11 := bnd E hE 11
  have b12 := bnd E hE 12
  interval_cases x <;> interval_cases y <;>
    simp [rfcB, pred4, Webp.Spec.VP8.B_DC_PRED, Webp.Spec.VP8.B_TM_PRED, Webp.Spec.VP8.B_VE_PRED,
      Webp.Spec.VP8.B_HE_PRED, Webp.Spec.VP8.B_LD_PRED, Webp.Spec.VP8.B_RD_PRED, Webp.Spec.VP8.B_VR_PRED,
      Webp.Spec.VP8.B_VL_PRED, Webp.Spec.VP8.B_HD_PRED, Webp.Spec.VP8.B_HU_PRED,
      Webp.Spec.VP8.vrTable, Webp.Spec.VP8.vlTable, Webp.Spec.VP8.hdTable,
      Webp.Spec.VP8.avg3, Webp.Spec.VP8.avg2, Webp.Impl.VP8Kernels.avg3, Webp.Impl.VP8Kernels.avg2,
      Webp.Impl.VP8Kernels.toU8, Webp.Impl.VP8Kernels.sumTo, Webp.Impl.VP8Kernels.clip8b, Webp.Spec.VP8.clampInt,
      Nat.shiftRight_eq_div_pow, List.range_succ] <;>
    omega

/-- **the ten 4×4 predictors: Go = RFC 6386 §12.3**, for every edge of byte samples
    `E = L3 L2 L1 L0 P A0 … A7` (Go mode `g`, RFC mode `rfcB g`) -/
theorem pred4_eq_spec (g : Nat) (hg : g < 10) (E : Array Nat) (hE : ∀ i, E.getD i 0 ≤ 255) (x y : Nat) (hx : x < 4) (hy : y < 4) :
    (((predictSubblock (rfcB g) E).getD (y * 4 + x) 0 : Nat) : Int) =
      pred4 g (fun i => (E.getD (5 + i) 0 : Int)) (fun j => (E.getD (3 - j) 0 : Int)) (E.getD 4 0 : Int) x y := by
  interval_cases g
  · exact pred4_m0 E hE x y hx hy
  · exact pred4_m1 E hE x y hx hy
  · exact pred4_m2 E hE x y hx hy
  · exact pred4_m3 E hE x y hx hy
  · exact pred4_m4 E hE x y hx hy
  · exact pred4_m5 E hE x y hx hy
  · exact pred4_m6 E hE x y hx hy
  · exact pred4_m7 E hE x y hx hy
  · exact pred4_m8 E hE x y hx hy
  · exact pred4_m9 E hE x y hx hy

end Webp.Proofs.C04RefinePred4
