import Webp.Proofs.MuxCore
/-
  What the three readers are expected to return for the file assembled from a muxer state:
  `expD` (mux.Demuxer), `expP` (container.Parser), `expL` (the spec walker's layout).
  The round-trip theorems prove `reader (assemble s) = ok (exp… s)`; the agreement clauses of
  C14 are then read off these explicit values.
-/
namespace Webp.Proofs.MuxExpect
open Webp.Go Webp.Impl Webp.Impl.Mux Webp.Proofs.MuxChunk Webp.Proofs.MuxAccepted Webp.Proofs.MuxCore
open Webp.Spec.Riff (RawChunk FrameLayout Layout)
open Webp.Impl.Demux (splitAlphaAndBitstream frameDimensions)
open Webp.Impl.Parser (ccVP8 ccVP8L ccICCP ccEXIF ccXMP)

def toD (c : RawChunk) : Demux.Chunk := ⟨c.id, c.data.length, c.data⟩

/-- the demuxer's view of one frame -/
def dFrameOf (first : Bool) (f : MuxFrame) : Demux.FrameInfo :=
  { data := some (splitAlphaAndBitstream f.data).2
    alphaData := (splitAlphaAndBitstream f.data).1
    width := (frameDimensions f.data).1
    height := (frameDimensions f.data).2
    offsetX := (Int.tdiv f.opts.offsetX 2).toNat * 2
    offsetY := (Int.tdiv f.opts.offsetY 2).toNat * 2
    duration := f.opts.duration.toNat
    isKeyframe := first
    hasAlpha := if (((splitAlphaAndBitstream f.data).1).getD []).length > 0 then true
                else Demux.frameDataHasAlpha (splitAlphaAndBitstream f.data).2
    blendNone := decide (f.opts.blendMode = 1)
    disposeBG := decide (f.opts.disposeMode = 1) }

def dFramesFrom : Nat → List MuxFrame → List Demux.FrameInfo
  | _, [] => []
  | k, f :: fs => dFrameOf (k = 0) f :: dFramesFrom (k + 1) fs

def isLossless (data : Bytes) : Bool :=
  decide (detectBitstreamType (splitAlphaAndBitstream data).2 = ccVP8L)

def expDFeatures (s : MuxState) : Demux.Features :=
  if needsVP8X s then
    { width := (canvasSize s).1.toNat, height := (canvasSize s).2.toNat, hasAlpha := hasAlpha s,
      hasAnimation := isAnimated s, hasICC := s.iccData.isSome, hasEXIF := s.exifData.isSome,
      hasXMP := s.xmpData.isSome, format := .extended }
  else match s.frames with
    | f :: _ =>
      { width := (frameDimensions f.data).1, height := (frameDimensions f.data).2,
        hasAlpha := Demux.frameDataHasAlpha f.data,
        format := if isLossless f.data then .lossless else .lossy }
    | [] => {}

def expD (s : MuxState) : Demux.State :=
  { chunks := (topChunks s).map toD
    features := expDFeatures s
    frames := dFramesFrom 0 s.frames
    iccData := s.iccData, exifData := s.exifData, xmpData := s.xmpData
    bgColor := if isAnimated s then s.bgColor else 0
    loopCount := if isAnimated s then s.loopCount.toNat else 0 }

/-- the container parser's view of one frame -/
def pFrameOf (f : MuxFrame) : Parser.FrameInfo :=
  { xOffset := 2 * (Int.tdiv f.opts.offsetX 2).toNat
    yOffset := 2 * (Int.tdiv f.opts.offsetY 2).toNat
    width := (frameDimensions f.data).1
    height := (frameDimensions f.data).2
    duration := f.opts.duration.toNat
    disposeBG := decide (f.opts.disposeMode = 1)
    blendNone := decide (f.opts.blendMode = 1)
    hasAlpha := (splitAlphaAndBitstream f.data).1.isSome ||
                (isLossless f.data && vp8lA (splitAlphaAndBitstream f.data).2)
    isLossless := isLossless f.data
    payload := some (splitAlphaAndBitstream f.data).2
    alphaData := (splitAlphaAndBitstream f.data).1 }

def expPChunks (s : MuxState) : List Parser.Chunk :=
  (optC ccICCP s.iccData ++
    (if isAnimated s then optC ccEXIF s.exifData ++ optC ccXMP s.xmpData else [])).map
      fun c => ⟨c.id, c.data⟩

def expPFeatures (s : MuxState) : Parser.Features :=
  if needsVP8X s then
    { format := .vp8x
      hasAnim := isAnimated s, hasXMP := s.xmpData.isSome, hasEXIF := s.exifData.isSome
      hasAlpha := hasAlpha s, hasICCP := s.iccData.isSome
      canvasWidth := (canvasSize s).1.toNat, canvasHeight := (canvasSize s).2.toNat
      width := if isAnimated s then (canvasSize s).1.toNat
               else match s.frames with | f :: _ => (frameDimensions f.data).1 | [] => 0
      height := if isAnimated s then (canvasSize s).2.toNat
                else match s.frames with | f :: _ => (frameDimensions f.data).2 | [] => 0
      loopCount := if isAnimated s then s.loopCount.toNat else 0
      bgColor := if isAnimated s then s.bgColor else 0xFFFFFFFF }
  else match s.frames with
    | f :: _ =>
      { format := if isLossless f.data then .vp8l else .vp8
        hasAlpha := isLossless f.data && vp8lA f.data
        width := (frameDimensions f.data).1, height := (frameDimensions f.data).2
        canvasWidth := (frameDimensions f.data).1, canvasHeight := (frameDimensions f.data).2 }
    | [] => {}

def expP (s : MuxState) : Parser.State :=
  { features := expPFeatures s
    frames := s.frames.map pFrameOf
    chunks := expPChunks s }

/-- the spec walker's view of one frame -/
def lFrameOf (f : MuxFrame) : FrameLayout :=
  { offsetX := 2 * (Int.tdiv f.opts.offsetX 2).toNat
    offsetY := 2 * (Int.tdiv f.opts.offsetY 2).toNat
    width := (frameDimensions f.data).1
    height := (frameDimensions f.data).2
    duration := f.opts.duration.toNat
    blendNone := decide (f.opts.blendMode = 1)
    disposeBG := decide (f.opts.disposeMode = 1)
    lossless := isLossless f.data
    alpha := (splitAlphaAndBitstream f.data).1
    bitstream := (splitAlphaAndBitstream f.data).2 }

def expL (s : MuxState) : Layout :=
  { extended := needsVP8X s
    canvasW := if needsVP8X s then (canvasSize s).1.toNat
               else match s.frames with | f :: _ => (frameDimensions f.data).1 | [] => 0
    canvasH := if needsVP8X s then (canvasSize s).2.toNat
               else match s.frames with | f :: _ => (frameDimensions f.data).2 | [] => 0
    hasAlpha := if needsVP8X s then hasAlpha s
                else match s.frames with | f :: _ => isLossless f.data && vp8lA f.data | [] => false
    animated := isAnimated s
    loopCount := if isAnimated s then s.loopCount.toNat else 0
    bgColor := if isAnimated s then s.bgColor else 0
    icc := s.iccData, exif := s.exifData, xmp := s.xmpData
    frames := s.frames.map lFrameOf }

end Webp.Proofs.MuxExpect
