import Mathlib.Tactic.Ring
import Webp.Proofs.CodecFrontVP8
import Webp.Proofs.AlphaFilter
/-
  VP8 front end, part 2: the rest of `parseHeaders`, `initFrame` sizes, `DecodeFrame` plane
  slices, `buildYCbCr` / `buildNRGBA` row slices, `decodeLossy`.
-/
namespace Webp.Impl.CodecFront
open Webp.Go

variable {σ : Type}

/-! ### segment header, quantisers -/

theorem parseSegmentHeader_post (S : BitSrc σ) (s : σ) :
    (parseSegmentHeader S s).Post (fun _ => True) := by
  have key : ∀ r : SegHdr × σ,
      (if S.eof r.2 then (.err .segEOF : R (SegHdr × σ)) else .ok r).Post (fun _ => True) := by
    intro r; split <;> trivial
  unfold parseSegmentHeader
  exact key _

theorem clip_range (v mx : Int) (h : 0 ≤ mx) : 0 ≤ clip v mx ∧ clip v mx ≤ mx := by
  unfold clip
  split
  · omega
  · split <;> omega

theorem tblAt_clip_post (t : Array Nat) (v mx : Int) (h0 : 0 ≤ mx) (h : mx.toNat < t.size) :
    (tblAt t (clip v mx)).Post (fun _ => True) := by
  unfold tblAt
  have := clip_range v mx h0
  have hc : 0 ≤ clip v mx ∧ (clip v mx).toNat < t.size := by
    refine ⟨this.1, ?_⟩
    omega
  rw [if_pos hc]; trivial

theorem dc_size : Webp.Spec.VP8.Tables.dcQLookup.size = 128 := by decide +kernel
theorem ac_size : Webp.Spec.VP8.Tables.acQLookup.size = 128 := by decide +kernel

theorem quantMatrix_post (q d1 d2dc d2ac duvdc duvac : Int) :
    (quantMatrix q d1 d2dc d2ac duvdc duvac).Post (fun _ => True) := by
  unfold quantMatrix
  refine Res.Post.bind (tblAt_clip_post _ _ 127 (by decide) (by rw [dc_size]; decide)) (fun _ _ => ?_)
  refine Res.Post.bind (tblAt_clip_post _ _ 127 (by decide) (by rw [ac_size]; decide)) (fun _ _ => ?_)
  refine Res.Post.bind (tblAt_clip_post _ _ 127 (by decide) (by rw [dc_size]; decide)) (fun _ _ => ?_)
  refine Res.Post.bind (tblAt_clip_post _ _ 127 (by decide) (by rw [ac_size]; decide)) (fun _ _ => ?_)
  refine Res.Post.bind (tblAt_clip_post _ _ 117 (by decide) (by rw [dc_size]; decide)) (fun _ _ => ?_)
  refine Res.Post.bind (tblAt_clip_post _ _ 127 (by decide) (by rw [ac_size]; decide)) (fun _ _ => ?_)
  trivial

theorem parseQuant_post (S : BitSrc σ) (seg : SegHdr) (s : σ) :
    (parseQuant S seg s).Post (fun r => r.1.length = 4) := by
  unfold parseQuant
  dsimp only
  split
  · refine Res.Post.bind (quantMatrix_post ..) (fun _ _ => ?_)
    refine Res.Post.bind (quantMatrix_post ..) (fun _ _ => ?_)
    refine Res.Post.bind (quantMatrix_post ..) (fun _ _ => ?_)
    refine Res.Post.bind (quantMatrix_post ..) (fun _ _ => ?_)
    rfl
  · refine Res.Post.bind (quantMatrix_post ..) (fun _ _ => ?_)
    rfl

theorem probaLoop_length (S : BitSrc σ) : ∀ (n i : Nat) (s : σ), (probaLoop S n i s).1.length = n
  | 0, _, _ => rfl
  | n + 1, i, s => by
    unfold probaLoop
    simp only [List.length_cons, probaLoop_length S n]

/-! ### parseHeaders -/

structure HdrOK (data : Bytes) (h : Hdr) : Prop where
  tag : TagOK data h.tag
  mbW : h.mbW = (h.tag.width + 15) / 16
  mbH : h.mbH = (h.tag.height + 15) / 16
  /-- the first partition `data[10 : 10+partLen]` lies inside the payload -/
  first : 10 + h.tag.partLen ≤ data.length
  parts : PartsOK data (10 + h.tag.partLen) (h.numPartsMinusOne, h.parts)
  dqm : h.dqm.length = 4
  probs : h.coeffProbs.length = 1056

theorem parseHeaders_post (S : BitSrc σ) (data : Bytes) :
    (parseHeaders S data).Post (fun r => HdrOK data r.1) := by
  unfold parseHeaders
  refine Res.Post.bind (frameTag_post data) (fun tag htag => ?_)
  dsimp only
  have hrl : tag.rest.length = data.length - 10 := by rw [htag.rest, List.length_drop]
  have hlen := htag.len
  by_cases hpl : tag.partLen > tag.rest.length
  · rw [if_pos hpl]; trivial
  rw [if_neg hpl]
  refine Res.Post.bind (slice_post tag.rest 0 tag.partLen (by omega) (by omega)) (fun p0 _ => ?_)
  refine Res.Post.bind (sliceFrom_post tag.rest tag.partLen (by omega)) (fun tokenBuf htb => ?_)
  refine Res.Post.bind (parseSegmentHeader_post S _) (fun sg _ => ?_)
  have htb2 : tokenBuf = data.drop (10 + tag.partLen) := by rw [htb, htag.rest, List.drop_drop]
  refine Res.Post.bind (parsePartitions_post S _ data tokenBuf (10 + tag.partLen) htb2 (by omega))
    (fun pt hpt => ?_)
  refine Res.Post.bind (parseQuant_post S sg.1 pt.2) (fun dq hdq => ?_)
  exact ⟨htag, rfl, rfl, (by show 10 + tag.partLen ≤ data.length; omega), hpt, hdq,
    probaLoop_length S 1056 0 _⟩

/-! ### initFrame -/

def memTotal (m : Mem) : Nat := m.sum

theorem reuseOrGrow_post (memCap : Nat) (m : Mem) (cap n sz : Nat) :
    (reuseOrGrow memCap m cap n sz).Post (fun r => r.1 = n ∧ memTotal r.2 ≤ memTotal m + n * sz ∧
      (∀ x ∈ r.2, x ∈ m ∨ x ≤ memCap)) := by
  unfold reuseOrGrow
  by_cases h : cap ≥ n
  · rw [if_pos h]
    unfold reslice
    rw [if_pos h]
    exact ⟨rfl, Nat.le_add_right _ _, fun x hx => Or.inl hx⟩
  · rw [if_neg h]
    refine Res.Post.bind (alloc_post memCap m (n * sz)) (fun m' hm' => ?_)
    obtain ⟨e, hle⟩ := hm'
    refine ⟨rfl, ?_, ?_⟩
    · show memTotal m' ≤ _
      rw [e]; unfold memTotal; simp only [List.sum_cons]; omega
    · intro x hx
      show x ∈ m ∨ x ≤ memCap
      have hx' : x ∈ m' := hx
      rw [e] at hx'
      rcases List.mem_cons.mp hx' with rfl | hx'
      · exact Or.inr hle
      · exact Or.inl hx'

/-- the exact buffer lengths `initFrame` establishes for an `mbW × mbH` macroblock grid -/
structure BufsOK (mbW mbH : Nat) (b : Bufs) : Prop where
  yuvT : b.yuvT = mbW
  mbInfo : b.mbInfo = mbW + 1
  fInfo : b.fInfo = mbW
  mbData : b.mbData = mbW
  slab : b.slab = 4 * mbW + 832 + 384 * (mbW * mbH)
  intraT : b.intraT = 4 * mbW
  yuvB : b.yuvB = 832
  cacheY : b.cacheY = 256 * (mbW * mbH)
  cacheU : b.cacheU = 64 * (mbW * mbH)
  cacheV : b.cacheV = 64 * (mbW * mbH)
  yStride : b.cacheYStride = 16 * mbW
  uvStride : b.cacheUVStride = 8 * mbW

/-- bytes `initFrame` may allocate for an `mbW × mbH` grid (everything, when nothing is reused) -/
def initFrameBytes (mbW mbH : Nat) : Nat := 384 * (mbW * mbH) + 842 * mbW + 834

theorem initFrame_post (memCap : Nat) (caps : Caps) (mbW mbH : Nat) (m : Mem) :
    (initFrame memCap caps mbW mbH m).Post (fun r => BufsOK mbW mbH r.1 ∧
      memTotal r.2 ≤ memTotal m + initFrameBytes mbW mbH ∧ (∀ x ∈ r.2, x ∈ m ∨ x ≤ memCap)) := by
  unfold initFrame
  refine Res.Post.bind (reuseOrGrow_post memCap m caps.yuvT mbW szTopSamples) (fun r1 h1 => ?_)
  obtain ⟨yuvT, m1⟩ := r1
  obtain ⟨e1, t1, c1⟩ := h1
  refine Res.Post.bind (reuseOrGrow_post memCap m1 caps.mbInfo (mbW + 1) szMB) (fun r2 h2 => ?_)
  obtain ⟨mbInfo, m2⟩ := r2
  obtain ⟨e2, t2, c2⟩ := h2
  refine Res.Post.bind (reuseOrGrow_post memCap m2 caps.fInfo mbW szFInfo) (fun r3 h3 => ?_)
  obtain ⟨fInfo, m3⟩ := r3
  obtain ⟨e3, t3, c3⟩ := h3
  refine Res.Post.bind (reuseOrGrow_post memCap m3 caps.mbData mbW szMBData) (fun r4 h4 => ?_)
  obtain ⟨mbData, m4⟩ := r4
  obtain ⟨e4, t4, c4⟩ := h4
  dsimp only at e1 e2 e3 e4 t1 t2 t3 t4 c1 c2 c3 c4 ⊢
  subst yuvT mbInfo fInfo mbData
  have hY : mbH * 16 * (16 * mbW) = 256 * (mbW * mbH) := by ring
  have hU : mbH * 8 * (8 * mbW) = 64 * (mbW * mbH) := by ring
  rw [hY, hU]
  unfold yuvSize
  split
  · trivial
  split
  · trivial
  refine Res.Post.bind (reuseOrGrow_post memCap m4 caps.slab _ 1) (fun r5 h5 => ?_)
  obtain ⟨slab, m5⟩ := r5
  obtain ⟨e5, t5, c5⟩ := h5
  dsimp only at e5 t5 c5 ⊢
  refine Res.Post.bind (sliceLen_post slab _ _ (by omega) (by omega)) (fun intraT hi => ?_)
  refine Res.Post.bind (sliceLen_post slab _ _ (by omega) (by omega)) (fun yuvB hy => ?_)
  refine Res.Post.bind (sliceLen_post slab _ _ (by omega) (by omega)) (fun cacheY hcy => ?_)
  refine Res.Post.bind (sliceLen_post slab _ _ (by omega) (by omega)) (fun cacheU hcu => ?_)
  refine Res.Post.bind (sliceLen_post slab _ _ (by omega) (by omega)) (fun cacheV hcv => ?_)
  subst slab
  refine ⟨⟨rfl, rfl, rfl, rfl, ?_, ?_, ?_, ?_, ?_, ?_, rfl, rfl⟩, ?_, ?_⟩
  · show 4 * mbW + 832 + 256 * (mbW * mbH) + 64 * (mbW * mbH) + 64 * (mbW * mbH) = _
    omega
  · show intraT = _
    omega
  · show yuvB = _
    omega
  · show cacheY = _
    omega
  · show cacheU = _
    omega
  · show cacheV = _
    omega
  · show memTotal m5 ≤ memTotal m + initFrameBytes mbW mbH
    unfold szTopSamples at t1
    unfold szMB at t2
    unfold szFInfo at t3
    unfold szMBData at t4
    unfold initFrameBytes
    omega
  · intro x hx
    show x ∈ m ∨ x ≤ memCap
    rcases c5 x hx with h | h
    · rcases c4 x h with h | h
      · rcases c3 x h with h | h
        · rcases c2 x h with h | h
          · exact c1 x h
          · exact Or.inr h
        · exact Or.inr h
      · exact Or.inr h
    · exact Or.inr h

end Webp.Impl.CodecFront
