import Webp.Proofs.C04RefineModes2
/-
  C04 refinement, macroblock-level syntax (stage B), part 3: the sixteen sub-block modes of a `B_PRED`
  macroblock — Go `parseIntraModeRow`'s inner loops (`T.decI4Row`, `T.decI4Rows`, function-valued contexts
  in Go numbering) vs the staged `readMBHeader` (`bRow`, `bAll`, arrays in RFC numbering).
-/
namespace Webp.Proofs.C04RefineModes
open Webp.Spec.VP8
open Webp.Impl.VP8SyntaxBytes (P runR rd)
open Webp.Impl.VP8Recon (Slot)
open Webp.Proofs.C04RefineOps Webp.Proofs.C04RefineSyntax Webp.Proofs.C04RefineTokens

theorem getD_setN (a : Array Nat) (i v j : Nat) :
    (a.setIfInBounds i v).getD j 0 = if i = j ∧ i < a.size then v else a.getD j 0 := by
  rw [Array.getD_eq_getD_getElem?, Array.getElem?_setIfInBounds, Array.getD_eq_getD_getElem?]
  by_cases h1 : i = j
  · subst h1
    by_cases h2 : i < a.size
    · rw [if_pos rfl, if_pos h2, if_pos ⟨rfl, h2⟩]; rfl
    · rw [if_pos rfl, if_neg h2, if_neg (fun h => h2 h.2), Array.getElem?_eq_none (by omega)]
  · rw [if_neg h1, if_neg (fun h => h1 h.1)]

/-- the Go state (contexts above / to the left, modes so far; Go numbering) and the specification's
    (decoder, `above`, `left`, `bmodes`; RFC numbering); `D` = the sub-blocks already decoded; `A0` = the
    `above` array before the macroblock -/
structure BRel (mbX : Nat) (A0 : Array Nat) (top leftF : Fin 4 → Nat) (modes : Fin 16 → Nat) (D : Fin 16 → Prop) (s : BSt) : Prop where
  a : ∀ j : Fin 4, s.2.1.getD (4 * mbX + j.val) 0 = rfcB (top j)
  l : ∀ j : Fin 4, s.2.2.1.getD j.val 0 = rfcB (leftF j)
  m : ∀ b : Fin 16, D b → s.2.2.2.getD b.val 0 = rfcB (modes b)
  o : ∀ i, (i < 4 * mbX ∨ 4 * mbX + 4 ≤ i) → s.2.1.getD i 0 = A0.getD i 0
  asz : s.2.1.size = A0.size
  asz4 : 4 * mbX + 4 ≤ A0.size
  lsz : 4 ≤ s.2.2.1.size
  bsz : s.2.2.2.size = 16
  tlt : ∀ j, top j < 10
  llt : ∀ j, leftF j < 10

/-- **one sub-block** -/
theorem step_sim (prob : Slot → UInt8) (hb : BModeOK prob) (mbX : Nat) (A0 : Array Nat) (y x : Fin 4)
    (top leftF : Fin 4 → Nat) (modes : Fin 16 → Nat) (D : Fin 16 → Prop) (s : BSt)
    (h : BRel mbX A0 top leftF modes D s) (hk : 4 * y.val + x.val < 16) :
    ∃ mode, runD prob (T.readI4Mode (top x) (leftF y)) s.1 = some (mode, (bStep mbX y.val x.val s).1) ∧
      BRel mbX A0 (fun x' => if x' = x then mode else top x') (fun y' => if y' = y then mode else leftF y')
        (fun b => if b = ⟨4 * y.val + x.val, hk⟩ then mode else modes b)
        (fun b => D b ∨ b = ⟨4 * y.val + x.val, hk⟩) (bStep mbX y.val x.val s) := by
  obtain ⟨mode, hrun, hm, hlt⟩ := i4_runD prob hb (top x) (leftF y) (h.tlt x) (h.llt y) s.1
  have hp : (fun i => Tables.kfBModeProbs.getD ((s.2.1.getD (4 * mbX + x.val) 0 * 10 + s.2.2.1.getD y.val 0) * 9 + i) 128) =
      (fun i => Tables.kfBModeProbs.getD ((rfcB (top x) * 10 + rfcB (leftF y)) * 9 + i) 128) := by
    rw [h.a x, h.l y]
  have hstep : bStep mbX y.val x.val s =
      ((BoolDec.readTree bModeTree (fun i => Tables.kfBModeProbs.getD ((rfcB (top x) * 10 + rfcB (leftF y)) * 9 + i) 128) s.1).2,
       s.2.1.setIfInBounds (4 * mbX + x.val) (rfcB mode), s.2.2.1.setIfInBounds y.val (rfcB mode),
       s.2.2.2.setIfInBounds (4 * y.val + x.val) (rfcB mode)) := by
    unfold bStep
    simp only [hp, hm]
  refine ⟨mode, by rw [hrun, hstep], ?_⟩
  rw [hstep]
  have hasz := h.asz; have hasz4 := h.asz4; have hlsz := h.lsz; have hbsz := h.bsz
  refine ⟨?_, ?_, ?_, ?_, ?_, hasz4, ?_, ?_, ?_, ?_⟩
  · intro j
    show (s.2.1.setIfInBounds (4 * mbX + x.val) (rfcB mode)).getD (4 * mbX + j.val) 0 = _
    rw [getD_setN]
    by_cases hj : j = x
    · subst hj; rw [if_pos ⟨rfl, by omega⟩, if_pos rfl]
    · have : ¬ (4 * mbX + x.val = 4 * mbX + j.val ∧ 4 * mbX + x.val < s.2.1.size) := by
        intro hh; apply hj; apply Fin.ext; omega
      rw [if_neg this, if_neg hj]; exact h.a j
  · intro j
    show (s.2.2.1.setIfInBounds y.val (rfcB mode)).getD j.val 0 = _
    rw [getD_setN]
    by_cases hj : j = y
    · subst hj; rw [if_pos ⟨rfl, by omega⟩, if_pos rfl]
    · have : ¬ (y.val = j.val ∧ y.val < s.2.2.1.size) := by
        intro hh; apply hj; apply Fin.ext; omega
      rw [if_neg this, if_neg hj]; exact h.l j
  · intro b hD
    show (s.2.2.2.setIfInBounds (4 * y.val + x.val) (rfcB mode)).getD b.val 0 = _
    rw [getD_setN]
    by_cases hbk : b = ⟨4 * y.val + x.val, hk⟩
    · subst hbk; rw [if_pos ⟨rfl, by omega⟩, if_pos rfl]
    · have : ¬ (4 * y.val + x.val = b.val ∧ 4 * y.val + x.val < s.2.2.2.size) := by
        intro hh; apply hbk; apply Fin.ext; exact hh.1.symm
      rw [if_neg this, if_neg hbk]
      rcases hD with hD | hD
      · exact h.m b hD
      · exact absurd hD hbk
  · intro i hi
    show (s.2.1.setIfInBounds (4 * mbX + x.val) (rfcB mode)).getD i 0 = _
    rw [getD_setN, if_neg (by omega)]
    exact h.o i hi
  · show (s.2.1.setIfInBounds (4 * mbX + x.val) (rfcB mode)).size = _
    rw [Array.size_setIfInBounds]; exact hasz
  · show 4 ≤ (s.2.2.1.setIfInBounds y.val (rfcB mode)).size
    rw [Array.size_setIfInBounds]; exact hlsz
  · show (s.2.2.2.setIfInBounds (4 * y.val + x.val) (rfcB mode)).size = 16
    rw [Array.size_setIfInBounds]; exact hbsz
  · intro j; show (if j = x then mode else top j) < 10; split_ifs <;> first | exact hlt | exact h.tlt j
  · intro j; show (if j = y then mode else leftF j) < 10; split_ifs <;> first | exact hlt | exact h.llt j

end Webp.Proofs.C04RefineModes
