import Webp.Impl.VP8Recon
import Mathlib.Tactic.Ring
/-
  C06 helper: the coefficient tokens of one block — what `RecordCoeffs` emits is what
  `getCoeffsInline` reads back, with the same probability slot at every step.
-/
namespace Webp.Proofs.VP8ReconTokens
open Webp.Impl.VP8Recon

@[simp] theorem readBit_hit (sl : Slot) (b : Bool) (rest : Stream) :
    readBit sl (⟨sl, b⟩ :: rest) = some (b, rest) := by
  simp [readBit]

/-! ### extra bits -/

theorem readExtra_extraBits (v : Nat) (ps : List Nat) (acc : Nat) (rest : Stream) :
    readExtra ps acc (extraBits v ps ++ rest) = some (acc * 2 ^ ps.length + v % 2 ^ ps.length, rest) := by
  induction ps generalizing acc with
  | nil => simp [readExtra, extraBits, Nat.mod_one]
  | cons p ps ih =>
    simp only [extraBits, List.cons_append, readExtra, readBit_hit, Option.bind_some]
    rw [ih]
    congr 2
    simp only [List.length_cons]
    rw [Nat.mod_pow_succ (x := v) (b := 2) (k := ps.length), Nat.and_one_is_mod, Nat.shiftRight_eq_div_pow]
    have hb : b2n (decide (v / 2 ^ ps.length % 2 = 1)) = v / 2 ^ ps.length % 2 := by
      have h2 : v / 2 ^ ps.length % 2 < 2 := Nat.mod_lt _ (by omega)
      by_cases h : v / 2 ^ ps.length % 2 = 1
      · simp [h, b2n]
      · simp [h, b2n]; omega
    rw [hb, Nat.pow_succ]
    ring

/-! ### one level -/

theorem readLevel_recordLevel (p : Nat → Slot) (v : Nat) (h1 : 1 ≤ v) (h2 : v ≤ 2114) (rest : Stream) :
    readLevel p (recordLevel p v ++ rest) = some (v, rest) := by
  unfold recordLevel readLevel
  by_cases e1 : v = 1
  · simp [e1]
  by_cases e4 : v ≤ 4
  · by_cases e2 : v = 2
    · simp [e2]
    · by_cases e3 : v = 3
      · simp [e3, b2n]
      · have : v = 4 := by omega
        simp [this, b2n]
  by_cases e10 : v ≤ 10
  · by_cases e6 : v ≤ 6
    · by_cases e5 : v = 5
      · simp [e5, b2n]
      · have : v = 6 := by omega
        simp [this, b2n]
    · have hv : v = 7 ∨ v = 8 ∨ v = 9 ∨ v = 10 := by omega
      rcases hv with h | h | h | h <;> simp [h, b2n]
  · simp only [e1, e4, e10, if_false]
    by_cases c0 : v ≤ 18
    · have hm : (v - (3 + (8 <<< 0))) % 2 ^ 3 = v - 11 := by simp; omega
      simp [c0, b2n, catTab, readExtra_extraBits]; omega
    by_cases c1 : v ≤ 34
    · have hm : (v - (3 + (8 <<< 1))) % 2 ^ 4 = v - 19 := by simp; omega
      simp [c0, c1, b2n, catTab, readExtra_extraBits]; omega
    by_cases c2 : v ≤ 66
    · have hm : (v - (3 + (8 <<< 2))) % 2 ^ 5 = v - 35 := by simp; omega
      simp [c0, c1, c2, b2n, catTab, readExtra_extraBits]; omega
    · have hm : (v - (3 + (8 <<< 3))) % 2 ^ 11 = v - 67 := by simp; omega
      simp [c0, c1, c2, b2n, catTab, readExtra_extraBits]; omega

/-! ### the count the quantiser returns -/

theorem nzScan_le (first : Nat) (c : Coeffs) (k : Nat) : nzScan first c k ≤ k := by
  induction k with
  | zero => simp [nzScan]
  | succ k ih =>
    unfold nzScan
    split
    · split <;> omega
    · omega

/-- positions in `[max first N, k)` hold zeros, where `N` is the scan result -/
theorem nzScan_zero (first : Nat) (c : Coeffs) (k : Nat) (j : Nat) (hj : j < 16)
    (h1 : first ≤ j) (h2 : nzScan first c k ≤ j) (h3 : j < k) : c (zz ⟨j, hj⟩) = 0 := by
  induction k with
  | zero => omega
  | succ k ih =>
    unfold nzScan at h2
    by_cases hk : k < 16
    · simp only [hk, dite_true] at h2
      by_cases hc : first ≤ k ∧ c (zz ⟨k, hk⟩) ≠ 0
      · simp only [hc, and_self, ne_eq, not_false_eq_true, if_true] at h2; omega
      · simp only [hc, if_false] at h2
        by_cases e : j = k
        · subst e
          have : ¬ (c (zz ⟨j, hk⟩) ≠ 0) := fun h => hc ⟨h1, h⟩
          simpa using this
        · exact ih h2 (by omega)
    · simp only [hk, dite_false] at h2
      exact ih h2 (by omega)

/-- a positive scan result points one past a non-zero level at a position `≥ first` -/
theorem nzScan_last (first : Nat) (c : Coeffs) (k : Nat) (hk : k ≤ 16) (hp : 0 < nzScan first c k) :
    ∃ h : nzScan first c k - 1 < 16, first ≤ nzScan first c k - 1 ∧ c (zz ⟨nzScan first c k - 1, h⟩) ≠ 0 := by
  induction k with
  | zero => simp [nzScan] at hp
  | succ k ih =>
    unfold nzScan at hp ⊢
    have hk' : k < 16 := by omega
    simp only [hk', dite_true] at hp ⊢
    by_cases hc : first ≤ k ∧ c (zz ⟨k, hk'⟩) ≠ 0
    · simp only [hc, and_self, ne_eq, not_false_eq_true, if_true]
      exact ⟨by simpa using hk', by simpa using hc.1, by simpa using hc.2⟩
    · simp only [hc, if_false] at hp ⊢
      exact ih (by omega) hp

/-- "`n` is the exact count from `first`" -/
structure ExactNz (first : Nat) (c : Coeffs) (n : Nat) : Prop where
  le : n ≤ 16
  zeros : ∀ j (hj : j < 16), first ≤ j → n ≤ j → c (zz ⟨j, hj⟩) = 0
  last : 0 < n → ∃ h : n - 1 < 16, first ≤ n - 1 ∧ c (zz ⟨n - 1, h⟩) ≠ 0

theorem nzCountFrom_exact (first : Nat) (c : Coeffs) : ExactNz first c (nzCountFrom first c) :=
  ⟨nzScan_le first c 16,
   fun j hj h1 h2 => nzScan_zero first c 16 j hj h1 h2 hj,
   fun hp => nzScan_last first c 16 (by omega) hp⟩

/-! ### one block -/

/-- `kReverseZigzag` -/
def zzInvNat (i : Nat) : Nat := #[0, 1, 5, 6, 2, 4, 7, 12, 3, 8, 11, 13, 9, 10, 14, 15].getD i 0
theorem zzInvNat_lt (i : Fin 16) : zzInvNat i.val < 16 := by revert i; decide
def zzInv (i : Fin 16) : Fin 16 := ⟨zzInvNat i.val, zzInvNat_lt i⟩
theorem zz_zzInv (i : Fin 16) : zz (zzInv i) = i := by revert i; decide
theorem zzInv_zz (n : Fin 16) : zzInv (zz n) = n := by revert n; decide
theorem zzInv_zero (i : Fin 16) : (zzInv i).val = 0 ↔ i.val = 0 := by revert i; decide

/-- the coefficient array after the positions `≥ n` have been parsed -/
def fillFrom (c : Coeffs) (dq0 dq1 : Int) (n : Nat) (out : Coeffs) : Coeffs :=
  fun i => if n ≤ (zzInv i).val ∧ c i ≠ 0 then wrap16 (c i * (if (zzInv i).val = 0 then dq0 else dq1)) else out i

theorem fillFrom_skip (c : Coeffs) (dq0 dq1 : Int) (n : Nat) (hn : n < 16) (out : Coeffs)
    (hz : c (zz ⟨n, hn⟩) = 0) : fillFrom c dq0 dq1 n out = fillFrom c dq0 dq1 (n + 1) out := by
  funext i
  unfold fillFrom
  by_cases e : (zzInv i).val = n
  · have : i = zz ⟨n, hn⟩ := by rw [← zz_zzInv i]; congr 1; exact Fin.ext e
    subst this
    simp [hz]
  · by_cases h : n ≤ (zzInv i).val
    · have : n + 1 ≤ (zzInv i).val := by omega
      simp [h, this]
    · have : ¬ (n + 1 ≤ (zzInv i).val) := by omega
      simp [h, this]

theorem fillFrom_set (c : Coeffs) (dq0 dq1 : Int) (n : Nat) (hn : n < 16) (out : Coeffs)
    (hz : c (zz ⟨n, hn⟩) ≠ 0) :
    fillFrom c dq0 dq1 (n + 1) (out.set (zz ⟨n, hn⟩) (wrap16 (c (zz ⟨n, hn⟩) * (if n = 0 then dq0 else dq1)))) =
    fillFrom c dq0 dq1 n out := by
  funext i
  unfold fillFrom Coeffs.set
  by_cases e : i = zz ⟨n, hn⟩
  · subst e
    have hv : (zzInv (zz ⟨n, hn⟩)).val = n := by rw [zzInv_zz]
    simp [hv, hz]
  · have hne : (zzInv i).val ≠ n := by
      intro h
      apply e
      rw [← zz_zzInv i]; congr 1; exact Fin.ext h
    by_cases h : n ≤ (zzInv i).val
    · have : n + 1 ≤ (zzInv i).val := by omega
      simp [h, this, e]
    · have : ¬ (n + 1 ≤ (zzInv i).val) := by omega
      simp [h, this, e]

theorem fillFrom_ge (c : Coeffs) (dq0 dq1 : Int) (n : Nat) (out : Coeffs) (hn : 16 ≤ n) :
    fillFrom c dq0 dq1 n out = out := by
  funext i
  unfold fillFrom
  have := (zzInv i).isLt
  have : ¬ (n ≤ (zzInv i).val) := by omega
  simp [this]

/-- no non-zero level at a position `≥ n`: nothing is filled in -/
theorem fillFrom_none (c : Coeffs) (dq0 dq1 : Int) (n : Nat) (out : Coeffs)
    (hz : ∀ j (hj : j < 16), n ≤ j → c (zz ⟨j, hj⟩) = 0) : fillFrom c dq0 dq1 n out = out := by
  funext i
  unfold fillFrom
  by_cases h : n ≤ (zzInv i).val
  · have := hz (zzInv i).val (zzInv i).isLt h
    have e : zz ⟨(zzInv i).val, (zzInv i).isLt⟩ = i := zz_zzInv i
    rw [e] at this
    simp [this]
  · simp [h]

def meas (n : Nat) (inner : Bool) : Nat := 2 * (16 - n) + (if inner then 0 else 1)

/-- the two state machines in lock step -/
theorem loop_roundtrip (c : Coeffs) (nC t first : Nat) (dq0 dq1 : Int) (hex : ExactNz first c nC)
    (hlev : LevelsInRange c) (rest : Stream) :
    ∀ (f1 f2 n ctx : Nat) (inner : Bool) (out : Coeffs),
      meas n inner ≤ f1 → meas n inner ≤ f2 → first ≤ n →
      (if inner then n < nC else n ≤ nC) →
      getLoop t dq0 dq1 f2 n ctx inner out (recordLoop c nC t f1 n ctx inner ++ rest) =
        some (nC, fillFrom c dq0 dq1 n out, rest) := by
  intro f1
  induction f1 with
  | zero =>
    intro f2 n ctx inner out h1 _ _ hn
    have := hex.le
    cases inner <;> first | (simp [meas] at h1 hn; done) | (simp [meas] at h1 hn; omega)
  | succ f1 ih =>
    intro f2 n ctx inner out h1 h2 hf hn
    have hle := hex.le
    cases f2 with
    | zero => cases inner <;> first | (simp [meas] at h2 hn; done) | (simp [meas] at h2 hn; omega)
    | succ f2 =>
      cases inner with
      | false =>
        simp only [Bool.false_eq_true, if_false] at hn
        simp only [meas, Bool.false_eq_true, if_false] at h1 h2
        unfold recordLoop getLoop
        by_cases h16 : n ≥ 16
        · have : nC = 16 := by omega
          subst this
          simp [h16, fillFrom_ge c dq0 dq1 n out h16]
        · simp only [h16, if_false]
          by_cases hge : n ≥ nC
          · have : n = nC := by omega
            subst this
            simp only [hge, if_true, List.cons_append, List.nil_append, readBit_hit, Option.bind_some,
              Bool.not_false, if_true]
            rw [fillFrom_none c dq0 dq1 n out (fun j hj h => hex.zeros j hj (by omega) h)]
          · simp only [hge, if_false, List.cons_append, readBit_hit, Option.bind_some, Bool.not_true,
              Bool.false_eq_true, if_false]
            exact ih f2 n ctx true out (by simp [meas]; omega) (by simp [meas]; omega) hf (by simp; omega)
      | true =>
        simp only [if_true] at hn
        simp only [meas, if_true] at h1 h2
        have hn16 : n < 16 := by omega
        unfold recordLoop getLoop
        simp only [hn16, dite_true]
        by_cases hv : c (zz ⟨n, hn16⟩) = 0
        · -- a zero inside the block: the last non-zero level lies further on
          obtain ⟨hl, _, hlast⟩ := hex.last (by omega)
          have hne : n ≠ nC - 1 := by
            intro e; subst e; exact hlast hv
          have hn1 : n + 1 < nC := by omega
          have h1' : ¬ (n + 1 ≥ 16) := by omega
          have h1'' : ¬ (n + 1 = 16) := by omega
          simp only [hv, if_true, List.cons_append, readBit_hit, Option.bind_some, Bool.not_false, if_true,
            h1', h1'', if_false]
          rw [fillFrom_skip c dq0 dq1 n hn16 out hv]
          exact ih f2 (n + 1) 0 true out (by simp [meas]; omega) (by simp [meas]; omega) (by omega) (by simp; omega)
        · have hr := hlev (zz ⟨n, hn16⟩)
          have hpos : 1 ≤ (c (zz ⟨n, hn16⟩)).natAbs := by omega
          simp only [hv, if_false, List.cons_append, List.append_assoc, readBit_hit, Option.bind_some,
            Bool.not_true, Bool.false_eq_true]
          rw [readLevel_recordLevel _ _ hpos hr]
          simp only [Option.bind_some, readBit_hit]
          have hsv : (if decide (c (zz ⟨n, hn16⟩) < 0) = true then -((c (zz ⟨n, hn16⟩)).natAbs : Int)
              else ((c (zz ⟨n, hn16⟩)).natAbs : Int)) = c (zz ⟨n, hn16⟩) := by
            by_cases hneg : c (zz ⟨n, hn16⟩) < 0
            · simp [hneg]; omega
            · simp [hneg]; omega
          rw [hsv]
          rw [← fillFrom_set c dq0 dq1 n hn16 out hv]
          exact ih f2 (n + 1) _ false _ (by simp [meas]; omega) (by simp [meas]; omega) (by omega) (by simp; omega)

/-- **one block round trip**: `getCoeffsInline` reads back what `RecordCoeffs` wrote — it returns
    the end-of-block position `decNz first nC`, has stored `int16(level · dq)` at every non-zero
    position `≥ first`, and consumed exactly the block's tokens. -/
theorem block_roundtrip (c : Coeffs) (t first ctx : Nat) (dq0 dq1 : Int) (hf : first ≤ 1)
    (hlev : LevelsInRange c) (out : Coeffs) (rest : Stream) :
    getCoeffs t ctx dq0 dq1 first out (recordCoeffs c (nzCountFrom first c) t first ctx ++ rest) =
      some (decNz first (nzCountFrom first c), fillFrom c dq0 dq1 first out, rest) := by
  have hex := nzCountFrom_exact first c
  unfold getCoeffs recordCoeffs decNz
  by_cases h : nzCountFrom first c ≤ first
  · simp only [h, if_true]
    have hz : ∀ j (hj : j < 16), first ≤ j → c (zz ⟨j, hj⟩) = 0 := by
      intro j hj hfj
      by_cases h0 : 0 < nzCountFrom first c
      · obtain ⟨_, hl, _⟩ := hex.last h0
        omega
      · exact hex.zeros j hj hfj (by omega)
    rw [fillFrom_none c dq0 dq1 first out hz]
    have h16 : ¬ (first ≥ 16) := by omega
    rw [getLoop]
    simp only [h16, if_false, List.cons_append, List.nil_append, readBit_hit, Option.bind_some, Bool.not_false,
      if_true]
  · simp only [h, if_false]
    exact loop_roundtrip c _ t first dq0 dq1 hex hlev rest 34 34 first ctx false out
      (by simp [meas]; omega) (by simp [meas]; omega) (by omega) (by simp; omega)

/-- with `first = 0` on a cleared block the result is the dequantised block -/
theorem fillFrom_zero_eq_dequant (c : Coeffs) (dq0 dq1 : Int) :
    fillFrom c dq0 dq1 0 Coeffs.zero = dequant dq0 dq1 c := by
  funext i
  unfold fillFrom dequant Coeffs.zero
  by_cases h : c i = 0
  · simp [h, wrap16]
  · have := zzInv_zero i
    by_cases h0 : i.val = 0
    · simp [h, this.mpr h0, h0]
    · have : ¬ ((zzInv i).val = 0) := fun e => h0 (this.mp e)
      simp [h, this, h0]

/-- with `first = 1` position 0 keeps what the WHT step stored -/
theorem fillFrom_one_eq (c : Coeffs) (dq0 dq1 : Int) (dc : Int) :
    fillFrom c dq0 dq1 1 (Coeffs.zero.set 0 dc) = (dequant dq0 dq1 c).set 0 dc := by
  funext i
  unfold fillFrom dequant Coeffs.set Coeffs.zero
  have hz := zzInv_zero i
  by_cases h0 : i = 0
  · subst h0
    have h1 : ¬ (1 ≤ (zzInv (0 : Fin 16)).val) := by decide
    rw [if_neg (fun h => h1 h.1)]
    rfl
  · have hv : i.val ≠ 0 := fun e => h0 (Fin.ext e)
    have h1 : ¬ ((zzInv i).val = 0) := fun e => hv (hz.mp e)
    have h2 : 1 ≤ (zzInv i).val := by omega
    by_cases h : c i = 0
    · simp [h, h0, wrap16]
    · simp [h, h0, h1, h2, hv]

end Webp.Proofs.VP8ReconTokens
