import Generated.Funcs
import Webp.Impl.VP8Kernels
import Webp.Proofs.FuncsBridge
import Webp.Proofs.FuncsListOps
/-
  Helper lemmas for `Webp/Props/C04FuncsTransformEnc.lean` (ties of the encoder-side transforms
  `fTransformWHT`, `fTransform`, `iTransformOne`, `iTransform` of internal/dsp/transforms.go).
-/
namespace Webp.Proofs.FuncsTransformEnc
open Webp.Go Webp.Go.IntSem Webp.Proofs.FuncsBridge Webp.Proofs.FuncsListOps

/-- in-range read at a literal index (the literal is kept as a `Nat` literal) -/
theorem idxI_lit (xs : List Int) (n : Nat) (h : (OfNat.ofNat n : Nat) < xs.length) :
    idxI xs (no_index (OfNat.ofNat n)) = .ok (xs.getD (OfNat.ofNat n : Nat) 0) := idxI_nat xs n h

/-- in-range write at a literal index -/
theorem setI_lit (xs : List Int) (n : Nat) (v : Int) (h : (OfNat.ofNat n : Nat) < xs.length) :
    setI xs (no_index (OfNat.ofNat n)) v = .ok (xs.set (OfNat.ofNat n : Nat) v) := setI_nat xs n v h

theorem bind_assoc {α β γ : Type} (x : R α) (f : α → R β) (g : β → R γ) :
    (x.bind f).bind g = x.bind fun a => (f a).bind g := by cases x <;> rfl

/-- the four iterations of `for i := 0; i < 4; i++` -/
theorem forRangeM_0_4_1 {σ : Type} (s : σ) (f : Int → σ → R σ) :
    forRangeM 0 4 1 s f
      = (f 0 s).bind fun s => (f 1 s).bind fun s => (f 2 s).bind fun s => f 3 s := by
  have h : tripCount 0 4 1 = 4 := by decide
  simp only [forRangeM, h, List.range, List.range.loop, List.foldl, ok_bind, bind_assoc]
  rfl

/-- Go `int16(x)`: the translator's `wrapS 16` is the kernel model's `toI16` -/
theorem wrapS16_eq_toI16 (x : Int) : wrapS 16 x = Webp.Impl.VP8Kernels.toI16 x := by
  unfold wrapS Webp.Impl.VP8Kernels.toI16
  simp only [Int.reducePow, Nat.reduceSub]
  split <;> omega

/-- a property of the 16 positions of a 4x4 block, checked position by position -/
theorem forall_lt_16 {P : Nat → Prop} (h : P 0 ∧ P 1 ∧ P 2 ∧ P 3 ∧ P 4 ∧ P 5 ∧ P 6 ∧ P 7 ∧ P 8 ∧ P 9 ∧ P 10 ∧ P 11 ∧ P 12 ∧ P 13 ∧ P 14 ∧ P 15) :
    ∀ k, k < 16 → P k := by
  intro k hk
  have hc : k = 0 ∨ k = 1 ∨ k = 2 ∨ k = 3 ∨ k = 4 ∨ k = 5 ∨ k = 6 ∨ k = 7 ∨ k = 8 ∨ k = 9 ∨ k = 10 ∨ k = 11 ∨ k = 12 ∨ k = 13 ∨ k = 14 ∨ k = 15 := by omega
  rcases hc with rfl|rfl|rfl|rfl|rfl|rfl|rfl|rfl|rfl|rfl|rfl|rfl|rfl|rfl|rfl|rfl <;> simp only [h]

/-- `idxI_lit` fused with the bind that consumes the value (a top-down `↓` simp lemma: the
    continuation is never simplified before the value is substituted) -/
theorem bind_idxI_lit {β : Type} (xs : List Int) (n : Nat) (f : Int → R β)
    (h : (OfNat.ofNat n : Nat) < xs.length) :
    Res.bind (idxI xs (no_index (OfNat.ofNat n))) f = f (xs.getD (OfNat.ofNat n : Nat) 0) := by
  rw [idxI_lit xs n h]; rfl

theorem bind_setI_lit {β : Type} (xs : List Int) (n : Nat) (v : Int) (f : List Int → R β)
    (h : (OfNat.ofNat n : Nat) < xs.length) :
    Res.bind (setI xs (no_index (OfNat.ofNat n)) v) f = f (xs.set (OfNat.ofNat n : Nat) v) := by
  rw [setI_lit xs n v h]; rfl

theorem b2i_ne (a : Int) : Generated.Funcs.b2i (decide (a ≠ 0)) = (if a ≠ 0 then 1 else 0) := by
  unfold Generated.Funcs.b2i; simp

/-! ## ranges of the inverse DCT (for the 64-bit side condition of `Clip8b`) -/

open Webp.Impl.VP8Kernels in
theorem mul1_bound (a M : Int) (h0 : -M ≤ a) (h1 : a ≤ M) : -(2 * M) ≤ mul1 a ∧ mul1 a ≤ 2 * M := by
  unfold mul1; omega

open Webp.Impl.VP8Kernels in
theorem mul2_bound (a M : Int) (h0 : -M ≤ a) (h1 : a ≤ M) : -M ≤ mul2 a ∧ mul2 a ≤ M := by
  unfold mul2; omega

open Webp.Impl.VP8Kernels in
/-- the vertical pass on `int16` coefficients stays below `5 * 2^15` -/
theorem vtmp_bound (c : Nat → Int) (hc : ∀ i, -32768 ≤ c i ∧ c i ≤ 32767) (k : Nat) :
    -163840 ≤ vtmp c k ∧ vtmp c k ≤ 163840 := by
  unfold vtmp
  have h0 := hc (k % 4)
  have h8 := hc (8 + k % 4)
  have h4 := hc (4 + k % 4)
  have h12 := hc (12 + k % 4)
  have m1 := mul1_bound (c (4 + k % 4)) 32768 (by omega) (by omega)
  have m2 := mul2_bound (c (4 + k % 4)) 32768 (by omega) (by omega)
  have m3 := mul1_bound (c (12 + k % 4)) 32768 (by omega) (by omega)
  have m4 := mul2_bound (c (12 + k % 4)) 32768 (by omega) (by omega)
  dsimp only
  split <;> omega

open Webp.Impl.VP8Kernels in
/-- … and the horizontal pass below `2^20` -/
theorem hres_vtmp_bound (c : Nat → Int) (hc : ∀ i, -32768 ≤ c i ∧ c i ≤ 32767) (k : Nat) :
    -1048576 ≤ hres (vtmp c) k ∧ hres (vtmp c) k ≤ 1048576 := by
  unfold hres
  have t0 := vtmp_bound c hc (4 * (k / 4))
  have t1 := vtmp_bound c hc (4 * (k / 4) + 1)
  have t2 := vtmp_bound c hc (4 * (k / 4) + 2)
  have t3 := vtmp_bound c hc (4 * (k / 4) + 3)
  have m1 := mul1_bound (vtmp c (4 * (k / 4) + 1)) 163840 (by omega) (by omega)
  have m2 := mul2_bound (vtmp c (4 * (k / 4) + 1)) 163840 (by omega) (by omega)
  have m3 := mul1_bound (vtmp c (4 * (k / 4) + 3)) 163840 (by omega) (by omega)
  have m4 := mul2_bound (vtmp c (4 * (k / 4) + 3)) 163840 (by omega) (by omega)
  dsimp only
  split <;> omega

/-- a type invariant of the elements (`int16`, `byte`) read through `getD … 0` -/
theorem getD_of_forall_mem (l : List Int) (P : Int → Prop) (h : ∀ x ∈ l, P x) (h0 : P 0) (i : Nat) :
    P (l.getD i 0) := by
  by_cases hi : i < l.length
  · have : l.getD i 0 = l[i] := by simp [List.getD, hi]
    rw [this]; exact h _ (List.getElem_mem hi)
  · have : l.getD i 0 = 0 := by simp [List.getD, List.getElem?_eq_none (by omega : l.length ≤ i)]
    rw [this]; exact h0

/-! ## run-time panics of a straight-line chain of slice reads and writes -/

theorem idxI_bind_panic {β : Type} (xs : List Int) (i : Int) (F : Int → R β) (h : ∀ t, F t = .panic) :
    Res.bind (idxI xs i) F = .panic := by
  unfold idxI
  split
  · rfl
  · split
    · exact h _
    · rfl

theorem setI_bind_panic {β : Type} (xs : List Int) (i v : Int) (F : List Int → R β)
    (h : ∀ t, t.length = xs.length → F t = .panic) :
    Res.bind (setI xs i v) F = .panic := by
  unfold setI
  split
  · rfl
  · split
    · exact h _ List.length_set
    · rfl

theorem idxI_lit_ge {β : Type} (xs : List Int) (n : Nat) (F : Int → R β)
    (h : xs.length ≤ (OfNat.ofNat n : Nat)) :
    Res.bind (idxI xs (no_index (OfNat.ofNat n))) F = .panic := by
  have : idxI xs ((OfNat.ofNat n : Nat) : Int) = .panic := idxI_ge xs _ (by omega)
  change Res.bind (idxI xs ((OfNat.ofNat n : Nat) : Int)) F = _
  rw [this]; rfl

theorem setI_lit_ge {β : Type} (xs : List Int) (n : Nat) (v : Int) (F : List Int → R β)
    (h : xs.length ≤ (OfNat.ofNat n : Nat)) :
    Res.bind (setI xs (no_index (OfNat.ofNat n)) v) F = .panic := by
  have : setI xs ((OfNat.ofNat n : Nat) : Int) v = .panic := setI_ge xs _ v (by omega)
  change Res.bind (setI xs ((OfNat.ofNat n : Nat) : Int) v) F = _
  rw [this]; rfl

/-- walks down a right-nested chain `Res.bind (idxI …) fun t => Res.bind (setI …) fun xs => …` until
    the first access whose index is provably (by `omega`, from the length hypotheses in the context
    and the length equations collected on the way) out of range -/
macro "panic_chain" : tactic => `(tactic|
  repeat (first
    | ((with_reducible refine idxI_lit_ge _ _ _ ?_); omega)
    | ((with_reducible refine setI_lit_ge _ _ _ _ ?_); omega)
    | ((with_reducible refine idxI_bind_panic _ _ _ ?_); intro _)
    | ((with_reducible refine setI_bind_panic _ _ _ _ ?_); intro _ _)))

theorem sliceI_panic (xs : List Int) (a : Int) (h : (xs.length : Int) < a) :
    sliceI xs a (lenI xs) = .panic := by
  unfold sliceI lenI
  have : ¬ (0 ≤ a ∧ a ≤ (xs.length : Int) ∧ (xs.length : Int) ≤ (xs.length : Int)) := by omega
  simp only [this, if_false]

theorem gen_mul1_eq : Generated.Funcs.mul1 = Webp.Impl.VP8Kernels.mul1 := by
  funext a
  simp only [Generated.Funcs.mul1, Webp.Impl.VP8Kernels.mul1, shr_lit_eq_div]
  rfl

theorem gen_mul2_eq : Generated.Funcs.mul2 = Webp.Impl.VP8Kernels.mul2 := by
  funext a
  simp only [Generated.Funcs.mul2, Webp.Impl.VP8Kernels.mul2, shr_lit_eq_div]
  rfl

/-! ## `iTransformOne` without range hypotheses: the translated `Clip8b` applied to the model's
    `ref + (hres (vtmp in) k >> 3)` -/

set_option maxRecDepth 8000 in
open Webp.Impl.VP8Kernels in
theorem iTransformOne_spec (ref inp dst : List Int)
    (hr : 100 ≤ ref.length) (hi : 16 ≤ inp.length) (hd : 100 ≤ dst.length) :
    ∃ out, Generated.Funcs.iTransformOne ref inp dst = .ok out ∧ out.length = dst.length ∧
      (∀ k, k < 16 → out.getD ((k % 4) + 32 * (k / 4)) 0 =
        Generated.Funcs.Clip8b (ref.getD ((k % 4) + 32 * (k / 4)) 0 + hres (vtmp fun i => inp.getD i 0) k / 8)) ∧
      (∀ j, (4 ≤ j % 32 ∨ 128 ≤ j) → out.getD j 0 = dst.getD j 0) := by
  unfold Generated.Funcs.iTransformOne
  have hz : (zerosI 16).length = 16 := by simp [zerosI]
  generalize zerosI 16 = z at hz
  dsimp only
  simp (disch := first | omega | (simp only [List.length_set]; omega)) only
    [↓bind_idxI_lit, ↓bind_setI_lit, getD_set_eq, getD_set_ne]
  refine ⟨_, rfl, ?_, ?_, ?_⟩
  · simp only [List.length_set]
  · apply forall_lt_16
    refine ⟨?_, ?_, ?_, ?_, ?_, ?_, ?_, ?_, ?_, ?_, ?_, ?_, ?_, ?_, ?_, ?_⟩
    all_goals
      simp (disch := first | omega | (simp only [List.length_set]; omega)) only
        [Nat.reduceMod, Nat.reduceDiv, Nat.reduceMul, Nat.reduceAdd, getD_set_eq, getD_set_ne]
      simp only [hres, vtmp, Nat.reduceMod, Nat.reduceDiv, Nat.reduceMul, Nat.reduceAdd,
        gen_mul1_eq, gen_mul2_eq, shr_lit_eq_div, Int.reducePow]
  · intro j hj
    simp (disch := first | omega | (simp only [List.length_set]; omega)) only [getD_set_ne]

end Webp.Proofs.FuncsTransformEnc
