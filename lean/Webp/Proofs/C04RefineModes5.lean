import Webp.Proofs.C04RefineModes4
/-
  C04 refinement, macroblock-level syntax (stage B), part 5: the pieces of `parseIntraModeRow` around the
  sub-block modes on the reference decoder — generic tree lemma, luma-mode branch, implied contexts.
-/
namespace Webp.Proofs.C04RefineModes
open Webp.Spec.VP8
open Webp.Impl.VP8SyntaxBytes (P runR rd)
open Webp.Impl.VP8Recon (Slot)
open Webp.Proofs.C04RefineOps Webp.Proofs.C04RefineSyntax Webp.Proofs.C04RefineTokens

/-- a Go parse function that is an RFC tree up to renumbering, on the reference decoder -/
theorem tree_runD (prob : Slot → UInt8) (tree : Array Int) (sl : Nat → Slot) (probs : Nat → Nat)
    (hp : ∀ i, (prob (sl i)).toNat = probs i) (t : P Nat) (f : Nat → Nat) (fuel start : Nat)
    (hT : (t >>= fun m => pure (f m)) = treeP tree sl fuel start) (d : BoolDec) :
    ∃ m, runD prob t d = some (m, (BoolDec.readTree.go tree probs fuel start d).2) ∧
      f m = (BoolDec.readTree.go tree probs fuel start d).1 := by
  have hD : runD prob (t >>= fun m => pure (f m)) d = some (BoolDec.readTree.go tree probs fuel start d) := by
    rw [hT]; exact treeP_runD prob tree sl probs hp fuel start d
  rw [runD_bind] at hD
  cases hrd : runD prob t d with
  | none => rw [hrd] at hD; cases hD
  | some y =>
    obtain ⟨m, d'⟩ := y
    rw [hrd] at hD
    have e : (f m, d') = BoolDec.readTree.go tree probs fuel start d := Option.some.inj hD
    exact ⟨m, by rw [← e], by rw [← e]⟩

/-- the 16×16 mode tree is `kf_ymode_tree` from its second node on -/
theorem i16_tree :
    (T.readI16Mode >>= fun m => pure (rfcY m)) =
      treeP kfYModeTree (fun i => .fixed (Tables.kfYModeProbs.getD i 128)) 15 2 := by
  ptree

theorem rfcY_lt4 : ∀ g, rfcY g = 0 ∨ rfcY g = 1 ∨ rfcY g = 2 ∨ rfcY g = 3 → g < 4 := by
  intro g h
  by_contra hc
  have hg : 4 ≤ g := by omega
  have : rfcY g = g := by
    match g, hg with
    | n + 4, _ => rfl
  omega

theorem yleaf (probs : Nat → Nat) (d : BoolDec) :
    (BoolDec.readTree.go kfYModeTree probs 15 2 d).1 ≤ 3 := by
  rw [readTree_go_succ]
  by_cases hb : (d.readBool (probs (2 >>> 1))).1 = true
  · simp only [hb, if_true]
    have e1 : kfYModeTree.getD (2 + 1) 0 = 6 := by decide
    rw [e1, if_neg (by decide), readTree_go_succ]
    by_cases hb2 : ((d.readBool (probs (2 >>> 1))).2.readBool (probs ((6 : Int).toNat >>> 1))).1 = true
    · simp only [hb2, if_true]
      have e2 : kfYModeTree.getD ((6 : Int).toNat + 1) 0 = -3 := by decide
      rw [e2, if_pos (by decide)]; exact (by decide : ((-3) : Int).natAbs ≤ 3)
    · have hb2' : ((d.readBool (probs (2 >>> 1))).2.readBool (probs ((6 : Int).toNat >>> 1))).1 = false := by simpa using hb2
      simp only [hb2', Bool.false_eq_true, if_false]
      have e2 : kfYModeTree.getD ((6 : Int).toNat + 0) 0 = -2 := by decide
      rw [e2, if_pos (by decide)]; exact (by decide : ((-2) : Int).natAbs ≤ 3)
  · have hb' : (d.readBool (probs (2 >>> 1))).1 = false := by simpa using hb
    simp only [hb', Bool.false_eq_true, if_false]
    have e1 : kfYModeTree.getD (2 + 0) 0 = 4 := by decide
    rw [e1, if_neg (by decide), readTree_go_succ]
    by_cases hb2 : ((d.readBool (probs (2 >>> 1))).2.readBool (probs ((4 : Int).toNat >>> 1))).1 = true
    · simp only [hb2, if_true]
      have e2 : kfYModeTree.getD ((4 : Int).toNat + 1) 0 = -1 := by decide
      rw [e2, if_pos (by decide)]; exact (by decide : ((-1) : Int).natAbs ≤ 3)
    · have hb2' : ((d.readBool (probs (2 >>> 1))).2.readBool (probs ((4 : Int).toNat >>> 1))).1 = false := by simpa using hb2
      simp only [hb2', Bool.false_eq_true, if_false]
      have e2 : kfYModeTree.getD ((4 : Int).toNat + 0) 0 = 0 := by decide
      rw [e2, if_pos (by decide)]; exact (by decide : (0 : Int).natAbs ≤ 3)

/-- the luma mode: `kf_ymode_tree` read in full -/
def yRead (d : BoolDec) : Nat × BoolDec :=
  BoolDec.readTree kfYModeTree (fun i => Tables.kfYModeProbs.getD i 128) d

/-- **the luma-mode branch**: Go tests `GetBit(145)` first (`B_PRED` when 0) and only then walks the 16×16 tree -/
theorem ysplit {β : Type} (prob : Slot → UInt8) (hfix : FixedOK prob) (K1 : Nat → P β) (K2 : P β) (d : BoolDec) :
    ((yRead d).1 = B_PRED ∧
      runD prob (rd (.fixed 145) >>= fun b => if b then T.readI16Mode >>= K1 else K2) d = runD prob K2 (yRead d).2) ∨
    (∃ g, g < 4 ∧ rfcY g = (yRead d).1 ∧ (yRead d).1 ≠ B_PRED ∧
      runD prob (rd (.fixed 145) >>= fun b => if b then T.readI16Mode >>= K1 else K2) d = runD prob (K1 g) (yRead d).2) := by
  have hy : yRead d = BoolDec.readTree.go kfYModeTree (fun i => Tables.kfYModeProbs.getD i 128) 16 0 d := rfl
  rw [hy, readTree_go_succ, runD_rd_bind, hfix 145 (by omega)]
  have e145 : Tables.kfYModeProbs.getD (0 >>> 1) 128 = 145 := by decide
  rw [e145]
  by_cases hb : (d.readBool 145).1 = true
  · right
    simp only [hb, if_true]
    have e1 : kfYModeTree.getD (0 + 1) 0 = 2 := by decide
    rw [e1, if_neg (by decide)]
    obtain ⟨g, hg, hf⟩ := tree_runD prob kfYModeTree (fun i => .fixed (Tables.kfYModeProbs.getD i 128))
      (fun i => Tables.kfYModeProbs.getD i 128) (fun i => hfix _ (kfY_le i)) T.readI16Mode rfcY 15 2 i16_tree (d.readBool 145).2
    have hle := yleaf (fun i => Tables.kfYModeProbs.getD i 128) (d.readBool 145).2
    have e2 : ((2 : Int).toNat) = 2 := rfl
    rw [e2]
    refine ⟨g, rfcY_lt4 g (by rw [hf]; omega), hf, ?_, ?_⟩
    · unfold B_PRED; omega
    · rw [runD_bind_of' prob hg]
  · left
    have hb' : (d.readBool 145).1 = false := by simpa using hb
    simp only [hb', Bool.false_eq_true, if_false]
    have e1 : kfYModeTree.getD (0 + 0) 0 = -4 := by decide
    rw [e1, if_pos (by decide)]
    exact ⟨rfl, rfl⟩

end Webp.Proofs.C04RefineModes
