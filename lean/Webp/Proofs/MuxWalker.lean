import Webp.Proofs.MuxParserExt
/-
  C14, extended format, spec walker side: the assembled file is a well-formed container whose
  layout is `expL s`.
-/
namespace Webp.Proofs.MuxWalker
open Webp.Go Webp.Impl Webp.Impl.Mux Webp.Proofs.MuxBytes Webp.Proofs.MuxChunk
  Webp.Proofs.MuxAccepted Webp.Proofs.MuxCore Webp.Proofs.MuxRiffWrap Webp.Proofs.MuxExpect
  Webp.Proofs.MuxSimple Webp.Proofs.MuxDemuxExt Webp.Proofs.MuxAlpha Webp.Proofs.MuxValidate
  Webp.Proofs.MuxDemuxFinal
open Webp.Spec.Riff
open Webp.Impl.Demux (splitAlphaAndBitstream frameDimensions)
open Webp.Impl.Parser (ccVP8 ccVP8L ccVP8X ccALPH ccANIM ccANMF ccICCP ccEXIF ccXMP)

theorem tags : tagVP8 = ccVP8 ∧ tagVP8L = ccVP8L ∧ tagVP8X = ccVP8X ∧ tagALPH = ccALPH ∧ tagANIM = ccANIM ∧
    tagANMF = ccANMF ∧ tagICCP = ccICCP ∧ tagEXIF = ccEXIF ∧ tagXMP = ccXMP :=
  ⟨rfl, rfl, rfl, rfl, rfl, rfl, rfl, rfl, rfl⟩

theorem known : isKnown ccVP8 = true ∧ isKnown ccVP8L = true ∧ isKnown ccVP8X = true ∧ isKnown ccALPH = true ∧
    isKnown ccANIM = true ∧ isKnown ccANMF = true ∧ isKnown ccICCP = true ∧ isKnown ccEXIF = true ∧
    isKnown ccXMP = true := by
  obtain ⟨t1, t2, t3, t4, t5, t6, t7, t8, t9⟩ := tags
  unfold isKnown
  rw [t1, t2, t3, t4, t5, t6, t7, t8, t9]
  simp

theorem skipUnknown_known (c : RawChunk) (cs : List RawChunk) (h : isKnown c.id = true) :
    skipUnknown (c :: cs) = c :: cs := by
  unfold skipUnknown; rw [if_pos h]

theorem takeOpt_same (tag : Nat) (d : Bytes) (rest : List RawChunk) (h : isKnown tag = true) :
    takeOpt tag (⟨tag, d⟩ :: rest) = (some d, rest) := by
  unfold takeOpt
  rw [skipUnknown_known ⟨tag, d⟩ rest h]
  show (if tag = tag then _ else _) = _
  rw [if_pos rfl]

theorem takeOpt_other (tag : Nat) (c : RawChunk) (rest : List RawChunk) (h : isKnown c.id = true)
    (hne : c.id ≠ tag) : takeOpt tag (c :: rest) = (none, c :: rest) := by
  unfold takeOpt
  rw [skipUnknown_known c rest h]
  show (if c.id = tag then _ else _) = _
  rw [if_neg hne]

theorem takeOpt_nil (tag : Nat) : takeOpt tag [] = (none, []) := rfl

/-- the image chunks of one frame, as the walker reads them -/
theorem takeImage_imgChunks (data : Bytes) (rest : List RawChunk) (hok : frameOK data = true) :
    takeImage (imgChunks data ++ rest) =
      .ok (isLossless data, (frameDimensions data).1, (frameDimensions data).2,
           isLossless data && vp8lA (splitAlphaAndBitstream data).2,
           (splitAlphaAndBitstream data).1, (splitAlphaAndBitstream data).2, rest) := by
  obtain ⟨t1, t2, t3, t4, t5, t6, t7, t8, t9⟩ := tags
  obtain ⟨k1, k2, k3, k4, k5, k6, k7, k8, k9⟩ := known
  obtain ⟨n1, n2, n3, n4, n5, n6, l1, l2, l3, l4, l5, l6, a1, a2, a3, a4, a5, a6, a7, n7⟩ := cc_img_ne
  unfold frameOK at hok
  cases hα : (splitAlphaAndBitstream data).1 with
  | none =>
    rw [hα] at hok
    simp only [Option.isSome_none, Bool.false_eq_true, if_false, Bool.or_eq_true] at hok
    rcases hok with h8 | h8l
    · have ff := vp8OK_facts h8
      have hid := ff.detect
      have hdims := ff.dimsOf (data := data) rfl
      simp only [imgChunks, hα, optC, List.nil_append, List.cons_append, hid, takeImage, t4, t1, t2]
      rw [takeOpt_other ccALPH ⟨ccVP8, (splitAlphaAndBitstream data).2⟩ rest k1 n6]
      simp only [skipUnknown_known ⟨ccVP8, (splitAlphaAndBitstream data).2⟩ rest k1, if_true, ff.specHeader, hdims,
        isLossless, hid, n7, decide_false, Bool.false_and]
    · have ff := vp8lOK_facts h8l
      have hid := ff.detect
      have hdims := ff.dimsOf (data := data) rfl
      simp only [imgChunks, hα, optC, List.nil_append, List.cons_append, hid, takeImage, t4, t1, t2]
      rw [takeOpt_other ccALPH ⟨ccVP8L, (splitAlphaAndBitstream data).2⟩ rest k2 l6]
      simp only [skipUnknown_known ⟨ccVP8L, (splitAlphaAndBitstream data).2⟩ rest k2, n7.symm, if_false, if_true, Option.isSome_none, Bool.false_eq_true,
        ff.specHeader, hdims, isLossless, hid, decide_true, Bool.true_and]
  | some a =>
    rw [hα] at hok
    simp only [Option.isSome_some, if_true] at hok
    have ff := vp8OK_facts hok
    have hid := ff.detect
    have hdims := ff.dimsOf (data := data) rfl
    simp only [imgChunks, hα, optC, List.cons_append, List.nil_append, hid, takeImage, t4, t1, t2]
    rw [takeOpt_same ccALPH a (⟨ccVP8, (splitAlphaAndBitstream data).2⟩ :: rest) k4]
    simp only [skipUnknown_known ⟨ccVP8, (splitAlphaAndBitstream data).2⟩ rest k1, if_true, ff.specHeader, hdims,
      isLossless, hid, n7, decide_false, Bool.false_and]

theorem ebind_ok {α β : Type} (a : α) (f : α → Except String β) : (Except.ok a >>= f) = f a := rfl

/-- the walker's `frameOf`, once the sub-chunks and the image have been read -/
theorem frameOf_of {cw ch : Nat} {p : Bytes} {subs : List RawChunk} {l a : Bool} {w h : Nat}
    {alph : Option Bytes} {bs : Bytes}
    (hl : 16 ≤ p.length) (h1 : splitChunks (p.length + 1) (p.drop 16) = .ok subs)
    (h2 : takeImage subs = .ok (l, w, h, a, alph, bs, [])) (hbits : byteAt p 15 / 4 = 0)
    (hw : 1 + le24 p 6 = w) (hh : 1 + le24 p 9 = h)
    (hx : 2 * le24 p 0 + (1 + le24 p 6) ≤ cw) (hy : 2 * le24 p 3 + (1 + le24 p 9) ≤ ch) :
    frameOf cw ch p = .ok {
      offsetX := 2 * le24 p 0, offsetY := 2 * le24 p 3, width := 1 + le24 p 6,
      height := 1 + le24 p 9, duration := le24 p 12, blendNone := decide (byteAt p 15 / 2 % 2 = 1),
      disposeBG := decide (byteAt p 15 % 2 = 1), lossless := l, alpha := alph, bitstream := bs } := by
  unfold frameOf
  have h0 : ¬ p.length < 16 := by omega
  have h3 : ¬ (1 + le24 p 6 ≠ w ∨ 1 + le24 p 9 ≠ h) := by omega
  have h4 : ¬ (2 * le24 p 0 + (1 + le24 p 6) > cw ∨ 2 * le24 p 3 + (1 + le24 p 9) > ch) := by omega
  simp only [h0, if_false, h1, ebind_ok, h2, skipUnknown, ne_eq, not_true_eq_false, hbits, h3, h4]


/-- per-frame hypotheses of the walker: the animated-frame facts plus "inside the canvas" -/
structure WalkFrameOK (cw ch : Nat) (f : MuxFrame) : Prop extends AnimFrameOK f where
  insideX : 2 * (Int.tdiv f.opts.offsetX 2).toNat + (frameDimensions f.data).1 ≤ cw
  insideY : 2 * (Int.tdiv f.opts.offsetY 2).toNat + (frameDimensions f.data).2 ≤ ch

theorem imgChunks_bounds (data : Bytes) (hok : frameOK data = true) (hsz : frameLen false data ≤ 4294967286) :
    ∀ c ∈ imgChunks data, c.id < 4294967296 ∧ c.data.length ≤ 4294967286 := by
  have bf := bsFacts hok
  unfold frameLen at hsz
  simp only [Bool.false_eq_true, if_false, padLen, Nat.zero_add] at hsz
  have hidlt : detectBitstreamType (splitAlphaAndBitstream data).2 < 4294967296 := by
    rcases bf.idVP with h | h <;> rw [h]
    · exact cc_lt.1
    · exact cc_lt.2.1
  intro c hc
  unfold imgChunks at hc
  cases hα : (splitAlphaAndBitstream data).1 with
  | none =>
    rw [hα] at hc hsz
    simp only [optC, List.nil_append, List.mem_singleton, optLen] at hc hsz
    subst hc
    exact ⟨hidlt, by simp only; omega⟩
  | some a =>
    rw [hα] at hc hsz
    simp only [optC, List.cons_append, List.nil_append, List.mem_cons, List.not_mem_nil, or_false, optLen,
      padLen] at hc hsz
    rcases hc with hc | hc
    · subst hc; exact ⟨cc_lt.2.2.2.1, by simp only; omega⟩
    · subst hc; exact ⟨hidlt, by simp only; omega⟩

theorem frameOf_mux (cw ch : Nat) (f : MuxFrame) (h : WalkFrameOK cw ch f) :
    frameOf cw ch (anmfPayload f) = .ok (lFrameOf f) := by
  have bf := bsFacts h.ok
  have hfl := frameLen_true f.data
  have hpl : (anmfPayload f).length = 16 + frameLen false f.data := by
    unfold anmfPayload; rw [List.length_append, anmfHdr_length, imgChunks_length]
  have rd := anmfPayload_reads f h.toAnimFrameOK
  have hdrop : (anmfPayload f).drop 16 = serAll (imgChunks f.data) := by
    unfold anmfPayload; exact List.drop_left' (anmfHdr_length f)
  have hsz := h.size
  have hw : 1 + le24 (anmfPayload f) 6 = (frameDimensions f.data).1 := by rw [← rd.w]; omega
  have hh : 1 + le24 (anmfPayload f) 9 = (frameDimensions f.data).2 := by rw [← rd.h]; omega
  have hic : (imgChunks f.data).length ≤ 2 := by
    unfold imgChunks; cases (splitAlphaAndBitstream f.data).1 <;> simp [optC]
  have h1 : splitChunks ((anmfPayload f).length + 1) ((anmfPayload f).drop 16) = .ok (imgChunks f.data) := by
    rw [hdrop]
    exact splitChunks_serAll _ _ (by rw [hpl]; omega) (imgChunks_bounds f.data h.ok (by omega))
  have h2 := takeImage_imgChunks f.data [] h.ok
  rw [List.append_nil] at h2
  have hflag : ((if f.opts.disposeMode = 1 then 1 else 0) + (if f.opts.blendMode = 1 then 2 else 0) : Nat) ≤ 3 := by
    split <;> split <;> omega
  rw [frameOf_of (by rw [hpl]; omega) h1 h2 (by rw [rd.flag]; omega) hw hh
    (by rw [rd.ox, hw]; exact h.insideX) (by rw [rd.oy, hh]; exact h.insideY)]
  have k1 : decide (((if f.opts.disposeMode = 1 then 1 else 0) + if f.opts.blendMode = 1 then 2 else 0) / 2 % 2 = 1) =
      decide (f.opts.blendMode = 1) := by
    by_cases hd : f.opts.disposeMode = 1 <;> by_cases hb : f.opts.blendMode = 1 <;> simp [hd, hb]
  have k2 : decide (((if f.opts.disposeMode = 1 then 1 else 0) + if f.opts.blendMode = 1 then 2 else 0) % 2 = 1) =
      decide (f.opts.disposeMode = 1) := by
    by_cases hd : f.opts.disposeMode = 1 <;> by_cases hb : f.opts.blendMode = 1 <;> simp [hd, hb]
  simp only [rd.ox, rd.oy, hw, hh, rd.dur, rd.flag, k1, k2, lFrameOf]

/-- ANMF* followed by a known non-ANMF chunk (or nothing) -/
theorem takeFrames_mux (cw ch : Nat) (fs : List MuxFrame) (tail : List RawChunk)
    (htail : tail = [] ∨ ∃ c r, tail = c :: r ∧ isKnown c.id = true ∧ c.id ≠ tagANMF)
    (hok : ∀ f ∈ fs, WalkFrameOK cw ch f) :
    takeFrames cw ch (fs.map (fun f => ⟨ccANMF, anmfPayload f⟩) ++ tail) = .ok (fs.map lFrameOf, tail) := by
  induction fs with
  | nil =>
    simp only [List.map_nil, List.nil_append]
    rcases htail with h | ⟨c, r, h, hk, hne⟩
    · rw [h]; rfl
    · rw [h]; unfold takeFrames; rw [if_neg hne, if_pos hk]
  | cons f fs ih =>
    simp only [List.map_cons, List.cons_append]
    unfold takeFrames
    rw [if_pos tags.2.2.2.2.2.1.symm, frameOf_mux cw ch f (hok f (List.mem_cons_self)),
      ih (fun g hg => hok g (List.mem_cons_of_mem _ hg))]
    rfl

/-- the list is empty or starts with a known chunk other than `tag` -/
def HeadOK (tag : Nat) : List RawChunk → Prop
  | [] => True
  | c :: _ => isKnown c.id = true ∧ c.id ≠ tag

theorem takeOpt_optC (tag : Nat) (o : Option Bytes) (rest : List RawChunk) (hk : isKnown tag = true)
    (hr : HeadOK tag rest) : takeOpt tag (optC tag o ++ rest) = (o, rest) := by
  cases o with
  | some d => simp only [optC, List.cons_append, List.nil_append]; exact takeOpt_same tag d rest hk
  | none =>
    simp only [optC, List.nil_append]
    cases rest with
    | nil => rfl
    | cons c r => exact takeOpt_other tag c r hr.1 hr.2

theorem headOK_optC (tag id : Nat) (o : Option Bytes) (rest : List RawChunk) (hk : isKnown id = true)
    (hne : id ≠ tag) (hr : HeadOK tag rest) : HeadOK tag (optC id o ++ rest) := by
  cases o with
  | some d => exact ⟨hk, hne⟩
  | none => exact hr

theorem headOK_frames (tag : Nat) (b : Bool) (fs : List MuxFrame) (rest : List RawChunk)
    (hok : ∀ f ∈ fs, frameOK f.data = true)
    (h1 : ccANMF ≠ tag) (h2 : ccALPH ≠ tag) (h3 : ccVP8 ≠ tag) (h4 : ccVP8L ≠ tag) (hr : HeadOK tag rest) :
    HeadOK tag ((fs.map (frameChunks b)).flatten ++ rest) := by
  obtain ⟨k1, k2, k3, k4, k5, k6, k7, k8, k9⟩ := known
  cases fs with
  | nil => exact hr
  | cons f fs =>
    simp only [List.map_cons, List.flatten_cons, List.append_assoc]
    have bf := bsFacts (hok f List.mem_cons_self)
    cases b with
    | true => exact ⟨k6, h1⟩
    | false =>
      simp only [frameChunks, Bool.false_eq_true, if_false, imgChunks]
      cases hα : (splitAlphaAndBitstream f.data).1 with
      | some a => exact ⟨k4, h2⟩
      | none =>
        simp only [optC, List.nil_append, List.cons_append]
        rcases bf.idVP with h | h
        · exact ⟨by simp only [h]; exact k1, by simp only [h]; exact h3⟩
        · exact ⟨by simp only [h]; exact k2, by simp only [h]; exact h4⟩

theorem lFrame_alpha (f : MuxFrame) (hok : frameOK f.data = true) :
    frameHasAlpha (lFrameOf f) = frameAlpha f.data := by
  unfold frameHasAlpha lFrameOf frameAlpha
  simp only
  unfold frameOK at hok
  cases hα : (splitAlphaAndBitstream f.data).1 with
  | some a => simp
  | none =>
    rw [hα] at hok
    simp only [Option.isSome_none, Bool.false_eq_true, if_false, Bool.or_eq_true] at hok
    rcases hok with h8 | h8l
    · have ff := vp8OK_facts h8
      simp [isLossless, ff.detect, cc_img_ne.2.2.2.2.2.2.2.2.2.2.2.2.2.2.2.2.2.2.2]
    · have ff := vp8lOK_facts h8l
      simp [isLossless, ff.detect, ff.specHeader]

theorem flags_decode1 (a i e x al : Bool) :
    let fl := (if a then 2 else 0) + (if i then 32 else 0) + (if e then 8 else 0) + (if x then 4 else 0) +
      (if al then 16 else 0)
    (decide (fl / 2 % 2 = 1) = a) ∧ (decide (fl / 4 % 2 = 1) = x) ∧ (decide (fl / 8 % 2 = 1) = e) ∧
    (decide (fl / 16 % 2 = 1) = al) ∧ (decide (fl / 32 % 2 = 1) = i) := by
  cases a <;> cases i <;> cases e <;> cases x <;> cases al <;> decide

/-- the VP8X payload written by the muxer passes the walker's header checks -/
theorem extended_mux (s : MuxState) (cs : List RawChunk) (vf : ValidFacts s)
    (harea : (canvasSize s).1.toNat * (canvasSize s).2.toNat < 4294967296) :
    extended (vp8xPayload s) cs =
      extendedBody (canvasSize s).1.toNat (canvasSize s).2.toNat (isAnimated s) s.xmpData.isSome
        s.exifData.isSome (hasAlpha s) s.iccData.isSome cs := by
  have hv : vp8xPayload s = [UInt8.ofNat (vp8xFlags s), 0, 0, 0,
      UInt8.ofNat (((canvasSize s).1 - 1) % 256).toNat, UInt8.ofNat (((canvasSize s).1 - 1) / 256 % 256).toNat,
      UInt8.ofNat (((canvasSize s).1 - 1) / 65536 % 256).toNat,
      UInt8.ofNat (((canvasSize s).2 - 1) % 256).toNat, UInt8.ofNat (((canvasSize s).2 - 1) / 256 % 256).toNat,
      UInt8.ofNat (((canvasSize s).2 - 1) / 65536 % 256).toNat] := rfl
  have b1 := le24I_bytes ((canvasSize s).1 - 1) (by have := vf.cw1; omega) (by have := vf.cw2; omega)
  have b2 := le24I_bytes ((canvasSize s).2 - 1) (by have := vf.ch1; omega) (by have := vf.ch2; omega)
  have fd := flags_decode (isAnimated s) s.iccData.isSome s.exifData.isSome s.xmpData.isSome (hasAlpha s)
  have fd1 := flags_decode1 (isAnimated s) s.iccData.isSome s.exifData.isSome s.xmpData.isSome (hasAlpha s)
  simp only at fd fd1
  obtain ⟨f0, _, _, _, _, _, f6, f7⟩ := fd
  obtain ⟨g1, g2, g3, g4, g5⟩ := fd1
  have hfl : (UInt8.ofNat (vp8xFlags s)).toNat = vp8xFlags s := by unfold vp8xFlags; exact f0
  have w1 : 1 + ((canvasSize s).1 - 1).toNat = (canvasSize s).1.toNat := by have := vf.cw1; omega
  have w2 : 1 + ((canvasSize s).2 - 1).toNat = (canvasSize s).2.toNat := by have := vf.ch1; omega
  have hl10 : (vp8xPayload s).length = 10 := vp8xPayload_length s
  have e0 : byteAt (vp8xPayload s) 0 = vp8xFlags s := by rw [hv]; simp only [byteAt, List.getD_cons_zero]; exact hfl
  have e1 : byteAt (vp8xPayload s) 1 = 0 := by rw [hv]; rfl
  have e2 : byteAt (vp8xPayload s) 2 = 0 := by rw [hv]; rfl
  have e3 : byteAt (vp8xPayload s) 3 = 0 := by rw [hv]; rfl
  have e4 : le24 (vp8xPayload s) 4 = ((canvasSize s).1 - 1).toNat := by
    rw [hv]; simp only [le24, byteAt, List.getD_cons_zero, List.getD_cons_succ]; exact b1
  have e7 : le24 (vp8xPayload s) 7 = ((canvasSize s).2 - 1).toNat := by
    rw [hv]; simp only [le24, byteAt, List.getD_cons_zero, List.getD_cons_succ]; exact b2
  have c1 : ¬ (vp8xFlags s % 2 ≠ 0 ∨ vp8xFlags s / 64 ≠ 0) := by
    unfold vp8xFlags; omega
  have c3 : ¬ ((canvasSize s).1.toNat * (canvasSize s).2.toNat ≥ 4294967296) := by omega
  unfold extended
  simp only [hl10, ne_eq, not_true_eq_false, if_false, e0, e1, e2, e3, e4, e7, w1, w2, c1, c3, or_self]
  unfold vp8xFlags
  rw [g1, g2, g3, g4, g5]

theorem ite_optC (b : Bool) (id : Nat) (d : Bytes) :
    (if b then [(⟨id, d⟩ : RawChunk)] else []) = optC id (if b then some d else none) := by
  cases b <;> rfl

theorem serAll_length_ge (cs : List RawChunk) : 8 * cs.length ≤ (serAll cs).length := by
  induction cs with
  | nil => simp
  | cons c cs ih => rw [serAll_cons, List.length_append, ser_length, padLen, List.length_cons]; omega

theorem mem_serAll_le (cs : List RawChunk) (c : RawChunk) (h : c ∈ cs) : padLen c.data.length ≤ (serAll cs).length := by
  induction cs with
  | nil => cases h
  | cons d cs ih =>
    rw [serAll_cons, List.length_append, ser_length]
    rcases List.mem_cons.mp h with h | h
    · subst h; omega
    · have := ih h; omega

theorem topChunks_ids (s : MuxState) (hx : needsVP8X s = true) (hok : ∀ f ∈ s.frames, frameOK f.data = true) :
    ∀ c ∈ topChunks s, c.id < 4294967296 := by
  obtain ⟨c1, c2, c3, c4, c5, c6, c7, c8, c9⟩ := cc_lt
  have hopt : ∀ (id : Nat) (o : Option Bytes) (c : RawChunk), id < 4294967296 → c ∈ optC id o → c.id < 4294967296 := by
    intro id o c hid hc
    cases o with
    | none => cases hc
    | some d => simp only [optC, List.mem_singleton] at hc; subst hc; exact hid
  intro c hc
  unfold topChunks at hc
  rw [if_pos hx] at hc
  simp only [List.mem_cons, List.mem_append, List.mem_flatten, List.mem_map] at hc
  rcases hc with rfl | hc | hc | ⟨l, ⟨f, hf, rfl⟩, hc⟩ | hc | hc
  · exact c3
  · exact hopt _ _ _ c7 hc
  · split at hc
    · simp only [List.mem_singleton] at hc; subst hc; exact c5
    · cases hc
  · have bf := bsFacts (hok f hf)
    unfold frameChunks at hc
    split at hc
    · simp only [List.mem_singleton] at hc; subst hc; exact c6
    · unfold imgChunks at hc
      simp only [List.mem_append, List.mem_singleton] at hc
      rcases hc with hc | hc
      · exact hopt _ _ _ c4 hc
      · subst hc
        rcases bf.idVP with h | h <;> simp only [h]
        · exact c1
        · exact c2
  · exact hopt _ _ _ c8 hc
  · exact hopt _ _ _ c9 hc

theorem layoutOf_vp8x (d : Bytes) (rest : List RawChunk) : layoutOf (⟨ccVP8X, d⟩ :: rest) = extended d rest := by
  simp only [layoutOf, tags.2.2.1, if_true]

/-- extended format, spec walker -/
theorem walker_ext (s : MuxState) (inv : Inv s) (af : AcceptedFacts s) (hx : needsVP8X s = true) :
    wellFormed (riffWrap (serAll (topChunks s))) = .ok (expL s) := by
  obtain ⟨t1, t2, t3, t4, t5, t6, t7, t8, t9⟩ := tags
  obtain ⟨k1, k2, k3, k4, k5, k6, k7, k8, k9⟩ := known
  have vf := validate_facts af.valid
  have hlen := topChunks_ext_length s hx
  have hsz := af.size
  have htop : topChunks s = ⟨ccVP8X, vp8xPayload s⟩ ::
      (optC ccICCP s.iccData ++ ((if isAnimated s then [⟨ccANIM, animPayload s⟩] else []) ++
        ((s.frames.map (frameChunks (isAnimated s))).flatten ++
          (optC ccEXIF s.exifData ++ optC ccXMP s.xmpData)))) := by
    unfold topChunks; rw [if_pos hx]
  have facts := riffWrap_facts (serAll (topChunks s)) (by omega)
  have hev := serAll_length_even (topChunks s)
  rw [wf_riff facts hev]
  have hge := serAll_length_ge (topChunks s)
  rw [splitChunks_serAll (topChunks s) _ (by rw [facts.len]; omega)
    (fun c hc => ⟨topChunks_ids s hx af.framesOK c hc, by
      have := mem_serAll_le _ c hc
      unfold padLen at this
      omega⟩)]
  rw [ebind_ok, htop, layoutOf_vp8x]
  have harea : (canvasSize s).1.toNat * (canvasSize s).2.toNat < 4294967296 := by
    have hc := af.canvas
    rw [if_pos hx] at hc
    have e1 : (((canvasSize s).1.toNat : Nat) : Int) = (canvasSize s).1 :=
      Int.toNat_of_nonneg (by have := vf.cw1; omega)
    have e2 : (((canvasSize s).2.toNat : Nat) : Int) = (canvasSize s).2 :=
      Int.toNat_of_nonneg (by have := vf.ch1; omega)
    have : ((((canvasSize s).1.toNat * (canvasSize s).2.toNat : Nat)) : Int) < 1073741824 := by
      rw [Int.natCast_mul, e1, e2]; exact hc
    omega
  rw [extended_mux s _ vf harea]
  -- head facts for the optional chunks
  obtain ⟨n1, n2, n3, n4, n5, n6, l1, l2, l3, l4, l5, l6, a1, a2, a3, a4, a5, a6, a7, n7⟩ := cc_img_ne
  obtain ⟨i1, i2, i3, i4, i5, i6, e1, e2, e3, e4, e5, e6, e7, x1, x2, x3, x4, x5, x6, x7, x8, m0, m1, m2, v1, v2, v3⟩ :=
    Webp.Proofs.MuxParserExt.cc_meta_ne
  have hXMPnil : ∀ tag, HeadOK tag ([] : List RawChunk) := fun _ => trivial
  have hokf := af.framesOK
  unfold extendedBody
  rw [ite_optC]
  -- ICCP
  have hI : takeOpt tagICCP (optC ccICCP s.iccData ++
      (optC ccANIM (if isAnimated s then some (animPayload s) else none) ++
        ((s.frames.map (frameChunks (isAnimated s))).flatten ++ (optC ccEXIF s.exifData ++ optC ccXMP s.xmpData)))) =
      (s.iccData, optC ccANIM (if isAnimated s then some (animPayload s) else none) ++
        ((s.frames.map (frameChunks (isAnimated s))).flatten ++ (optC ccEXIF s.exifData ++ optC ccXMP s.xmpData))) := by
    rw [t7]
    apply takeOpt_optC _ _ _ k7
    apply headOK_optC _ _ _ _ k5 i2.symm
    apply headOK_frames _ _ _ _ hokf i3.symm i6.symm i4.symm i5.symm
    apply headOK_optC _ _ _ _ k8 e7
    have := headOK_optC ccICCP ccXMP s.xmpData [] k9 x7 trivial
    rw [List.append_nil] at this
    exact this
  have hA : takeOpt tagANIM (optC ccANIM (if isAnimated s then some (animPayload s) else none) ++
        ((s.frames.map (frameChunks (isAnimated s))).flatten ++ (optC ccEXIF s.exifData ++ optC ccXMP s.xmpData))) =
      ((if isAnimated s then some (animPayload s) else none),
        ((s.frames.map (frameChunks (isAnimated s))).flatten ++ (optC ccEXIF s.exifData ++ optC ccXMP s.xmpData))) := by
    rw [t5]
    apply takeOpt_optC _ _ _ k5
    apply headOK_frames _ _ _ _ hokf m2 a4 n4 l4
    apply headOK_optC _ _ _ _ k8 e2
    have := headOK_optC ccANIM ccXMP s.xmpData [] k9 x2 trivial
    rw [List.append_nil] at this
    exact this
  have hE : takeOpt tagEXIF (optC ccEXIF s.exifData ++ optC ccXMP s.xmpData) = (s.exifData, optC ccXMP s.xmpData) := by
    rw [t8]
    apply takeOpt_optC _ _ _ k8
    have := headOK_optC ccEXIF ccXMP s.xmpData [] k9 x8 trivial
    rw [List.append_nil] at this
    exact this
  have hX : takeOpt tagXMP (optC ccXMP s.xmpData) = (s.xmpData, []) := by
    rw [t9]
    have := takeOpt_optC ccXMP s.xmpData [] k9 trivial
    rw [List.append_nil] at this
    exact this
  have hal := hasAlpha_eq s af.framesOK
  have halL : (s.frames.map lFrameOf).any frameHasAlpha = hasAlpha s := by
    rw [hal, List.any_map]
    apply any_congr_mem
    intro f hf
    exact lFrame_alpha f (hokf f hf)
  simp only [hI, hA]
  cases ha : isAnimated s with
  | false =>
    obtain ⟨f, hfs, hopts⟩ := still_frames af.valid ha
    have hfok := hokf f (by rw [hfs]; exact List.mem_cons_self)
    have bf := bsFacts hfok
    have fb := vf.frames f (by rw [hfs]; exact List.mem_cons_self)
    have hin := fb.inside (by have := bf.wpos; omega) (by have := bf.hpos; omega)
    rw [hopts] at hin
    have hfr : (s.frames.map (frameChunks false)).flatten = imgChunks f.data := by
      rw [hfs]; simp [frameChunks]
    have hF : framesOf (canvasSize s).1.toNat (canvasSize s).2.toNat none
        (imgChunks f.data ++ (optC ccEXIF s.exifData ++ optC ccXMP s.xmpData)) =
        .ok ([lFrameOf f], optC ccEXIF s.exifData ++ optC ccXMP s.xmpData) := by
      simp only [framesOf]
      rw [takeImage_imgChunks f.data _ hfok, ebind_ok]
      have hin' : (0 : Int) + (frameDimensions f.data).1 ≤ (canvasSize s).1 ∧
          (0 : Int) + (frameDimensions f.data).2 ≤ (canvasSize s).2 := hin
      have hc : ¬ ((frameDimensions f.data).1 > (canvasSize s).1.toNat ∨
          (frameDimensions f.data).2 > (canvasSize s).2.toNat) := by
        omega
      simp only [hc, if_false, lFrameOf, hopts]
      rfl
    rw [hfs] at halL
    simp only [Bool.false_eq_true, if_false, hfr, hF, ebind_ok, hE, hX, skipUnknown, ne_eq, not_true_eq_false,
      Option.isSome_none, List.map_cons, List.map_nil] at halL ⊢
    simp [halL, expL, hx, ha, hfs]
    rfl
  | true =>
    have hok := animFrameOK inv af hx ha
    have hwalk : ∀ f ∈ s.frames, WalkFrameOK (canvasSize s).1.toNat (canvasSize s).2.toNat f := by
      intro f hf
      have a := hok f hf
      have bf := bsFacts a.ok
      have fb := vf.frames f hf
      have hin := fb.inside (by have := bf.wpos; omega) (by have := bf.hpos; omega)
      have hxd : Int.tdiv f.opts.offsetX 2 = f.opts.offsetX / 2 := Int.tdiv_eq_ediv_of_nonneg a.ox0
      have hyd : Int.tdiv f.opts.offsetY 2 = f.opts.offsetY / 2 := Int.tdiv_eq_ediv_of_nonneg a.oy0
      have := a.ox0; have := a.oy0; have := vf.cw1; have := vf.ch1
      exact { a with insideX := by omega, insideY := by omega }
    have hF : framesOf (canvasSize s).1.toNat (canvasSize s).2.toNat (some (animPayload s))
        ((s.frames.map (frameChunks true)).flatten ++ (optC ccEXIF s.exifData ++ optC ccXMP s.xmpData)) =
        .ok (s.frames.map lFrameOf, optC ccEXIF s.exifData ++ optC ccXMP s.xmpData) := by
      simp only [framesOf]
      rw [if_neg (by rw [animPayload_length]; simp), frames_flatten_anim]
      have htail : (optC ccEXIF s.exifData ++ optC ccXMP s.xmpData) = [] ∨
          ∃ c r, (optC ccEXIF s.exifData ++ optC ccXMP s.xmpData) = c :: r ∧ isKnown c.id = true ∧ c.id ≠ tagANMF := by
        rw [t6]
        cases s.exifData with
        | some d => exact Or.inr ⟨_, _, rfl, k8, e3⟩
        | none =>
          cases s.xmpData with
          | some d => exact Or.inr ⟨_, _, rfl, k9, x3⟩
          | none => exact Or.inl rfl
      rw [takeFrames_mux _ _ s.frames _ htail hwalk, ebind_ok]
      have hne := validate_frames_ne af.valid
      have : ¬ ((s.frames.map lFrameOf).length = 0) := by
        rw [List.length_map]; intro h; exact hne (List.length_eq_zero_iff.mp h)
      simp only [this, if_false]
      rfl
    have hbg : le32 (animPayload s) 0 = s.bgColor := by
      unfold animPayload
      rw [le32_hdr0]; have := inv.bg; omega
    have hlc : le16 (animPayload s) 4 = s.loopCount.toNat := by
      unfold animPayload
      have := le16_append_right (putLE32 s.bgColor) (putLE16 (s.loopCount % 65536).toNat) 0
      simp only [putLE32_length, Nat.add_zero] at this
      rw [this, le16_putLE16]
      have := inv.loop
      omega
    simp only [if_true, hF, ebind_ok, hE, hX, skipUnknown, ne_eq, not_true_eq_false, Option.isSome_some, halL,
      hbg, hlc]
    simp [expL, hx, ha]
    rfl

end Webp.Proofs.MuxWalker
