import Webp.Proofs.C04RefinePart0b
/-
  C04 refinement, frame-level syntax of the first partition, part 3: the row / macroblock loops of
  `Webp.Spec.VP8.decodeCore` keep `PInv` — so `specPass` is its first-partition thread.
-/
namespace Webp.Proofs.C04RefinePart0
open Webp.Spec.VP8

/-- loop states of `decodeCore` as the `do` notation threads them: rows, then macroblocks of a row -/
abbrev SO := BoolDec × Array BoolDec × ModeCtx × CoeffCtx × Plane × Plane × Plane × Array MBInfo × Array Bool × Array Bool
abbrev SI := BoolDec × ModeCtx × CoeffCtx × Plane × Plane × Plane × Array MBInfo × Array Bool × Array Bool × BoolDec

def c0 (mbW : Nat) : ModeCtx := { above := Array.replicate (4 * mbW) B_DC_PRED }

def IO (h : FrameHdr) (mbW : Nat) (d00 : BoolDec) (i : Nat) (s : SO) : Prop :=
  PInv h mbW d00 (mbW * i) s.1 s.2.2.2.2.2.2.2.1 ∧
    s.2.2.1 = (specPass h mbW (List.range (mbW * i)) (c0 mbW) d00 (fun _ => none)).2.1

def II (h : FrameHdr) (mbW : Nat) (d00 : BoolDec) (i j : Nat) (t : SI) : Prop :=
  PInv h mbW d00 (mbW * i + j) t.1 t.2.2.2.2.2.2.1 ∧
    t.2.1 = rowCtx j (specPass h mbW (List.range (mbW * i + j)) (c0 mbW) d00 (fun _ => none)).2.1

theorem IO_init (h : FrameHdr) (mbW : Nat) (d00 : BoolDec) (parts : Array BoolDec) (cc : CoeffCtx) (Y U V : Plane)
    (n1 n2 n3 : Nat) :
    IO h mbW d00 0 (d00, parts, c0 mbW, cc, Y, U, V, Array.mkEmpty n1, Array.mkEmpty n2, Array.mkEmpty n3) := by
  refine ⟨⟨?_, ?_, ?_⟩, ?_⟩
  · show d00 = (specPass h mbW (List.range (mbW * 0)) _ d00 _).2.2
    rw [Nat.mul_zero, List.range_zero, specPass]
  · rfl
  · intro k hk; omega
  · show c0 mbW = (specPass h mbW (List.range (mbW * 0)) _ d00 _).2.1
    rw [Nat.mul_zero, List.range_zero, specPass]

theorem IO_to_II (h : FrameHdr) (mbW : Nat) (d00 : BoolDec) (i : Nat) (s : SO) (hs : IO h mbW d00 i s)
    (cc : CoeffCtx) (Y U V : Plane) (nz bg : Array Bool) (pd : BoolDec) :
    II h mbW d00 i 0 (s.1, { above := s.2.2.1.above, left := Array.replicate 4 B_DC_PRED }, cc, Y, U, V,
      s.2.2.2.2.2.2.2.1, nz, bg, pd) := by
  refine ⟨hs.1, ?_⟩
  show ({ above := s.2.2.1.above, left := Array.replicate 4 B_DC_PRED } : ModeCtx) = _
  rw [hs.2]; rfl

theorem II_step (h : FrameHdr) (mbW : Nat) (d00 : BoolDec) (i j : Nat) (hj : j < mbW) (t : SI) (ht : II h mbW d00 i j t)
    (m' : MBInfo) (hm' : modesOf m' = modesOf (readMBHeader h j t.2.1 t.1).1)
    (cc : CoeffCtx) (Y U V : Plane) (nz bg : Array Bool) (pd : BoolDec) :
    II h mbW d00 i (j + 1) ((readMBHeader h j t.2.1 t.1).2.2, (readMBHeader h j t.2.1 t.1).2.1, cc, Y, U, V,
      t.2.2.2.2.2.2.1.push m', nz, bg, pd) := by
  have hmod : (mbW * i + j) % mbW = j := by rw [Nat.mul_add_mod, Nat.mod_eq_of_lt hj]
  have hp := pinv_step h mbW d00 (mbW * i + j) t.1 t.2.2.2.2.2.2.1 t.2.1 ht.1 (by rw [hmod]; exact ht.2) m'
    (by rw [hmod]; exact hm')
  rw [hmod] at hp
  refine ⟨hp.1, ?_⟩
  show (readMBHeader h j t.2.1 t.1).2.1 = rowCtx (j + 1) _
  unfold rowCtx
  rw [if_neg (by omega)]
  exact hp.2

theorem II_to_IO (h : FrameHdr) (mbW : Nat) (hW : 0 < mbW) (d00 : BoolDec) (i : Nat) (t : SI) (ht : II h mbW d00 i mbW t)
    (parts : Array BoolDec) (cc : CoeffCtx) (Y U V : Plane) (nz bg : Array Bool) :
    IO h mbW d00 (i + 1) (t.1, parts, t.2.1, cc, Y, U, V, t.2.2.2.2.2.2.1, nz, bg) := by
  obtain ⟨h1, h2⟩ := ht
  unfold rowCtx at h2
  rw [if_neg (by omega)] at h2
  unfold IO
  rw [Nat.mul_succ]
  exact ⟨h1, h2⟩

/-- **`specPass` is the first-partition thread of `decodeCore`**: final first-partition decoder (its `over` flag
    is `overFirst`) and the mode fields of every entry of `mbs` -/
theorem decodeCore_part0 (cv : Conv) (b : ByteArray) (D : Decoded) (hD : decodeCore cv b = .ok D) :
    ∃ h0, parseFrameTag b = .ok h0 ∧
      D.hdr = (parseFrameHdr h0 (BoolDec.init b 10 (10 + h0.firstPartSize))).1 ∧
      (0 < D.hdr.mbW → ∃ dF, D.overFirst = dF.over ∧
        PInv D.hdr D.hdr.mbW (parseFrameHdr h0 (BoolDec.init b 10 (10 + h0.firstPartSize))).2 (D.hdr.mbW * D.hdr.mbH) dF D.mbs) := by
  unfold decodeCore at hD
  simp only [bind, pure] at hD
  cases ht : parseFrameTag b with
  | err e => rw [ht] at hD; cases hD
  | panic => rw [ht] at hD; cases hD
  | hang => rw [ht] at hD; cases hD
  | ok h0 =>
    rw [ht] at hD
    simp only [Webp.Go.Res.bind] at hD
    cases hb : partitionBounds b (parseFrameHdr h0 (BoolDec.init b 10 (10 + h0.firstPartSize))).fst with
    | err e => rw [hb] at hD; cases hD
    | panic => rw [hb] at hD; cases hD
    | hang => rw [hb] at hD; cases hD
    | ok bounds =>
      rw [hb] at hD
      simp only [] at hD
      cases hD
      refine ⟨h0, rfl, ?_⟩
      generalize parseFrameHdr h0 (BoolDec.init b 10 (10 + h0.firstPartSize)) = H
      simp only [Id.run]
      refine ⟨trivial, ?_⟩
      intro hW
      generalize hR : forIn (m := Id) [:H.1.mbH] _ _ = R
      have key : IO H.1 H.1.mbW H.2 H.1.mbH R := by
        rw [← hR]
        refine forIn_range_inv _ _ _ (IO H.1 H.1.mbW H.2) (IO_init _ _ _ _ _ _ _ _ _ _ _) ?_
        intro i s _ hs
        refine ⟨_, rfl, ?_⟩
        generalize hQ : forIn (m := Id) [:H.1.mbW] _ _ = Q
        have kin : II H.1 H.1.mbW H.2 i H.1.mbW Q := by
          rw [← hQ]
          refine forIn_range_inv _ _ _ (II H.1 H.1.mbW H.2 i) (IO_to_II _ _ _ _ _ hs _ _ _ _ _ _ _) ?_
          intro j t hj ht'
          refine ⟨_, rfl, ?_⟩
          exact II_step _ _ _ _ _ hj t ht' _ (readResiduals_modes _ _ _ _ _ _) _ _ _ _ _ _ _
        exact II_to_IO _ _ hW _ _ _ kin _ _ _ _ _ _ _
      exact ⟨R.1, rfl, key.1⟩

end Webp.Proofs.C04RefinePart0
