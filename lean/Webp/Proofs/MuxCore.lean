import Webp.Proofs.MuxAccepted
import Webp.Proofs.MuxRiffWrap
/-
  Normal form of the muxer's output: under the size bound of `Accepted`,
  `assemble s = ok (riffWrap (serAll (topChunks s)))` — a RIFF header followed by a list of chunks,
  each serialised as header + payload + pad.
-/
namespace Webp.Proofs.MuxCore
open Webp.Go Webp.Impl Webp.Impl.Mux Webp.Proofs.MuxBytes Webp.Proofs.MuxChunk Webp.Proofs.MuxAccepted
  Webp.Proofs.MuxRiffWrap
open Webp.Spec.Riff (RawChunk)
open Webp.Impl.Demux (splitAlphaAndBitstream frameDimensions)
open Webp.Impl.Parser (ccRIFF ccWEBP ccVP8 ccVP8L ccVP8X ccALPH ccANIM ccANMF ccICCP ccEXIF ccXMP
  chunkHeaderSize anmfChunkSize animChunkSize vp8xChunkSize)

def optC (id : Nat) : Option Bytes → List RawChunk
  | some d => [⟨id, d⟩]
  | none => []

/-- the image chunks of one frame: optional ALPH, then VP8 / VP8L -/
def imgChunks (data : Bytes) : List RawChunk :=
  optC ccALPH (splitAlphaAndBitstream data).1 ++
    [⟨detectBitstreamType (splitAlphaAndBitstream data).2, (splitAlphaAndBitstream data).2⟩]

/-- the 16-byte ANMF frame header -/
def anmfHdr (f : MuxFrame) : Bytes :=
  putLE24I (Int.tdiv f.opts.offsetX 2) ++ putLE24I (Int.tdiv f.opts.offsetY 2) ++
  (if (frameDims f.data).1 > 0 ∧ (frameDims f.data).2 > 0 then
     putLE24I ((frameDims f.data).1 - 1) ++ putLE24I ((frameDims f.data).2 - 1)
   else [0, 0, 0, 0, 0, 0]) ++
  putLE24I f.opts.duration ++
  [UInt8.ofNat ((if f.opts.disposeMode = 1 then 1 else 0) + (if f.opts.blendMode = 1 then 2 else 0))]

def anmfPayload (f : MuxFrame) : Bytes := anmfHdr f ++ serAll (imgChunks f.data)

def frameChunks (animated : Bool) (f : MuxFrame) : List RawChunk :=
  if animated then [⟨ccANMF, anmfPayload f⟩] else imgChunks f.data

def vp8xPayload (s : MuxState) : Bytes :=
  [UInt8.ofNat (vp8xFlags s), 0, 0, 0] ++ putLE24I ((canvasSize s).1 - 1) ++ putLE24I ((canvasSize s).2 - 1)

def animPayload (s : MuxState) : Bytes := putLE32 s.bgColor ++ putLE16 (s.loopCount % 65536).toNat

/-- the top-level chunk list of the assembled file -/
def topChunks (s : MuxState) : List RawChunk :=
  if needsVP8X s then
    ⟨ccVP8X, vp8xPayload s⟩ ::
      (optC ccICCP s.iccData ++ ((if isAnimated s then [⟨ccANIM, animPayload s⟩] else []) ++
        ((s.frames.map (frameChunks (isAnimated s))).flatten ++
          (optC ccEXIF s.exifData ++ optC ccXMP s.xmpData))))
  else s.frames.map fun f => ⟨detectBitstreamType f.data, f.data⟩

@[simp] theorem putLE24I_length (v : Int) : (putLE24I v).length = 3 := rfl

theorem anmfHdr_length (f : MuxFrame) : (anmfHdr f).length = 16 := by
  unfold anmfHdr
  split <;> simp

theorem serAll_length_even (cs : List RawChunk) : (serAll cs).length % 2 = 0 := by
  induction cs with
  | nil => rfl
  | cons c cs ih =>
    rw [serAll_cons, List.length_append, ser_length, padLen]; omega

theorem optChunk_eq (id : Nat) (o : Option Bytes) : optChunk id o = serAll (optC id o) := by
  cases o <;> simp [optChunk, optC, ser]

theorem optC_length (id : Nat) (o : Option Bytes) : (serAll (optC id o)).length = optLen o := by
  cases o <;> simp [optC, optLen, ser_length]

theorem imgChunks_length (data : Bytes) :
    (serAll (imgChunks data)).length = frameLen false data := by
  unfold imgChunks frameLen
  rw [serAll_append, List.length_append, optC_length]
  simp [ser_length]

theorem u32_id {n : Nat} (h : n < 4294967296) : u32 n = n := by unfold u32; omega

theorem chunkTotalSize_eq {n : Nat} (h : n + 9 < 4294967296) : chunkTotalSize (u32 n) = padLen n := by
  unfold chunkTotalSize u32 padLen
  simp only [chunkHeaderSize]
  split <;> omega

theorem frameSubChunksSize_eq (data : Bytes) (h : frameLen false data < 4294967296) :
    frameSubChunksSize (splitAlphaAndBitstream data).1 (splitAlphaAndBitstream data).2 = frameLen false data := by
  unfold frameLen at *
  unfold frameSubChunksSize
  cases hα : (splitAlphaAndBitstream data).1 with
  | none =>
    simp only [hα, optLen, padLen, Bool.false_eq_true, if_false] at h ⊢
    rw [chunkTotalSize_eq (by omega)]
    unfold u32 padLen; omega
  | some a =>
    simp only [hα, optLen, padLen, Bool.false_eq_true, if_false] at h ⊢
    rw [chunkTotalSize_eq (by omega), chunkTotalSize_eq (by omega)]
    unfold u32 padLen; omega

theorem subChunkSize_eq (data : Bytes) (h : frameLen false data < 4294967296) :
    subChunkSize data = frameLen false data := by
  unfold subChunkSize; exact frameSubChunksSize_eq data h

theorem frameLen_true (data : Bytes) : frameLen true data = 24 + frameLen false data := by
  unfold frameLen; simp; omega

theorem frameLen_false_even (data : Bytes) : frameLen false data % 2 = 0 := by
  rw [← imgChunks_length]; exact serAll_length_even _

/-- mux.go writeANMFChunk writes exactly one serialised `ANMF` chunk -/
theorem writeANMFChunk_eq (f : MuxFrame) (h : frameLen true f.data < 4294967296) :
    writeANMFChunk f = ser ⟨ccANMF, anmfPayload f⟩ := by
  have hfl := frameLen_true f.data
  have hev := frameLen_false_even f.data
  have hsub := frameSubChunksSize_eq f.data (by omega)
  have hpl : (anmfPayload f).length = 16 + frameLen false f.data := by
    unfold anmfPayload; rw [List.length_append, anmfHdr_length, imgChunks_length]
  have e1 : u32 (16 + frameLen false f.data) = 16 + frameLen false f.data := u32_id (by omega)
  have e2 : (16 + frameLen false f.data) % 2 = 0 := by omega
  unfold writeANMFChunk ser writeDataChunk
  simp only [hsub, anmfChunkSize, hpl, e1, e2, ne_eq, not_true_eq_false, if_false]
  unfold anmfPayload anmfHdr imgChunks
  simp only [optChunk_eq, serAll_append, serAll_cons, serAll_nil, ser, writeDataChunk, List.append_assoc,
    List.append_nil]

theorem writeFrame_eq (animated : Bool) (f : MuxFrame) (h : frameLen animated f.data < 4294967296) :
    writeFrame animated f = serAll (frameChunks animated f) := by
  unfold writeFrame frameChunks
  cases animated with
  | true => simp only [if_true, writeANMFChunk_eq f h, serAll_cons, serAll_nil, List.append_nil]
  | false =>
    simp only [Bool.false_eq_true, if_false, imgChunks, optChunk_eq, serAll_append, serAll_cons, serAll_nil, ser,
      List.append_nil]

theorem frameChunks_length (animated : Bool) (f : MuxFrame) :
    (serAll (frameChunks animated f)).length = frameLen animated f.data := by
  unfold frameChunks
  cases animated with
  | true =>
    simp only [if_true, serAll_cons, serAll_nil, List.append_nil, ser_length, padLen]
    have hev := frameLen_false_even f.data
    have hpl : (anmfPayload f).length = 16 + frameLen false f.data := by
      unfold anmfPayload; rw [List.length_append, anmfHdr_length, imgChunks_length]
    rw [hpl, frameLen_true]; omega
  | false => simp only [Bool.false_eq_true, if_false, imgChunks_length]

theorem serAll_flatten (L : List (List RawChunk)) : serAll L.flatten = (L.map serAll).flatten := by
  induction L with
  | nil => rfl
  | cons a L ih => simp [ih]

theorem mem_le_sum {α} (g : α → Nat) (l : List α) (a : α) (h : a ∈ l) : g a ≤ (l.map g).sum := by
  induction l with
  | nil => cases h
  | cons b l ih =>
    simp only [List.map_cons, List.sum_cons]
    rcases List.mem_cons.mp h with h | h
    · subst h; omega
    · have := ih h; omega

theorem foldl_add {α} (F : Nat → α → Nat) (g : α → Nat) (l : List α)
    (h : ∀ a ∈ l, ∀ acc, F acc a = acc + g a) : ∀ acc, l.foldl F acc = acc + (l.map g).sum := by
  induction l with
  | nil => intro acc; simp
  | cons b l ih =>
    intro acc
    simp only [List.foldl_cons, List.map_cons, List.sum_cons]
    rw [h b (List.mem_cons_self), ih (fun a ha => h a (List.mem_cons_of_mem _ ha))]
    omega

theorem frames_flatten_eq (animated : Bool) (fs : List MuxFrame)
    (h : ∀ f ∈ fs, frameLen animated f.data < 4294967296) :
    (fs.map (writeFrame animated)).flatten = serAll (fs.map (frameChunks animated)).flatten := by
  rw [serAll_flatten, List.map_map]
  congr 1
  apply List.map_congr_left
  intro f hf
  exact writeFrame_eq animated f (h f hf)

theorem frames_length (animated : Bool) (fs : List MuxFrame) :
    (serAll (fs.map (frameChunks animated)).flatten).length = (fs.map fun f => frameLen animated f.data).sum := by
  induction fs with
  | nil => rfl
  | cons f fs ih =>
    simp only [List.map_cons, List.flatten_cons, serAll_append, List.length_append, List.sum_cons, ih,
      frameChunks_length]

theorem optChunkSize_eq (o : Option Bytes) (h : optLen o < 4294967296) : optChunkSize o = optLen o := by
  cases o with
  | none => rfl
  | some d =>
    simp only [optChunkSize, optLen, padLen] at *
    exact chunkTotalSize_eq (by omega)

theorem vp8xPayload_length (s : MuxState) : (vp8xPayload s).length = 10 := by
  simp [vp8xPayload]

theorem animPayload_length (s : MuxState) : (animPayload s).length = 6 := by
  simp [animPayload]

/-- length of the extended chunk list -/
theorem topChunks_ext_length (s : MuxState) (hx : needsVP8X s = true) :
    4 + (serAll (topChunks s)).length = exactRiffSize s := by
  unfold topChunks exactRiffSize
  simp only [hx, if_true, serAll_cons, serAll_append, List.length_append, ser_length, vp8xPayload_length,
    optC_length, frames_length, padLen]
  cases isAnimated s <;>
    simp [ser_length, padLen, animPayload_length] <;> omega

theorem ite_eq_of {α} {p : Prop} [Decidable p] {a b c : α} (ha : p → a = c) (hb : ¬ p → b = c) :
    (if p then a else b) = c := by
  split
  · exact ha ‹_›
  · exact hb ‹_›

theorem anmf_term (acc sub : Nat) (h1 : sub % 2 = 0) (h2 : 16 + sub < 4294967296) :
    (acc + (chunkHeaderSize + u32 (anmfChunkSize + sub)) +
      if u32 (anmfChunkSize + sub) % 2 ≠ 0 then 1 else 0) = acc + (24 + sub) := by
  have e : u32 (anmfChunkSize + sub) = 16 + sub := by unfold u32 anmfChunkSize; omega
  rw [e]
  have : (if (16 + sub) % 2 ≠ 0 then 1 else 0) = 0 := ite_eq_of (fun h => by omega) (fun _ => rfl)
  rw [this]
  simp only [chunkHeaderSize]; omega

theorem riffPayload64_eq (s : MuxState) (hx : needsVP8X s = true) (hsz : exactRiffSize s ≤ 4294967286) :
    riffPayload64 s = exactRiffSize s := by
  have hsz' := hsz
  unfold exactRiffSize at hsz' ⊢
  simp only [hx, if_true] at hsz' ⊢
  unfold riffPayload64
  simp only []
  cases ha : isAnimated s with
  | true =>
    simp only [ha, if_true] at hsz' ⊢
    have hf : ∀ f ∈ s.frames, frameLen true f.data ≤ (s.frames.map fun f => frameLen true f.data).sum :=
      fun f hf => mem_le_sum (fun f => frameLen true f.data) s.frames f hf
    rw [optChunkSize_eq _ (by omega), optChunkSize_eq _ (by omega), optChunkSize_eq _ (by omega)]
    rw [foldl_add _ (fun f => frameLen true f.data) s.frames]
    · simp only [chunkHeaderSize, vp8xChunkSize, animChunkSize]; omega
    · intro f hfm acc
      have hb := hf f hfm
      have hfl := frameLen_true f.data
      have hev := frameLen_false_even f.data
      rw [subChunkSize_eq f.data (by omega), anmf_term _ _ hev (by omega)]
      omega
  | false =>
    simp only [ha, Bool.false_eq_true, if_false] at hsz' ⊢
    have hf : ∀ f ∈ s.frames, frameLen false f.data ≤ (s.frames.map fun f => frameLen false f.data).sum :=
      fun f hf => mem_le_sum (fun f => frameLen false f.data) s.frames f hf
    rw [optChunkSize_eq _ (by omega), optChunkSize_eq _ (by omega), optChunkSize_eq _ (by omega)]
    rw [foldl_add _ (fun f => frameLen false f.data) s.frames]
    · simp only [chunkHeaderSize, vp8xChunkSize]; omega
    · intro f hfm acc
      have hb := hf f hfm
      rw [subChunkSize_eq f.data (by omega)]

/-- the uint64 running total of `assembleExtended` is the exact size as long as no single chunk size wraps -/
theorem riffPayload64_eq' (s : MuxState) (hx : needsVP8X s = true)
    (h1 : optLen s.iccData < 4294967296) (h2 : optLen s.exifData < 4294967296) (h3 : optLen s.xmpData < 4294967296)
    (hf : ∀ f ∈ s.frames, frameLen (isAnimated s) f.data < 4294967296) :
    riffPayload64 s = exactRiffSize s := by
  unfold exactRiffSize
  simp only [hx, if_true]
  unfold riffPayload64
  simp only []
  rw [optChunkSize_eq _ h1, optChunkSize_eq _ h2, optChunkSize_eq _ h3]
  cases ha : isAnimated s with
  | true =>
    rw [ha] at hf
    simp only [if_true]
    rw [foldl_add _ (fun f => frameLen true f.data) s.frames]
    · simp only [chunkHeaderSize, vp8xChunkSize, animChunkSize]; omega
    · intro f hfm acc
      have hb := hf f hfm
      have hfl := frameLen_true f.data
      have hev := frameLen_false_even f.data
      rw [subChunkSize_eq f.data (by omega), anmf_term _ _ hev (by omega)]
      omega
  | false =>
    rw [ha] at hf
    simp only [Bool.false_eq_true, if_false]
    rw [foldl_add _ (fun f => frameLen false f.data) s.frames]
    · simp only [chunkHeaderSize, vp8xChunkSize]; omega
    · intro f hfm acc
      have hb := hf f hfm
      rw [subChunkSize_eq f.data (by omega)]

/-- when the exact size fits, no ANMF payload is too large for its size field -/
theorem anmf_fits (s : MuxState) (hx : needsVP8X s = true) (hsz : exactRiffSize s ≤ 4294967286) :
    anmfTooLarge s = false := by
  unfold anmfTooLarge
  cases ha : isAnimated s with
  | false => rfl
  | true =>
    simp only [Bool.true_and, List.any_eq_false, decide_eq_true_eq]
    intro f hf
    unfold exactRiffSize at hsz
    simp only [hx, ha, if_true] at hsz
    have hle := mem_le_sum (fun f => frameLen true f.data) s.frames f hf
    have hfl : frameLen true f.data = 24 + optLen (splitAlphaAndBitstream f.data).1 +
        padLen (splitAlphaAndBitstream f.data).2.length := by unfold frameLen; simp
    simp only [hfl] at hle
    simp only [anmfChunkSize, chunkHeaderSize]
    cases hα : (splitAlphaAndBitstream f.data).1 with
    | none => rw [hα] at hle; simp only [optLen, padLen, Option.getD_none, List.length_nil] at hle ⊢; omega
    | some a => rw [hα] at hle; simp only [optLen, padLen, Option.getD_some] at hle ⊢; omega

theorem validate_frames_ne {s : MuxState} (hv : validate s = .ok ()) : s.frames ≠ [] := by
  intro h
  unfold validate validateWith at hv
  simp [h] at hv

theorem not_animated_length {s : MuxState} (h : isAnimated s = false) : s.frames.length ≤ 1 := by
  unfold isAnimated at h
  simp only [Bool.or_eq_false_iff, decide_eq_false_iff_not] at h
  omega

/-- mux.go Assemble: the output is a RIFF header followed by the serialised top-level chunks -/
theorem assemble_eq (s : MuxState) (hv : validate s = .ok ()) (hsz : exactRiffSize s ≤ 4294967286) :
    assemble s = .ok (riffWrap (serAll (topChunks s))) := by
  unfold assemble
  rw [hv]
  simp only [Res.bind_ok]
  cases hx : needsVP8X s with
  | false =>
    simp only [Bool.not_false, if_true]
    have hne := validate_frames_ne hv
    have hna : isAnimated s = false := by
      unfold needsVP8X at hx
      simp only [Bool.or_eq_false_iff] at hx
      exact hx.1.1.1.1.1
    have hlen := not_animated_length hna
    match hfs : s.frames, hne, hlen with
    | [f], _, _ =>
      unfold exactRiffSize at hsz
      simp only [hx, hfs, Bool.false_eq_true, if_false, padLen] at hsz
      unfold assembleSimple topChunks
      simp only [hfs, hx, Bool.false_eq_true, if_false, List.map_cons, List.map_nil, serAll_cons, serAll_nil,
        List.append_nil, riffWrap, ser_length, padLen, chunkHeaderSize]
      have e1 : u32 f.data.length = f.data.length := u32_id (by omega)
      have e2 : u32 (4 + 8 + if f.data.length % 2 ≠ 0 then u32 (f.data.length + 1) else f.data.length) =
          4 + (8 + f.data.length + f.data.length % 2) := by
        by_cases hp : f.data.length % 2 = 0
        · rw [if_neg (by omega)]; unfold u32; omega
        · rw [if_pos (by omega)]; unfold u32; omega
      simp only [e1, e2, ser, writeDataChunk, List.append_assoc]
  | true =>
    simp only [Bool.not_true, Bool.false_eq_true, if_false]
    have hlen := topChunks_ext_length s hx
    have htot := riffPayload64_eq s hx hsz
    have hsz' := hsz
    unfold exactRiffSize at hsz'
    simp only [hx, if_true] at hsz'
    have hf : ∀ f ∈ s.frames, frameLen (isAnimated s) f.data < 4294967296 := by
      intro f hfm
      have := mem_le_sum (fun f => frameLen (isAnimated s) f.data) s.frames f hfm
      omega
    have hanmf := anmf_fits s hx hsz
    unfold assembleExtended assembleExtendedWith
    simp only [htot, hanmf, Bool.false_eq_true, and_false, if_false, if_true]
    rw [if_neg (by omega), u32_id (by omega)]
    unfold riffWrap
    rw [← hlen]
    unfold topChunks
    simp only [hx, if_true, serAll_cons, serAll_append, frames_flatten_eq _ _ hf, optChunk_eq, List.append_assoc]
    have hvx : writeChunkHeader ccVP8X vp8xChunkSize ++
        ([UInt8.ofNat (vp8xFlags s), 0, 0, 0] ++ (putLE24I ((canvasSize s).1 - 1) ++ putLE24I ((canvasSize s).2 - 1))) =
        ser ⟨ccVP8X, vp8xPayload s⟩ := by
      unfold ser writeDataChunk
      simp only [vp8xPayload_length]
      simp [vp8xPayload, vp8xChunkSize, u32]
    cases ha : isAnimated s with
    | false =>
      simp only [Bool.false_eq_true, if_false, serAll_nil, List.nil_append]
      rw [← hvx]
      simp only [List.append_assoc]
    | true =>
      have han : writeChunkHeader ccANIM animChunkSize ++ (putLE32 s.bgColor ++ putLE16 (s.loopCount % 65536).toNat) =
          ser ⟨ccANIM, animPayload s⟩ := by
        unfold ser writeDataChunk
        simp only [animPayload_length]
        simp [animPayload, animChunkSize, u32]
      simp only [if_true, serAll_cons, serAll_nil, List.append_nil]
      rw [← hvx, ← han]
      simp only [List.append_assoc]

end Webp.Proofs.MuxCore
