import Webp.Proofs.C04RefineModes3
/-
  C04 refinement, macroblock-level syntax (stage B), part 4: rows of sub-block modes and all sixteen.
-/
namespace Webp.Proofs.C04RefineModes
open Webp.Spec.VP8
open Webp.Impl.VP8SyntaxBytes (P runR rd)
open Webp.Impl.VP8Recon (Slot)
open Webp.Proofs.C04RefineOps Webp.Proofs.C04RefineSyntax Webp.Proofs.C04RefineTokens

theorem runD_bind_of' {α β : Type} (prob : Slot → UInt8) {x : P α} {d : BoolDec} {a : α} {d' : BoolDec}
    (h : runD prob x d = some (a, d')) (f : α → P β) : runD prob (x >>= f) d = runD prob (f a) d' := by
  rw [runD_bind, h]; rfl

theorem brel_congr {mbX : Nat} {A0 : Array Nat} {top leftF leftF' : Fin 4 → Nat} {modes : Fin 16 → Nat}
    {D D' : Fin 16 → Prop} {s : BSt} (h : BRel mbX A0 top leftF modes D s) (hl : ∀ j, leftF' j = leftF j)
    (hD : ∀ b, D' b → D b) : BRel mbX A0 top leftF' modes D' s :=
  ⟨h.a, fun j => by rw [hl]; exact h.l j, fun b hb => h.m b (hD b hb), h.o, h.asz, h.asz4, h.lsz, h.bsz, h.tlt,
    fun j => by rw [hl]; exact h.llt j⟩

theorem decI4Row_cons (y : Nat) (x : Fin 4) (xs : List (Fin 4)) (top : Fin 4 → Nat) (ymode : Nat) (modes : Fin 16 → Nat) :
    Webp.Impl.VP8SyntaxBytes.T.decI4Row y (x :: xs) top ymode modes =
      if h : 4 * y + x.val < 16 then
        T.readI4Mode (top x) ymode >>= fun mode =>
        Webp.Impl.VP8SyntaxBytes.T.decI4Row y xs (fun x' => if x' = x then mode else top x') mode
          (fun b => if b = ⟨4 * y + x.val, h⟩ then mode else modes b)
      else .fail := rfl

/-- **one row of sub-block modes** -/
theorem row_sim (prob : Slot → UInt8) (hb : BModeOK prob) (mbX : Nat) (A0 : Array Nat) (y : Fin 4) :
    ∀ (xs : List (Fin 4)) (top : Fin 4 → Nat) (ymode : Nat) (leftF : Fin 4 → Nat) (modes : Fin 16 → Nat)
      (D : Fin 16 → Prop) (s : BSt), BRel mbX A0 top leftF modes D s → leftF y = ymode →
      ∃ top' ymode' modes',
        runD prob (Webp.Impl.VP8SyntaxBytes.T.decI4Row y.val xs top ymode modes) s.1 =
          some ((top', ymode', modes'), (xs.foldl (fun s x => bStep mbX y.val x.val s) s).1) ∧
        BRel mbX A0 top' (fun y' => if y' = y then ymode' else leftF y') modes'
          (fun b => D b ∨ ∃ x ∈ xs, b.val = 4 * y.val + x.val) (xs.foldl (fun s x => bStep mbX y.val x.val s) s) := by
  intro xs
  induction xs with
  | nil =>
    intro top ymode leftF modes D s h hy
    refine ⟨top, ymode, modes, rfl, brel_congr h ?_ ?_⟩
    · intro j; by_cases hj : j = y
      · subst hj; rw [if_pos rfl, hy]
      · rw [if_neg hj]
    · intro b hb; rcases hb with hb | ⟨x, hx, _⟩
      · exact hb
      · cases hx
  | cons x xs ih =>
    intro top ymode leftF modes D s h hy
    have hk : 4 * y.val + x.val < 16 := by omega
    obtain ⟨mode, hrun, h1⟩ := step_sim prob hb mbX A0 y x top leftF modes D s h hk
    rw [hy] at hrun
    obtain ⟨top', ymode', modes', hrun2, h2⟩ := ih (fun x' => if x' = x then mode else top x') mode
      (fun y' => if y' = y then mode else leftF y') (fun b => if b = ⟨4 * y.val + x.val, hk⟩ then mode else modes b)
      (fun b => D b ∨ b = ⟨4 * y.val + x.val, hk⟩) (bStep mbX y.val x.val s) h1 (by rw [if_pos rfl])
    refine ⟨top', ymode', modes', ?_, ?_⟩
    · rw [decI4Row_cons, dif_pos hk, runD_bind_of' prob hrun]
      exact hrun2
    · rw [List.foldl_cons]
      refine brel_congr h2 ?_ ?_
      · intro j; by_cases hj : j = y
        · rw [if_pos hj, if_pos hj]
        · rw [if_neg hj, if_neg hj, if_neg hj]
      · intro b hb
        rcases hb with hb | ⟨x', hx', hbx⟩
        · exact Or.inl (Or.inl hb)
        · rcases List.mem_cons.mp hx' with rfl | hx''
          · exact Or.inl (Or.inr (Fin.ext hbx))
          · exact Or.inr ⟨x', hx'', hbx⟩

theorem finRange4 : (List.finRange 4).map Fin.val = List.range' 0 4 := by decide

theorem bRow_fin (mbX y : Nat) (s : BSt) :
    bRow mbX y s = (List.finRange 4).foldl (fun s x => bStep mbX y x.val s) s := by
  unfold bRow
  rw [← finRange4, List.foldl_map]

theorem bAll_fin (mbX : Nat) (s : BSt) :
    bAll mbX s = (List.finRange 4).foldl (fun s y => bRow mbX y.val s) s := by
  unfold bAll
  rw [← finRange4, List.foldl_map]

theorem decI4Rows_cons (y : Fin 4) (ys : List (Fin 4)) (m : Webp.Impl.VP8Recon.ModeCtx) (modes : Fin 16 → Nat) :
    Webp.Impl.VP8SyntaxBytes.T.decI4Rows (y :: ys) m modes =
      Webp.Impl.VP8SyntaxBytes.T.decI4Row y.val (List.finRange 4) m.top (m.left y) modes >>= fun r =>
      Webp.Impl.VP8SyntaxBytes.T.decI4Rows ys { top := r.1, left := fun y' => if y' = y then r.2.1 else m.left y' } r.2.2 := rfl

/-- **all rows** -/
theorem rows_sim (prob : Slot → UInt8) (hb : BModeOK prob) (mbX : Nat) (A0 : Array Nat) :
    ∀ (ys : List (Fin 4)) (m : Webp.Impl.VP8Recon.ModeCtx) (modes : Fin 16 → Nat) (D : Fin 16 → Prop) (s : BSt),
      BRel mbX A0 m.top m.left modes D s →
      ∃ m' modes',
        runD prob (Webp.Impl.VP8SyntaxBytes.T.decI4Rows ys m modes) s.1 =
          some ((m', modes'), (ys.foldl (fun s y => bRow mbX y.val s) s).1) ∧
        BRel mbX A0 m'.top m'.left modes'
          (fun b => D b ∨ ∃ y ∈ ys, ∃ x : Fin 4, b.val = 4 * y.val + x.val) (ys.foldl (fun s y => bRow mbX y.val s) s) := by
  intro ys
  induction ys with
  | nil =>
    intro m modes D s h
    refine ⟨m, modes, rfl, brel_congr h (fun _ => rfl) ?_⟩
    intro b hb; rcases hb with hb | ⟨y, hy, _⟩
    · exact hb
    · cases hy
  | cons y ys ih =>
    intro m modes D s h
    obtain ⟨top', ymode', modes', hrun, h1⟩ := row_sim prob hb mbX A0 y (List.finRange 4) m.top (m.left y) m.left modes D s h rfl
    rw [← bRow_fin] at hrun h1
    obtain ⟨m', modes'', hrun2, h2⟩ := ih { top := top', left := fun y' => if y' = y then ymode' else m.left y' } modes'
      (fun b => D b ∨ ∃ x ∈ List.finRange 4, b.val = 4 * y.val + x.val) (bRow mbX y.val s) h1
    refine ⟨m', modes'', ?_, ?_⟩
    · rw [decI4Rows_cons, runD_bind_of' prob hrun]
      exact hrun2
    · rw [List.foldl_cons]
      refine brel_congr h2 (fun _ => rfl) ?_
      intro b hb
      rcases hb with hb | ⟨y', hy', x, hbx⟩
      · exact Or.inl (Or.inl hb)
      · rcases List.mem_cons.mp hy' with rfl | hy''
        · exact Or.inl (Or.inr ⟨x, List.mem_finRange x, hbx⟩)
        · exact Or.inr ⟨y', hy'', x, hbx⟩

end Webp.Proofs.C04RefineModes
