import Webp.Proofs.WriterExt
import Webp.Proofs.ContainerParser
/-
  Reading back what the writers wrote: little-endian fields, one chunk at the head of a buffer
  (`Parser.chunkAt`), the RIFF header (`Parser.parse` on `riffFile body`).
  Every lemma is about *sizes and positions only*: payloads are arbitrary byte strings, so a
  payload containing chunk-like bytes changes nothing.
-/
namespace Webp.Impl.Writer
open Webp.Go
open Webp.Impl.Parser (ccRIFF ccWEBP ccVP8 ccVP8L ccVP8X ccALPH ccICCP ccEXIF ccXMP
  chunkHeaderSize vp8xChunkSize maxChunkPayload)
set_option maxHeartbeats 400000

theorem toNat_ofNat_mod (v : Nat) : (UInt8.ofNat (v % 256)).toNat = v % 256 := by
  rw [UInt8.toNat_ofNat']; omega

theorem byteAt_cons_zero (b : UInt8) (l : Bytes) : byteAt (b :: l) 0 = b.toNat := rfl
theorem byteAt_cons_succ (b : UInt8) (l : Bytes) (i : Nat) : byteAt (b :: l) (i + 1) = byteAt l i := rfl

theorem le32_putLE32 (v : Nat) (rest : Bytes) (h : v < 4294967296) :
    le32 (putLE32 v ++ rest) 0 = v := by
  unfold le32 putLE32
  show byteAt (_ :: _ :: _ :: _ :: rest) 0 + byteAt (_ :: _ :: _ :: _ :: rest) 1 * 256 +
    byteAt (_ :: _ :: _ :: _ :: rest) 2 * 65536 + byteAt (_ :: _ :: _ :: _ :: rest) 3 * 16777216 = v
  rw [byteAt_cons_zero, byteAt_cons_succ, byteAt_cons_zero, byteAt_cons_succ, byteAt_cons_succ,
    byteAt_cons_zero, byteAt_cons_succ, byteAt_cons_succ, byteAt_cons_succ, byteAt_cons_zero,
    toNat_ofNat_mod, toNat_ofNat_mod, toNat_ofNat_mod, toNat_ofNat_mod]
  omega

theorem le24_putLE24 (v : Nat) (rest : Bytes) (h : v < 16777216) :
    le24 (putLE24 v ++ rest) 0 = v := by
  unfold le24 putLE24
  show byteAt (_ :: _ :: _ :: rest) 0 + byteAt (_ :: _ :: _ :: rest) 1 * 256 +
    byteAt (_ :: _ :: _ :: rest) 2 * 65536 = v
  rw [byteAt_cons_zero, byteAt_cons_succ, byteAt_cons_zero, byteAt_cons_succ, byteAt_cons_succ,
    byteAt_cons_zero, toNat_ofNat_mod, toNat_ofNat_mod, toNat_ofNat_mod]
  omega

theorem le16_putLE16 (v : Nat) (rest : Bytes) (h : v < 65536) :
    le16 (putLE16 v ++ rest) 0 = v := by
  unfold le16 putLE16
  show byteAt (_ :: _ :: rest) 0 + byteAt (_ :: _ :: rest) 1 * 256 = v
  rw [byteAt_cons_zero, byteAt_cons_succ, byteAt_cons_zero, toNat_ofNat_mod, toNat_ofNat_mod]
  omega

theorem byteAt_append_right (pre X : Bytes) (o : Nat) :
    byteAt (pre ++ X) (pre.length + o) = byteAt X o := by
  have := byteAt_drop (pre ++ X) pre.length o
  rw [List.drop_left' rfl] at this
  exact this.symm

theorem le32_append_right (pre X : Bytes) (o : Nat) :
    le32 (pre ++ X) (pre.length + o) = le32 X o := by
  have := le32_drop (pre ++ X) pre.length o
  rw [List.drop_left' rfl] at this
  exact this.symm

theorem le24_append_right (pre X : Bytes) (o : Nat) :
    le24 (pre ++ X) (pre.length + o) = le24 X o := by
  unfold le24
  rw [byteAt_append_right, Nat.add_assoc pre.length o 1, byteAt_append_right,
    Nat.add_assoc pre.length o 2, byteAt_append_right]

theorem le16_append_right (pre X : Bytes) (o : Nat) :
    le16 (pre ++ X) (pre.length + o) = le16 X o := by
  unfold le16
  rw [byteAt_append_right, Nat.add_assoc pre.length o 1, byteAt_append_right]

/-! ### one chunk at the head of a buffer -/

/-- the eight header bytes -/
def hdr8 (fcc n : Nat) : Bytes := putLE32 fcc ++ putLE32 n

theorem hdr8_length (fcc n : Nat) : (hdr8 fcc n).length = 8 := rfl

theorem chunk_split (fcc : Nat) (d rest : Bytes) :
    chunkBytes fcc d ++ rest = hdr8 fcc d.length ++ (d ++ (pad d ++ rest)) := by
  unfold chunkBytes hdr8
  simp only [List.append_assoc]

theorem hdr8_le32_0 (fcc n : Nat) (rest : Bytes) (h : fcc < 4294967296) :
    le32 (hdr8 fcc n ++ rest) 0 = fcc := by
  unfold hdr8
  rw [List.append_assoc]
  exact le32_putLE32 _ _ h

theorem hdr8_le32_4 (fcc n : Nat) (rest : Bytes) (h : n < 4294967296) :
    le32 (hdr8 fcc n ++ rest) 4 = n := by
  unfold hdr8
  rw [List.append_assoc]
  have := le32_append_right (putLE32 fcc) (putLE32 n ++ rest) 0
  rw [le32_putLE32 _ _ h] at this
  exact this

theorem chunk_le32_0 (fcc : Nat) (d rest : Bytes) (h : fcc < 4294967296) :
    le32 (chunkBytes fcc d ++ rest) 0 = fcc := by
  rw [chunk_split]; exact hdr8_le32_0 _ _ _ h

theorem chunk_le32_4 (fcc : Nat) (d rest : Bytes) (h : d.length < 4294967296) :
    le32 (chunkBytes fcc d ++ rest) 4 = d.length := by
  rw [chunk_split]; exact hdr8_le32_4 _ _ _ h

theorem chunk_length (fcc : Nat) (d rest : Bytes) :
    (chunkBytes fcc d ++ rest).length = 8 + (d.length + d.length % 2) + rest.length := by
  rw [List.length_append, chunkBytes_length]; omega

theorem chunk_payload (fcc : Nat) (d rest : Bytes) :
    ((chunkBytes fcc d ++ rest).take (8 + d.length)).drop 8 = d := by
  rw [chunk_split]
  have e : List.take (8 + d.length) (hdr8 fcc d.length ++ (d ++ (pad d ++ rest))) =
      hdr8 fcc d.length ++ d := by
    have := List.take_length_add_append (l₁ := hdr8 fcc d.length) (l₂ := d ++ (pad d ++ rest)) d.length
    rw [List.take_left' rfl] at this
    exact this
  rw [e]
  exact List.drop_left' (hdr8_length _ _)

theorem chunk_rest (fcc : Nat) (d rest : Bytes) :
    (chunkBytes fcc d ++ rest).drop (8 + (d.length + d.length % 2)) = rest := by
  have : (chunkBytes fcc d).length = 8 + (d.length + d.length % 2) := by
    rw [chunkBytes_length]; omega
  exact List.drop_left' this

theorem maxChunkPayload_val : maxChunkPayload = 4294967286 := rfl

/-- `chunkAt` finds exactly the chunk that was written, whatever follows and whatever the
    payload contains -/
theorem chunkAt_chunk (fcc : Nat) (d rest : Bytes) (hf : fcc < 4294967296)
    (hd : d.length ≤ maxChunkPayload) :
    Parser.chunkAt (chunkBytes fcc d ++ rest) =
      .ok (fcc, d.length, 8 + (d.length + d.length % 2), d) := by
  have hM := maxChunkPayload_val
  have h0 := chunk_le32_0 fcc d rest hf
  have h4 := chunk_le32_4 fcc d rest (by omega)
  have hl := chunk_length fcc d rest
  have hp := chunk_payload fcc d rest
  generalize chunkBytes fcc d ++ rest = X at h0 h4 hl hp
  unfold Parser.chunkAt Parser.readChunkHeader chunkHeaderSize
  generalize maxChunkPayload = M at hd hM
  rw [if_neg (by omega)]
  dsimp only
  rw [h4, h0, if_neg (by omega), Res.bind_ok]
  dsimp only
  rw [if_neg (by omega), slice_ok _ _ _ (by omega) (by omega), hp]
  rfl

end Webp.Impl.Writer
