import Webp.Proofs.MuxDemuxExt
/-
  container.Parser on serialised chunk lists: the VP8X chunk loop (`parseVP8XChunks`) with fuel
  irrelevance and a one-chunk step lemma; the still-image scan (`parseExtSingleImage`) and the
  ANMF sub-chunk scan (`parseFrameSubChunks`) on the one or two chunks the muxer writes.
-/
namespace Webp.Proofs.MuxParser
open Webp.Go Webp.Impl Webp.Impl.Parser Webp.Proofs.MuxBytes Webp.Proofs.MuxChunk
  Webp.Proofs.MuxAccepted Webp.Proofs.MuxCore Webp.Proofs.MuxRiffWrap Webp.Proofs.MuxExpect
open Webp.Spec.Riff (RawChunk)

/-- body of `parseVP8XChunks` after the chunk prologue; `k` continues the loop after this chunk -/
def pxBody (st : State) (animChunks : Nat) (buf : Bytes) (fourcc payloadSize : Nat) (payload : Bytes)
    (k : State → Nat → R State) : R State :=
  if fourcc = ccVP8X then .err .invalidChunk
  else if fourcc = ccANIM then
    if !st.features.hasAnim then k st animChunks
    else if payloadSize < animChunkSize then .err .invalidChunk
    else k { st with features := { st.features with
                bgColor := le32 payload 0, loopCount := le16 payload 4 } } (animChunks + 1)
  else if fourcc = ccANMF then
    if animChunks = 0 then .err .invalidChunk
    else if st.frames.length ≥ maxFrames then .err .invalidChunk
    else parseANMF payload >>= fun frame => k { st with frames := st.frames ++ [frame] } animChunks
  else if fourcc = ccVP8 ∨ fourcc = ccVP8L ∨ fourcc = ccALPH then
    if animChunks > 0 ∨ st.features.hasAnim then .err .invalidChunk
    else parseExtSingleImage (buf.length + 1) st {} none buf
  else if fourcc = ccICCP ∨ fourcc = ccEXIF ∨ fourcc = ccXMP then
    if (if fourcc = ccICCP then st.features.hasICCP
        else if fourcc = ccEXIF then st.features.hasEXIF else st.features.hasXMP) then
      if payloadSize > maxMetadataSize then .err .invalidChunk
      else k { st with chunks := st.chunks ++ [⟨fourcc, payload⟩] } animChunks
    else k st animChunks
  else
    if st.chunks.length ≥ maxChunks then .err .invalidChunk
    else if payloadSize > maxMetadataSize then .err .invalidChunk
    else k { st with chunks := st.chunks ++ [⟨fourcc, payload⟩] } animChunks

def pxCont (st : State) (ac : Nat) (buf : Bytes) (k : State → Nat → Bytes → R State) : R State :=
  if buf.length < chunkHeaderSize then .ok st
  else chunkAt buf >>= fun x =>
    pxBody st ac buf x.1 x.2.1 x.2.2.2 (fun st' ac' => sliceFrom buf x.2.2.1 >>= fun rest => k st' ac' rest)

theorem parseVP8XChunks_succ (fuel : Nat) (st : State) (ac : Nat) (buf : Bytes) :
    parseVP8XChunks (fuel + 1) st ac buf = pxCont st ac buf (fun st' ac' rest => parseVP8XChunks fuel st' ac' rest) := by
  rw [parseVP8XChunks]
  unfold pxCont
  split
  · rfl
  · cases chunkAt buf with
    | ok x =>
      obtain ⟨fourcc, size, ct, payload⟩ := x
      simp only [Res.bind_ok, pxBody]
      repeat (first | rfl | split)
    | err e => rfl
    | panic => rfl
    | hang => rfl

theorem chunkAt_total {buf : Bytes} {x : Nat × Nat × Nat × Bytes} (h : chunkAt buf = .ok x) :
    8 ≤ x.2.2.1 ∧ x.2.2.1 ≤ buf.length := by
  unfold chunkAt at h
  cases hh : readChunkHeader buf with
  | ok p =>
    obtain ⟨id, size⟩ := p
    rw [hh] at h
    simp only [Res.bind_ok, chunkHeaderSize] at h
    by_cases h3 : 8 + (size + size % 2) > buf.length
    · simp [h3] at h
    · simp only [h3, if_false, slice] at h
      by_cases h4 : 8 ≤ 8 + size ∧ 8 + size ≤ buf.length
      · simp only [h4, and_self, if_true, Res.bind_ok, Res.pure_eq, Res.ok.injEq] at h
        subst h
        simp only
        omega
      · exfalso; omega
  | err e => rw [hh] at h; simp at h
  | panic => rw [hh] at h; simp at h
  | hang => rw [hh] at h; simp at h

theorem pxCont_congr {st : State} {ac : Nat} {buf : Bytes} {k1 k2 : State → Nat → Bytes → R State}
    (h : ∀ st' ac' rest, rest.length + 8 ≤ buf.length → k1 st' ac' rest = k2 st' ac' rest) :
    pxCont st ac buf k1 = pxCont st ac buf k2 := by
  unfold pxCont
  split
  · rfl
  · cases hc : chunkAt buf with
    | ok x =>
      have ht := chunkAt_total hc
      simp only [Res.bind_ok]
      have : (fun st' ac' => sliceFrom buf x.2.2.1 >>= fun rest => k1 st' ac' rest) =
          (fun st' ac' => sliceFrom buf x.2.2.1 >>= fun rest => k2 st' ac' rest) := by
        funext st' ac'
        unfold sliceFrom
        rw [if_pos ht.2]
        simp only [Res.bind_ok]
        apply h
        rw [List.length_drop]; omega
      rw [this]
    | err e => rfl
    | panic => rfl
    | hang => rfl

/-- any fuel above the buffer length gives the same result -/
theorem parseVP8XChunks_fuel : ∀ (f1 f2 : Nat) (st : State) (ac : Nat) (buf : Bytes),
    buf.length < f1 → buf.length < f2 → parseVP8XChunks f1 st ac buf = parseVP8XChunks f2 st ac buf := by
  intro f1
  induction f1 with
  | zero => intros; omega
  | succ n ih =>
    intro f2 st ac buf h1 h2
    cases f2 with
    | zero => omega
    | succ m =>
      rw [parseVP8XChunks_succ, parseVP8XChunks_succ]
      apply pxCont_congr
      intro st' ac' rest hr
      exact ih m st' ac' rest (by omega) (by omega)

def pxRun (st : State) (ac : Nat) (buf : Bytes) : R State := parseVP8XChunks (buf.length + 1) st ac buf

theorem pxRun_nil (st : State) (ac : Nat) : pxRun st ac [] = .ok st := by
  unfold pxRun
  rw [parseVP8XChunks_succ]
  rfl

theorem pxRun_ser (st : State) (ac : Nat) (c : RawChunk) (r : Bytes) (hid : c.id < 4294967296)
    (hlen : c.data.length ≤ maxChunkPayload) :
    pxRun st ac (ser c ++ r) =
      pxBody st ac (ser c ++ r) c.id c.data.length c.data (fun st' ac' => pxRun st' ac' r) := by
  have hm : maxChunkPayload = 4294967286 := by decide
  have hlen' := hlen
  rw [hm] at hlen'
  obtain ⟨hl, _, _, _, _, hd⟩ := ser_facts c r hid hlen'
  unfold pxRun
  rw [parseVP8XChunks_succ]
  unfold pxCont
  rw [if_neg (by rw [hl, chunkHeaderSize]; omega), chunkAt_ser c r hid hlen, Res.bind_ok]
  simp only
  have : (fun st' ac' => sliceFrom (ser c ++ r) (8 + (c.data.length + c.data.length % 2)) >>= fun rest =>
        parseVP8XChunks (ser c ++ r).length st' ac' rest) =
      (fun st' ac' => parseVP8XChunks (r.length + 1) st' ac' r) := by
    funext st' ac'
    unfold sliceFrom
    rw [if_pos (by rw [hl]; omega), hd, Res.bind_ok]
    exact parseVP8XChunks_fuel _ _ _ _ _ (by rw [hl]; omega) (by omega)
  rw [this]

open Webp.Impl.Demux (splitAlphaAndBitstream frameDimensions) in
open Webp.Proofs.MuxDemuxExt in
/-- parser.go parseFrameSubChunks on the sub-chunks the muxer writes into an ANMF chunk -/
theorem pf_imgChunks (data : Bytes) (frame : FrameInfo) (hfa : frame.hasAlpha = false)
    (hok : frameOK data = true) (hsz : frameLen false data ≤ 4294967286) :
    parseFrameSubChunks ((serAll (imgChunks data)).length + 1) frame none (serAll (imgChunks data)) =
      .ok { frame with
        isLossless := isLossless data
        hasAlpha := (splitAlphaAndBitstream data).1.isSome ||
          (isLossless data && vp8lA (splitAlphaAndBitstream data).2)
        payload := some (splitAlphaAndBitstream data).2
        alphaData := (if isLossless data then frame.alphaData else (splitAlphaAndBitstream data).1) } := by
  have bf := bsFacts hok
  have hm : maxChunkPayload = 4294967286 := by decide
  obtain ⟨n1, n2, n3, n4, n5, n6, l1, l2, l3, l4, l5, l6, a1, a2, a3, a4, a5, a6, a7, n7⟩ := cc_img_ne
  unfold frameLen at hsz
  simp only [Bool.false_eq_true, if_false, padLen, Nat.zero_add] at hsz
  unfold frameOK at hok
  cases hα : (splitAlphaAndBitstream data).1 with
  | none =>
    rw [hα] at hsz hok
    simp only [optLen, Nat.zero_add, Option.isSome_none, Bool.false_eq_true, if_false, Bool.or_eq_true] at hsz hok
    have hlen : (splitAlphaAndBitstream data).2.length ≤ maxChunkPayload := by rw [hm]; omega
    have e : serAll (imgChunks data) =
        ser ⟨Mux.detectBitstreamType (splitAlphaAndBitstream data).2, (splitAlphaAndBitstream data).2⟩ ++ [] := by
      simp [imgChunks, hα, optC]
    rw [e]
    rcases hok with h8 | h8l
    · have ff := vp8OK_facts h8
      have hid := ff.detect
      rw [hid]
      obtain ⟨hl, _, _, _, _, _⟩ := ser_facts ⟨ccVP8, (splitAlphaAndBitstream data).2⟩ [] cc_lt.1 (by simp only; omega)
      rw [parseFrameSubChunks, if_neg (by rw [hl, chunkHeaderSize]; omega),
        chunkAt_ser ⟨ccVP8, (splitAlphaAndBitstream data).2⟩ [] cc_lt.1 hlen,
        Res.bind_ok]
      simp only [a6.symm, n7, if_false, if_true, Res.pure_eq, isLossless, hid, decide_false, Bool.false_and,
        Bool.or_false, Option.isSome_none, Bool.false_eq_true]
      rw [hfa]
    · have ff := vp8lOK_facts h8l
      have hid := ff.detect
      rw [hid]
      obtain ⟨hl, _, _, _, _, _⟩ := ser_facts ⟨ccVP8L, (splitAlphaAndBitstream data).2⟩ [] cc_lt.2.1 (by simp only; omega)
      rw [parseFrameSubChunks, if_neg (by rw [hl, chunkHeaderSize]; omega),
        chunkAt_ser ⟨ccVP8L, (splitAlphaAndBitstream data).2⟩ [] cc_lt.2.1 hlen,
        Res.bind_ok]
      simp only [a7.symm, if_false, if_true, Option.isSome_none, Bool.false_eq_true, ff.parserHeader, Res.bind_ok,
        Res.pure_eq, isLossless, hid, decide_true, Bool.true_and, Bool.false_or, hfa]
  | some a =>
    rw [hα] at hsz hok
    simp only [optLen, padLen, Option.isSome_some, if_true] at hsz hok
    have ff := vp8OK_facts hok
    have hid := ff.detect
    have hlen : (splitAlphaAndBitstream data).2.length ≤ maxChunkPayload := by rw [hm]; omega
    have hlena : a.length ≤ maxChunkPayload := by rw [hm]; omega
    have e : serAll (imgChunks data) =
        ser ⟨ccALPH, a⟩ ++ (ser ⟨ccVP8, (splitAlphaAndBitstream data).2⟩ ++ []) := by
      simp [imgChunks, hα, optC, hid]
    rw [e]
    obtain ⟨hl1, _, _, _, _, hd1⟩ := ser_facts ⟨ccALPH, a⟩ (ser ⟨ccVP8, (splitAlphaAndBitstream data).2⟩ ++ [])
      cc_lt.2.2.2.1 (by simp only; omega)
    obtain ⟨hl2, _, _, _, _, _⟩ := ser_facts ⟨ccVP8, (splitAlphaAndBitstream data).2⟩ [] cc_lt.1 (by simp only; omega)
    simp only [List.length_nil, Nat.add_zero] at hl1 hl2 hd1
    rw [parseFrameSubChunks, if_neg (by rw [hl1, chunkHeaderSize]; omega),
      chunkAt_ser ⟨ccALPH, a⟩ _ cc_lt.2.2.2.1 hlena,
      Res.bind_ok]
    simp only [if_true]
    unfold sliceFrom
    rw [if_pos (by rw [hl1]; omega), hd1, Res.bind_ok]
    obtain ⟨K, hK⟩ : ∃ K, (ser ⟨ccALPH, a⟩ ++ (ser ⟨ccVP8, (splitAlphaAndBitstream data).2⟩ ++ [])).length = K + 1 :=
      ⟨(ser ⟨ccALPH, a⟩ ++ (ser ⟨ccVP8, (splitAlphaAndBitstream data).2⟩ ++ [])).length - 1, by omega⟩
    rw [hK, parseFrameSubChunks, if_neg (by rw [hl2, chunkHeaderSize]; omega),
      chunkAt_ser ⟨ccVP8, (splitAlphaAndBitstream data).2⟩ [] cc_lt.1 hlen,
      Res.bind_ok]
    simp only [a6.symm, n7, if_false, if_true, Res.pure_eq, isLossless, hid, decide_false, Bool.false_and,
      Bool.or_false, Option.isSome_some, Bool.false_eq_true]

open Webp.Impl.Demux (splitAlphaAndBitstream frameDimensions) in
open Webp.Proofs.MuxDemuxExt in
/-- parser.go parseExtSingleImage on the image chunk(s) of an extended still -/
theorem pe_imgChunks (st : State) (f : Mux.MuxFrame) (r : Bytes) (hok : frameOK f.data = true)
    (hopts : f.opts = {}) (hsz : frameLen false f.data ≤ 4294967286) :
    parseExtSingleImage ((serAll (imgChunks f.data) ++ r).length + 1) st {} none (serAll (imgChunks f.data) ++ r) =
      .ok { st with
        features := { st.features with
          hasAlpha := st.features.hasAlpha || (pFrameOf f).hasAlpha
          width := (frameDimensions f.data).1, height := (frameDimensions f.data).2 }
        frames := st.frames ++ [pFrameOf f] } := by
  have bf := bsFacts hok
  have hm : maxChunkPayload = 4294967286 := by decide
  obtain ⟨n1, n2, n3, n4, n5, n6, l1, l2, l3, l4, l5, l6, a1, a2, a3, a4, a5, a6, a7, n7⟩ := cc_img_ne
  unfold frameLen at hsz
  simp only [Bool.false_eq_true, if_false, padLen, Nat.zero_add] at hsz
  unfold frameOK at hok
  cases hα : (splitAlphaAndBitstream f.data).1 with
  | none =>
    rw [hα] at hsz hok
    simp only [optLen, Nat.zero_add, Option.isSome_none, Bool.false_eq_true, if_false, Bool.or_eq_true] at hsz hok
    have hlen : (splitAlphaAndBitstream f.data).2.length ≤ maxChunkPayload := by rw [hm]; omega
    have e : serAll (imgChunks f.data) ++ r =
        ser ⟨Mux.detectBitstreamType (splitAlphaAndBitstream f.data).2, (splitAlphaAndBitstream f.data).2⟩ ++ r := by
      simp [imgChunks, hα, optC]
    rw [e]
    rcases hok with h8 | h8l
    · have ff := vp8OK_facts h8
      have hid := ff.detect
      have hdims := ff.dimsOf (data := f.data) rfl
      rw [hid]
      obtain ⟨hl, _, _, _, _, _⟩ := ser_facts ⟨ccVP8, (splitAlphaAndBitstream f.data).2⟩ r cc_lt.1 (by simp only; omega)
      rw [parseExtSingleImage, if_neg (by rw [hl, chunkHeaderSize]; omega),
        chunkAt_ser ⟨ccVP8, (splitAlphaAndBitstream f.data).2⟩ r cc_lt.1 hlen, Res.bind_ok]
      simp only [a6.symm, n7, if_false, if_true, ff.parserHeader, Res.bind_ok, Res.pure_eq, pFrameOf, hopts, hα,
        isLossless, hid, hdims, decide_false, Bool.false_and, Bool.or_false, Option.isSome_none]
      rfl
    · have ff := vp8lOK_facts h8l
      have hid := ff.detect
      have hdims := ff.dimsOf (data := f.data) rfl
      rw [hid]
      obtain ⟨hl, _, _, _, _, _⟩ := ser_facts ⟨ccVP8L, (splitAlphaAndBitstream f.data).2⟩ r cc_lt.2.1 (by simp only; omega)
      rw [parseExtSingleImage, if_neg (by rw [hl, chunkHeaderSize]; omega),
        chunkAt_ser ⟨ccVP8L, (splitAlphaAndBitstream f.data).2⟩ r cc_lt.2.1 hlen, Res.bind_ok]
      simp only [a7.symm, if_false, if_true, Option.isSome_none, Bool.false_eq_true, ff.parserHeader, Res.bind_ok,
        Res.pure_eq, pFrameOf, hopts, hα, isLossless, hid, hdims, decide_true, Bool.true_and, Bool.false_or]
      rfl
  | some a =>
    rw [hα] at hsz hok
    simp only [optLen, padLen, Option.isSome_some, if_true] at hsz hok
    have ff := vp8OK_facts hok
    have hid := ff.detect
    have hdims := ff.dimsOf (data := f.data) rfl
    have hlen : (splitAlphaAndBitstream f.data).2.length ≤ maxChunkPayload := by rw [hm]; omega
    have hlena : a.length ≤ maxChunkPayload := by rw [hm]; omega
    have e : serAll (imgChunks f.data) ++ r =
        ser ⟨ccALPH, a⟩ ++ (ser ⟨ccVP8, (splitAlphaAndBitstream f.data).2⟩ ++ r) := by
      simp [imgChunks, hα, optC, hid]
    rw [e]
    obtain ⟨hl1, _, _, _, _, hd1⟩ := ser_facts ⟨ccALPH, a⟩ (ser ⟨ccVP8, (splitAlphaAndBitstream f.data).2⟩ ++ r)
      cc_lt.2.2.2.1 (by simp only; omega)
    obtain ⟨hl2, _, _, _, _, _⟩ := ser_facts ⟨ccVP8, (splitAlphaAndBitstream f.data).2⟩ r cc_lt.1 (by simp only; omega)
    simp only at hl1 hl2 hd1
    rw [parseExtSingleImage, if_neg (by rw [hl1, chunkHeaderSize]; omega),
      chunkAt_ser ⟨ccALPH, a⟩ _ cc_lt.2.2.2.1 hlena, Res.bind_ok]
    simp only [if_true]
    unfold sliceFrom
    rw [if_pos (by rw [hl1]; omega), hd1, Res.bind_ok]
    obtain ⟨K, hK⟩ : ∃ K, (ser ⟨ccALPH, a⟩ ++ (ser ⟨ccVP8, (splitAlphaAndBitstream f.data).2⟩ ++ r)).length = K + 1 :=
      ⟨(ser ⟨ccALPH, a⟩ ++ (ser ⟨ccVP8, (splitAlphaAndBitstream f.data).2⟩ ++ r)).length - 1, by omega⟩
    rw [hK, parseExtSingleImage, if_neg (by rw [hl2, chunkHeaderSize]; omega),
      chunkAt_ser ⟨ccVP8, (splitAlphaAndBitstream f.data).2⟩ r cc_lt.1 hlen, Res.bind_ok]
    simp only [a6.symm, n7, if_false, if_true, ff.parserHeader, Res.bind_ok, Res.pure_eq, pFrameOf, hopts, hα,
      isLossless, hid, hdims, decide_false, Bool.false_and, Bool.or_false, Option.isSome_some, Bool.or_true,
      Bool.true_or]
    rfl

end Webp.Proofs.MuxParser
