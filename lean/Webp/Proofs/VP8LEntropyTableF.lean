import Webp.Proofs.VP8LEntropyTableE
/-
  Two-level lookup tables, part F: `BuildHuffmanTable` as a whole, and `table_lookup_eq_canonical`.
-/
namespace Webp.Proofs.VP8LEntropyTableF
open Webp.Go (Res)
open Webp.Spec.VP8L
open Webp.Impl.VP8LEntropy
open Webp.Proofs.VP8LEntropyBits Webp.Proofs.VP8LEntropyRev Webp.Proofs.VP8LEntropyCanon
open Webp.Proofs.VP8LEntropyPrefix Webp.Proofs.VP8LEntropyTableA
open Webp.Proofs.VP8LEntropyTableB Webp.Proofs.VP8LEntropyTableC Webp.Proofs.VP8LEntropyTableD
open Webp.Proofs.VP8LEntropyTableE

/-! ## every `(l, m)` is a symbol -/

theorem exists_sym_list (xs : List Nat) (l m : Nat) (h : m < xs.count l) :
    ∃ s, s < xs.length ∧ xs.getD s 0 = l ∧ (xs.take s).count l = m := by
  induction xs generalizing m with
  | nil => simp at h
  | cons x r ih =>
    rw [List.count_cons] at h
    by_cases hx : x = l
    · subst hx
      cases m with
      | zero => exact ⟨0, by simp, by simp, by simp⟩
      | succ m =>
        obtain ⟨s, h1, h2, h3⟩ := ih m (by simp at h; omega)
        refine ⟨s + 1, by simp; omega, ?_, ?_⟩
        · simpa [List.getD_eq_getElem?_getD] using h2
        · rw [List.take_succ_cons, List.count_cons, h3]; simp
    · have hne : ¬ (x == l) = true := by simpa using hx
      rw [if_neg hne] at h
      obtain ⟨s, h1, h2, h3⟩ := ih m (by omega)
      refine ⟨s + 1, by simp; omega, ?_, ?_⟩
      · simpa [List.getD_eq_getElem?_getD] using h2
      · rw [List.take_succ_cons, List.count_cons, if_neg hne, h3]; simp

theorem exists_sym {lens : Array Nat} {l m : Nat} (h : Sym lens l m) :
    ∃ s, s < lens.size ∧ lens.getD s 0 = l ∧ idx lens s = m := by
  obtain ⟨s, h1, h2, h3⟩ := exists_sym_list lens.toList l m h.2.2
  refine ⟨s, by simpa using h1, ?_, ?_⟩
  · rw [← getD_toList]; exact h2
  · unfold idx; rw [← getD_toList, h2]; exact h3

/-! ## bit-list facts for the look-ahead window -/

theorem bitsLE_take (v k l : Nat) (h : k ≤ l) : (bitsLE v l).take k = bitsLE v k := by
  induction k generalizing v l with
  | zero => simp [bitsLE]
  | succ k ih =>
    obtain ⟨l', rfl⟩ : ∃ l', l = l' + 1 := ⟨l - 1, by omega⟩
    rw [bitsLE, bitsLE, List.take_succ_cons, ih _ _ (by omega)]

theorem ofBitsLE_take_mod (bs : List Bool) (l : Nat) : ofBitsLE bs % 2 ^ l = ofBitsLE (bs.take l) := by
  induction bs generalizing l with
  | nil => simp [ofBitsLE]
  | cons b r ih =>
    cases l with
    | zero => simp [ofBitsLE, Nat.mod_one]
    | succ l =>
      rw [List.take_succ_cons, ofBitsLE, ofBitsLE, ← ih l, Nat.pow_succ]
      have hb : b.toNat < 2 := by cases b <;> simp
      generalize b.toNat = x at hb
      generalize ofBitsLE r = y
      rw [Nat.mul_comm (2 ^ l) 2, Nat.mod_mul]
      have e1 : (x + 2 * y) % 2 = x := by omega
      have e2 : (x + 2 * y) / 2 = y := by omega
      rw [e1, e2]

/-! ## `BuildHuffmanTable` on a complete code -/

theorem lookup_of_subInv {lens sorted : Array Nat} {R T : Nat} (hc : Complete lens) (hR1 : 1 ≤ R)
    {s : BuildSt} {z : SizeSt} (hi : SubInv lens sorted R T 15 (cnt' lens 15) s z)
    {l m : Nat} (hs : Sym lens l m) (w : Nat) (hw : w % 2 ^ l = keyOf lens l m) :
    readSymbolRaw R s.table w = .ok (some (symOf lens sorted l m, l)) := by
  have hb : Before l m 15 (cnt' lens 15) := by
    unfold Before
    by_cases h15 : l = 15
    · right; refine ⟨h15, ?_⟩; rw [cnt', if_neg (by omega), ← h15]; exact hs.2.2
    · left; have := hs.2.1; omega
  have hpR : 0 < 2 ^ R := Nat.pow_pos (by decide)
  by_cases hl : l ≤ R
  · have hmod : w % 2 ^ R % 2 ^ l = keyOf lens l m := by
      have hpw : 2 ^ R = 2 ^ l * 2 ^ (R - l) := by rw [← Nat.pow_add]; congr 1; omega
      rw [hpw, Nat.mod_mul_right_mod]; exact hw
    have := hi.short l m hs hl (w % 2 ^ R) (Nat.mod_lt _ hpR) hmod
    exact raw_root R s.table w _ this (by simpa using hl)
  · have hRl : R < l := by omega
    obtain ⟨off, tb, h1, h2, h3, h4, h5, h6⟩ := hi.long l m hs hRl hb
    have h2l : 2 ^ l = 2 ^ R * 2 ^ (l - R) := by rw [← Nat.pow_add]; congr 1; omega
    have hroot : w % 2 ^ R = keyOf lens l m % 2 ^ R := by
      rw [← hw, h2l, Nat.mod_mul_right_mod]
    rw [← hroot] at h1
    have ht : w / 2 ^ R % 2 ^ tb < 2 ^ tb := Nat.mod_lt _ (Nat.pow_pos (by decide))
    have hmod : w / 2 ^ R % 2 ^ tb % 2 ^ (l - R) = keyOf lens l m / 2 ^ R := by
      have hpw : 2 ^ tb = 2 ^ (l - R) * 2 ^ (tb - (l - R)) := by rw [← Nat.pow_add]; congr 1; omega
      rw [hpw, Nat.mod_mul_right_mod, ← hw, h2l, Nat.mod_mul_right_div_self]
    have hcell := h6 _ ht hmod
    have := raw_sub R s.table w ⟨tb + R, off⟩ ⟨l - R, symOf lens sorted l m⟩ h1 (by simp; omega)
      (by simpa using hcell)
    rw [this]
    simp only
    congr 3
    omega

theorem buildTable_complete {lens : Array Nat} (hc : Complete lens) (R : Nat) (hR1 : 1 ≤ R) (hR : R ≤ 15) :
    ∃ tbl sorted, buildTable R lens = .ok tbl ∧
      (∀ s, s < lens.size → lens.getD s 0 ≠ 0 → sorted.getD (offs lens (lens.getD s 0) + idx lens s) 0 = s) ∧
      ∀ l m, Sym lens l m → ∀ w, w % 2 ^ l = keyOf lens l m →
        readSymbolRaw R tbl w = .ok (some (symOf lens sorted l m, l)) := by
  obtain ⟨sorted, wR, sEnd, sp⟩ := sizePass_of_complete hc R hR1 hR
  have h15 := hc.h15
  have hu := offs16_ge_two hc
  have hsize := size_eq lens h15
  have hTge : 2 ^ R ≤ sEnd.totalSize := by
    have := sizeSubOuter_mono R _ _ _ _ sp.sub
    simpa [Nat.one_shiftLeft] using this
  have hpR : 0 < 2 ^ R := Nat.pow_pos (by decide)
  obtain ⟨o, o', ho, hsort, ho'⟩ := sp.offsets
  -- the walk of the first pass at the end of the root levels
  have hzroot := (sizeRootOuter_spec lens R hR R 1 { count := countLengths lens } (Nat.le_refl _) (by omega)
    (by simpa [cnt'] using wk_init lens) ⟨NO_zero lens ▸ rfl, NN_zero lens ▸ rfl⟩).1 wR sp.root
  obtain ⟨hzk, hzn⟩ := hzroot
  -- root levels of the second pass
  let s0 : BuildSt := { w := { count := countLengths lens }, table := Array.replicate sEnd.totalSize {},
                        tableBits := R, tableSize := 1 <<< R }
  have hi0 : RootInv lens sorted R sEnd.totalSize (1 - 1) (cnt' lens (1 - 1)) s0 := by
    refine ⟨by simpa [cnt'] using wk_init lens, rfl, by simp [s0], Nat.one_shiftLeft R, rfl, rfl, rfl, ?_⟩
    intro l' m' hs' hb
    unfold Before at hb
    have := hs'.1
    simp [cnt'] at hb
  obtain ⟨s1, hs1, hi1, hn1⟩ := buildRootOuter_spec lens sorted R sEnd.totalSize hc hR hTge R 1 s0
    (Nat.le_refl _) (by omega) hi0 ⟨NO_zero lens ▸ rfl, NN_zero lens ▸ rfl⟩
  have hs1' : buildRootOuter sorted R R 1 2 s0 = .ok s1 := hs1
  -- hand over to the second-level loops
  let z0 : SizeSt := { w := wR, low := noLow, totalSize := 1 <<< R }
  have hsub0 : SubInv lens sorted R sEnd.totalSize (R + 1 - 1) (cnt' lens (R + 1 - 1)) s1 z0 := by
    simp only [Nat.add_sub_cancel]
    refine ⟨hi1.wk, hzk, hi1.low.symm, ?_, hi1.sym, hi1.tsz, ?_, ?_, ?_, ?_, ?_, ?_⟩
    · show 1 <<< R = s1.tableOff + s1.tableSize
      rw [hi1.toff, hi1.tsize, Nat.one_shiftLeft]; omega
    · rw [hi1.tsize, hi1.tbits]
    · rw [hi1.toff, hi1.tsize]; omega
    · rw [hi1.toff, hi1.tsize]; omega
    · intro l' m' hs' hl' j hj hmod
      apply hi1.cells l' m' hs' ?_ j hj hmod
      unfold Before
      by_cases hlR : l' = R
      · right; refine ⟨hlR, ?_⟩; rw [cnt', if_neg (by omega), ← hlR]; exact hs'.2.2
      · left; omega
    · left
      refine ⟨hi1.low, ?_⟩
      intro l' m' _ hR' hb
      unfold Before at hb; omega
    · intro l' m' _ hR' hb
      unfold Before at hb; omega
  obtain ⟨s2, z2, hs2, hi2, hn2⟩ := buildSubOuter_spec lens sorted R sEnd.totalSize hc hR sEnd rfl (15 - R) (R + 1)
    s1 z0 (Nat.le_refl _) (by omega) hsub0 (by simpa using hn1) (by simpa using hzn) sp.sub
  have hs2' : buildSubOuter sorted R sEnd.totalSize (maxLen - R) (R + 1) 2 s1 = .ok s2 := by
    have e : R + 1 - R = 1 := by omega
    rw [e] at hs2; exact hs2
  refine ⟨s2.table, sorted, ?_, sp.sorted, fun l m hs w hw => lookup_of_subInv hc hR1 hi2 hs w hw⟩
  unfold buildTable
  rw [if_neg (by omega), sp.total, if_neg (by omega)]
  simp only
  rw [any_gt_false lens h15]
  simp only [Bool.false_eq_true, if_false]
  have hc0 : (countLengths lens).getD 0 0 ≠ lens.size := by
    show (lengthCounts lens).getD 0 0 ≠ _
    rw [lengthCounts_getD lens 0 (by decide)]; omega
  rw [if_neg hc0, ho]
  simp only [hsort, ho']
  rw [if_neg (by omega), hs1']
  simp only
  rw [hs2']
  simp only
  have hnn : s2.w.numNodes = 2 * ((offs lens 16 : Nat) : Int) - 1 := by
    rw [hn2.numNodes, NN, NO_15, hc.hk, show offs lens (15 + 1) = offs lens 16 from rfl]; push_cast; omega
  rw [if_neg (by rw [hnn]; simp)]

/-! ## single-symbol codes -/

theorem buildTable_single (lens : Array Nat) (h15 : ∀ x ∈ lens, x ≤ 15) (h1 : offs lens 16 = 1) (R : Nat) :
    ∃ tbl, buildTable R lens = .ok tbl ∧
      ∀ s, s < lens.size → lens.getD s 0 ≠ 0 → ∀ w, readSymbolRaw R tbl w = .ok (some (s, 0)) := by
  obtain ⟨hsz, o, sorted, o', ho, hsort, ho', hsorted⟩ := size_single lens h15 h1 R
  have hsize := size_eq lens h15
  have hpR : 0 < 2 ^ R := Nat.pow_pos (by decide)
  obtain ⟨t', ht', hsz', hget'⟩ := replicateValue_spec (Array.replicate (2 ^ R) ({} : HCode)) 0 0 R
    ⟨0, sorted.getD 0 0⟩ (Nat.zero_le _) (by simp)
  refine ⟨t', ?_, ?_⟩
  · unfold buildTable
    rw [if_neg (by omega), hsz, Nat.one_shiftLeft, if_neg (by omega)]
    simp only
    rw [any_gt_false lens h15]
    simp only [Bool.false_eq_true, if_false]
    have hc0 : (countLengths lens).getD 0 0 ≠ lens.size := by
      show (lengthCounts lens).getD 0 0 ≠ _
      rw [lengthCounts_getD lens 0 (by decide)]; omega
    rw [if_neg hc0, ho]
    simp only [hsort, ho', if_true]
    simpa using ht'
  · intro s hs hne w
    have hl15 : lens.getD s 0 ≤ 15 := by
      rw [getD_eq_getElem lens s hs]; exact h15 _ (Array.getElem_mem hs)
    have hpos : offs lens (lens.getD s 0) + idx lens s = 0 := by
      have hi := idx_lt_cnt lens s hs
      have h2 : offs lens (lens.getD s 0) + cnt' lens (lens.getD s 0) ≤ offs lens 16 :=
        offs_add_cnt_le lens (by omega)
      rw [cnt', if_neg hne] at h2
      omega
    have hsym := hsorted s hs hne
    rw [hpos] at hsym
    have hcell : t'[w % 2 ^ R]? = some ⟨0, s⟩ := by
      rw [hget' _, if_pos, hsym]
      exact ⟨Nat.zero_le _, by simpa using Nat.mod_lt w hpR, by simp [Nat.mod_one]⟩
    exact raw_root R t' w ⟨0, s⟩ hcell (Nat.zero_le _)

/-! ## accept / reject agrees with the specification -/

theorem complete_of_buildCode {lens : Array Nat} {code : Code} (h : buildCode lens = .ok code)
    (hm : offs lens 16 ≠ 1) : Complete lens := by
  obtain ⟨h15, _, hk, _, _⟩ := buildCode_ok h
  exact ⟨h15, by rcases hk with h1 | h1; exact absurd h1 hm; exact h1⟩

theorem buildTable_ok_of_buildCode {lens : Array Nat} {code : Code} (h : buildCode lens = .ok code)
    (R : Nat) (hR1 : 1 ≤ R) (hR : R ≤ 15) : ∃ tbl, buildTable R lens = .ok tbl := by
  by_cases h1 : offs lens 16 = 1
  · obtain ⟨tbl, ht, _⟩ := buildTable_single lens (buildCode_ok h).1 h1 R
    exact ⟨tbl, ht⟩
  · obtain ⟨tbl, _, ht, _⟩ := buildTable_complete (complete_of_buildCode h h1) R hR1 hR
    exact ⟨tbl, ht⟩

theorem buildTable_err_of_buildCode {lens : Array Nat} {e : Err} (h : buildCode lens = .err e)
    (R : Nat) (hR : R ≤ 15) : ∃ e', buildTable R lens = .err e' := by
  unfold buildTable
  by_cases h0 : lens.size = 0
  · rw [if_pos h0]; exact ⟨_, rfl⟩
  · rw [if_neg h0]
    simp only
    by_cases hz : buildTableSize R lens = 0
    · rw [if_pos hz]; exact ⟨_, rfl⟩
    · obtain ⟨code, hcode⟩ := size_ne_zero lens R hR hz
      rw [hcode] at h; cases h

/-- `BuildHuffmanTable` rejects exactly the length vectors the specification rejects (and never
    panics or runs out of fuel) -/
theorem buildTable_accepts_iff (lens : Array Nat) (R : Nat) (hR1 : 1 ≤ R) (hR : R ≤ 15) :
    (∃ tbl, buildTable R lens = .ok tbl) ↔ (∃ code, buildCode lens = .ok code) := by
  constructor
  · intro ⟨tbl, ht⟩
    cases hb : buildCode lens with
    | ok code => exact ⟨code, rfl⟩
    | err e => obtain ⟨e', he'⟩ := buildTable_err_of_buildCode hb R hR; rw [he'] at ht; cases ht
    | panic =>
      exfalso; unfold buildCode at hb
      split at hb; · cases hb
      simp only at hb
      split at hb; · cases hb
      split at hb; · cases hb
      split at hb <;> cases hb
    | hang =>
      exfalso; unfold buildCode at hb
      split at hb; · cases hb
      simp only at hb
      split at hb; · cases hb
      split at hb; · cases hb
      split at hb <;> cases hb
  · intro ⟨code, hc⟩
    exact buildTable_ok_of_buildCode hc R hR1 hR

/-! ## the two-level table decodes exactly the canonical prefix code -/

theorem implReadSymbol_of_raw {R : Nat} {tbl : Table} {br : BitReader} {v used : Nat}
    (h : readSymbolRaw R tbl (peekBits br 32) = .ok (some (v, used))) :
    Webp.Impl.VP8LEntropy.readSymbol R tbl br =
      if br.pos + used > 8 * br.data.size then .err .eos else .ok (v, adv br used) := by
  unfold Webp.Impl.VP8LEntropy.readSymbol
  rw [h]
  rfl

/-- **table_lookup_eq_canonical** -/
theorem table_lookup_eq_canonical {lens : Array Nat} {code : Code} (h : buildCode lens = .ok code)
    (R : Nat) (hR1 : 1 ≤ R) (hR : R ≤ 15) :
    ∃ tbl, buildTable R lens = .ok tbl ∧
      ∀ br : BitReader, br.pos ≤ 8 * br.data.size →
        Webp.Impl.VP8LEntropy.readSymbol R tbl br = Webp.Spec.VP8L.readSymbol code br := by
  obtain ⟨h15, hpos, _, _, _⟩ := buildCode_ok h
  by_cases h1 : offs lens 16 = 1
  · -- one symbol, zero bits
    obtain ⟨tbl, ht, hlook⟩ := buildTable_single lens h15 h1 R
    refine ⟨tbl, ht, ?_⟩
    intro br hbr
    -- the used symbol
    have hcnt : ∃ l, 1 ≤ l ∧ l ≤ 15 ∧ 0 < cnt lens l := by
      by_cases hex : ∃ l, 1 ≤ l ∧ l ≤ 15 ∧ 0 < cnt lens l
      · exact hex
      · exfalso
        have hall : ∀ l, l ≤ 16 → offs lens l = 0 := by
          intro l hl
          induction l with
          | zero => rfl
          | succ l ih =>
            rw [offs, ih (by omega), cnt']
            by_cases h0 : l = 0
            · simp [h0]
            · rw [if_neg h0]
              have : ¬ 0 < cnt lens l := fun hp => hex ⟨l, by omega, by omega, hp⟩
              omega
        have := hall 16 (Nat.le_refl _)
        omega
    obtain ⟨l, hl1, hl15, hc⟩ := hcnt
    obtain ⟨s, hs, hsl, _⟩ := exists_sym (lens := lens) (l := l) (m := 0) ⟨hl1, hl15, hc⟩
    have hne : lens.getD s 0 ≠ 0 := by omega
    rw [implReadSymbol_of_raw (hlook s hs hne _), readSymbol_single h h1 s hs hne br]
    rw [if_neg (by omega)]
    rfl
  · -- a complete code
    have hc := complete_of_buildCode h h1
    obtain ⟨tbl, sorted, ht, hsorted, hlook⟩ := buildTable_complete hc R hR1 hR
    refine ⟨tbl, ht, ?_⟩
    intro br hbr
    obtain ⟨l, m, hs, hw⟩ := cover hc (peekBits br 32)
    obtain ⟨s, hss, hsl, hsm⟩ := exists_sym hs
    have hne : lens.getD s 0 ≠ 0 := by have := hs.1; omega
    have hsymOf : symOf lens sorted l m = s := by
      unfold symOf
      have := hsorted s hss hne
      rw [hsl, hsm] at this; exact this
    have hraw := hlook l m hs _ hw
    rw [hsymOf] at hraw
    rw [implReadSymbol_of_raw hraw]
    have hcwlt := cw_lt hc hs
    have hcw : codeWord lens s = cwOf lens l m := by unfold codeWord cwOf; rw [hsl, hsm]
    have hword : wordBits (codeWord lens s) l = bitsLE (keyOf lens l m) l := by
      unfold wordBits keyOf; rw [hcw, Nat.mod_eq_of_lt hcwlt]
    have hlen := restBits_length br
    have hl15 := hs.2.1
    unfold peekBits at hw
    rw [ofBitsLE_take_mod, List.take_take, Nat.min_eq_left (by omega)] at hw
    by_cases hk : l ≤ (restBits br).length
    · -- the whole code word is there
      have htl : ((restBits br).take l).length = l := by simp; omega
      have hbits : restBits br = wordBits (codeWord lens s) (lens.getD s 0) ++ (restBits br).drop l := by
        rw [hsl, hword, ← hw]
        have := bitsLE_ofBitsLE ((restBits br).take l)
        rw [htl] at this
        rw [this, List.take_append_drop]
      rw [readSymbol_word h h1 s hss hne br _ hbits, hsl, if_neg (by omega)]
    · -- the stream ends inside the code word
      have hk' : (restBits br).length < l := by omega
      have htake : (restBits br).take l = restBits br := List.take_of_length_le (by omega)
      have hbits : restBits br = (wordBits (codeWord lens s) (lens.getD s 0)).take (restBits br).length := by
        rw [hsl, hword, ← hw, htake, bitsLE_take _ _ _ (by omega), bitsLE_ofBitsLE]
      rw [readSymbol_word_eos h h1 s hss hne br _ (by rw [hsl]; exact hk') hbits, if_pos (by omega)]

end Webp.Proofs.VP8LEntropyTableF
