import Webp.Proofs.ImportSites3
/-
  C19, /repo/internal/lossy/encode.go importImage: Y plane (parallel direct, serial direct with
  dithering, generic) and the row extraction / planar buffers of the U/V pass.
-/
namespace Webp.Proofs.Import
open Webp.Go Webp.Impl.Import

/-! ### padding arithmetic -/

theorem pad16_nat (w : Nat) : pad16 (w : Int) = (w + 15) / 16 * 16 := by
  unfold pad16; omega

theorem le_pad16 (w : Nat) : w ≤ pad16 (w : Int) := by
  rw [pad16_nat]; omega

theorem clampTo_nat (y h : Nat) (hh : 0 < h) : clampTo (y : Int) (h : Int) = ((min y (h - 1) : Nat) : Int) := by
  unfold clampTo; split <;> omega

/-- `sy := y + Min.Y; if sy >= Min.Y + h { sy = Min.Y + h - 1 }` is `Min.Y + min(y, h-1)` -/
theorem clampAbs (m : Int) (y h : Nat) (hh : 0 < h) :
    (if (y : Int) + m ≥ m + (h : Int) then m + (h : Int) - 1 else (y : Int) + m)
      = m + ((min y (h - 1) : Nat) : Int) := by
  split <;> omega

theorem min_lt (y h : Nat) (hh : 0 < h) : min y (h - 1) < h := by omega

theorem idx_cast (y W x : Nat) : (y : Int) * (W : Int) + (x : Int) = ((y * W + x : Nat) : Int) := by
  push_cast; rfl

theorem rowmajor_lt (W H x y : Nat) (hx : x < W) (hy : y < H) : y * W + x < W * H := by
  have : (y + 1) * W ≤ H * W := Nat.mul_le_mul_right W hy
  rw [Nat.mul_comm W H]; rw [Nat.add_mul] at this; omega

section
variable {Y UV σ : Type} (cv : Conv Y UV σ)

/-! ### Y plane -/

/-- sample `j` of the padded plane without dithering -/
def yF (f : Nat → Nat → RGBA8) (w h PW : Nat) (j : Nat) : Y :=
  let c := f (min (j % PW) (w - 1)) (min (j / PW) (h - 1))
  cv.rgbToY c.r c.g c.b

/-- sample `j` of the padded plane with dithering -/
def yFD (f : Nat → Nat → RGBA8) (w h PW : Nat) (rg : σ) (j : Nat) : Y :=
  let c := f (min (j % PW) (w - 1)) (min (j / PW) (h - 1))
  cv.rgbToYR c.r c.g c.b (cv.rnd (drawsFrom cv.rnd rg j)).1

theorem yDirectPar_spec [Inhabited Y] (nw : Nat) (hnw : 0 < nw) (img : Img) (v : Valid img)
    (init : Array Y) (hsz : init.size = pad16 (img.w : Int) * pad16 (img.h : Int)) :
    yDirectPar cv nw img init
      = .ok (yOf cv img.rel img.w img.h (pad16 (img.w : Int)) (pad16 (img.h : Int))) := by
  unfold yDirectPar yOf
  simp only [srcBase_eq, Valid.bdx_eq v, Valid.bdy_eq v, Int.toNat_natCast, Int.zero_add]
  rw [forN_workers _ _ hnw]
  have hw := v.w_pos
  have hh := v.h_pos
  have hPW := le_pad16 img.w
  generalize hPWd : pad16 (img.w : Int) = PW at *
  generalize hPHd : pad16 (img.h : Int) = PH at *
  refine rows_spec PW PH (yF cv img.rel img.w img.h PW) _ ?_ init hsz
  intro y a hy ha
  have hsy := min_lt y img.h hh
  simp only [clampTo_nat y img.h hh]
  -- the `w` converted samples
  refine forN_inv_bind_ex (fun x a => Filled (yF cv img.rel img.w img.h PW) (y * PW + x) a (PW * PH))
    (by simpa using ha) ?_ ?_
  · intro x s hx hs
    have hxP : x < PW := by omega
    obtain ⟨e1, e2⟩ := divmod_rowmajor PW x y hxP
    refine ⟨_, ?_, by simpa only [Nat.add_assoc] using hs.set (rowmajor_lt PW PH x y hxP hy)⟩
    simp only [ld_r img v hx hsy, ld_g img v hx hsy, ld_b img v hx hsy, Res.bind_ok, idx_cast]
    rw [wr_ok _ _ _ (by rw [hs.1]; exact rowmajor_lt PW PH x y hxP hy)]
    congr 2
    simp only [yF, e1, e2]
    have : min x (img.w - 1) = x := by omega
    rw [this]
  · intro s hs
    by_cases hpad : (PW : Int) > (img.w : Int)
    · rw [if_pos hpad]
      have hpad' : img.w < PW := by omega
      have e : (y : Int) * (PW : Int) + (img.w : Int) - 1 = ((y * PW + (img.w - 1) : Nat) : Int) := by
        push_cast; omega
      have hlt := rowmajor_lt PW PH (img.w - 1) y (by omega) hy
      rw [e, rdBuf_ok _ _ (by rw [hs.1]; exact hlt)]
      simp only [Res.bind_ok]
      have hval : s.getD (y * PW + (img.w - 1)) default = yF cv img.rel img.w img.h PW (y * PW + (img.w - 1)) := by
        have := hs.2 (y * PW + (img.w - 1)) (by omega)
        rw [Array.getD_eq_getD_getElem?, this]; rfl
      unfold forRange
      refine forN_inv_ex
        (fun k a => Filled (yF cv img.rel img.w img.h PW) (y * PW + img.w + k) a (PW * PH)) (by simpa using hs) ?_ ?_
      · intro k t hk ht
        have hxP : img.w + k < PW := by omega
        obtain ⟨e1, e2⟩ := divmod_rowmajor PW (img.w + k) y hxP
        obtain ⟨e3, e4⟩ := divmod_rowmajor PW (img.w - 1) y (by omega)
        have hlt2 := rowmajor_lt PW PH (img.w + k) y hxP hy
        have hidx : y * PW + (img.w + k) = y * PW + img.w + k := by omega
        refine ⟨_, ?_, by simpa only [Nat.add_assoc] using ht.set (by omega)⟩
        beta_reduce
        rw [idx_cast, wr_ok _ _ _ (by rw [ht.1]; exact hlt2)]
        congr 2
        rw [hval]
        simp only [yF, e1, e2, e3, e4]
        have m1 : min (img.w + k) (img.w - 1) = img.w - 1 := by omega
        have m2 : min (img.w - 1) (img.w - 1) = img.w - 1 := by omega
        rw [m1, m2]
      · intro t ht
        have : y * PW + img.w + (PW - img.w) = (y + 1) * PW := by rw [Nat.add_mul]; omega
        rw [this] at ht; exact ht
    · rw [if_neg hpad]
      have : PW = img.w := by omega
      refine ⟨s, rfl, ?_⟩
      rw [Nat.add_mul, Nat.one_mul]
      rw [this] at hs ⊢; exact hs

theorem drawsFrom_succ (rnd : σ → Int × σ) (s : σ) (k : Nat) :
    drawsFrom rnd s (k + 1) = (rnd (drawsFrom rnd s k)).2 := rfl

theorem yDirectSer_spec (img : Img) (v : Valid img) (init : Array Y) (rg : σ)
    (hsz : init.size = pad16 (img.w : Int) * pad16 (img.h : Int)) :
    yDirectSer cv img (init, rg)
      = .ok (yOfDither cv img.rel img.w img.h (pad16 (img.w : Int)) (pad16 (img.h : Int)) rg,
             drawsFrom cv.rnd rg (pad16 (img.w : Int) * pad16 (img.h : Int))) := by
  unfold yDirectSer yOfDither
  simp only [Valid.bdx_eq v, Valid.bdy_eq v]
  have hw := v.w_pos
  have hh := v.h_pos
  generalize hPWd : pad16 (img.w : Int) = PW at *
  generalize hPHd : pad16 (img.h : Int) = PH at *
  refine forN_inv_id
    (fun y (st : Array Y × σ) => Filled (yFD cv img.rel img.w img.h PW rg) (y * PW) st.1 (PW * PH) ∧
      st.2 = drawsFrom cv.rnd rg (y * PW))
    ⟨by simpa using Filled.zero _ init _ hsz, by simp [drawsFrom]⟩ ?_ ?_
  · intro y st hy ⟨ha, hr⟩
    have hsy := min_lt y img.h hh
    have hrow : (if (y : Int) + img.bounds.minY ≥ img.bounds.minY + (img.h : Int)
          then img.bounds.minY + (img.h : Int) - 1 else (y : Int) + img.bounds.minY) - img.rect.minY
        = ((min y (img.h - 1) : Nat) : Int) := by
      rw [clampAbs _ y img.h hh]; simp only [Img.bounds]; omega
    have hx0 : img.bounds.minX - img.rect.minX = 0 := by simp only [Img.bounds]; omega
    simp only [hrow, hx0, Int.zero_mul, Int.add_zero]
    refine forN_inv_ex
      (fun x (st : Array Y × σ) => Filled (yFD cv img.rel img.w img.h PW rg) (y * PW + x) st.1 (PW * PH) ∧
        st.2 = drawsFrom cv.rnd rg (y * PW + x))
      ⟨by simpa using ha, by simpa using hr⟩ ?_ ?_
    · intro x s hx ⟨hs, hrs⟩
      have hsx := min_lt x img.w hw
      obtain ⟨e1, e2⟩ := divmod_rowmajor PW x y hx
      have hlt := rowmajor_lt PW PH x y hx hy
      refine ⟨(s.1.setIfInBounds (y * PW + x) (yFD cv img.rel img.w img.h PW rg (y * PW + x)),
          drawsFrom cv.rnd rg (y * PW + x + 1)), ?_,
        by simpa only [Nat.add_assoc] using hs.set hlt, by rw [Nat.add_assoc]⟩
      simp only [clampTo_nat x img.w hw, ld_r img v hsx hsy, ld_g img v hsx hsy, ld_b img v hsx hsy,
        Res.bind_ok, idx_cast]
      rw [wr_ok _ _ _ (by rw [hs.1]; exact hlt)]
      simp only [Res.bind_ok, hrs, drawsFrom_succ, yFD, e1, e2]
    · intro s ⟨hs, hrs⟩
      exact ⟨by rw [Nat.add_mul, Nat.one_mul]; exact hs, by rw [Nat.add_mul, Nat.one_mul]; exact hrs⟩
  · intro st ⟨hf, hr⟩
    obtain ⟨a, r⟩ := st
    simp only at hf hr
    have hf' : Filled (yFD cv img.rel img.w img.h PW rg) (PW * PH) a (PW * PH) := by
      rw [Nat.mul_comm PW PH]; rw [Nat.mul_comm PW PH] at hf; exact hf
    rw [Filled.eq_ofFn hf', hr, Nat.mul_comm PH PW]
    rfl

/-- the generic path's clamped coordinates -/
theorem generic_coord (atFn : Int → Int → R RGBA8) (b : Rect) (w h : Nat) (f : Nat → Nat → RGBA8)
    (hat : Shows atFn b w h f) (hw : 0 < w) (hh : 0 < h) (x y : Nat) :
    atFn (if (x : Int) + b.minX ≥ b.minX + (w : Int) then b.minX + (w : Int) - 1 else (x : Int) + b.minX)
         (if (y : Int) + b.minY ≥ b.minY + (h : Int) then b.minY + (h : Int) - 1 else (y : Int) + b.minY)
      = .ok (f (min x (w - 1)) (min y (h - 1))) := by
  rw [clampAbs _ x w hw, clampAbs _ y h hh]
  exact hat.2.2 _ _ (min_lt x w hw) (min_lt y h hh)

theorem yGeneric_spec_plain (atFn : Int → Int → R RGBA8) (b : Rect) (w h : Nat) (f : Nat → Nat → RGBA8)
    (hat : Shows atFn b w h f) (hw : 0 < w) (hh : 0 < h) (init : Array Y)
    (hsz : init.size = pad16 (w : Int) * pad16 (h : Int)) :
    yGeneric cv atFn b (init, none)
      = .ok (yOf cv f w h (pad16 (w : Int)) (pad16 (h : Int)), none) := by
  have hgc := generic_coord atFn b w h f hat hw hh
  obtain ⟨hdx, hdy, -⟩ := hat
  unfold yGeneric yOf
  simp only [hdx, hdy]
  generalize hPWd : pad16 (w : Int) = PW at *
  generalize hPHd : pad16 (h : Int) = PH at *
  refine forN_inv_id
    (fun y (st : Array Y × Option σ) => Filled (yF cv f w h PW) (y * PW) st.1 (PW * PH) ∧ st.2 = none)
    ⟨by simpa using Filled.zero _ init _ hsz, rfl⟩ ?_ ?_
  · intro y st hy ⟨ha, hr⟩
    refine forN_inv_ex
      (fun x (st : Array Y × Option σ) => Filled (yF cv f w h PW) (y * PW + x) st.1 (PW * PH) ∧ st.2 = none)
      ⟨by simpa using ha, hr⟩ ?_ ?_
    · intro x s hx ⟨hs, hrs⟩
      obtain ⟨e1, e2⟩ := divmod_rowmajor PW x y hx
      have hlt := rowmajor_lt PW PH x y hx hy
      refine ⟨(s.1.setIfInBounds (y * PW + x) (yF cv f w h PW (y * PW + x)), none), ?_,
        by simpa only [Nat.add_assoc] using hs.set hlt, rfl⟩
      simp only [hgc x y, Res.bind_ok, hrs, idx_cast]
      rw [wr_ok _ _ _ (by rw [hs.1]; exact hlt)]
      simp only [Res.bind_ok, yF, e1, e2]
    · intro s ⟨hs, hrs⟩
      exact ⟨by rw [Nat.add_mul, Nat.one_mul]; exact hs, hrs⟩
  · intro st ⟨hf, hr⟩
    obtain ⟨a, r⟩ := st
    simp only at hf hr
    have hf' : Filled (yF cv f w h PW) (PW * PH) a (PW * PH) := by
      rw [Nat.mul_comm PW PH]; rw [Nat.mul_comm PW PH] at hf; exact hf
    rw [Filled.eq_ofFn hf', hr]
    rfl

theorem yGeneric_spec_dither (atFn : Int → Int → R RGBA8) (b : Rect) (w h : Nat) (f : Nat → Nat → RGBA8)
    (hat : Shows atFn b w h f) (hw : 0 < w) (hh : 0 < h) (init : Array Y) (rg : σ)
    (hsz : init.size = pad16 (w : Int) * pad16 (h : Int)) :
    yGeneric cv atFn b (init, some rg)
      = .ok (yOfDither cv f w h (pad16 (w : Int)) (pad16 (h : Int)) rg,
             some (drawsFrom cv.rnd rg (pad16 (w : Int) * pad16 (h : Int)))) := by
  have hgc := generic_coord atFn b w h f hat hw hh
  obtain ⟨hdx, hdy, -⟩ := hat
  unfold yGeneric yOfDither
  simp only [hdx, hdy]
  generalize hPWd : pad16 (w : Int) = PW at *
  generalize hPHd : pad16 (h : Int) = PH at *
  refine forN_inv_id
    (fun y (st : Array Y × Option σ) => Filled (yFD cv f w h PW rg) (y * PW) st.1 (PW * PH) ∧
      st.2 = some (drawsFrom cv.rnd rg (y * PW)))
    ⟨by simpa using Filled.zero _ init _ hsz, by simp [drawsFrom]⟩ ?_ ?_
  · intro y st hy ⟨ha, hr⟩
    refine forN_inv_ex
      (fun x (st : Array Y × Option σ) => Filled (yFD cv f w h PW rg) (y * PW + x) st.1 (PW * PH) ∧
        st.2 = some (drawsFrom cv.rnd rg (y * PW + x)))
      ⟨by simpa using ha, by simpa using hr⟩ ?_ ?_
    · intro x s hx ⟨hs, hrs⟩
      obtain ⟨e1, e2⟩ := divmod_rowmajor PW x y hx
      have hlt := rowmajor_lt PW PH x y hx hy
      refine ⟨(s.1.setIfInBounds (y * PW + x) (yFD cv f w h PW rg (y * PW + x)),
          some (drawsFrom cv.rnd rg (y * PW + x + 1))), ?_,
        by simpa only [Nat.add_assoc] using hs.set hlt, by rw [Nat.add_assoc]⟩
      simp only [hgc x y, Res.bind_ok, hrs, idx_cast]
      rw [wr_ok _ _ _ (by rw [hs.1]; exact hlt)]
      simp only [Res.bind_ok, drawsFrom_succ, yFD, e1, e2]
    · intro s ⟨hs, hrs⟩
      exact ⟨by rw [Nat.add_mul, Nat.one_mul]; exact hs, by rw [Nat.add_mul, Nat.one_mul]; exact hrs⟩
  · intro st ⟨hf, hr⟩
    obtain ⟨a, r⟩ := st
    simp only at hf hr
    have hf' : Filled (yFD cv f w h PW rg) (PW * PH) a (PW * PH) := by
      rw [Nat.mul_comm PW PH]; rw [Nat.mul_comm PW PH] at hf; exact hf
    rw [Filled.eq_ofFn hf', hr, Nat.mul_comm PH PW]
    rfl

end

end Webp.Proofs.Import
