import Webp.Impl.LTransform
/-
  LZ77 value codes: prefix (symbol, extra bits) code and the plane-distance code.
  No `bv_decide`.  The two table facts are closed by `decide +kernel` (kernel evaluation of a
  finite check, no axioms).
-/
namespace Webp.Proofs.LTransformCodes
open Webp.Spec.LTransform (codeToPlane prefixDecode prefixExtraBits)
open Webp.Impl.LTransform (prefixEncode getCopyDistance bitsLog2Floor planeToCodeLUT
  planeToCodeLUTInit distanceToPlaneCode)

/-! ## prefix code -/

/-- the decoder's function is literally the specification's -/
theorem getCopyDistance_eq_spec (sym extra : Nat) : getCopyDistance sym extra = prefixDecode sym extra := rfl

/-- anatomy of a value `d ≥ 2`: with `hb = ⌊log2 d⌋`, `P = 2^(hb-1)`:
    `d = (2 + s)·P + r`, `s ∈ {0,1}` the second-highest bit, `r < P` -/
theorem anatomy (d : Nat) (hd : 2 ≤ d) :
    let hb := Nat.log2 d
    1 ≤ hb ∧ (d >>> (hb - 1)) &&& 1 ≤ 1 ∧ d &&& ((1 <<< (hb - 1)) - 1) < 2 ^ (hb - 1) ∧
    d = (2 + ((d >>> (hb - 1)) &&& 1)) * 2 ^ (hb - 1) + (d &&& ((1 <<< (hb - 1)) - 1)) := by
  intro hb
  have hne : d ≠ 0 := by omega
  have hlo : 2 ^ hb ≤ d := Nat.log2_self_le hne
  have hhi : d < 2 ^ (hb + 1) := Nat.lt_log2_self
  have hb1 : 1 ≤ hb := by
    rcases Nat.eq_zero_or_pos hb with h0 | h0
    · rw [h0] at hhi; simp at hhi; omega
    · exact h0
  have hP : 0 < 2 ^ (hb - 1) := Nat.pow_pos (by decide)
  have e1 : 2 ^ hb = 2 * 2 ^ (hb - 1) := by
    have : hb = (hb - 1) + 1 := by omega
    rw [this, Nat.pow_succ]; simp; omega
  have e2 : 2 ^ (hb + 1) = 4 * 2 ^ (hb - 1) := by
    rw [Nat.pow_succ, e1]; omega
  rw [Nat.shiftRight_eq_div_pow, Nat.and_one_is_mod, Nat.one_shiftLeft, Nat.and_two_pow_sub_one_eq_mod]
  generalize 2 ^ (hb - 1) = P at *
  have hq2 : 2 ≤ d / P := (Nat.le_div_iff_mul_le hP).mpr (by omega)
  have hq4 : d / P < 4 := Nat.div_lt_of_lt_mul (by omega)
  have hdm := Nat.div_add_mod d P
  have hr : d % P < P := Nat.mod_lt _ hP
  refine ⟨hb1, by omega, hr, ?_⟩
  have hq : d / P = 2 ∨ d / P = 3 := by omega
  rcases hq with hq | hq <;> rw [hq] at hdm ⊢ <;> simp <;> omega

/-- **Prefix value code round trip.**  For every value `d ≥ 1` (length or distance code), with
    `(sym, n, v) = PrefixEncodeNoLUT(d)`: the decoder reads exactly `n` extra bits for `sym`,
    `v` fits in `n` bits, and `getCopyDistance(sym, v) = d`. -/
theorem prefix_roundtrip (d : Nat) (hd : 1 ≤ d) :
    getCopyDistance (prefixEncode d).1 (prefixEncode d).2.2 = d ∧
    prefixExtraBits (prefixEncode d).1 = (prefixEncode d).2.1 ∧
    (prefixEncode d).2.2 < 2 ^ (prefixEncode d).2.1 := by
  unfold prefixEncode
  by_cases h2 : d - 1 < 2
  · simp only [h2, if_true]
    unfold getCopyDistance prefixExtraBits
    have : d - 1 < 4 := by omega
    simp [this]; omega
  · simp only [h2, if_false]
    obtain ⟨hb1, hs, hr, hdec⟩ := anatomy (d - 1) (by omega)
    unfold bitsLog2Floor
    generalize Nat.log2 (d - 1) = hb at *
    generalize ((d - 1) >>> (hb - 1)) &&& 1 = s at *
    generalize (d - 1) &&& ((1 <<< (hb - 1)) - 1) = r at *
    unfold getCopyDistance prefixExtraBits
    simp only []
    by_cases hb2 : hb = 1
    · subst hb2
      simp at hr hdec
      have : 2 * 1 + s < 4 := by omega
      simp [this]; omega
    · have h4 : ¬ (2 * hb + s < 4) := by omega
      have hsh : (2 * hb + s - 2) >>> 1 = hb - 1 := by
        rw [Nat.shiftRight_eq_div_pow]; omega
      have hand : (2 * hb + s) &&& 1 = s := by
        rw [Nat.and_one_is_mod]; omega
      simp only [h4, if_false, hsh, hand, Nat.shiftLeft_eq]
      refine ⟨by omega, trivial, hr⟩

/-- symbols stay inside the alphabets: 40 distance symbols reach `2^20` (= window + 120, the
    largest code the encoder can produce), 24 length symbols reach 4096 -/
theorem prefix_symbol_bound (d k : Nat) (hd : 1 ≤ d) (hk : 1 ≤ k) (hle : d ≤ 2 ^ k) :
    (prefixEncode d).1 < 2 * k := by
  unfold prefixEncode
  by_cases h2 : d - 1 < 2
  · simp only [h2, if_true]; omega
  · simp only [h2, if_false]
    obtain ⟨hb1, hs, _, _⟩ := anatomy (d - 1) (by omega)
    unfold bitsLog2Floor
    have hlt : Nat.log2 (d - 1) < k := (Nat.log2_lt (by omega)).mpr (by omega)
    show 2 * Nat.log2 (d - 1) + ((d - 1) >>> (Nat.log2 (d - 1) - 1) &&& 1) < 2 * k
    omega

/-! ## plane codes -/

def tabCheck : Bool :=
  planeToCodeLUT.zipIdx.all fun (c, v) =>
    (8 ≤ v && v < 16) || (codeToPlane.getD c 0 == v && c < 120)

theorem tabCheck_ok : tabCheck = true := by decide +kernel

/-- Go's `init()` loop produces the transcribed table -/
theorem planeToCodeLUT_init : planeToCodeLUTInit = planeToCodeLUT := by decide +kernel

theorem lut_length : planeToCodeLUT.length = 128 := by decide +kernel
theorem codeToPlane_length : codeToPlane.length = 120 := by decide +kernel

/-- every byte `v < 128` outside `8..15` is `kCodeToPlane[lut[v]]`, with `lut[v] < 120` -/
theorem lut_spec (v : Nat) (hv : v < 128) (hnot : ¬ (8 ≤ v ∧ v < 16)) :
    codeToPlane.getD (planeToCodeLUT.getD v 0) 0 = v ∧ planeToCodeLUT.getD v 0 < 120 := by
  have h := tabCheck_ok
  unfold tabCheck at h
  rw [List.all_eq_true] at h
  have hv' : v < planeToCodeLUT.length := by rw [lut_length]; exact hv
  have hmem : (planeToCodeLUT[v], v) ∈ planeToCodeLUT.zipIdx := by
    rw [List.mem_zipIdx_iff_getElem?]
    simp [hv']
  have := h _ hmem
  simp only [Bool.or_eq_true, Bool.and_eq_true, decide_eq_true_eq, beq_iff_eq] at this
  have hg : planeToCodeLUT.getD v 0 = planeToCodeLUT[v] := by
    simp [List.getD, hv']
  rw [hg]
  rcases this with h1 | h1
  · exact absurd h1 hnot
  · exact h1


theorem shr4 (a b : Nat) (hb : b < 16) : (a * 16 + b) >>> 4 = a := by
  rw [Nat.shiftRight_eq_div_pow]; omega

theorem and15 (a b : Nat) (hb : b < 16) : (a * 16 + b) &&& 0xf = b := by
  have : (0xf : Nat) = 2 ^ 4 - 1 := rfl
  rw [this, Nat.and_two_pow_sub_one_eq_mod]; omega

/-- decoding a table code `lut[v] + 1` under the specification -/
theorem spec_decode_lut (xsize a b : Nat) (hb : b < 16) (hv : a * 16 + b < 128)
    (hnot : ¬ (8 ≤ a * 16 + b ∧ a * 16 + b < 16)) :
    1 ≤ planeToCodeLUT.getD (a * 16 + b) 0 + 1 ∧
    Webp.Spec.LTransform.planeCodeToDistance xsize (planeToCodeLUT.getD (a * 16 + b) 0 + 1)
      = (if ((a * xsize : Nat) : Int) + (8 - (b : Int)) < 1 then 1
         else (((a * xsize : Nat) : Int) + (8 - (b : Int))).toNat) := by
  obtain ⟨hc, hlt⟩ := lut_spec _ hv hnot
  refine ⟨by omega, ?_⟩
  unfold Webp.Spec.LTransform.planeCodeToDistance
  rw [if_neg (by omega)]
  simp only [Nat.add_sub_cancel, hc, shr4 a b hb, and15 a b hb]

/-- **Plane-code round trip against the specification**: every width, every distance. -/
theorem plane_spec_roundtrip (xsize dist : Nat) (hx : 1 ≤ xsize) (hd : 1 ≤ dist) :
    1 ≤ distanceToPlaneCode xsize dist ∧
    Webp.Spec.LTransform.planeCodeToDistance xsize (distanceToPlaneCode xsize dist) = dist := by
  unfold distanceToPlaneCode
  have hdm : xsize * (dist / xsize) + dist % xsize = dist := Nat.div_add_mod dist xsize
  have hmod : dist % xsize < xsize := Nat.mod_lt _ (by omega)
  have hxo : dist - dist / xsize * xsize = dist % xsize := by
    rw [Nat.mul_comm]; omega
  simp only [hxo]
  generalize hy : dist / xsize = y at *
  generalize hxo' : dist % xsize = xo at *
  by_cases h1 : xo ≤ 8 ∧ y < 8
  · rw [if_pos h1]
    have hidx : y * 16 + 8 - xo = y * 16 + (8 - xo) := by omega
    rw [hidx]
    have hnot : ¬ (8 ≤ y * 16 + (8 - xo) ∧ y * 16 + (8 - xo) < 16) := by
      rcases Nat.eq_zero_or_pos y with h0 | h0
      · subst h0; simp at hdm; omega
      · omega
    obtain ⟨hc1, hdec⟩ := spec_decode_lut xsize y (8 - xo) (by omega) (by omega) hnot
    refine ⟨hc1, ?_⟩
    rw [hdec]
    have : (y * xsize : Nat) = xsize * y := Nat.mul_comm _ _
    rw [this]
    split <;> omega
  · rw [if_neg h1]
    by_cases h2 : (xo : Int) > (xsize : Int) - 8 ∧ y < 7
    · rw [if_pos h2]
      have hidx : (y + 1) * 16 + 8 + (xsize - xo) = (y + 1) * 16 + (8 + (xsize - xo)) := by omega
      rw [hidx]
      have hnot : ¬ (8 ≤ (y + 1) * 16 + (8 + (xsize - xo)) ∧ (y + 1) * 16 + (8 + (xsize - xo)) < 16) := by
        omega
      obtain ⟨hc1, hdec⟩ := spec_decode_lut xsize (y + 1) (8 + (xsize - xo)) (by omega) (by omega) hnot
      refine ⟨hc1, ?_⟩
      rw [hdec]
      have : ((y + 1) * xsize : Nat) = xsize * y + xsize := by
        rw [Nat.add_mul, Nat.mul_comm]; simp
      rw [this]
      split <;> omega
    · rw [if_neg h2]
      refine ⟨by omega, ?_⟩
      unfold Webp.Spec.LTransform.planeCodeToDistance
      rw [if_pos (by omega)]
      omega

theorem codeToPlane_lt : (codeToPlane.all fun v => decide (v < 128)) = true := by decide +kernel

theorem codeToPlane_getD_lt (i : Nat) : codeToPlane.getD i 0 < 128 := by
  by_cases hi : i < codeToPlane.length
  · have h := codeToPlane_lt
    rw [List.all_eq_true] at h
    have := h (codeToPlane[i]) (List.getElem_mem hi)
    simpa [List.getD, hi] using this
  · simp [List.getD, hi]

/-- `PlaneCodeToDistance` as coded (the `planeCode ≤ 0` and overflow guards) agrees with the
    specification for codes ≥ 1 when `xsize ≤ ⌊2^30 / 7⌋ = 153391689` (VP8L widths are ≤ 16384) -/
theorem impl_plane_eq_spec (xsize code : Nat) (hc : 1 ≤ code) (hx : xsize ≤ 153391689) :
    Webp.Impl.LTransform.planeCodeToDistance xsize (code : Int)
      = Webp.Spec.LTransform.planeCodeToDistance xsize code := by
  unfold Webp.Impl.LTransform.planeCodeToDistance Webp.Spec.LTransform.planeCodeToDistance
  rw [if_neg (by omega)]
  by_cases h120 : code > 120
  · rw [if_pos (by omega), if_pos h120]; omega
  · rw [if_neg (by omega), if_neg h120]
    simp only [Int.toNat_natCast]
    have hlt := codeToPlane_getD_lt (code - 1)
    generalize codeToPlane.getD (code - 1) 0 = dc at *
    have hy : dc >>> 4 ≤ 7 := by rw [Nat.shiftRight_eq_div_pow]; omega
    have hguard : ¬ (dc >>> 4 > 0 ∧ xsize > (1 <<< 30) / (dc >>> 4)) := by
      intro ⟨hpos, hgt⟩
      have : (1 <<< 30) / 7 ≤ (1 <<< 30) / (dc >>> 4) := Nat.div_le_div_left hy hpos
      have e : (1 <<< 30) / 7 = 153391689 := by decide
      omega
    rw [if_neg hguard]

/-- **Plane-code round trip for the Go functions**, `xsize ≤ 153391689`. -/
theorem plane_impl_roundtrip (xsize dist : Nat) (hx : 1 ≤ xsize) (hx' : xsize ≤ 153391689)
    (hd : 1 ≤ dist) :
    Webp.Impl.LTransform.planeCodeToDistance xsize (distanceToPlaneCode xsize dist : Nat) = dist := by
  obtain ⟨h1, h2⟩ := plane_spec_roundtrip xsize dist hx hd
  rw [impl_plane_eq_spec _ _ h1 hx', h2]

end Webp.Proofs.LTransformCodes
