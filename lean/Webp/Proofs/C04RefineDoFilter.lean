import Webp.Proofs.C04RefineEdge2
import Webp.Proofs.VP8Filter
import Webp.Impl.VP8DecEdges
/-
  C04 refinement, loop filter (stage D), one position: the Go decoder's edge loops' bodies
  (`Webp.Impl.VP8DecEdges.simpleStep` / `mbStep` / `subStep`: `needsFilter2At`, `isHEV`, `doSimpleFilter2/4/6`
  with their store order) = the body of `Webp.Spec.VP8.filterEdge` (`edgeStep`), for every buffer and every
  position with `0 < step` and `3·step ≤ off` (the stores then hit distinct bytes).
-/
namespace Webp.Proofs.C04RefineDoFilter
open Webp.Impl.VP8Kernels
open Webp.Impl.VP8DecEdges (rd8 wr8 store2 store4 store6 simpleStep mbStep subStep)
open Webp.Proofs.C04RefineEdge (edgeStep u8)
open Webp.Proofs.VP8Filter

theorem ba_ext (p q : ByteArray) (h : p.data = q.data) : p = q := by
  cases p; cases q; simp_all

theorem set!_data (p : ByteArray) (i : Nat) (v : UInt8) : (p.set! i v).data = p.data.setIfInBounds i v := by
  cases p; rfl

theorem set!_size (p : ByteArray) (i : Nat) (v : UInt8) : (p.set! i v).size = p.size := by
  cases p; simp [ByteArray.set!, ByteArray.size, Array.set!]

theorem readSeg_eq (p : ByteArray) (off step : Nat) :
    Webp.Impl.VP8DecEdges.readSeg p off step = Webp.Proofs.C04RefineEdge.readSeg p off step := rfl

theorem wr8_eq (p : ByteArray) (i : Nat) (v : Int) : wr8 p i v = p.set! i (u8 v) := rfl

/-- two stores at different bytes commute -/
theorem set!_comm (p : ByteArray) (i j : Nat) (a b : UInt8) (h : i ≠ j) :
    (p.set! i a).set! j b = (p.set! j b).set! i a := by
  apply ba_ext
  rw [set!_data, set!_data, set!_data, set!_data]
  exact Array.setIfInBounds_comm _ _ h

theorem seg_bytes (p : ByteArray) (off step : Nat) : IsBytes (Webp.Impl.VP8DecEdges.readSeg p off step) := by
  have hb : ∀ k, (0 : Int) ≤ rd8 p k ∧ rd8 p k ≤ 255 := fun k => by
    unfold rd8; have := (p.get! k).toNat_lt; omega
  exact ⟨hb _, hb _, hb _, hb _, hb _, hb _, hb _, hb _⟩

/-- **simple filter, one position** -/
theorem simpleStep_eq (thresh I hevT : Nat) (p : ByteArray) (off step : Nat) :
    simpleStep thresh p off step = edgeStep 0 thresh I hevT p off step := by
  rw [Webp.Proofs.C04RefineEdge.edgeStep_simple]
  unfold simpleStep store2
  simp only []
  rw [needsFilter_rfc _ (seg_bytes p off step) thresh, doFilter2_rfc _ (seg_bytes p off step), readSeg_eq]
  by_cases ht : RFC.edgeTest (↑thresh) (Webp.Proofs.C04RefineEdge.readSeg p off step).p1
      (Webp.Proofs.C04RefineEdge.readSeg p off step).p0 (Webp.Proofs.C04RefineEdge.readSeg p off step).q0
      (Webp.Proofs.C04RefineEdge.readSeg p off step).q1 = true
  · simp only [ht, if_true]
    unfold RFC.simpleSegment
    simp only [ht, if_true, wr8_eq]
  · have ht' : RFC.edgeTest (↑thresh) (Webp.Proofs.C04RefineEdge.readSeg p off step).p1
      (Webp.Proofs.C04RefineEdge.readSeg p off step).p0 (Webp.Proofs.C04RefineEdge.readSeg p off step).q0
      (Webp.Proofs.C04RefineEdge.readSeg p off step).q1 = false := by simpa using ht
    simp only [ht', Bool.false_eq_true, if_false]

/-- **normal filter on a sub-block edge, one position** -/
theorem subStep_eq (thresh ithresh hevT : Nat) (p : ByteArray) (off step : Nat) (hs : 0 < step) (ho : 2 * step ≤ off) :
    subStep thresh ithresh hevT p off step = edgeStep 2 thresh ithresh hevT p off step := by
  rw [Webp.Proofs.C04RefineEdge.edgeStep_sub]
  unfold subStep store2 store4
  simp only []
  rw [needsFilter2_rfc _ (seg_bytes p off step) thresh ithresh, hev_rfc _ (seg_bytes p off step) hevT,
    doFilter2_rfc _ (seg_bytes p off step), doFilter4_rfc _ (seg_bytes p off step), readSeg_eq]
  by_cases hy : RFC.filterYes (↑ithresh) (↑thresh) (Webp.Proofs.C04RefineEdge.readSeg p off step) = true
  · by_cases hh : RFC.hevTest (↑hevT) (Webp.Proofs.C04RefineEdge.readSeg p off step) = true
    · simp only [hy, hh, if_true]
      unfold RFC.subblockFilter
      simp only [hy, hh, if_true, wr8_eq]
    · have hh' : RFC.hevTest (↑hevT) (Webp.Proofs.C04RefineEdge.readSeg p off step) = false := by simpa using hh
      simp only [hy, hh', if_true, Bool.false_eq_true, if_false]
      unfold RFC.subblockFilter
      simp only [hy, hh', if_true, Bool.false_eq_true, if_false, wr8_eq]
      rw [set!_comm _ (off + step) (off - 2 * step) _ _ (by omega), set!_comm _ off (off - 2 * step) _ _ (by omega),
        set!_comm _ (off - step) (off - 2 * step) _ _ (by omega)]
  · have hy' : RFC.filterYes (↑ithresh) (↑thresh) (Webp.Proofs.C04RefineEdge.readSeg p off step) = false := by simpa using hy
    simp only [hy', Bool.false_eq_true, if_false]

/-- **normal filter on a macroblock edge, one position** -/
theorem mbStep_eq (thresh ithresh hevT : Nat) (p : ByteArray) (off step : Nat) (hs : 0 < step) (ho : 3 * step ≤ off) :
    mbStep thresh ithresh hevT p off step = edgeStep 1 thresh ithresh hevT p off step := by
  rw [Webp.Proofs.C04RefineEdge.edgeStep_mb]
  unfold mbStep store2 store6
  simp only []
  rw [needsFilter2_rfc _ (seg_bytes p off step) thresh ithresh, hev_rfc _ (seg_bytes p off step) hevT,
    doFilter2_rfc _ (seg_bytes p off step), doFilter6_rfc _ (seg_bytes p off step), readSeg_eq]
  by_cases hy : RFC.filterYes (↑ithresh) (↑thresh) (Webp.Proofs.C04RefineEdge.readSeg p off step) = true
  · by_cases hh : RFC.hevTest (↑hevT) (Webp.Proofs.C04RefineEdge.readSeg p off step) = true
    · simp only [hy, hh, if_true]
      unfold RFC.mbFilter
      simp only [hy, hh, if_true, Bool.not_true, Bool.false_eq_true, if_false, wr8_eq]
    · have hh' : RFC.hevTest (↑hevT) (Webp.Proofs.C04RefineEdge.readSeg p off step) = false := by simpa using hh
      simp only [hy, hh', if_true, Bool.false_eq_true, if_false]
      unfold RFC.mbFilter
      simp only [hy, hh', if_true, Bool.not_false, wr8_eq]
      rw [set!_comm _ off (off - step) _ _ (by omega),
        set!_comm _ (off + step) (off - 2 * step) _ _ (by omega), set!_comm _ off (off - 2 * step) _ _ (by omega),
        set!_comm _ (off - step) (off - 2 * step) _ _ (by omega),
        set!_comm _ (off + 2 * step) (off - 3 * step) _ _ (by omega), set!_comm _ (off + step) (off - 3 * step) _ _ (by omega),
        set!_comm _ off (off - 3 * step) _ _ (by omega), set!_comm _ (off - step) (off - 3 * step) _ _ (by omega),
        set!_comm _ (off - 2 * step) (off - 3 * step) _ _ (by omega)]
  · have hy' : RFC.filterYes (↑ithresh) (↑thresh) (Webp.Proofs.C04RefineEdge.readSeg p off step) = false := by simpa using hy
    simp only [hy', Bool.false_eq_true, if_false]

end Webp.Proofs.C04RefineDoFilter
