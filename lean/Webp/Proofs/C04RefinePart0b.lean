import Webp.Proofs.C04RefinePart0
import Webp.Proofs.C04RefineResid2
import Webp.Spec.VP8.Decode
/-
  C04 refinement, frame-level syntax of the first partition, part 2: `specPass` IS the first-partition thread of
  `Webp.Spec.VP8.decodeCore` — its final `d0`, and the mode fields of every entry of `mbs` (`readResiduals` only
  rewrites `coded` / `eobs` / `overflow`).
-/
namespace Webp.Proofs.C04RefinePart0
open Webp.Spec.VP8

theorem forIn_list_inv {σ : Type} (b : Nat → σ → Id (ForInStep σ)) (I : Nat → σ → Prop) :
    ∀ (n i : Nat) (s0 : σ), I i s0 →
      (∀ j s, i ≤ j → j < i + n → I j s → ∃ s', b j s = ForInStep.yield s' ∧ I (j + 1) s') →
      I (i + n) (forIn (m := Id) (List.range' i n) s0 b) := by
  intro n
  induction n with
  | zero => intro i s0 h0 _; exact h0
  | succ n ih =>
    intro i s0 h0 hstep
    obtain ⟨s', hb, hi⟩ := hstep i s0 (Nat.le_refl _) (by omega) h0
    rw [List.range'_succ, List.forIn_cons, hb]
    have := ih (i + 1) s' hi (fun j s h1 h2 hI => hstep j s (by omega) (by omega) hI)
    rw [show i + (n + 1) = i + 1 + n by omega]
    exact this

/-- a `for` loop over `[:n]` in `Id` whose body always yields keeps an invariant -/
theorem forIn_range_inv {σ : Type} (n : Nat) (s0 : σ) (b : Nat → σ → Id (ForInStep σ)) (I : Nat → σ → Prop)
    (h0 : I 0 s0) (hstep : ∀ j s, j < n → I j s → ∃ s', b j s = ForInStep.yield s' ∧ I (j + 1) s') :
    I n (forIn (m := Id) [:n] s0 b) := by
  rw [Std.Legacy.Range.forIn_eq_forIn_range']
  have := forIn_list_inv b I n 0 s0 h0 (fun j s _ h2 hI => hstep j s (by omega) hI)
  simpa [Std.Legacy.Range.size] using this

/-- the fields of a macroblock record the first partition determines -/
def modesOf (m : MBInfo) : Nat × Bool × Nat × Array Nat × Nat := (m.segment, m.skip, m.ymode, m.bmodes, m.uvmode)

open Webp.Proofs.C04RefineResid in
theorem readResiduals_modes (probs : Array Nat) (q : DequantFactors) (mbX : Nat) (m : MBInfo) (ctx : CoeffCtx) (d : BoolDec) :
    modesOf (readResiduals probs q mbX m ctx d).2.1 = modesOf m := by
  rw [readResiduals_eq]
  unfold specRes
  split
  · split <;> rfl
  · rfl

theorem specPass_append (h : FrameHdr) (mbW : Nat) :
    ∀ (ks ks' : List Nat) (c : ModeCtx) (d : BoolDec) (out : Nat → Option MBInfo),
      specPass h mbW (ks ++ ks') c d out =
        specPass h mbW ks' (specPass h mbW ks c d out).2.1 (specPass h mbW ks c d out).2.2 (specPass h mbW ks c d out).1 := by
  intro ks
  induction ks with
  | nil => intro ks' c d out; rw [List.nil_append, specPass]
  | cons k ks ih => intro ks' c d out; rw [List.cons_append, specPass_cons, specPass_cons, ih]

theorem specPass_snoc (h : FrameHdr) (mbW n : Nat) (c : ModeCtx) (d : BoolDec) (out : Nat → Option MBInfo) :
    specPass h mbW (List.range (n + 1)) c d out =
      specPass h mbW [n] (specPass h mbW (List.range n) c d out).2.1 (specPass h mbW (List.range n) c d out).2.2
        (specPass h mbW (List.range n) c d out).1 := by
  rw [List.range_succ, specPass_append]

/-- the first-partition thread of `decodeCore` after `n` macroblocks -/
structure PInv (h : FrameHdr) (mbW : Nat) (d00 : BoolDec) (n : Nat) (d0 : BoolDec) (mbs : Array MBInfo) : Prop where
  d : d0 = (specPass h mbW (List.range n) { above := Array.replicate (4 * mbW) B_DC_PRED } d00 (fun _ => none)).2.2
  sz : mbs.size = n
  m : ∀ k, k < n → ∃ sm, (specPass h mbW (List.range n) { above := Array.replicate (4 * mbW) B_DC_PRED } d00 (fun _ => none)).1 k = some sm ∧
        modesOf (mbs.getD k {}) = modesOf sm

theorem pinv_step (h : FrameHdr) (mbW : Nat) (d00 : BoolDec) (n : Nat) (d0 : BoolDec) (mbs : Array MBInfo) (mctx : ModeCtx)
    (hp : PInv h mbW d00 n d0 mbs)
    (hc : mctx = rowCtx (n % mbW) (specPass h mbW (List.range n) { above := Array.replicate (4 * mbW) B_DC_PRED } d00 (fun _ => none)).2.1)
    (m' : MBInfo) (hm' : modesOf m' = modesOf (readMBHeader h (n % mbW) mctx d0).1) :
    PInv h mbW d00 (n + 1) (readMBHeader h (n % mbW) mctx d0).2.2 (mbs.push m') ∧
      (readMBHeader h (n % mbW) mctx d0).2.1 =
        (specPass h mbW (List.range (n + 1)) { above := Array.replicate (4 * mbW) B_DC_PRED } d00 (fun _ => none)).2.1 := by
  have e := specPass_snoc h mbW n { above := Array.replicate (4 * mbW) B_DC_PRED } d00 (fun _ => none)
  rw [specPass_cons, specPass] at e
  rw [← hc, ← hp.d] at e
  refine ⟨⟨?_, ?_, ?_⟩, ?_⟩
  · rw [e]
  · rw [Array.size_push, hp.sz]
  · intro k hk
    rw [e]
    by_cases he : k = n
    · refine ⟨_, by show (if k = n then _ else _) = _; exact if_pos he, ?_⟩
      rw [he, ← hm']
      congr 1
      have hsz := hp.sz
      subst hsz
      simp [Array.getD_eq_getD_getElem?]
    · obtain ⟨sm, h1, h2⟩ := hp.m k (by omega)
      refine ⟨sm, by show (if k = n then _ else _) = _; rw [if_neg he]; exact h1, ?_⟩
      rw [← h2]
      congr 1
      have hsz := hp.sz
      have hk' : k < mbs.size := by omega
      simp [Array.getD_eq_getD_getElem?, Array.getElem?_push, hk', Nat.ne_of_lt hk']
  · rw [e]

end Webp.Proofs.C04RefinePart0
