import Webp.Impl.Parser
import Webp.Impl.Demux
import Webp.Impl.Config
/-
  Small concrete WebP containers (built from list literals) used as non-vacuity witnesses
  and as pinned counterexamples in Props/C05, C16, C17.  Everything here is evaluated by
  `decide +kernel` in the property files.
-/
namespace Webp.Samples
open Webp.Go

/-- a RIFF chunk: FourCC, LE32 size, payload, pad byte if the size is odd -/
def chunk (tag : String) (payload : Bytes) : Bytes :=
  tagBytes tag ++ putLE32 payload.length ++ payload ++ (if payload.length % 2 = 1 then [0] else [])

/-- a complete file: RIFF header whose size field covers exactly `body` -/
def riff (body : Bytes) : Bytes :=
  tagBytes "RIFF" ++ putLE32 (4 + body.length) ++ tagBytes "WEBP" ++ body

/-- VP8 key-frame header for a `w × h` picture (10 bytes, nothing else) -/
def vp8Payload (w h : Nat) : Bytes := [0, 0, 0, 0x9d, 0x01, 0x2a] ++ putLE16 w ++ putLE16 h

/-- VP8L header for a `w × h` picture (5 bytes), alpha bit as given -/
def vp8lPayload (w h : Nat) (alpha : Bool) : Bytes :=
  [0x2f] ++ putLE32 ((w - 1) + (h - 1) * 16384 + (if alpha then 268435456 else 0))

/-- VP8X payload: flags, 3 reserved bytes, canvas (w-1, h-1) as LE24 -/
def vp8xPayload (flags w h : Nat) : Bytes :=
  [UInt8.ofNat flags, 0, 0, 0] ++ putLE24 (w - 1) ++ putLE24 (h - 1)

/-- ANMF payload: 16-byte frame header followed by the frame's sub-chunks -/
def anmfPayload (x y w h dur flags : Nat) (sub : Bytes) : Bytes :=
  putLE24 (x / 2) ++ putLE24 (y / 2) ++ putLE24 (w - 1) ++ putLE24 (h - 1) ++ putLE24 dur ++
    [UInt8.ofNat flags] ++ sub

def animPayload (bg loops : Nat) : Bytes := putLE32 bg ++ putLE16 loops

/-- simple lossy 2×3 -/
def simpleVP8 : Bytes := riff (chunk "VP8 " (vp8Payload 2 3))
/-- simple lossless 4×5 (odd payload: one pad byte) -/
def simpleVP8L : Bytes := riff (chunk "VP8L" (vp8lPayload 4 5 false))
/-- extended still: VP8X(alpha) + ALPH(3 bytes) + VP8 2×3, canvas 2×3 -/
def extAlphaStill : Bytes :=
  riff (chunk "VP8X" (vp8xPayload 0x10 2 3) ++ chunk "ALPH" [0, 1, 2] ++ chunk "VP8 " (vp8Payload 2 3))
/-- extended still with a zero-length ALPH chunk (D6) -/
def extZeroAlphStill : Bytes :=
  riff (chunk "VP8X" (vp8xPayload 0x10 2 3) ++ chunk "ALPH" [] ++ chunk "VP8 " (vp8Payload 2 3))
/-- extended still with EXIF before and XMP after the image -/
def extMetaStill : Bytes :=
  riff (chunk "VP8X" (vp8xPayload 0x0c 4 5) ++ chunk "EXIF" [1, 2, 3] ++
    chunk "VP8L" (vp8lPayload 4 5 false) ++ chunk "XMP " [9, 9])
/-- animation: 2 lossless frames on an 8×8 canvas, loop count 7 -/
def anim2 : Bytes :=
  riff (chunk "VP8X" (vp8xPayload 0x02 8 8) ++ chunk "ANIM" (animPayload 0 7) ++
    chunk "ANMF" (anmfPayload 0 0 4 5 100 0 (chunk "VP8L" (vp8lPayload 4 5 false))) ++
    chunk "ANMF" (anmfPayload 2 2 4 5 100 1 (chunk "VP8L" (vp8lPayload 4 5 true))))
/-- the D2 input: RIFF size field 0 -/
def riffSizeZero : Bytes :=
  tagBytes "RIFF" ++ [0, 0, 0, 0] ++ tagBytes "WEBP" ++ tagBytes "VP8 " ++ [0, 0, 0, 0]

/-- simple lossy file with an extra (unknown) chunk inside the RIFF payload after the image -/
def simpleVP8Trailing : Bytes :=
  riff (chunk "VP8 " (vp8Payload 2 3) ++ chunk "JUNK" [1, 2, 3, 4])

/-- `webp.GetFeatures` as it was before the D7 repair: no rejection of a still that has no
    image chunk (pinned behaviour, kept only to state the counterexample) -/
def getFeaturesPinned (data : Bytes) : Webp.Impl.Parser.R Webp.Impl.Config.PubFeatures := do
  let p ← Webp.Impl.Parser.parse data
  pure {
    width := p.features.width, height := p.features.height, hasAlpha := p.features.hasAlpha,
    hasAnimation := p.features.hasAnim, frameCount := p.frames.length,
    loopCount := p.features.loopCount,
    format := match p.features.format with
      | .vp8 => "lossy" | .vp8l => "lossless" | .vp8x => "extended" | .undefined => "unknown" }

/-! files on which exactly one of `container.Parser` / `mux.Demuxer` accepts -/

/-- VP8X header only (a still without image chunk) -/
def dFrameless : Bytes := riff (chunk "VP8X" (vp8xPayload 0 2 3))
/-- simple lossless, odd payload, *no* pad byte (RIFF size says so) -/
def dNoPad : Bytes :=
  tagBytes "RIFF" ++ putLE32 17 ++ tagBytes "WEBP" ++ tagBytes "VP8L" ++ putLE32 5 ++
    vp8lPayload 4 5 false
/-- ALPH followed by VP8L in a still -/
def dAlphVP8L : Bytes :=
  riff (chunk "VP8X" (vp8xPayload 0x10 4 5) ++ chunk "ALPH" [1, 2] ++
    chunk "VP8L" (vp8lPayload 4 5 false))
/-- unknown chunk between ALPH and VP8 -/
def dAlphJunkVP8 : Bytes :=
  riff (chunk "VP8X" (vp8xPayload 0x10 2 3) ++ chunk "ALPH" [1, 2] ++ chunk "JUNK" [7, 7] ++
    chunk "VP8 " (vp8Payload 2 3))
/-- VP8X chunk of 12 bytes -/
def dLongVP8X : Bytes :=
  riff (chunk "VP8X" (vp8xPayload 0 2 3 ++ [0, 0]) ++ chunk "VP8 " (vp8Payload 2 3))
/-- reserved VP8X flag bit 0 set -/
def dReservedFlag : Bytes :=
  riff (chunk "VP8X" (vp8xPayload 0x01 2 3) ++ chunk "VP8 " (vp8Payload 2 3))
/-- still followed by an ANMF chunk -/
def dStillThenANMF : Bytes :=
  riff (chunk "VP8X" (vp8xPayload 0 4 5) ++ chunk "VP8L" (vp8lPayload 4 5 false) ++
    chunk "ANMF" (anmfPayload 0 0 4 5 100 0 (chunk "VP8L" (vp8lPayload 4 5 false))))
/-- animation with a stray top-level VP8 chunk after the frames -/
def dAnimStrayVP8 : Bytes :=
  riff (chunk "VP8X" (vp8xPayload 0x02 8 8) ++ chunk "ANIM" (animPayload 0 7) ++
    chunk "ANMF" (anmfPayload 0 0 4 5 100 0 (chunk "VP8L" (vp8lPayload 4 5 false))) ++
    chunk "VP8 " (vp8Payload 2 3))
/-- animation flag set, ANMF without a preceding ANIM chunk -/
def dAnmfNoAnim : Bytes :=
  riff (chunk "VP8X" (vp8xPayload 0x02 8 8) ++
    chunk "ANMF" (anmfPayload 0 0 4 5 100 0 (chunk "VP8L" (vp8lPayload 4 5 false))))
/-- animation whose last chunk is cut short (declared 40 bytes, 2 present) -/
def dAnimTruncTail : Bytes :=
  riff (chunk "VP8X" (vp8xPayload 0x02 8 8) ++ chunk "ANIM" (animPayload 0 7) ++
    chunk "ANMF" (anmfPayload 0 0 4 5 100 0 (chunk "VP8L" (vp8lPayload 4 5 false))) ++
    tagBytes "EXIF" ++ putLE32 40 ++ [1, 2])

end Webp.Samples
