import Webp.Proofs.VP8LEntropyTableB
/-
  Two-level lookup tables, part C: the tree walk shared by `buildHuffmanTableSize` and
  `BuildHuffmanTable` (key, remaining counts, numOpen / numNodes), the sorting pass, and the
  first pass (`buildHuffmanTableSize`).
-/
namespace Webp.Proofs.VP8LEntropyTableC
open Webp.Go (Res)
open Webp.Spec.VP8L
open Webp.Impl.VP8LEntropy
open Webp.Proofs.VP8LEntropyRev Webp.Proofs.VP8LEntropyCanon Webp.Proofs.VP8LEntropyTableA

/-! ## the walk state -/

/-- key and remaining counts when `m` symbols of length `l` (and all shorter ones) are done -/
structure WK (lens : Array Nat) (l m : Nat) (w : Walk) : Prop where
  size : w.count.size = 16
  cur : 1 ≤ l → w.count.getD l 0 = cnt lens l - m
  rest : ∀ j, l < j → j ≤ 15 → w.count.getD j 0 = cnt lens j
  key : first lens l + m < 2 ^ l → w.key = rev l (first lens l + m)

/-- closed forms of `numOpen`, `numNodes` after level `l` -/
def NO (lens : Array Nat) (l : Nat) : Int := (2 : Int) ^ l - ((first lens l + cnt' lens l : Nat) : Int)
def NN (lens : Array Nat) (l : Nat) : Int := 2 * ((offs lens (l + 1) : Nat) : Int) - 1 + 2 * NO lens l

structure WN (lens : Array Nat) (l : Nat) (w : Walk) : Prop where
  numOpen : w.numOpen = NO lens l
  numNodes : w.numNodes = NN lens l

theorem NO_zero (lens : Array Nat) : NO lens 0 = 1 := by simp [NO, first, cnt']
theorem NN_zero (lens : Array Nat) : NN lens 0 = 1 := by simp [NN, NO, first, cnt', offs]

theorem cnt'_succ (lens : Array Nat) (l : Nat) : cnt' lens (l + 1) = cnt lens (l + 1) := by simp [cnt']

theorem NO_succ (lens : Array Nat) (l : Nat) :
    NO lens l * 2 - ((cnt lens (l + 1) : Nat) : Int) = NO lens (l + 1) := by
  unfold NO
  rw [first, cnt'_succ]
  generalize first lens l + cnt' lens l = a
  push_cast
  rw [Int.pow_succ]
  omega

theorem NN_succ (lens : Array Nat) (l : Nat) : NN lens l + NO lens l * 2 = NN lens (l + 1) := by
  unfold NN
  rw [← NO_succ lens l, offs_succ lens (l + 1), cnt'_succ]
  push_cast
  omega

theorem wk_init (lens : Array Nat) : WK lens 0 0 { count := countLengths lens } := by
  refine ⟨lengthCounts_size lens, ?_, ?_, ?_⟩
  · intro h; omega
  · intro j h1 h2; exact lengthCounts_getD lens j (by omega)
  · intro _; simp [rev, first]

/-- one symbol of length `l` done -/
theorem wk_step {lens : Array Nat} {l m : Nat} {w : Walk} (h : WK lens l m w) (hl : 1 ≤ l) (hl15 : l ≤ 15)
    (n : Nat) (hn : n = cnt lens l - m - 1) :
    WK lens l (m + 1) { w with key := getNextKey w.key l, count := w.count.setIfInBounds l n } := by
  refine ⟨by simpa using h.size, ?_, ?_, ?_⟩
  · intro _
    show (w.count.setIfInBounds l n).getD l 0 = _
    rw [getD_setIfInBounds, if_pos ⟨rfl, by rw [h.size]; omega⟩, hn]; omega
  · intro j h1 h2
    show (w.count.setIfInBounds l n).getD j 0 = _
    rw [getD_setIfInBounds, if_neg (by omega)]
    exact h.rest j h1 h2
  · intro hlt
    show getNextKey w.key l = _
    rw [h.key (by omega)]
    exact getNextKey_rev l _ hl (by omega)

/-- moving on to the next length -/
theorem wk_level {lens : Array Nat} {l : Nat} {w : Walk} (h : WK lens l (cnt' lens l) w) (hl15 : l + 1 ≤ 15) :
    WK lens (l + 1) 0 w := by
  refine ⟨h.size, ?_, ?_, ?_⟩
  · intro _; rw [h.rest (l + 1) (by omega) hl15]; rfl
  · intro j h1 h2; exact h.rest j (by omega) h2
  · intro hlt
    rw [Nat.add_zero, first] at hlt ⊢
    rw [Nat.pow_succ] at hlt
    rw [h.key (by omega)]
    have := rev_shift l 1 (first lens l + cnt' lens l) (by omega)
    rw [Nat.pow_one, Nat.mul_comm] at this
    exact this.symm

/-- the counter of the current length while its symbols are processed -/
theorem wk_cur_cnt' {lens : Array Nat} {l m : Nat} {w : Walk} (h : WK lens l m w) (hl : 1 ≤ l) :
    w.count.getD l 0 = cnt lens l - m := h.cur hl

/-! ## first pass, root levels -/

theorem sizeRootInner_spec (lens : Array Nat) (l : Nat) (hl : 1 ≤ l) (hl15 : l ≤ 15) (n : Nat) :
    ∀ (m : Nat) (w : Walk), m + n = cnt lens l → WK lens l m w →
      WK lens l (cnt lens l) (sizeRootInner l n w) ∧
      (sizeRootInner l n w).numOpen = w.numOpen ∧ (sizeRootInner l n w).numNodes = w.numNodes := by
  induction n with
  | zero =>
    intro m w hm hw
    have : m = cnt lens l := by omega
    subst this
    exact ⟨hw, rfl, rfl⟩
  | succ n ih =>
    intro m w hm hw
    rw [sizeRootInner]
    have := ih (m + 1) _ (by omega) (wk_step hw hl hl15 n (by omega))
    exact this

theorem wn_level {lens : Array Nat} {l : Nat} {w : Walk} (hn : WN lens l w) (hc : w.count.getD (l + 1) 0 = cnt lens (l + 1)) :
    w.numOpen * 2 - ((w.count.getD (l + 1) 0 : Nat) : Int) = NO lens (l + 1) ∧
    w.numNodes + w.numOpen * 2 = NN lens (l + 1) := by
  rw [hn.numOpen, hn.numNodes, hc]
  exact ⟨NO_succ lens l, NN_succ lens l⟩

theorem sizeRootOuter_spec (lens : Array Nat) (R : Nat) (hR : R ≤ 15) (fuel : Nat) :
    ∀ (l : Nat) (w : Walk), 1 ≤ l → l + fuel = R + 1 →
      WK lens (l - 1) (cnt' lens (l - 1)) w → WN lens (l - 1) w →
      (∀ w', sizeRootOuter R fuel l w = some w' → WK lens R (cnt' lens R) w' ∧ WN lens R w') ∧
      ((∀ j, l ≤ j → j ≤ R → 0 ≤ NO lens j) → ∃ w', sizeRootOuter R fuel l w = some w') := by
  induction fuel with
  | zero =>
    intro l w hl hlf hk hn
    have : l - 1 = R := by omega
    rw [this] at hk hn
    refine ⟨?_, fun _ => ⟨w, rfl⟩⟩
    intro w' hw'
    simp only [sizeRootOuter] at hw'
    cases hw'
    exact ⟨hk, hn⟩
  | succ f ih =>
    intro l w hl hlf hk hn
    have hlR : l ≤ R := by omega
    have hk0 : WK lens l 0 w := by
      have := wk_level (l := l - 1) hk (by omega)
      have e : l - 1 + 1 = l := by omega
      rw [e] at this; exact this
    have hcnt : w.count.getD l 0 = cnt lens l := by rw [hk0.cur hl]; rfl
    have hlev := wn_level (l := l - 1) hn (by
      have e : l - 1 + 1 = l := by omega
      rw [e]; exact hcnt)
    have e : l - 1 + 1 = l := by omega
    rw [e] at hlev
    obtain ⟨hno, hnn⟩ := hlev
    rw [sizeRootOuter, if_pos hlR]
    simp only
    have hmul : w.numOpen * 2 - ((w.count.getD l 0 : Nat) : Int) = NO lens l := hno
    by_cases hneg : w.numOpen * 2 - ((w.count.getD l 0 : Nat) : Int) < 0
    · rw [if_pos hneg]
      refine ⟨fun w' h => (by cases h), ?_⟩
      intro hall
      have := hall l (Nat.le_refl _) hlR
      omega
    · rw [if_neg hneg]
      -- the inner loop
      let w1 : Walk := { w with numOpen := w.numOpen * 2 - ((w.count.getD l 0 : Nat) : Int),
                                numNodes := w.numNodes + w.numOpen * 2 }
      have hk1 : WK lens l 0 w1 := ⟨hk0.size, hk0.cur, hk0.rest, hk0.key⟩
      obtain ⟨hk2, ho2, hn2⟩ := sizeRootInner_spec lens l hl (by omega) (w.count.getD l 0) 0 w1
        (by rw [hcnt]; omega) hk1
      have hk2' : WK lens (l + 1 - 1) (cnt' lens (l + 1 - 1)) (sizeRootInner l (w.count.getD l 0) w1) := by
        simp only [Nat.add_sub_cancel]
        rw [cnt', if_neg (by omega)]; exact hk2
      have hn2' : WN lens (l + 1 - 1) (sizeRootInner l (w.count.getD l 0) w1) := by
        simp only [Nat.add_sub_cancel]
        exact ⟨by rw [ho2]; exact hno, by rw [hn2]; exact hnn⟩
      obtain ⟨hs, hc⟩ := ih (l + 1) _ (by omega) (by omega) hk2' hn2'
      exact ⟨hs, fun hall => hc (fun j h1 h2 => hall j (by omega) h2)⟩

/-! ## first pass, second-level lengths (only the walk part; sizes are compared with the second
pass in lock step, part D) -/

theorem sizeSubInner_w (lens : Array Nat) (R l : Nat) (hl : 1 ≤ l) (hl15 : l ≤ 15) (n : Nat) :
    ∀ (m : Nat) (s : SizeSt), m + n = cnt lens l → WK lens l m s.w →
      WK lens l (cnt lens l) (sizeSubInner R l n s).w ∧
      (sizeSubInner R l n s).w.numOpen = s.w.numOpen ∧ (sizeSubInner R l n s).w.numNodes = s.w.numNodes := by
  induction n with
  | zero =>
    intro m s hm hw
    have : m = cnt lens l := by omega
    subst this
    exact ⟨hw, rfl, rfl⟩
  | succ n ih =>
    intro m s hm hw
    rw [sizeSubInner]
    simp only
    split
    · exact ih (m + 1) _ (by omega) (wk_step hw hl hl15 n (by omega))
    · exact ih (m + 1) _ (by omega) (wk_step hw hl hl15 n (by omega))

theorem sizeSubOuter_spec (lens : Array Nat) (R : Nat) (fuel : Nat) :
    ∀ (l : Nat) (s : SizeSt), 1 ≤ l → l + fuel = 16 →
      WK lens (l - 1) (cnt' lens (l - 1)) s.w → WN lens (l - 1) s.w →
      (∀ s', sizeSubOuter R fuel l s = some s' → WK lens 15 (cnt' lens 15) s'.w ∧ WN lens 15 s'.w) ∧
      ((∀ j, l ≤ j → j ≤ 15 → 0 ≤ NO lens j) → ∃ s', sizeSubOuter R fuel l s = some s') := by
  induction fuel with
  | zero =>
    intro l s hl hlf hk hn
    have : l - 1 = 15 := by omega
    rw [this] at hk hn
    refine ⟨?_, fun _ => ⟨s, rfl⟩⟩
    intro s' hs'
    simp only [sizeSubOuter] at hs'
    cases hs'
    exact ⟨hk, hn⟩
  | succ f ih =>
    intro l s hl hlf hk hn
    have hl15 : l ≤ 15 := by omega
    have hk0 : WK lens l 0 s.w := by
      have := wk_level (l := l - 1) hk (by omega)
      have e : l - 1 + 1 = l := by omega
      rw [e] at this; exact this
    have hcnt : s.w.count.getD l 0 = cnt lens l := by rw [hk0.cur hl]; rfl
    have hlev := wn_level (l := l - 1) hn (by
      have e : l - 1 + 1 = l := by omega
      rw [e]; exact hcnt)
    have e : l - 1 + 1 = l := by omega
    rw [e] at hlev
    obtain ⟨hno, hnn⟩ := hlev
    rw [sizeSubOuter, if_pos (show l ≤ maxLen from hl15)]
    simp only
    by_cases hneg : s.w.numOpen * 2 - ((s.w.count.getD l 0 : Nat) : Int) < 0
    · rw [if_pos hneg]
      refine ⟨fun s' h => (by cases h), ?_⟩
      intro hall
      have := hall l (Nat.le_refl _) hl15
      omega
    · rw [if_neg hneg]
      let s1 : SizeSt := { s with w := { s.w with numOpen := s.w.numOpen * 2 - ((s.w.count.getD l 0 : Nat) : Int),
                                                    numNodes := s.w.numNodes + s.w.numOpen * 2 } }
      have hk1 : WK lens l 0 s1.w := ⟨hk0.size, hk0.cur, hk0.rest, hk0.key⟩
      obtain ⟨hk2, ho2, hn2⟩ := sizeSubInner_w lens R l hl hl15 (s.w.count.getD l 0) 0 s1
        (by rw [hcnt]; omega) hk1
      have hk2' : WK lens (l + 1 - 1) (cnt' lens (l + 1 - 1)) (sizeSubInner R l (s.w.count.getD l 0) s1).w := by
        simp only [Nat.add_sub_cancel]
        rw [cnt', if_neg (by omega)]; exact hk2
      have hn2' : WN lens (l + 1 - 1) (sizeSubInner R l (s.w.count.getD l 0) s1).w := by
        simp only [Nat.add_sub_cancel]
        exact ⟨by rw [ho2]; exact hno, by rw [hn2]; exact hnn⟩
      obtain ⟨hs, hc⟩ := ih (l + 1) _ (by omega) (by omega) hk2' hn2'
      exact ⟨hs, fun hall => hc (fun j h1 h2 => hall j (by omega) h2)⟩

/-! ## the sorting pass of the implementation -/

theorem offsetsLoop_spec (lens : Array Nat) (fuel : Nat) :
    ∀ (l : Nat) (o : Array Nat), 1 ≤ l → l + fuel = 15 → o.size = 16 →
      (∀ j, 1 ≤ j → j ≤ l → o.getD j 0 = offs lens j) →
      (∀ j, l ≤ j → j ≤ 14 → cnt lens j ≤ 2 ^ j) →
      ∃ o', offsetsLoop (countLengths lens) fuel l o = some o' ∧ o'.size = 16 ∧
        ∀ j, 1 ≤ j → j ≤ 15 → o'.getD j 0 = offs lens j := by
  induction fuel with
  | zero =>
    intro l o hl hlf hsz hget _
    exact ⟨o, rfl, hsz, fun j h1 h2 => hget j h1 (by omega)⟩
  | succ f ih =>
    intro l o hl hlf hsz hget hle
    rw [offsetsLoop]
    have hc : (countLengths lens).getD l 0 = cnt lens l := lengthCounts_getD lens l (by omega)
    rw [hc, Nat.one_shiftLeft, if_neg (by have := hle l (Nat.le_refl _) (by omega); omega)]
    apply ih (l + 1) _ (by omega) (by omega) (by simpa using hsz)
    · intro j h1 h2
      rw [getD_setIfInBounds]
      by_cases hj : l + 1 = j
      · subst hj
        rw [if_pos ⟨rfl, by rw [hsz]; omega⟩, hget l hl (Nat.le_refl _), offs_succ, cnt', if_neg (by omega)]
      · rw [if_neg (fun hh => hj hh.1)]
        exact hget j h1 (by omega)
    · intro j h1 h2; exact hle j (by omega) h2

theorem offsets_spec (lens : Array Nat) (hle : ∀ j, 1 ≤ j → j ≤ 14 → cnt lens j ≤ 2 ^ j) :
    ∃ o, offsets (countLengths lens) = some o ∧ o.size = 16 ∧ ∀ j, 1 ≤ j → j ≤ 15 → o.getD j 0 = offs lens j := by
  unfold offsets
  apply offsetsLoop_spec lens (maxLen - 1) 1 _ (by omega) (by simp [maxLen]) (by simp [maxLen])
  · intro j h1 h2
    have : j = 1 := by omega
    subst this
    simp [offs, cnt', Array.getD_eq_getD_getElem?, maxLen]
  · intro j h1 h2; exact hle j h1 h2

theorem sortLoop_spec (lens : Array Nat) (h15 : ∀ x ∈ lens, x ≤ 15) (f : Nat) :
    ∀ (i : Nat) (sorted o : Array Nat), i + f = lens.size → sorted.size = lens.size → o.size = 16 →
      (∀ l, 1 ≤ l → l ≤ 15 → o.getD l 0 = offs lens l + (lens.toList.take i).count l) →
      (∀ s, s < i → lens.getD s 0 ≠ 0 → sorted.getD (offs lens (lens.getD s 0) + idx lens s) 0 = s) →
      ∃ sorted' o', sortLoop lens f i sorted o = some (sorted', o') ∧
        (∀ s, s < lens.size → lens.getD s 0 ≠ 0 →
          sorted'.getD (offs lens (lens.getD s 0) + idx lens s) 0 = s) ∧
        o'.getD 15 0 = offs lens 16 := by
  induction f with
  | zero =>
    intro i sorted o hif hss hos hoffs hsorted
    refine ⟨sorted, o, rfl, fun s hs hne => hsorted s (by omega) hne, ?_⟩
    have : i = lens.size := by omega
    subst this
    rw [hoffs 15 (by omega) (by omega), offs_succ lens 15, cnt', if_neg (by omega), cnt]
    have : List.take lens.size lens.toList = lens.toList := by
      rw [List.take_of_length_le]; simp
    rw [this]
  | succ f ih =>
    intro i sorted o hif hss hos hoffs hsorted
    have hilt : i < lens.size := by omega
    rw [sortLoop]
    simp only
    by_cases hcl : lens.getD i 0 > 0
    · rw [if_pos hcl]
      have hl15 : lens.getD i 0 ≤ 15 := by
        have : lens.getD i 0 = lens[i] := by simp [Array.getD_eq_getD_getElem?, hilt]
        rw [this]; exact h15 _ (Array.getElem_mem hilt)
      have hl1 : 1 ≤ lens.getD i 0 := hcl
      have ho : o.getD (lens.getD i 0) 0 = offs lens (lens.getD i 0) + idx lens i := by
        rw [hoffs _ hl1 hl15]; rfl
      have hbound : offs lens (lens.getD i 0) + idx lens i < lens.size := by
        have h1 := idx_lt_cnt lens i hilt
        have h2 : offs lens (lens.getD i 0) + cnt' lens (lens.getD i 0) ≤ offs lens 16 :=
          offs_add_cnt_le lens (by omega)
        rw [cnt', if_neg (by omega)] at h2
        have h3 := size_eq lens h15
        omega
      rw [if_neg (by rw [ho]; omega)]
      apply ih (i + 1) _ _ (by omega) (by simpa using hss) (by simpa using hos)
      · intro l h1 h2
        rw [getD_setIfInBounds, idx_succ_count lens i hilt]
        by_cases hll : lens.getD i 0 = l
        · rw [if_pos ⟨hll, by rw [hos]; omega⟩, if_pos hll, ← hll, hoffs _ hl1 hl15]; omega
        · rw [if_neg (by intro hh; exact hll hh.1), if_neg hll, hoffs l h1 h2]; rfl
      · intro s hs hne
        rw [getD_setIfInBounds, ho]
        by_cases hsn : s = i
        · subst hsn
          rw [if_pos ⟨rfl, by rw [hss]; exact hbound⟩]
        · have hslt : s < i := by omega
          have hsl : s < lens.size := by omega
          have hne2 : offs lens (lens.getD i 0) + idx lens i ≠ offs lens (lens.getD s 0) + idx lens s := by
            by_cases hll : lens.getD s 0 = lens.getD i 0
            · have := idx_lt_idx lens s i hslt hilt hll
              rw [hll]; omega
            · have h1 := idx_lt_cnt lens i hilt
              have h2 := idx_lt_cnt lens s hsl
              rcases Nat.lt_or_gt_of_ne hll with hlt | hgt
              · have := offs_add_cnt_le lens hlt
                rw [cnt', if_neg hne] at this; omega
              · have := offs_add_cnt_le lens hgt
                rw [cnt', if_neg (by omega)] at this; omega
          rw [if_neg (by intro hh; exact hne2 hh.1)]
          exact hsorted s hslt hne
    · rw [if_neg hcl]
      have hz0 : lens.getD i 0 = 0 := by omega
      apply ih (i + 1) _ _ (by omega) hss hos
      · intro l h1 h2
        rw [idx_succ_count lens i hilt, if_neg (by omega), hoffs l h1 h2]; rfl
      · intro s hs hne
        by_cases hsi : s = i
        · subst hsi; exact absurd hz0 hne
        · exact hsorted s (by omega) hne

/-! ## `buildHuffmanTableSize` -/

theorem ks_le_offs (lens : Array Nat) (l : Nat) : ks lens l ≤ offs lens l * 2 ^ 14 := by
  induction l with
  | zero => simp [ks, offs]
  | succ l ih =>
    rw [ks, offs, Nat.add_mul]
    have : cnt' lens l * 2 ^ (15 - l) ≤ cnt' lens l * 2 ^ 14 := by
      by_cases h0 : l = 0
      · subst h0; simp [cnt']
      · exact Nat.mul_le_mul_left _ (Nat.pow_le_pow_right (by decide) (by omega))
    omega

theorem cnt'_le_offs16 (lens : Array Nat) (j : Nat) (hj : j ≤ 15) : cnt' lens j ≤ offs lens 16 := by
  have := offs_add_cnt_le lens (a := j) (b := 16) (by omega)
  omega

theorem any_gt_false (lens : Array Nat) (h15 : ∀ x ∈ lens, x ≤ 15) : lens.any (· > maxLen) = false := by
  rw [Bool.eq_false_iff]
  intro h
  rw [Array.any_eq_true] at h
  obtain ⟨i, hi, hgt⟩ := h
  have := h15 _ (Array.getElem_mem hi)
  simp [maxLen] at hgt
  omega

theorem buildCode_of (lens : Array Nat) (h15 : ∀ x ∈ lens, x ≤ 15) (h0 : 0 < offs lens 16)
    (hk : offs lens 16 = 1 ∨ ks lens 16 = 2 ^ 15) : ∃ code, buildCode lens = .ok code := by
  unfold buildCode
  have hany : lens.any (· > maxCodeLength) = false := any_gt_false lens h15
  rw [if_neg (by rw [hany]; simp)]
  simp only
  rw [used_eq lens h15, kraftSum_eq lens h15, if_neg (by omega)]
  rw [if_neg (by simp only [maxCodeLength]; omega), if_neg (by simp only [maxCodeLength]; omega)]
  exact ⟨_, rfl⟩

/-- everything the second pass needs to know about the first pass of a complete code -/
structure SizePass (lens : Array Nat) (R : Nat) (sorted : Array Nat) (wR : Walk) (sEnd : SizeSt) : Prop where
  offsets : ∃ o o', offsets (countLengths lens) = some o ∧
      sortLoop lens lens.size 0 (Array.replicate lens.size 0) o = some (sorted, o') ∧ o'.getD maxLen 0 = offs lens 16
  sorted : ∀ s, s < lens.size → lens.getD s 0 ≠ 0 → sorted.getD (offs lens (lens.getD s 0) + idx lens s) 0 = s
  root : sizeRootOuter R R 1 { count := countLengths lens } = some wR
  sub : sizeSubOuter R (maxLen - R) (R + 1) { w := wR, low := noLow, totalSize := 1 <<< R } = some sEnd
  total : buildTableSize R lens = sEnd.totalSize

theorem NO_nonneg {lens : Array Nat} (hc : Complete lens) (j : Nat) (hj : j ≤ 15) : 0 ≤ NO lens j := by
  have := first_add_cnt_le lens j hj (Nat.le_of_eq hc.hk)
  unfold NO
  have h2 : ((first lens j + cnt' lens j : Nat) : Int) ≤ ((2 ^ j : Nat) : Int) := by exact_mod_cast this
  push_cast at h2 ⊢
  omega

theorem NO_15 (lens : Array Nat) : NO lens 15 = (2 : Int) ^ 15 - ((ks lens 16 : Nat) : Int) := by
  have := first_add_cnt_mul lens 15 (Nat.le_refl _)
  simp only [Nat.sub_self, Nat.pow_zero, Nat.mul_one] at this
  unfold NO; rw [this]

theorem offs16_ge_two {lens : Array Nat} (hc : Complete lens) : 2 ≤ offs lens 16 := by
  have := ks_le_offs lens 16
  rw [hc.hk] at this
  by_cases h : 2 ≤ offs lens 16
  · exact h
  · exfalso
    have : offs lens 16 ≤ 1 := by omega
    have h2 : offs lens 16 * 2 ^ 14 ≤ 1 * 2 ^ 14 := Nat.mul_le_mul_right _ this
    omega

theorem cnt_le_pow {lens : Array Nat} (h15 : ∀ x ∈ lens, x ≤ 15)
    (hk : offs lens 16 = 1 ∨ ks lens 16 = 2 ^ 15) (j : Nat) (h1 : 1 ≤ j) (h2 : j ≤ 14) : cnt lens j ≤ 2 ^ j := by
  rcases hk with h | h
  · have := cnt'_le_offs16 lens j (by omega)
    rw [cnt', if_neg (by omega)] at this
    have : 1 ≤ 2 ^ j := Nat.pow_pos (by decide)
    omega
  · have := first_add_cnt_le lens j (by omega) (Nat.le_of_eq h)
    rw [cnt', if_neg (by omega)] at this
    omega

theorem sizePass_of_complete {lens : Array Nat} (hc : Complete lens) (R : Nat) (hR1 : 1 ≤ R) (hR : R ≤ 15) :
    ∃ sorted wR sEnd, SizePass lens R sorted wR sEnd := by
  have h15 := hc.h15
  have hu := offs16_ge_two hc
  obtain ⟨o, ho, hosz, hoget⟩ := offsets_spec lens (cnt_le_pow h15 (Or.inr hc.hk))
  obtain ⟨sorted, o', hsort, hsorted, ho'⟩ := sortLoop_spec lens h15 lens.size 0 (Array.replicate lens.size 0) o
    (by omega) (by simp) hosz (by intro l h1 h2; rw [hoget l h1 h2]; simp) (by intro s hs; omega)
  have ho' : o'.getD maxLen 0 = offs lens 16 := ho'
  -- root levels
  have hroot := sizeRootOuter_spec lens R hR R 1 { count := countLengths lens } (Nat.le_refl _) (by omega)
    (by simpa [cnt'] using wk_init lens) ⟨NO_zero lens ▸ rfl, NN_zero lens ▸ rfl⟩
  obtain ⟨wR, hwR⟩ := hroot.2 (fun j _ h2 => NO_nonneg hc j (by omega))
  obtain ⟨hkR, hnR⟩ := hroot.1 wR hwR
  have hsub := sizeSubOuter_spec lens R (maxLen - R) (R + 1)
    { w := wR, low := noLow, totalSize := 1 <<< R } (by omega) (by simp [maxLen]; omega)
    (by simpa using hkR) (by simpa using hnR)
  obtain ⟨sEnd, hsEnd⟩ := hsub.2 (fun j _ h2 => NO_nonneg hc j h2)
  obtain ⟨_, hnEnd⟩ := hsub.1 sEnd hsEnd
  refine ⟨sorted, wR, sEnd, ⟨⟨o, o', ho, hsort, ho'⟩, hsorted, hwR, hsEnd, ?_⟩⟩
  unfold buildTableSize
  rw [any_gt_false lens h15]
  simp only [Bool.false_eq_true, if_false]
  have hc0 : (countLengths lens).getD 0 0 ≠ lens.size := by
    show (lengthCounts lens).getD 0 0 ≠ _
    rw [lengthCounts_getD lens 0 (by decide)]
    have := size_eq lens h15; omega
  rw [if_neg hc0, ho]
  simp only [hsort, ho']
  rw [if_neg (by omega), hwR]
  simp only [hsEnd]
  have hnn : sEnd.w.numNodes = 2 * ((offs lens 16 : Nat) : Int) - 1 := by
    rw [hnEnd.numNodes, NN, NO_15, hc.hk]; push_cast; omega
  rw [if_neg (by rw [hnn]; simp)]

theorem size_single (lens : Array Nat) (h15 : ∀ x ∈ lens, x ≤ 15) (h1 : offs lens 16 = 1) (R : Nat) :
    buildTableSize R lens = 1 <<< R ∧
    ∃ o sorted o', offsets (countLengths lens) = some o ∧
      sortLoop lens lens.size 0 (Array.replicate lens.size 0) o = some (sorted, o') ∧ o'.getD maxLen 0 = 1 ∧
      ∀ s, s < lens.size → lens.getD s 0 ≠ 0 → sorted.getD (offs lens (lens.getD s 0) + idx lens s) 0 = s := by
  obtain ⟨o, ho, hosz, hoget⟩ := offsets_spec lens (cnt_le_pow h15 (Or.inl h1))
  obtain ⟨sorted, o', hsort, hsorted, ho'⟩ := sortLoop_spec lens h15 lens.size 0 (Array.replicate lens.size 0) o
    (by omega) (by simp) hosz (by intro l h1 h2; rw [hoget l h1 h2]; simp) (by intro s hs; omega)
  have ho' : o'.getD maxLen 0 = offs lens 16 := ho'
  refine ⟨?_, o, sorted, o', ho, hsort, by rw [ho', h1], hsorted⟩
  unfold buildTableSize
  rw [any_gt_false lens h15]
  simp only [Bool.false_eq_true, if_false]
  have hc0 : (countLengths lens).getD 0 0 ≠ lens.size := by
    show (lengthCounts lens).getD 0 0 ≠ _
    rw [lengthCounts_getD lens 0 (by decide)]
    have := size_eq lens h15; omega
  rw [if_neg hc0, ho]
  simp only [hsort, ho', h1, if_true]

/-- the offsets pass only succeeds when no level has more codes than nodes -/
theorem offsetsLoop_sound (lens : Array Nat) (fuel : Nat) :
    ∀ (l : Nat) (o o' : Array Nat), 1 ≤ l → l + fuel = 15 →
      offsetsLoop (countLengths lens) fuel l o = some o' → ∀ j, l ≤ j → j ≤ 14 → cnt lens j ≤ 2 ^ j := by
  induction fuel with
  | zero => intro l o o' hl hlf _ j h1 h2; omega
  | succ f ih =>
    intro l o o' hl hlf h j h1 h2
    rw [offsetsLoop] at h
    have hc : (countLengths lens).getD l 0 = cnt lens l := lengthCounts_getD lens l (by omega)
    rw [hc, Nat.one_shiftLeft] at h
    by_cases hgt : cnt lens l > 2 ^ l
    · rw [if_pos hgt] at h; cases h
    · rw [if_neg hgt] at h
      by_cases hj : j = l
      · subst hj; omega
      · exact ih (l + 1) _ o' (by omega) (by omega) h j (by omega) h2

/-- **the first pass accepts only what the specification accepts** -/
theorem size_ne_zero (lens : Array Nat) (R : Nat) (hR : R ≤ 15) (hne : buildTableSize R lens ≠ 0) :
    ∃ code, buildCode lens = .ok code := by
  unfold buildTableSize at hne
  by_cases hany : lens.any (· > maxLen) = true
  · rw [if_pos hany] at hne; exact absurd rfl hne
  · rw [if_neg hany] at hne
    have h15 : ∀ x ∈ lens, x ≤ 15 := by
      intro x hx
      obtain ⟨i, hi, rfl⟩ := Array.mem_iff_getElem.mp hx
      by_cases hgt : lens[i] ≤ 15
      · exact hgt
      · exfalso; apply hany
        rw [Array.any_eq_true]
        exact ⟨i, hi, by simp [maxLen]; omega⟩
    simp only at hne
    by_cases hc0 : (countLengths lens).getD 0 0 = lens.size
    · rw [if_pos hc0] at hne; exact absurd rfl hne
    · rw [if_neg hc0] at hne
      have hpos : 0 < offs lens 16 := by
        have h1 : (countLengths lens).getD 0 0 = cnt lens 0 := lengthCounts_getD lens 0 (by decide)
        have := size_eq lens h15
        omega
      cases ho : offsets (countLengths lens) with
      | none => rw [ho] at hne; exact absurd rfl hne
      | some o =>
        rw [ho] at hne
        simp only at hne
        have hle := offsetsLoop_sound lens (maxLen - 1) 1 _ o (by omega) (by simp [maxLen]) ho
        obtain ⟨o2, ho2, hosz, hoget⟩ := offsets_spec lens (fun j h1 h2 => hle j h1 h2)
        rw [ho] at ho2
        cases ho2
        obtain ⟨sorted, o', hsort, _, ho'⟩ := sortLoop_spec lens h15 lens.size 0 (Array.replicate lens.size 0) o
          (by omega) (by simp) hosz (by intro l h1 h2; rw [hoget l h1 h2]; simp) (by intro s hs; omega)
        have ho' : o'.getD maxLen 0 = offs lens 16 := ho'
        rw [hsort] at hne
        simp only at hne
        rw [ho'] at hne
        by_cases h1 : offs lens 16 = 1
        · exact buildCode_of lens h15 hpos (Or.inl h1)
        · rw [if_neg h1] at hne
          cases hr : sizeRootOuter R R 1 { count := countLengths lens } with
          | none => rw [hr] at hne; exact absurd rfl hne
          | some wR =>
            rw [hr] at hne
            simp only at hne
            by_cases hR1 : 1 ≤ R
            · have hroot := sizeRootOuter_spec lens R hR R 1 { count := countLengths lens } (Nat.le_refl _) (by omega)
                (by simpa [cnt'] using wk_init lens) ⟨NO_zero lens ▸ rfl, NN_zero lens ▸ rfl⟩
              obtain ⟨hkR, hnR⟩ := hroot.1 wR hr
              cases hs : sizeSubOuter R (maxLen - R) (R + 1) { w := wR, low := noLow, totalSize := 1 <<< R } with
              | none => rw [hs] at hne; exact absurd rfl hne
              | some sEnd =>
                rw [hs] at hne
                simp only at hne
                have hsub := sizeSubOuter_spec lens R (maxLen - R) (R + 1)
                  { w := wR, low := noLow, totalSize := 1 <<< R } (by omega) (by simp [maxLen]; omega)
                  (by simpa using hkR) (by simpa using hnR)
                obtain ⟨_, hnEnd⟩ := hsub.1 sEnd hs
                by_cases hnn : sEnd.w.numNodes ≠ 2 * ((offs lens 16 : Nat) : Int) - 1
                · rw [if_pos hnn] at hne; exact absurd rfl hne
                · have hnn' : sEnd.w.numNodes = 2 * ((offs lens 16 : Nat) : Int) - 1 := by
                    by_cases h : sEnd.w.numNodes = 2 * ((offs lens 16 : Nat) : Int) - 1
                    · exact h
                    · exact absurd h hnn
                  rw [hnEnd.numNodes, NN, NO_15, show offs lens (15 + 1) = offs lens 16 from rfl] at hnn'
                  have : ((ks lens 16 : Nat) : Int) = ((2 ^ 15 : Nat) : Int) := by push_cast; omega
                  have hk : ks lens 16 = 2 ^ 15 := by exact_mod_cast this
                  exact buildCode_of lens h15 hpos (Or.inr hk)
            · -- R = 0: no root levels; same argument from level 1
              have hR0 : R = 0 := by omega
              subst hR0
              simp only [sizeRootOuter] at hr
              cases hr
              cases hs : sizeSubOuter 0 (maxLen - 0) (0 + 1) { w := { count := countLengths lens }, low := noLow, totalSize := 1 <<< 0 } with
              | none => rw [hs] at hne; exact absurd rfl hne
              | some sEnd =>
                rw [hs] at hne
                simp only at hne
                have hsub := sizeSubOuter_spec lens 0 (maxLen - 0) (0 + 1)
                  { w := { count := countLengths lens }, low := noLow, totalSize := 1 <<< 0 } (by omega) (by simp [maxLen])
                  (by simpa [cnt'] using wk_init lens) ⟨NO_zero lens ▸ rfl, NN_zero lens ▸ rfl⟩
                obtain ⟨_, hnEnd⟩ := hsub.1 sEnd hs
                by_cases hnn : sEnd.w.numNodes ≠ 2 * ((offs lens 16 : Nat) : Int) - 1
                · rw [if_pos hnn] at hne; exact absurd rfl hne
                · have hnn' : sEnd.w.numNodes = 2 * ((offs lens 16 : Nat) : Int) - 1 := by
                    by_cases h : sEnd.w.numNodes = 2 * ((offs lens 16 : Nat) : Int) - 1
                    · exact h
                    · exact absurd h hnn
                  rw [hnEnd.numNodes, NN, NO_15, show offs lens (15 + 1) = offs lens 16 from rfl] at hnn'
                  have : ((ks lens 16 : Nat) : Int) = ((2 ^ 15 : Nat) : Int) := by push_cast; omega
                  have hk : ks lens 16 = 2 ^ 15 := by exact_mod_cast this
                  exact buildCode_of lens h15 hpos (Or.inr hk)

end Webp.Proofs.VP8LEntropyTableC
