import Webp.Proofs.ImportLossy
/-
  C19, importImage: row extraction (three variants) and the planar buffers of the U/V pass.
-/
namespace Webp.Proofs.Import
open Webp.Go Webp.Impl.Import

/-- sample `x` of the extracted (edge-replicated) row `srcY` -/
def rowF (f : Nat → Nat → RGBA8) (w h srcY : Nat) (x : Nat) : RGBA8 := f (min x (w - 1)) (min srcY (h - 1))

theorem rowOf_eq (f : Nat → Nat → RGBA8) (w h PW srcY : Nat) :
    rowOf f w h PW srcY = Array.ofFn (n := PW) fun x => rowF f w h srcY x.val := rfl

theorem wr_idx {α : Type} (buf : Array α) (i : Nat) (v : α) (h : i < buf.size) :
    wr buf (i : Int) v = .ok (buf.setIfInBounds i v) := wr_ok buf i v h

theorem extractRowDirect_spec (img : Img) (v : Valid img) (srcY : Nat) (buf : Array RGBA8)
    (hb : buf.size = pad16 (img.w : Int)) :
    extractRowDirect img (srcY : Int) buf = .ok (rowOf img.rel img.w img.h (pad16 (img.w : Int)) srcY) := by
  unfold extractRowDirect
  rw [rowOf_eq]
  simp only [Valid.bdx_eq v, Valid.bdy_eq v]
  have hw := v.w_pos
  have hh := v.h_pos
  generalize hPWd : pad16 (img.w : Int) = PW at *
  have hsy := min_lt srcY img.h hh
  have hrow : (if (srcY : Int) + img.bounds.minY ≥ img.bounds.minY + (img.h : Int)
        then img.bounds.minY + (img.h : Int) - 1 else (srcY : Int) + img.bounds.minY) - img.rect.minY
      = ((min srcY (img.h - 1) : Nat) : Int) := by
    rw [clampAbs _ srcY img.h hh]; simp only [Img.bounds]; omega
  have hx0 : img.bounds.minX - img.rect.minX = 0 := by simp only [Img.bounds]; omega
  simp only [hrow, hx0, Int.zero_mul, Int.add_zero]
  refine forN_inv_id (fun x a => Filled (rowF img.rel img.w img.h srcY) x a PW)
    (Filled.zero _ buf _ hb) ?_ (fun a ha => Filled.eq_ofFn ha)
  intro x s hx hs
  have hsx := min_lt x img.w hw
  refine ⟨_, ?_, hs.set hx⟩
  simp only [clampTo_nat x img.w hw, ldPx_rel img v hsx hsy, Res.bind_ok]
  rw [wr_idx _ _ _ (by rw [hs.1]; exact hx)]
  rfl

theorem extractRowGeneric_spec (atFn : Int → Int → R RGBA8) (b : Rect) (w h : Nat) (f : Nat → Nat → RGBA8)
    (hat : Shows atFn b w h f) (hw : 0 < w) (hh : 0 < h) (srcY : Nat) (buf : Array RGBA8)
    (hb : buf.size = pad16 (w : Int)) :
    extractRowGeneric atFn b (srcY : Int) buf = .ok (rowOf f w h (pad16 (w : Int)) srcY) := by
  have hgc := generic_coord atFn b w h f hat hw hh
  obtain ⟨hdx, hdy, -⟩ := hat
  unfold extractRowGeneric
  rw [rowOf_eq]
  simp only [hdx, hdy]
  generalize hPWd : pad16 (w : Int) = PW at *
  refine forN_inv_id (fun x a => Filled (rowF f w h srcY) x a PW)
    (Filled.zero _ buf _ hb) ?_ (fun a ha => Filled.eq_ofFn ha)
  intro x s hx hs
  refine ⟨_, ?_, hs.set hx⟩
  simp only [hgc x srcY, Res.bind_ok]
  rw [wr_idx _ _ _ (by rw [hs.1]; exact hx)]
  rfl

theorem extractRowPar_spec (img : Img) (v : Valid img) (srcY : Nat) (buf : Array RGBA8)
    (hb : buf.size = pad16 (img.w : Int)) :
    extractRowPar img srcY buf = .ok (rowOf img.rel img.w img.h (pad16 (img.w : Int)) srcY) := by
  unfold extractRowPar
  rw [rowOf_eq]
  simp only [srcBase_eq, Valid.bdx_eq v, Valid.bdy_eq v, Int.toNat_natCast, Int.zero_add]
  have hw := v.w_pos
  have hh := v.h_pos
  have hPW := le_pad16 img.w
  generalize hPWd : pad16 (img.w : Int) = PW at *
  have hsy := min_lt srcY img.h hh
  simp only [clampTo_nat srcY img.h hh]
  refine forN_inv_bind (fun x a => Filled (rowF img.rel img.w img.h srcY) x a PW)
    (Filled.zero _ buf _ hb) ?_ ?_
  · intro x s hx hs
    refine ⟨_, ?_, hs.set (by omega)⟩
    simp only [ldPx_rel img v hx hsy, Res.bind_ok]
    rw [wr_idx _ _ _ (by rw [hs.1]; omega)]
    congr 2
    simp only [rowF]
    have : min x (img.w - 1) = x := by omega
    rw [this]
  · intro s hs
    by_cases hpad : (PW : Int) > (img.w : Int)
    · rw [if_pos hpad]
      unfold forRange
      have e : (img.w : Int) - 1 = ((img.w - 1 : Nat) : Int) := by omega
      refine forN_inv_id (fun k a => Filled (rowF img.rel img.w img.h srcY) (img.w + k) a PW)
        (by simpa using hs) ?_ ?_
      · intro k t hk ht
        have hval : t.getD (img.w - 1) default = rowF img.rel img.w img.h srcY (img.w - 1) := by
          have := ht.2 (img.w - 1) (by omega)
          rw [Array.getD_eq_getD_getElem?, this]; rfl
        refine ⟨_, ?_, by simpa only [Nat.add_assoc] using ht.set (by omega)⟩
        beta_reduce
        rw [e, rdBuf_ok _ _ (by rw [ht.1]; omega)]
        simp only [Res.bind_ok]
        rw [wr_idx _ _ _ (by rw [ht.1]; omega), hval]
        congr 2
        simp only [rowF]
        have m1 : min (img.w + k) (img.w - 1) = img.w - 1 := by omega
        have m2 : min (img.w - 1) (img.w - 1) = img.w - 1 := by omega
        rw [m1, m2]
      · intro t ht
        have : img.w + (PW - img.w) = PW := by omega
        rw [this] at ht
        exact Filled.eq_ofFn ht
    · rw [if_neg hpad]
      have : PW = img.w := by omega
      rw [this] at hs ⊢
      exact congrArg Res.ok (Filled.eq_ofFn hs)

section
variable {Y UV σ : Type} (cv : Conv Y UV σ)

theorem size_rowOf (f : Nat → Nat → RGBA8) (w h PW srcY : Nat) : (rowOf f w h PW srcY).size = PW := by
  simp [rowOf]

theorem uvDirectPar_spec (nw : Nat) (hnw : 0 < nw) (hasAlpha : Bool) (img : Img) (v : Valid img)
    (rows : Array RGBA8 × Array RGBA8) (hr0 : rows.1.size = pad16 (img.w : Int))
    (hr1 : rows.2.size = pad16 (img.w : Int)) (init : Array UV)
    (hsz : init.size = pad16 (img.h : Int) / 2) :
    uvDirectPar cv nw hasAlpha img rows init
      = .ok (uvOf cv img.rel img.w img.h (pad16 (img.w : Int)) (pad16 (img.h : Int) / 2) hasAlpha) := by
  unfold uvDirectPar uvOf
  simp only [Valid.bdy_eq v]
  rw [forN_workers _ _ hnw]
  generalize hHd : pad16 (img.h : Int) / 2 = H at *
  refine forN_inv_eq
    (fun y (st : (Array RGBA8 × Array RGBA8) × Array UV) =>
      Filled (fun y => cv.uv (planarOf img.rel img.w img.h (pad16 (img.w : Int)) hasAlpha y)) y st.2 H ∧
      st.1.1.size = pad16 (img.w : Int) ∧ st.1.2.size = pad16 (img.w : Int))
    ⟨Filled.zero _ init _ hsz, hr0, hr1⟩ ?_ (fun st hst => Filled.eq_ofFn hst.1)
  intro y st hy ⟨hf, h0, h1⟩
  have ey0 : y * 2 + 0 = 2 * y := by omega
  have ey1 : y * 2 + 1 = 2 * y + 1 := by omega
  refine ⟨((rowOf img.rel img.w img.h (pad16 (img.w : Int)) (2 * y),
      rowOf img.rel img.w img.h (pad16 (img.w : Int)) (2 * y + 1)),
      st.2.setIfInBounds y (cv.uv (planarOf img.rel img.w img.h (pad16 (img.w : Int)) hasAlpha y))),
    ?_, hf.set hy, size_rowOf _ _ _ _ _, size_rowOf _ _ _ _ _⟩
  simp only [ey0, ey1, extractRowPar_spec img v _ _ h0, extractRowPar_spec img v _ _ h1, Res.bind_ok]
  rw [wr_idx _ _ _ (by rw [hf.1]; exact hy)]
  rfl

/-- what the serial path needs from its `extractRow` closure -/
def ExtractsRows (extract : Int → Array RGBA8 → R (Array RGBA8)) (f : Nat → Nat → RGBA8) (w h PW : Nat) : Prop :=
  ∀ (srcY : Nat) (buf : Array RGBA8), buf.size = PW → extract (srcY : Int) buf = .ok (rowOf f w h PW srcY)

theorem uvSerial_spec_plain (extract : Int → Array RGBA8 → R (Array RGBA8)) (f : Nat → Nat → RGBA8)
    (w h : Nat) (b : Rect) (hdy : b.dy = (h : Int))
    (hex : ExtractsRows extract f w h (pad16 (w : Int))) (hasAlpha : Bool)
    (rows : Array RGBA8 × Array RGBA8) (hr0 : rows.1.size = pad16 (w : Int))
    (hr1 : rows.2.size = pad16 (w : Int)) (init : Array UV) (hsz : init.size = pad16 (h : Int) / 2) :
    uvSerial cv extract hasAlpha b rows (init, none)
      = .ok (uvOf cv f w h (pad16 (w : Int)) (pad16 (h : Int) / 2) hasAlpha, none) := by
  unfold uvSerial uvOf
  simp only [hdy]
  generalize hHd : pad16 (h : Int) / 2 = H at *
  refine forN_inv_eq
    (fun y (st : (Array RGBA8 × Array RGBA8) × Array UV × Option σ) =>
      Filled (fun y => cv.uv (planarOf f w h (pad16 (w : Int)) hasAlpha y)) y st.2.1 H ∧
      st.1.1.size = pad16 (w : Int) ∧ st.1.2.size = pad16 (w : Int) ∧ st.2.2 = none)
    ⟨Filled.zero _ init _ hsz, hr0, hr1, rfl⟩ ?_ ?_
  · intro y st hy ⟨hf, h0, h1, hn⟩
    have ey0 : (y : Int) * 2 = ((2 * y : Nat) : Int) := by push_cast; omega
    have ey1 : ((2 * y : Nat) : Int) + 1 = ((2 * y + 1 : Nat) : Int) := by push_cast; rfl
    refine ⟨((rowOf f w h (pad16 (w : Int)) (2 * y), rowOf f w h (pad16 (w : Int)) (2 * y + 1)),
        st.2.1.setIfInBounds y (cv.uv (planarOf f w h (pad16 (w : Int)) hasAlpha y)), none),
      ?_, hf.set hy, size_rowOf _ _ _ _ _, size_rowOf _ _ _ _ _, rfl⟩
    simp only [ey0, ey1, hex _ _ h0, hex _ _ h1, Res.bind_ok, hn]
    rw [wr_idx _ _ _ (by rw [hf.1]; exact hy)]
    rfl
  · intro st ⟨hf, _, _, hn⟩
    obtain ⟨rws, a, o⟩ := st
    simp only at hf hn
    rw [Filled.eq_ofFn hf, hn]

theorem uvSerial_spec_dither (extract : Int → Array RGBA8 → R (Array RGBA8)) (f : Nat → Nat → RGBA8)
    (w h : Nat) (b : Rect) (hdy : b.dy = (h : Int))
    (hex : ExtractsRows extract f w h (pad16 (w : Int))) (hasAlpha : Bool)
    (rows : Array RGBA8 × Array RGBA8) (hr0 : rows.1.size = pad16 (w : Int))
    (hr1 : rows.2.size = pad16 (w : Int)) (init : Array UV) (rg : σ)
    (hsz : init.size = pad16 (h : Int) / 2) :
    uvSerial cv extract hasAlpha b rows (init, some rg)
      = .ok (uvOfDither cv f w h (pad16 (w : Int)) (pad16 (h : Int) / 2) hasAlpha rg,
             some (uvStateAt cv f w h (pad16 (w : Int)) hasAlpha rg (pad16 (h : Int) / 2))) := by
  unfold uvSerial uvOfDither
  simp only [hdy]
  generalize hHd : pad16 (h : Int) / 2 = H at *
  refine forN_inv_eq
    (fun y (st : (Array RGBA8 × Array RGBA8) × Array UV × Option σ) =>
      Filled (fun y => (cv.uvD (planarOf f w h (pad16 (w : Int)) hasAlpha y)
          (uvStateAt cv f w h (pad16 (w : Int)) hasAlpha rg y)).1) y st.2.1 H ∧
      st.1.1.size = pad16 (w : Int) ∧ st.1.2.size = pad16 (w : Int) ∧
      st.2.2 = some (uvStateAt cv f w h (pad16 (w : Int)) hasAlpha rg y))
    ⟨Filled.zero _ init _ hsz, hr0, hr1, rfl⟩ ?_ ?_
  · intro y st hy ⟨hf, h0, h1, hn⟩
    have ey0 : (y : Int) * 2 = ((2 * y : Nat) : Int) := by push_cast; omega
    have ey1 : ((2 * y : Nat) : Int) + 1 = ((2 * y + 1 : Nat) : Int) := by push_cast; rfl
    refine ⟨((rowOf f w h (pad16 (w : Int)) (2 * y), rowOf f w h (pad16 (w : Int)) (2 * y + 1)),
        st.2.1.setIfInBounds y (cv.uvD (planarOf f w h (pad16 (w : Int)) hasAlpha y)
          (uvStateAt cv f w h (pad16 (w : Int)) hasAlpha rg y)).1,
        some (uvStateAt cv f w h (pad16 (w : Int)) hasAlpha rg (y + 1))),
      ?_, hf.set hy, size_rowOf _ _ _ _ _, size_rowOf _ _ _ _ _, rfl⟩
    simp only [ey0, ey1, hex _ _ h0, hex _ _ h1, Res.bind_ok, hn]
    rw [wr_idx _ _ _ (by rw [hf.1]; exact hy)]
    rfl
  · intro st ⟨hf, _, _, hn⟩
    obtain ⟨rws, a, o⟩ := st
    simp only at hf hn
    rw [Filled.eq_ofFn hf, hn]

end

end Webp.Proofs.Import
