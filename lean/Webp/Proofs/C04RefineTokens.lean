import Webp.Proofs.C04RefineSyntax
/-
  C04 refinement, layer 2 continued: the RFC-shaped block tree `blockP` run on the reference decoder IS
  `Webp.Spec.VP8.readBlock.go` (token tree walk, category extra bits, sign, dequantisation factor,
  zig-zag position, 16-bit store), for every probability table that carries the RFC's
  `coeff_probs[t][band][ctx][node]` in the Go decoder's `BandsPtr[t][n].Probas[ctx][node]`.
  With `getCoeffs_block` (Go's loop = `blockP`) and `tree_transfer` this gives the block-level
  refinement `getCoeffs_eq_readBlock`.
-/
namespace Webp.Proofs.C04RefineTokens
open Webp.Go (Bytes)
open Webp.Impl.BoolCoder
open Webp.Spec.VP8
open Webp.Proofs.C04RefineBool Webp.Proofs.C04RefineSyntax Webp.Proofs.C04RefineOps
open Webp.Impl.VP8SyntaxBytes (P runR rd)
open Webp.Impl.VP8Recon (Slot b2n)

def extraL : List Nat → Nat → BoolDec → Nat × BoolDec
  | [], v, d => (v, d)
  | p :: ps, v, d => extraL ps (2 * v + (if (d.readBool p).1 then 1 else 0)) (d.readBool p).2

theorem spec_readExtra_go (ps : List Nat) (v : Nat) (d : BoolDec) :
    (forIn (m := Id) ps (v, d) (fun p r =>
      (pure (ForInStep.yield (2 * r.1 + (if (r.2.readBool p).1 then 1 else 0), (r.2.readBool p).2)) : Id _)))
    = (pure (extraL ps v d) : Id _) := by
  induction ps generalizing v d with
  | nil => rfl
  | cons p ps ih =>
    rw [List.forIn_cons]
    exact ih _ _

theorem spec_readExtra_list (ps : List Nat) (d : BoolDec) :
    Webp.Spec.VP8.readExtra ps.toArray d = extraL ps 0 d := by
  unfold Webp.Spec.VP8.readExtra
  simp only [Id.run, List.forIn_toArray]
  rw [spec_readExtra_go ps 0 d]
  rfl

theorem runD_rd_bind {β : Type} (prob : Slot → UInt8) (sl : Slot) (f : Bool → P β) (d : BoolDec) :
    runD prob (rd sl >>= f) d = runD prob (f (d.readBool (prob sl).toNat).1) (d.readBool (prob sl).toNat).2 := rfl

theorem runD_readExtra (prob : Slot → UInt8) (ps : List Nat) (hfix : ∀ p ∈ ps, (prob (.fixed p)).toNat = p) (v : Nat) (d : BoolDec) :
    runD prob (T.readExtra ps v) d = some (extraL ps v d) := by
  induction ps generalizing v d with
  | nil => rfl
  | cons p ps ih =>
    show runD prob (rd (.fixed p) >>= fun b => T.readExtra ps (v + v + b2n b)) d = _
    rw [runD_rd_bind, hfix p (by simp), ih (fun q hq => hfix q (by simp [hq]))]
    show some (extraL ps (v + v + b2n _) _) = some (extraL ps (2 * v + _) _)
    rw [Nat.two_mul]; rfl

/-- the fixed probabilities are themselves -/
def FixedOK (prob : Slot → UInt8) : Prop := ∀ p, p ≤ 255 → (prob (.fixed p)).toNat = p

theorem tokMag_eq (tok base : Nat) (ps : List Nat) (d : BoolDec) (h : ¬ tok ≤ 4)
    (hsel : (if tok = 5 then (5, Tables.pcat1) else if tok = 6 then (7, Tables.pcat2)
      else if tok = 7 then (11, Tables.pcat3) else if tok = 8 then (19, Tables.pcat4)
      else if tok = 9 then (35, Tables.pcat5) else (67, Tables.pcat6)) = (base, ps.toArray)) :
    tokenMagnitude tok d = (base + (extraL ps 0 d).1, (extraL ps 0 d).2) := by
  unfold tokenMagnitude
  rw [if_neg h]
  simp only [hsel]
  rw [spec_readExtra_list]

theorem magP_eq (prob : Slot → UInt8) (hfix : FixedOK prob) (tok : Nat) (d : BoolDec) (h : ¬ tok ≤ 4)
    (hle : ∀ p ∈ catList tok, p ≤ 255) :
    runD prob (magP tok) d = some ((extraL (catList tok) 0 d).1 + catBase tok, (extraL (catList tok) 0 d).2) := by
  unfold magP
  rw [if_neg h, runD_bind, runD_readExtra prob _ (fun p hp => hfix p (hle p hp))]
  rfl

theorem magP_runD (prob : Slot → UInt8) (hfix : FixedOK prob) (tok : Nat) (h1 : 1 ≤ tok) (h10 : tok ≤ 10) (d : BoolDec) :
    runD prob (magP tok) d = some (tokenMagnitude tok d) := by
  obtain h | h | h | h | h | h | h | h | h | h : tok = 1 ∨ tok = 2 ∨ tok = 3 ∨ tok = 4 ∨ tok = 5 ∨ tok = 6 ∨ tok = 7 ∨ tok = 8 ∨ tok = 9 ∨ tok = 10 := by omega
  all_goals subst h
  · rfl
  · rfl
  · rfl
  · rfl
  · rw [magP_eq prob hfix 5 d (by decide) (by decide), tokMag_eq 5 (catBase 5) (catList 5) d (by decide) rfl, Nat.add_comm]
  · rw [magP_eq prob hfix 6 d (by decide) (by decide), tokMag_eq 6 (catBase 6) (catList 6) d (by decide) rfl, Nat.add_comm]
  · rw [magP_eq prob hfix 7 d (by decide) (by decide), tokMag_eq 7 (catBase 7) (catList 7) d (by decide) rfl, Nat.add_comm]
  · rw [magP_eq prob hfix 8 d (by decide) (by decide), tokMag_eq 8 (catBase 8) (catList 8) d (by decide) rfl, Nat.add_comm]
  · rw [magP_eq prob hfix 9 d (by decide) (by decide), tokMag_eq 9 (catBase 9) (catList 9) d (by decide) rfl, Nat.add_comm]
  · rw [magP_eq prob hfix 10 d (by decide) (by decide), tokMag_eq 10 (catBase 10) (catList 10) d (by decide) rfl, Nat.add_comm]

open Webp.Impl.VP8Recon (Coeffs zz wrap16 coefSlot zzNat)

/-- block `base/16` of the spec's coefficient array as the Go decoder's 16 coefficients -/
def toC (a : Array Int) (base : Nat) : Coeffs := fun j => a.getD (base + j.val) 0

/-- the coefficient probabilities of block type `t`: Go's `proba.BandsPtr[t][n].Probas[ctx][k]`
    is the RFC's `coeff_probs[t][band(n)][ctx][k]` -/
def CoefOK (prob : Slot → UInt8) (probs : Array Nat) (t : Nat) : Prop :=
  ∀ i ctx k, i < 16 → ctx ≤ 2 → k ≤ 10 → (prob (coefSlot t i ctx k)).toNat =
    probs.getD (((t * 8 + Tables.coeffBands.getD i 0) * 3 + ctx) * 11 + k) 128

theorem toC_set (a : Array Int) (base i : Nat) (v : Int) (h : base + 16 ≤ a.size) (hi : i < 16) :
    toC (a.setIfInBounds (base + Tables.zigzag.getD i 0) v) base = (toC a base).set (zz ⟨i, hi⟩) v := by
  funext j
  have hz : Tables.zigzag.getD i 0 < 16 := Webp.Impl.VP8Recon.zzNat_lt ⟨i, hi⟩
  have hzv : (zz ⟨i, hi⟩).val = Tables.zigzag.getD i 0 := rfl
  generalize Tables.zigzag.getD i 0 = z at *
  unfold toC Webp.Impl.VP8Recon.Coeffs.set
  rw [Array.getD_eq_getD_getElem?, Array.getElem?_setIfInBounds]
  by_cases hj : j = zz ⟨i, hi⟩
  · have : base + z = base + j.val := by rw [hj, hzv]
    rw [if_pos this, if_pos (by omega), if_pos hj]; rfl
  · have : ¬ base + z = base + j.val := by
      intro hh; apply hj; apply Fin.ext
      rw [hzv]; omega
    rw [if_neg this, if_neg hj, ← Array.getD_eq_getD_getElem?]

theorem readBlock_go_succ (probs : Array Nat) (t : Nat) (dcQ acQ : Int) (base fuel i ctx : Nat) (az : Bool)
    (coeffs : Array Int) (ovf : Bool) (d : BoolDec) (hi : i < 16) (tok : Nat) (d1 : BoolDec)
    (hr : BoolDec.readTree.go coeffTree
      (fun n => probs.getD (((t * 8 + Tables.coeffBands.getD i 0) * 3 + ctx) * 11 + n) 128) 16 (if az then 2 else 0) d = (tok, d1)) :
    readBlock.go probs t dcQ acQ base (fuel + 1) i ctx az coeffs ovf d =
      if tok = 11 then (i, coeffs, ovf, d1)
      else if tok = 0 then readBlock.go probs t dcQ acQ base fuel (i + 1) 0 true coeffs ovf d1
      else
        readBlock.go probs t dcQ acQ base fuel (i + 1) (if (tokenMagnitude tok d1).1 = 1 then 1 else 2) false
          (coeffs.setIfInBounds (base + Tables.zigzag.getD i 0)
            (Webp.Spec.VP8.wrap16 ((if ((tokenMagnitude tok d1).2.readBool 128).1 then - (Int.ofNat (tokenMagnitude tok d1).1)
              else Int.ofNat (tokenMagnitude tok d1).1) * (if i = 0 then dcQ else acQ))))
          (ovf || Webp.Spec.VP8.wrap16 ((if ((tokenMagnitude tok d1).2.readBool 128).1 then - (Int.ofNat (tokenMagnitude tok d1).1)
              else Int.ofNat (tokenMagnitude tok d1).1) * (if i = 0 then dcQ else acQ)) ≠
            (if ((tokenMagnitude tok d1).2.readBool 128).1 then - (Int.ofNat (tokenMagnitude tok d1).1)
              else Int.ofNat (tokenMagnitude tok d1).1) * (if i = 0 then dcQ else acQ))
          ((tokenMagnitude tok d1).2.readBool 128).2 := by
  have hn : ¬ i ≥ 16 := by omega
  rw [readBlock.go]
  unfold BoolDec.readTree
  rw [if_neg hn]
  simp only [hr, DCT_EOB]

theorem readBlock_go_16 (probs : Array Nat) (t : Nat) (dcQ acQ : Int) (base fuel i ctx : Nat) (az : Bool)
    (coeffs : Array Int) (ovf : Bool) (d : BoolDec) (hi : ¬ i < 16) :
    readBlock.go probs t dcQ acQ base (fuel + 1) i ctx az coeffs ovf d = (16, coeffs, ovf, d) := by
  have hn : i ≥ 16 := by omega
  rw [readBlock.go, if_pos hn]

theorem runD_ite {β : Type} (prob : Slot → UInt8) (c : Prop) [Decidable c] (a b : P β) (d : BoolDec) :
    runD prob (if c then a else b) d = if c then runD prob a d else runD prob b d := by
  split_ifs <;> rfl

theorem posP_runD {β : Type} (prob : Slot → UInt8) (sl : Nat → Slot) (probs : Nat → Nat)
    (hp : ∀ i, (prob (sl i)).toNat = probs i) (kEob kZero : P β) (kVal : Nat → P β) (az : Bool) (d : BoolDec)
    (tok : Nat) (d1 : BoolDec)
    (hr : BoolDec.readTree.go coeffTree probs 16 (if az then 2 else 0) d = (tok, d1)) :
    runD prob (posP sl kEob kZero kVal az) d =
      if tok = 11 then runD prob kEob d1 else if tok = 0 then runD prob kZero d1
      else (runD prob (magP tok) d1).bind fun (m, d2) => runD prob (kVal m) d2 := by
  unfold posP
  rw [runD_bind, treeP_runD prob coeffTree sl probs hp, hr]
  show runD prob (if tok = 11 then kEob else if tok = 0 then kZero else magP tok >>= kVal) d1 = _
  rw [runD_ite, runD_ite, runD_bind]

theorem setIfInBounds_size' (a : Array Int) (i : Nat) (v : Int) : (a.setIfInBounds i v).size = a.size := by simp

def coeffNodes : List Nat := [0, 2, 4, 6, 8, 10, 12, 14, 16, 18, 20]

theorem coeffTree_step : ∀ i ∈ coeffNodes, ∀ b : Bool,
    (coeffTree.getD (i + (if b then 1 else 0)) 0 ≤ 0 ∧ (coeffTree.getD (i + (if b then 1 else 0)) 0).natAbs ≤ 11) ∨
    (¬ coeffTree.getD (i + (if b then 1 else 0)) 0 ≤ 0 ∧ (coeffTree.getD (i + (if b then 1 else 0)) 0).toNat ∈ coeffNodes) := by
  decide

theorem readTree_go_succ (tree : Array Int) (probs : Nat → Nat) (fuel i : Nat) (d : BoolDec) :
    BoolDec.readTree.go tree probs (fuel + 1) i d =
      if tree.getD (i + (if (d.readBool (probs (i >>> 1))).1 then 1 else 0)) 0 ≤ 0 then
        ((tree.getD (i + (if (d.readBool (probs (i >>> 1))).1 then 1 else 0)) 0).natAbs, (d.readBool (probs (i >>> 1))).2)
      else BoolDec.readTree.go tree probs fuel (tree.getD (i + (if (d.readBool (probs (i >>> 1))).1 then 1 else 0)) 0).toNat
        (d.readBool (probs (i >>> 1))).2 := by
  rw [BoolDec.readTree.go]

/-- the leaves of `coeff_tree` -/
theorem coeffTree_leaf' (probs : Nat → Nat) (fuel i : Nat) (d : BoolDec) (hi : i ∈ coeffNodes) :
    (BoolDec.readTree.go coeffTree probs fuel i d).1 ≤ 11 := by
  induction fuel generalizing i d with
  | zero => show (0 : Nat) ≤ 11; omega
  | succ fuel ih =>
    rw [readTree_go_succ]
    rcases coeffTree_step i hi (d.readBool (probs (i >>> 1))).1 with ⟨h1, h2⟩ | ⟨h1, h2⟩
    · rw [if_pos h1]; exact h2
    · rw [if_neg h1]; exact ih _ _ h2

theorem coeffTree_leaf (probs : Nat → Nat) (i : Nat) (d : BoolDec) (hi : i = 0 ∨ i = 2) :
    (BoolDec.readTree.go coeffTree probs 16 i d).1 ≤ 11 := by
  apply coeffTree_leaf'
  rcases hi with rfl | rfl <;> decide

theorem coeffNodes_half : ∀ i ∈ coeffNodes, i >>> 1 ≤ 10 := by decide

/-- `coeff_tree` only looks at the probabilities of its 11 nodes -/
theorem coeffTree_congr (p q : Nat → Nat) (h : ∀ n, n ≤ 10 → p n = q n) (fuel i : Nat) (d : BoolDec)
    (hi : i ∈ coeffNodes) :
    BoolDec.readTree.go coeffTree p fuel i d = BoolDec.readTree.go coeffTree q fuel i d := by
  induction fuel generalizing i d with
  | zero => rfl
  | succ fuel ih =>
    rw [readTree_go_succ, readTree_go_succ, h _ (coeffNodes_half i hi)]
    rcases coeffTree_step i hi (d.readBool (q (i >>> 1))).1 with ⟨h1, _⟩ | ⟨h1, h2⟩
    · rw [if_pos h1, if_pos h1]
    · rw [if_neg h1, if_neg h1]; exact ih _ _ h2

/-- **one block**: the RFC-shaped tree `blockP` on the reference decoder is `Spec.VP8.readBlock.go` -/
theorem blockP_runD (prob : Slot → UInt8) (probs : Array Nat) (t : Nat) (dq0 dq1 : Int) (base : Nat)
    (hc : CoefOK prob probs t) (hfix : FixedOK prob) :
    ∀ (fuel i ctx : Nat) (az : Bool) (coeffs : Array Int) (ovf : Bool) (d : BoolDec), ctx ≤ 2 → base + 16 ≤ coeffs.size →
      runD prob (blockP t dq0 dq1 fuel i ctx az (toC coeffs base)) d =
        some (((readBlock.go probs t dq0 dq1 base fuel i ctx az coeffs ovf d).1,
               toC (readBlock.go probs t dq0 dq1 base fuel i ctx az coeffs ovf d).2.1 base),
              (readBlock.go probs t dq0 dq1 base fuel i ctx az coeffs ovf d).2.2.2) := by
  intro fuel
  induction fuel with
  | zero => intro i ctx az coeffs ovf d _ _; rfl
  | succ fuel ih =>
    intro i ctx az coeffs ovf d hctx hsz
    rw [blockP_succ]
    by_cases hi : i < 16
    · rw [dif_pos hi]
      rcases hr : BoolDec.readTree.go coeffTree
          (fun n => probs.getD (((t * 8 + Tables.coeffBands.getD i 0) * 3 + ctx) * 11 + n) 128) 16 (if az then 2 else 0) d
        with ⟨tok, d1⟩
      have hle : tok ≤ 11 := by
        have := coeffTree_leaf (fun n => probs.getD (((t * 8 + Tables.coeffBands.getD i 0) * 3 + ctx) * 11 + n) 128)
          (if az then 2 else 0) d (by cases az <;> simp)
        rw [hr] at this; exact this
      rw [readBlock_go_succ probs t dq0 dq1 base fuel i ctx az coeffs ovf d hi tok d1 hr,
        posP_runD prob (coefSlot t i ctx) (fun n => (prob (coefSlot t i ctx n)).toNat) (fun _ => rfl) _ _ _ az d tok d1
          (by rw [coeffTree_congr _ (fun n => probs.getD (((t * 8 + Tables.coeffBands.getD i 0) * 3 + ctx) * 11 + n) 128)
                (fun n hn => hc i ctx n hi hctx hn) 16 _ d (by cases az <;> decide)]; exact hr)]
      by_cases h11 : tok = 11
      · rw [if_pos h11, if_pos h11]; rfl
      · rw [if_neg h11, if_neg h11]
        by_cases h0 : tok = 0
        · rw [if_pos h0, if_pos h0]
          exact ih _ _ _ _ _ _ (by omega) hsz
        · rw [if_neg h0, if_neg h0, magP_runD prob hfix tok (by omega) (by omega)]
          show runD prob (rd (.fixed 128) >>= _) _ = _
          rw [runD_rd_bind, hfix 128 (by omega)]
          have := ih (i + 1) (if (tokenMagnitude tok d1).1 = 1 then 1 else 2) false
            (coeffs.setIfInBounds (base + Tables.zigzag.getD i 0)
              (Webp.Spec.VP8.wrap16 ((if ((tokenMagnitude tok d1).2.readBool 128).1 then - (Int.ofNat (tokenMagnitude tok d1).1)
                else Int.ofNat (tokenMagnitude tok d1).1) * (if i = 0 then dq0 else dq1))))
            (ovf || Webp.Spec.VP8.wrap16 ((if ((tokenMagnitude tok d1).2.readBool 128).1 then - (Int.ofNat (tokenMagnitude tok d1).1)
                else Int.ofNat (tokenMagnitude tok d1).1) * (if i = 0 then dq0 else dq1)) ≠
              (if ((tokenMagnitude tok d1).2.readBool 128).1 then - (Int.ofNat (tokenMagnitude tok d1).1)
                else Int.ofNat (tokenMagnitude tok d1).1) * (if i = 0 then dq0 else dq1))
            ((tokenMagnitude tok d1).2.readBool 128).2 (by split_ifs <;> omega) (by rw [setIfInBounds_size']; exact hsz)
          rw [toC_set _ _ _ _ hsz hi] at this
          exact this
    · rw [dif_neg hi, readBlock_go_16 _ _ _ _ _ _ _ _ _ _ _ _ hi]
      rfl

/-- **Block-level refinement.**  From states in step, the Go coefficient reader
    (`getCoeffsInline`, as the tree `T.getCoeffs`) on the Go boolean reader and the RFC's `readBlock`
    on the reference decoder return the same end-of-block position and the same 16 dequantised
    coefficients in the same (de-zig-zagged) positions, and leave the decoders in step. -/
theorem getCoeffs_eq_readBlock (prob : Slot → UInt8) (probs : Array Nat) (t ctx : Nat) (dq0 dq1 : Int)
    (first base : Nat) (coeffs : Array Int) (hc : CoefOK prob probs t) (hfix : FixedOK prob) (hf : first ≤ 16) (hctx : ctx ≤ 2)
    (hsz : base + 16 ≤ coeffs.size) {F : Bytes} {r : BoolReader} {d : BoolDec} (hs : Sim F r d)
    (hfree : TreeFree prob (T.getCoeffs t ctx dq0 dq1 first (toC coeffs base)) r) :
    ∃ r', runR prob (T.getCoeffs t ctx dq0 dq1 first (toC coeffs base)) r =
        some (((readBlock probs t first ctx dq0 dq1 base coeffs d).1,
               toC (readBlock probs t first ctx dq0 dq1 base coeffs d).2.1 base), r') ∧
      Sim F r' (readBlock probs t first ctx dq0 dq1 base coeffs d).2.2.2 := by
  have ht := tree_transfer prob _ hs hfree
  rw [getCoeffs_block t ctx dq0 dq1 first hf] at ht ⊢
  rw [blockP_runD prob probs t dq0 dq1 base hc hfix 16 first ctx false coeffs false d hctx hsz] at ht
  cases hrr : runR prob (blockP t dq0 dq1 16 first ctx false (toC coeffs base)) r with
  | none => rw [hrr] at ht; exact absurd ht (by simp [TRel])
  | some x =>
    obtain ⟨a, r'⟩ := x
    rw [hrr] at ht
    obtain ⟨ha, hs'⟩ := ht
    exact ⟨r', by rw [ha]; rfl, hs'⟩

/-- **Tree-level refinement.**  A Go parse function `t` that is the RFC tree `tree` up to the leaf
    renumbering `f` (`t >>= pure ∘ f = treeP tree sl`), run on a Go reader in step with a reference
    decoder, returns the mode that `treed_read` returns (renumbered) and leaves them in step. -/
theorem tree_eq_readTree (prob : Slot → UInt8) (tree : Array Int) (sl : Nat → Slot) (probs : Nat → Nat)
    (hp : ∀ i, (prob (sl i)).toNat = probs i) (t : P Nat) (f : Nat → Nat)
    (hT : (t >>= fun m => pure (f m)) = treeP tree sl 16 0)
    {F : Bytes} {r : BoolReader} {d : BoolDec} (hs : Sim F r d) (hfree : TreeFree prob t r) :
    ∃ m r', runR prob t r = some (m, r') ∧ f m = (BoolDec.readTree tree probs d).1 ∧
      Sim F r' (BoolDec.readTree tree probs d).2 := by
  have ht := tree_transfer prob t hs hfree
  have hD : runD prob (t >>= fun m => pure (f m)) d = some (BoolDec.readTree.go tree probs 16 0 d) := by
    rw [hT]; exact treeP_runD prob tree sl probs hp 16 0 d
  rw [runD_bind] at hD
  cases hrd : runD prob t d with
  | none => rw [hrd] at hD; cases hD
  | some y =>
    obtain ⟨m', d'⟩ := y
    rw [hrd] at hD ht
    have hD' : some (f m', d') = some (BoolDec.readTree.go tree probs 16 0 d) := hD
    cases hrr : runR prob t r with
    | none => rw [hrr] at ht; exact absurd ht (by simp [TRel])
    | some x =>
      obtain ⟨m, r'⟩ := x
      rw [hrr] at ht
      obtain ⟨ha, hs'⟩ := ht
      have e := Option.some.inj hD'
      refine ⟨m, r', rfl, ?_, ?_⟩
      · rw [ha]; show f m' = (BoolDec.readTree.go tree probs 16 0 d).1; rw [← e]
      · show Sim F r' (BoolDec.readTree.go tree probs 16 0 d).2; rw [← e]; exact hs'

theorem bind_pure_id {α : Type} (t : P α) : (t >>= fun m => pure (id m)) = t := by
  induction t with
  | pure a => rfl
  | fail => rfl
  | read sl k ih =>
    show P.read sl (fun b => (k b) >>= fun m => pure (id m)) = P.read sl k
    congr 1; funext b; exact ih b

theorem getD_le_of_all (a : Array Nat) (dflt bound : Nat) (hd : dflt ≤ bound)
    (hall : ∀ j : Fin a.size, a[j] ≤ bound) (i : Nat) : a.getD i dflt ≤ bound := by
  rw [Array.getD_eq_getD_getElem?]
  rcases Nat.lt_or_ge i a.size with h | h
  · rw [Array.getElem?_eq_getElem h]; exact hall ⟨i, h⟩
  · rw [Array.getElem?_eq_none h]; exact hd

theorem kfY_le (i : Nat) : Tables.kfYModeProbs.getD i 128 ≤ 255 :=
  getD_le_of_all _ _ _ (by decide) (by decide) i

theorem kfUV_le (i : Nat) : Tables.kfUVModeProbs.getD i 128 ≤ 255 :=
  getD_le_of_all _ _ _ (by decide) (by decide) i

end Webp.Proofs.C04RefineTokens
