import Webp.Proofs.C04RefineDoFilter2
/-
  C04 refinement, loop filter (stage D), one macroblock in one plane, part 2: the four groups of edges.
-/
namespace Webp.Proofs.C04RefineDoFilter
open Webp.Spec.VP8 (filterEdge filterMBPlane FilterParams Plane)
open Webp.Impl.VP8DecEdges (simpleStep mbStep subStep edgeLoop innerLoop filterPlane FParams)
open Webp.Proofs.C04RefineEdge (edgeStep filterEdge_fold)

/-- the macroblock-edge body the Go code uses for this filter type -/
def mbf (simple : Bool) (f : FParams) : ByteArray → Nat → Nat → ByteArray :=
  if simple then simpleStep (f.limit + 4) else mbStep (f.limit + 4) f.ilevel f.hevT
/-- the inner-edge body -/
def inf (simple : Bool) (f : FParams) : ByteArray → Nat → Nat → ByteArray :=
  if simple then simpleStep f.limit else subStep f.limit f.ilevel f.hevT

theorem mbf_eq (simple : Bool) (f : FParams) (q : ByteArray) (off step : Nat) (hs : 0 < step) (ho : 3 * step ≤ off) :
    mbf simple f q off step = edgeStep (if simple then 0 else 1) (f.limit + 4) f.ilevel f.hevT q off step := by
  unfold mbf
  cases simple
  · simp only [Bool.false_eq_true, if_false]; exact mbStep_eq _ _ _ q off step hs ho
  · simp only [if_true]; exact simpleStep_eq _ _ _ q off step

theorem inf_eq (simple : Bool) (f : FParams) (q : ByteArray) (off step : Nat) (hs : 0 < step) (ho : 2 * step ≤ off) :
    inf simple f q off step = edgeStep (if simple then 0 else 2) f.limit f.ilevel f.hevT q off step := by
  unfold inf
  cases simple
  · simp only [Bool.false_eq_true, if_false]; exact subStep_eq _ _ _ q off step hs ho
  · simp only [if_true]; exact simpleStep_eq _ _ _ q off step

/-- left macroblock edge -/
theorem left_eq (simple : Bool) (f : FParams) (q : ByteArray) (org s n : Nat) (ho : 3 ≤ org) :
    edgeLoop (mbf simple f) q org s 1 n =
      filterEdge (if simple then 0 else 1) (f.limit + 4) f.ilevel f.hevT q org s 1 n :=
  edgeLoop_eq _ _ _ _ _ q org s 1 n (fun k _ q' => mbf_eq simple f q' _ 1 (by omega) (by omega))

/-- top macroblock edge -/
theorem top_eq (simple : Bool) (f : FParams) (q : ByteArray) (org s n : Nat) (hs : 0 < s) (ho : 3 * s ≤ org) :
    edgeLoop (mbf simple f) q org 1 s n =
      filterEdge (if simple then 0 else 1) (f.limit + 4) f.ilevel f.hevT q org 1 s n :=
  edgeLoop_eq _ _ _ _ _ q org 1 s n (fun k _ q' => mbf_eq simple f q' _ s hs (by omega))

/-- inner vertical edges -/
theorem innerV_eq (simple : Bool) (f : FParams) (q : ByteArray) (org s n m : Nat) :
    innerLoop (fun p b => edgeLoop (inf simple f) p b s 1 n) q org 4 m =
      (List.range m).foldl (fun d k =>
        filterEdge (if simple then 0 else 2) f.limit f.ilevel f.hevT d (org + 4 * (k + 1)) s 1 n) q := by
  unfold innerLoop
  apply foldl_congr_mem
  intro k _ x
  have e : org + (k + 1) * 4 = org + 4 * (k + 1) := by omega
  rw [e]
  exact edgeLoop_eq _ _ _ _ _ x _ s 1 n (fun j _ q' => inf_eq simple f q' _ 1 (by omega) (by omega))

/-- inner horizontal edges -/
theorem innerH_eq (simple : Bool) (f : FParams) (q : ByteArray) (org s n m : Nat) (hs : 0 < s) :
    innerLoop (fun p b => edgeLoop (inf simple f) p b 1 s n) q org (4 * s) m =
      (List.range m).foldl (fun d k =>
        filterEdge (if simple then 0 else 2) f.limit f.ilevel f.hevT d (org + 4 * (k + 1) * s) 1 s n) q := by
  unfold innerLoop
  apply foldl_congr_mem
  intro k _ x
  have e : org + (k + 1) * (4 * s) = org + 4 * (k + 1) * s := by rw [Nat.mul_comm (k + 1) (4 * s), Nat.mul_right_comm]
  rw [e]
  have hge : 4 * s ≤ 4 * (k + 1) * s := by
    have : 4 * (k + 1) * s = 4 * s + 4 * k * s := by rw [Nat.mul_add, Nat.add_mul]; omega
    omega
  exact edgeLoop_eq _ _ _ _ _ x _ 1 s n (fun j _ q' => inf_eq simple f q' _ s hs (by omega))

end Webp.Proofs.C04RefineDoFilter
