import Webp.Proofs.C01FullStream
import Webp.Impl.LosslessAPI
import Webp.Props.C02
import Std.Tactic.BVDecide
/-
  C01, stages 2–3: from a valid plan to the source ARGB image (any plan shape), and from there to the
  public API: import → [cleanup] → bit stream → RIFF container → container parser → Decode dispatch →
  specification decoder → NRGBA.

  `bv_decide` is used ONLY in the two word-level lemmas `nrgbaByte_pack` (byte extraction from the
  packed ARGB word) and `alpha_zero_iff` (marked `-- bv_decide: word-level`).
-/
namespace Webp.Proofs.C01FullAPI
open Webp.Go
open Webp.Spec.VP8L
open Webp.Impl.VP8LEntropy
open Webp.Impl.LosslessAPI
open Webp.Proofs.VP8LEntropyBits Webp.Proofs.VP8LEntropyStream Webp.Proofs.C01FullMeta
open Webp.Proofs.C01FullStream
open Webp.Proofs.VP8LSpecBridge (toXfs WidthsOK decodeStream_ok specDecoder_undoes_encoder)
open Webp.Proofs.LTransformChain (ChainValid)

/-! ## stage 2: any valid plan -/

/-- the transform parameters the plan's transform data decodes to (what the encoder applied) -/
def planXfs (sp : StreamPlanMeta) : List Webp.Spec.LTransform.Xf := toXfs (planTransformsMeta sp)

/-- **the plan stands for the image `argb`**: its main tokens produce the forward transforms (with the
    parameters written in the stream) of `argb`, and each transform is invertible on what it is
    applied to (`ChainValid`: predictor modes read alike with `& 0xff` / `& 0xf`, palette contains
    the image's colours) -/
structure PlanEncodes (sp : StreamPlanMeta) (argb : Array UInt32) : Prop where
  size : argb.size = sp.width * sp.height
  main : planPixelsMain sp.cacheBits sp.main =
    Webp.Impl.LTransform.applyForward sp.height (planXfs sp) sp.width argb
  chain : ChainValid sp.height (planXfs sp) sp.width argb

theorem widthsOK_plan (sp : StreamPlanMeta) (hv : StreamValidMeta sp) :
    WidthsOK sp.width (planTransformsMeta sp) := by
  obtain ⟨info, br', pad, h1, h2, h3, _⟩ := stream_roundtrip_meta_stream sp hv
  have := (decodeStream_ok _ info _ br' h1).1
  rw [h2, h3] at this
  exact this

theorem lossless_roundtrip (sp : StreamPlanMeta) (hv : StreamValidMeta sp) (argb : Array UInt32)
    (he : PlanEncodes sp argb) :
    decode (streamBytesMeta sp) = .ok
      { width := sp.width, height := sp.height, hasAlpha := sp.hasAlpha, pixels := argb } := by
  rw [stream_roundtrip_meta_decode sp hv, he.main,
    specDecoder_undoes_encoder sp.height (planXfs sp) sp.width argb _ rfl (widthsOK_plan sp hv) he.chain he.size]

/-- the hypothesis of the API theorem: the plan is valid and stands for the `w × h` image `argb` -/
structure ValidPlanFor (w h : Nat) (argb : Array UInt32) (sp : StreamPlanMeta) : Prop where
  width : sp.width = w
  height : sp.height = h
  valid : StreamValidMeta sp
  encodes : PlanEncodes sp argb

/-! ## the first five bytes: what the container parser reads of the bit stream -/

theorem list_ge5 {α : Type} (l : List α) (h : 5 ≤ l.length) : ∃ a b c d e t, l = a :: b :: c :: d :: e :: t := by
  rcases l with _ | ⟨a, _ | ⟨b, _ | ⟨c, _ | ⟨d, _ | ⟨e, t⟩⟩⟩⟩⟩
  all_goals first | exact ⟨_, _, _, _, _, _, rfl⟩ | (simp only [List.length_cons, List.length_nil] at h; omega)

/-- the bit fields of the VP8L header word: 14 + 14 + 1 + 3 bits -/
theorem hdr_arith (x y a : Nat) (hx : x < 16384) (hy : y < 16384) (ha : a < 2) :
    (x + y * 16384 + a * 268435456) % 16384 = x ∧ (x + y * 16384 + a * 268435456) / 16384 % 16384 = y ∧
    (x + y * 16384 + a * 268435456) / 268435456 % 2 = a ∧ (x + y * 16384 + a * 268435456) / 536870912 % 8 = 0 := by
  have e : x + y * 16384 + a * 268435456 = x + 16384 * (y + 16384 * a) := by
    have : a * 268435456 = 16384 * (16384 * a) := by
      rw [← Nat.mul_assoc, Nat.mul_comm]
    rw [this, Nat.mul_add, Nat.mul_comm y 16384, Nat.add_assoc]
  rw [e]
  have d1 : (x + 16384 * (y + 16384 * a)) / 16384 = y + 16384 * a := by
    rw [Nat.add_mul_div_left _ _ (by decide), Nat.div_eq_of_lt hx, Nat.zero_add]
  have m1 : (x + 16384 * (y + 16384 * a)) % 16384 = x := by
    rw [Nat.add_mul_mod_self_left, Nat.mod_eq_of_lt hx]
  have d2 : (x + 16384 * (y + 16384 * a)) / 268435456 = a := by
    rw [show 268435456 = 16384 * 16384 by decide, ← Nat.div_div_eq_div_mul, d1,
      Nat.add_mul_div_left _ _ (by decide), Nat.div_eq_of_lt hy, Nat.zero_add]
  have d3 : (x + 16384 * (y + 16384 * a)) / 536870912 = 0 := by
    rw [show 536870912 = 268435456 * 2 by decide, ← Nat.div_div_eq_div_mul, d2]
    omega
  refine ⟨m1, by rw [d1, Nat.add_mul_mod_self_left, Nat.mod_eq_of_lt hy], by rw [d2]; omega, by rw [d3]⟩

theorem header_bytes (bs : List UInt8) (w h a : Nat) (rest : List Bool) (hw : w < 2 ^ 14) (hh : h < 2 ^ 14)
    (ha : a < 2)
    (hb : bytesToBits bs = bitsLE 0x2f 8 ++ (bitsLE w 14 ++ (bitsLE h 14 ++ (bitsLE a 1 ++ (bitsLE 0 3 ++ rest))))) :
    5 ≤ bs.length ∧ byteAt bs 0 = 0x2f ∧ le32 bs 1 = w + h * 16384 + a * 268435456 := by
  have hlen := congrArg List.length hb
  simp only [bytesToBits_length, List.length_append, bitsLE_length] at hlen
  obtain ⟨b0, b1, b2, b3, b4, t, rfl⟩ := list_ge5 bs (by omega)
  · refine ⟨by simp, ?_⟩
    have hL : bytesToBits (b0 :: b1 :: b2 :: b3 :: b4 :: t) =
        (bitsLE b0.toNat 8 ++ (bitsLE b1.toNat 8 ++ (bitsLE b2.toNat 8 ++ (bitsLE b3.toNat 8 ++ bitsLE b4.toNat 8)))) ++
          bytesToBits t := by
      simp [bytesToBits, List.append_assoc]
    have hR : bitsLE 0x2f 8 ++ (bitsLE w 14 ++ (bitsLE h 14 ++ (bitsLE a 1 ++ (bitsLE 0 3 ++ rest)))) =
        (bitsLE 0x2f 8 ++ (bitsLE w 14 ++ (bitsLE h 14 ++ (bitsLE a 1 ++ bitsLE 0 3)))) ++ rest := by
      simp [List.append_assoc]
    rw [hL, hR] at hb
    have he := List.append_inj_left hb (by simp)
    have hv := congrArg ofBitsLE he
    simp only [ofBitsLE_append, bitsLE_length] at hv
    rw [ofBitsLE_bitsLE_of_lt (show b0.toNat < 2 ^ 8 from b0.toNat_lt),
      ofBitsLE_bitsLE_of_lt (show b1.toNat < 2 ^ 8 from b1.toNat_lt),
      ofBitsLE_bitsLE_of_lt (show b2.toNat < 2 ^ 8 from b2.toNat_lt),
      ofBitsLE_bitsLE_of_lt (show b3.toNat < 2 ^ 8 from b3.toNat_lt),
      ofBitsLE_bitsLE_of_lt (show b4.toNat < 2 ^ 8 from b4.toNat_lt),
      ofBitsLE_bitsLE_of_lt (show 0x2f < 2 ^ 8 by decide), ofBitsLE_bitsLE_of_lt hw, ofBitsLE_bitsLE_of_lt hh,
      ofBitsLE_bitsLE_of_lt (show a < 2 ^ 1 by omega), ofBitsLE_bitsLE_of_lt (show 0 < 2 ^ 3 by decide)] at hv
    have k0 := b0.toNat_lt
    have k1 := b1.toNat_lt
    have k2 := b2.toNat_lt
    have k3 := b3.toNat_lt
    have k4 := b4.toNat_lt
    simp only [Nat.reducePow] at hv hw hh k0 k1 k2 k3 k4
    unfold le32 byteAt
    simp only [List.getD_cons_zero, List.getD_cons_succ]
    omega

theorem parseVP8LHeader_of (bs : List UInt8) (w h : Nat) (a : Bool) (hw : 1 ≤ w ∧ w ≤ 16384)
    (hh : 1 ≤ h ∧ h ≤ 16384) (h5 : 5 ≤ bs.length) (h0 : byteAt bs 0 = 0x2f)
    (hbits : le32 bs 1 = (w - 1) + (h - 1) * 16384 + (if a then 1 else 0) * 268435456) :
    Webp.Impl.Parser.parseVP8LHeader bs = .ok (w, h, a) := by
  unfold Webp.Impl.Parser.parseVP8LHeader
  rw [if_neg (by omega), if_neg (by omega)]
  simp only
  rw [hbits]
  obtain ⟨e1, e2, e3, e4⟩ := hdr_arith (w - 1) (h - 1) (if a then 1 else 0) (by omega) (by omega)
    (by cases a <;> decide)
  rw [e1, e2, e3, e4]
  have ew : w - 1 + 1 = w := by omega
  have eh : h - 1 + 1 = h := by omega
  rw [ew, eh]
  cases a <;> simp

/-- the bytes of the bit stream, as the container writers receive them (`[]byte`) -/
def streamList (sp : StreamPlanMeta) : Bytes := (streamBytesMeta sp).data.toList

theorem streamList_back (sp : StreamPlanMeta) : ByteArray.mk (streamList sp).toArray = streamBytesMeta sp := by
  unfold streamList
  simp

/-- **the VP8L header the container parser reads is the plan's** -/
theorem stream_header (sp : StreamPlanMeta) (hv : StreamValidMeta sp) :
    Webp.Impl.Parser.parseVP8LHeader (streamList sp) = .ok (sp.width, sp.height, sp.hasAlpha) := by
  obtain ⟨pad, _, hb⟩ := restBits_bytes _ (encodeStreamMeta_ok sp hv)
  have hb' : bytesToBits (streamList sp) = callsBits (encodeStreamMeta sp) ++ List.replicate pad false := by
    have : restBits { data := ByteArray.mk (runCalls (encodeStreamMeta sp)).finish } =
        bytesToBits (streamList sp) := by
      unfold restBits streamList streamBytesMeta
      simp
    rw [← this]; exact hb
  unfold encodeStreamMeta at hb'
  simp only [List.append_assoc, List.cons_append, List.nil_append, VP8LEntropyCodeLengths.callsBits_cons] at hb'
  obtain ⟨h5, h0, hbits⟩ := header_bytes (streamList sp) (sp.width - 1) (sp.height - 1) (if sp.hasAlpha then 1 else 0) _
    (by have := hv.width; omega) (by have := hv.height; omega) (by cases sp.hasAlpha <;> decide) hb'
  exact parseVP8LHeader_of _ _ _ _ hv.width hv.height h5 h0 hbits

/-! ## stage 3: the API -/

open Webp.Impl.Writer Webp.Impl.Parser in
/-- what `Decode` hands to the lossless codec when the container parser found a single lossless frame -/
theorem decodeAPI_of_parse (out bs : Bytes) (s : State) (f : FrameInfo) (hp : parse out = .ok s)
    (hf : s.frames = [f]) (hpl : f.payload = some bs) (hl : f.isLossless = true) :
    decodeAPI out = decodeVP8L bs := by
  unfold decodeAPI Webp.Impl.Config.decodeTarget
  rw [hp]
  simp only [Res.bind_ok, hf, hl, hpl]
  rfl

theorem decodeVP8L_stream (sp : StreamPlanMeta) (w h : Nat) (argb : Array UInt32)
    (hv : ValidPlanFor w h argb sp) :
    decodeVP8L (streamList sp) = .ok (argbToNRGBA argb w h) := by
  unfold decodeVP8L
  rw [streamList_back, lossless_roundtrip sp hv.valid argb hv.encodes, hv.width, hv.height]

open Webp.Props.C02 in
/-- no metadata: the streaming path (`streaming_eq_buffered`: = `writeRIFFSimple`), parsed by
    `container.NewParser` (`writeSimple_parse`), dispatched to the lossless decoder -/
theorem api_roundtrip_simple (sp : StreamPlanMeta) (w h : Nat) (argb : Array UInt32)
    (hv : ValidPlanFor w h argb sp) (m : Webp.Impl.Writer.Meta) (hm : m.any = false)
    (hsz : SimpleSizeOK (streamList sp)) :
    ∃ file, encodeAPIWith sp w h m = .ok file ∧ decodeAPI file = .ok (argbToNRGBA argb w h) := by
  have hh : Webp.Impl.Writer.HeaderOK Webp.Impl.Parser.ccVP8L (streamList sp) sp.width sp.height sp.hasAlpha :=
    Or.inr ⟨rfl, stream_header sp hv.valid⟩
  obtain ⟨out, s, f, hw, _, _, hp, hf, hpl, _, _, _, hl, _⟩ :=
    writeSimple_parse Webp.Impl.Parser.ccVP8L (streamList sp) sp.width sp.height sp.hasAlpha hsz hh
  have hM := Webp.Impl.Writer.maxChunkPayload_val
  unfold SimpleSizeOK at hsz
  obtain ⟨hs, _⟩ := streaming_eq_buffered (streamList sp) (by omega)
  rw [hs] at hw
  injection hw with hw
  refine ⟨Webp.Impl.Writer.streamingWrite (streamList sp), ?_, ?_⟩
  · unfold encodeAPIWith Webp.Impl.Writer.encodeContainer
    simp [hm, streamList]
  · rw [hw, decodeAPI_of_parse out _ s f hp hf hpl (by simpa using hl)]
    exact decodeVP8L_stream sp w h argb hv

open Webp.Props.C02 in
/-- with metadata: the buffered path `writeRIFF` → `writeRIFFExtended` (`writeExtended_parse`) -/
theorem api_roundtrip_meta (sp : StreamPlanMeta) (w h : Nat) (argb : Array UInt32)
    (hv : ValidPlanFor w h argb sp) (m : Webp.Impl.Writer.Meta) (hm : m.any = true)
    (hw1 : 1 ≤ w) (hw2 : w ≤ 16383) (hh1 : 1 ≤ h) (hh2 : h ≤ 16383)
    (hsz : SizesOK (streamList sp) [] m.icc m.exif m.xmp) :
    ∃ file, encodeAPIWith sp w h m = .ok file ∧ decodeAPI file = .ok (argbToNRGBA argb w h) := by
  have hh : Webp.Impl.Writer.HeaderOK Webp.Impl.Parser.ccVP8L (streamList sp) sp.width sp.height sp.hasAlpha :=
    Or.inr ⟨rfl, stream_header sp hv.valid⟩
  obtain ⟨out, s, f, hw, _, _, hp, hf, hpl, _, _, _, hl, _⟩ :=
    writeExtended_parse Webp.Impl.Parser.ccVP8L (streamList sp) [] m.icc m.exif m.xmp w h sp.width sp.height
      sp.hasAlpha hh (fun _ => rfl) hw1 hw2 hh1 hh2 hsz
  refine ⟨out, ?_, ?_⟩
  · unfold encodeAPIWith Webp.Impl.Writer.encodeContainer Webp.Impl.Writer.writeRIFF
    simp only [hm, Bool.not_true, Bool.false_eq_true, if_false, if_true, Webp.Impl.Writer.hasMetadata,
      Webp.Impl.Writer.metaOf, or_true]
    exact hw
  · rw [decodeAPI_of_parse out _ s f hp hf hpl (by simpa using hl)]
    exact decodeVP8L_stream sp w h argb hv

/-! ## pixels of the result -/

-- bv_decide: word-level (byte extraction from `a<<24 | r<<16 | g<<8 | b`)
theorem nrgbaByte_pack (r g b a : UInt8) :
    ((a.toUInt32 <<< 24 ||| r.toUInt32 <<< 16 ||| g.toUInt32 <<< 8 ||| b.toUInt32) >>> 16).toUInt8 = r ∧
    ((a.toUInt32 <<< 24 ||| r.toUInt32 <<< 16 ||| g.toUInt32 <<< 8 ||| b.toUInt32) >>> 8).toUInt8 = g ∧
    (a.toUInt32 <<< 24 ||| r.toUInt32 <<< 16 ||| g.toUInt32 <<< 8 ||| b.toUInt32).toUInt8 = b ∧
    ((a.toUInt32 <<< 24 ||| r.toUInt32 <<< 16 ||| g.toUInt32 <<< 8 ||| b.toUInt32) >>> 24).toUInt8 = a := by
  refine ⟨?_, ?_, ?_, ?_⟩ <;> bv_decide

-- bv_decide: word-level (`v >> 24 == 0` tests the alpha byte)
theorem alpha_zero_iff (r g b a : UInt8) :
    ((a.toUInt32 <<< 24 ||| r.toUInt32 <<< 16 ||| g.toUInt32 <<< 8 ||| b.toUInt32) >>> 24 = 0) ↔ a = 0 := by
  constructor <;> intro h <;> bv_decide

/-- what a pixel of the source becomes: unchanged, or transparent black when `!exact` and alpha 0 -/
def normPx (exact : Bool) (c : Webp.Impl.Import.RGBA8) : Webp.Impl.Import.RGBA8 :=
  if !exact ∧ c.a = 0 then Webp.Impl.Import.RGBA8.zero else c

theorem cleanup_word (r g b a : UInt8) :
    (if (a.toUInt32 <<< 24 ||| r.toUInt32 <<< 16 ||| g.toUInt32 <<< 8 ||| b.toUInt32) >>> 24 = 0 then (0 : UInt32)
      else a.toUInt32 <<< 24 ||| r.toUInt32 <<< 16 ||| g.toUInt32 <<< 8 ||| b.toUInt32) =
    Webp.Impl.Import.packARGB (if a = 0 then Webp.Impl.Import.RGBA8.zero else ⟨r, g, b, a⟩) := by
  by_cases ha : a = 0
  · rw [if_pos ((alpha_zero_iff r g b a).2 ha), if_pos ha]
    rfl
  · rw [if_neg (fun hh => ha ((alpha_zero_iff r g b a).1 hh)), if_neg ha]
    rfl

theorem norm_import (exact : Bool) (f : Nat → Nat → Webp.Impl.Import.RGBA8) (w h : Nat) :
    norm exact (importARGB f w h) = importARGB (fun x y => normPx exact (f x y)) w h := by
  unfold norm importARGB Webp.Impl.Import.argbOf normPx
  cases exact
  · simp only [Bool.false_eq_true, if_false, cleanupTransparentAreaLossless, Bool.not_false, true_and]
    apply Array.ext
    · simp
    · intro i h1 h2
      simp only [Array.getElem_map, Array.getElem_ofFn]
      generalize f (i % w) (i / w) = c
      obtain ⟨r, g, b, a⟩ := c
      exact cleanup_word r g b a
  · simp

/-- pixel `(x, y)` of the decoded NRGBA image of an imported buffer is the source pixel -/
theorem nrgba_at_import (f : Nat → Nat → Webp.Impl.Import.RGBA8) (w h x y : Nat) (hx : x < w) (hy : y < h) :
    (argbToNRGBA (importARGB f w h) w h).at x y = f x y := by
  have hpos : y * w + x < w * h := by
    have : (y + 1) * w ≤ h * w := Nat.mul_le_mul_right w (by omega)
    rw [Nat.add_mul, Nat.one_mul, Nat.mul_comm h w] at this
    omega
  have hmod : (y * w + x) % w = x := by
    rw [Nat.mul_comm, Nat.mul_add_mod, Nat.mod_eq_of_lt hx]
  have hdiv : (y * w + x) / w = y := by
    rw [Nat.mul_comm, Nat.mul_add_div (by omega), Nat.div_eq_of_lt hx, Nat.add_zero]
  have hget : ∀ k, k < 4 → (argbToNRGBA (importARGB f w h) w h).pix.getD (y * (4 * w) + x * 4 + k) 0 =
      nrgbaByte (Webp.Impl.Import.packARGB (f x y)) k := by
    intro k hk
    have hlt : y * (4 * w) + x * 4 + k < 4 * (w * h) := by
      have : y * (4 * w) + x * 4 = 4 * (y * w + x) := by
        rw [Nat.mul_add, Nat.mul_comm x 4, ← Nat.mul_assoc, ← Nat.mul_assoc, Nat.mul_comm y 4]
      omega
    have hi4 : (y * (4 * w) + x * 4 + k) / 4 = y * w + x := by
      have : y * (4 * w) + x * 4 = 4 * (y * w + x) := by
        rw [Nat.mul_add, Nat.mul_comm x 4, ← Nat.mul_assoc, ← Nat.mul_assoc, Nat.mul_comm y 4]
      omega
    have hm4 : (y * (4 * w) + x * 4 + k) % 4 = k := by
      have : y * (4 * w) + x * 4 = 4 * (y * w + x) := by
        rw [Nat.mul_add, Nat.mul_comm x 4, ← Nat.mul_assoc, ← Nat.mul_assoc, Nat.mul_comm y 4]
      omega
    unfold argbToNRGBA
    simp only [Array.getD_eq_getD_getElem?]
    rw [Array.getElem?_eq_getElem (by simpa using hlt)]
    simp only [Array.getElem_ofFn, Option.getD_some, hi4, hm4]
    unfold importARGB Webp.Impl.Import.argbOf
    rw [Array.getElem?_eq_getElem (by simpa using hpos)]
    simp only [Array.getElem_ofFn, Option.getD_some, hmod, hdiv]
  unfold NRGBA.at
  simp only
  have e : (argbToNRGBA (importARGB f w h) w h).w = w := rfl
  rw [e]
  have g0 := hget 0 (by omega)
  rw [Nat.add_zero] at g0
  rw [g0, hget 1 (by omega), hget 2 (by omega), hget 3 (by omega)]
  obtain ⟨r, g, b, a⟩ := f x y
  obtain ⟨p1, p2, p3, p4⟩ := nrgbaByte_pack r g b a
  simp [nrgbaByte, Webp.Impl.Import.packARGB, p1, p2, p3, p4]

end Webp.Proofs.C01FullAPI
