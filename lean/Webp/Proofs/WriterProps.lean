import Webp.Proofs.WriterParser
import Webp.Proofs.WriterDemuxExt
import Webp.Proofs.WriterSpecExt
/-
  Field-level consequences of the closed forms in `WriterParser` / `WriterDemuxExt`, in the shape
  the C02 / C15 property theorems state them.
-/
namespace Webp.Impl.Writer
open Webp.Go
open Webp.Impl.Parser (ccRIFF ccWEBP ccVP8 ccVP8L ccVP8X ccALPH ccICCP ccEXIF ccXMP
  maxChunkPayload maxMetadataSize State Features FrameInfo Chunk)
set_option maxHeartbeats 400000

/-- the bitstream header of the image payload parses (as `container.NewParser` reads it):
    `w' h'` are the dimensions in the bitstream, `a'` the VP8L `alpha_is_used` bit -/
def HeaderOK (fourcc : Nat) (bs : Bytes) (w' h' : Nat) (a' : Bool) : Prop :=
  (fourcc = ccVP8 ∧ Parser.parseVP8Header bs = .ok (w', h') ∧ a' = false) ∨
  (fourcc = ccVP8L ∧ Parser.parseVP8LHeader bs = .ok (w', h', a'))

theorem HeaderOK.fourcc {fourcc : Nat} {bs : Bytes} {w' h' : Nat} {a' : Bool}
    (h : HeaderOK fourcc bs w' h' a') : fourcc = ccVP8 ∨ fourcc = ccVP8L := by
  rcases h with ⟨h, _⟩ | ⟨h, _⟩
  · exact .inl h
  · exact .inr h

/-- the VP8L alpha bit the writer reads is the one the parser reads -/
theorem HeaderOK.alphaBit {fourcc : Nat} {bs : Bytes} {w' h' : Nat} {a' : Bool}
    (h : HeaderOK fourcc bs w' h' a') : vp8lAlphaBit fourcc bs = a' := by
  unfold vp8lAlphaBit
  rcases h with ⟨hf, _, ha⟩ | ⟨hf, hh⟩
  · rw [hf, ha]
    have hne : ¬ ccVP8 = ccVP8L := fun h => cc_ne.2.2.1 h.symm
    simp [hne]
  · obtain ⟨_, _, ha, _, _, _, _, hl, hb⟩ := Parser.parseVP8LHeader_ok hh
    rw [hf, ha]
    simp [hl, hb]

/-- what `parseExtSingleImage` makes of the image chunk -/
theorem extFinish_ok {fourcc : Nat} {bs : Bytes} {w' h' : Nat} {a' : Bool}
    (hh : HeaderOK fourcc bs w' h' a') (st : State) (fr : FrameInfo) (al : Option Bytes)
    (hal : fourcc = ccVP8L → al = none) :
    ∃ s f, Parser.extFinish st fr al fourcc bs = .ok s ∧ s.frames = st.frames ++ [f] ∧
      f.payload = some bs ∧ f.alphaData = (if fourcc = ccVP8 then al else fr.alphaData) ∧
      f.width = w' ∧ f.height = h' ∧ f.isLossless = decide (fourcc = ccVP8L) ∧
      f.hasAlpha = (fr.hasAlpha || a') ∧
      s.chunks = st.chunks ∧
      s.features = { st.features with hasAlpha := st.features.hasAlpha || a',
                                      width := w', height := h' } := by
  have hne : ccVP8 ≠ ccVP8L := fun h => cc_ne.2.2.1 h.symm
  unfold Parser.extFinish
  rcases hh with ⟨hf, hp, ha⟩ | ⟨hf, hp⟩
  · rw [hf, if_neg hne, if_pos rfl, hp, ha]
    refine ⟨_, _, rfl, rfl, rfl, ?_, rfl, rfl, ?_, ?_, rfl, ?_⟩
    · rw [if_pos rfl]
    · simp [hne]
    · simp
    · simp
  · have := hal hf
    subst this
    rw [hf, if_pos rfl, if_neg (by simp), hp]
    refine ⟨_, _, rfl, rfl, rfl, ?_, rfl, rfl, ?_, rfl, rfl, rfl⟩
    · rw [if_neg (fun h => hne h.symm)]
    · simp

/-! ### facts about the intermediate parser states -/

theorem stI_frames (st : State) (icc : Bytes) : (stI st icc).frames = st.frames := by
  unfold stI; split_ifs <;> rfl
theorem stI_chunks (st : State) (icc : Bytes) :
    (stI st icc).chunks = st.chunks ++ (if icc.length > 0 then [⟨ccICCP, icc⟩] else []) := by
  unfold stI; split_ifs <;> simp
theorem stA_frames (st : State) (alpha : Bytes) : (stA st alpha).frames = st.frames := by
  unfold stA; split_ifs <;> rfl
theorem stA_chunks (st : State) (alpha : Bytes) : (stA st alpha).chunks = st.chunks := by
  unfold stA; split_ifs <;> rfl
theorem stA_features (st : State) (alpha : Bytes) :
    (stA st alpha).features =
      { st.features with hasAlpha := st.features.hasAlpha || decide (alpha.length > 0) } := by
  unfold stA
  by_cases h : alpha.length > 0
  · rw [if_pos h]; simp [h]
  · rw [if_neg h]; simp [h]
theorem frA_hasAlpha (alpha : Bytes) : (frA alpha).hasAlpha = decide (alpha.length > 0) := by
  unfold frA
  by_cases h : alpha.length > 0
  · rw [if_pos h]; simp [h]
  · rw [if_neg h]; simp [h]
theorem frA_alphaData (alpha : Bytes) : (frA alpha).alphaData = none := by
  unfold frA; split_ifs <;> rfl

theorem length_pos_iff_ne_nil (d : Bytes) : d.length > 0 ↔ d ≠ [] := List.length_pos_iff

/-- the size field of a written file -/
theorem riffFile_size_field (body : Bytes) (h : 4 + body.length < 4294967296) :
    le32 (riffFile body) 4 = 4 + body.length := by
  unfold riffFile
  rw [List.append_assoc, List.append_assoc]
  have := le32_append_right (putLE32 ccRIFF) (putLE32 (4 + body.length) ++ (putLE32 ccWEBP ++ body)) 0
  rw [le32_putLE32 _ _ h] at this
  exact this

theorem extBody_even (fourcc : Nat) (bs alpha : Bytes) (w h : Int) (icc exif xmp : Bytes) :
    (extBody fourcc bs alpha w h icc exif xmp).length % 2 = 0 := by
  rw [extBody_length]
  have e1 := optLen_even icc
  have e2 := optLen_even alpha
  have e3 := optLen_even exif
  have e4 := optLen_even xmp
  omega

/-- `container.NewParser` on an extended file, field by field -/
theorem parse_extFile_fields (fourcc : Nat) (bs alpha icc exif xmp : Bytes) (w h w' h' : Nat)
    (a' : Bool) (hh : HeaderOK fourcc bs w' h' a') (hnoalph : fourcc = ccVP8L → alpha = [])
    (hw1 : 1 ≤ w) (hw2 : w ≤ 16383) (hh1 : 1 ≤ h) (hh2 : h ≤ 16383)
    (hN : 4 + (extBody fourcc bs alpha w h icc exif xmp).length ≤ 4294967287)
    (hicc : icc.length ≤ maxMetadataSize) :
    ∃ s f, Parser.parse (extFile fourcc bs alpha w h icc exif xmp) = .ok s ∧
      s.frames = [f] ∧ f.payload = some bs ∧
      f.alphaData = (if alpha ≠ [] then some alpha else none) ∧
      f.width = w' ∧ f.height = h' ∧ f.isLossless = decide (fourcc = ccVP8L) ∧
      (f.hasAlpha = true ↔ alpha ≠ [] ∨ a' = true) ∧
      s.chunks = (if icc ≠ [] then [⟨ccICCP, icc⟩] else []) ∧
      (s.features.hasICCP = true ↔ icc ≠ []) ∧ (s.features.hasEXIF = true ↔ exif ≠ []) ∧
      (s.features.hasXMP = true ↔ xmp ≠ []) ∧
      (s.features.hasAlpha = true ↔ alpha ≠ [] ∨ a' = true) ∧
      s.features.hasAnim = false ∧ s.features.format = .vp8x ∧
      s.features.canvasWidth = w ∧ s.features.canvasHeight = h ∧
      s.features.width = w' ∧ s.features.height = h' := by
  have hne : ccVP8 ≠ ccVP8L := fun h => cc_ne.2.2.1 h.symm
  obtain ⟨fb32, fb16, fb8, fb4, fb2, fb1, fb64⟩ := flags_bits fourcc bs alpha icc exif xmp
  have hab := hh.alphaBit
  rw [parse_extFile fourcc bs alpha icc exif xmp w h hh.fourcc hw1 hw2 hh1 hh2 hN hicc]
  obtain ⟨s, f, hs, hfr, hpl, hal, hfw, hfh, hfl, hfa, hch, hfe⟩ :=
    extFinish_ok hh (stA (stI (st0 (vp8xFlags fourcc bs alpha icc exif xmp) w h) icc) alpha)
      (frA alpha) (alA alpha)
      (by
        intro hf
        have := hnoalph hf
        subst this
        rfl)
  refine ⟨s, f, hs, ?_, hpl, ?_, hfw, hfh, hfl, ?_, ?_, ?_, ?_, ?_, ?_, ?_, ?_, ?_, ?_, ?_, ?_⟩
  · rw [hfr, stA_frames, stI_frames]; rfl
  · rw [hal]
    by_cases hf : fourcc = ccVP8
    · rw [if_pos hf]; unfold alA
      by_cases ha : alpha.length > 0
      · rw [if_pos ha, if_pos ((length_pos_iff_ne_nil _).1 ha)]
      · rw [if_neg ha, if_neg (fun h => ha ((length_pos_iff_ne_nil _).2 h))]
    · rw [if_neg hf, frA_alphaData]
      have hL : fourcc = ccVP8L := by rcases hh.fourcc with h | h; exact absurd h hf; exact h
      rw [hnoalph hL, if_neg (fun h => h rfl)]
  · rw [hfa, frA_hasAlpha, ← length_pos_iff_ne_nil]
    simp
  · rw [hch, stA_chunks, stI_chunks]
    show [] ++ _ = _
    by_cases hi : icc.length > 0
    · rw [if_pos hi, if_pos ((length_pos_iff_ne_nil _).1 hi)]; rfl
    · rw [if_neg hi, if_neg (fun h => hi ((length_pos_iff_ne_nil _).2 h))]; rfl
  · rw [hfe, ← length_pos_iff_ne_nil]
    show (stA _ alpha).features.hasICCP = true ↔ _
    rw [stA_features, stI_features]
    show decide (vp8xFlags fourcc bs alpha icc exif xmp / 32 % 2 ≠ 0) = true ↔ _
    rw [fb32]; split_ifs <;> simp [*]
  · rw [hfe, ← length_pos_iff_ne_nil]
    show (stA _ alpha).features.hasEXIF = true ↔ _
    rw [stA_features, stI_features]
    show decide (vp8xFlags fourcc bs alpha icc exif xmp / 8 % 2 ≠ 0) = true ↔ _
    rw [fb8]; split_ifs <;> simp [*]
  · rw [hfe, ← length_pos_iff_ne_nil]
    show (stA _ alpha).features.hasXMP = true ↔ _
    rw [stA_features, stI_features]
    show decide (vp8xFlags fourcc bs alpha icc exif xmp / 4 % 2 ≠ 0) = true ↔ _
    rw [fb4]; split_ifs <;> simp [*]
  · rw [hfe, ← length_pos_iff_ne_nil]
    show ((stA _ alpha).features.hasAlpha || a') = true ↔ _
    rw [stA_features, stI_features]
    show ((decide (vp8xFlags fourcc bs alpha icc exif xmp / 16 % 2 ≠ 0) || decide (alpha.length > 0)) || a')
      = true ↔ _
    rw [fb16]; unfold alphaFlag; rw [hab]
    by_cases ha : alpha.length > 0 <;> cases a' <;> simp [ha]
  · rw [hfe]
    show (stA _ alpha).features.hasAnim = false
    rw [stA_features, stI_features]
    show decide (vp8xFlags fourcc bs alpha icc exif xmp / 2 % 2 ≠ 0) = false
    rw [fb2]; rfl
  · rw [hfe]
    show (stA _ alpha).features.format = _
    rw [stA_features, stI_features]; rfl
  · rw [hfe]
    show (stA _ alpha).features.canvasWidth = _
    rw [stA_features, stI_features]; rfl
  · rw [hfe]
    show (stA _ alpha).features.canvasHeight = _
    rw [stA_features, stI_features]; rfl
  · rw [hfe]
  · rw [hfe]

/-! ### the demuxer state, field by field -/

theorem demuxFinal_fields (fourcc : Nat) (bs alpha icc exif xmp : Bytes) (w h : Nat) :
    ∃ f, (demuxFinal fourcc bs alpha icc exif xmp w h).frames = [f] ∧ f.data = some bs ∧
      f.alphaData = optB alpha ∧
      (demuxFinal fourcc bs alpha icc exif xmp w h).iccData = optB icc ∧
      (demuxFinal fourcc bs alpha icc exif xmp w h).exifData = optB exif ∧
      (demuxFinal fourcc bs alpha icc exif xmp w h).xmpData = optB xmp ∧
      (demuxFinal fourcc bs alpha icc exif xmp w h).features =
        featD (vp8xFlags fourcc bs alpha icc exif xmp) w h ∧
      (demuxFinal fourcc bs alpha icc exif xmp w h).chunks.map (fun c => (c.id, c.data)) =
        extChunks fourcc bs alpha w h icc exif xmp ∧
      (∀ c ∈ (demuxFinal fourcc bs alpha icc exif xmp w h).chunks, c.size = c.data.length) := by
  unfold demuxFinal dX dE dImg dA dI demuxInit dFrame dAdd extChunks optC optB
  by_cases h1 : icc.length > 0 <;> by_cases h2 : alpha.length > 0 <;>
  by_cases h3 : exif.length > 0 <;> by_cases h4 : xmp.length > 0 <;>
  simp [h1, h2, h3, h4, Demux.singleFrameOf, vp8xPayload_length]

theorem optB_eq (d : Bytes) : optB d = if d ≠ [] then some d else none := by
  unfold optB
  by_cases h : d.length > 0
  · rw [if_pos h, if_pos ((length_pos_iff_ne_nil _).1 h)]
  · rw [if_neg h, if_neg (fun h' => h ((length_pos_iff_ne_nil _).2 h'))]

/-- the feature flags the demuxer reports are exactly the non-empty blobs (+ alpha rule) -/
theorem featD_flags (fourcc : Nat) (bs alpha icc exif xmp : Bytes) (w h : Nat) :
    ((featD (vp8xFlags fourcc bs alpha icc exif xmp) w h).hasICC = true ↔ icc ≠ []) ∧
    ((featD (vp8xFlags fourcc bs alpha icc exif xmp) w h).hasEXIF = true ↔ exif ≠ []) ∧
    ((featD (vp8xFlags fourcc bs alpha icc exif xmp) w h).hasXMP = true ↔ xmp ≠ []) ∧
    ((featD (vp8xFlags fourcc bs alpha icc exif xmp) w h).hasAlpha = true ↔
      alpha ≠ [] ∨ vp8lAlphaBit fourcc bs = true) ∧
    (featD (vp8xFlags fourcc bs alpha icc exif xmp) w h).hasAnimation = false ∧
    (featD (vp8xFlags fourcc bs alpha icc exif xmp) w h).width = w ∧
    (featD (vp8xFlags fourcc bs alpha icc exif xmp) w h).height = h := by
  obtain ⟨fb32, fb16, fb8, fb4, fb2, fb1, fb64⟩ := flags_bits fourcc bs alpha icc exif xmp
  refine ⟨?_, ?_, ?_, ?_, ?_, rfl, rfl⟩
  · show decide (_ / 32 % 2 ≠ 0) = true ↔ _
    rw [fb32, ← length_pos_iff_ne_nil]; split_ifs <;> simp [*]
  · show decide (_ / 8 % 2 ≠ 0) = true ↔ _
    rw [fb8, ← length_pos_iff_ne_nil]; split_ifs <;> simp [*]
  · show decide (_ / 4 % 2 ≠ 0) = true ↔ _
    rw [fb4, ← length_pos_iff_ne_nil]; split_ifs <;> simp [*]
  · show decide (_ / 16 % 2 ≠ 0) = true ↔ _
    rw [fb16, ← length_pos_iff_ne_nil]; unfold alphaFlag
    by_cases ha : alpha.length > 0 <;> by_cases hb : vp8lAlphaBit fourcc bs = true <;> simp [ha, hb]
  · show decide (_ / 2 % 2 ≠ 0) = false
    rw [fb2]; rfl

/-- the four bytes at file offset 20 are the little-endian VP8X flags word -/
theorem extFile_flag_bytes (fourcc : Nat) (bs alpha : Bytes) (w h : Int) (icc exif xmp : Bytes)
    (hF : vp8xFlags fourcc bs alpha icc exif xmp < 256) :
    byteAt (extFile fourcc bs alpha w h icc exif xmp) 20 = vp8xFlags fourcc bs alpha icc exif xmp ∧
    byteAt (extFile fourcc bs alpha w h icc exif xmp) 21 = 0 ∧
    byteAt (extFile fourcc bs alpha w h icc exif xmp) 22 = 0 ∧
    byteAt (extFile fourcc bs alpha w h icc exif xmp) 23 = 0 := by
  unfold extFile riffFile
  rw [extBody_eq, chunk_split]
  generalize vp8xFlags fourcc bs alpha icc exif xmp = F at *
  generalize hA : putLE32 ccRIFF ++ putLE32 (4 + (hdr8 ccVP8X (vp8xPayload F w h).length ++
    (vp8xPayload F w h ++ (pad (vp8xPayload F w h) ++ (optChunkBytes ccICCP icc ++
      (optChunkBytes ccALPH alpha ++ (chunkBytes fourcc bs ++ (optChunkBytes ccEXIF exif ++
        optChunkBytes ccXMP xmp))))))).length) ++ putLE32 ccWEBP = A
  have hAl : A.length = 12 := by rw [← hA]; rfl
  generalize pad (vp8xPayload F w h) ++ (optChunkBytes ccICCP icc ++
      (optChunkBytes ccALPH alpha ++ (chunkBytes fourcc bs ++ (optChunkBytes ccEXIF exif ++
        optChunkBytes ccXMP xmp)))) = R
  have key : ∀ k, byteAt (A ++ (hdr8 ccVP8X (vp8xPayload F w h).length ++ (vp8xPayload F w h ++ R)))
      (20 + k) = byteAt (vp8xPayload F w h ++ R) k := by
    intro k
    have h1 := byteAt_append_right A (hdr8 ccVP8X (vp8xPayload F w h).length ++
      (vp8xPayload F w h ++ R)) (8 + k)
    have h2 := byteAt_append_right (hdr8 ccVP8X (vp8xPayload F w h).length)
      (vp8xPayload F w h ++ R) k
    rw [hdr8_length] at h2
    rw [hAl, h2] at h1
    have e : 20 + k = 12 + (8 + k) := by omega
    rw [e, h1]
  have b0 : byteAt (vp8xPayload F w h ++ R) 0 = (UInt8.ofNat (F % 256)).toNat := rfl
  have b1 : byteAt (vp8xPayload F w h ++ R) 1 = (UInt8.ofNat (F / 256 % 256)).toNat := rfl
  have b2 : byteAt (vp8xPayload F w h ++ R) 2 = (UInt8.ofNat (F / 65536 % 256)).toNat := rfl
  have b3 : byteAt (vp8xPayload F w h ++ R) 3 = (UInt8.ofNat (F / 16777216 % 256)).toNat := rfl
  refine ⟨?_, ?_, ?_, ?_⟩
  · rw [key 0, b0, toNat_ofNat_mod]; omega
  · rw [key 1, b1, toNat_ofNat_mod]; omega
  · rw [key 2, b2, toNat_ofNat_mod]; omega
  · rw [key 3, b3, toNat_ofNat_mod]; omega

end Webp.Impl.Writer
