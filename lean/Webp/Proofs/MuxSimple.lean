import Webp.Proofs.MuxExpect
import Webp.Proofs.MuxValidate
/-
  C14, simple format: one frame, default options, no metadata, no ALPH prefix.
  The file is `RIFF` + one `VP8 `/`VP8L` chunk; all three readers return the expected structure.
-/
namespace Webp.Proofs.MuxSimple
open Webp.Go Webp.Impl Webp.Impl.Mux Webp.Proofs.MuxBytes Webp.Proofs.MuxChunk Webp.Proofs.MuxAccepted
  Webp.Proofs.MuxCore Webp.Proofs.MuxRiffWrap Webp.Proofs.MuxExpect
open Webp.Spec.Riff (RawChunk)
open Webp.Impl.Demux (splitAlphaAndBitstream frameDimensions)
open Webp.Impl.Parser (ccRIFF ccWEBP ccVP8 ccVP8L ccVP8X ccALPH ccANIM ccANMF ccICCP ccEXIF ccXMP
  chunkHeaderSize maxChunkPayload)

theorem split_eq (d : Bytes) :
    splitAlphaAndBitstream d =
      if (d.length ≥ 8 ∧ le32 d 0 = ccALPH) ∧ 8 + le32 d 4 ≤ d.length then
        (some ((d.take (8 + le32 d 4)).drop 8),
         d.drop (if le32 d 4 % 2 ≠ 0 ∧ 8 + le32 d 4 < d.length then 8 + le32 d 4 + 1 else 8 + le32 d 4))
      else (none, d) := by
  unfold splitAlphaAndBitstream
  simp only [chunkHeaderSize]
  by_cases h1 : d.length ≥ 8 ∧ le32 d 0 = ccALPH
  · by_cases h2 : 8 + le32 d 4 ≤ d.length
    · simp only [h1, h2, and_self, if_true]
      rfl
    · simp only [h1, h2, and_self, and_false, if_true, if_false]
  · simp only [h1, false_and, if_false]

theorem split_none {d : Bytes} (h : (splitAlphaAndBitstream d).1 = none) :
    (splitAlphaAndBitstream d).2 = d := by
  rw [split_eq] at h ⊢
  split
  · rename_i h1
    rw [if_pos h1] at h
    simp at h
  · rfl

/-- what `¬ needsVP8X` and a passing `validate` say about the state -/
structure SimpleState (s : MuxState) (f : MuxFrame) : Prop where
  frames : s.frames = [f]
  opts : f.opts = {}
  noAlph : (splitAlphaAndBitstream f.data).1 = none
  icc : s.iccData = none
  exif : s.exifData = none
  xmp : s.xmpData = none
  notAnim : isAnimated s = false
  noCanvas : hasDistinctCanvas s = false

theorem simpleState {s : MuxState} (hv : validate s = .ok ()) (hx : needsVP8X s = false) :
    ∃ f, SimpleState s f := by
  unfold needsVP8X at hx
  simp only [Bool.or_eq_false_iff] at hx
  obtain ⟨⟨⟨⟨⟨hna, hi⟩, he⟩, hxm⟩, hal⟩, hdc⟩ := hx
  have hne := validate_frames_ne hv
  have hlen := not_animated_length hna
  match hfs : s.frames, hne, hlen with
  | [f], _, _ =>
    refine ⟨f, hfs, ?_, ?_, ?_, ?_, ?_, hna, hdc⟩
    · unfold isAnimated at hna
      simp only [hfs, Bool.or_eq_false_iff, List.any_cons, List.any_nil, Bool.or_false,
        decide_eq_false_iff_not, ne_eq] at hna
      exact Decidable.of_not_not hna.2
    · unfold hasAlphaChunk at hal
      simp only [hfs, List.any_cons, List.any_nil, Bool.or_false] at hal
      cases h : (splitAlphaAndBitstream f.data).1 with
      | none => rfl
      | some a => rw [h] at hal; simp at hal
    · cases h : s.iccData with
      | none => rfl
      | some a => rw [h] at hi; simp at hi
    · cases h : s.exifData with
      | none => rfl
      | some a => rw [h] at he; simp at he
    · cases h : s.xmpData with
      | none => rfl
      | some a => rw [h] at hxm; simp at hxm

structure AcceptedFacts (s : MuxState) : Prop where
  valid : validate s = .ok ()
  framesOK : ∀ f ∈ s.frames, frameOK f.data = true
  size : exactRiffSize s ≤ 4294967286
  icc : (s.iccData.getD []).length ≤ Parser.maxMetadataSize
  exif : (s.exifData.getD []).length ≤ Parser.maxMetadataSize
  xmp : (s.xmpData.getD []).length ≤ Parser.maxMetadataSize
  canvas : if needsVP8X s then (canvasSize s).1 * (canvasSize s).2 < 1073741824
           else ∀ f ∈ s.frames, canvasSize s = frameDims f.data

/-- `bitstreamOK` plus the ALPH-before-VP8L check of `validate` give the frame shape the proofs use -/
theorem frameOK_of {data : Bytes} (hb : bitstreamOK data = true)
    (hn : (splitAlphaAndBitstream data).1.isSome →
      detectBitstreamType (splitAlphaAndBitstream data).2 ≠ ccVP8L) : frameOK data = true := by
  unfold frameOK
  unfold bitstreamOK at hb
  by_cases ha : (splitAlphaAndBitstream data).1.isSome
  · rw [if_pos ha]
    simp only [Bool.or_eq_true] at hb
    rcases hb with h | h
    · exact h
    · exact absurd (vp8lOK_facts h).detect (hn ha)
  · rw [if_neg ha]; exact hb

/-- a single default-options frame with no explicit canvas other than its own size: the canvas is the frame -/
theorem canvasSize_single {s : MuxState} {f : MuxFrame} (hfs : s.frames = [f]) (hopts : f.opts = {})
    (hdc : hasDistinctCanvas s = false) (hw : 0 < (frameDimensions f.data).1) (hh : 0 < (frameDimensions f.data).2) :
    canvasSize s = frameDims f.data := by
  have hle := Webp.Proofs.MuxValidate.frameDimensions_le f.data
  have e1 : (frameDims f.data).1 = ((frameDimensions f.data).1 : Int) := rfl
  have e2 : (frameDims f.data).2 = ((frameDimensions f.data).2 : Int) := rfl
  unfold hasDistinctCanvas at hdc
  rw [hfs] at hdc
  simp only at hdc
  unfold canvasSize
  by_cases hc : s.canvasWidth > 0 ∧ s.canvasHeight > 0
  · rw [if_pos hc]
    rw [if_neg (by omega)] at hdc
    simp only [decide_eq_false_iff_not, not_or, ne_eq, Decidable.not_not] at hdc
    rw [← hdc.1, ← hdc.2]
  · rw [if_neg hc, if_neg (by rw [hfs]; simp)]
    rw [hfs]
    simp only [List.foldl_cons, List.foldl_nil, hopts]
    have w1 : wrap64 (0 + (frameDims f.data).1) = (frameDims f.data).1 := by
      unfold wrap64; omega
    have w2 : wrap64 (0 + (frameDims f.data).2) = (frameDims f.data).2 := by
      unfold wrap64; omega
    rw [w1, w2]
    have c1 : ¬ ((frameDims f.data).1 > 0 ∧ (frameDims f.data).1 < 0) := by omega
    have c2 : ¬ ((frameDims f.data).2 > 0 ∧ (frameDims f.data).2 < 0) := by omega
    have c3 : (frameDims f.data).1 > 0 := by omega
    have c4 : (frameDims f.data).2 > 0 := by omega
    have c5 : ¬ (frameDims f.data).1 = 0 := by omega
    have c6 : ¬ (frameDims f.data).2 = 0 := by omega
    have c7 : ¬ (frameDims f.data).1 < 0 := by omega
    have c8 : ¬ (frameDims f.data).2 < 0 := by omega
    simp only [c3, c4, c5, c6, c7, c8, and_false, true_and, if_false, if_true]

theorem dims_pos {data : Bytes} (hok : frameOK data = true) :
    0 < (frameDimensions data).1 ∧ 0 < (frameDimensions data).2 := by
  unfold frameOK at hok
  have key8 : vp8OK (splitAlphaAndBitstream data).2 = true →
      0 < (frameDimensions data).1 ∧ 0 < (frameDimensions data).2 := by
    intro h8
    have ff := vp8OK_facts h8
    rw [ff.dimsOf (data := data) rfl]
    have := ff.w; have := ff.h
    exact ⟨by simp only; omega, by simp only; omega⟩
  by_cases ha : (splitAlphaAndBitstream data).1.isSome
  · rw [if_pos ha] at hok; exact key8 hok
  · rw [if_neg ha] at hok
    simp only [Bool.or_eq_true] at hok
    rcases hok with h | h
    · exact key8 h
    · have ff := vp8lOK_facts h
      rw [ff.dimsOf (data := data) rfl]
      exact ⟨ff.wpos, ff.hpos⟩

theorem accepted_facts {s : MuxState} (h : Accepted s) (hfit : Fits s) : AcceptedFacts s := by
  unfold Accepted accepted at h
  simp only [Bool.and_eq_true, decide_eq_true_eq, List.all_eq_true] at h
  obtain ⟨h1, h2⟩ := h
  have vf := Webp.Proofs.MuxValidate.validate_facts h1
  have hok : ∀ f ∈ s.frames, frameOK f.data = true :=
    fun f hf => frameOK_of (h2 f hf) (vf.frames f hf).noAlphL
  cases hx : needsVP8X s with
  | true =>
    exact ⟨h1, hok, hfit hx, vf.icc, vf.exif, vf.xmp, by rw [if_pos hx]; exact vf.area⟩
  | false =>
    obtain ⟨f, st⟩ := simpleState h1 hx
    have hfl := vf.flen f (by rw [st.frames]; exact List.mem_cons_self)
    have hsz : exactRiffSize s ≤ 4294967286 := by
      unfold exactRiffSize
      simp only [hx, st.frames, Bool.false_eq_true, if_false, padLen]
      omega
    refine ⟨h1, hok, hsz, vf.icc, vf.exif, vf.xmp, ?_⟩
    rw [if_neg (by rw [hx]; simp)]
    intro g hg
    rw [st.frames] at hg
    simp only [List.mem_singleton] at hg
    subst hg
    have hp := dims_pos (hok g (by rw [st.frames]; exact List.mem_cons_self))
    exact canvasSize_single st.frames st.opts st.noCanvas hp.1 hp.2

theorem pair_len (x y : Bytes) (n : Nat) (h : x.length + y.length + 8 ≤ n) :
    ((((some x, y) : Option Bytes × Bytes).1).getD []).length + ((some x, y) : Option Bytes × Bytes).2.length ≤ n ∧
    ((((some x, y) : Option Bytes × Bytes).1).isSome →
      ((((some x, y) : Option Bytes × Bytes).1).getD []).length + ((some x, y) : Option Bytes × Bytes).2.length + 8 ≤ n) := by
  refine ⟨?_, fun _ => ?_⟩
  · show x.length + y.length ≤ n; omega
  · show x.length + y.length + 8 ≤ n; omega

/-- the two parts of ALPH-prefixed frame data are no longer than the data -/
theorem split_len (d : Bytes) :
    (((splitAlphaAndBitstream d).1).getD []).length + (splitAlphaAndBitstream d).2.length ≤ d.length ∧
    ((splitAlphaAndBitstream d).1.isSome →
      (((splitAlphaAndBitstream d).1).getD []).length + (splitAlphaAndBitstream d).2.length + 8 ≤ d.length) := by
  rw [split_eq]
  by_cases h : (d.length ≥ 8 ∧ le32 d 0 = ccALPH) ∧ 8 + le32 d 4 ≤ d.length
  · rw [if_pos h]
    have h8 := h.1.1
    have hle := h.2
    clear h
    have e1 : ((d.take (8 + le32 d 4)).drop 8).length = le32 d 4 := by
      rw [List.length_drop, List.length_take]; omega
    by_cases hp : le32 d 4 % 2 ≠ 0 ∧ 8 + le32 d 4 < d.length
    · rw [if_pos hp]
      apply pair_len
      rw [e1, List.length_drop]
      clear e1
      omega
    · rw [if_neg hp]
      apply pair_len
      rw [e1, List.length_drop]
      clear e1
      omega
  · rw [if_neg h]
    simp

/-- mux.go assembleExtended refuses, with an error and before writing anything, every extended file
    whose RIFF payload exceeds the readers' limit 2^32 − 10 -/
theorem assemble_too_large (s : MuxState) (hv : validate s = .ok ()) (hx : needsVP8X s = true)
    (hbig : exactRiffSize s > 4294967286) : assemble s = .err .other := by
  have vf := Webp.Proofs.MuxValidate.validate_facts hv
  unfold assemble
  rw [hv, Res.bind_ok, hx]
  simp only [Bool.not_true, Bool.false_eq_true, if_false]
  unfold assembleExtended assembleExtendedWith
  simp only
  cases hal : anmfTooLarge s with
  | true => simp only [and_self, if_true]
  | false =>
    have hm : Parser.maxMetadataSize = 104857600 := rfl
    have hopt : ∀ o : Option Bytes, (o.getD []).length ≤ Parser.maxMetadataSize → optLen o < 4294967296 := by
      intro o h
      cases o with
      | none => simp [optLen]
      | some d => simp only [Option.getD_some] at h; simp only [optLen, padLen]; omega
    have hf : ∀ f ∈ s.frames, frameLen (isAnimated s) f.data < 4294967296 := by
      intro f hf
      have hsl := split_len f.data
      have hdl := vf.flen f hf
      have hfl : ∀ b, frameLen b f.data = (if b then 24 else 0) + optLen (splitAlphaAndBitstream f.data).1 +
          padLen (splitAlphaAndBitstream f.data).2.length := fun b => rfl
      cases ha : isAnimated s with
      | true =>
        unfold anmfTooLarge at hal
        simp only [ha, Bool.true_and, List.any_eq_false, Parser.anmfChunkSize, Parser.chunkHeaderSize] at hal
        have := hal f hf
        have this := Nat.le_of_not_gt (fun hgt => this (decide_eq_true hgt))
        rw [hfl]
        cases hα : (splitAlphaAndBitstream f.data).1 with
        | none => rw [hα] at this; simp only [optLen, padLen, Option.getD_none, List.length_nil, if_true] at this ⊢; omega
        | some a => rw [hα] at this; simp only [optLen, padLen, Option.getD_some, if_true] at this ⊢; omega
      | false =>
        rw [hfl]
        cases hα : (splitAlphaAndBitstream f.data).1 with
        | none =>
          rw [hα] at hsl
          simp only [optLen, padLen, Option.getD_none, List.length_nil, Bool.false_eq_true, if_false] at hsl ⊢
          omega
        | some a =>
          rw [hα] at hsl
          simp only [optLen, padLen, Option.getD_some, Option.isSome_some, forall_const, Bool.false_eq_true,
            if_false] at hsl ⊢
          omega
    rw [riffPayload64_eq' s hx (hopt _ vf.icc) (hopt _ vf.exif) (hopt _ vf.xmp) hf]
    simp only [Bool.false_eq_true, and_false, if_false, if_true]
    rw [if_pos hbig]

/-- an accepted state on which `Assemble` succeeds fits -/
theorem fits_of_ok {s : MuxState} {b : Bytes} (hv : validate s = .ok ()) (hb : assemble s = .ok b) : Fits s := by
  intro hx
  by_cases h : exactRiffSize s ≤ 4294967286
  · exact h
  · have := assemble_too_large s hv hx (by omega)
    rw [this] at hb
    cases hb

theorem parseSimpleVP8_of {payload : Bytes} {c : Demux.Chunk} {n w h : Nat}
    (hr : Demux.readChunk payload = .ok (c, n)) (hd : Demux.parseVP8Dimensions c.data = .ok (w, h)) :
    Demux.parseSimpleVP8 payload = .ok
      { features := { width := w, height := h, format := .lossy },
        frames := [{ data := some c.data, width := w, height := h, isKeyframe := true }],
        chunks := [c] } := by
  unfold Demux.parseSimpleVP8
  rw [hr]
  simp only [Res.bind_ok]
  rw [hd]
  rfl

theorem parseSimpleVP8L_of {payload : Bytes} {c : Demux.Chunk} {n w h : Nat} {a : Bool}
    (hr : Demux.readChunk payload = .ok (c, n)) (hd : Demux.parseVP8LDimensions c.data = .ok (w, h, a)) :
    Demux.parseSimpleVP8L payload = .ok
      { features := { width := w, height := h, hasAlpha := a, format := .lossless },
        frames := [{ data := some c.data, width := w, height := h, hasAlpha := a, isKeyframe := true }],
        chunks := [c] } := by
  unfold Demux.parseSimpleVP8L
  rw [hr]
  simp only [Res.bind_ok]
  rw [hd]
  rfl

theorem cc_ne : ccVP8 ≠ ccVP8X ∧ ccVP8L ≠ ccVP8X ∧ ccVP8L ≠ ccVP8 := by
  rw [ccVP8_val, ccVP8L_val, ccVP8X_val]; decide

/-- simple format, demuxer -/
theorem simple_demux {s : MuxState} {f : MuxFrame} (st : SimpleState s f) (hok : frameOK f.data = true)
    (hsz : exactRiffSize s ≤ 4294967286) :
    Demux.parseWith true (riffWrap (serAll (topChunks s))) = .ok (expD s) := by
  have hx : needsVP8X s = false := by
    unfold needsVP8X hasAlphaChunk
    simp [st.notAnim, st.icc, st.exif, st.xmp, st.frames, st.noAlph, st.noCanvas]
  have hbs := split_none st.noAlph
  unfold exactRiffSize at hsz
  simp only [hx, st.frames, Bool.false_eq_true, if_false, padLen] at hsz
  have htop : topChunks s = [⟨detectBitstreamType f.data, f.data⟩] := by
    unfold topChunks; simp [hx, st.frames]
  have hbody : serAll (topChunks s) = ser ⟨detectBitstreamType f.data, f.data⟩ ++ [] := by
    rw [htop]; simp
  have hidlt : detectBitstreamType f.data < 4294967296 := by
    unfold detectBitstreamType; split
    · rw [ccVP8L_val]; decide
    · rw [ccVP8_val]; decide
  obtain ⟨hl, h0, _, _, _, _⟩ := ser_facts ⟨detectBitstreamType f.data, f.data⟩ [] hidlt (by simp only; omega)
  simp only [List.length_nil, Nat.add_zero] at hl h0
  have hrc := readChunk_ser ⟨detectBitstreamType f.data, f.data⟩ [] hidlt
    (by have : maxChunkPayload = 4294967286 := by decide
        rw [this]; simp only; omega)
  have facts := riffWrap_facts (serAll (topChunks s)) (by rw [hbody, hl]; omega)
  rw [demux_riff facts (by rw [hbody, hl]; omega), hbody, h0]
  unfold frameOK at hok
  rw [st.noAlph, hbs] at hok
  simp only [Option.isSome_none, Bool.false_eq_true, if_false, Bool.or_eq_true] at hok
  have hexp : expD s = ({
      chunks := [toD (RawChunk.mk (detectBitstreamType f.data) f.data)],
      features := { width := (frameDimensions f.data).1, height := (frameDimensions f.data).2,
                    hasAlpha := Demux.frameDataHasAlpha f.data,
                    format := (if isLossless f.data then .lossless else .lossy) },
      frames := [dFrameOf true f] } : Demux.State) := by
    unfold expD expDFeatures dFramesFrom
    simp [hx, st.frames, htop, st.icc, st.exif, st.xmp, st.notAnim, dFramesFrom]
  rw [hexp]
  rcases hok with h8 | h8l
  · have ff := vp8OK_facts h8
    have hd := ff.detect
    rw [hd, if_neg cc_ne.1, if_pos rfl]
    rw [hd] at hrc
    rw [parseSimpleVP8_of hrc ff.demuxDims]
    have hdims := ff.dimsOf hbs
    simp only [dFrameOf, hdims, st.opts, st.noAlph, hbs, ff.noAlphaBit, isLossless, hd, toD]
    simp [cc_ne.2.2.symm]
  · have ff := vp8lOK_facts h8l
    have hd := ff.detect
    rw [hd, if_neg cc_ne.2.1, if_neg cc_ne.2.2, if_pos rfl]
    rw [hd] at hrc
    rw [parseSimpleVP8L_of hrc ff.demuxDims]
    have hdims := ff.dimsOf hbs
    simp only [dFrameOf, hdims, st.opts, st.noAlph, hbs, ff.alphaBit, isLossless, hd, toD]
    simp

/-- parser.go parseSingleImage on a buffer that starts with a well-sized chunk -/
theorem parseSingleImage_gen (st : Parser.State) {buf d : Bytes} {id n : Nat}
    (hl : 8 + (n + n % 2) ≤ buf.length) (h0 : le32 buf 0 = id) (h4 : le32 buf 4 = n) (hn : n ≤ 4294967286)
    (hs : (buf.take (8 + n)).drop 8 = d) :
    Parser.parseSingleImage st buf =
      if id = ccVP8L then
        Parser.parseVP8LHeader d >>= fun x =>
          pure { st with
            features := { st.features with hasAlpha := x.2.2, width := x.1, height := x.2.1,
                                           canvasWidth := x.1, canvasHeight := x.2.1 }
            frames := st.frames ++ [{ payload := some d, isLossless := true, width := x.1, height := x.2.1,
                                      hasAlpha := x.2.2 }] }
      else
        Parser.parseVP8Header d >>= fun x =>
          pure { st with
            features := { st.features with width := x.1, height := x.2, canvasWidth := x.1, canvasHeight := x.2 }
            frames := st.frames ++ [{ payload := some d, isLossless := false, width := x.1, height := x.2 }] } := by
  have hm : maxChunkPayload = 4294967286 := by decide
  have h1 : ¬ buf.length < 8 := by omega
  have h2 : ¬ n > 4294967286 := by omega
  have h3 : ¬ 8 + (n + n % 2) > buf.length := by omega
  have h4' : 8 ≤ 8 + n ∧ 8 + n ≤ buf.length := by omega
  simp only [Parser.parseSingleImage, Parser.readChunkHeader, h0, h4, hm, chunkHeaderSize, h1, h2, h3, h4', if_false,
    if_true, and_self, Res.bind_ok, slice, hs]

/-- simple format, container parser -/
theorem simple_parser {s : MuxState} {f : MuxFrame} (st : SimpleState s f) (hok : frameOK f.data = true)
    (hsz : exactRiffSize s ≤ 4294967286) :
    Parser.parse (riffWrap (serAll (topChunks s))) = .ok (expP s) := by
  have hx : needsVP8X s = false := by
    unfold needsVP8X hasAlphaChunk
    simp [st.notAnim, st.icc, st.exif, st.xmp, st.frames, st.noAlph, st.noCanvas]
  have hbs := split_none st.noAlph
  unfold exactRiffSize at hsz
  simp only [hx, st.frames, Bool.false_eq_true, if_false, padLen] at hsz
  have htop : topChunks s = [⟨detectBitstreamType f.data, f.data⟩] := by
    unfold topChunks; simp [hx, st.frames]
  have hbody : serAll (topChunks s) = ser ⟨detectBitstreamType f.data, f.data⟩ ++ [] := by
    rw [htop]; simp
  have hidlt : detectBitstreamType f.data < 4294967296 := by
    unfold detectBitstreamType; split
    · rw [ccVP8L_val]; decide
    · rw [ccVP8_val]; decide
  obtain ⟨hl, h0, h4, hs, _, _⟩ := ser_facts ⟨detectBitstreamType f.data, f.data⟩ [] hidlt (by simp only; omega)
  simp only [List.length_nil, Nat.add_zero] at hl h0 h4 hs
  have facts := riffWrap_facts (serAll (topChunks s)) (by rw [hbody, hl]; omega)
  rw [parser_riff facts (by rw [hbody, hl]; omega) (by rw [hbody, hl]; omega), hbody, h0]
  unfold frameOK at hok
  rw [st.noAlph, hbs] at hok
  simp only [Option.isSome_none, Bool.false_eq_true, if_false, Bool.or_eq_true] at hok
  have hexp : expP s = ({
      features := { format := (if isLossless f.data then .vp8l else .vp8),
                    hasAlpha := isLossless f.data && vp8lA f.data,
                    width := (frameDimensions f.data).1, height := (frameDimensions f.data).2,
                    canvasWidth := (frameDimensions f.data).1, canvasHeight := (frameDimensions f.data).2 },
      frames := [pFrameOf f],
      chunks := [] } : Parser.State) := by
    unfold expP expPFeatures expPChunks
    simp [hx, st.frames, st.icc, st.notAnim, optC]
  rw [hexp]
  rcases hok with h8 | h8l
  · have ff := vp8OK_facts h8
    have hd := ff.detect
    rw [hd, if_neg cc_ne.1, if_pos rfl]
    rw [hd] at h0 h4 hs hl
    rw [parseSingleImage_gen _ (id := ccVP8) (n := f.data.length) (d := f.data) (by rw [hl]; omega) h0 h4 (by omega) hs,
      if_neg cc_ne.2.2.symm, ff.parserHeader]
    have hdims := ff.dimsOf hbs
    simp only [Res.bind_ok, Res.pure_eq, pFrameOf, hdims, st.opts, st.noAlph, hbs, isLossless, hd]
    simp [cc_ne.2.2.symm]
  · have ff := vp8lOK_facts h8l
    have hd := ff.detect
    rw [hd, if_neg cc_ne.2.1, if_neg cc_ne.2.2, if_pos rfl]
    rw [hd] at h0 h4 hs hl
    rw [parseSingleImage_gen _ (id := ccVP8L) (n := f.data.length) (d := f.data) (by rw [hl]; omega) h0 h4 (by omega) hs,
      if_pos rfl, ff.parserHeader]
    have hdims := ff.dimsOf hbs
    simp only [Res.bind_ok, Res.pure_eq, pFrameOf, hdims, st.opts, st.noAlph, hbs, isLossless, hd]
    simp

/-- simple format, spec walker -/
theorem simple_walker {s : MuxState} {f : MuxFrame} (st : SimpleState s f) (hok : frameOK f.data = true)
    (hsz : exactRiffSize s ≤ 4294967286) :
    Webp.Spec.Riff.wellFormed (riffWrap (serAll (topChunks s))) = .ok (expL s) := by
  have hx : needsVP8X s = false := by
    unfold needsVP8X hasAlphaChunk
    simp [st.notAnim, st.icc, st.exif, st.xmp, st.frames, st.noAlph, st.noCanvas]
  have hbs := split_none st.noAlph
  unfold exactRiffSize at hsz
  simp only [hx, st.frames, Bool.false_eq_true, if_false, padLen] at hsz
  have htop : topChunks s = [⟨detectBitstreamType f.data, f.data⟩] := by
    unfold topChunks; simp [hx, st.frames]
  have hidlt : detectBitstreamType f.data < 4294967296 := by
    unfold detectBitstreamType; split
    · rw [ccVP8L_val]; decide
    · rw [ccVP8_val]; decide
  have hlen : (serAll (topChunks s)).length = 8 + f.data.length + f.data.length % 2 := by
    rw [htop]; simp [ser_length, padLen]
  have facts := riffWrap_facts (serAll (topChunks s)) (by rw [hlen]; omega)
  rw [wf_riff facts (by rw [hlen]; omega)]
  rw [splitChunks_serAll (topChunks s) _ (by rw [facts.len, htop]; simp; omega)
    (by rw [htop]; intro c hc; simp only [List.mem_singleton] at hc; subst hc; exact ⟨hidlt, by simp only; omega⟩)]
  rw [htop]
  unfold frameOK at hok
  rw [st.noAlph, hbs] at hok
  simp only [Option.isSome_none, Bool.false_eq_true, if_false, Bool.or_eq_true] at hok
  have t1 : Webp.Spec.Riff.tagVP8X = ccVP8X := rfl
  have t2 : Webp.Spec.Riff.tagVP8 = ccVP8 := rfl
  have t3 : Webp.Spec.Riff.tagVP8L = ccVP8L := rfl
  have hexp : expL s = ({
      extended := false,
      canvasW := (frameDimensions f.data).1, canvasH := (frameDimensions f.data).2,
      hasAlpha := isLossless f.data && vp8lA f.data,
      animated := false,
      frames := [lFrameOf f] } : Webp.Spec.Riff.Layout) := by
    unfold expL
    simp [hx, st.frames, st.icc, st.exif, st.xmp, st.notAnim]
  rw [hexp]
  show Webp.Spec.Riff.layoutOf [⟨detectBitstreamType f.data, f.data⟩] = _
  unfold Webp.Spec.Riff.layoutOf
  rcases hok with h8 | h8l
  · have ff := vp8OK_facts h8
    have hd := ff.detect
    have hdims := ff.dimsOf hbs
    simp only [hd, t1, t2, t3, cc_ne.1, cc_ne.2.2.symm, if_false, if_true, ne_eq, not_true_eq_false, ff.specHeader,
      lFrameOf, hdims, st.opts, st.noAlph, hbs, isLossless]
    simp [cc_ne.2.2.symm]
  · have ff := vp8lOK_facts h8l
    have hd := ff.detect
    have hdims := ff.dimsOf hbs
    simp only [hd, t1, t2, t3, cc_ne.2.1, cc_ne.2.2, if_false, if_true, ne_eq, not_true_eq_false, ff.specHeader,
      lFrameOf, hdims, st.opts, st.noAlph, hbs, isLossless]
    simp

end Webp.Proofs.MuxSimple
