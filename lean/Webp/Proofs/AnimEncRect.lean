import Webp.Impl.AnimEnc
import Webp.Proofs.AnimDecGeom
/-
  Geometry of the animation encoder: the scans of `findChangedRect` (progressive narrowing),
  `snapToEven`, the candidate rectangle, `extractSubImage`, `rectAll`.
-/
namespace Webp.Proofs.AnimEncRect
open Webp.Spec.Anim Webp.Impl.AnimEnc Webp.Impl.AnimDec Webp.Proofs.AnimDecLoops
open Webp.Proofs.AnimDecGeom

/-! ### the two scan loops -/

/-- `scanUp` returns the first hit in `[i, i+n)`, or the default when there is none -/
theorem scanUp_spec (hit : Nat → Bool) (dflt : Nat) (n i : Nat) :
    (∃ j, i ≤ j ∧ j < i + n ∧ hit j = true ∧ (∀ k, i ≤ k → k < j → hit k = false) ∧
        scanUp hit dflt n i = j) ∨
    ((∀ k, i ≤ k → k < i + n → hit k = false) ∧ scanUp hit dflt n i = dflt) := by
  induction n generalizing i with
  | zero => right; exact ⟨fun k h1 h2 => by omega, rfl⟩
  | succ n ih =>
    unfold scanUp
    by_cases hh : hit i = true
    · left
      exact ⟨i, Nat.le_refl _, by omega, hh, fun k h1 h2 => by omega, by simp [hh]⟩
    · simp only [hh]
      have hf : hit i = false := by simpa using hh
      rcases ih (i + 1) with ⟨j, h1, h2, h3, h4, h5⟩ | ⟨h1, h2⟩
      · left
        refine ⟨j, by omega, by omega, h3, fun k hk1 hk2 => ?_, by simpa using h5⟩
        by_cases hki : k = i
        · subst hki; exact hf
        · exact h4 k (by omega) hk2
      · right
        refine ⟨fun k hk1 hk2 => ?_, by simpa using h2⟩
        by_cases hki : k = i
        · subst hki; exact hf
        · exact h1 k (by omega) (by omega)

/-- `scanDown` returns (the last hit in `[lo, lo+n)`) + 1, or the default when there is none -/
theorem scanDown_spec (hit : Nat → Bool) (dflt lo : Nat) (n : Nat) :
    (∃ j, lo ≤ j ∧ j < lo + n ∧ hit j = true ∧ (∀ k, j < k → k < lo + n → hit k = false) ∧
        scanDown hit dflt lo n = j + 1) ∨
    ((∀ k, lo ≤ k → k < lo + n → hit k = false) ∧ scanDown hit dflt lo n = dflt) := by
  induction n with
  | zero => right; exact ⟨fun k h1 h2 => by omega, rfl⟩
  | succ n ih =>
    unfold scanDown
    by_cases hh : hit (lo + n) = true
    · left
      exact ⟨lo + n, by omega, by omega, hh, fun k h1 h2 => by omega, by simp [hh]⟩
    · simp only [hh]
      have hf : hit (lo + n) = false := by simpa using hh
      rcases ih with ⟨j, h1, h2, h3, h4, h5⟩ | ⟨h1, h2⟩
      · left
        refine ⟨j, h1, by omega, h3, fun k hk1 hk2 => ?_, by simpa using h5⟩
        by_cases hki : k = lo + n
        · subst hki; exact hf
        · exact h4 k hk1 (by omega)
      · right
        refine ⟨fun k hk1 hk2 => ?_, by simpa using h2⟩
        by_cases hki : k = lo + n
        · subst hki; exact hf
        · exact h1 k hk1 (by omega)

theorem rowDiff_iff (w : Nat) (p c : Canvas) (y : Nat) :
    rowDiff w p c y = true ↔ ∃ x, x < w ∧ pxDiff w p c x y = true := by
  unfold rowDiff
  rw [List.any_eq_true]
  constructor
  · rintro ⟨x, hx, h⟩; exact ⟨x, List.mem_range.mp hx, h⟩
  · rintro ⟨x, hx, h⟩; exact ⟨x, List.mem_range.mpr hx, h⟩

theorem rowDiff_false_iff (w : Nat) (p c : Canvas) (y : Nat) :
    rowDiff w p c y = false ↔ ∀ x, x < w → pxDiff w p c x y = false := by
  constructor
  · intro h x hx
    by_cases hd : pxDiff w p c x y = true
    · have := (rowDiff_iff w p c y).mpr ⟨x, hx, hd⟩
      rw [h] at this; cases this
    · simpa using hd
  · intro h
    by_cases hr : rowDiff w p c y = true
    · obtain ⟨x, hx, hd⟩ := (rowDiff_iff w p c y).mp hr
      rw [h x hx] at hd; cases hd
    · simpa using hr

/-! ### progressive narrowing -/

/-- the row loop: the result contains every differing pixel of the rows it was run on, it only
    widens the interval it started from, and it stays inside `[0, w]` -/
theorem narrowRows_spec (w : Nat) (p c : Canvas) (n y minX maxX : Nat) (hmax : maxX ≤ w) :
    let s := narrowRows w p c n y (minX, maxX)
    s.1 ≤ minX ∧ maxX ≤ s.2 ∧ s.2 ≤ w ∧
    ∀ y', y ≤ y' → y' < y + n → ∀ x, x < w → pxDiff w p c x y' = true → s.1 ≤ x ∧ x < s.2 := by
  induction n generalizing y minX maxX with
  | zero =>
    simp only [narrowRows]
    exact ⟨Nat.le_refl _, Nat.le_refl _, hmax, fun y' h1 h2 => by omega⟩
  | succ n ih =>
    simp only [narrowRows]
    -- the two scans of row `y`
    have hL : ∀ x, x < w → pxDiff w p c x y = true →
        scanUp (fun x => pxDiff w p c x y) minX minX 0 ≤ x := by
      intro x _ hd
      rcases scanUp_spec (fun x => pxDiff w p c x y) minX minX 0 with ⟨j, _, _, _, h4, h5⟩ | ⟨h1, h2⟩
      · rw [h5]
        by_cases hxj : x < j
        · have h' : pxDiff w p c x y = false := h4 x (Nat.zero_le _) hxj
          rw [hd] at h'; cases h'
        · omega
      · rw [h2]
        by_cases hxm : x < minX
        · have h' : pxDiff w p c x y = false := h1 x (Nat.zero_le _) (by omega)
          rw [hd] at h'; cases h'
        · omega
    have hLle : scanUp (fun x => pxDiff w p c x y) minX minX 0 ≤ minX := by
      rcases scanUp_spec (fun x => pxDiff w p c x y) minX minX 0 with ⟨j, _, h2, _, _, h5⟩ | ⟨_, h2⟩
      · rw [h5]; omega
      · rw [h2]; exact Nat.le_refl _
    have hR : ∀ x, x < w → pxDiff w p c x y = true →
        x < scanDown (fun x => pxDiff w p c x y) maxX maxX (w - maxX) := by
      intro x hx hd
      rcases scanDown_spec (fun x => pxDiff w p c x y) maxX maxX (w - maxX) with
        ⟨j, _, _, _, h4, h5⟩ | ⟨h1, h2⟩
      · rw [h5]
        by_cases hxj : j < x
        · have h' : pxDiff w p c x y = false := h4 x hxj (by omega)
          rw [hd] at h'; cases h'
        · omega
      · rw [h2]
        by_cases hxm : maxX ≤ x
        · have h' : pxDiff w p c x y = false := h1 x hxm (by omega)
          rw [hd] at h'; cases h'
        · omega
    have hRge : maxX ≤ scanDown (fun x => pxDiff w p c x y) maxX maxX (w - maxX) ∧
        scanDown (fun x => pxDiff w p c x y) maxX maxX (w - maxX) ≤ w := by
      rcases scanDown_spec (fun x => pxDiff w p c x y) maxX maxX (w - maxX) with
        ⟨j, h1, h2, _, _, h5⟩ | ⟨_, h2⟩
      · rw [h5]; omega
      · rw [h2]; omega
    generalize scanUp (fun x => pxDiff w p c x y) minX minX 0 = a at hL hLle
    generalize scanDown (fun x => pxDiff w p c x y) maxX maxX (w - maxX) = b at hR hRge
    by_cases hex : a = 0 ∧ b = w
    · rw [if_pos hex]
      refine ⟨hLle, hRge.1, hRge.2, fun y' _ _ x hx _ => ?_⟩
      show a ≤ x ∧ x < b
      omega
    · rw [if_neg hex]
      obtain ⟨i1, i2, i3, i4⟩ := ih (y + 1) a b hRge.2
      refine ⟨by omega, by omega, i3, fun y' h1 h2 x hx hd => ?_⟩
      by_cases hy : y' = y
      · subst hy
        have := hL x hx hd
        have := hR x hx hd
        omega
      · exact i4 y' (by omega) (by omega) x hx hd

/-! ### findChangedRect -/

/-- **bounding box**: every differing pixel lies in `findChangedRect p c` -/
theorem findChangedRect_bbox (w h : Nat) (p c : Canvas) (x y : Nat) (hx : x < w) (hy : y < h)
    (hd : pxDiff w p c x y = true) : (findChangedRect w h p c).has x y = true := by
  unfold findChangedRect
  rw [if_neg (by omega)]
  simp only []
  have hrow : rowDiff w p c y = true := (rowDiff_iff w p c y).mpr ⟨x, hx, hd⟩
  -- top boundary
  have htop : ∃ j, j < h ∧ (∀ k, k < j → rowDiff w p c k = false) ∧ scanUp (rowDiff w p c) h h 0 = j := by
    rcases scanUp_spec (rowDiff w p c) h h 0 with ⟨j, _, hj2, _, hj4, hj5⟩ | ⟨h1, _⟩
    · exact ⟨j, by omega, fun k hk => hj4 k (Nat.zero_le _) hk, hj5⟩
    · have := h1 y (Nat.zero_le _) (by omega)
      rw [hrow] at this; cases this
  obtain ⟨j, hj2, hj4, hj5⟩ := htop
  rw [hj5]
  have hjy : j ≤ y := by
    by_cases hlt : y < j
    · have := hj4 y hlt
      rw [hrow] at this; cases this
    · omega
  rw [if_neg (by omega)]
  -- bottom boundary
  have hbot : y < scanDown (rowDiff w p c) (j + 1) (j + 1) (h - (j + 1)) ∧
      j < scanDown (rowDiff w p c) (j + 1) (j + 1) (h - (j + 1)) := by
    rcases scanDown_spec (rowDiff w p c) (j + 1) (j + 1) (h - (j + 1)) with
      ⟨j', g1, g2, _, g4, g5⟩ | ⟨g1, g2⟩
    · rw [g5]
      refine ⟨?_, by omega⟩
      by_cases hlt : j' < y
      · have := g4 y hlt (by omega)
        rw [hrow] at this; cases this
      · omega
    · rw [g2]
      refine ⟨?_, by omega⟩
      by_cases hlt : j + 1 ≤ y
      · have := g1 y hlt (by omega)
        rw [hrow] at this; cases this
      · omega
  generalize scanDown (rowDiff w p c) (j + 1) (j + 1) (h - (j + 1)) = mY at hbot
  obtain ⟨n1, n2, n3, n4⟩ := narrowRows_spec w p c (mY - j) j w 0 (Nat.zero_le _)
  have hxx := n4 y hjy (by omega) x hx hd
  generalize narrowRows w p c (mY - j) j (w, 0) = s at n1 n2 n3 n4 hxx
  rw [if_neg (by omega)]
  unfold mkRect Rect.has
  simp only [Bool.and_eq_true, decide_eq_true_eq]
  have e1 : ¬ ((s.1 : Int) > (s.2 : Int)) := by omega
  have e2 : ¬ ((j : Int) > (mY : Int)) := by omega
  simp only [e1, e2, if_false]
  omega

/-- a non-empty result lies inside the canvas -/
theorem findChangedRect_bounds (w h : Nat) (p c : Canvas)
    (hne : (findChangedRect w h p c).empty = false) :
    0 ≤ (findChangedRect w h p c).minX ∧ (findChangedRect w h p c).maxX ≤ w ∧
    0 ≤ (findChangedRect w h p c).minY ∧ (findChangedRect w h p c).maxY ≤ h := by
  revert hne
  unfold findChangedRect
  by_cases h0 : w = 0 ∨ h = 0
  · rw [if_pos h0]; intro hne; simp [Rect.empty, Rect.zero] at hne
  rw [if_neg h0]
  simp only []
  by_cases htop : scanUp (rowDiff w p c) h h 0 = h
  · rw [if_pos htop]; intro hne; simp [Rect.empty, Rect.zero] at hne
  have hj2 : scanUp (rowDiff w p c) h h 0 < h := by
    rcases scanUp_spec (rowDiff w p c) h h 0 with ⟨j, _, hj2, _, _, hj5⟩ | ⟨_, h2⟩
    · omega
    · exact absurd h2 htop
  generalize scanUp (rowDiff w p c) h h 0 = j at htop hj2
  rw [if_neg htop]
  have hbot : j < scanDown (rowDiff w p c) (j + 1) (j + 1) (h - (j + 1)) ∧
      scanDown (rowDiff w p c) (j + 1) (j + 1) (h - (j + 1)) ≤ h := by
    rcases scanDown_spec (rowDiff w p c) (j + 1) (j + 1) (h - (j + 1)) with
      ⟨j', g1, g2, _, _, g5⟩ | ⟨_, g2⟩
    · rw [g5]; omega
    · rw [g2]; omega
  generalize scanDown (rowDiff w p c) (j + 1) (j + 1) (h - (j + 1)) = mY at hbot
  obtain ⟨n1, n2, n3, _⟩ := narrowRows_spec w p c (mY - j) j w 0 (Nat.zero_le _)
  generalize narrowRows w p c (mY - j) j (w, 0) = s at n1 n2 n3
  by_cases hs : s.2 ≤ s.1
  · rw [if_pos hs]; intro hne; simp [Rect.empty, Rect.zero] at hne
  · rw [if_neg hs]
    intro _
    unfold mkRect
    have e1 : ¬ ((s.1 : Int) > (s.2 : Int)) := by omega
    have e2 : ¬ ((j : Int) > (mY : Int)) := by omega
    simp only [e1, e2, if_false]
    omega

/-- **the rectangle is empty iff the two canvases agree on all `w×h` pixels** -/
theorem findChangedRect_empty_iff (w h : Nat) (p c : Canvas) :
    (findChangedRect w h p c).empty = true ↔
      ∀ x y, x < w → y < h → pxDiff w p c x y = false := by
  constructor
  · intro he x y hx hy
    by_cases hd : pxDiff w p c x y = true
    · have hb := findChangedRect_bbox w h p c x y hx hy hd
      unfold Rect.has at hb
      unfold Rect.empty at he
      simp only [Bool.and_eq_true, decide_eq_true_eq, Bool.or_eq_true, ge_iff_le] at hb he
      omega
    · simpa using hd
  · intro hall
    unfold findChangedRect
    by_cases h0 : w = 0 ∨ h = 0
    · rw [if_pos h0]; decide
    rw [if_neg h0]
    simp only []
    rcases scanUp_spec (rowDiff w p c) h h 0 with ⟨j, _, hj2, hj3, _, _⟩ | ⟨_, h2⟩
    · obtain ⟨x, hx, hd⟩ := (rowDiff_iff w p c j).mp hj3
      rw [hall x j hx (by omega)] at hd; cases hd
    · rw [h2, if_pos rfl]; decide

/-- for canvases of `w*h` pixels "no differing pixel" is equality -/
theorem canvas_eq_of_no_diff (w h : Nat) (p c : Canvas) (hp : p.size = w * h) (hc : c.size = w * h)
    (hall : ∀ x y, x < w → y < h → pxDiff w p c x y = false) : p = c := by
  apply canvas_ext hp hc
  intro i hi
  have hx := mod_lt_of_lt hi
  have hy := div_lt_of_lt hi
  have := hall (i % w) (i / w) hx hy
  unfold pxDiff Canvas.px at this
  rw [idx_eq] at this
  simpa using this

/-- `findChangedRect_empty_iff` for canvases of the right size: **empty ↔ `p = c`** -/
theorem findChangedRect_empty_iff_eq (w h : Nat) (p c : Canvas) (hp : p.size = w * h)
    (hc : c.size = w * h) : (findChangedRect w h p c).empty = true ↔ p = c := by
  rw [findChangedRect_empty_iff]
  constructor
  · exact canvas_eq_of_no_diff w h p c hp hc
  · intro he x y _ _
    subst he
    simp [pxDiff]

/-! ### snapToEven and the candidate rectangle -/

/-- a rectangle in canvas coordinates that is inside the `w×h` canvas and not empty -/
structure RectOK (w h : Nat) (r : Rect) : Prop where
  x0 : 0 ≤ r.minX
  xx : r.minX < r.maxX
  x1 : r.maxX ≤ w
  y0 : 0 ≤ r.minY
  yy : r.minY < r.maxY
  y1 : r.maxY ≤ h

/-- **`snapToEven` covers its argument**, has even offsets, and keeps the far corner -/
theorem snapToEven_covers (r : Rect) (hx : r.minX ≤ r.maxX) (hy : r.minY ≤ r.maxY) :
    (snapToEven r).minX % 2 = 0 ∧ (snapToEven r).minY % 2 = 0 ∧
    (snapToEven r).minX ≤ r.minX ∧ r.minX ≤ (snapToEven r).minX + 1 ∧
    (snapToEven r).minY ≤ r.minY ∧ r.minY ≤ (snapToEven r).minY + 1 ∧
    (snapToEven r).maxX = r.maxX ∧ (snapToEven r).maxY = r.maxY ∧
    ∀ x y, r.has x y = true → (snapToEven r).has x y = true := by
  unfold snapToEven mkRect
  simp only []
  have e1 : ¬ (r.minX - r.minX % 2 > r.minX - r.minX % 2 + (r.maxX - r.minX + r.minX % 2)) := by omega
  have e2 : ¬ (r.minY - r.minY % 2 > r.minY - r.minY % 2 + (r.maxY - r.minY + r.minY % 2)) := by omega
  simp only [e1, e2, if_false]
  refine ⟨by omega, by omega, by omega, by omega, by omega, by omega, by omega, by omega, ?_⟩
  intro x y hh
  unfold Rect.has at hh ⊢
  simp only [Bool.and_eq_true, decide_eq_true_eq] at hh ⊢
  omega

theorem snapToEven_ok (w h : Nat) (r : Rect) (hr : RectOK w h r) : RectOK w h (snapToEven r) := by
  obtain ⟨a, b, c, d, e, f⟩ := hr
  obtain ⟨s1, s2, s3, s4, s5, s6, s7, s8, _⟩ := snapToEven_covers r (by omega) (by omega)
  exact ⟨by omega, by omega, by omega, by omega, by omega, by omega⟩

/-- `Intersect` with the canvas leaves a rectangle inside the canvas alone -/
theorem intersect_canvas_of_ok (w h : Nat) (r : Rect) (hr : RectOK w h r) :
    r.intersect (canvasRect w h) = r := by
  obtain ⟨a, b, c, d, e, f⟩ := hr
  rw [intersect_fields]
  unfold canvasRect
  simp only []
  rw [if_neg (by omega)]
  obtain ⟨x0, y0, x1, y1⟩ := r
  simp only at a b c d e f ⊢
  congr 1 <;> omega

/-- **the candidate rectangle** lies inside the canvas, is not empty, has even offsets and
    contains every pixel in which `base` and `curr` differ -/
theorem candidateRect_spec (w h : Nat) (base curr : Canvas) (hw : 0 < w) (hh : 0 < h) :
    RectOK w h (candidateRect w h base curr) ∧
    (candidateRect w h base curr).minX % 2 = 0 ∧ (candidateRect w h base curr).minY % 2 = 0 ∧
    ∀ x y, x < w → y < h → pxDiff w base curr x y = true →
      (candidateRect w h base curr).has x y = true := by
  unfold candidateRect
  simp only []
  by_cases he : (findChangedRect w h base curr).empty = true
  · rw [if_pos he]
    have hunit : RectOK w h (mkRect 0 0 1 1) := by
      have e : mkRect 0 0 1 1 = ⟨0, 0, 1, 1⟩ := by decide
      rw [e]
      exact ⟨by decide, by decide, by show (1 : Int) ≤ w; omega, by decide, by decide,
        by show (1 : Int) ≤ h; omega⟩
    have hok := snapToEven_ok w h _ hunit
    rw [intersect_canvas_of_ok w h _ hok]
    have := snapToEven_covers (mkRect 0 0 1 1) (by decide) (by decide)
    refine ⟨hok, this.1, this.2.1, fun x y hx hy hd => ?_⟩
    have := (findChangedRect_empty_iff w h base curr).mp he x y hx hy
    rw [hd] at this; cases this
  · have hne : (findChangedRect w h base curr).empty = false := by simpa using he
    rw [if_neg he]
    obtain ⟨b1, b2, b3, b4⟩ := findChangedRect_bounds w h base curr hne
    have hfc : RectOK w h (findChangedRect w h base curr) := by
      unfold Rect.empty at hne
      simp only [Bool.or_eq_false_iff, decide_eq_false_iff_not, ge_iff_le] at hne
      exact ⟨b1, by omega, b2, b3, by omega, b4⟩
    have hok := snapToEven_ok w h _ hfc
    rw [intersect_canvas_of_ok w h _ hok]
    obtain ⟨s1, s2, _, _, _, _, _, _, s9⟩ := snapToEven_covers (findChangedRect w h base curr)
      (by have := hfc.xx; omega) (by have := hfc.yy; omega)
    exact ⟨hok, s1, s2, fun x y hx hy hd => s9 x y (findChangedRect_bbox w h base curr x y hx hy hd)⟩

/-! ### extractSubImage -/

theorem extractSubImage_spec (cw ch : Nat) (src : Canvas) (r : Rect) (hr : RectOK cw ch r) :
    (extractSubImage cw src r).w = (r.maxX - r.minX).toNat ∧
    (extractSubImage cw src r).h = (r.maxY - r.minY).toNat ∧
    (extractSubImage cw src r).px.size = (r.maxX - r.minX).toNat * (r.maxY - r.minY).toNat ∧
    ∀ i j, i < (r.maxX - r.minX).toNat → j < (r.maxY - r.minY).toNat →
      (extractSubImage cw src r).at (j * (r.maxX - r.minX).toNat + i) =
        src.px ((r.minY.toNat + j) * cw + (r.minX.toNat + i)) := by
  obtain ⟨a, b, c, d, e, f⟩ := hr
  unfold extractSubImage
  simp only []
  rw [if_neg (by omega)]
  refine ⟨rfl, rfl, by simp, fun i j hi hj => ?_⟩
  unfold SubImage.at
  simp only []
  have hlt : j * (r.maxX - r.minX).toNat + i < (r.maxX - r.minX).toNat * (r.maxY - r.minY).toNat :=
    idx_lt hi hj
  rw [getD_ofFn _ _ hlt]
  simp only [idx_div hi, idx_mod hi]

theorem clearBlendedTranslucent_at (s : SubImage) (i : Nat) (hi : i < s.px.size) :
    (clearBlendedTranslucent s).at i = clearPx (s.at i) := by
  unfold clearBlendedTranslucent SubImage.at
  simp only [Array.getD_eq_getD_getElem?]
  have h1 : (⟨s.px.toList.map clearPx⟩ : Array Px)[i]? = (s.px.toList.map clearPx)[i]? := by simp
  rw [h1, List.getElem?_map, Array.getElem?_toList, Array.getElem?_eq_getElem hi]
  rfl

/-! ### rectAll -/

theorem rectAll_iff (r : Rect) (ok : Int → Int → Bool) :
    rectAll r ok = true ↔
      ∀ x y : Int, r.minX ≤ x → x < r.maxX → r.minY ≤ y → y < r.maxY → ok x y = true := by
  unfold rectAll
  simp only [List.all_eq_true, List.mem_range]
  constructor
  · intro hall x y h1 h2 h3 h4
    have := hall (y - r.minY).toNat (by omega) (x - r.minX).toNat (by omega)
    have ex : r.minX + (((x - r.minX).toNat : Nat) : Int) = x := by omega
    have ey : r.minY + (((y - r.minY).toNat : Nat) : Int) = y := by omega
    rw [ex, ey] at this
    exact this
  · intro hall j hj i hi
    exact hall _ _ (by omega) (by omega) (by omega) (by omega)

/-- `NRGBAAt` inside the picture is plain indexing -/
theorem nrgbaAt_in (w h : Nat) (c : Canvas) (x y : Nat) (hx : x < w) (hy : y < h) :
    nrgbaAt w h c (x : Int) (y : Int) = c.px (y * w + x) := by
  unfold nrgbaAt inImage Canvas.px
  have : (decide (0 ≤ (x : Int)) && decide ((x : Int) < (w : Int)) && decide (0 ≤ (y : Int)) &&
      decide ((y : Int) < (h : Int))) = true := by
    simp only [Bool.and_eq_true, decide_eq_true_eq]; omega
  rw [if_pos this]
  simp

end Webp.Proofs.AnimEncRect
