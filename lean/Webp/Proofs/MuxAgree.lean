import Webp.Proofs.MuxWalker
/-
  The agreement relations used in the statement of C14 (`Webp.Props.C14.mux_demux`) and the lemmas
  that read them off the explicit expected values `expD` / `expP` / `expL`.
-/
namespace Webp.Proofs.MuxAgree
open Webp.Go Webp.Impl Webp.Impl.Mux
open Webp.Proofs.MuxAccepted Webp.Proofs.MuxExpect Webp.Proofs.MuxCore Webp.Proofs.MuxChunk
  Webp.Proofs.MuxSimple Webp.Proofs.MuxValidate Webp.Proofs.MuxDemuxExt Webp.Proofs.MuxDemuxFinal
open Webp.Impl.Demux (splitAlphaAndBitstream frameDimensions)
open Webp.Impl.Parser (ccRIFF ccWEBP ccVP8 ccVP8L ccVP8X ccALPH ccANIM ccANMF ccICCP ccEXIF ccXMP maxChunkPayload)

/-! ### What "agrees" means -/

/-- the two lists have the same length and corresponding elements are related -/
def AllPairs {α β : Type} (R : α → β → Prop) : List α → List β → Prop
  | [], [] => True
  | a :: as, b :: bs => R a b ∧ AllPairs R as bs
  | _, _ => False

/-- a frame the muxer was given vs. the frame the demuxer reports -/
def FrameAgrees (f : MuxFrame) (fi : Demux.FrameInfo) : Prop :=
  fi.data = some (splitAlphaAndBitstream f.data).2 ∧            -- bitstream bytes
  fi.alphaData = (splitAlphaAndBitstream f.data).1 ∧            -- ALPH payload (none = no ALPH chunk)
  (fi.width, fi.height) = frameDimensions f.data ∧
  (fi.offsetX : Int) = 2 * (f.opts.offsetX / 2) ∧               -- offsets rounded down to even
  (fi.offsetY : Int) = 2 * (f.opts.offsetY / 2) ∧
  (fi.duration : Int) = f.opts.duration ∧
  fi.blendNone = decide (f.opts.blendMode = 1) ∧                -- BlendNone = 1
  fi.disposeBG = decide (f.opts.disposeMode = 1)                -- DisposeBackground = 1

/-- muxer state vs. what `mux.NewDemuxer` reports for the assembled file -/
def DemuxAgrees (s : MuxState) (d : Demux.State) : Prop :=
  AllPairs FrameAgrees s.frames d.frames ∧
  (d.features.width : Int) = (canvasSize s).1 ∧ (d.features.height : Int) = (canvasSize s).2 ∧
  d.features.hasAnimation = isAnimated s ∧
  -- loop count and background colour exist only in an ANIM chunk, i.e. in animated files
  (isAnimated s = true → (d.loopCount : Int) = s.loopCount ∧ d.bgColor = s.bgColor) ∧
  (isAnimated s = false → d.loopCount = 0 ∧ d.bgColor = 0) ∧
  d.iccData = s.iccData ∧ d.exifData = s.exifData ∧ d.xmpData = s.xmpData ∧
  d.features.hasICC = s.iccData.isSome ∧ d.features.hasEXIF = s.exifData.isSome ∧
  d.features.hasXMP = s.xmpData.isSome

/-- a frame as reported by the demuxer vs. by container.Parser -/
def PFrameAgrees (fi : Demux.FrameInfo) (pf : Parser.FrameInfo) : Prop :=
  pf.xOffset = fi.offsetX ∧ pf.yOffset = fi.offsetY ∧ pf.width = fi.width ∧ pf.height = fi.height ∧
  pf.duration = fi.duration ∧ pf.disposeBG = fi.disposeBG ∧ pf.blendNone = fi.blendNone ∧
  pf.payload = fi.data ∧ pf.alphaData = fi.alphaData

/-- payload of the first chunk with the given FourCC in `Parser.Chunks()` -/
def pMeta (p : Parser.State) (id : Nat) : Option Bytes :=
  (p.chunks.find? fun c => c.fourcc = id).map (·.payload)

/-- the two Go parsers report the same structure.  container.Parser stops at the image chunk of a
    still, so EXIF/XMP (written after the image) appear in its chunk list only for animations; their
    presence is still announced by its feature flags. -/
def ParserAgrees (d : Demux.State) (p : Parser.State) : Prop :=
  p.features.canvasWidth = d.features.width ∧ p.features.canvasHeight = d.features.height ∧
  p.features.hasAnim = d.features.hasAnimation ∧
  AllPairs PFrameAgrees d.frames p.frames ∧
  (d.features.hasAnimation = true → p.features.loopCount = d.loopCount ∧ p.features.bgColor = d.bgColor) ∧
  p.features.hasICCP = d.iccData.isSome ∧ p.features.hasEXIF = d.exifData.isSome ∧
  p.features.hasXMP = d.xmpData.isSome ∧
  pMeta p ccICCP = d.iccData ∧
  (d.features.hasAnimation = true → pMeta p ccEXIF = d.exifData ∧ pMeta p ccXMP = d.xmpData) ∧
  (d.features.hasAnimation = false → pMeta p ccEXIF = none ∧ pMeta p ccXMP = none)


/-- a frame the muxer was given vs. the frame the spec walker finds in the file -/
def LFrameAgrees (f : MuxFrame) (lf : Webp.Spec.Riff.FrameLayout) : Prop :=
  lf.bitstream = (splitAlphaAndBitstream f.data).2 ∧ lf.alpha = (splitAlphaAndBitstream f.data).1 ∧
  (lf.width, lf.height) = frameDimensions f.data ∧
  (lf.offsetX : Int) = 2 * (f.opts.offsetX / 2) ∧ (lf.offsetY : Int) = 2 * (f.opts.offsetY / 2) ∧
  (lf.duration : Int) = f.opts.duration ∧
  lf.blendNone = decide (f.opts.blendMode = 1) ∧ lf.disposeBG = decide (f.opts.disposeMode = 1)

/-- muxer state vs. the layout the spec walker reads from the assembled file -/
def LayoutAgrees (s : MuxState) (l : Webp.Spec.Riff.Layout) : Prop :=
  l.extended = needsVP8X s ∧ AllPairs LFrameAgrees s.frames l.frames ∧
  (l.canvasW : Int) = (canvasSize s).1 ∧ (l.canvasH : Int) = (canvasSize s).2 ∧
  l.animated = isAnimated s ∧
  (isAnimated s = true → (l.loopCount : Int) = s.loopCount ∧ l.bgColor = s.bgColor) ∧
  l.icc = s.iccData ∧ l.exif = s.exifData ∧ l.xmp = s.xmpData

theorem allPairs_map {α β : Type} (R : α → β → Prop) (g : α → β) :
    ∀ (l : List α), (∀ a ∈ l, R a (g a)) → AllPairs R l (l.map g) := by
  intro l
  induction l with
  | nil => intro _; trivial
  | cons a l ih =>
    intro h
    exact ⟨h a List.mem_cons_self, ih (fun b hb => h b (List.mem_cons_of_mem _ hb))⟩

theorem allPairs_dFrames (fs : List MuxFrame) : ∀ (k : Nat),
    (∀ f ∈ fs, 0 ≤ f.opts.offsetX ∧ 0 ≤ f.opts.offsetY ∧ 0 ≤ f.opts.duration) →
    AllPairs FrameAgrees fs (dFramesFrom k fs) := by
  induction fs with
  | nil => intro _ _; trivial
  | cons f fs ih =>
    intro k h
    refine ⟨?_, ih (k + 1) (fun g hg => h g (List.mem_cons_of_mem _ hg))⟩
    obtain ⟨hx, hy, hd⟩ := h f List.mem_cons_self
    have ex : Int.tdiv f.opts.offsetX 2 = f.opts.offsetX / 2 := Int.tdiv_eq_ediv_of_nonneg hx
    have ey : Int.tdiv f.opts.offsetY 2 = f.opts.offsetY / 2 := Int.tdiv_eq_ediv_of_nonneg hy
    refine ⟨rfl, rfl, rfl, ?_, ?_, ?_, rfl, rfl⟩
    · simp only [dFrameOf, ex]; omega
    · simp only [dFrameOf, ey]; omega
    · simp only [dFrameOf]; omega

/-- offsets and durations are non-negative in every accepted reachable state -/
theorem frames_nonneg {s : MuxState} (inv : Inv s) (af : AcceptedFacts s) :
    ∀ f ∈ s.frames, 0 ≤ f.opts.offsetX ∧ 0 ≤ f.opts.offsetY ∧ 0 ≤ f.opts.duration := by
  intro f hf
  have vf := validate_facts af.valid
  exact ⟨(vf.frames f hf).ox0, (vf.frames f hf).oy0, (inv.dur f hf).1⟩

theorem demuxAgrees_exp {s : MuxState} (inv : Inv s) (af : AcceptedFacts s) : DemuxAgrees s (expD s) := by
  have vf := validate_facts af.valid
  have hfr := allPairs_dFrames s.frames 0 (frames_nonneg inv af)
  cases hx : needsVP8X s with
  | true =>
    have h1 := vf.cw1; have h2 := vf.ch1; have h3 := inv.loop
    refine ⟨hfr, ?_, ?_, ?_, ?_, ?_, rfl, rfl, rfl, ?_, ?_, ?_⟩
    · simp only [expD, expDFeatures, hx, if_true]; omega
    · simp only [expD, expDFeatures, hx, if_true]; omega
    · simp only [expD, expDFeatures, hx, if_true]
    · intro ha; simp only [expD, ha, if_true]; exact ⟨by omega, trivial⟩
    · intro ha; simp [expD, ha]
    · simp only [expD, expDFeatures, hx, if_true]
    · simp only [expD, expDFeatures, hx, if_true]
    · simp only [expD, expDFeatures, hx, if_true]
  | false =>
    obtain ⟨f, st⟩ := simpleState af.valid hx
    have hc := af.canvas
    rw [hx] at hc
    simp only [Bool.false_eq_true, if_false] at hc
    have hcf := hc f (by rw [st.frames]; exact List.mem_cons_self)
    have e1 : (canvasSize s).1 = ((frameDimensions f.data).1 : Int) := by rw [hcf]; rfl
    have e2 : (canvasSize s).2 = ((frameDimensions f.data).2 : Int) := by rw [hcf]; rfl
    refine ⟨hfr, ?_, ?_, ?_, ?_, ?_, rfl, rfl, rfl, ?_, ?_, ?_⟩
    · simp only [expD, expDFeatures, hx, st.frames, Bool.false_eq_true, if_false]; omega
    · simp only [expD, expDFeatures, hx, st.frames, Bool.false_eq_true, if_false]; omega
    · simp [expD, expDFeatures, hx, st.frames, st.notAnim]
    · intro ha; rw [st.notAnim] at ha; cases ha
    · intro _; simp [expD, st.notAnim]
    · simp [expD, expDFeatures, hx, st.frames, st.icc]
    · simp [expD, expDFeatures, hx, st.frames, st.exif]
    · simp [expD, expDFeatures, hx, st.frames, st.xmp]

theorem allPairs_pFrames (fs : List MuxFrame) : ∀ (k : Nat),
    AllPairs PFrameAgrees (dFramesFrom k fs) (fs.map pFrameOf) := by
  induction fs with
  | nil => intro _; trivial
  | cons f fs ih =>
    intro k
    refine ⟨?_, ih (k + 1)⟩
    refine ⟨?_, ?_, rfl, rfl, rfl, rfl, rfl, rfl, rfl⟩
    · simp only [pFrameOf, dFrameOf]; omega
    · simp only [pFrameOf, dFrameOf]; omega

theorem cc_meta3 : ccICCP ≠ ccEXIF ∧ ccICCP ≠ ccXMP ∧ ccEXIF ≠ ccXMP := by
  rw [ccICCP_val, ccEXIF_val, ccXMP_val]; decide

theorem parserAgrees_exp {s : MuxState} (inv : Inv s) (af : AcceptedFacts s) : ParserAgrees (expD s) (expP s) := by
  obtain ⟨m1, m2, m3⟩ := cc_meta3
  have hfr := allPairs_pFrames s.frames 0
  cases hx : needsVP8X s with
  | true =>
    refine ⟨?_, ?_, ?_, hfr, ?_, ?_, ?_, ?_, ?_, ?_, ?_⟩
    · simp only [expD, expP, expDFeatures, expPFeatures, hx, if_true]
    · simp only [expD, expP, expDFeatures, expPFeatures, hx, if_true]
    · simp only [expD, expP, expDFeatures, expPFeatures, hx, if_true]
    · intro ha
      simp only [expD, expDFeatures, hx, if_true] at ha
      simp only [expD, expP, expPFeatures, hx, ha, if_true, and_self]
    · simp only [expD, expP, expPFeatures, hx, if_true]
    · simp only [expD, expP, expPFeatures, hx, if_true]
    · simp only [expD, expP, expPFeatures, hx, if_true]
    · simp only [pMeta, expP, expPChunks, expD]
      cases s.iccData <;> cases isAnimated s <;> cases s.exifData <;> cases s.xmpData <;>
        simp [optC, m1.symm, m2.symm]
    · intro ha
      simp only [expD, expDFeatures, hx, if_true] at ha
      simp only [pMeta, expP, expPChunks, expD, ha, if_true]
      cases s.iccData <;> cases s.exifData <;> cases s.xmpData <;>
        simp [optC, m1, m2, m3, m3.symm]
    · intro ha
      simp only [expD, expDFeatures, hx, if_true] at ha
      simp only [pMeta, expP, expPChunks, expD, ha, Bool.false_eq_true, if_false]
      cases s.iccData <;> simp [optC, m1, m2]
  | false =>
    obtain ⟨f, st⟩ := simpleState af.valid hx
    refine ⟨?_, ?_, ?_, hfr, ?_, ?_, ?_, ?_, ?_, ?_, ?_⟩
    · simp [expD, expP, expDFeatures, expPFeatures, hx, st.frames]
    · simp [expD, expP, expDFeatures, expPFeatures, hx, st.frames]
    · simp [expD, expP, expDFeatures, expPFeatures, hx, st.frames]
    · intro ha
      simp [expD, expDFeatures, hx, st.frames] at ha
    · simp [expD, expP, expPFeatures, hx, st.frames, st.icc]
    · simp [expD, expP, expPFeatures, hx, st.frames, st.exif]
    · simp [expD, expP, expPFeatures, hx, st.frames, st.xmp]
    · simp [pMeta, expP, expPChunks, expD, st.icc, st.notAnim, optC]
    · intro ha
      simp [expD, expDFeatures, hx, st.frames] at ha
    · intro _
      simp [pMeta, expP, expPChunks, expD, st.icc, st.notAnim, optC]

theorem allPairs_lFrames (fs : List MuxFrame)
    (h : ∀ f ∈ fs, 0 ≤ f.opts.offsetX ∧ 0 ≤ f.opts.offsetY ∧ 0 ≤ f.opts.duration) :
    AllPairs LFrameAgrees fs (fs.map lFrameOf) := by
  apply allPairs_map
  intro f hf
  obtain ⟨hx, hy, hd⟩ := h f hf
  have ex : Int.tdiv f.opts.offsetX 2 = f.opts.offsetX / 2 := Int.tdiv_eq_ediv_of_nonneg hx
  have ey : Int.tdiv f.opts.offsetY 2 = f.opts.offsetY / 2 := Int.tdiv_eq_ediv_of_nonneg hy
  refine ⟨rfl, rfl, rfl, ?_, ?_, ?_, rfl, rfl⟩
  · simp only [lFrameOf, ex]; omega
  · simp only [lFrameOf, ey]; omega
  · simp only [lFrameOf]; omega

theorem layoutAgrees_exp {s : MuxState} (inv : Inv s) (af : AcceptedFacts s) : LayoutAgrees s (expL s) := by
  have vf := validate_facts af.valid
  have hfr := allPairs_lFrames s.frames (frames_nonneg inv af)
  cases hx : needsVP8X s with
  | true =>
    have h1 := vf.cw1; have h2 := vf.ch1; have h3 := inv.loop
    refine ⟨by simp [expL, hx], hfr, ?_, ?_, rfl, ?_, rfl, rfl, rfl⟩
    · simp only [expL, hx, if_true]; omega
    · simp only [expL, hx, if_true]; omega
    · intro ha; simp only [expL, ha, if_true]; exact ⟨by omega, trivial⟩
  | false =>
    obtain ⟨f, st⟩ := simpleState af.valid hx
    have hc := af.canvas
    rw [hx] at hc
    simp only [Bool.false_eq_true, if_false] at hc
    have hcf := hc f (by rw [st.frames]; exact List.mem_cons_self)
    have e1 : (canvasSize s).1 = ((frameDimensions f.data).1 : Int) := by rw [hcf]; rfl
    have e2 : (canvasSize s).2 = ((frameDimensions f.data).2 : Int) := by rw [hcf]; rfl
    refine ⟨by simp [expL, hx], hfr, ?_, ?_, rfl, ?_, rfl, rfl, rfl⟩
    · simp only [expL, hx, st.frames, Bool.false_eq_true, if_false]; omega
    · simp only [expL, hx, st.frames, Bool.false_eq_true, if_false]; omega
    · intro ha; rw [st.notAnim] at ha; cases ha

/-- what C14 says about the bytes `b` assembled from state `s` -/
def RoundTrip (s : MuxState) (b : Bytes) : Prop :=
  Webp.Spec.Riff.wellFormed b = .ok (expL s) ∧ LayoutAgrees s (expL s) ∧
  Demux.parseWith true b = .ok (expD s) ∧ DemuxAgrees s (expD s) ∧
  Parser.parse b = .ok (expP s) ∧ ParserAgrees (expD s) (expP s)

theorem roundTrip_of_fits (s : MuxState) (inv : Inv s) (h : Accepted s) (hfit : Fits s) :
    ∃ b, assemble s = .ok b ∧ RoundTrip s b := by
  have af := accepted_facts h hfit
  refine ⟨Webp.Proofs.MuxRiffWrap.riffWrap (serAll (topChunks s)), assemble_eq s af.valid af.size, ?_,
    layoutAgrees_exp inv af, ?_, demuxAgrees_exp inv af, ?_, parserAgrees_exp inv af⟩
  · cases hx : needsVP8X s with
    | true => exact Webp.Proofs.MuxWalker.walker_ext s inv af hx
    | false =>
      obtain ⟨f, st⟩ := simpleState af.valid hx
      exact simple_walker st (af.framesOK f (by rw [st.frames]; exact List.mem_cons_self)) af.size
  · cases hx : needsVP8X s with
    | true => exact Webp.Proofs.MuxDemuxFinal.demux_ext s inv af hx
    | false =>
      obtain ⟨f, st⟩ := simpleState af.valid hx
      exact simple_demux st (af.framesOK f (by rw [st.frames]; exact List.mem_cons_self)) af.size
  · cases hx : needsVP8X s with
    | true => exact Webp.Proofs.MuxParserExt.parser_ext s inv af hx
    | false =>
      obtain ⟨f, st⟩ := simpleState af.valid hx
      exact simple_parser st (af.framesOK f (by rw [st.frames]; exact List.mem_cons_self)) af.size

end Webp.Proofs.MuxAgree
