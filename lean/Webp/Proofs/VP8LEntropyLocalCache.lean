import Webp.Impl.VP8LEntropy
import Webp.Proofs.VP8LEntropyLoop

/-!
# `BackwardRefsWithLocalCache` preserves the decoded pixels

The Go encoder computes backward references without colour cache and then rewrites them with
`BackwardRefsWithLocalCache(argb, cacheBits, refs)` (model: `refsWithLocalCache`).  This file proves
that the rewritten list, executed by the SPECIFICATION's token semantics (`execToken`), yields
the same pixels and the same final colour cache as the original list, provided the original list
yields the image `argb` that the rewrite is given (`localCache_preserves_pixels`); the proviso is
necessary (`wrongImage_counterexample`).
-/

namespace Webp.Proofs.VP8LEntropyLocalCache
open Webp.Impl.VP8LEntropy Webp.Proofs.VP8LEntropyCopy Webp.Proofs.VP8LEntropyLoop
open Webp.Go (Res)
open Webp.Spec.VP8L (Token Err execToken copyLoop cacheInsert cacheNew cacheHash)

/-! ## tokens of the specification -/

/-- a `PixOrCopy` BEFORE `BackwardReferences2DLocality` (`dist` = pixel distance) as a token of the
    specification -/
def toToken : PixOrCopy → Token
  | .literal a => .literal a
  | .cacheIdx idx => .cache idx
  | .copy len dist => .copy len dist

/-- the specification's execution of a token list: fold of `execToken`, first error wins -/
def execAll (npix cb : Nat) : List Token → (out cache : Array UInt32) → Res Err (Array UInt32 × Array UInt32)
  | [], out, cache => .ok (out, cache)
  | t :: ts, out, cache =>
    match execToken npix cb t out cache with
    | .ok (out, cache) => execAll npix cb ts out cache
    | .err e => .err e
    | .panic => .panic
    | .hang => .hang

theorem execAll_cons (npix cb : Nat) (t : Token) (ts : List Token) (out cache : Array UInt32) :
    execAll npix cb (t :: ts) out cache =
      match execToken npix cb t out cache with
      | .ok (out, cache) => execAll npix cb ts out cache
      | .err e => .err e
      | .panic => .panic
      | .hang => .hang := rfl

/-! ## the hash -/

theorem ccHash_eq_cacheHash (bits : Nat) (a : UInt32) : ccHash bits a = cacheHash bits a := by
  unfold ccHash cacheHash
  rw [UInt32.mul_comm]

/-- for EVERY `bits ≥ 1` the key is inside a table of `2^bits` entries (`bits ≥ 32`: the Nat
    subtraction `32 - bits` is 0 and the key is `< 2^32`).  False for `bits = 0`
    (`ccHash_zero_not_lt`): a shift by 32 is a shift by 0 in Lean (in Go it would give 0). -/
theorem ccHash_lt (bits : Nat) (hb : 1 ≤ bits) (a : UInt32) : ccHash bits a < 2 ^ bits := by
  unfold ccHash
  rw [UInt32.toNat_shiftRight]
  have hx : (a * 0x1e35a7bd).toNat < 2 ^ 32 := (a * 0x1e35a7bd).toNat_lt
  generalize (a * 0x1e35a7bd).toNat = x at hx
  have hs : (32 - bits).toUInt32.toNat % 32 = 32 - bits := by
    have : (32 - bits).toUInt32.toNat = 32 - bits := by
      show (32 - bits) % 2 ^ 32 = 32 - bits
      omega
    rw [this]; omega
  rw [hs, Nat.shiftRight_eq_div_pow]
  by_cases h32 : bits ≤ 32
  · rw [Nat.div_lt_iff_lt_mul (Nat.two_pow_pos _), ← Nat.pow_add, show bits + (32 - bits) = 32 by omega]
    exact hx
  · calc x / 2 ^ (32 - bits) ≤ x := Nat.div_le_self _ _
      _ < 2 ^ 32 := hx
      _ ≤ 2 ^ bits := Nat.pow_le_pow_right (by decide) (by omega)

theorem ccHash_zero_one : ccHash 0 1 = 0x1e35a7bd := by
  unfold ccHash
  rw [UInt32.toNat_shiftRight]
  rfl

theorem ccHash_zero_not_lt : ¬ ccHash 0 1 < 2 ^ 0 := by
  rw [ccHash_zero_one]; omega

theorem ccInsert_eq_cacheInsert (bits : Nat) (hb : bits ≠ 0) (colors : Array UInt32) (a : UInt32) :
    ccInsert bits colors a = cacheInsert bits colors a := by
  unfold ccInsert cacheInsert
  rw [if_neg hb, ccHash_eq_cacheHash]

theorem size_ccInsert (bits : Nat) (colors : Array UInt32) (a : UInt32) :
    (ccInsert bits colors a).size = colors.size := by
  unfold ccInsert; rw [Array.size_setIfInBounds]

theorem ccInsertRun_succ (bits : Nat) (argb : Array UInt32) (n i : Nat) (colors : Array UInt32) :
    ccInsertRun bits argb (n + 1) i colors =
      ccInsertRun bits argb n (i + 1) (ccInsert bits colors (argb.getD i 0)) := by
  -- NOT `rfl` / `rw [ccInsertRun]`: see the note on `ccHash` at the end of the file
  conv => lhs; unfold ccInsertRun

theorem size_ccInsertRun (bits : Nat) (argb : Array UInt32) (n i : Nat) (colors : Array UInt32) :
    (ccInsertRun bits argb n i colors).size = colors.size := by
  induction n generalizing i colors with
  | zero => rfl
  | succ n ih => rw [ccInsertRun_succ, ih, size_ccInsert]

/-- `ccInsertRun` is the decoder's deferred flush `flushCache` -/
theorem ccInsertRun_eq_flushCache (bits : Nat) (hb : bits ≠ 0) (argb : Array UInt32) (n i : Nat)
    (colors : Array UInt32) : ccInsertRun bits argb n i colors = flushCache bits argb n i colors := by
  induction n generalizing i colors with
  | zero => rfl
  | succ n ih => rw [ccInsertRun_succ, flushCache_succ, ih, ccInsert_eq_cacheInsert bits hb]

/-- the run reads `argb[i .. i+n)` only -/
theorem ccInsertRun_congr (bits : Nat) (d1 d2 : Array UInt32) (n i : Nat) (colors : Array UInt32)
    (h : ∀ j, i ≤ j → j < i + n → d1[j]? = d2[j]?) :
    ccInsertRun bits d1 n i colors = ccInsertRun bits d2 n i colors := by
  induction n generalizing i colors with
  | zero => rfl
  | succ n ih =>
    rw [ccInsertRun_succ, ccInsertRun_succ, Array.getD_eq_getD_getElem?, Array.getD_eq_getD_getElem?,
      h i (Nat.le_refl _) (by omega)]
    exact ih (i + 1) _ (fun j h1 h2 => h j (by omega) (by omega))

/-! ## unfolding `localCacheLoop` (one step) -/

/-- one iteration of the `for ri := range refs.refs` loop: the token written back and the cache -/
def lcStep (bits : Nat) (argb : Array UInt32) (v : PixOrCopy) (i : Nat) (colors : Array UInt32) :
    PixOrCopy × Array UInt32 :=
  match v with
  | .literal a =>
    if colors.getD (ccHash bits a) 0 = a then (.cacheIdx (ccHash bits a), colors)
    else (.literal a, ccInsert bits colors a)
  | v => (v, ccInsertRun bits argb v.length i colors)

theorem localCacheLoop_nil (bits : Nat) (argb : Array UInt32) (i : Nat) (colors : Array UInt32) :
    localCacheLoop bits argb [] i colors = [] := by
  unfold localCacheLoop; rfl

theorem localCacheLoop_cons (bits : Nat) (argb : Array UInt32) (v : PixOrCopy) (rest : List PixOrCopy) (i : Nat)
    (colors : Array UInt32) :
    localCacheLoop bits argb (v :: rest) i colors =
      (lcStep bits argb v i colors).1 ::
        localCacheLoop bits argb rest (i + v.length) (lcStep bits argb v i colors).2 := by
  cases v with
  | literal a =>
    conv => lhs; unfold localCacheLoop
    unfold lcStep
    simp only []
    by_cases h : colors.getD (ccHash bits a) 0 = a
    · rw [if_pos h, if_pos h]; rfl
    · rw [if_neg h, if_neg h]; rfl
  | cacheIdx k =>
    conv => lhs; unfold localCacheLoop
    rfl
  | copy l d =>
    conv => lhs; unfold localCacheLoop
    rfl

/-! ## the specification's tokens only push pixels -/

theorem size_cacheInsert (cb : Nat) (cache : Array UInt32) (a : UInt32) :
    (cacheInsert cb cache a).size = cache.size := by
  unfold cacheInsert
  by_cases h : cb = 0
  · rw [if_pos h]
  · rw [if_neg h, Array.size_setIfInBounds]

theorem copyLoop_succ (cb dist n : Nat) (out cache : Array UInt32) :
    copyLoop cb dist (n + 1) out cache =
      copyLoop cb dist n (out.push (out.getD (out.size - dist) 0))
        (cacheInsert cb cache (out.getD (out.size - dist) 0)) := rfl

/-- `copyLoop` appends `n` pixels, keeps the old ones, keeps the cache size, and inserts exactly
    the appended pixels in order (`ccInsertRun` over the RESULT) -/
theorem copyLoop_spec (cb dist n : Nat) (out cache : Array UInt32) :
    (copyLoop cb dist n out cache).1.size = out.size + n ∧
    (∀ j, j < out.size → (copyLoop cb dist n out cache).1[j]? = out[j]?) ∧
    (copyLoop cb dist n out cache).2.size = cache.size ∧
    (cb ≠ 0 → (copyLoop cb dist n out cache).2 =
      ccInsertRun cb (copyLoop cb dist n out cache).1 n out.size cache) := by
  induction n generalizing out cache with
  | zero => exact ⟨rfl, fun _ _ => rfl, rfl, fun _ => rfl⟩
  | succ n ih =>
    rw [copyLoop_succ]
    generalize out.getD (out.size - dist) 0 = px
    obtain ⟨h1, h2, h3, h4⟩ := ih (out.push px) (cacheInsert cb cache px)
    rw [Array.size_push] at h1 h2 h4
    refine ⟨by omega, ?_, ?_, ?_⟩
    · intro j hj
      rw [h2 j (by omega), Array.getElem?_push, if_neg (by omega)]
    · rw [h3, size_cacheInsert]
    · intro hcb
      have hpx : (copyLoop cb dist n (out.push px) (cacheInsert cb cache px)).1.getD out.size 0 = px := by
        rw [Array.getD_eq_getD_getElem?, h2 out.size (by omega), Array.getElem?_push, if_pos rfl]
        rfl
      rw [ccInsertRun_succ, hpx, ccInsert_eq_cacheInsert cb hcb]
      exact h4 hcb

theorem execToken_literal (npix cb : Nat) (a : UInt32) (out cache : Array UInt32) :
    execToken npix cb (.literal a) out cache = .ok (out.push a, cacheInsert cb cache a) := rfl

theorem execToken_copy (npix cb l d : Nat) (out cache : Array UInt32) :
    execToken npix cb (.copy l d) out cache =
      if out.size < d then .err .copyBeforeStart
      else if npix - out.size < l then .err .copyPastEnd
      else .ok (copyLoop cb d l out cache) := rfl

theorem execToken_cache (npix cb k : Nat) (out cache : Array UInt32) :
    execToken npix cb (.cache k) out cache =
      if h : k < cache.size then .ok (out.push cache[k], cacheInsert cb cache cache[k])
      else .err .cacheIndex := rfl

/-- a token keeps the pixels already there, adds at least none, and keeps the cache size -/
theorem execToken_prefix {npix cb : Nat} {t : Token} {out cache out' cache' : Array UInt32}
    (h : execToken npix cb t out cache = .ok (out', cache')) :
    out.size ≤ out'.size ∧ (∀ j, j < out.size → out'[j]? = out[j]?) ∧ cache'.size = cache.size := by
  cases t with
  | literal a =>
    rw [execToken_literal] at h
    injection h with h; injection h with h1 h2
    subst h1; subst h2
    refine ⟨by rw [Array.size_push]; omega, fun j hj => ?_, size_cacheInsert _ _ _⟩
    rw [Array.getElem?_push, if_neg (by omega)]
  | copy l d =>
    rw [execToken_copy] at h
    by_cases h1 : out.size < d
    · rw [if_pos h1] at h; exact absurd h (by intro h; cases h)
    · rw [if_neg h1] at h
      by_cases h2 : npix - out.size < l
      · rw [if_pos h2] at h; exact absurd h (by intro h; cases h)
      · rw [if_neg h2] at h
        injection h with h
        obtain ⟨s1, s2, s3, _⟩ := copyLoop_spec cb d l out cache
        rw [h] at s1 s2 s3
        have s1' : out'.size = out.size + l := s1
        exact ⟨by omega, s2, s3⟩
  | cache k =>
    rw [execToken_cache] at h
    by_cases hk : k < cache.size
    · rw [dif_pos hk] at h
      injection h with h; injection h with h1 h2
      subst h1; subst h2
      refine ⟨by rw [Array.size_push]; omega, fun j hj => ?_, size_cacheInsert _ _ _⟩
      rw [Array.getElem?_push, if_neg (by omega)]
    · rw [dif_neg hk] at h; exact absurd h (by intro h; cases h)

/-- inversion of a successful `execAll` on a non-empty list -/
theorem execAll_cons_ok {npix cb : Nat} {t : Token} {ts : List Token} {out cache res c : Array UInt32}
    (h : execAll npix cb (t :: ts) out cache = .ok (res, c)) :
    ∃ out1 cache1, execToken npix cb t out cache = .ok (out1, cache1) ∧
      execAll npix cb ts out1 cache1 = .ok (res, c) := by
  rw [execAll_cons] at h
  cases hx : execToken npix cb t out cache with
  | ok r => rw [hx] at h; exact ⟨r.1, r.2, rfl, h⟩
  | err e => rw [hx] at h; cases h
  | panic => rw [hx] at h; cases h
  | hang => rw [hx] at h; cases h

theorem execAll_prefix {npix cb : Nat} {ts : List Token} {out cache res c : Array UInt32}
    (h : execAll npix cb ts out cache = .ok (res, c)) :
    out.size ≤ res.size ∧ (∀ j, j < out.size → res[j]? = out[j]?) ∧ c.size = cache.size := by
  induction ts generalizing out cache with
  | nil =>
    injection h with h; injection h with h1 h2
    subst h1; subst h2
    exact ⟨Nat.le_refl _, fun _ _ => rfl, rfl⟩
  | cons t ts ih =>
    obtain ⟨out1, cache1, h1, h2⟩ := execAll_cons_ok h
    obtain ⟨a1, a2, a3⟩ := execToken_prefix h1
    obtain ⟨b1, b2, b3⟩ := ih h2
    exact ⟨by omega, fun j hj => by rw [b2 j (by omega), a2 j hj], by omega⟩

/-! ## the key step: the rewritten token does what the original token did -/

theorem size_cacheNew (cb : Nat) (hcb : cb ≠ 0) : (cacheNew cb).size = 2 ^ cb := by
  unfold cacheNew
  rw [if_neg hcb, Array.size_replicate, Nat.one_shiftLeft]

/-- re-inserting the colour that is already at its key does nothing -/
theorem cacheInsert_hit (cb : Nat) (hcb : cb ≠ 0) (cache : Array UInt32) (a : UInt32)
    (hit : cache.getD (ccHash cb a) 0 = a) : cacheInsert cb cache a = cache := by
  unfold cacheInsert
  rw [if_neg hcb, ← ccHash_eq_cacheHash]
  apply Array.ext_getElem?
  intro j
  rw [Array.getElem?_setIfInBounds]
  by_cases hj : ccHash cb a = j
  · rw [if_pos hj]
    by_cases hlt : ccHash cb a < cache.size
    · rw [if_pos hlt]
      rw [Array.getD_eq_getD_getElem?, hj] at hit
      rw [hj] at hlt
      rw [Array.getElem?_eq_getElem hlt] at hit ⊢
      exact congrArg some hit.symm
    · rw [if_neg hlt, Array.getElem?_eq_none (by omega)]
  · rw [if_neg hj]

/-- One iteration.  `out`/`cache` is the decoder's state, which is also the encoder's
    (`pixelIndex = out.size`, `colors = cache`).  If the ORIGINAL token executes to `(out', cache')`
    and the pixels it produced are those of `argb`, then the REWRITTEN token executes to the same
    state, and the encoder's new `colors` is the decoder's new cache. -/
theorem lcStep_exec (cb : Nat) (hcb : cb ≠ 0) (argb : Array UInt32) (npix : Nat) (v : PixOrCopy)
    (out cache out' cache' : Array UInt32) (hsz : cache.size = 2 ^ cb)
    (h : execToken npix cb (toToken v) out cache = .ok (out', cache'))
    (hpre : ∀ j, out.size ≤ j → j < out'.size → out'[j]? = argb[j]?) :
    execToken npix cb (toToken (lcStep cb argb v out.size cache).1) out cache = .ok (out', cache') ∧
    (lcStep cb argb v out.size cache).2 = cache' ∧ out'.size = out.size + v.length := by
  cases v with
  | literal a =>
    have h' : execToken npix cb (.literal a) out cache = .ok (out', cache') := h
    rw [execToken_literal] at h'
    injection h' with h'; injection h' with h1 h2
    unfold lcStep
    simp only []
    by_cases hit : cache.getD (ccHash cb a) 0 = a
    · rw [if_pos hit]
      have hk : ccHash cb a < cache.size := by rw [hsz]; exact ccHash_lt cb (by omega) a
      have hget : cache[ccHash cb a] = a := by
        rw [Array.getD_eq_getD_getElem?, Array.getElem?_eq_getElem hk] at hit
        exact hit
      refine ⟨?_, ?_, ?_⟩
      · show execToken npix cb (.cache (ccHash cb a)) out cache = _
        rw [execToken_cache, dif_pos hk, hget, h1, h2]
      · show cache = cache'
        rw [← h2, cacheInsert_hit cb hcb cache a hit]
      · rw [← h1, Array.size_push]; rfl
    · rw [if_neg hit]
      refine ⟨?_, ?_, ?_⟩
      · show execToken npix cb (.literal a) out cache = _
        rw [execToken_literal, h1, h2]
      · show ccInsert cb cache a = cache'
        rw [← h2, ccInsert_eq_cacheInsert cb hcb]
      · rw [← h1, Array.size_push]; rfl
  | cacheIdx k =>
    have h' : execToken npix cb (.cache k) out cache = .ok (out', cache') := h
    rw [execToken_cache] at h'
    by_cases hk : k < cache.size
    · rw [dif_pos hk] at h'
      injection h' with h'; injection h' with h1 h2
      have hsz' : out'.size = out.size + 1 := by rw [← h1, Array.size_push]
      have hpx : argb.getD out.size 0 = cache[k] := by
        have := hpre out.size (Nat.le_refl _) (by omega)
        rw [Array.getD_eq_getD_getElem?, ← this, ← h1, Array.getElem?_push, if_pos rfl]
        rfl
      refine ⟨h, ?_, hsz'⟩
      show ccInsertRun cb argb 1 out.size cache = cache'
      rw [ccInsertRun_succ, hpx, ccInsert_eq_cacheInsert cb hcb, h2]
      rfl
    · rw [dif_neg hk] at h'; cases h'
  | copy l d =>
    have h' : execToken npix cb (.copy l d) out cache = .ok (out', cache') := h
    rw [execToken_copy] at h'
    by_cases h1 : out.size < d
    · rw [if_pos h1] at h'; cases h'
    · rw [if_neg h1] at h'
      by_cases h2 : npix - out.size < l
      · rw [if_pos h2] at h'; cases h'
      · rw [if_neg h2] at h'
        injection h' with h'
        obtain ⟨s1, _, _, s4⟩ := copyLoop_spec cb d l out cache
        rw [h'] at s1 s4
        have s1' : out'.size = out.size + l := s1
        have s4' : cache' = ccInsertRun cb out' l out.size cache := s4 hcb
        refine ⟨h, ?_, s1'⟩
        show ccInsertRun cb argb l out.size cache = cache'
        rw [s4']
        exact (ccInsertRun_congr cb out' argb l out.size cache
          (fun j hj1 hj2 => hpre j hj1 (by omega))).symm

/-! ## the main induction -/

/-- generalised over the state: `out`/`cache` is any decoder state with a full-size cache,
    the encoder is at `pixelIndex = out.size` with `colors = cache`, and the pixels the original
    list produces FROM HERE ON are those of `argb` -/
theorem localCacheLoop_exec (cb : Nat) (hcb : cb ≠ 0) (argb : Array UInt32) (npix : Nat) (refs : List PixOrCopy)
    (out cache res c : Array UInt32) (hsz : cache.size = 2 ^ cb)
    (h : execAll npix cb (refs.map toToken) out cache = .ok (res, c))
    (hres : ∀ j, out.size ≤ j → j < res.size → res[j]? = argb[j]?) :
    execAll npix cb ((localCacheLoop cb argb refs out.size cache).map toToken) out cache = .ok (res, c) := by
  induction refs generalizing out cache with
  | nil => rw [localCacheLoop_nil]; exact h
  | cons v rest ih =>
    rw [List.map_cons] at h
    obtain ⟨out1, cache1, h1, h2⟩ := execAll_cons_ok h
    obtain ⟨p1, p2, _⟩ := execAll_prefix h2
    obtain ⟨_, _, q3⟩ := execToken_prefix h1
    obtain ⟨e1, e2, e3⟩ := lcStep_exec cb hcb argb npix v out cache out1 cache1 hsz h1
      (fun j hj1 hj2 => by rw [← p2 j hj2]; exact hres j hj1 (by omega))
    rw [localCacheLoop_cons, List.map_cons, execAll_cons, e1, e2, ← e3]
    exact ih out1 cache1 (by omega) h2 (fun j hj1 hj2 => hres j (by omega) hj2)

/-! ## MAIN THEOREM -/

theorem refsWithLocalCache_zero (argb : Array UInt32) (refs : List PixOrCopy) :
    refsWithLocalCache argb 0 refs = refs := by
  unfold refsWithLocalCache; rw [if_pos rfl]

theorem refsWithLocalCache_pos (argb : Array UInt32) (cb : Nat) (hcb : cb ≠ 0) (refs : List PixOrCopy) :
    refsWithLocalCache argb cb refs = localCacheLoop cb argb refs (#[] : Array UInt32).size (cacheNew cb) := by
  unfold refsWithLocalCache cacheNew; rw [if_neg hcb, if_neg hcb]; rfl

/-- General form: the original list may produce any PREFIX `res` of the image `argb` given to
    the rewrite (Go passes the whole `argb`), with any pixel budget `npix`. -/
theorem localCache_preserves_prefix (cb : Nat) (argb : Array UInt32) (refs : List PixOrCopy) (npix : Nat)
    (res c : Array UInt32) (hres : ∀ j, j < res.size → res[j]? = argb[j]?)
    (h : execAll npix cb (refs.map toToken) #[] (cacheNew cb) = .ok (res, c)) :
    execAll npix cb ((refsWithLocalCache argb cb refs).map toToken) #[] (cacheNew cb) = .ok (res, c) := by
  by_cases hcb : cb = 0
  · subst hcb; rw [refsWithLocalCache_zero]; exact h
  · rw [refsWithLocalCache_pos argb cb hcb]
    exact localCacheLoop_exec cb hcb argb npix refs #[] (cacheNew cb) res c (size_cacheNew cb hcb) h
      (fun j _ hj => hres j hj)

/-- **`BackwardRefsWithLocalCache` preserves the decoded pixels.**  For EVERY `cb` (0: identity;
    1..11 are the legal sizes; larger ones work too), every pixel budget `npix` (in particular
    `npix = argb.size`) and every list `refs` (literals, copies and even cache indices): if the
    specification executes the original list from the empty state to exactly the image `argb`, it
    executes the rewritten list to the same pixels `argb` and the same final cache `c`. -/
theorem localCache_preserves_pixels (cb : Nat) (argb : Array UInt32) (refs : List PixOrCopy) (npix : Nat)
    (c : Array UInt32)
    (h : execAll npix cb (refs.map toToken) #[] (cacheNew cb) = .ok (argb, c)) :
    execAll npix cb ((refsWithLocalCache argb cb refs).map toToken) #[] (cacheNew cb) = .ok (argb, c) :=
  localCache_preserves_prefix cb argb refs npix argb c (fun _ _ => rfl) h

/-! ## structural facts -/

/-- what the rewrite may do to one token: nothing, or literal ↦ its cache key -/
def Rewrites (cb : Nat) (v v' : PixOrCopy) : Prop :=
  v' = v ∨ ∃ a, v = .literal a ∧ v' = .cacheIdx (ccHash cb a)

theorem lcStep_rewrites (cb : Nat) (argb : Array UInt32) (v : PixOrCopy) (i : Nat) (colors : Array UInt32) :
    Rewrites cb v (lcStep cb argb v i colors).1 := by
  cases v with
  | literal a =>
    unfold lcStep
    simp only []
    by_cases h : colors.getD (ccHash cb a) 0 = a
    · rw [if_pos h]; exact .inr ⟨a, rfl, rfl⟩
    · rw [if_neg h]; exact .inl rfl
  | cacheIdx k => exact .inl rfl
  | copy l d => exact .inl rfl

theorem Rewrites.length_eq {cb : Nat} {v v' : PixOrCopy} (h : Rewrites cb v v') : v'.length = v.length := by
  rcases h with h | ⟨a, h1, h2⟩
  · rw [h]
  · rw [h1, h2]; rfl

theorem localCacheLoop_length (cb : Nat) (argb : Array UInt32) (refs : List PixOrCopy) (i : Nat)
    (colors : Array UInt32) : (localCacheLoop cb argb refs i colors).length = refs.length := by
  induction refs generalizing i colors with
  | nil => rw [localCacheLoop_nil]
  | cons v rest ih => rw [localCacheLoop_cons, List.length_cons, List.length_cons, ih]

theorem localCacheLoop_getElem? (cb : Nat) (argb : Array UInt32) (refs : List PixOrCopy) (i : Nat)
    (colors : Array UInt32) (k : Nat) (v : PixOrCopy) (hv : refs[k]? = some v) :
    ∃ v', (localCacheLoop cb argb refs i colors)[k]? = some v' ∧ Rewrites cb v v' := by
  induction refs generalizing i colors k with
  | nil => rw [List.getElem?_nil] at hv; cases hv
  | cons v0 rest ih =>
    rw [localCacheLoop_cons]
    cases k with
    | zero =>
      rw [List.getElem?_cons_zero] at hv
      injection hv with hv
      subst hv
      exact ⟨_, List.getElem?_cons_zero, lcStep_rewrites cb argb v0 i colors⟩
    | succ k =>
      rw [List.getElem?_cons_succ] at hv ⊢
      exact ih _ _ k hv

theorem localCacheLoop_pixels (cb : Nat) (argb : Array UInt32) (refs : List PixOrCopy) (i : Nat)
    (colors : Array UInt32) :
    ((localCacheLoop cb argb refs i colors).map PixOrCopy.length).sum = (refs.map PixOrCopy.length).sum := by
  induction refs generalizing i colors with
  | nil => rw [localCacheLoop_nil]
  | cons v rest ih =>
    rw [localCacheLoop_cons, List.map_cons, List.map_cons, List.sum_cons, List.sum_cons, ih,
      (lcStep_rewrites cb argb v i colors).length_eq]

/-- the rewritten list has the same number of tokens -/
theorem refsWithLocalCache_length (argb : Array UInt32) (cb : Nat) (refs : List PixOrCopy) :
    (refsWithLocalCache argb cb refs).length = refs.length := by
  by_cases hcb : cb = 0
  · subst hcb; rw [refsWithLocalCache_zero]
  · rw [refsWithLocalCache_pos argb cb hcb, localCacheLoop_length]

/-- token by token: unchanged, or a literal replaced by its cache key -/
theorem refsWithLocalCache_getElem? (argb : Array UInt32) (cb : Nat) (refs : List PixOrCopy) (k : Nat)
    (v : PixOrCopy) (hv : refs[k]? = some v) :
    ∃ v', (refsWithLocalCache argb cb refs)[k]? = some v' ∧ Rewrites cb v v' := by
  by_cases hcb : cb = 0
  · subst hcb; rw [refsWithLocalCache_zero]; exact ⟨v, hv, .inl rfl⟩
  · rw [refsWithLocalCache_pos argb cb hcb]; exact localCacheLoop_getElem? cb argb refs _ _ k v hv

/-- copies are unchanged, and no copy is created -/
theorem refsWithLocalCache_copy_iff (argb : Array UInt32) (cb : Nat) (refs : List PixOrCopy) (k l d : Nat) :
    (refsWithLocalCache argb cb refs)[k]? = some (.copy l d) ↔ refs[k]? = some (.copy l d) := by
  constructor
  · intro h
    have hk : k < refs.length := by
      rw [← refsWithLocalCache_length argb cb refs]
      exact (List.getElem?_eq_some_iff.mp h).1
    obtain ⟨v', h1, h2⟩ := refsWithLocalCache_getElem? argb cb refs k refs[k] (List.getElem?_eq_getElem hk)
    rw [h] at h1
    injection h1 with h1
    subst h1
    rw [List.getElem?_eq_getElem hk]
    rcases h2 with h2 | ⟨a, _, h2⟩
    · rw [← h2]
    · cases h2
  · intro h
    obtain ⟨v', h1, h2⟩ := refsWithLocalCache_getElem? argb cb refs k _ h
    rcases h2 with h2 | ⟨a, h2, _⟩
    · rw [h1, h2]
    · cases h2

/-- literals are kept or become cache indices; a literal in the result was that literal -/
theorem refsWithLocalCache_literal (argb : Array UInt32) (cb : Nat) (refs : List PixOrCopy) (k : Nat) (a : UInt32)
    (h : (refsWithLocalCache argb cb refs)[k]? = some (.literal a)) : refs[k]? = some (.literal a) := by
  have hk : k < refs.length := by
    rw [← refsWithLocalCache_length argb cb refs]
    exact (List.getElem?_eq_some_iff.mp h).1
  obtain ⟨v', h1, h2⟩ := refsWithLocalCache_getElem? argb cb refs k refs[k] (List.getElem?_eq_getElem hk)
  rw [h] at h1
  injection h1 with h1
  subst h1
  rw [List.getElem?_eq_getElem hk]
  rcases h2 with h2 | ⟨a, _, h2⟩
  · rw [← h2]
  · cases h2

/-- every cache index the rewrite creates is inside the table of `2^cb` entries (the input of
    the Go function has no cache indices; one that is there is passed through unchanged) -/
theorem refsWithLocalCache_cacheIdx_lt (argb : Array UInt32) (cb : Nat) (refs : List PixOrCopy)
    (hno : ∀ k, PixOrCopy.cacheIdx k ∉ refs) (idx : Nat)
    (h : PixOrCopy.cacheIdx idx ∈ refsWithLocalCache argb cb refs) : idx < 2 ^ cb := by
  obtain ⟨k, hk⟩ := List.mem_iff_getElem?.mp h
  have hk' : k < refs.length := by
    rw [← refsWithLocalCache_length argb cb refs]
    exact (List.getElem?_eq_some_iff.mp hk).1
  obtain ⟨v', h1, h2⟩ := refsWithLocalCache_getElem? argb cb refs k refs[k] (List.getElem?_eq_getElem hk')
  rw [hk] at h1
  injection h1 with h1
  subst h1
  rcases h2 with h2 | ⟨a, _, h2⟩
  · exact absurd (h2 ▸ List.getElem_mem hk') (hno idx)
  · injection h2 with h2
    rw [h2]
    by_cases hcb : cb = 0
    · subst hcb
      rw [refsWithLocalCache_zero] at h
      exact absurd h (hno idx)
    · exact ccHash_lt cb (by omega) a

/-- the total number of pixels is unchanged -/
theorem refsWithLocalCache_pixels (argb : Array UInt32) (cb : Nat) (refs : List PixOrCopy) :
    ((refsWithLocalCache argb cb refs).map PixOrCopy.length).sum = (refs.map PixOrCopy.length).sum := by
  by_cases hcb : cb = 0
  · subst hcb; rw [refsWithLocalCache_zero]
  · rw [refsWithLocalCache_pos argb cb hcb, localCacheLoop_pixels]

/-! ## the same for the specification's pixel loop over a token list (`refLoop listSource`)

`refLoop` stops as soon as `npix` pixels are there and reports the unread tokens; "the list is
consumed exactly" is the remainder `[]`. -/

theorem refLoop_list_nil (g : Nat → Nat) (npix cb fuel : Nat) (out cache : Array UInt32) :
    refLoop listSource g npix cb (fuel + 1) out cache [] =
      if out.size ≥ npix then .ok (out, []) else .err .eos := rfl

theorem refLoop_list_cons (g : Nat → Nat) (npix cb fuel : Nat) (out cache : Array UInt32) (t : Token)
    (ts : List Token) :
    refLoop listSource g npix cb (fuel + 1) out cache (t :: ts) =
      if out.size ≥ npix then .ok (out, t :: ts)
      else
        match execToken npix cb t out cache with
        | .ok (out, cache) => refLoop listSource g npix cb fuel out cache ts
        | .err e => .err e
        | .panic => .panic
        | .hang => .hang := rfl

theorem refLoop_list_cons_ok {g : Nat → Nat} {npix cb fuel : Nat} {out cache : Array UInt32} {t : Token}
    {ts rem : List Token} {res : Array UInt32} (hlt : ¬ out.size ≥ npix)
    (h : refLoop listSource g npix cb (fuel + 1) out cache (t :: ts) = .ok (res, rem)) :
    ∃ out1 cache1, execToken npix cb t out cache = .ok (out1, cache1) ∧
      refLoop listSource g npix cb fuel out1 cache1 ts = .ok (res, rem) := by
  rw [refLoop_list_cons, if_neg hlt] at h
  cases hx : execToken npix cb t out cache with
  | ok r => rw [hx] at h; exact ⟨r.1, r.2, rfl, h⟩
  | err e => rw [hx] at h; cases h
  | panic => rw [hx] at h; cases h
  | hang => rw [hx] at h; cases h

theorem refLoop_list_prefix {g : Nat → Nat} {npix cb fuel : Nat} {out cache : Array UInt32}
    {ts rem : List Token} {res : Array UInt32}
    (h : refLoop listSource g npix cb fuel out cache ts = .ok (res, rem)) :
    out.size ≤ res.size ∧ (∀ j, j < out.size → res[j]? = out[j]?) := by
  induction fuel generalizing out cache ts with
  | zero => cases h
  | succ fuel ih =>
    by_cases hlt : out.size ≥ npix
    · cases ts with
      | nil =>
        rw [refLoop_list_nil, if_pos hlt] at h
        injection h with h; injection h with h1 _
        subst h1; exact ⟨Nat.le_refl _, fun _ _ => rfl⟩
      | cons t ts =>
        rw [refLoop_list_cons, if_pos hlt] at h
        injection h with h; injection h with h1 _
        subst h1; exact ⟨Nat.le_refl _, fun _ _ => rfl⟩
    · cases ts with
      | nil => rw [refLoop_list_nil, if_neg hlt] at h; cases h
      | cons t ts =>
        obtain ⟨out1, cache1, h1, h2⟩ := refLoop_list_cons_ok hlt h
        obtain ⟨a1, a2, _⟩ := execToken_prefix h1
        obtain ⟨b1, b2⟩ := ih h2
        exact ⟨by omega, fun j hj => by rw [b2 j (by omega), a2 j hj]⟩

theorem localCacheLoop_refLoop (cb : Nat) (hcb : cb ≠ 0) (argb : Array UInt32) (g : Nat → Nat) (npix fuel : Nat)
    (refs : List PixOrCopy) (out cache res : Array UInt32) (hsz : cache.size = 2 ^ cb)
    (h : refLoop listSource g npix cb fuel out cache (refs.map toToken) = .ok (res, []))
    (hres : ∀ j, out.size ≤ j → j < res.size → res[j]? = argb[j]?) :
    refLoop listSource g npix cb fuel out cache ((localCacheLoop cb argb refs out.size cache).map toToken) =
      .ok (res, []) := by
  induction fuel generalizing refs out cache with
  | zero => cases h
  | succ fuel ih =>
    cases refs with
    | nil => rw [localCacheLoop_nil]; exact h
    | cons v rest =>
      rw [List.map_cons] at h
      by_cases hlt : out.size ≥ npix
      · rw [refLoop_list_cons, if_pos hlt] at h
        injection h with h; injection h with _ h2
        cases h2
      · obtain ⟨out1, cache1, h1, h2⟩ := refLoop_list_cons_ok hlt h
        obtain ⟨p1, p2⟩ := refLoop_list_prefix h2
        obtain ⟨_, _, q3⟩ := execToken_prefix h1
        obtain ⟨e1, e2, e3⟩ := lcStep_exec cb hcb argb npix v out cache out1 cache1 hsz h1
          (fun j hj1 hj2 => by rw [← p2 j hj2]; exact hres j hj1 (by omega))
        rw [localCacheLoop_cons, List.map_cons, refLoop_list_cons, if_neg hlt, e1, e2, ← e3]
        exact ih rest out1 cache1 (by omega) h2 (fun j hj1 hj2 => hres j (by omega) hj2)

/-- **the rewrite preserves the image under the specification's pixel loop**: if the loop consumes
    the original tokens exactly and yields `argb`, it consumes the rewritten tokens exactly and
    yields `argb` -/
theorem localCache_preserves_refDecode (g : Nat → Nat) (width height cb : Nat) (argb : Array UInt32)
    (refs : List PixOrCopy)
    (h : refDecode listSource g width height cb (refs.map toToken) = .ok (argb, [])) :
    refDecode listSource g width height cb ((refsWithLocalCache argb cb refs).map toToken) = .ok (argb, []) := by
  unfold refDecode at h ⊢
  by_cases hcb : cb = 0
  · subst hcb; rw [refsWithLocalCache_zero]; exact h
  · rw [refsWithLocalCache_pos argb cb hcb]
    exact localCacheLoop_refLoop cb hcb argb g (width * height) (width * height + 1) refs #[] (cacheNew cb) argb
      (size_cacheNew cb hcb) h (fun _ _ _ => rfl)

/-! ## the hypothesis "the original list decodes to `argb`" is necessary

`refs = [literal 5, copy 1 1, literal 7]` decodes to `#[5, 5, 7]`.  Rewritten against the WRONG image
`#[5, 7, 7]` (same size), the encoder's simulated cache receives `argb[1] = 7` for the copied pixel,
the literal 7 becomes a cache index, and the decoder — whose cache received the pixel really copied,
5 — produces `#[5, 5, 5]`.  (Go: `BackwardRefsWithLocalCache` trusts its `argb` argument; it reads
`argb[pixelIndex]` only for copies, so a mismatch confined to literal positions is harmless.) -/

def wrongRefs : List PixOrCopy := [.literal 5, .copy 1 1, .literal 7]

theorem wrongImage_counterexample :
    execAll 3 1 (wrongRefs.map toToken) #[] (cacheNew 1) = .ok (#[5, 5, 7], #[0, 7]) ∧
    refsWithLocalCache #[5, 7, 7] 1 wrongRefs = [.literal 5, .copy 1 1, .cacheIdx 1] ∧
    execAll 3 1 ((refsWithLocalCache #[5, 7, 7] 1 wrongRefs).map toToken) #[] (cacheNew 1) =
      .ok (#[5, 5, 5], #[0, 5]) := by
  decide

/-! ## non-vacuity

8 pixels, `cb = 2` (keys: 3,4 ↦ 1; 5 ↦ 2).  `literal 4` evicts 3; the overlapping copy (length 3 >
distance 2) produces 3,4,3 and re-inserts them, so the next `literal 3` is a hit ONLY because of the
copied pixels; the second `literal 5` is a plain hit. -/

def exArgb : Array UInt32 := #[3, 4, 3, 4, 3, 3, 5, 5]
def exRefs : List PixOrCopy := [.literal 3, .literal 4, .copy 3 2, .literal 3, .literal 5, .literal 5]

theorem ex_hyp : execAll exArgb.size 2 (exRefs.map toToken) #[] (cacheNew 2) = .ok (exArgb, #[0, 3, 5, 0]) := by
  decide

theorem ex_rewritten : refsWithLocalCache exArgb 2 exRefs =
    [.literal 3, .literal 4, .copy 3 2, .cacheIdx 1, .literal 5, .cacheIdx 2] := by
  decide

example : execAll exArgb.size 2 ((refsWithLocalCache exArgb 2 exRefs).map toToken) #[] (cacheNew 2) =
    .ok (exArgb, #[0, 3, 5, 0]) :=
  localCache_preserves_pixels 2 exArgb exRefs exArgb.size _ ex_hyp

example : refDecode listSource (fun _ => 0) 4 2 2 ((refsWithLocalCache exArgb 2 exRefs).map toToken) =
    .ok (exArgb, []) :=
  localCache_preserves_refDecode (fun _ => 0) 4 2 2 exArgb exRefs (by decide)

example : ∀ idx, PixOrCopy.cacheIdx idx ∈ refsWithLocalCache exArgb 2 exRefs → idx < 2 ^ 2 :=
  refsWithLocalCache_cacheIdx_lt exArgb 2 exRefs (by intro k h; simp [exRefs] at h)

/-- a cache index already in the input (never the case in Go) is passed through, the encoder inserts
    `argb[pixelIndex]` for it (`v.Length() = 1`, the copy branch) — and the theorem still applies -/
example : refsWithLocalCache #[3, 3, 3] 2 [.literal 3, .cacheIdx 1, .literal 3] =
      [.literal 3, .cacheIdx 1, .cacheIdx 1] ∧
    execAll 3 2 ((refsWithLocalCache #[3, 3, 3] 2 [.literal 3, .cacheIdx 1, .literal 3]).map toToken) #[]
      (cacheNew 2) = .ok (#[3, 3, 3], #[0, 3, 0, 0]) :=
  ⟨by decide, localCache_preserves_pixels 2 #[3, 3, 3] [.literal 3, .cacheIdx 1, .literal 3] 3 _ (by decide)⟩

/-! ## notes

* `ccHash bits a = (a * 0x1e35a7bd) >>> (32 - bits)` has the variable on the LEFT of the
  multiplication.  A definitional unfolding that reaches `Nat.mul x 506832829` with `x` not a
  literal recurses on the literal: `theorem ccInsertRun_succ … := rfl` fails with
  "(kernel) deep recursion detected" after minutes, and `rw [ccInsertRun]` (generation of the
  equation lemma `ccInsertRun.eq_2`) does not terminate in reasonable time.  Hence the
  `conv => lhs; unfold …` proofs above.  The specification's `cacheHash` (`0x1e35a7bd * a`) does not
  have the problem.  On literals (`decide` above) both are fine.
* `ccHash 0 a` is the whole product (shift by `32 % 32 = 0`), Go's `>> 32` would give 0; irrelevant:
  `refsWithLocalCache _ 0 = id` as in Go (`cacheBits <= 0` returns).
-/

end Webp.Proofs.VP8LEntropyLocalCache
