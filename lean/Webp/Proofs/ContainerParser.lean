import Webp.Proofs.ContainerBasic
/-
  Reformulation of the loops of `Impl.Parser` (model of internal/container/parser.go) as
  "decision function + driver", with equality theorems, and the per-function facts used by
  the C05 / C16 / C17 property theorems.
-/
namespace Webp.Impl.Parser
open Webp.Go
set_option maxHeartbeats 200000
set_option linter.unusedTactic false

/-- closed form of `chunkAt` -/
theorem chunkAt_cases (buf : Bytes) :
    (∃ e, chunkAt buf = .err e) ∨
    (8 + (le32 buf 4 + le32 buf 4 % 2) ≤ buf.length ∧
      chunkAt buf = .ok (le32 buf 0, le32 buf 4, 8 + (le32 buf 4 + le32 buf 4 % 2),
        (buf.take (8 + le32 buf 4)).drop 8)) := by
  unfold chunkAt readChunkHeader chunkHeaderSize
  generalize maxChunkPayload = M
  generalize le32 buf 4 = ps
  generalize le32 buf 0 = fc
  by_cases h1 : buf.length < 8
  · rw [if_pos h1]; exact .inl ⟨_, rfl⟩
  · rw [if_neg h1]
    by_cases h2 : ps > M
    · rw [if_pos h2]; exact .inl ⟨_, rfl⟩
    · rw [if_neg h2, Res.bind_ok]
      dsimp only
      by_cases h3 : 8 + (ps + ps % 2) > buf.length
      · rw [if_pos h3]; exact .inl ⟨_, rfl⟩
      · rw [if_neg h3, slice_ok _ _ _ (by omega) (by omega)]
        exact .inr ⟨by omega, rfl⟩

theorem chunkAt_safe (buf : Bytes) : (chunkAt buf).Safe := by
  rcases chunkAt_cases buf with ⟨e, h⟩ | ⟨_, h⟩ <;> rw [h] <;> trivial

theorem chunkAt_ok {buf : Bytes} {fc ps ct : Nat} {pl : Bytes}
    (h : chunkAt buf = .ok (fc, ps, ct, pl)) :
    fc = le32 buf 0 ∧ ps = le32 buf 4 ∧ ct = 8 + (ps + ps % 2) ∧ ct ≤ buf.length ∧
      pl = (buf.take (8 + ps)).drop 8 := by
  rcases chunkAt_cases buf with ⟨e, h'⟩ | ⟨hle, h'⟩
  · rw [h'] at h; cases h
  · rw [h'] at h
    injection h with h
    injection h with h1 h
    injection h with h2 h
    injection h with h3 h4
    subst h1 h2 h3 h4
    exact ⟨rfl, rfl, rfl, hle, rfl⟩

/-! ### `parseVP8XChunks` as decision + driver -/

/-- what one iteration of the `parseVP8XChunks` loop decides for a complete chunk
    `(fc, ps, pl)`: `ok none` = hand over to `parseExtSingleImage`;
    `ok (some (st', ac'))` = continue behind the chunk with the new state. -/
def vp8xDecide (st : State) (ac fc ps : Nat) (pl : Bytes) : R (Option (State × Nat)) :=
  if fc = ccVP8X then .err .invalidChunk
  else if fc = ccANIM then
    if !st.features.hasAnim then .ok (some (st, ac))
    else if ps < animChunkSize then .err .invalidChunk
    else .ok (some ({ st with features := { st.features with
                        bgColor := le32 pl 0, loopCount := le16 pl 4 } }, ac + 1))
  else if fc = ccANMF then
    if ac = 0 then .err .invalidChunk
    else if st.frames.length ≥ maxFrames then .err .invalidChunk
    else
      match parseANMF pl with
      | .ok frame => .ok (some ({ st with frames := st.frames ++ [frame] }, ac))
      | .err e => .err e
      | .panic => .panic
      | .hang => .hang
  else if fc = ccVP8 ∨ fc = ccVP8L ∨ fc = ccALPH then
    if ac > 0 ∨ st.features.hasAnim then .err .invalidChunk else .ok none
  else if fc = ccICCP ∨ fc = ccEXIF ∨ fc = ccXMP then
    if (if fc = ccICCP then st.features.hasICCP
        else if fc = ccEXIF then st.features.hasEXIF else st.features.hasXMP) then
      if ps > maxMetadataSize then .err .invalidChunk
      else .ok (some ({ st with chunks := st.chunks ++ [⟨fc, pl⟩] }, ac))
    else .ok (some (st, ac))
  else
    if st.chunks.length ≥ maxChunks then .err .invalidChunk
    else if ps > maxMetadataSize then .err .invalidChunk
    else .ok (some ({ st with chunks := st.chunks ++ [⟨fc, pl⟩] }, ac))

theorem Res.bind_ok' {ε α β : Type} (a : α) (f : α → Res ε β) : Res.bind (.ok a) f = f a := rfl
theorem Res.bind_err' {ε α β : Type} (e : ε) (f : α → Res ε β) :
    Res.bind (.err e : Res ε α) f = .err e := rfl

/-- continuation of one loop iteration after `vp8xDecide` -/
def vp8xCont (fuel : Nat) (st : State) (buf : Bytes) (rest : R Bytes) :
    Option (State × Nat) → R State
  | none => parseExtSingleImage (buf.length + 1) st {} none buf
  | some (st', ac') => Res.bind rest (parseVP8XChunks fuel st' ac')

def vp8xChunkCont (fuel : Nat) (st : State) (ac : Nat) (buf : Bytes) :
    Nat × Nat × Nat × Bytes → R State
  | (fc, ps, ct, pl) => Res.bind (vp8xDecide st ac fc ps pl) (vp8xCont fuel st buf (sliceFrom buf ct))

theorem vp8xChunkCont_eq (fuel : Nat) (st : State) (ac : Nat) (buf : Bytes) (fc ps ct : Nat)
    (pl : Bytes) : vp8xChunkCont fuel st ac buf (fc, ps, ct, pl) =
      Res.bind (vp8xDecide st ac fc ps pl) (vp8xCont fuel st buf (sliceFrom buf ct)) := rfl

/-- the loop driver in terms of `vp8xDecide` -/
def vp8xStep (fuel : Nat) (st : State) (ac : Nat) (buf : Bytes) : R State :=
  if buf.length < 8 then .ok st
  else Res.bind (chunkAt buf) (vp8xChunkCont fuel st ac buf)

theorem parseVP8XChunks_zero (st : State) (ac : Nat) (buf : Bytes) :
    parseVP8XChunks 0 st ac buf = .hang := by
  rw [parseVP8XChunks]

theorem parseVP8XChunks_succ (fuel : Nat) (st : State) (ac : Nat) (buf : Bytes) :
    parseVP8XChunks (fuel + 1) st ac buf = vp8xStep fuel st ac buf := by
  rw [parseVP8XChunks]
  unfold vp8xStep chunkHeaderSize
  by_cases h1 : buf.length < 8
  · rw [if_pos h1, if_pos h1]
  · rw [if_neg h1, if_neg h1]
    cases hc : chunkAt buf with
    | err e => rfl
    | panic => rfl
    | hang => rfl
    | ok v =>
      obtain ⟨fc, ps, ct, pl⟩ := v
      rw [Res.bind_ok, Res.bind_ok', vp8xChunkCont_eq]
      dsimp only
      unfold vp8xDecide
      generalize maxMetadataSize = MM
      by_cases c1 : fc = ccVP8X
      · rewrite [if_pos c1, if_pos c1]; rfl
      · rewrite [if_neg c1, if_neg c1]
        by_cases c2 : fc = ccANIM
        · rewrite [if_pos c2, if_pos c2]
          by_cases c2a : (!st.features.hasAnim) = true
          · rewrite [if_pos c2a, if_pos c2a]; cases (sliceFrom buf ct : R Bytes) <;> rfl
          · rewrite [if_neg c2a, if_neg c2a]
            split_ifs <;> first | rfl | (cases (sliceFrom buf ct : R Bytes) <;> rfl)
        · rewrite [if_neg c2, if_neg c2]
          split_ifs <;> first | rfl | (cases (sliceFrom buf ct : R Bytes) <;> rfl) | (cases parseANMF pl <;> cases (sliceFrom buf ct : R Bytes) <;> rfl)

/-! ### bitstream header readers -/

theorem parseVP8Header_cases (data : Bytes) :
    (∃ e, parseVP8Header data = .err e) ∨
    (parseVP8Header data = .ok (le16 data 6 % 16384, le16 data 8 % 16384) ∧
      le16 data 6 % 16384 ≠ 0 ∧ le16 data 8 % 16384 ≠ 0 ∧ 10 ≤ data.length) := by
  unfold parseVP8Header
  by_cases h1 : data.length < 10
  · rw [if_pos h1]; exact .inl ⟨_, rfl⟩
  · rw [if_neg h1]
    by_cases h2 : byteAt data 0 % 2 ≠ 0
    · rw [if_pos h2]; exact .inl ⟨_, rfl⟩
    · rw [if_neg h2]
      generalize byteAt data 3 * 65536 + byteAt data 4 * 256 + byteAt data 5 = sig
      by_cases h3 : sig ≠ 0x9d012a
      · rw [if_pos h3]; exact .inl ⟨_, rfl⟩
      · rw [if_neg h3]
        dsimp only
        by_cases h4 : le16 data 6 % 16384 = 0 ∨ le16 data 8 % 16384 = 0
        · rw [if_pos h4]; exact .inl ⟨_, rfl⟩
        · rw [if_neg h4]
          exact .inr ⟨rfl, fun h => h4 (.inl h), fun h => h4 (.inr h), by omega⟩

theorem parseVP8Header_safe (data : Bytes) : (parseVP8Header data).Safe := by
  rcases parseVP8Header_cases data with ⟨e, h⟩ | ⟨h, _⟩ <;> rw [h] <;> trivial

theorem parseVP8Header_ok {data : Bytes} {w h : Nat} (hh : parseVP8Header data = .ok (w, h)) :
    w = le16 data 6 % 16384 ∧ h = le16 data 8 % 16384 ∧ 1 ≤ w ∧ 1 ≤ h ∧ w < 16384 ∧ h < 16384 ∧
      10 ≤ data.length := by
  rcases parseVP8Header_cases data with ⟨e, h'⟩ | ⟨h', hw, hh', hl⟩
  · rw [h'] at hh; cases hh
  · rw [h'] at hh
    injection hh with hh
    injection hh with h1 h2
    subst h1 h2
    refine ⟨rfl, rfl, by omega, by omega, Nat.mod_lt _ (by omega), Nat.mod_lt _ (by omega), hl⟩

theorem parseVP8LHeader_cases (data : Bytes) :
    (∃ e, parseVP8LHeader data = .err e) ∨
    (parseVP8LHeader data = .ok (le32 data 1 % 16384 + 1, le32 data 1 / 16384 % 16384 + 1,
        decide (le32 data 1 / 268435456 % 2 ≠ 0)) ∧ 5 ≤ data.length ∧ byteAt data 0 = 0x2f) := by
  unfold parseVP8LHeader
  by_cases h1 : data.length < 5
  · rw [if_pos h1]; exact .inl ⟨_, rfl⟩
  · rw [if_neg h1]
    by_cases h2 : byteAt data 0 ≠ 0x2f
    · rw [if_pos h2]; exact .inl ⟨_, rfl⟩
    · rw [if_neg h2]
      dsimp only
      generalize le32 data 1 = bits
      by_cases h3 : bits / 536870912 % 8 ≠ 0
      · rw [if_pos h3]; exact .inl ⟨_, rfl⟩
      · rw [if_neg h3]
        exact .inr ⟨rfl, by omega, by omega⟩

theorem parseVP8LHeader_safe (data : Bytes) : (parseVP8LHeader data).Safe := by
  rcases parseVP8LHeader_cases data with ⟨e, h⟩ | ⟨h, _⟩ <;> rw [h] <;> trivial

theorem parseVP8LHeader_ok {data : Bytes} {w h : Nat} {a : Bool}
    (hh : parseVP8LHeader data = .ok (w, h, a)) :
    w = le32 data 1 % 16384 + 1 ∧ h = le32 data 1 / 16384 % 16384 + 1 ∧
      a = decide (le32 data 1 / 268435456 % 2 ≠ 0) ∧
      1 ≤ w ∧ 1 ≤ h ∧ w ≤ 16384 ∧ h ≤ 16384 ∧ 5 ≤ data.length ∧ byteAt data 0 = 0x2f := by
  rcases parseVP8LHeader_cases data with ⟨e, h'⟩ | ⟨h', hl, hb⟩
  · rw [h'] at hh; cases hh
  · rw [h'] at hh
    injection hh with hh
    injection hh with h1 hh
    injection hh with h2 h3
    subst h1 h2 h3
    have := Nat.mod_lt (le32 data 1) (show 0 < 16384 by omega)
    have := Nat.mod_lt (le32 data 1 / 16384) (show 0 < 16384 by omega)
    refine ⟨rfl, rfl, rfl, by omega, by omega, by omega, by omega, hl, hb⟩

/-! ### `parseExtSingleImage` as decision + driver -/

/-- what `parseExtSingleImage` does with a complete non-ALPH chunk -/
def extFinish (st : State) (frame : FrameInfo) (alph : Option Bytes) (fc : Nat) (pl : Bytes) :
    R State :=
  if fc = ccVP8L then
    if alph.isSome then .err .invalidChunk
    else
      match parseVP8LHeader pl with
      | .ok (w, h, alpha) =>
        let frame' : FrameInfo :=
          { frame with width := w, height := h, isLossless := true,
                       hasAlpha := frame.hasAlpha || alpha, payload := some pl }
        .ok { st with
          features := { st.features with hasAlpha := st.features.hasAlpha || alpha,
                                         width := w, height := h }
          frames := st.frames ++ [frame'] }
      | .err e => .err e
      | .panic => .panic
      | .hang => .hang
  else if fc = ccVP8 then
    match parseVP8Header pl with
    | .ok (w, h) =>
      let frame' : FrameInfo :=
        { frame with width := w, height := h, isLossless := false,
                     payload := some pl, alphaData := alph }
      .ok { st with
        features := { st.features with width := w, height := h }
        frames := st.frames ++ [frame'] }
    | .err e => .err e
    | .panic => .panic
    | .hang => .hang
  else .err .invalidChunk

def extChunkCont (fuel : Nat) (st : State) (frame : FrameInfo) (alph : Option Bytes)
    (buf : Bytes) : Nat × Nat × Nat × Bytes → R State
  | (fc, _, ct, pl) =>
    if fc = ccALPH then
      Res.bind (sliceFrom buf ct)
        (parseExtSingleImage fuel { st with features := { st.features with hasAlpha := true } }
          { frame with hasAlpha := true } (some pl))
    else extFinish st frame alph fc pl

theorem extChunkCont_eq (fuel : Nat) (st : State) (frame : FrameInfo) (alph : Option Bytes)
    (buf : Bytes) (fc ps ct : Nat) (pl : Bytes) :
    extChunkCont fuel st frame alph buf (fc, ps, ct, pl) =
      if fc = ccALPH then
        Res.bind (sliceFrom buf ct)
          (parseExtSingleImage fuel { st with features := { st.features with hasAlpha := true } }
            { frame with hasAlpha := true } (some pl))
      else extFinish st frame alph fc pl := rfl

def extStep (fuel : Nat) (st : State) (frame : FrameInfo) (alph : Option Bytes) (buf : Bytes) :
    R State :=
  if buf.length < 8 then .err .invalidChunk
  else Res.bind (chunkAt buf) (extChunkCont fuel st frame alph buf)

theorem parseExtSingleImage_zero (st : State) (fr : FrameInfo) (al : Option Bytes) (buf : Bytes) :
    parseExtSingleImage 0 st fr al buf = .hang := by
  rw [parseExtSingleImage]

theorem parseExtSingleImage_succ (fuel : Nat) (st : State) (fr : FrameInfo) (al : Option Bytes)
    (buf : Bytes) : parseExtSingleImage (fuel + 1) st fr al buf = extStep fuel st fr al buf := by
  rw [parseExtSingleImage]
  unfold extStep chunkHeaderSize
  by_cases h1 : buf.length < 8
  · rw [if_pos h1, if_pos h1]
  · rw [if_neg h1, if_neg h1]
    cases hc : chunkAt buf with
    | err e => rfl
    | panic => rfl
    | hang => rfl
    | ok v =>
      obtain ⟨fc, ps, ct, pl⟩ := v
      rw [Res.bind_ok, Res.bind_ok', extChunkCont_eq]
      dsimp only
      unfold extFinish
      split_ifs <;> first
        | rfl
        | (cases (sliceFrom buf ct : R Bytes) <;> rfl)
        | (cases parseVP8LHeader pl with
            | ok v => obtain ⟨w, h, a⟩ := v; rfl
            | err e => rfl
            | panic => rfl
            | hang => rfl)
        | (cases parseVP8Header pl with
            | ok v => obtain ⟨w, h⟩ := v; rfl
            | err e => rfl
            | panic => rfl
            | hang => rfl)

/-! ### `parseFrameSubChunks` as decision + driver -/

def subFinish (frame : FrameInfo) (alph : Option Bytes) (fc : Nat) (pl : Bytes) : R FrameInfo :=
  if fc = ccVP8L then
    if alph.isSome then .err .invalidChunk
    else
      match parseVP8LHeader pl with
      | .ok (_, _, alpha) =>
        .ok { frame with isLossless := true, hasAlpha := frame.hasAlpha || alpha,
                         payload := some pl }
      | .err e => .err e
      | .panic => .panic
      | .hang => .hang
  else if fc = ccVP8 then
    .ok { frame with isLossless := false, payload := some pl, alphaData := alph }
  else (if alph.isSome then .err .invalidChunk else .ok frame)

def subChunkCont (fuel : Nat) (frame : FrameInfo) (alph : Option Bytes) (buf : Bytes) :
    Nat × Nat × Nat × Bytes → R FrameInfo
  | (fc, _, ct, pl) =>
    if fc = ccALPH then
      Res.bind (sliceFrom buf ct)
        (parseFrameSubChunks fuel { frame with hasAlpha := true } (some pl))
    else subFinish frame alph fc pl

theorem subChunkCont_eq (fuel : Nat) (frame : FrameInfo) (alph : Option Bytes) (buf : Bytes)
    (fc ps ct : Nat) (pl : Bytes) :
    subChunkCont fuel frame alph buf (fc, ps, ct, pl) =
      if fc = ccALPH then
        Res.bind (sliceFrom buf ct)
          (parseFrameSubChunks fuel { frame with hasAlpha := true } (some pl))
      else subFinish frame alph fc pl := rfl

def subStep (fuel : Nat) (frame : FrameInfo) (alph : Option Bytes) (buf : Bytes) : R FrameInfo :=
  if buf.length < 8 then (if alph.isSome then .err .invalidChunk else .ok frame)
  else Res.bind (chunkAt buf) (subChunkCont fuel frame alph buf)

theorem parseFrameSubChunks_zero (fr : FrameInfo) (al : Option Bytes) (buf : Bytes) :
    parseFrameSubChunks 0 fr al buf = .hang := by
  rw [parseFrameSubChunks]

theorem parseFrameSubChunks_succ (fuel : Nat) (fr : FrameInfo) (al : Option Bytes)
    (buf : Bytes) : parseFrameSubChunks (fuel + 1) fr al buf = subStep fuel fr al buf := by
  rw [parseFrameSubChunks]
  unfold subStep chunkHeaderSize
  by_cases h1 : buf.length < 8
  · rw [if_pos h1, if_pos h1]
  · rw [if_neg h1, if_neg h1]
    cases hc : chunkAt buf with
    | err e => rfl
    | panic => rfl
    | hang => rfl
    | ok v =>
      obtain ⟨fc, ps, ct, pl⟩ := v
      rw [Res.bind_ok, Res.bind_ok', subChunkCont_eq]
      dsimp only
      unfold subFinish
      split_ifs <;> first
        | rfl
        | (cases (sliceFrom buf ct : R Bytes) <;> rfl)
        | (cases parseVP8LHeader pl with
            | ok v => obtain ⟨w, h, a⟩ := v; rfl
            | err e => rfl
            | panic => rfl
            | hang => rfl)

/-! ### `parseSingleImage`, `parseANMF`, `parseVP8X`, `parse` in closed form -/

def simpleFinish (st : State) (fc : Nat) (pl : Bytes) : R State :=
  if fc = ccVP8L then
    match parseVP8LHeader pl with
    | .ok (w, h, alpha) =>
      let frame : FrameInfo := { payload := some pl, isLossless := true,
                                 width := w, height := h, hasAlpha := alpha }
      .ok { st with
        features := { st.features with hasAlpha := alpha, width := w, height := h,
                                       canvasWidth := w, canvasHeight := h }
        frames := st.frames ++ [frame] }
    | .err e => .err e
    | .panic => .panic
    | .hang => .hang
  else
    match parseVP8Header pl with
    | .ok (w, h) =>
      let frame : FrameInfo := { payload := some pl, isLossless := false,
                                 width := w, height := h }
      .ok { st with
        features := { st.features with width := w, height := h,
                                       canvasWidth := w, canvasHeight := h }
        frames := st.frames ++ [frame] }
    | .err e => .err e
    | .panic => .panic
    | .hang => .hang

theorem parseSingleImage_eq (st : State) (buf : Bytes) :
    parseSingleImage st buf =
      match chunkAt buf with
      | .ok (fc, _, _, pl) => simpleFinish st fc pl
      | .err e => .err e
      | .panic => .panic
      | .hang => .hang := by
  unfold parseSingleImage chunkAt
  cases hc : readChunkHeader buf with
  | err e => rfl
  | panic => rfl
  | hang => rfl
  | ok v =>
    obtain ⟨fc, ps⟩ := v
    rw [Res.bind_ok, Res.bind_ok]
    dsimp only
    by_cases h1 : chunkHeaderSize + (ps + ps % 2) > buf.length
    · rw [if_pos h1, if_pos h1]
    · rw [if_neg h1, if_neg h1]
      cases hs : (slice buf chunkHeaderSize (chunkHeaderSize + ps) : R Bytes) with
      | err e => rfl
      | panic => rfl
      | hang => rfl
      | ok pl =>
        rw [Res.bind_ok, Res.bind_ok]
        unfold simpleFinish
        dsimp only [Res.pure_eq]
        split_ifs <;> first
          | (cases parseVP8LHeader pl with
              | ok v => obtain ⟨w, h, a⟩ := v; rfl
              | err e => rfl
              | panic => rfl
              | hang => rfl)
          | (cases parseVP8Header pl with
              | ok v => obtain ⟨w, h⟩ := v; rfl
              | err e => rfl
              | panic => rfl
              | hang => rfl)

/-- the ANMF header fields as a frame record -/
def anmfFrame (payload : Bytes) : FrameInfo :=
  { xOffset := 2 * le24 payload 0, yOffset := 2 * le24 payload 3,
    width := 1 + le24 payload 6, height := 1 + le24 payload 9,
    duration := le24 payload 12,
    disposeBG := byteAt payload 15 % 2 ≠ 0, blendNone := byteAt payload 15 / 2 % 2 ≠ 0 }

theorem parseANMF_cases (payload : Bytes) :
    (∃ e, parseANMF payload = .err e) ∨
    (16 ≤ payload.length ∧
      (1 + le24 payload 6) * (1 + le24 payload 9) < maxImageArea ∧
      parseANMF payload =
        parseFrameSubChunks ((payload.drop 16).length + 1) (anmfFrame payload) none
          (payload.drop 16)) := by
  unfold parseANMF anmfChunkSize
  by_cases h1 : payload.length < 16
  · rw [if_pos h1]; exact .inl ⟨_, rfl⟩
  · rw [if_neg h1]
    dsimp only
    by_cases h2 : (1 + le24 payload 6) * (1 + le24 payload 9) ≥ maxImageArea
    · rw [if_pos h2]; exact .inl ⟨_, rfl⟩
    · rw [if_neg h2, sliceFrom_ok _ _ (by omega), Res.bind_ok]
      exact .inr ⟨by omega, by omega, rfl⟩

/-- the `Features` record `parseVP8X` builds from the 10-byte VP8X payload -/
def vp8xFeatures (payload : Bytes) : Features :=
  let flags := (payload.getD 0 0).toNat
  { format := .vp8x
    hasAnim := flags / 2 % 2 ≠ 0, hasXMP := flags / 4 % 2 ≠ 0, hasEXIF := flags / 8 % 2 ≠ 0,
    hasAlpha := flags / 16 % 2 ≠ 0, hasICCP := flags / 32 % 2 ≠ 0,
    canvasWidth := 1 + le24 ((payload.take 7).drop 4) 0,
    canvasHeight := 1 + le24 ((payload.take 10).drop 7) 0,
    width := 1 + le24 ((payload.take 7).drop 4) 0,
    height := 1 + le24 ((payload.take 10).drop 7) 0,
    loopCount := 0, bgColor := 0xFFFFFFFF }

theorem readChunkHeader_cases (buf : Bytes) :
    (∃ e, readChunkHeader buf = .err e) ∨
    (8 ≤ buf.length ∧ readChunkHeader buf = .ok (le32 buf 0, le32 buf 4)) := by
  unfold readChunkHeader chunkHeaderSize
  generalize maxChunkPayload = M
  by_cases h1 : buf.length < 8
  · rw [if_pos h1]; exact .inl ⟨_, rfl⟩
  · rw [if_neg h1]
    dsimp only
    by_cases h2 : le32 buf 4 > M
    · rw [if_pos h2]; exact .inl ⟨_, rfl⟩
    · rw [if_neg h2]; exact .inr ⟨by omega, rfl⟩

theorem parseVP8X_cases (buf : Bytes) :
    (∃ e, parseVP8X buf = .err e) ∨
    (18 ≤ buf.length ∧
      (vp8xFeatures ((buf.take 18).drop 8)).canvasWidth *
        (vp8xFeatures ((buf.take 18).drop 8)).canvasHeight < maxImageArea ∧
      parseVP8X buf =
        parseVP8XChunks ((buf.drop 18).length + 1)
          { features := vp8xFeatures ((buf.take 18).drop 8) } 0 (buf.drop 18)) := by
  unfold parseVP8X
  rcases readChunkHeader_cases buf with ⟨e, hc⟩ | ⟨_, hc⟩
  · rw [hc]; exact .inl ⟨e, rfl⟩
  · rw [hc, Res.bind_ok]
    dsimp only
    generalize le32 buf 4 = ps
    unfold vp8xChunkSize chunkHeaderSize
    by_cases h1 : ps ≠ 10
    · rw [if_pos h1]; exact .inl ⟨_, rfl⟩
    · rw [if_neg h1]
      have hps : ps = 10 := by omega
      subst hps
      by_cases h2 : 8 + (10 + 10 % 2) > buf.length
      · rw [if_pos h2]; exact .inl ⟨_, rfl⟩
      · rw [if_neg h2]
        have hlen : 18 ≤ buf.length := by omega
        rw [slice_ok _ _ _ (by omega) (by omega), Res.bind_ok]
        have hpl : ((buf.take (8 + 10)).drop 8).length = 10 := by
          rw [List.length_drop, List.length_take]; omega
        have hpe : (buf.take 18).drop 8 = (buf.take (8 + 10)).drop 8 := rfl
        rw [hpe]
        generalize (buf.take (8 + 10)).drop 8 = pl at hpl
        rw [idx_ok _ _ (by omega), Res.bind_ok]
        by_cases h3 : (pl.getD 0 0).toNat / 64 ≠ 0 ∨ (pl.getD 0 0).toNat % 2 ≠ 0
        · rw [if_pos h3]; exact .inl ⟨_, rfl⟩
        · rw [if_neg h3, slice_ok _ _ _ (by omega) (by omega), Res.bind_ok,
            slice_ok _ _ _ (by omega) (by omega), Res.bind_ok]
          by_cases h4 : (1 + le24 ((pl.take 7).drop 4) 0) * (1 + le24 ((pl.take 10).drop 7) 0)
              ≥ maxImageArea
          · rw [if_pos h4]; exact .inl ⟨_, rfl⟩
          · rw [if_neg h4, sliceFrom_ok _ _ (by omega), Res.bind_ok]
            refine .inr ⟨hlen, ?_, rfl⟩
            show (1 + le24 ((pl.take 7).drop 4) 0) * (1 + le24 ((pl.take 10).drop 7) 0) < _
            omega

/-- the window of the file the parser looks at: `data[12 : min(riffSize+8, len)]` -/
def riffBuf (data : Bytes) : Bytes :=
  (data.take (if le32 data 4 + 8 > data.length then data.length else le32 data 4 + 8)).drop 12

/-- format dispatch on the first FourCC -/
def dispatch (buf : Bytes) : R State :=
  if le32 buf 0 = ccVP8X then parseVP8X buf
  else if le32 buf 0 = ccVP8 then parseSingleImage { features := { format := .vp8 } } buf
  else if le32 buf 0 = ccVP8L then parseSingleImage { features := { format := .vp8l } } buf
  else .err .unsupported

theorem parse_cases (data : Bytes) :
    (∃ e, parse data = .err e) ∨
    (12 ≤ data.length ∧ le32 data 0 = ccRIFF ∧ le32 data 8 = ccWEBP ∧ 8 ≤ le32 data 4 ∧
      8 ≤ (riffBuf data).length ∧ parse data = dispatch (riffBuf data)) := by
  generalize hr : parse data = r
  unfold parse parseRIFFHeader riffHeaderSize chunkHeaderSize at hr
  generalize maxChunkPayload = M at hr
  by_cases h1 : data.length < 12
  · rw [if_pos h1] at hr; exact .inl ⟨_, hr.symm⟩
  · rw [if_neg h1] at hr
    by_cases h2 : le32 data 0 ≠ ccRIFF
    · rw [if_pos h2] at hr; exact .inl ⟨_, hr.symm⟩
    · rw [if_neg h2] at hr
      dsimp only at hr
      by_cases h3 : le32 data 4 < 8
      · rw [if_pos h3] at hr; exact .inl ⟨_, hr.symm⟩
      · rw [if_neg h3] at hr
        by_cases h4 : le32 data 4 > M
        · rw [if_pos h4] at hr; exact .inl ⟨_, hr.symm⟩
        · rw [if_neg h4] at hr
          by_cases h5 : le32 data 8 ≠ ccWEBP
          · rw [if_pos h5] at hr; exact .inl ⟨_, hr.symm⟩
          · rw [if_neg h5, Res.bind_ok] at hr
            have hle : 12 ≤ (if le32 data 4 + 8 > data.length then data.length
                else le32 data 4 + 8) ∧ (if le32 data 4 + 8 > data.length then data.length
                else le32 data 4 + 8) ≤ data.length := by
              split_ifs <;> omega
            rw [slice_ok _ _ _ hle.1 hle.2, Res.bind_ok] at hr
            change (if (riffBuf data).length < 8 then _ else dispatch (riffBuf data)) = r at hr
            by_cases h6 : (riffBuf data).length < 8
            · rw [if_pos h6] at hr; exact .inl ⟨_, hr.symm⟩
            · rw [if_neg h6] at hr
              exact .inr ⟨by omega, by omega, by omega, by omega, by omega, hr.symm⟩

/-! ### step lemmas (one loop iteration, by outcome) -/

theorem vp8xStep_short {fuel : Nat} {st : State} {ac : Nat} {buf : Bytes}
    (h8 : buf.length < 8) : vp8xStep fuel st ac buf = .ok st := by
  unfold vp8xStep; rw [if_pos h8]

theorem vp8xStep_chunkErr {fuel : Nat} {st : State} {ac : Nat} {buf : Bytes} {e : Err}
    (h8 : ¬ buf.length < 8) (h : chunkAt buf = .err e) : vp8xStep fuel st ac buf = .err e := by
  unfold vp8xStep; rw [if_neg h8, h]; rfl

theorem vp8xStep_chunk {fuel : Nat} {st : State} {ac : Nat} {buf : Bytes} {fc ps ct : Nat}
    {pl : Bytes} (h8 : ¬ buf.length < 8) (h : chunkAt buf = .ok (fc, ps, ct, pl)) :
    vp8xStep fuel st ac buf = Res.bind (vp8xDecide st ac fc ps pl) (vp8xCont fuel st buf (sliceFrom buf ct)) := by
  unfold vp8xStep; rw [if_neg h8, h]; rfl

theorem vp8xStep_err {fuel : Nat} {st : State} {ac : Nat} {buf : Bytes} {fc ps ct : Nat}
    {pl : Bytes} {e : Err}
    (h8 : ¬ buf.length < 8) (h : chunkAt buf = .ok (fc, ps, ct, pl))
    (hd : vp8xDecide st ac fc ps pl = .err e) : vp8xStep fuel st ac buf = .err e := by
  rw [vp8xStep_chunk h8 h, hd]; rfl

theorem vp8xStep_ext {fuel : Nat} {st : State} {ac : Nat} {buf : Bytes} {fc ps ct : Nat}
    {pl : Bytes}
    (h8 : ¬ buf.length < 8) (h : chunkAt buf = .ok (fc, ps, ct, pl))
    (hd : vp8xDecide st ac fc ps pl = .ok none) :
    vp8xStep fuel st ac buf = parseExtSingleImage (buf.length + 1) st {} none buf := by
  rw [vp8xStep_chunk h8 h, hd]; rfl

theorem vp8xStep_next {fuel : Nat} {st : State} {ac : Nat} {buf : Bytes} {fc ps ct : Nat}
    {pl : Bytes} {st' : State} {ac' : Nat}
    (h8 : ¬ buf.length < 8) (h : chunkAt buf = .ok (fc, ps, ct, pl))
    (hd : vp8xDecide st ac fc ps pl = .ok (some (st', ac'))) (hct : ct ≤ buf.length) :
    vp8xStep fuel st ac buf = parseVP8XChunks fuel st' ac' (buf.drop ct) := by
  rw [vp8xStep_chunk h8 h, hd, Res.bind_ok', sliceFrom_ok _ _ hct]; rfl

theorem extStep_short {fuel : Nat} {st : State} {fr : FrameInfo} {al : Option Bytes} {buf : Bytes}
    (h8 : buf.length < 8) : extStep fuel st fr al buf = .err .invalidChunk := by
  unfold extStep; rw [if_pos h8]

theorem extStep_chunkErr {fuel : Nat} {st : State} {fr : FrameInfo} {al : Option Bytes}
    {buf : Bytes} {e : Err}
    (h8 : ¬ buf.length < 8) (h : chunkAt buf = .err e) : extStep fuel st fr al buf = .err e := by
  unfold extStep; rw [if_neg h8, h]; rfl

theorem extStep_alph {fuel : Nat} {st : State} {fr : FrameInfo} {al : Option Bytes}
    {buf : Bytes} {fc ps ct : Nat} {pl : Bytes}
    (h8 : ¬ buf.length < 8) (h : chunkAt buf = .ok (fc, ps, ct, pl)) (hfc : fc = ccALPH)
    (hct : ct ≤ buf.length) :
    extStep fuel st fr al buf =
      parseExtSingleImage fuel { st with features := { st.features with hasAlpha := true } }
        { fr with hasAlpha := true } (some pl) (buf.drop ct) := by
  unfold extStep; rw [if_neg h8, h, Res.bind_ok', extChunkCont_eq]
  rw [if_pos hfc, sliceFrom_ok _ _ hct]; rfl

theorem extStep_fin {fuel : Nat} {st : State} {fr : FrameInfo} {al : Option Bytes}
    {buf : Bytes} {fc ps ct : Nat} {pl : Bytes}
    (h8 : ¬ buf.length < 8) (h : chunkAt buf = .ok (fc, ps, ct, pl)) (hfc : ¬ fc = ccALPH) :
    extStep fuel st fr al buf = extFinish st fr al fc pl := by
  unfold extStep; rw [if_neg h8, h, Res.bind_ok', extChunkCont_eq]
  rw [if_neg hfc]

theorem subStep_short {fuel : Nat} {fr : FrameInfo} {al : Option Bytes} {buf : Bytes}
    (h8 : buf.length < 8) :
    subStep fuel fr al buf = (if al.isSome then .err .invalidChunk else .ok fr) := by
  unfold subStep; rw [if_pos h8]

theorem subStep_chunkErr {fuel : Nat} {fr : FrameInfo} {al : Option Bytes}
    {buf : Bytes} {e : Err}
    (h8 : ¬ buf.length < 8) (h : chunkAt buf = .err e) : subStep fuel fr al buf = .err e := by
  unfold subStep; rw [if_neg h8, h]; rfl

theorem subStep_alph {fuel : Nat} {fr : FrameInfo} {al : Option Bytes}
    {buf : Bytes} {fc ps ct : Nat} {pl : Bytes}
    (h8 : ¬ buf.length < 8) (h : chunkAt buf = .ok (fc, ps, ct, pl)) (hfc : fc = ccALPH)
    (hct : ct ≤ buf.length) :
    subStep fuel fr al buf =
      parseFrameSubChunks fuel { fr with hasAlpha := true } (some pl) (buf.drop ct) := by
  unfold subStep; rw [if_neg h8, h, Res.bind_ok', subChunkCont_eq]
  rw [if_pos hfc, sliceFrom_ok _ _ hct]; rfl

theorem subStep_fin {fuel : Nat} {fr : FrameInfo} {al : Option Bytes}
    {buf : Bytes} {fc ps ct : Nat} {pl : Bytes}
    (h8 : ¬ buf.length < 8) (h : chunkAt buf = .ok (fc, ps, ct, pl)) (hfc : ¬ fc = ccALPH) :
    subStep fuel fr al buf = subFinish fr al fc pl := by
  unfold subStep; rw [if_neg h8, h, Res.bind_ok', subChunkCont_eq]
  rw [if_neg hfc]

end Webp.Impl.Parser
