import Webp.Proofs.C04RefineResid7
/-
  C04 refinement, residuals, part 8: one row of blocks — Go's `decYRow` / `decUVRow` (packed word `tnz`, flag `l`) against
  the specification's `yRow` / `uvRow` (array stores of `rStep`), generic in block type, first position, factors, insert
  position of the word and block numbering.
-/
namespace Webp.Proofs.C04RefineResid
open Webp.Spec.VP8
open Webp.Impl.VP8SyntaxBytes (P runR rd)
open Webp.Impl.VP8SyntaxBytes.T (YSt)
open Webp.Impl.VP8Recon (Slot Coeffs nzCodeBits QuantMatrix)
open Webp.Proofs.C04RefineOps Webp.Proofs.C04RefineTokens
open Webp.Proofs.C04RefineModes (getD_setN)

/-- `decYRow` / `decUVRow`, generic -/
def gRow (t first : Nat) (dq0 dq1 : Int) (p : Nat) (blk : Nat → Nat) : List Nat → YSt → P YSt
  | [], st => pure st
  | x :: xs, st =>
    Webp.Impl.VP8SyntaxBytes.T.getCoeffs t (st.l + (st.tnz &&& 1)) dq0 dq1 first (st.store (blk x)) >>= fun r =>
    gRow t first dq0 dq1 p blk xs
      { tnz := (st.tnz >>> 1) ||| ((if r.1 > first then 1 else 0) <<< p), l := if r.1 > first then 1 else 0
        nzCoeffs := nzCodeBits st.nzCoeffs r.1 (if r.2 0 ≠ 0 then 1 else 0)
        store := fun b' => if b' = blk x then r.2 else st.store b' }

theorem decYRow_eq (t first : Nat) (qm : QuantMatrix) (y : Nat) (xs : List Nat) (st : YSt) :
    Webp.Impl.VP8SyntaxBytes.T.decYRow t first qm y xs st = gRow t first qm.y1dc qm.y1ac 7 (fun x => 4 * y + x) xs st := by
  induction xs generalizing st with
  | nil => rfl
  | cons x xs ih =>
    rw [Webp.Impl.VP8SyntaxBytes.T.decYRow, gRow]
    congr 1; funext r; exact ih _

theorem decUVRow_eq (qm : QuantMatrix) (base y : Nat) (xs : List Nat) (st : YSt) :
    Webp.Impl.VP8SyntaxBytes.T.decUVRow qm base y xs st = gRow 2 0 qm.uvdc qm.uvac 3 (fun x => base + 2 * y + x) xs st := by
  induction xs generalizing st with
  | nil => rfl
  | cons x xs ih =>
    rw [Webp.Impl.VP8SyntaxBytes.T.decUVRow, gRow]
    congr 1; funext r; exact ih _

theorem ite_le_one (c : Prop) [Decidable c] : (if c then 1 else 0) ≤ 1 := by
  by_cases h : c
  · rw [if_pos h]
  · rw [if_neg h]; omega

/-- `yRow` / `uvRow`, generic -/
def sRow (probs : Array Nat) (t first : Nat) (dq0 dq1 : Int) (ai0 li : Nat) (blk : Nat → Nat) (xs : List Nat) (s : RSt) : RSt :=
  xs.foldl (fun s x => rStep probs t first dq0 dq1 (ai0 + x) li (blk x) s) s

/-- what a row leaves alone -/
structure RowFrame (ai0 n li : Nat) (s s' : RSt) : Prop where
  a : ∀ i, (i < ai0 ∨ ai0 + n ≤ i) → s'.2.1.getD i 0 = s.2.1.getD i 0
  l : ∀ i, i ≠ li → s'.2.2.1.getD i 0 = s.2.2.1.getD i 0
  asz : s'.2.1.size = s.2.1.size
  lsz : s'.2.2.1.size = s.2.2.1.size

theorem row_sim (prob : Slot → UInt8) (probs : Array Nat) (t first : Nat) (dq0 dq1 : Int) (hc : CoefOK prob probs t)
    (hfix : FixedOK prob) (hf : first ≤ 16) (N : Nat) (hN : N ≤ 25) (p n ai0 li : Nat) (hn : n ≤ p + 1) (blk : Nat → Nat) (ov : Nat → Option Int)
    (hblk : ∀ x, x < n → blk x < N ∧ ((ov (blk x)).isSome = true → 1 ≤ first)) :
    ∀ (m x : Nat) (st : YSt) (s : RSt), x + m = n → QInv s.2.1 ai0 n p x st.tnz → st.l = s.2.2.1.getD li 0 → st.l ≤ 1 →
      StRel N ov st.store s.1 → ai0 + n ≤ s.2.1.size → li < s.2.2.1.size →
      ∃ st', runD prob (gRow t first dq0 dq1 p blk (List.range' x m) st) s.2.2.2.1 =
          some (st', (sRow probs t first dq0 dq1 ai0 li blk (List.range' x m) s).2.2.2.1) ∧
        QInv (sRow probs t first dq0 dq1 ai0 li blk (List.range' x m) s).2.1 ai0 n p n st'.tnz ∧
        st'.l = (sRow probs t first dq0 dq1 ai0 li blk (List.range' x m) s).2.2.1.getD li 0 ∧ st'.l ≤ 1 ∧
        StRel N ov st'.store (sRow probs t first dq0 dq1 ai0 li blk (List.range' x m) s).1 ∧
        RowFrame ai0 n li s (sRow probs t first dq0 dq1 ai0 li blk (List.range' x m) s) := by
  intro m
  induction m with
  | zero =>
    intro x st s hx hq hl hl1 hst _ _
    have : x = n := by omega
    subst this
    exact ⟨st, rfl, hq, hl, hl1, hst, ⟨fun _ _ => rfl, fun _ _ => rfl, rfl, rfl⟩⟩
  | succ m ih =>
    intro x st s hx hq hl hl1 hst hasz hlsz
    have hxn : x < n := by omega
    have hcv : st.l + (st.tnz &&& 1) = s.2.1.getD (ai0 + x) 0 + s.2.2.1.getD li 0 := by
      rw [qinv_head hq hxn, hl, Nat.add_comm]
    have hc2 : s.2.1.getD (ai0 + x) 0 + s.2.2.1.getD li 0 ≤ 2 := by
      have h1 : st.tnz &&& 1 ≤ 1 := by rw [bit_and1]; exact bit_le _ _
      rw [← hcv]; omega
    obtain ⟨out', hrun, hst1⟩ := blk_sim prob probs t first dq0 dq1 hc hfix hf N hN (ai0 + x) li (blk x) (hblk x hxn).1 s ov
      st.store hst (hblk x hxn).2 _ rfl hc2
    have hf1 : (if (readBlock probs t first (s.2.1.getD (ai0 + x) 0 + s.2.2.1.getD li 0) dq0 dq1 (blk x * 16) s.1 s.2.2.2.1).1 > first
        then 1 else 0) ≤ 1 := ite_le_one _
    obtain ⟨st', h1, h2, h3, h4, h5, h6⟩ := ih (x + 1)
      { tnz := (st.tnz >>> 1) ||| ((if (readBlock probs t first (s.2.1.getD (ai0 + x) 0 + s.2.2.1.getD li 0) dq0 dq1 (blk x * 16) s.1
            s.2.2.2.1).1 > first then 1 else 0) <<< p)
        l := if (readBlock probs t first (s.2.1.getD (ai0 + x) 0 + s.2.2.1.getD li 0) dq0 dq1 (blk x * 16) s.1 s.2.2.2.1).1 > first
            then 1 else 0
        nzCoeffs := nzCodeBits st.nzCoeffs
          (readBlock probs t first (s.2.1.getD (ai0 + x) 0 + s.2.2.1.getD li 0) dq0 dq1 (blk x * 16) s.1 s.2.2.2.1).1
          (if out' 0 ≠ 0 then 1 else 0)
        store := fun b' => if b' = blk x then out' else st.store b' }
      (rStep probs t first dq0 dq1 (ai0 + x) li (blk x) s) (by omega)
      (qinv_step hq hxn hn _ hf1 hasz)
      (by show _ = (s.2.2.1.setIfInBounds li _).getD li 0
          rw [getD_setN]; exact (if_pos ⟨rfl, hlsz⟩).symm)
      hf1 hst1
      (by show ai0 + n ≤ (s.2.1.setIfInBounds _ _).size; rw [Array.size_setIfInBounds]; exact hasz)
      (by show li < (s.2.2.1.setIfInBounds _ _).size; rw [Array.size_setIfInBounds]; exact hlsz)
    refine ⟨st', ?_, h2, h3, h4, h5, ?_⟩
    · rw [List.range'_succ, gRow, runD_bind, hcv, hrun]
      exact h1
    · rw [List.range'_succ]
      refine ⟨fun i hi => ?_, fun i hi => ?_, ?_, ?_⟩
      · rw [show sRow probs t first dq0 dq1 ai0 li blk (x :: List.range' (x + 1) m) s =
            sRow probs t first dq0 dq1 ai0 li blk (List.range' (x + 1) m) (rStep probs t first dq0 dq1 (ai0 + x) li (blk x) s) from rfl,
          h6.a i hi]
        show (s.2.1.setIfInBounds _ _).getD i 0 = _
        rw [getD_setN, if_neg (by omega)]
      · rw [show sRow probs t first dq0 dq1 ai0 li blk (x :: List.range' (x + 1) m) s =
            sRow probs t first dq0 dq1 ai0 li blk (List.range' (x + 1) m) (rStep probs t first dq0 dq1 (ai0 + x) li (blk x) s) from rfl,
          h6.l i hi]
        show (s.2.2.1.setIfInBounds _ _).getD i 0 = _
        rw [getD_setN, if_neg (fun h => hi h.1.symm)]
      · exact h6.asz.trans (by show (s.2.1.setIfInBounds _ _).size = _; rw [Array.size_setIfInBounds])
      · exact h6.lsz.trans (by show (s.2.2.1.setIfInBounds _ _).size = _; rw [Array.size_setIfInBounds])

end Webp.Proofs.C04RefineResid
