import Webp.Impl.AnimEnc
/-
  From picture to frame payload and back (`encodeFrameForAnimation`, `splitAlphaAndBitstream`,
  `decodeFrameForAnimation`): the ALPH prefix survives the muxer's split, and under the codec
  contracts every emitted frame decodes to the picture handed to the codec.
-/
namespace Webp.Proofs.AnimEncCodec
open Webp.Go Webp.Spec.Anim Webp.Impl.AnimEnc

theorem byteAt_cons_zero (b : UInt8) (t : Bytes) : byteAt (b :: t) 0 = b.toNat := rfl

theorem byteAt_cons_succ (b : UInt8) (t : Bytes) (i : Nat) : byteAt (b :: t) (i + 1) = byteAt t i := rfl

theorem u8_ofNat_toNat (n : Nat) : (UInt8.ofNat n).toNat = n % 256 := by
  simp [UInt8.toNat_ofNat']

/-- data that does not start with `'A'` carries no ALPH prefix -/
theorem split_of_head (b : UInt8) (t : Bytes) (hb : b.toNat ≠ 0x41) :
    splitAlphaAndBitstream (b :: t) = (none, b :: t) := by
  unfold splitAlphaAndBitstream
  rw [if_neg]
  rintro ⟨_, h⟩
  unfold le32 fourCCALPH at h
  rw [byteAt_cons_zero] at h
  have := b.toNat_lt
  omega

/-- **`split_payload`**: the muxer's split recovers exactly the ALPH payload and the VP8 bit
    stream that `encodeFrameForAnimation` glued together -/
theorem split_payload (alpha bs : Bytes) (hlen : alpha.length < 4294967296) :
    splitAlphaAndBitstream (alphPrefixed alpha bs) = (some alpha, bs) := by
  generalize hn : alpha.length = n at hlen
  have hdata : alphPrefixed alpha bs =
      0x41 :: 0x4c :: 0x50 :: 0x48 :: UInt8.ofNat (n % 256) :: UInt8.ofNat (n / 256 % 256) ::
        UInt8.ofNat (n / 65536 % 256) :: UInt8.ofNat (n / 16777216 % 256) ::
          (alpha ++ ((if n % 2 ≠ 0 then [0] else []) ++ bs)) := by
    unfold alphPrefixed alphTag putLE32
    rw [hn]
    simp
  have hl : (alphPrefixed alpha bs).length =
      8 + n + (if n % 2 ≠ 0 then 1 else 0) + bs.length := by
    rw [hdata]
    simp only [List.length_cons, List.length_append, hn]
    split <;> simp <;> omega
  have h0 : le32 (alphPrefixed alpha bs) 0 = fourCCALPH := by
    rw [hdata]
    unfold le32 fourCCALPH
    simp only [byteAt_cons_succ, byteAt_cons_zero]
    decide
  have h4 : le32 (alphPrefixed alpha bs) 4 = n := by
    rw [hdata]
    unfold le32
    simp only [byteAt_cons_succ, byteAt_cons_zero, u8_ofNat_toNat]
    omega
  unfold splitAlphaAndBitstream
  rw [if_pos ⟨by rw [hl]; omega, h0⟩]
  simp only [h4]
  rw [if_pos (by rw [hl]; omega)]
  have htake : ((alphPrefixed alpha bs).take (8 + n)).drop 8 = alpha := by
    rw [hdata]
    have e : 8 + n = n + 8 := by omega
    rw [e]
    simp only [List.take_succ_cons, List.drop_succ_cons, List.drop_zero]
    rw [← hn, List.take_left]
  rw [htake]
  by_cases hodd : n % 2 ≠ 0
  · rw [if_pos ⟨hodd, by rw [hl, if_pos hodd]; omega⟩]
    congr 1
    rw [hdata, if_pos hodd]
    have e : 8 + n + 1 = (n + 1) + 8 := by omega
    rw [e]
    simp only [List.drop_succ_cons]
    rw [← List.append_assoc]
    have : (alpha ++ [0]).length = n + 1 := by simp [hn]
    rw [← this, List.drop_left]
  · rw [if_neg (fun h => hodd h.1)]
    congr 1
    rw [hdata, if_neg hodd]
    have e : 8 + n = n + 8 := by omega
    rw [e]
    simp only [List.drop_succ_cons, List.nil_append]
    rw [← hn, List.drop_left]

/-- a VP8L frame: no ALPH prefix, decoded by the VP8L decoder -/
theorem decodeFrame_lossless (c : Codec) (t : Bytes) :
    decodeFrame c (0x2f :: t) = c.decLossless (0x2f :: t) := by
  unfold decodeFrame
  rw [split_of_head 0x2f t (by decide)]
  rfl

/-- a lossy frame with transparency: ALPH prefix split off, both parts reach the VP8 decoder -/
theorem decodeFrame_lossy_alpha (c : Codec) (alpha : Bytes) (b : UInt8) (t : Bytes)
    (hlen : alpha.length < 4294967296) (hb : b.toNat % 2 = 0) :
    decodeFrame c (alphPrefixed alpha (b :: t)) = c.decLossy (b :: t) alpha := by
  unfold decodeFrame
  rw [split_payload alpha (b :: t) hlen]
  simp only [decodeFrameForAnimation, Option.getD_some]
  rw [if_neg]
  intro h
  rw [h] at hb
  exact absurd hb (by decide)

/-- a lossy frame without ALPH prefix -/
theorem decodeFrame_lossy_plain (c : Codec) (b : UInt8) (t : Bytes) (hb : b.toNat % 2 = 0) :
    decodeFrame c (b :: t) = c.decLossy (b :: t) [] := by
  unfold decodeFrame
  rw [split_of_head b t (by omega)]
  simp only [decodeFrameForAnimation, Option.getD_none]
  rw [if_neg]
  intro h
  rw [h] at hb
  exact absurd hb (by decide)

/-- **`frame_alpha_exact`**: on today's code every frame — lossless, lossy, and either choice of
    the mixed mode — decodes to a picture with exactly the source alpha plane -/
theorem frame_alpha_exact (c : Codec) (hc : CodecAlphaExact c) (isLossless : Bool) (img : SubImage)
    (hbd : Bounded img) :
    SubImage.Rel pxAlphaEq (decodeFrame c (encodeFrameForAnimation false c isLossless img)) img := by
  unfold encodeFrameForAnimation
  cases isLossless with
  | true =>
    simp only [if_true]
    obtain ⟨t, ht⟩ := hc.wf.vp8l img hbd
    rw [ht, decodeFrame_lossless, ← ht]
    exact hc.lossless img hbd
  | false =>
    simp only [Bool.false_eq_true, if_false, false_or]
    obtain ⟨b, t, hbt, hb⟩ := hc.wf.vp8 img hbd
    have hl := hc.lossy img hbd
    by_cases ha : (c.encLossy img).2.length = 0
    · rw [if_pos ha, hbt, decodeFrame_lossy_plain c b t hb]
      have : (c.encLossy img).2 = [] := List.eq_nil_of_length_eq_zero ha
      rw [this, hbt] at hl
      exact hl
    · rw [if_neg ha, hbt, decodeFrame_lossy_alpha c _ b t (hc.wf.alphaLen img hbd) hb]
      rw [hbt] at hl
      exact hl

/-- lossless frames decode to the encoded picture (C01 through the frame payload) -/
theorem frame_lossless_exact (c : Codec) (hc : CodecLossless c) (pin : Bool) (img : SubImage)
    (hbd : Bounded img) :
    SubImage.Rel pxEqv (decodeFrame c (encodeFrameForAnimation pin c true img)) img := by
  unfold encodeFrameForAnimation
  simp only [if_true]
  obtain ⟨t, ht⟩ := hc.vp8l img hbd
  rw [ht, decodeFrame_lossless, ← ht]
  exact hc.roundtrip img hbd

/-- the lossless, non-mixed encoder only emits frames that decode to their pictures -/
theorem decodesAll_lossless (cfg : Config) (c : Codec) (hc : CodecLossless c)
    (hl : cfg.lossless = true) (hm : cfg.allowMixed = false) : DecodesAll pxEqv cfg c := by
  intro img alt hbd halt
  have : alt = false := by
    cases alt with
    | false => rfl
    | true => have := halt rfl; rw [hm] at this; cases this
  subst this
  simp only [Bool.false_eq_true, if_false, hl]
  exact frame_lossless_exact c hc _ img hbd

/-- in every mode of today's encoder the emitted frames decode with the source alpha -/
theorem decodesAll_alpha (cfg : Config) (c : Codec) (hc : CodecAlphaExact c)
    (hp : cfg.pins.alpha = false) : DecodesAll pxAlphaEq cfg c := by
  intro img alt hbd _
  rw [hp]
  exact frame_alpha_exact c hc _ img hbd

end Webp.Proofs.AnimEncCodec
