import Webp.Proofs.AnimDecLoops
/-
  Geometry of `Frame.Bounds`, `Rectangle.Intersect` and the loops of `compositeFrame` /
  `fillRect`: under Go-`int` typing they compute exactly `Spec.Anim.draw` / `disposeRect`.
-/
namespace Webp.Proofs.AnimDecGeom
open Webp.Spec.Anim Webp.Impl.AnimDec Webp.Proofs.AnimDecLoops

/-- typing of one frame -/
structure GoFrame (f : Frame) : Prop where
  ox : IsGoInt f.offX
  oy : IsGoInt f.offY
  fw : IsGoInt f.fw
  fh : IsGoInt f.fh

/-- clipped rectangle of a frame on a `w×h` canvas -/
def cx0 (f : Frame) : Int := max f.offX 0
def cy0 (f : Frame) : Int := max f.offY 0
def cx1 (w : Nat) (f : Frame) : Int := min (f.offX + f.fw) w
def cy1 (h : Nat) (f : Frame) : Int := min (f.offY + f.fh) h

/-- `Frame.Bounds`: never swapped by `image.Rect`, overflow replaced by `MaxInt` -/
theorem frameBounds_eq (f : Frame) (hf : GoFrame f) :
    frameBounds f = ⟨f.offX, f.offY,
      if f.offX + f.fw ≤ maxInt then f.offX + f.fw else maxInt,
      if f.offY + f.fh ≤ maxInt then f.offY + f.fh else maxInt⟩ := by
  obtain ⟨⟨a1, a2⟩, ⟨b1, b2⟩, ⟨c1, c2⟩, ⟨d1, d2⟩⟩ := hf
  unfold frameBounds mkRect wrap maxInt
  simp only []
  congr 1 <;> omega

theorem covers_iff (w h : Nat) (f : Frame) (x y : Nat) (hx : x < w) (hy : y < h) :
    f.covers x y = true ↔
      (cx0 f ≤ x ∧ (x : Int) < cx1 w f ∧ cy0 f ≤ y ∧ (y : Int) < cy1 h f) := by
  unfold Frame.covers cx0 cy0 cx1 cy1
  simp only [Bool.and_eq_true, decide_eq_true_eq]
  omega

/-- `Rectangle.Intersect`, field by field -/
theorem intersect_fields (r s : Rect) :
    r.intersect s =
      if (max r.minX s.minX ≥ min r.maxX s.maxX ∨ max r.minY s.minY ≥ min r.maxY s.maxY) then Rect.zero
      else ⟨max r.minX s.minX, max r.minY s.minY, min r.maxX s.maxX, min r.maxY s.maxY⟩ := by
  obtain ⟨a, b, c, d⟩ := r
  obtain ⟨a', b', c', d'⟩ := s
  unfold Rect.intersect Rect.empty
  simp only []
  by_cases c1 : a < a' <;> by_cases c2 : b < b' <;> by_cases c3 : c > c' <;> by_cases c4 : d > d' <;>
    simp only [c1, c2, c3, c4, if_true, if_false, ge_iff_le, Bool.or_eq_true, decide_eq_true_eq] <;>
    (have e1 : max a a' = (if a < a' then a' else a) := by omega
     have e2 : max b b' = (if b < b' then b' else b) := by omega
     have e3 : min c c' = (if c > c' then c' else c) := by omega
     have e4 : min d d' = (if d > d' then d' else d) := by omega
     rw [e1, e2, e3, e4]
     simp only [c1, c2, c3, c4, if_true, if_false])

/-- the clipped frame rectangle as computed by `Bounds().Intersect(canvas.Bounds())` -/
theorem intersect_eq (w h : Nat) (f : Frame) (hw : IsGoInt w) (hh : IsGoInt h) (hf : GoFrame f) :
    (frameBounds f).intersect ⟨0, 0, w, h⟩ =
      if cx0 f < cx1 w f ∧ cy0 f < cy1 h f then ⟨cx0 f, cy0 f, cx1 w f, cy1 h f⟩ else Rect.zero := by
  rw [intersect_fields, frameBounds_eq f hf]
  obtain ⟨⟨a1, a2⟩, ⟨b1, b2⟩, ⟨c1, c2⟩, ⟨d1, d2⟩⟩ := hf
  obtain ⟨w1, w2⟩ := hw
  obtain ⟨h1, h2⟩ := hh
  unfold cx0 cy0 cx1 cy1 maxInt
  simp only []
  have e1 : min (if f.offX + ↑f.fw ≤ 9223372036854775807 then f.offX + ↑f.fw else 9223372036854775807) (w : Int)
      = min (f.offX + ↑f.fw) ↑w := by omega
  have e2 : min (if f.offY + ↑f.fh ≤ 9223372036854775807 then f.offY + ↑f.fh else 9223372036854775807) (h : Int)
      = min (f.offY + ↑f.fh) ↑h := by omega
  rw [e1, e2]
  by_cases hc : max f.offX 0 < min (f.offX + ↑f.fw) ↑w ∧ max f.offY 0 < min (f.offY + ↑f.fh) ↑h
  · rw [if_pos hc, if_neg (by omega)]
  · rw [if_neg hc, if_pos (by omega)]


/-- what `compositeFrame` writes at canvas position `(x,y)`, given the old value there -/
def Gf (f : Frame) (x y : Int) (old : Px) : Px :=
  let srcPx := nrgbaAt f.fw f.fh f.px (wrap (x - f.offX)) (wrap (y - f.offY))
  if f.blendNone then srcPx else alphaBlendNRGBA srcPx old

/-- inside the clipped rectangle both `continue` guards of `compositeFrame` are dead -/
theorem compositeFrame_loops (w h : Nat) (f : Frame) (c : Canvas) (hw : IsGoInt w) (hh : IsGoInt h)
    (hf : GoFrame f) (hne : cx0 f < cx1 w f ∧ cy0 f < cy1 h f) :
    compositeFrame w h f c =
      loopN (fun y c => loopN (pixBody w h (Gf f) y) (cx0 f) (cx1 w f - cx0 f).toNat c)
        (cy0 f) (cy1 h f - cy0 f).toNat c := by
  unfold compositeFrame
  simp only []
  rw [intersect_eq w h f hw hh hf, if_pos hne]
  have hemp : Rect.empty ⟨cx0 f, cy0 f, cx1 w f, cy1 h f⟩ = false := by
    simp only [Rect.empty, ge_iff_le, Bool.or_eq_false_iff, decide_eq_false_iff_not]
    omega
  rw [hemp]
  simp only [Bool.false_eq_true, if_false]
  rw [forRange_eq]
  obtain ⟨⟨a1, a2⟩, ⟨b1, b2⟩, ⟨c1, c2⟩, ⟨d1, d2⟩⟩ := hf
  obtain ⟨w1, w2⟩ := hw
  obtain ⟨h1, h2⟩ := hh
  apply loopN_congr
  intro k hk s
  have hsy : ¬ (wrap (cy0 f + (k : Int) - f.offY) < 0 ∨ wrap (cy0 f + (k : Int) - f.offY) ≥ (f.fh : Int)) := by
    unfold wrap; unfold cy0 cy1 at *; omega
  rw [if_neg hsy, forRange_eq]
  apply loopN_congr
  intro k' hk' s'
  have hsx : ¬ (wrap (cx0 f + (k' : Int) - f.offX) < 0 ∨ wrap (cx0 f + (k' : Int) - f.offX) ≥ (f.fw : Int)) := by
    unfold wrap; unfold cx0 cx1 at *; omega
  rw [if_neg hsx]
  unfold pixBody Gf
  cases f.blendNone <;> simp


/-- value written by `compositeFrame` at a covered position, in the specification's terms -/
theorem Gf_covered (w h : Nat) (f : Frame) (x y : Nat) (old : Px) (hf : GoFrame f)
    (hw : IsGoInt w) (hh : IsGoInt h) (_hx : x < w) (_hy : y < h) (hcov : f.covers x y = true) :
    Gf f x y old =
      (let s := f.at ((x : Int) - f.offX).toNat ((y : Int) - f.offY).toNat
       if f.blendNone then s else alphaBlendNRGBA s old) := by
  obtain ⟨⟨a1, a2⟩, ⟨b1, b2⟩, ⟨c1, c2⟩, ⟨d1, d2⟩⟩ := hf
  obtain ⟨w1, w2⟩ := hw
  obtain ⟨h1, h2⟩ := hh
  unfold Frame.covers at hcov
  simp only [Bool.and_eq_true, decide_eq_true_eq] at hcov
  have e1 : wrap ((x : Int) - f.offX) = (x : Int) - f.offX := by unfold wrap; omega
  have e2 : wrap ((y : Int) - f.offY) = (y : Int) - f.offY := by unfold wrap; omega
  have hin : inImage f.fw f.fh ((x : Int) - f.offX) ((y : Int) - f.offY) = true := by
    simp only [inImage, Bool.and_eq_true, decide_eq_true_eq]; omega
  unfold Gf nrgbaAt Frame.at
  rw [e1, e2, hin]
  rfl

theorem compositeFrame_get (w h : Nat) (f : Frame) (c : Canvas) (hw : IsGoInt w) (hh : IsGoInt h)
    (hf : GoFrame f) (hc : c.size = w * h) :
    (compositeFrame w h f c).size = w * h ∧
    ∀ i, i < w * h →
      (compositeFrame w h f c).getD i Px.zero =
        if f.covers (i % w) (i / w) then
          (let s := f.at (((i % w : Nat) : Int) - f.offX).toNat (((i / w : Nat) : Int) - f.offY).toNat
           if f.blendNone then s else alphaBlendNRGBA s (c.getD i Px.zero))
        else c.getD i Px.zero := by
  by_cases hne : cx0 f < cx1 w f ∧ cy0 f < cy1 h f
  · rw [compositeFrame_loops w h f c hw hh hf hne]
    have hx0 : cx0 f = (((cx0 f).toNat : Nat) : Int) := by unfold cx0; omega
    have hy0 : cy0 f = (((cy0 f).toNat : Nat) : Int) := by unfold cy0; omega
    rw [hx0, hy0]
    have hxb : (cx0 f).toNat + (cx1 w f - cx0 f).toNat ≤ w := by unfold cx0 cx1 at *; omega
    have hyb : (cy0 f).toNat + (cy1 h f - cy0 f).toNat ≤ h := by unfold cy0 cy1 at *; omega
    obtain ⟨rs, rg⟩ := rect_get w h (Gf f) (cx0 f).toNat (cx1 w f - cx0 f).toNat
      (cy0 f).toNat (cy1 h f - cy0 f).toNat hxb hyb c hc
    rw [← hx0, ← hy0] at rs rg ⊢
    refine ⟨rs, fun i hi => ?_⟩
    rw [rg i hi]
    have hxi := mod_lt_of_lt hi
    have hyi := div_lt_of_lt hi
    have hcov := covers_iff w h f (i % w) (i / w) hxi hyi
    by_cases hcv : f.covers (i % w) (i / w) = true
    · have := hcov.mp hcv
      rw [if_pos (by omega), if_pos hcv]
      exact Gf_covered w h f (i % w) (i / w) _ hf hw hh hxi hyi hcv
    · have : ¬ (cx0 f ≤ ((i % w : Nat) : Int) ∧ ((i % w : Nat) : Int) < cx1 w f ∧
          cy0 f ≤ ((i / w : Nat) : Int) ∧ ((i / w : Nat) : Int) < cy1 h f) := fun hh' => hcv (hcov.mpr hh')
      rw [if_neg (by omega), if_neg hcv]
  · have hcf : compositeFrame w h f c = c := by
      unfold compositeFrame
      simp only []
      rw [intersect_eq w h f hw hh hf, if_neg hne]
      rfl
    rw [hcf]
    refine ⟨hc, fun i hi => ?_⟩
    have hxi := mod_lt_of_lt hi
    have hyi := div_lt_of_lt hi
    have hcov := covers_iff w h f (i % w) (i / w) hxi hyi
    rw [if_neg]
    intro hcv
    have := hcov.mp hcv
    omega

/-- **`compositeFrame` is the specification's `draw`** (with the implementation's blend function) -/
theorem compositeFrame_eq_draw (w h : Nat) (f : Frame) (c : Canvas) (hw : IsGoInt w)
    (hh : IsGoInt h) (hf : GoFrame f) (hc : c.size = w * h) :
    compositeFrame w h f c = draw alphaBlendNRGBA w h f c := by
  obtain ⟨hs, hg⟩ := compositeFrame_get w h f c hw hh hf hc
  apply canvas_ext hs (by simp [draw])
  intro i hi
  rw [hg i hi]
  unfold draw
  rw [getD_ofFn _ i hi]
  rfl


theorem fillRect_get (w h : Nat) (f : Frame) (c : Canvas) (hw : IsGoInt w) (hh : IsGoInt h)
    (hf : GoFrame f) (hc : c.size = w * h) :
    (fillRect w h c (frameBounds f) Px.zero).size = w * h ∧
    ∀ i, i < w * h →
      (fillRect w h c (frameBounds f) Px.zero).getD i Px.zero =
        if f.covers (i % w) (i / w) then Px.zero else c.getD i Px.zero := by
  unfold fillRect
  simp only []
  rw [intersect_eq w h f hw hh hf]
  by_cases hne : cx0 f < cx1 w f ∧ cy0 f < cy1 h f
  · rw [if_pos hne]
    simp only [forRange_eq]
    have hx0 : cx0 f = (((cx0 f).toNat : Nat) : Int) := by unfold cx0; omega
    have hy0 : cy0 f = (((cy0 f).toNat : Nat) : Int) := by unfold cy0; omega
    have hxb : (cx0 f).toNat + (cx1 w f - cx0 f).toNat ≤ w := by unfold cx0 cx1 at *; omega
    have hyb : (cy0 f).toNat + (cy1 h f - cy0 f).toNat ≤ h := by unfold cy0 cy1 at *; omega
    obtain ⟨rs, rg⟩ := rect_get w h (fun _ _ _ => Px.zero) (cx0 f).toNat (cx1 w f - cx0 f).toNat
      (cy0 f).toNat (cy1 h f - cy0 f).toNat hxb hyb c hc
    rw [← hx0, ← hy0] at rs rg
    refine ⟨rs, fun i hi => ?_⟩
    have e := rg i hi
    unfold pixBody at e
    rw [e]
    have hxi := mod_lt_of_lt hi
    have hyi := div_lt_of_lt hi
    have hcov := covers_iff w h f (i % w) (i / w) hxi hyi
    by_cases hcv : f.covers (i % w) (i / w) = true
    · have := hcov.mp hcv
      rw [if_pos (by omega), if_pos hcv]
    · have : ¬ (cx0 f ≤ ((i % w : Nat) : Int) ∧ ((i % w : Nat) : Int) < cx1 w f ∧
          cy0 f ≤ ((i / w : Nat) : Int) ∧ ((i / w : Nat) : Int) < cy1 h f) := fun hh' => hcv (hcov.mpr hh')
      rw [if_neg (by omega), if_neg hcv]
  · rw [if_neg hne]
    refine ⟨hc, fun i hi => ?_⟩
    have hxi := mod_lt_of_lt hi
    have hyi := div_lt_of_lt hi
    have hcov := covers_iff w h f (i % w) (i / w) hxi hyi
    rw [if_neg]
    · rfl
    · intro hcv
      have := hcov.mp hcv
      omega

/-- **`applyDispose` is the specification's dispose step** -/
theorem applyDispose_eq (w h : Nat) (f : Frame) (c : Canvas) (hw : IsGoInt w) (hh : IsGoInt h)
    (hf : GoFrame f) (hc : c.size = w * h) :
    applyDispose w h c f = disposePrev w h (some f) c := by
  unfold applyDispose disposePrev
  by_cases hd : f.disposeBG = true
  · rw [if_pos hd]
    simp only [hd, if_true]
    obtain ⟨hs, hg⟩ := fillRect_get w h f c hw hh hf hc
    apply canvas_ext hs (by simp [disposeRect])
    intro i hi
    rw [hg i hi]
    unfold disposeRect
    rw [getD_ofFn _ i hi]
    rfl
  · rw [if_neg hd]
    simp only [hd]
    rfl

end Webp.Proofs.AnimDecGeom
