import Webp.Proofs.C04RefineResid9
/-
  C04 refinement, residuals, part 10: entering and leaving the planes in `parseResiduals` — the initial words
  (`tnz & 0x0f`, `tnz >> 4`, `tnz >> 6`, same for `lnz`) satisfy `RowsInv`; the final `|` / `<<` packing, bit by bit.
  (Pieces for the assembly of `mb_residuals_eq_spec`, which is not done yet.)
-/
namespace Webp.Proofs.C04RefineResid
open Webp.Spec.VP8
open Webp.Impl.VP8Recon (Coeffs)

/-- the final packing of `mb.Nz` / `left.Nz`: luma nibble, two U bits, two V bits -/
theorem pack_bits : ∀ (a : Fin 16) (u v : Fin 4) (k : Fin 8),
    bit ((a.val ||| ((u.val <<< 4) <<< 0)) ||| ((v.val <<< 4) <<< 2)) k.val =
      (if k.val < 4 then bit a.val k.val else if k.val < 6 then bit u.val (k.val - 4) else bit v.val (k.val - 6)) ∧
    ((a.val ||| ((u.val <<< 4) <<< 0)) ||| ((v.val <<< 4) <<< 2)) < 256 := by
  unfold bit; decide

/-- `lnz & 0xf0` of a chroma plane's word (`< 64`) is its two new flags at bits 4, 5 -/
theorem mask_f0 : ∀ w : Fin 64, (w.val &&& 0xf0) = (w.val >>> 4) <<< 4 ∧ w.val >>> 4 < 4 := by decide

theorem bit_and15 (w k : Nat) (hk : k < 4) : bit (w &&& 15) k = bit w k := by
  rw [bit_eq, bit_eq, Nat.testBit_and]
  have : (15 : Nat).testBit k = true := by interval_cases k <;> rfl
  rw [this, Bool.and_true]

/-- the flags of macroblock column `mbX` in the specification's arrays are the bits of the Go words -/
structure Flags (mbX tnz lnz : Nat) (s : RSt) : Prop where
  t : ∀ k, k < 8 → s.2.1.getD (9 * mbX + k) 0 = bit tnz k
  l : ∀ k, k < 8 → s.2.2.1.getD k 0 = bit lnz k
  asz : 9 * mbX + 9 ≤ s.2.1.size
  lsz : 9 ≤ s.2.2.1.size
  tb : tnz < 256
  lb : lnz < 256

/-- entering the luma rows: `tnz & 0x0f`, `lnz & 0x0f` -/
theorem entry_y {mbX tnz lnz : Nat} {s : RSt} (h : Flags mbX tnz lnz s) (store : Nat → Coeffs) (ov : Nat → Option Int)
    (hst : StRel 24 ov store s.1) : RowsInv (9 * mbX) 4 7 0 4 7 0 (tnz &&& 15) (lnz &&& 15) store ov s := by
  have b15 : ∀ w : Nat, w &&& 15 < 2 ^ (7 + 1) := fun w => Nat.lt_of_le_of_lt Nat.and_le_right (by decide)
  refine ⟨⟨fun k hk => ?_, fun j hj => by omega, b15 _⟩, ⟨fun k hk => ?_, fun j hj => by omega, b15 _⟩, hst,
    by have := h.asz; omega, by have := h.lsz; omega, Or.inl rfl⟩
  · rw [bit_and15 _ _ (by omega), Nat.add_zero, h.t k (by omega)]
  · rw [bit_and15 _ _ (by omega), Nat.zero_add, h.l k (by omega)]

/-- entering a chroma plane: `tnz >> 4` (U), `tnz >> 6` (V), same for `lnz` -/
theorem entry_uv {mbX tnz lnz plane : Nat} (hpl : plane < 2) {s : RSt} (htb : tnz < 256) (hlb : lnz < 256)
    (ht : ∀ k, k < 2 → s.2.1.getD (9 * mbX + 4 + 2 * plane + k) 0 = bit tnz (4 + 2 * plane + k))
    (hl : ∀ k, k < 2 → s.2.2.1.getD (4 + 2 * plane + k) 0 = bit lnz (4 + 2 * plane + k))
    (hasz : 9 * mbX + 9 ≤ s.2.1.size) (hlsz : 9 ≤ s.2.2.1.size) (store : Nat → Coeffs) (ov : Nat → Option Int)
    (hst : StRel 24 ov store s.1) :
    RowsInv (9 * mbX + 4 + 2 * plane) 2 3 (4 + 2 * plane) 2 5 0 (tnz >>> (4 + 2 * plane)) (lnz >>> (4 + 2 * plane)) store ov s := by
  have bt : tnz >>> (4 + 2 * plane) < 2 ^ (3 + 1) := by
    rw [Nat.shiftRight_eq_div_pow]
    interval_cases plane
    · show tnz / 16 < 16; omega
    · show tnz / 64 < 16; omega
  have bl : lnz >>> (4 + 2 * plane) < 2 ^ (5 + 1) := by
    rw [Nat.shiftRight_eq_div_pow]
    interval_cases plane
    · show lnz / 16 < 64; omega
    · show lnz / 64 < 64; omega
  refine ⟨⟨fun k hk => ?_, fun j hj => by omega, bt⟩, ⟨fun k hk => ?_, fun j hj => by omega, bl⟩, hst, by omega, by omega, Or.inl rfl⟩
  · rw [bit_shr, Nat.add_zero, ht k (by omega)]
  · rw [bit_shr, Nat.add_zero, hl k (by omega)]

end Webp.Proofs.C04RefineResid
