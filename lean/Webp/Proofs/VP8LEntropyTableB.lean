import Webp.Proofs.VP8LEntropyTableA
/-
  Two-level lookup tables, part B: what `replicateValue` writes and what `ReadSymbol` reads.
-/
namespace Webp.Proofs.VP8LEntropyTableB
open Webp.Go (Res)
open Webp.Impl.VP8LEntropy

/-- the cells `replicateValue(table[base:], step, end, _)` writes -/
def Hit (base step end_ j : Nat) : Prop := base ≤ j ∧ j < base + end_ ∧ (j - base) % step = 0

instance (base step end_ j : Nat) : Decidable (Hit base step end_ j) := by unfold Hit; infer_instance

theorem replicateLoop_spec (base step : Nat) (c : HCode) (hstep : 0 < step) (k : Nat) :
    ∀ (fuel : Nat) (t : Table), k + 1 ≤ fuel → base + k * step < t.size →
      ∃ t', replicateLoop base step c fuel (k * step) t = .ok t' ∧ t'.size = t.size ∧
        ∀ j, t'[j]? = if base ≤ j ∧ j ≤ base + k * step ∧ (j - base) % step = 0 then some c else t[j]? := by
  induction k with
  | zero =>
    intro fuel t hf hb
    obtain ⟨f, rfl⟩ : ∃ f, fuel = f + 1 := ⟨fuel - 1, by omega⟩
    simp only [Nat.zero_mul, Nat.add_zero] at hb ⊢
    rw [replicateLoop, if_pos (by simpa using hb), if_neg (by omega)]
    refine ⟨_, rfl, by simp, ?_⟩
    intro j
    rw [Array.getElem?_setIfInBounds, Nat.add_zero]
    by_cases hj : base = j
    · subst hj; simp [hb]
    · rw [if_neg hj, if_neg (by omega)]
  | succ k ih =>
    intro fuel t hf hb
    obtain ⟨f, rfl⟩ : ∃ f, fuel = f + 1 := ⟨fuel - 1, by omega⟩
    rw [replicateLoop, if_pos hb, if_pos (by rw [Nat.succ_mul]; omega)]
    have hsub : (k + 1) * step - step = k * step := by rw [Nat.succ_mul]; omega
    rw [hsub]
    obtain ⟨t', h1, h2, h3⟩ := ih f (t.setIfInBounds (base + (k + 1) * step) c) (by omega)
      (by rw [Array.size_setIfInBounds, Nat.succ_mul] at *; omega)
    refine ⟨t', h1, by rw [h2]; simp, ?_⟩
    intro j
    rw [h3 j, Array.getElem?_setIfInBounds]
    by_cases hc : base ≤ j ∧ j ≤ base + k * step ∧ (j - base) % step = 0
    · rw [if_pos hc, if_pos ⟨hc.1, by rw [Nat.succ_mul]; omega, hc.2.2⟩]
    · rw [if_neg hc]
      by_cases hj : base + (k + 1) * step = j
      · subst hj
        rw [if_pos rfl, if_pos hb, if_pos ⟨by omega, Nat.le_refl _, by simp⟩]
      · rw [if_neg hj]
        by_cases hc2 : base ≤ j ∧ j ≤ base + (k + 1) * step ∧ (j - base) % step = 0
        · exfalso
          obtain ⟨h1, h2, h3⟩ := hc2
          -- j - base is a multiple of step, ≤ (k+1)·step, ≠ (k+1)·step, so ≤ k·step
          obtain ⟨q, hq⟩ : ∃ q, j - base = step * q := ⟨(j - base) / step, by
            have := Nat.div_add_mod (j - base) step; omega⟩
          have hqle : q ≤ k + 1 := by
            have : step * q ≤ step * (k + 1) := by rw [Nat.mul_comm step (k + 1)]; omega
            exact Nat.le_of_mul_le_mul_left this hstep
          have hqne : q ≠ k + 1 := by
            intro h; subst h; apply hj; rw [Nat.mul_comm]; omega
          have hqk : q ≤ k := by omega
          have : step * q ≤ step * k := Nat.mul_le_mul_left _ hqk
          apply hc
          exact ⟨h1, by rw [Nat.mul_comm k step]; omega, h3⟩
        · rw [if_neg hc2]

/-- `replicateValue` with power-of-two `step ≤ end` inside the table: writes exactly the `Hit` cells -/
theorem replicateValue_spec (t : Table) (base a b : Nat) (c : HCode) (hab : a ≤ b)
    (hb : base + 2 ^ b - 2 ^ a < t.size) :
    ∃ t', replicateValue t base (2 ^ a) (2 ^ b) c = .ok t' ∧ t'.size = t.size ∧
      ∀ j, t'[j]? = if Hit base (2 ^ a) (2 ^ b) j then some c else t[j]? := by
  have hpa : 0 < 2 ^ a := Nat.pow_pos (by decide)
  have hpb : 0 < 2 ^ b := Nat.pow_pos (by decide)
  have hle : 2 ^ a ≤ 2 ^ b := Nat.pow_le_pow_right (by decide) hab
  have hbe : 2 ^ b = 2 ^ (b - a) * 2 ^ a := by rw [← Nat.pow_add]; congr 1; omega
  have hq : 0 < 2 ^ (b - a) := Nat.pow_pos (by decide)
  unfold replicateValue
  rw [if_neg (by omega), if_neg (by omega), if_neg (by omega)]
  have hk : 2 ^ b - 2 ^ a = (2 ^ (b - a) - 1) * 2 ^ a := by
    rw [Nat.sub_mul, ← hbe]; simp
  have hdiv : 2 ^ b / 2 ^ a = 2 ^ (b - a) := by
    rw [hbe, Nat.mul_div_cancel _ hpa]
  rw [hk, hdiv]
  obtain ⟨t', h1, h2, h3⟩ := replicateLoop_spec base (2 ^ a) c hpa (2 ^ (b - a) - 1) (2 ^ (b - a) + 1) t
    (by omega) (by rw [← hk]; omega)
  refine ⟨t', h1, h2, ?_⟩
  intro j
  rw [h3 j, ← hk]
  by_cases hh : Hit base (2 ^ a) (2 ^ b) j
  · rw [if_pos hh]
    obtain ⟨x1, x2, x3⟩ := hh
    rw [if_pos]
    refine ⟨x1, ?_, x3⟩
    -- j - base < 2^b is a multiple of 2^a, hence ≤ 2^b - 2^a
    obtain ⟨q, hq'⟩ : ∃ q, j - base = 2 ^ a * q := ⟨(j - base) / 2 ^ a, by
      have := Nat.div_add_mod (j - base) (2 ^ a); omega⟩
    have hql : q < 2 ^ (b - a) := by
      have : 2 ^ a * q < 2 ^ a * 2 ^ (b - a) := by rw [Nat.mul_comm (2 ^ a) (2 ^ (b - a)), ← hbe]; omega
      exact Nat.lt_of_mul_lt_mul_left this
    have : 2 ^ a * q ≤ 2 ^ a * (2 ^ (b - a) - 1) := Nat.mul_le_mul_left _ (by omega)
    rw [Nat.mul_comm (2 ^ a) (2 ^ (b - a) - 1), ← hk] at this
    omega
  · rw [if_neg hh, if_neg]
    intro ⟨x1, x2, x3⟩
    exact hh ⟨x1, by omega, x3⟩

/-! ## `ReadSymbol` -/

theorem mask_eq (R w : Nat) : w &&& ((1 <<< R) - 1) = w % 2 ^ R := by
  rw [Nat.one_shiftLeft]; exact Nat.and_two_pow_sub_one_eq_mod w R

theorem raw_root (R : Nat) (t : Table) (w : Nat) (e : HCode) (he : t[w % 2 ^ R]? = some e)
    (hb : e.bits ≤ R) : readSymbolRaw R t w = .ok (some (e.value, e.bits)) := by
  unfold readSymbolRaw
  simp only [mask_eq]
  have hlt : w % 2 ^ R < t.size := by
    by_cases h : w % 2 ^ R < t.size
    · exact h
    · rw [Array.getElem?_eq_none (by omega)] at he; cases he
  rw [dif_pos hlt]
  have : t[w % 2 ^ R] = e := by
    rw [Array.getElem?_eq_getElem hlt] at he; exact Option.some.inj he
  simp only [this]
  rw [if_neg (by omega)]

theorem raw_sub (R : Nat) (t : Table) (w : Nat) (e e2 : HCode) (he : t[w % 2 ^ R]? = some e)
    (hb : R < e.bits) (h2 : t[e.value + w / 2 ^ R % 2 ^ (e.bits - R)]? = some e2) :
    readSymbolRaw R t w = .ok (some (e2.value, R + e2.bits)) := by
  unfold readSymbolRaw
  simp only [mask_eq, Nat.shiftRight_eq_div_pow]
  have hlt : w % 2 ^ R < t.size := by
    by_cases h : w % 2 ^ R < t.size
    · exact h
    · rw [Array.getElem?_eq_none (by omega)] at he; cases he
  rw [dif_pos hlt]
  have h1 : t[w % 2 ^ R] = e := by
    rw [Array.getElem?_eq_getElem hlt] at he; exact Option.some.inj he
  simp only [h1]
  rw [if_pos hb]
  have hlt2 : e.value + w / 2 ^ R % 2 ^ (e.bits - R) < t.size := by
    by_cases h : e.value + w / 2 ^ R % 2 ^ (e.bits - R) < t.size
    · exact h
    · rw [Array.getElem?_eq_none (by omega)] at h2; cases h2
  rw [dif_pos hlt2]
  have h3 : t[e.value + w / 2 ^ R % 2 ^ (e.bits - R)] = e2 := by
    rw [Array.getElem?_eq_getElem hlt2] at h2; exact Option.some.inj h2
  rw [h3]

end Webp.Proofs.VP8LEntropyTableB
