import Webp.Proofs.VP8Kernels
/-
  Loop filters: the Go code with its clip-table lookups (`Impl.VP8Kernels.doFilter2/4/6`, `needsFilter`,
  `needsFilter2`, `hev`, `simpleFilterGo`, `filterLoop26Go`, `filterLoop24Go`) never indexes a table
  outside its bounds on byte inputs and computes exactly RFC 6386 §15's clamp-based formulas.
-/
namespace Webp.Proofs.VP8Filter
open Webp.Impl.VP8Kernels Webp.Proofs.VP8Kernels

/-- the eight samples are bytes -/
structure IsBytes (s : Seg) : Prop where
  p3 : 0 ≤ s.p3 ∧ s.p3 ≤ 255
  p2 : 0 ≤ s.p2 ∧ s.p2 ≤ 255
  p1 : 0 ≤ s.p1 ∧ s.p1 ≤ 255
  p0 : 0 ≤ s.p0 ∧ s.p0 ≤ 255
  q0 : 0 ≤ s.q0 ∧ s.q0 ≤ 255
  q1 : 0 ≤ s.q1 ∧ s.q1 ≤ 255
  q2 : 0 ≤ s.q2 ∧ s.q2 ≤ 255
  q3 : 0 ≤ s.q3 ∧ s.q3 ≤ 255

/-- side conditions of the table lemmas: unfold the clamps, then linear arithmetic -/
macro "rng" : tactic => `(tactic| ((try simp only [clamp, RFC.iabs]); omega))

/-! ### predicates -/

theorem needsFilter_eq (p1 p0 q0 q1 t : Int) (h1 : 0 ≤ p1 ∧ p1 ≤ 255) (h2 : 0 ≤ p0 ∧ p0 ≤ 255)
    (h3 : 0 ≤ q0 ∧ q0 ≤ 255) (h4 : 0 ≤ q1 ∧ q1 ≤ 255) :
    needsFilter p1 p0 q0 q1 t = some (decide (4 * RFC.iabs (p0 - q0) + RFC.iabs (p1 - q1) ≤ t)) := by
  unfold needsFilter
  rw [kabs0_eq (p0 - q0) (by omega) (by omega), kabs0_eq (p1 - q1) (by omega) (by omega)]
  rfl

/-- libwebp's `4·|p0−q0| + |p1−q1| ≤ 2·E + 1` is the RFC's `|p0−q0|·2 + |p1−q1|/2 ≤ E` -/
theorem edge_test_iff (a b e : Int) (_ha : 0 ≤ a) (_hb : 0 ≤ b) : (4 * a + b ≤ 2 * e + 1) ↔ (a * 2 + b / 2 ≤ e) := by
  omega

theorem iabs_nonneg (v : Int) : 0 ≤ RFC.iabs v := by unfold RFC.iabs; omega

theorem needsFilter_rfc (s : Seg) (hb : IsBytes s) (e : Int) :
    needsFilter s.p1 s.p0 s.q0 s.q1 (2 * e + 1) = some (RFC.edgeTest e s.p1 s.p0 s.q0 s.q1) := by
  rw [needsFilter_eq _ _ _ _ _ hb.p1 hb.p0 hb.q0 hb.q1]
  unfold RFC.edgeTest
  congr 1
  exact decide_eq_decide.mpr (edge_test_iff _ _ _ (iabs_nonneg _) (iabs_nonneg _))

theorem hev_rfc (s : Seg) (hb : IsBytes s) (t : Int) :
    hev s.p1 s.p0 s.q0 s.q1 t = some (RFC.hevTest t s) := by
  have h1 := hb.p1; have h2 := hb.p0; have h3 := hb.q0; have h4 := hb.q1
  unfold hev RFC.hevTest
  rw [kabs0_eq (s.p1 - s.p0) (by omega) (by omega), kabs0_eq (s.q1 - s.q0) (by omega) (by omega)]
  by_cases h : RFC.iabs (s.p1 - s.p0) > t <;> simp [h]

theorem needsFilter2_rfc (s : Seg) (hb : IsBytes s) (e i : Int) :
    needsFilter2 s.p3 s.p2 s.p1 s.p0 s.q0 s.q1 s.q2 s.q3 (2 * e + 1) i = some (RFC.filterYes i e s) := by
  have g1 := hb.p3; have g2 := hb.p2; have g3 := hb.p1; have g4 := hb.p0
  have g5 := hb.q0; have g6 := hb.q1; have g7 := hb.q2; have g8 := hb.q3
  unfold needsFilter2 RFC.filterYes
  rw [needsFilter_rfc s hb e]
  rw [kabs0_eq (s.p3 - s.p2) (by omega) (by omega), kabs0_eq (s.p2 - s.p1) (by omega) (by omega),
    kabs0_eq (s.p1 - s.p0) (by omega) (by omega), kabs0_eq (s.q3 - s.q2) (by omega) (by omega),
    kabs0_eq (s.q2 - s.q1) (by omega) (by omega), kabs0_eq (s.q1 - s.q0) (by omega) (by omega)]
  cases RFC.edgeTest e s.p1 s.p0 s.q0 s.q1 <;>
  by_cases h1 : i < RFC.iabs (s.p3 - s.p2) <;> by_cases h2 : i < RFC.iabs (s.p2 - s.p1) <;>
  by_cases h3 : i < RFC.iabs (s.p1 - s.p0) <;> by_cases h4 : i < RFC.iabs (s.q3 - s.q2) <;>
  by_cases h5 : i < RFC.iabs (s.q2 - s.q1) <;> simp [← Int.not_lt, h1, h2, h3, h4, h5]

/-! ### the three filters -/

/-- `doFilter2` = RFC `common_adjust(use_outer_taps = 1, …)` -/
theorem doFilter2_rfc (s : Seg) (hb : IsBytes s) :
    doFilter2 s = some { s with p0 := (RFC.commonAdjust true s.p1 s.p0 s.q0 s.q1).2.1,
                                q0 := (RFC.commonAdjust true s.p1 s.p0 s.q0 s.q1).2.2 } := by
  have g3 := hb.p1; have g4 := hb.p0; have g5 := hb.q0; have g6 := hb.q1
  unfold doFilter2
  simp (disch := rng) only [ksclip1_eq, ksclip2_eq, kclip1_eq, bind, Option.bind, pure]
  congr 1
  simp only [RFC.commonAdjust, RFC.c, RFC.u2s, RFC.s2u, clamp, if_true]
  congr 1 <;> omega

/-- `doFilter4` = the `!hev` branch of RFC `subblock_filter` -/
theorem doFilter4_rfc (s : Seg) (hb : IsBytes s) :
    doFilter4 s = some { s with
      p1 := RFC.s2u (RFC.u2s s.p1 + ((RFC.commonAdjust false s.p1 s.p0 s.q0 s.q1).1 + 1) / 2),
      p0 := (RFC.commonAdjust false s.p1 s.p0 s.q0 s.q1).2.1,
      q0 := (RFC.commonAdjust false s.p1 s.p0 s.q0 s.q1).2.2,
      q1 := RFC.s2u (RFC.u2s s.q1 - ((RFC.commonAdjust false s.p1 s.p0 s.q0 s.q1).1 + 1) / 2) } := by
  have g3 := hb.p1; have g4 := hb.p0; have g5 := hb.q0; have g6 := hb.q1
  unfold doFilter4
  simp (disch := rng) only [ksclip2_eq, kclip1_eq, bind, Option.bind, pure]
  congr 1
  simp only [RFC.commonAdjust, RFC.c, RFC.u2s, RFC.s2u, clamp, if_false, Bool.false_eq_true]
  congr 1 <;> omega

/-- the filter value `w` of RFC `MBfilter` is Go's `sclip1(3*(q0-p0) + sclip1(p1-q1))` -/
theorem w_eq (p1 p0 q0 q1 : Int) :
    RFC.c (RFC.c (RFC.u2s p1 - RFC.u2s q1) + 3 * (RFC.u2s q0 - RFC.u2s p0))
      = clamp (3 * (q0 - p0) + clamp (p1 - q1) (-128) 127) (-128) 127 := by
  simp only [RFC.c, RFC.u2s, clamp]; omega

theorem s2u_add (x m : Int) (hm : -128 ≤ m ∧ m ≤ 127) : RFC.s2u (RFC.u2s x + RFC.c m) = clamp (x + m) 0 255 := by
  simp only [RFC.c, RFC.u2s, RFC.s2u, clamp]; omega

theorem s2u_sub (x m : Int) (hm : -128 ≤ m ∧ m ≤ 127) : RFC.s2u (RFC.u2s x - RFC.c m) = clamp (x - m) 0 255 := by
  simp only [RFC.c, RFC.u2s, RFC.s2u, clamp]; omega

theorem clamp_range (v lo hi : Int) (h : lo ≤ hi) : lo ≤ clamp v lo hi ∧ clamp v lo hi ≤ hi := by
  unfold clamp; omega

/-- `doFilter6` with the lookups resolved (all inside their tables) -/
theorem doFilter6_go (s : Seg) (hb : IsBytes s) :
    doFilter6 s = some
      (let a := clamp (3 * (s.q0 - s.p0) + clamp (s.p1 - s.q1) (-128) 127) (-128) 127
       { s with p2 := clamp (s.p2 + (9 * a + 63) / 128) 0 255, p1 := clamp (s.p1 + (18 * a + 63) / 128) 0 255,
                p0 := clamp (s.p0 + (27 * a + 63) / 128) 0 255, q0 := clamp (s.q0 - (27 * a + 63) / 128) 0 255,
                q1 := clamp (s.q1 - (18 * a + 63) / 128) 0 255, q2 := clamp (s.q2 - (9 * a + 63) / 128) 0 255 }) := by
  have g2 := hb.p2; have g3 := hb.p1; have g4 := hb.p0; have g5 := hb.q0; have g6 := hb.q1; have g7 := hb.q2
  unfold doFilter6
  have r1 := clamp_range (s.p1 - s.q1) (-128) 127 (by omega)
  rw [ksclip1_eq (s.p1 - s.q1) (by omega) (by omega)]
  simp only [bind, Option.bind]
  rw [ksclip1_eq _ (by omega) (by omega)]
  simp only []
  have r2 := clamp_range (3 * (s.q0 - s.p0) + clamp (s.p1 - s.q1) (-128) 127) (-128) 127 (by omega)
  generalize clamp (3 * (s.q0 - s.p0) + clamp (s.p1 - s.q1) (-128) 127) (-128) 127 = a at r2 ⊢
  rw [kclip1_eq _ (by omega) (by omega)]
  simp only []
  rw [kclip1_eq _ (by omega) (by omega)]
  simp only []
  rw [kclip1_eq _ (by omega) (by omega)]
  simp only []
  rw [kclip1_eq _ (by omega) (by omega)]
  simp only []
  rw [kclip1_eq _ (by omega) (by omega)]
  simp only []
  rw [kclip1_eq _ (by omega) (by omega)]
  rfl

/-- `doFilter6` = the `!hev` branch of RFC `MBfilter` -/
theorem doFilter6_rfc (s : Seg) (hb : IsBytes s) :
    doFilter6 s = some
      (let w := RFC.c (RFC.c (RFC.u2s s.p1 - RFC.u2s s.q1) + 3 * (RFC.u2s s.q0 - RFC.u2s s.p0))
       let a1 := RFC.c ((27 * w + 63) / 128)
       let a2 := RFC.c ((18 * w + 63) / 128)
       let a3 := RFC.c ((9 * w + 63) / 128)
       { s with q0 := RFC.s2u (RFC.u2s s.q0 - a1), p0 := RFC.s2u (RFC.u2s s.p0 + a1),
                q1 := RFC.s2u (RFC.u2s s.q1 - a2), p1 := RFC.s2u (RFC.u2s s.p1 + a2),
                q2 := RFC.s2u (RFC.u2s s.q2 - a3), p2 := RFC.s2u (RFC.u2s s.p2 + a3) }) := by
  rw [doFilter6_go s hb]
  simp only [w_eq]
  have r2 := clamp_range (3 * (s.q0 - s.p0) + clamp (s.p1 - s.q1) (-128) 127) (-128) 127 (by omega)
  generalize clamp (3 * (s.q0 - s.p0) + clamp (s.p1 - s.q1) (-128) 127) (-128) 127 = a at r2 ⊢
  rw [s2u_add s.p0 _ (by omega), s2u_sub s.q0 _ (by omega), s2u_add s.p1 _ (by omega), s2u_sub s.q1 _ (by omega),
    s2u_add s.p2 _ (by omega), s2u_sub s.q2 _ (by omega)]

/-! ### one sample position of each loop -/

theorem simpleFilterGo_rfc (t : Int) (s : Seg) (hb : IsBytes s) :
    simpleFilterGo t s = some (RFC.simpleSegment t s) := by
  unfold simpleFilterGo RFC.simpleSegment
  rw [needsFilter_rfc s hb t]
  cases RFC.edgeTest t s.p1 s.p0 s.q0 s.q1
  · rfl
  · simpa [bind, Option.bind] using doFilter2_rfc s hb

theorem filterLoop26Go_rfc (t it hv : Int) (s : Seg) (hb : IsBytes s) :
    filterLoop26Go t it hv s = some (RFC.mbFilter hv it t s) := by
  unfold filterLoop26Go RFC.mbFilter
  rw [needsFilter2_rfc s hb t it, hev_rfc s hb hv]
  cases RFC.filterYes it t s
  · rfl
  · cases RFC.hevTest hv s
    · simpa [bind, Option.bind] using doFilter6_rfc s hb
    · simpa [bind, Option.bind] using doFilter2_rfc s hb

theorem filterLoop24Go_rfc (t it hv : Int) (s : Seg) (hb : IsBytes s) :
    filterLoop24Go t it hv s = some (RFC.subblockFilter hv it t s) := by
  unfold filterLoop24Go RFC.subblockFilter
  rw [needsFilter2_rfc s hb t it, hev_rfc s hb hv]
  cases RFC.filterYes it t s
  · rfl
  · cases h : RFC.hevTest hv s
    · simpa [bind, Option.bind] using doFilter4_rfc s hb
    · simpa [bind, Option.bind] using doFilter2_rfc s hb

/-- the filters keep bytes bytes -/
theorem s2u_byte (v : Int) : 0 ≤ RFC.s2u v ∧ RFC.s2u v ≤ 255 := by
  unfold RFC.s2u RFC.c clamp; omega

end Webp.Proofs.VP8Filter
