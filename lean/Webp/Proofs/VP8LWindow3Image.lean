import Webp.Proofs.VP8LWindow3Token
/-
  The WINDOW BUDGET, part 11: the pixel loop and one entropy-coded image with the register position
  they leave (`≤ 62` for the refills of the Go source), so that a `ReadBits(1)` may follow.
-/
namespace Webp.Proofs.VP8LWindow
open Webp.Go (Res)
open Webp.Spec.VP8L (BitReader Err Token Code Group EntropyParams readGroup readEntropyCodedImage decodePixels
  readColorCacheInfo greenAlphabetSize)
open Webp.Impl.VP8LEntropy
open Webp.Impl.VP8LWindow
open Webp.Impl.VP8LFastPaths (HTreeGroup Tables5 MaxLens5 mkGroup)
open Webp.Proofs.VP8LEntropyReader

/-- the window reader `r` stands at the specification reader `br`, register position `≤ 62` -/
def AtBit62 (buf : Array UInt8) (r : Reader) (br : BitReader) : Prop := ∃ P, br = brAt buf P ∧ Good buf r P 62

/-- every group is exactly what `readHuffmanCodes` builds for the specification's group -/
structure GroupsBuilt (ep : EntropyParams) (gs : Array HTreeGroup) : Prop where
  size : gs.size = ep.groups.size
  ok : ∀ i (h1 : i < gs.size) (h2 : i < ep.groups.size),
    ∃ t m Ng, Built ep.groups[i] t m Ng ∧ gs[i] = mkGroup t m

theorem goSource_step62 {ep : EntropyParams} {gs : Array HTreeGroup} (hgs : GroupsBuilt ep gs)
    (hx : ep.width ≤ 153391689) (buf : Array UInt8) (gi : Nat) (r : Reader) (br : BitReader)
    (hab : AtBit62 buf r br) :
    SimRes (AtBit62 buf) ((goSource gs ep.width).next gi r) ((specSource ep).next gi br) := by
  obtain ⟨P, rfl, hg⟩ := hab
  unfold goSource specSource
  dsimp only
  by_cases h : gi < gs.size
  · have h' : gi < ep.groups.size := by rw [← hgs.size]; exact h
    rw [dif_pos h, dif_pos h']
    obtain ⟨t, m, Ng, hB, heq⟩ := hgs.ok gi h h'
    have hA := readTokenAt_agree_builtK hB (fs := goFills) (by decide) hg (by omega) hx
    rw [oToken_go] at hA
    unfold readTokenGo
    rw [heq]
    rcases hA with ⟨tk, r', P', h1, h2, h3⟩ | ⟨h1, h2⟩
    · rw [h1, h2]; exact ⟨r', rfl, P', rfl, h3.mono (by omega)⟩
    · rw [h1, h2]; rfl
  · have h' : ¬ gi < ep.groups.size := by rw [← hgs.size]; exact h
    rw [dif_neg h, dif_neg h']
    rfl

/-- the pixel loop over the real reader leaves the register position `≤ 62` -/
theorem decodePixelLoop_window62 {ep : EntropyParams} {gs : Array HTreeGroup} (hgs : GroupsBuilt ep gs)
    (hidx : ∀ e ∈ ep.entropy, e < ep.groups.size) (hx : ep.width ≤ 153391689)
    {buf : Array UInt8} {r : Reader} {P : Nat} (hg : Good buf r P 62) :
    SimRes (AtBit62 buf) (decodePixelLoop (goSource gs ep.width) (LoopParams.ofSpec ep) r)
      (Webp.Spec.VP8L.decodePixels ep (brAt buf P)) := by
  rw [← Webp.Proofs.VP8LEntropyLoop.decodePixelLoop_eq_spec' ep (brAt buf P) hidx]
  exact decodePixelLoop_sim _ _ _ _ (fun gi a b hab => goSource_step62 hgs hx buf gi a b hab) r (brAt buf P)
    ⟨P, rfl, hg⟩

/-- `readCodes_agree` keeping the slack: from register position `≤ k` (`39 ≤ k ≤ 63`) to `≤ k` -/
theorem readCodes_agreeK (buf : Array UInt8) (k : Nat) (h39 : 39 ≤ k) (hk : k ≤ 63) :
    ∀ (as : List Nat) (r : Reader) (P : Nat), Good buf r P k →
    RelOut (fun tms cs => CodesBuilt as tms cs) buf k (readCodesGo as r) (readCodesSpec as (brAt buf P)) := by
  intro as
  induction as with
  | nil => intro r P hg; exact ⟨[], r, P, rfl, trivial, rfl, hg⟩
  | cons a as ih =>
    intro r P hg
    have h1 := readHuffmanCodeGo_agree (buf := buf) a (hg.mono hk)
    unfold readCodesGo readCodesSpec
    cases hs : Webp.Spec.VP8L.readCode a (brAt buf P) with
    | ok x =>
      obtain ⟨c, br1⟩ := x
      rw [hs] at h1
      obtain ⟨tm, r1, P1, hgo, hb, hbr, hg1⟩ := h1
      rw [hgo, hbr]
      dsimp only
      have h2 := ih r1 P1 (hg1.mono h39)
      cases hs2 : readCodesSpec as (brAt buf P1) with
      | ok y =>
        obtain ⟨cs, br2⟩ := y
        rw [hs2] at h2
        obtain ⟨tms, r2, P2, hgo2, hb2, hbr2, hg2⟩ := h2
        rw [hgo2]
        exact ⟨tm :: tms, r2, P2, rfl, ⟨hb, hb2⟩, hbr2, hg2⟩
      | err e =>
        rw [hs2] at h2
        obtain ⟨e', hgo2⟩ := h2
        rw [hgo2]
        exact ⟨e', rfl⟩
      | panic => trivial
      | hang => trivial
    | err e =>
      rw [hs] at h1
      obtain ⟨e', hgo⟩ := h1
      rw [hgo]
      exact ⟨e', rfl⟩
    | panic => trivial
    | hang => trivial

/-- `readGroup_agree` with the `Built` witness and the register position `≤ 39` it leaves -/
theorem readGroup_agreeBK {buf : Array UInt8} (k : Nat) (h39 : 39 ≤ k) (hk : k ≤ 63) (cb : Nat) (hcb : cb ≤ 11)
    {r : Reader} {P : Nat} (hg : Good buf r P k) :
    RelOut (fun g G => ∃ t m Ng, Built G t m Ng ∧ g = mkGroup t m) buf k (readGroupGo cb r)
      (readGroup cb (brAt buf P)) := by
  have hL := readCodes_agreeK buf k h39 hk [greenAlphabetSize cb, 256, 256, 256, 40] r P hg
  obtain ⟨hok, herr⟩ := readGroup_codes cb (brAt buf P)
  have hgs : greenAlphabetSize cb ≤ 2 ^ 32 := by
    unfold greenAlphabetSize Webp.Spec.VP8L.numLiteralCodes Webp.Spec.VP8L.numLengthCodes
    split
    · decide
    · rw [Nat.one_shiftLeft]
      have : 2 ^ cb ≤ 2 ^ 11 := Nat.pow_le_pow_right (by decide) hcb
      omega
  unfold readGroupGo
  cases hsp : readGroup cb (brAt buf P) with
  | ok x =>
    obtain ⟨G, br'⟩ := x
    rw [hok G br' hsp] at hL
    obtain ⟨tms, r', P', hgo, hb, hbr, hg'⟩ := hL
    rw [hgo]
    match tms, hb with
    | [g, rd, b, a, d], ⟨⟨lg, sg, cg, tg, mg⟩, ⟨lr, sr, cr, tr, mr⟩, ⟨lb, sb, cb', tb, mb⟩, ⟨la, sa, ca, ta, ma⟩,
        ⟨ld, sd, cd, td, md⟩, _⟩ =>
      refine ⟨_, r', P', rfl, ?_, hbr, hg'⟩
      rw [mg, mr, mb, ma, md]
      exact ⟨_, _, _, built_of_lens (by rw [sg]; exact hgs) (by omega) (by omega) (by omega) (by omega)
        cg tg cr tr cb' tb ca ta cd td, rfl⟩
  | err e =>
    obtain ⟨e', he'⟩ := herr e hsp
    rw [he'] at hL
    obtain ⟨e2, hgo⟩ := hL
    rw [hgo]
    exact ⟨e2, rfl⟩
  | panic => trivial
  | hang => trivial

theorem readGroup_agreeB {buf : Array UInt8} (cb : Nat) (hcb : cb ≤ 11) {r : Reader} {P : Nat} (hg : Good buf r P 39) :
    RelOut (fun g G => ∃ t m Ng, Built G t m Ng ∧ g = mkGroup t m) buf 39 (readGroupGo cb r)
      (readGroup cb (brAt buf P)) := readGroup_agreeBK 39 (by omega) (by omega) cb hcb hg

/-! ## one entropy-coded image, register position `≤ 62` afterwards -/

theorem imageBody_agree62 {buf : Array UInt8} (w h cb : Nat) (hcb : cb ≤ 11) (hw : w ≤ 153391689) {r : Reader} {P : Nat}
    (hg : Good buf r P 39) :
    RelOut (fun a b => a = b) buf 62 (imageBody w h cb r) (specBody w h cb (brAt buf P)) := by
  have hG := readGroup_agreeB (buf := buf) cb hcb hg
  unfold imageBody specBody
  simp only [bind, Res.bind]
  cases hsp : readGroup cb (brAt buf P) with
  | ok x =>
    obtain ⟨G, br'⟩ := x
    rw [hsp] at hG
    obtain ⟨g, r', P', hgo, hfor, hbr, hg'⟩ := hG
    rw [hgo, hbr]
    dsimp only
    have hgs : GroupsBuilt { width := w, height := h, cacheBits := cb, groups := #[G] } #[g] := by
      refine ⟨rfl, ?_⟩
      intro i h1 h2
      have : i = 0 := by simp at h1; omega
      subst this
      exact hfor
    have hloop := decodePixelLoop_window62 hgs (by intro e he; simp at he) hw (hg'.mono (by omega : 39 ≤ 62))
    unfold SimRes at hloop
    cases hd : decodePixels { width := w, height := h, cacheBits := cb, groups := #[G] } (brAt buf P') with
    | ok y =>
      obtain ⟨px, br2⟩ := y
      rw [hd] at hloop
      obtain ⟨r2, hgo2, P2, hbr2, hg2⟩ := hloop
      exact ⟨px, r2, P2, hgo2, rfl, hbr2, hg2⟩
    | err e => rw [hd] at hloop; exact ⟨e, hloop⟩
    | panic => trivial
    | hang => trivial
  | err e =>
    rw [hsp] at hG
    obtain ⟨e', hgo⟩ := hG
    rw [hgo]
    exact ⟨e', rfl⟩
  | panic => trivial
  | hang => trivial

/-- **one entropy-coded image (`decodeSubImage`) from register position `≤ 63`, leaving `≤ 62`** -/
theorem decodeEntropyImage_agree62 {buf : Array UInt8} (w h : Nat) (hw : w ≤ 153391689) {r : Reader} {P : Nat}
    (hg : Good buf r P 63) :
    RelOut (fun a b => a = b) buf 62 (decodeEntropyImageGo w h r) (readEntropyCodedImage w h (brAt buf P)) := by
  rw [readEntropyCodedImage_eq]
  unfold decodeEntropyImageGo readColorCacheInfo
  simp only [bind, Res.bind, pure]
  rcases readBits_good hg 1 (by omega) (by omega) with ⟨h1, g1⟩ | ⟨h1, d1⟩
  swap
  · rw [h1]
    show ∃ e', _ = Res.err e'
    by_cases hb : (r.readBits 1).1 = 1
    · rw [if_pos hb]
      exact ite_err _ _ _ (imageBody_doomed w h _ (doomed_readBits d1 4))
    · rw [if_neg hb]
      exact imageBody_doomed w h 0 d1
  rw [h1]
  simp only
  by_cases hb : (r.readBits 1).1 = 1
  · rw [if_pos hb, if_pos ((u32_eq_one _).mp hb)]
    rcases readBits_good g1 4 (by omega) (by omega) with ⟨h4, g4⟩ | ⟨h4, d4⟩
    swap
    · rw [h4]
      show ∃ e', _ = Res.err e'
      exact ite_err _ _ _ (imageBody_doomed w h _ d4)
    rw [h4]
    simp only
    by_cases hr : ((r.readBits 1).2.readBits 4).1.toNat < 1 ∨ ((r.readBits 1).2.readBits 4).1.toNat > 11
    · rw [if_pos hr, if_pos hr]
      exact ⟨_, rfl⟩
    · rw [if_neg hr, if_neg hr]
      exact imageBody_agree62 w h ((r.readBits 1).2.readBits 4).1.toNat (by omega) hw (g4.mono (by omega))
  · rw [if_neg hb, if_neg (fun hh => hb ((u32_eq_one _).mpr hh))]
    exact imageBody_agree62 w h 0 (by omega) hw (g1.mono (by omega))

end Webp.Proofs.VP8LWindow
