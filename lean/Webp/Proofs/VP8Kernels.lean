import Lean.Elab.Tactic
import Webp.Impl.VP8Kernels
/-
  Helper lemmas about the reference kernels of `Webp.Impl.VP8Kernels` (used by `Props/C04Kernels`
  and `Props/C13`).  Everything here is about the portable Go formulas; no assembly is modelled.
-/
namespace Webp.Proofs.VP8Kernels
open Webp.Impl.VP8Kernels

open Lean Elab Tactic Meta in
/-- Remove `mdata` annotations from the goal.  The elaboration of `let … match` in the model leaves
    `save_info` annotations inside arithmetic terms and `omega` does not look through them. -/
elab "strip_mdata" : tactic => liftMetaTactic fun g => do
  let t ← instantiateMVars (← g.getType)
  let t' ← Core.transform t (pre := fun e => pure (if e.isMData then .visit e.consumeMData else .continue))
  return [← g.replaceTargetDefEq t']

theorem mul1_zero : mul1 0 = 0 := by decide
theorem mul2_zero : mul2 0 = 0 := by decide

theorem store_congr {p a b : Int} (h : a = b) : store p a = store p b := by rw [h]

theorem lt16_cases {k : Nat} (hk : k < 16) : k = 0 ∨ k = 1 ∨ k = 2 ∨ k = 3 ∨ k = 4 ∨ k = 5 ∨ k = 6 ∨ k = 7 ∨
    k = 8 ∨ k = 9 ∨ k = 10 ∨ k = 11 ∨ k = 12 ∨ k = 13 ∨ k = 14 ∨ k = 15 := by omega

/-! ## Inverse DCT fast paths -/

/-- coefficients supported on `{0}` -/
def DCOnly (c : Nat → Int) : Prop := ∀ k, 1 ≤ k → k < 16 → c k = 0
/-- coefficients supported on `{0, 1, 4}` -/
def AC3Only (c : Nat → Int) : Prop := ∀ k, k < 16 → k ≠ 0 → k ≠ 1 → k ≠ 4 → c k = 0

theorem transformDC_eq (c p : Nat → Int) (h : DCOnly c) (k : Nat) (hk : k < 16) :
    transformDC c p k = transformOne c p k := by
  have h1 := h 1 (by omega) (by omega); have h2 := h 2 (by omega) (by omega)
  have h3 := h 3 (by omega) (by omega); have h4 := h 4 (by omega) (by omega)
  have h5 := h 5 (by omega) (by omega); have h6 := h 6 (by omega) (by omega)
  have h7 := h 7 (by omega) (by omega); have h8 := h 8 (by omega) (by omega)
  have h9 := h 9 (by omega) (by omega); have h10 := h 10 (by omega) (by omega)
  have h11 := h 11 (by omega) (by omega); have h12 := h 12 (by omega) (by omega)
  have h13 := h 13 (by omega) (by omega); have h14 := h 14 (by omega) (by omega)
  have h15 := h 15 (by omega) (by omega)
  rcases lt16_cases hk with rfl | rfl | rfl | rfl | rfl | rfl | rfl | rfl | rfl | rfl | rfl | rfl | rfl | rfl | rfl | rfl <;>
    simp [transformDC, transformOne, hres, vtmp, h1, h2, h3, h4, h5, h6, h7, h8, h9, h10, h11, h12, h13, h14, h15,
      mul1_zero, mul2_zero]

theorem transformAC3_eq (c p : Nat → Int) (h : AC3Only c) (k : Nat) (hk : k < 16) :
    transformAC3 c p k = transformOne c p k := by
  have h2 := h 2 (by omega) (by omega) (by omega) (by omega)
  have h3 := h 3 (by omega) (by omega) (by omega) (by omega)
  have h5 := h 5 (by omega) (by omega) (by omega) (by omega)
  have h6 := h 6 (by omega) (by omega) (by omega) (by omega)
  have h7 := h 7 (by omega) (by omega) (by omega) (by omega)
  have h8 := h 8 (by omega) (by omega) (by omega) (by omega)
  have h9 := h 9 (by omega) (by omega) (by omega) (by omega)
  have h10 := h 10 (by omega) (by omega) (by omega) (by omega)
  have h11 := h 11 (by omega) (by omega) (by omega) (by omega)
  have h12 := h 12 (by omega) (by omega) (by omega) (by omega)
  have h13 := h 13 (by omega) (by omega) (by omega) (by omega)
  have h14 := h 14 (by omega) (by omega) (by omega) (by omega)
  have h15 := h 15 (by omega) (by omega) (by omega) (by omega)
  rcases lt16_cases hk with rfl | rfl | rfl | rfl | rfl | rfl | rfl | rfl | rfl | rfl | rfl | rfl | rfl | rfl | rfl | rfl <;>
    simp [transformAC3, transformOne, hres, vtmp, h2, h3, h5, h6, h7, h8, h9, h10, h11, h12, h13, h14, h15,
      mul1_zero, mul2_zero] <;> (refine store_congr ?_; strip_mdata; omega)

/-- the inline DC path of `doTransform` is `transformDC` -/
theorem dcInline_eq_transformDC (c p : Nat → Int) (k : Nat) : dcInline c p k = transformDC c p k := rfl

theorem clip8b_id {v : Int} (h0 : 0 ≤ v) (h1 : v ≤ 255) : clip8b v = v := by
  unfold clip8b; simp [h0, h1]

/-- all-zero coefficients leave the prediction unchanged (code 0 of `doTransform`) -/
theorem transformOne_zero (c p : Nat → Int) (h0 : c 0 = 0) (h : DCOnly c) (k : Nat) (hk : k < 16)
    (hp : 0 ≤ p k ∧ p k ≤ 255) : transformOne c p k = p k := by
  rw [← transformDC_eq c p h k hk]
  unfold transformDC store
  rw [h0]
  simpa using clip8b_id hp.1 hp.2

/-- what `ZeroFrom c nz` gives for the three ranges of `nz` that `nzCodeBits` distinguishes -/
theorem zeroFrom_le1 (c : Nat → Int) (nz : Nat) (h : ZeroFrom c nz) (hnz : nz ≤ 1) : DCOnly c := by
  intro k hk1 hk
  rcases lt16_cases hk with rfl | rfl | rfl | rfl | rfl | rfl | rfl | rfl | rfl | rfl | rfl | rfl | rfl | rfl | rfl | rfl
  · omega
  · exact h 1 (by omega) (by omega)
  · exact h 5 (by omega) (by omega)
  · exact h 6 (by omega) (by omega)
  · exact h 2 (by omega) (by omega)
  · exact h 4 (by omega) (by omega)
  · exact h 7 (by omega) (by omega)
  · exact h 12 (by omega) (by omega)
  · exact h 3 (by omega) (by omega)
  · exact h 8 (by omega) (by omega)
  · exact h 11 (by omega) (by omega)
  · exact h 13 (by omega) (by omega)
  · exact h 9 (by omega) (by omega)
  · exact h 10 (by omega) (by omega)
  · exact h 14 (by omega) (by omega)
  · exact h 15 (by omega) (by omega)

theorem zeroFrom_le3 (c : Nat → Int) (nz : Nat) (h : ZeroFrom c nz) (hnz : nz ≤ 3) : AC3Only c := by
  intro k hk h0 h1 h4
  rcases lt16_cases hk with rfl | rfl | rfl | rfl | rfl | rfl | rfl | rfl | rfl | rfl | rfl | rfl | rfl | rfl | rfl | rfl
  · omega
  · omega
  · exact h 5 (by omega) (by omega)
  · exact h 6 (by omega) (by omega)
  · omega
  · exact h 4 (by omega) (by omega)
  · exact h 7 (by omega) (by omega)
  · exact h 12 (by omega) (by omega)
  · exact h 3 (by omega) (by omega)
  · exact h 8 (by omega) (by omega)
  · exact h 11 (by omega) (by omega)
  · exact h 13 (by omega) (by omega)
  · exact h 9 (by omega) (by omega)
  · exact h 10 (by omega) (by omega)
  · exact h 14 (by omega) (by omega)
  · exact h 15 (by omega) (by omega)

/-- `doTransform` under the code `nzCodeBits` computes equals the full inverse DCT -/
theorem doTransform_nzCode (c p : Nat → Int) (nz : Nat) (h : ZeroFrom c nz) (k : Nat) (hk : k < 16)
    (hp : 0 ≤ p k ∧ p k ≤ 255) :
    doTransform (nzCode nz (decide (c 0 ≠ 0))) c p k = transformOne c p k := by
  unfold nzCode
  by_cases h3 : nz > 3
  · simp [h3, doTransform]
  · by_cases h1 : nz > 1
    · simp [h3, h1, doTransform]
      exact transformAC3_eq c p (zeroFrom_le3 c nz h (by omega)) k hk
    · have hdc := zeroFrom_le1 c nz h (by omega)
      by_cases h0 : c 0 = 0
      · simp [h3, h1, h0, doTransform]
        exact (transformOne_zero c p h0 hdc k hk hp).symm
      · simp [h3, h1, h0, doTransform]
        rw [dcInline_eq_transformDC]
        exact transformDC_eq c p hdc k hk

/-! ## Walsh–Hadamard: the decoder's DC-only shortcut -/

theorem whtDCOnly_eq (c : Nat → Int) (h : DCOnly c) (k : Nat) (hk : k < 16) :
    whtDCOnly c k = transformWHT c k := by
  have h1 := h 1 (by omega) (by omega); have h2 := h 2 (by omega) (by omega)
  have h3 := h 3 (by omega) (by omega); have h4 := h 4 (by omega) (by omega)
  have h5 := h 5 (by omega) (by omega); have h6 := h 6 (by omega) (by omega)
  have h7 := h 7 (by omega) (by omega); have h8 := h 8 (by omega) (by omega)
  have h9 := h 9 (by omega) (by omega); have h10 := h 10 (by omega) (by omega)
  have h11 := h 11 (by omega) (by omega); have h12 := h 12 (by omega) (by omega)
  have h13 := h 13 (by omega) (by omega); have h14 := h 14 (by omega) (by omega)
  have h15 := h 15 (by omega) (by omega)
  rcases lt16_cases hk with rfl | rfl | rfl | rfl | rfl | rfl | rfl | rfl | rfl | rfl | rfl | rfl | rfl | rfl | rfl | rfl <;>
    simp [whtDCOnly, transformWHT, iwhtTmp, h1, h2, h3, h4, h5, h6, h7, h8, h9, h10, h11, h12, h13, h14, h15]

/-! ## Clip tables: lookup = clamp, inside the table bounds -/

theorem ksclip1_eq (v : Int) (h1 : -893 ≤ v) (h2 : v ≤ 892) : ksclip1 v = some (clamp v (-128) 127) := by
  unfold ksclip1 tblGet sclip1Table
  have hn : ¬ (893 + v < 0) := by omega
  obtain ⟨n, hn'⟩ : ∃ n : Nat, 893 + v = (n : Int) := ⟨(893 + v).toNat, by omega⟩
  rw [hn'] at hn ⊢
  simp only [hn, if_false, Int.toNat_natCast]
  have hlt : n < 1786 := by omega
  simp [List.getElem?_map, List.getElem?_range hlt]
  unfold clamp toI8
  have : (n : Int) - 893 = v := by omega
  rw [this]
  omega

theorem ksclip2_eq (v : Int) (h1 : -112 ≤ v) (h2 : v ≤ 112) : ksclip2 v = some (clamp v (-16) 15) := by
  unfold ksclip2 tblGet sclip2Table
  have hn : ¬ (112 + v < 0) := by omega
  obtain ⟨n, hn'⟩ : ∃ n : Nat, 112 + v = (n : Int) := ⟨(112 + v).toNat, by omega⟩
  rw [hn'] at hn ⊢
  simp only [hn, if_false, Int.toNat_natCast]
  have hlt : n < 225 := by omega
  simp [List.getElem?_map, List.getElem?_range hlt]
  unfold clamp toI8
  have : (n : Int) - 112 = v := by omega
  rw [this]
  omega

theorem kclip1_eq (v : Int) (h1 : -255 ≤ v) (h2 : v ≤ 511) : kclip1 v = some (clamp v 0 255) := by
  unfold kclip1 tblGet clip1Table
  have hn : ¬ (255 + v < 0) := by omega
  obtain ⟨n, hn'⟩ : ∃ n : Nat, 255 + v = (n : Int) := ⟨(255 + v).toNat, by omega⟩
  rw [hn'] at hn ⊢
  simp only [hn, if_false, Int.toNat_natCast]
  have hlt : n < 767 := by omega
  simp [List.getElem?_map, List.getElem?_range hlt]
  unfold clamp toU8
  have : (n : Int) - 255 = v := by omega
  rw [this]
  omega

theorem kabs0_eq (v : Int) (h1 : -255 ≤ v) (h2 : v ≤ 255) : kabs0 v = some (RFC.iabs v) := by
  unfold kabs0 tblGet abs0Table
  have hn : ¬ (255 + v < 0) := by omega
  obtain ⟨n, hn'⟩ : ∃ n : Nat, 255 + v = (n : Int) := ⟨(255 + v).toNat, by omega⟩
  rw [hn'] at hn ⊢
  simp only [hn, if_false, Int.toNat_natCast]
  have hlt : n < 511 := by omega
  simp [List.getElem?_map, List.getElem?_range hlt]
  unfold RFC.iabs toU8
  have : (n : Int) - 255 = v := by omega
  rw [this]
  omega

/-- outside its range a table lookup is a Go run-time panic (the bounds are tight) -/
theorem ksclip1_oob (v : Int) (h : v < -893 ∨ 892 < v) : ksclip1 v = none := by
  unfold ksclip1 tblGet sclip1Table
  by_cases hn : 893 + v < 0
  · simp [hn]
  · simp only [hn, if_false]
    have : 1786 ≤ (893 + v).toNat := by omega
    simp [List.getElem?_eq_none, this]

/-! ## YUV → RGB -/

theorem yuvClip_eq (val : Int) : yuvClip val = some (clip8Ref val) := by
  unfold yuvClip clip8Ref clamp
  by_cases h0 : val < 0
  · simp only [h0, if_true]
    have : val / 64 < 0 := by omega
    simp [this]
  · simp only [h0, if_false]
    by_cases h1 : val > 16383
    · simp only [h1, if_true]
      have : ¬ (val / 64 < 0) := by omega
      have h2 : val / 64 > 255 := by omega
      simp [this, h2]
    · simp only [h1, if_false]
      unfold tblGet yuvClipTable
      obtain ⟨n, hn'⟩ : ∃ n : Nat, val = (n : Int) := ⟨val.toNat, by omega⟩
      subst hn'
      have hlt : n < 16384 := by omega
      simp only [h0, if_false, Int.toNat_natCast]
      simp [List.getElem?_map, List.getElem?_range hlt]
      unfold toU8
      omega

theorem clip8Ref_range (val : Int) : 0 ≤ clip8Ref val ∧ clip8Ref val ≤ 255 := by
  unfold clip8Ref clamp; omega

/-! ## Quantisation -/

theorem toI16_id {x : Int} (h1 : -32768 ≤ x) (h2 : x ≤ 32767) : toI16 x = x := by
  unfold toI16; omega

/-- the unsigned level depends on `|v|` only -/
theorem quantOne_mag_neg (v s iq b : Int) : (quantOne (-v) s iq b).1 = (quantOne v s iq b).1 := by
  unfold quantOne
  have : (if -v < 0 then -(-v) else -v) = (if v < 0 then -v else v) := by omega
  simp only [this]

theorem quantOne_mag_range (v s iq b : Int) : 0 ≤ (quantOne v s iq b).1 ∧ (quantOne v s iq b).1 ≤ 2047 := by
  unfold quantOne u32
  simp only
  omega

theorem quantOne_level (v s iq b : Int) :
    (quantOne v s iq b).2 = (if v < 0 then -1 else 1) * (quantOne v s iq b).1 := by
  have hr := quantOne_mag_range v s iq b
  have : (quantOne v s iq b).2 = toI16 ((if v < 0 then -1 else 1) * (quantOne v s iq b).1) := by
    unfold quantOne; rfl
  rw [this]
  apply toI16_id <;> split <;> omega

/-- `doUVTransform` under the four codes `nzCodeBits` computes equals the full inverse DCT of every block -/
theorem doUVTransform_nzCode (c p : Nat → Nat → Int) (nz : Nat → Nat)
    (h : ∀ b, b < 4 → ZeroFrom (c b) (nz b)) (b : Nat) (hb : b < 4) (k : Nat) (hk : k < 16)
    (hp : 0 ≤ p b k ∧ p b k ≤ 255) :
    doUVTransform (fun b => nzCode (nz b) (decide (c b 0 ≠ 0))) c p b k = transformOne (c b) (p b) k := by
  unfold doUVTransform
  simp only
  split
  · -- all four codes are 0: every block is all-zero
    rename_i hall
    have hcode : nzCode (nz b) (decide (c b 0 ≠ 0)) = 0 := by
      have : b = 0 ∨ b = 1 ∨ b = 2 ∨ b = 3 := by omega
      rcases this with rfl | rfl | rfl | rfl
      · exact hall.1
      · exact hall.2.1
      · exact hall.2.2.1
      · exact hall.2.2.2
    have := doTransform_nzCode (c b) (p b) (nz b) (h b hb) k hk hp
    rw [hcode] at this
    simpa [doTransform] using this
  · split
    · rfl
    · -- all codes are 0 or 1: DC-only blocks
      rename_i _ hsmall
      have hcode : nzCode (nz b) (decide (c b 0 ≠ 0)) ≤ 1 := by
        have : b = 0 ∨ b = 1 ∨ b = 2 ∨ b = 3 := by omega
        rcases this with rfl | rfl | rfl | rfl <;> omega
      have hnz : nz b ≤ 1 := by
        unfold nzCode at hcode
        by_cases h3 : nz b > 3
        · simp [h3] at hcode
        · by_cases h1 : nz b > 1
          · simp [h3, h1] at hcode
          · omega
      have hdc := zeroFrom_le1 (c b) (nz b) (h b hb) hnz
      by_cases h0 : c b 0 = 0
      · simp only [h0, ne_eq, not_true_eq_false, if_false]
        exact (transformOne_zero (c b) (p b) h0 hdc k hk hp).symm
      · simp only [ne_eq, h0, not_false_eq_true, if_true]
        rw [dcInline_eq_transformDC]
        exact transformDC_eq (c b) (p b) hdc k hk

end Webp.Proofs.VP8Kernels
