import Webp.Proofs.VP8ReconTokens
/-
  C06 helper: the intra-mode syntax of partition 0 — `parseIntraModeRow` reads back what
  `writeMBModes` wrote, and both sides keep the same mode contexts.
-/
namespace Webp.Proofs.VP8ReconModes
open Webp.Impl.VP8Recon Webp.Proofs.VP8ReconTokens

theorem i16_roundtrip (m : Nat) (hm : m < 4) (rest : Stream) :
    readI16Mode (writeI16Mode m ++ rest) = some (m, rest) := by
  have : m = 0 ∨ m = 1 ∨ m = 2 ∨ m = 3 := by omega
  rcases this with h | h | h | h <;> subst h <;> simp [writeI16Mode, readI16Mode]

theorem uv_roundtrip (m : Nat) (hm : m < 4) (rest : Stream) :
    readUVMode (writeUVMode m ++ rest) = some (m, rest) := by
  have : m = 0 ∨ m = 1 ∨ m = 2 ∨ m = 3 := by omega
  rcases this with h | h | h | h <;> subst h <;> simp [writeUVMode, readUVMode]

theorem seg_roundtrip (id : Nat) (hm : id < 4) (rest : Stream) :
    readSegmentID (writeSegmentID id ++ rest) = some (id, rest) := by
  have : id = 0 ∨ id = 1 ∨ id = 2 ∨ id = 3 := by omega
  rcases this with h | h | h | h <;> subst h <;> simp [writeSegmentID, readSegmentID, b2n]

/-- the path of mode `m` through `KYModesIntra4`: (node, bit) -/
def i4Path : Nat → List (Nat × Bool)
  | 0 => [(0, false)]
  | 1 => [(0, true), (1, false)]
  | 2 => [(0, true), (1, true), (2, false)]
  | 3 => [(0, true), (1, true), (2, true), (3, false), (4, false)]
  | 4 => [(0, true), (1, true), (2, true), (3, false), (4, true), (5, false)]
  | 5 => [(0, true), (1, true), (2, true), (3, false), (4, true), (5, true)]
  | 6 => [(0, true), (1, true), (2, true), (3, true), (6, false)]
  | 7 => [(0, true), (1, true), (2, true), (3, true), (6, true), (7, false)]
  | 8 => [(0, true), (1, true), (2, true), (3, true), (6, true), (7, true), (8, false)]
  | _ => [(0, true), (1, true), (2, true), (3, true), (6, true), (7, true), (8, true)]

/-- `writeI4Loop` without the slots -/
def loopPath (mode : Nat) : Nat → Int → List (Nat × Bool)
  | 0, _ => []
  | fuel + 1, i =>
    if i > 0 then
      let l := treeAt (2 * i.toNat)
      let bit := !i4SubtreeContains 10 l mode
      (i.toNat, bit) :: loopPath mode fuel (treeAt (2 * i.toNat + b2n bit))
    else []

def modePath (mode : Nat) : List (Nat × Bool) :=
  let bit := !i4SubtreeContains 10 (treeAt 0) mode
  (0, bit) :: loopPath mode 10 (treeAt (b2n bit))

theorem writeI4Loop_path (top left mode : Nat) : ∀ (fuel : Nat) (i : Int),
    writeI4Loop top left mode fuel i = (loopPath mode fuel i).map (fun p => ⟨.bmode top left p.1, p.2⟩) := by
  intro fuel
  induction fuel with
  | zero => intro i; rfl
  | succ fuel ih =>
    intro i
    unfold writeI4Loop loopPath
    split
    · simp only [List.map_cons]; rw [ih]
    · rfl

theorem modePath_eq : ∀ m : Fin 10, modePath m.val = i4Path m.val := by decide +kernel

theorem writeI4Mode_path (top left : Nat) (m : Nat) (hm : m < 10) :
    writeI4Mode top left m = (i4Path m).map (fun p => ⟨.bmode top left p.1, p.2⟩) := by
  rw [← modePath_eq ⟨m, hm⟩]
  unfold writeI4Mode modePath
  simp only [List.map_cons]
  rw [writeI4Loop_path]

/-- `readI4Loop` on a slot-free path; succeeds only if the path is consumed exactly -/
def readPath : Nat → Int → List (Nat × Bool) → Option Nat
  | 0, _, _ => none
  | fuel + 1, i, path =>
    if i > 0 then
      match path with
      | (k, b) :: path' => if k = i.toNat then readPath fuel (treeAt (2 * i.toNat + b2n b)) path' else none
      | [] => none
    else (if path = [] then some (-i).toNat else none)

theorem readI4Loop_path (top left : Nat) (rest : Stream) : ∀ (fuel : Nat) (i : Int) (path : List (Nat × Bool)) (m : Nat),
    readPath fuel i path = some m →
    readI4Loop top left fuel i (path.map (fun p => (⟨.bmode top left p.1, p.2⟩ : Decision)) ++ rest) = some (m, rest) := by
  intro fuel
  induction fuel with
  | zero => intro i path m h; simp [readPath] at h
  | succ fuel ih =>
    intro i path m h
    unfold readPath at h
    unfold readI4Loop
    by_cases hi : i > 0
    · simp only [hi, if_true] at h ⊢
      match path, h with
      | (k, b) :: path', h =>
        by_cases hk : k = i.toNat
        · simp only [hk, if_true] at h
          subst hk
          simp only [List.map_cons, List.cons_append, readBit_hit, Option.bind_some]
          exact ih _ _ _ h
        · simp [hk] at h
    · simp only [hi, if_false] at h ⊢
      by_cases hp : path = []
      · subst hp
        simp only [if_true, Option.some.injEq] at h
        simp [h]
      · simp [hp] at h

theorem readPath_i4Path : ∀ m : Fin 10,
    (match i4Path m.val with
     | (0, b) :: path' => readPath 10 (treeAt (b2n b)) path'
     | _ => none) = some m.val := by decide +kernel

theorem i4_roundtrip (top left m : Nat) (hm : m < 10) (rest : Stream) :
    readI4Mode top left (writeI4Mode top left m ++ rest) = some (m, rest) := by
  rw [writeI4Mode_path top left m hm]
  have h := readPath_i4Path ⟨m, hm⟩
  unfold readI4Mode
  match hp : i4Path m, h with
  | (0, b) :: path', h =>
    simp only [List.map_cons, List.cons_append, readBit_hit, Option.bind_some]
    rw [readI4Loop_path top left rest 10 _ path' m h]
    have : ¬ (m ≥ 10) := by omega
    simp [this]

/-! ### one macroblock -/

theorem i4row_roundtrip (d : MBDesc) (hm : ∀ b, d.i4modes b < 10) (y : Nat) (hy : y < 4) (rest : Stream) :
    ∀ (xs : List (Fin 4)) (top : Fin 4 → Nat) (ymode : Nat) (modes : Fin 16 → Nat),
      decI4Row y xs top ymode modes ((encI4Row d y xs top ymode).1 ++ rest) =
        some ((encI4Row d y xs top ymode).2.1, (encI4Row d y xs top ymode).2.2,
              (fun b => if (∃ x ∈ xs, b.val = 4 * y + x.val) then d.i4modes b else modes b), rest) := by
  intro xs
  induction xs with
  | nil => intro top ymode modes; simp [decI4Row, encI4Row]
  | cons x xs ih =>
    intro top ymode modes
    have hb : 4 * y + x.val < 16 := by have := x.isLt; omega
    simp only [decI4Row, encI4Row, hb, dite_true, List.append_assoc]
    rw [i4_roundtrip _ _ _ (hm _)]
    simp only [Option.bind_some]
    rw [ih]
    have hfun : (fun b : Fin 16 => if (∃ x' ∈ xs, b.val = 4 * y + x'.val) then d.i4modes b
          else if b = ⟨4 * y + x.val, hb⟩ then d.i4modes ⟨4 * y + x.val, hb⟩ else modes b) =
        (fun b => if (∃ x' ∈ x :: xs, b.val = 4 * y + x'.val) then d.i4modes b else modes b) := by
      funext b
      by_cases e : b = ⟨4 * y + x.val, hb⟩
      · subst e
        have : ∃ x' ∈ x :: xs, (4 * y + x.val) = 4 * y + x'.val := ⟨x, by simp, rfl⟩
        simp only [this, if_true, ite_self]
      · have hne : b.val ≠ 4 * y + x.val := fun h => e (Fin.ext h)
        have hiff : (∃ x' ∈ x :: xs, b.val = 4 * y + x'.val) ↔ (∃ x' ∈ xs, b.val = 4 * y + x'.val) := by
          constructor
          · rintro ⟨x', hx', h⟩
            rcases List.mem_cons.mp hx' with h1 | h1
            · subst h1; exact absurd h hne
            · exact ⟨x', h1, h⟩
          · rintro ⟨x', hx', h⟩
            exact ⟨x', List.mem_cons_of_mem _ hx', h⟩
        simp only [hiff, e, if_false]
    rw [hfun]

theorem i4rows_roundtrip (d : MBDesc) (hm : ∀ b, d.i4modes b < 10) (rest : Stream) :
    ∀ (ys : List (Fin 4)) (m : ModeCtx) (modes : Fin 16 → Nat),
      decI4Rows ys m modes ((encI4Rows d ys m).1 ++ rest) =
        some ((encI4Rows d ys m).2,
              (fun b => if (∃ y ∈ ys, ∃ x ∈ List.finRange 4, b.val = 4 * y.val + x.val) then d.i4modes b else modes b),
              rest) := by
  intro ys
  induction ys with
  | nil => intro m modes; simp [decI4Rows, encI4Rows]
  | cons y ys ih =>
    intro m modes
    simp only [decI4Rows, encI4Rows, List.append_assoc]
    rw [i4row_roundtrip d hm y.val y.isLt]
    simp only [Option.bind_some]
    rw [ih]
    have hfun : (fun b : Fin 16 =>
          if (∃ y' ∈ ys, ∃ x ∈ List.finRange 4, b.val = 4 * y'.val + x.val) then d.i4modes b
          else if (∃ x ∈ List.finRange 4, b.val = 4 * y.val + x.val) then d.i4modes b else modes b) =
        (fun b => if (∃ y' ∈ y :: ys, ∃ x ∈ List.finRange 4, b.val = 4 * y'.val + x.val) then d.i4modes b
          else modes b) := by
      funext b
      have hiff : (∃ y' ∈ y :: ys, ∃ x ∈ List.finRange 4, b.val = 4 * y'.val + x.val) ↔
          ((∃ y' ∈ ys, ∃ x ∈ List.finRange 4, b.val = 4 * y'.val + x.val) ∨
            (∃ x ∈ List.finRange 4, b.val = 4 * y.val + x.val)) := by
        constructor
        · rintro ⟨y', hy', h⟩
          rcases List.mem_cons.mp hy' with h1 | h1
          · subst h1; exact Or.inr h
          · exact Or.inl ⟨y', h1, h⟩
        · rintro (⟨y', hy', h⟩ | h)
          · exact ⟨y', List.mem_cons_of_mem _ hy', h⟩
          · exact ⟨y, by simp, h⟩
      by_cases e1 : ∃ y' ∈ ys, ∃ x ∈ List.finRange 4, b.val = 4 * y'.val + x.val
      · simp only [e1, if_true, hiff, true_or]
      · by_cases e2 : ∃ x ∈ List.finRange 4, b.val = 4 * y.val + x.val
        · simp only [e1, if_false, e2, if_true, hiff, or_true]
        · simp only [e1, if_false, e2, hiff, or_self]
    rw [hfun]

/-- what `parseIntraModeRow` must produce for a macroblock described by `d` -/
def modesOf (d : MBDesc) (updateMap useSkip : Bool) (prev : Fin 16 → Nat) : MBModes :=
  { isI4 := d.isI4
    imodes := if d.isI4 then d.i4modes else fun b => if b.val = 0 then d.i16mode else prev b
    uvmode := d.uvmode
    segment := if updateMap then d.segment else 0
    skip := if useSkip then d.skip else false }

/-- **mode round trip** for one macroblock, including the contexts both sides carry on -/
theorem modes_roundtrip (d : MBDesc) (wf : d.WF) (updateMap useSkip : Bool) (prev : Fin 16 → Nat) (m : ModeCtx)
    (rest : Stream) :
    parseModes updateMap useSkip prev m ((emitModes d updateMap useSkip m).1 ++ rest) =
      some (modesOf d updateMap useSkip prev, (emitModes d updateMap useSkip m).2, rest) := by
  have hall : (fun b : Fin 16 => if ∃ (y x : Fin 4), b.val = 4 * y.val + x.val then d.i4modes b else prev b) =
      d.i4modes := by
    funext b
    have : ∃ (y x : Fin 4), b.val = 4 * y.val + x.val := ⟨⟨b.val / 4, by omega⟩, ⟨b.val % 4, by omega⟩, by simp; omega⟩
    simp only [this, if_true]
  unfold parseModes emitModes modesOf
  cases hI : d.isI4 <;> cases updateMap <;> cases useSkip <;>
    simp [seg_roundtrip _ wf.seg, i16_roundtrip _ wf.i16, uv_roundtrip _ wf.uv, i4rows_roundtrip d wf.i4, hall]

end Webp.Proofs.VP8ReconModes
