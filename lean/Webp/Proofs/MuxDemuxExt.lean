import Webp.Proofs.MuxDemux
import Webp.Proofs.MuxSimple
import Webp.Proofs.MuxValidate
/-
  C14, extended format, demuxer side: VP8X header, metadata chunks, the still image
  (`parseSingleExtendedFrame`) and ANMF frames (`parseANMF`).
-/
namespace Webp.Proofs.MuxDemuxExt
open Webp.Go Webp.Impl Webp.Impl.Mux Webp.Impl.Demux Webp.Proofs.MuxBytes Webp.Proofs.MuxChunk
  Webp.Proofs.MuxAccepted Webp.Proofs.MuxCore Webp.Proofs.MuxRiffWrap Webp.Proofs.MuxExpect
  Webp.Proofs.MuxDemux Webp.Proofs.MuxSimple
open Webp.Spec.Riff (RawChunk)
open Webp.Impl.Parser (ccRIFF ccWEBP ccVP8 ccVP8L ccVP8X ccALPH ccANIM ccANMF ccICCP ccEXIF ccXMP
  chunkHeaderSize maxChunkPayload vp8xChunkSize)

/-- three bytes written by `putLE24I v` read back as `v` for `0 ≤ v < 2^24` -/
theorem le24I_bytes (v : Int) (h0 : 0 ≤ v) (h1 : v < 16777216) :
    (UInt8.ofNat (v % 256).toNat).toNat + (UInt8.ofNat (v / 256 % 256).toNat).toNat * 256 +
      (UInt8.ofNat (v / 65536 % 256).toNat).toNat * 65536 = v.toNat := by
  simp only [UInt8.toNat_ofNat']
  omega

theorem le24_putLE24I (v : Int) (r : Bytes) (h0 : 0 ≤ v) (h1 : v < 16777216) :
    le24 (putLE24I v ++ r) 0 = v.toNat := by
  have := le24I_bytes v h0 h1
  simp only [le24, putLE24I, byteAt, List.cons_append, List.nil_append, List.getD_cons_zero, List.getD_cons_succ,
    Nat.zero_add]
  exact this

/-- decoding the VP8X flag byte built by the muxer -/
theorem flags_decode (a i e x al : Bool) :
    let fl := (if a then 2 else 0) + (if i then 32 else 0) + (if e then 8 else 0) + (if x then 4 else 0) +
      (if al then 16 else 0)
    (UInt8.ofNat fl).toNat = fl ∧
    (decide (fl / 16 % 2 ≠ 0) = al) ∧ (decide (fl / 2 % 2 ≠ 0) = a) ∧ (decide (fl / 32 % 2 ≠ 0) = i) ∧
    (decide (fl / 8 % 2 ≠ 0) = e) ∧ (decide (fl / 4 % 2 ≠ 0) = x) ∧ fl / 64 = 0 ∧ fl % 2 = 0 := by
  cases a <;> cases i <;> cases e <;> cases x <;> cases al <;> decide

/-- demux.go parseExtended, once the VP8X chunk (10 payload bytes) has been read -/
theorem parseExtended_of {payload : Bytes} {n id : Nat} {b0 b1 b2 b3 b4 b5 b6 b7 b8 b9 : UInt8}
    (hr : readChunk payload = .ok (⟨id, 10, [b0, b1, b2, b3, b4, b5, b6, b7, b8, b9]⟩, n)) :
    parseExtended payload =
      extLoop (payload.length + 1)
        { features := {
            width := b4.toNat + b5.toNat * 256 + b6.toNat * 65536 + 1,
            height := b7.toNat + b8.toNat * 256 + b9.toNat * 65536 + 1,
            hasAlpha := b0.toNat / 16 % 2 ≠ 0, hasAnimation := b0.toNat / 2 % 2 ≠ 0,
            hasICC := b0.toNat / 32 % 2 ≠ 0, hasEXIF := b0.toNat / 8 % 2 ≠ 0, hasXMP := b0.toNat / 4 % 2 ≠ 0,
            format := .extended },
          chunks := [⟨id, 10, [b0, b1, b2, b3, b4, b5, b6, b7, b8, b9]⟩] } payload n >>= fun st =>
      if st.frames.length = 0 then .err .noImage else pure st := by
  unfold parseExtended
  rw [hr, Res.bind_ok]
  have i0 : (idx [b0, b1, b2, b3, b4, b5, b6, b7, b8, b9] 0 : Demux.R UInt8) = .ok b0 := rfl
  have i4 : (idx [b0, b1, b2, b3, b4, b5, b6, b7, b8, b9] 4 : Demux.R UInt8) = .ok b4 := rfl
  have i5 : (idx [b0, b1, b2, b3, b4, b5, b6, b7, b8, b9] 5 : Demux.R UInt8) = .ok b5 := rfl
  have i6 : (idx [b0, b1, b2, b3, b4, b5, b6, b7, b8, b9] 6 : Demux.R UInt8) = .ok b6 := rfl
  have i7 : (idx [b0, b1, b2, b3, b4, b5, b6, b7, b8, b9] 7 : Demux.R UInt8) = .ok b7 := rfl
  have i8 : (idx [b0, b1, b2, b3, b4, b5, b6, b7, b8, b9] 8 : Demux.R UInt8) = .ok b8 := rfl
  have i9 : (idx [b0, b1, b2, b3, b4, b5, b6, b7, b8, b9] 9 : Demux.R UInt8) = .ok b9 := rfl
  have hsz : ¬ (10 < vp8xChunkSize) := by decide
  generalize payload.length + 1 = F
  dsimp only
  rw [if_neg hsz, i0, Res.bind_ok, i4, Res.bind_ok, i5, Res.bind_ok, i6, Res.bind_ok, i7, Res.bind_ok, i8, Res.bind_ok,
    i9, Res.bind_ok]

theorem cc_lt : ccVP8 < 4294967296 ∧ ccVP8L < 4294967296 ∧ ccVP8X < 4294967296 ∧ ccALPH < 4294967296 ∧
    ccANIM < 4294967296 ∧ ccANMF < 4294967296 ∧ ccICCP < 4294967296 ∧ ccEXIF < 4294967296 ∧
    ccXMP < 4294967296 := by
  rw [ccVP8_val, ccVP8L_val, ccVP8X_val, ccALPH_val, ccANIM_val, ccANMF_val, ccICCP_val, ccEXIF_val, ccXMP_val]
  decide

theorem meta_le_max {n : Nat} (h : n ≤ Parser.maxMetadataSize) : n ≤ maxChunkPayload := by
  have h1 : Parser.maxMetadataSize = 104857600 := rfl
  have h2 : maxChunkPayload = 4294967286 := by decide
  omega

def dAddICC (o : Option Bytes) (st : State) : State :=
  match o with
  | none => st
  | some d => { st with chunks := st.chunks ++ [toD ⟨ccICCP, d⟩], iccData := some d }

def dAddEXIF (o : Option Bytes) (st : State) : State :=
  match o with
  | none => st
  | some d => { st with chunks := st.chunks ++ [toD ⟨ccEXIF, d⟩], exifData := some d }

def dAddXMP (o : Option Bytes) (st : State) : State :=
  match o with
  | none => st
  | some d => { st with chunks := st.chunks ++ [toD ⟨ccXMP, d⟩], xmpData := some d }

theorem extRun_optICC (st : State) (o : Option Bytes) (r : Bytes)
    (h : (o.getD []).length ≤ Parser.maxMetadataSize) :
    extRun st (serAll (optC ccICCP o) ++ r) = extRun (dAddICC o st) r := by
  cases o with
  | none => simp [optC, dAddICC]
  | some d =>
    simp only [Option.getD_some] at h
    simp only [optC, serAll_cons, serAll_nil, List.append_nil, dAddICC]
    rw [extRun_ser st ⟨ccICCP, d⟩ r cc_lt.2.2.2.2.2.2.1 (meta_le_max h)]
    have hn : ¬ d.length > Parser.maxMetadataSize := by omega
    simp only [extBody, if_true, hn, if_false, Res.pure_eq, Res.bind_ok, toD]

theorem extRun_optEXIF (st : State) (o : Option Bytes) (r : Bytes)
    (h : (o.getD []).length ≤ Parser.maxMetadataSize) :
    extRun st (serAll (optC ccEXIF o) ++ r) = extRun (dAddEXIF o st) r := by
  cases o with
  | none => simp [optC, dAddEXIF]
  | some d =>
    simp only [Option.getD_some] at h
    simp only [optC, serAll_cons, serAll_nil, List.append_nil, dAddEXIF]
    rw [extRun_ser st ⟨ccEXIF, d⟩ r cc_lt.2.2.2.2.2.2.2.1 (meta_le_max h)]
    have hn : ¬ d.length > Parser.maxMetadataSize := by omega
    have e1 : ccEXIF ≠ ccICCP := by rw [ccEXIF_val, ccICCP_val]; decide
    simp only [extBody, e1, if_true, hn, if_false, Res.pure_eq, Res.bind_ok, toD]

theorem extRun_optXMP (st : State) (o : Option Bytes) (r : Bytes)
    (h : (o.getD []).length ≤ Parser.maxMetadataSize) :
    extRun st (serAll (optC ccXMP o) ++ r) = extRun (dAddXMP o st) r := by
  cases o with
  | none => simp [optC, dAddXMP]
  | some d =>
    simp only [Option.getD_some] at h
    simp only [optC, serAll_cons, serAll_nil, List.append_nil, dAddXMP]
    rw [extRun_ser st ⟨ccXMP, d⟩ r cc_lt.2.2.2.2.2.2.2.2 (meta_le_max h)]
    have hn : ¬ d.length > Parser.maxMetadataSize := by omega
    have e1 : ccXMP ≠ ccICCP := by rw [ccXMP_val, ccICCP_val]; decide
    have e2 : ccXMP ≠ ccEXIF := by rw [ccXMP_val, ccEXIF_val]; decide
    simp only [extBody, e1, e2, if_true, hn, if_false, Res.pure_eq, Res.bind_ok, toD]

/-- the ANIM chunk -/
theorem extRun_anim (st : State) (s : MuxState) (r : Bytes) (inv : Inv s)
    (hA : st.features.hasAnimation = true) :
    extRun st (ser ⟨ccANIM, animPayload s⟩ ++ r) =
      extRun { st with chunks := st.chunks ++ [toD ⟨ccANIM, animPayload s⟩], bgColor := s.bgColor,
                       loopCount := s.loopCount.toNat } r := by
  have hl : (animPayload s).length = 6 := animPayload_length s
  rw [extRun_ser st ⟨ccANIM, animPayload s⟩ r cc_lt.2.2.2.2.1
    (by have : maxChunkPayload = 4294967286 := by decide
        simp only [hl, this]; omega)]
  have e1 : ccANIM ≠ ccICCP := by rw [ccANIM_val, ccICCP_val]; decide
  have e2 : ccANIM ≠ ccEXIF := by rw [ccANIM_val, ccEXIF_val]; decide
  have e3 : ccANIM ≠ ccXMP := by rw [ccANIM_val, ccXMP_val]; decide
  have hbg : le32 (animPayload s) 0 = s.bgColor := by
    unfold animPayload
    rw [le32_hdr0]; have := inv.bg; omega
  have hlc : le16 (animPayload s) 4 = s.loopCount.toNat := by
    unfold animPayload
    have := le16_append_right (putLE32 s.bgColor) (putLE16 (s.loopCount % 65536).toNat) 0
    simp only [putLE32_length, Nat.add_zero] at this
    rw [this, le16_putLE16]
    have := inv.loop
    omega
  simp only [extBody, e1, e2, e3, if_true, if_false, hA, parseANIM, hl, Parser.animChunkSize, Nat.lt_irrefl,
    Res.bind_ok, hbg, hlc, toD]

theorem split_bare {bs : Bytes} (h : byteAt bs 0 ≠ 65) : splitAlphaAndBitstream bs = (none, bs) := by
  rw [split_eq]
  have h1 := byteAt_lt bs 0
  have h2 := byteAt_lt bs 1
  have h3 := byteAt_lt bs 2
  have h4 := byteAt_lt bs 3
  have hne : ¬ ((bs.length ≥ 8 ∧ le32 bs 0 = ccALPH) ∧ 8 + le32 bs 4 ≤ bs.length) := by
    intro hc
    have := hc.1.2
    rw [ccALPH_val] at this
    unfold le32 at this
    simp only [Nat.zero_add] at this
    omega
  rw [if_neg hne]

theorem vp8_bare {bs : Bytes} (f : VP8Facts bs) : splitAlphaAndBitstream bs = (none, bs) :=
  split_bare (by have := f.key; omega)

theorem vp8l_bare {bs : Bytes} (f : VP8LFacts bs) : splitAlphaAndBitstream bs = (none, bs) :=
  split_bare (by have := f.sig; omega)

/-- the facts about a frame's bitstream that the readers use, whichever codec -/
structure BsFacts (data : Bytes) : Prop where
  idVP : detectBitstreamType (splitAlphaAndBitstream data).2 = ccVP8 ∨
         detectBitstreamType (splitAlphaAndBitstream data).2 = ccVP8L
  alphVP8 : (splitAlphaAndBitstream data).1.isSome → detectBitstreamType (splitAlphaAndBitstream data).2 = ccVP8
  wpos : 0 < (frameDimensions data).1
  hpos : 0 < (frameDimensions data).2
  wle : (frameDimensions data).1 ≤ 16384
  hle : (frameDimensions data).2 ≤ 16384
  bareDims : frameDimensions (splitAlphaAndBitstream data).2 = frameDimensions data
  nonempty : 0 < (splitAlphaAndBitstream data).2.length

theorem bsFacts {data : Bytes} (hok : frameOK data = true) : BsFacts data := by
  unfold frameOK at hok
  have hle := Webp.Proofs.MuxValidate.frameDimensions_le data
  have key8 : vp8OK (splitAlphaAndBitstream data).2 = true → BsFacts data := by
    intro h8
    have ff := vp8OK_facts h8
    have hd := ff.dimsOf (data := data) rfl
    have hb := ff.dimsOf (data := (splitAlphaAndBitstream data).2) (by rw [vp8_bare ff])
    refine ⟨Or.inl ff.detect, fun _ => ff.detect, ?_, ?_, hle.1, hle.2, ?_, ?_⟩
    · rw [hd]; have := ff.w; simp only; omega
    · rw [hd]; have := ff.h; simp only; omega
    · rw [hd, hb]
    · have := ff.len; omega
  by_cases ha : (splitAlphaAndBitstream data).1.isSome
  · rw [if_pos ha] at hok
    exact key8 hok
  · rw [if_neg ha] at hok
    simp only [Bool.or_eq_true] at hok
    rcases hok with h8 | h8l
    · exact key8 h8
    · have ff := vp8lOK_facts h8l
      have hd := ff.dimsOf (data := data) rfl
      have hb := ff.dimsOf (data := (splitAlphaAndBitstream data).2) (by rw [vp8l_bare ff])
      refine ⟨Or.inr ff.detect, fun h => absurd h ha, ?_, ?_, hle.1, hle.2, ?_, ?_⟩
      · rw [hd]; exact ff.wpos
      · rw [hd]; exact ff.hpos
      · rw [hd, hb]
      · have := ff.len; omega

/-- demux.go parseSingleExtendedFrame, once its scan has found the image chunk -/
theorem parseSingleExtendedFrame_of {st : State} {tail img : Bytes} {alph : Option Bytes}
    (h : singleRun tail none = .ok (some img, alph)) :
    parseSingleExtendedFrame st tail = .ok { st with frames := [{
      data := some img, alphaData := alph,
      width := (if (frameDimensions img).1 > 0 ∧ (frameDimensions img).2 > 0 then frameDimensions img
                else (st.features.width, st.features.height)).1,
      height := (if (frameDimensions img).1 > 0 ∧ (frameDimensions img).2 > 0 then frameDimensions img
                else (st.features.width, st.features.height)).2,
      hasAlpha := (if !decide ((alph.getD []).length > 0) then frameDataHasAlpha img
                   else decide ((alph.getD []).length > 0)),
      isKeyframe := true }] } := by
  unfold singleRun at h
  unfold parseSingleExtendedFrame
  rw [h]
  simp only [Res.bind_ok]
  split <;> simp_all

theorem cc_img_ne : ccVP8 ≠ ccICCP ∧ ccVP8 ≠ ccEXIF ∧ ccVP8 ≠ ccXMP ∧ ccVP8 ≠ ccANIM ∧ ccVP8 ≠ ccANMF ∧ ccVP8 ≠ ccALPH ∧
    ccVP8L ≠ ccICCP ∧ ccVP8L ≠ ccEXIF ∧ ccVP8L ≠ ccXMP ∧ ccVP8L ≠ ccANIM ∧ ccVP8L ≠ ccANMF ∧ ccVP8L ≠ ccALPH ∧
    ccALPH ≠ ccICCP ∧ ccALPH ≠ ccEXIF ∧ ccALPH ≠ ccXMP ∧ ccALPH ≠ ccANIM ∧ ccALPH ≠ ccANMF ∧ ccALPH ≠ ccVP8 ∧
    ccALPH ≠ ccVP8L ∧ ccVP8 ≠ ccVP8L := by
  rw [ccVP8_val, ccVP8L_val, ccALPH_val, ccANIM_val, ccANMF_val, ccICCP_val, ccEXIF_val, ccXMP_val]
  decide

theorem extBody_img {st : State} {c : Demux.Chunk} {tail : Bytes} (hid : c.id = ccVP8 ∨ c.id = ccVP8L)
    (hA : st.features.hasAnimation = false) (hF : st.frames = []) :
    extBody st c tail = parseSingleExtendedFrame { st with chunks := st.chunks ++ [c] } tail := by
  obtain ⟨n1, n2, n3, n4, n5, n6, l1, l2, l3, l4, l5, l6, a1, a2, a3, a4, a5, a6, a7, n7⟩ := cc_img_ne
  rcases hid with h | h
  · simp [extBody, h, n1, n2, n3, n4, n5, hA, hF]
  · simp [extBody, h, l1, l2, l3, l4, l5, hA, hF]

theorem extBody_alph {st : State} {c : Demux.Chunk} {tail : Bytes} (hid : c.id = ccALPH)
    (hA : st.features.hasAnimation = false) (hF : st.frames = []) :
    extBody st c tail = parseSingleExtendedFrame { st with chunks := st.chunks ++ [c] } tail := by
  obtain ⟨n1, n2, n3, n4, n5, n6, l1, l2, l3, l4, l5, l6, a1, a2, a3, a4, a5, a6, a7, n7⟩ := cc_img_ne
  simp [extBody, hid, a1, a2, a3, a4, a5, hA, hF]

theorem extBody_img_skip {st : State} {c : Demux.Chunk} {tail : Bytes} (hid : c.id = ccVP8 ∨ c.id = ccVP8L)
    (hF : st.frames.length ≠ 0) :
    extBody st c tail = .ok { st with chunks := st.chunks ++ [c] } := by
  obtain ⟨n1, n2, n3, n4, n5, n6, l1, l2, l3, l4, l5, l6, a1, a2, a3, a4, a5, a6, a7, n7⟩ := cc_img_ne
  rcases hid with h | h
  · simp [extBody, h, n1, n2, n3, n4, n5, hF]
  · simp [extBody, h, l1, l2, l3, l4, l5, hF]

/-- the frame `parseSingleExtendedFrame` builds is the expected one -/
theorem stillFrame_eq (f : MuxFrame) (hok : frameOK f.data = true) (hopts : f.opts = {}) (fw fh : Nat) :
    ({ data := some (splitAlphaAndBitstream f.data).2, alphaData := (splitAlphaAndBitstream f.data).1,
       width := (if (frameDimensions (splitAlphaAndBitstream f.data).2).1 > 0 ∧
                    (frameDimensions (splitAlphaAndBitstream f.data).2).2 > 0
                 then frameDimensions (splitAlphaAndBitstream f.data).2 else (fw, fh)).1,
       height := (if (frameDimensions (splitAlphaAndBitstream f.data).2).1 > 0 ∧
                    (frameDimensions (splitAlphaAndBitstream f.data).2).2 > 0
                 then frameDimensions (splitAlphaAndBitstream f.data).2 else (fw, fh)).2,
       hasAlpha := (if !decide ((((splitAlphaAndBitstream f.data).1).getD []).length > 0)
                    then frameDataHasAlpha (splitAlphaAndBitstream f.data).2
                    else decide ((((splitAlphaAndBitstream f.data).1).getD []).length > 0)),
       isKeyframe := true } : FrameInfo) = dFrameOf true f := by
  have bf := bsFacts hok
  have hdpos : (frameDimensions (splitAlphaAndBitstream f.data).2).1 > 0 ∧
      (frameDimensions (splitAlphaAndBitstream f.data).2).2 > 0 := by
    rw [bf.bareDims]; exact ⟨bf.wpos, bf.hpos⟩
  have hp : 0 < (frameDimensions f.data).1 ∧ 0 < (frameDimensions f.data).2 := ⟨bf.wpos, bf.hpos⟩
  simp only [bf.bareDims, dFrameOf, hopts, gt_iff_lt, hp, and_self, if_true]
  by_cases hl : 0 < (((splitAlphaAndBitstream f.data).1).getD []).length
  · simp [hl]
  · simp [hl]

/-- the image chunk(s) of an extended still: `parseSingleExtendedFrame` builds the frame -/
theorem extRun_stillImg (st : State) (f : MuxFrame) (r : Bytes) (hA : st.features.hasAnimation = false)
    (hF : st.frames = []) (hok : frameOK f.data = true) (hopts : f.opts = {})
    (hsz : frameLen false f.data ≤ 4294967286) :
    extRun st (serAll (imgChunks f.data) ++ r) =
      extRun { st with chunks := st.chunks ++ (imgChunks f.data).map toD, frames := [dFrameOf true f] } r := by
  have bf := bsFacts hok
  have hm : maxChunkPayload = 4294967286 := by decide
  obtain ⟨n1, n2, n3, n4, n5, n6, l1, l2, l3, l4, l5, l6, a1, a2, a3, a4, a5, a6, a7, n7⟩ := cc_img_ne
  have hidlt : detectBitstreamType (splitAlphaAndBitstream f.data).2 < 4294967296 := by
    rcases bf.idVP with h | h <;> rw [h]
    · exact cc_lt.1
    · exact cc_lt.2.1
  unfold frameLen at hsz
  simp only [Bool.false_eq_true, if_false, padLen, Nat.zero_add] at hsz
  cases hα : (splitAlphaAndBitstream f.data).1 with
  | none =>
    rw [hα] at hsz
    simp only [optLen, Nat.zero_add] at hsz
    have hlen : (splitAlphaAndBitstream f.data).2.length ≤ maxChunkPayload := by rw [hm]; omega
    have e : serAll (imgChunks f.data) ++ r =
        ser ⟨detectBitstreamType (splitAlphaAndBitstream f.data).2, (splitAlphaAndBitstream f.data).2⟩ ++ r := by
      simp [imgChunks, hα, optC]
    have e2 : (imgChunks f.data).map toD =
        [⟨detectBitstreamType (splitAlphaAndBitstream f.data).2, (splitAlphaAndBitstream f.data).2.length,
          (splitAlphaAndBitstream f.data).2⟩] := by
      simp [imgChunks, hα, optC, toD]
    rw [e, e2, extRun_ser st _ r hidlt hlen]
    have hsr := singleRun_ser ⟨detectBitstreamType (splitAlphaAndBitstream f.data).2,
      (splitAlphaAndBitstream f.data).2⟩ r none hidlt hlen
    have hsr' : singleRun (ser ⟨detectBitstreamType (splitAlphaAndBitstream f.data).2,
        (splitAlphaAndBitstream f.data).2⟩ ++ r) none = .ok (some (splitAlphaAndBitstream f.data).2, none) := by
      rw [hsr]
      rcases bf.idVP with hid | hid
      · rw [if_neg (by rw [hid]; exact a6.symm), if_pos (Or.inl hid)]
      · rw [if_neg (by rw [hid]; exact a7.symm), if_pos (Or.inr hid)]
    rw [extBody_img (by exact bf.idVP) hA hF, parseSingleExtendedFrame_of hsr', Res.bind_ok]
    have := stillFrame_eq f hok hopts st.features.width st.features.height
    rw [hα] at this
    rw [this]
  | some a =>
    rw [hα] at hsz
    simp only [optLen, padLen] at hsz
    have hid := bf.alphVP8 (by rw [hα]; rfl)
    have hlen : (splitAlphaAndBitstream f.data).2.length ≤ maxChunkPayload := by rw [hm]; omega
    have hlena : a.length ≤ maxChunkPayload := by rw [hm]; omega
    have e : serAll (imgChunks f.data) ++ r =
        ser ⟨ccALPH, a⟩ ++ (ser ⟨ccVP8, (splitAlphaAndBitstream f.data).2⟩ ++ r) := by
      simp [imgChunks, hα, optC, hid]
    have e2 : (imgChunks f.data).map toD =
        [⟨ccALPH, a.length, a⟩, ⟨ccVP8, (splitAlphaAndBitstream f.data).2.length, (splitAlphaAndBitstream f.data).2⟩] := by
      simp [imgChunks, hα, optC, toD, hid]
    rw [e, e2, extRun_ser st ⟨ccALPH, a⟩ _ cc_lt.2.2.2.1 hlena]
    have hsr1 := singleRun_ser ⟨ccALPH, a⟩ (ser ⟨ccVP8, (splitAlphaAndBitstream f.data).2⟩ ++ r) none
      cc_lt.2.2.2.1 hlena
    have hsr2 := singleRun_ser ⟨ccVP8, (splitAlphaAndBitstream f.data).2⟩ r (some a) cc_lt.1 hlen
    rw [if_pos (Eq.refl ccALPH)] at hsr1
    rw [if_neg a6.symm, if_pos (Or.inl (Eq.refl ccVP8))] at hsr2
    rw [hsr2] at hsr1
    rw [extBody_alph (c := ⟨ccALPH, a.length, a⟩) (Eq.refl ccALPH) hA hF, parseSingleExtendedFrame_of hsr1,
      Res.bind_ok]
    rw [extRun_ser _ ⟨ccVP8, (splitAlphaAndBitstream f.data).2⟩ r cc_lt.1 hlen]
    rw [extBody_img_skip (c := ⟨ccVP8, (splitAlphaAndBitstream f.data).2.length, (splitAlphaAndBitstream f.data).2⟩)
      (Or.inl (Eq.refl ccVP8)) (by simp), Res.bind_ok]
    have := stillFrame_eq f hok hopts st.features.width st.features.height
    rw [hα] at this
    simp only [Option.getD_some] at this ⊢
    rw [this]
    simp

/-! ### ANMF frames -/

/-- what the 16-byte ANMF header written by the muxer reads back as -/
structure HdrReads (f : MuxFrame) (data : Bytes) : Prop where
  ox : le24 data 0 = (Int.tdiv f.opts.offsetX 2).toNat
  oy : le24 data 3 = (Int.tdiv f.opts.offsetY 2).toNat
  w : le24 data 6 + 1 = (frameDimensions f.data).1
  h : le24 data 9 + 1 = (frameDimensions f.data).2
  dur : le24 data 12 = f.opts.duration.toNat
  flag : byteAt data 15 = (if f.opts.disposeMode = 1 then 1 else 0) + (if f.opts.blendMode = 1 then 2 else 0)

theorem hdrReads (f : MuxFrame) (rest : Bytes)
    (hx0 : 0 ≤ Int.tdiv f.opts.offsetX 2) (hx1 : Int.tdiv f.opts.offsetX 2 < 16777216)
    (hy0 : 0 ≤ Int.tdiv f.opts.offsetY 2) (hy1 : Int.tdiv f.opts.offsetY 2 < 16777216)
    (hw0 : 0 < (frameDimensions f.data).1) (hw1 : (frameDimensions f.data).1 ≤ 16384)
    (hh0 : 0 < (frameDimensions f.data).2) (hh1 : (frameDimensions f.data).2 ≤ 16384)
    (hd0 : 0 ≤ f.opts.duration) (hd1 : f.opts.duration ≤ 16777215) :
    HdrReads f (anmfHdr f ++ rest) := by
  have hpos : (frameDims f.data).1 > 0 ∧ (frameDims f.data).2 > 0 := by
    unfold frameDims; simp only; omega
  have e1 : (frameDims f.data).1 = ((frameDimensions f.data).1 : Int) := rfl
  have e2 : (frameDims f.data).2 = ((frameDimensions f.data).2 : Int) := rfl
  have hflag : ((if f.opts.disposeMode = 1 then 1 else 0) + (if f.opts.blendMode = 1 then 2 else 0) : Nat) < 256 := by
    split <;> split <;> omega
  have b1 := le24I_bytes (Int.tdiv f.opts.offsetX 2) hx0 hx1
  have b2 := le24I_bytes (Int.tdiv f.opts.offsetY 2) hy0 hy1
  have b3 := le24I_bytes ((frameDims f.data).1 - 1) (by omega) (by omega)
  have b4 := le24I_bytes ((frameDims f.data).2 - 1) (by omega) (by omega)
  have b5 := le24I_bytes f.opts.duration hd0 (by omega)
  unfold anmfHdr
  rw [if_pos hpos]
  simp only [putLE24I, List.cons_append, List.nil_append]
  refine ⟨?_, ?_, ?_, ?_, ?_, ?_⟩
  · simp only [le24, byteAt, List.getD_cons_zero, List.getD_cons_succ, Nat.zero_add]; exact b1
  · simp only [le24, byteAt, List.getD_cons_zero, List.getD_cons_succ]; exact b2
  · simp only [le24, byteAt, List.getD_cons_zero, List.getD_cons_succ]; rw [b3]; omega
  · simp only [le24, byteAt, List.getD_cons_zero, List.getD_cons_succ]; rw [b4]; omega
  · simp only [le24, byteAt, List.getD_cons_zero, List.getD_cons_succ]; exact b5
  · simp only [byteAt, List.getD_cons_zero, List.getD_cons_succ, UInt8.toNat_ofNat']; omega

/-- demux.go parseANMF, once the sub-chunk scan result is known -/
theorem parseANMF_of {st : State} {data : Bytes} {img alph : Option Bytes} (hl : 16 ≤ data.length)
    (harea : (le24 data 6 + 1) * (le24 data 9 + 1) < Parser.maxImageArea)
    (hsub : anmfRun (data.drop 16) none none = .ok (img, alph)) (hn : st.frames.length < Parser.maxFrames) :
    parseANMF st data = .ok { st with frames := st.frames ++ [{
      data := img, alphaData := alph, width := le24 data 6 + 1, height := le24 data 9 + 1,
      offsetX := le24 data 0 * 2, offsetY := le24 data 3 * 2, duration := le24 data 12,
      isKeyframe := decide (st.frames.length = 0),
      hasAlpha := (if (!decide ((alph.getD []).length > 0)) ∧ (img.getD []).length > 0
                   then frameDataHasAlpha (img.getD []) else decide ((alph.getD []).length > 0)),
      blendNone := decide (byteAt data 15 / 2 % 2 ≠ 0), disposeBG := decide (byteAt data 15 % 2 ≠ 0) }] } := by
  unfold anmfRun at hsub
  unfold parseANMF
  have h1 : ¬ data.length < Parser.anmfChunkSize := by simp only [Parser.anmfChunkSize]; omega
  have h2 : ¬ (le24 data 6 + 1) * (le24 data 9 + 1) ≥ Parser.maxImageArea := by omega
  have h3 : ¬ st.frames.length ≥ Parser.maxFrames := by omega
  have hs : (sliceFrom data Parser.anmfChunkSize : Demux.R Bytes) = .ok (data.drop 16) := by
    unfold sliceFrom; rw [if_pos (by simp only [Parser.anmfChunkSize]; omega)]; rfl
  rw [if_neg h1]
  simp only
  rw [if_neg h2, hs, Res.bind_ok, hsub, Res.bind_ok]
  simp only
  rw [if_neg h3]
  rfl

/-- the sub-chunk scan of an ANMF payload finds exactly the frame's bitstream and alpha payload -/
theorem anmfRun_imgChunks (data : Bytes) (hok : frameOK data = true) (hsz : frameLen false data ≤ 4294967286) :
    anmfRun (serAll (imgChunks data)) none none =
      .ok (some (splitAlphaAndBitstream data).2, (splitAlphaAndBitstream data).1) := by
  have bf := bsFacts hok
  have hm : maxChunkPayload = 4294967286 := by decide
  obtain ⟨n1, n2, n3, n4, n5, n6, l1, l2, l3, l4, l5, l6, a1, a2, a3, a4, a5, a6, a7, n7⟩ := cc_img_ne
  have hidlt : detectBitstreamType (splitAlphaAndBitstream data).2 < 4294967296 := by
    rcases bf.idVP with h | h <;> rw [h]
    · exact cc_lt.1
    · exact cc_lt.2.1
  unfold frameLen at hsz
  simp only [Bool.false_eq_true, if_false, padLen, Nat.zero_add] at hsz
  cases hα : (splitAlphaAndBitstream data).1 with
  | none =>
    rw [hα] at hsz
    simp only [optLen, Nat.zero_add] at hsz
    have hlen : (splitAlphaAndBitstream data).2.length ≤ maxChunkPayload := by rw [hm]; omega
    have e : serAll (imgChunks data) =
        ser ⟨detectBitstreamType (splitAlphaAndBitstream data).2, (splitAlphaAndBitstream data).2⟩ ++ [] := by
      simp [imgChunks, hα, optC]
    rw [e, anmfRun_ser _ _ _ _ hidlt hlen, anmfRun_nil, if_pos (by exact bf.idVP), if_pos (by exact bf.idVP)]
  | some a =>
    rw [hα] at hsz
    simp only [optLen, padLen] at hsz
    have hid := bf.alphVP8 (by rw [hα]; rfl)
    have hlen : (splitAlphaAndBitstream data).2.length ≤ maxChunkPayload := by rw [hm]; omega
    have hlena : a.length ≤ maxChunkPayload := by rw [hm]; omega
    have e : serAll (imgChunks data) =
        ser ⟨ccALPH, a⟩ ++ (ser ⟨ccVP8, (splitAlphaAndBitstream data).2⟩ ++ []) := by
      simp [imgChunks, hα, optC, hid]
    rw [e, anmfRun_ser ⟨ccALPH, a⟩ _ _ _ cc_lt.2.2.2.1 hlena,
      anmfRun_ser ⟨ccVP8, (splitAlphaAndBitstream data).2⟩ _ _ _ cc_lt.1 hlen, anmfRun_nil]
    have c1 : ¬ (ccALPH = ccVP8 ∨ ccALPH = ccVP8L) := by intro h; rcases h with h | h; exact a6 h; exact a7 h
    rw [if_neg c1, if_neg c1, if_pos (Eq.refl ccALPH), if_pos (Or.inl (Eq.refl ccVP8)),
      if_pos (Or.inl (Eq.refl ccVP8))]

/-- per-frame hypotheses of the animated case -/
structure AnimFrameOK (f : MuxFrame) : Prop where
  ok : frameOK f.data = true
  size : frameLen true f.data ≤ 4294967286
  ox0 : 0 ≤ f.opts.offsetX
  oy0 : 0 ≤ f.opts.offsetY
  ox1 : Int.tdiv f.opts.offsetX 2 < 16777216
  oy1 : Int.tdiv f.opts.offsetY 2 < 16777216
  d0 : 0 ≤ f.opts.duration
  d1 : f.opts.duration ≤ 16777215

theorem anmfPayload_reads (f : MuxFrame) (h : AnimFrameOK f) : HdrReads f (anmfPayload f) := by
  have bf := bsFacts h.ok
  have hx : Int.tdiv f.opts.offsetX 2 = f.opts.offsetX / 2 := Int.tdiv_eq_ediv_of_nonneg h.ox0
  have hy : Int.tdiv f.opts.offsetY 2 = f.opts.offsetY / 2 := Int.tdiv_eq_ediv_of_nonneg h.oy0
  have := h.ox0; have := h.oy0
  exact hdrReads f _ (by omega) h.ox1 (by omega) h.oy1 bf.wpos bf.wle bf.hpos bf.hle h.d0 h.d1

/-- one ANMF chunk -/
theorem extRun_anmf (st : State) (f : MuxFrame) (r : Bytes) (h : AnimFrameOK f)
    (hn : st.frames.length < Parser.maxFrames) (hA : st.features.hasAnimation = true) :
    extRun st (ser ⟨ccANMF, anmfPayload f⟩ ++ r) =
      extRun { st with chunks := st.chunks ++ [toD ⟨ccANMF, anmfPayload f⟩],
                       frames := st.frames ++ [dFrameOf (decide (st.frames.length = 0)) f] } r := by
  have bf := bsFacts h.ok
  have hfl := frameLen_true f.data
  have hm : maxChunkPayload = 4294967286 := by decide
  have hpl : (anmfPayload f).length = 16 + frameLen false f.data := by
    unfold anmfPayload; rw [List.length_append, anmfHdr_length, imgChunks_length]
  have hsz := h.size
  rw [extRun_ser st ⟨ccANMF, anmfPayload f⟩ r cc_lt.2.2.2.2.2.1 (by rw [hm, hpl]; omega)]
  have e1 : ccANMF ≠ ccICCP := by rw [ccANMF_val, ccICCP_val]; decide
  have e2 : ccANMF ≠ ccEXIF := by rw [ccANMF_val, ccEXIF_val]; decide
  have e3 : ccANMF ≠ ccXMP := by rw [ccANMF_val, ccXMP_val]; decide
  have e4 : ccANMF ≠ ccANIM := by rw [ccANMF_val, ccANIM_val]; decide
  have hb : ∀ tail, extBody st ⟨ccANMF, (anmfPayload f).length, anmfPayload f⟩ tail =
      parseANMF { st with chunks := st.chunks ++ [⟨ccANMF, (anmfPayload f).length, anmfPayload f⟩] } (anmfPayload f) := by
    intro tail
    simp only [extBody, e1, e2, e3, e4, if_false, if_true, hA]
  rw [hb]
  have rd := anmfPayload_reads f h
  have hdrop : (anmfPayload f).drop 16 = serAll (imgChunks f.data) := by
    unfold anmfPayload; exact List.drop_left' (anmfHdr_length f)
  have hsub : anmfRun ((anmfPayload f).drop 16) none none =
      .ok (some (splitAlphaAndBitstream f.data).2, (splitAlphaAndBitstream f.data).1) := by
    rw [hdrop]; exact anmfRun_imgChunks f.data h.ok (by omega)
  have harea : (le24 (anmfPayload f) 6 + 1) * (le24 (anmfPayload f) 9 + 1) < Parser.maxImageArea := by
    rw [rd.w, rd.h]
    have := bf.wle; have := bf.hle
    have : (frameDimensions f.data).1 * (frameDimensions f.data).2 ≤ 16384 * 16384 := Nat.mul_le_mul bf.wle bf.hle
    simp only [Parser.maxImageArea]; omega
  rw [parseANMF_of (by rw [hpl]; omega) harea hsub (by exact hn), Res.bind_ok]
  congr 1
  simp only [rd.ox, rd.oy, rd.w, rd.h, rd.dur, rd.flag, dFrameOf, toD, Option.getD_some]
  have hne := bf.nonempty
  congr 1
  congr 1
  congr 1
  have k1 : decide (((if f.opts.disposeMode = 1 then 1 else 0) + if f.opts.blendMode = 1 then 2 else 0) / 2 % 2 ≠ 0) =
      decide (f.opts.blendMode = 1) := by
    by_cases hd : f.opts.disposeMode = 1 <;> by_cases hb : f.opts.blendMode = 1 <;> simp [hd, hb]
  have k2 : decide (((if f.opts.disposeMode = 1 then 1 else 0) + if f.opts.blendMode = 1 then 2 else 0) % 2 ≠ 0) =
      decide (f.opts.disposeMode = 1) := by
    by_cases hd : f.opts.disposeMode = 1 <;> by_cases hb : f.opts.blendMode = 1 <;> simp [hd, hb]
  rw [k1, k2]
  by_cases hl : 0 < (((splitAlphaAndBitstream f.data).1).getD []).length
  · simp [hl]
  · simp [hl, hne]

/-- all ANMF chunks of an animation -/
theorem extRun_anmfs (fs : List MuxFrame) : ∀ (st : State) (r : Bytes), (∀ f ∈ fs, AnimFrameOK f) →
    st.frames.length + fs.length ≤ 10000 → st.features.hasAnimation = true →
    extRun st (serAll (fs.map fun f => ⟨ccANMF, anmfPayload f⟩) ++ r) =
      extRun { st with chunks := st.chunks ++ fs.map (fun f => toD ⟨ccANMF, anmfPayload f⟩),
                       frames := st.frames ++ dFramesFrom st.frames.length fs } r := by
  induction fs with
  | nil =>
    intro st r _ _ _
    simp [dFramesFrom]
  | cons f fs ih =>
    intro st r hok hn hA
    simp only [List.map_cons, serAll_cons, List.append_assoc, List.length_cons] at hn ⊢
    rw [extRun_anmf st f _ (hok f (List.mem_cons_self)) (by simp only [Parser.maxFrames]; omega) hA]
    rw [ih (State.mk (st.chunks ++ [toD ⟨ccANMF, anmfPayload f⟩]) st.features
        (st.frames ++ [dFrameOf (decide (st.frames.length = 0)) f]) st.iccData st.exifData st.xmpData st.bgColor
        st.loopCount) _ (fun g hg => hok g (List.mem_cons_of_mem _ hg))
      (by simp only [List.length_append, List.length_singleton]; omega) hA]
    congr 1
    simp [dFramesFrom]

end Webp.Proofs.MuxDemuxExt
