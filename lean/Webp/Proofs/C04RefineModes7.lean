import Webp.Proofs.C04RefineModes6
/-
  C04 refinement, macroblock-level syntax (stage B), part 7: `mb_modes_eq_spec` on the reference decoder —
  `parseIntraModeRow` for one macroblock (`T.parseModes`) vs `Spec.VP8.readMBHeader`.
-/
namespace Webp.Proofs.C04RefineModes
open Webp.Spec.VP8
open Webp.Impl.VP8SyntaxBytes (P runR rd)
open Webp.Impl.VP8Recon (Slot)
open Webp.Proofs.C04RefineOps Webp.Proofs.C04RefineSyntax Webp.Proofs.C04RefineTokens

theorem all16' (b : Fin 16) : ∃ y ∈ List.finRange 4, ∃ x : Fin 4, b.val = 4 * y.val + x.val :=
  ⟨⟨b.val / 4, by omega⟩, List.mem_finRange _, ⟨b.val % 4, by omega⟩, by simp only; omega⟩

/-- **`mb_modes_eq_spec`, on the reference decoder** -/
theorem mb_modes_runD (prob : Slot → UInt8) (hfix : FixedOK prob) (hb : BModeOK prob) (h : FrameHdr)
    (hseg : h.seg.updateMap = true → ∀ i, i ≤ 2 → (prob (.seg i)).toNat = h.seg.treeProbs.getD i 255)
    (hskip : h.skipEnabled = true → (prob .skip).toNat = h.probSkipFalse)
    (mbX : Nat) (prev : Fin 16 → Nat) (gc : Webp.Impl.VP8Recon.ModeCtx) (sc : ModeCtx) (hc : CRel mbX sc.above gc sc)
    (d : BoolDec) :
    ∃ g gc', runD prob (Webp.Impl.VP8SyntaxBytes.T.parseModes h.seg.updateMap h.skipEnabled prev gc) d =
        some ((g, gc'), (readMBHeader h mbX sc d).2.2) ∧
      ModeRel g (readMBHeader h mbX sc d).1 ∧ CRel mbX sc.above gc' (readMBHeader h mbX sc d).2.1 := by
  rw [readMBHeader_eq]
  unfold Webp.Impl.VP8SyntaxBytes.T.parseModes
  rw [segskip_runD prob h hseg hskip d]
  rcases ysplit prob hfix _ _ (segSkip h d).2.2 with ⟨hy, hgo⟩ | ⟨g, hg4, hgy, hyn, hgo⟩
  · -- B_PRED
    rw [hgo, specModes_bpred h mbX sc d hy]
    have hB : BRel mbX sc.above gc.top gc.left prev (fun _ => False)
        ((yRead (segSkip h d).2.2).2, sc.above, sc.left, Array.replicate 16 (impliedBMode (yRead (segSkip h d).2.2).1)) :=
      ⟨hc.a, hc.l, fun _ hf => hf.elim, hc.o, hc.asz, hc.asz4, hc.lsz, by simp, hc.tlt, hc.llt⟩
    obtain ⟨m', modes', hr, h2⟩ := rows_sim prob hb mbX sc.above (List.finRange 4) gc prev (fun _ => False) _ hB
    rw [← bAll_fin] at hr h2
    rw [runD_bind_of' prob hr]
    generalize bAll mbX ((yRead (segSkip h d).2.2).2, sc.above, sc.left,
      Array.replicate 16 (impliedBMode (yRead (segSkip h d).2.2).1)) = S at h2 ⊢
    obtain ⟨uv, huv, hfu⟩ := tree_runD prob uvModeTree (fun i => .fixed (Tables.kfUVModeProbs.getD i 128))
      (fun i => Tables.kfUVModeProbs.getD i 128) (fun i => hfix _ (kfUV_le i)) T.readUVMode rfcY 16 0 uvmode_tree S.1
    have huv' : runD prob T.readUVMode S.1 =
        some (uv, (BoolDec.readTree uvModeTree (fun i => Tables.kfUVModeProbs.getD i 128) S.1).2) := huv
    rw [runD_bind_of' prob huv']
    have hfu' : rfcY uv = (BoolDec.readTree uvModeTree (fun i => Tables.kfUVModeProbs.getD i 128) S.1).1 := hfu
    generalize BoolDec.readTree uvModeTree (fun i => Tables.kfUVModeProbs.getD i 128) S.1 = UV at hfu' ⊢
    refine ⟨{ isI4 := true, imodes := modes', uvmode := uv, segment := (segSkip h d).1, skip := (segSkip h d).2.1 }, m',
      rfl, ?_, ?_⟩
    · exact ModeRel.mk rfl rfl hy (fun hh => by cases hh) (fun _ b => h2.m b (Or.inr (all16' b))) hfu'.symm
    · exact CRel.mk h2.a h2.l h2.o h2.asz h2.asz4 h2.lsz h2.tlt h2.llt
  · -- a 16×16 mode
    rw [hgo, specModes_i16 h mbX sc d hyn]
    obtain ⟨uv, huv, hfu⟩ := tree_runD prob uvModeTree (fun i => .fixed (Tables.kfUVModeProbs.getD i 128))
      (fun i => Tables.kfUVModeProbs.getD i 128) (fun i => hfix _ (kfUV_le i)) T.readUVMode rfcY 16 0 uvmode_tree
      (yRead (segSkip h d).2.2).2
    have huv' : runD prob T.readUVMode (yRead (segSkip h d).2.2).2 =
        some (uv, (BoolDec.readTree uvModeTree (fun i => Tables.kfUVModeProbs.getD i 128) (yRead (segSkip h d).2.2).2).2) := huv
    rw [runD_bind_of' prob huv']
    have hfu' : rfcY uv = (BoolDec.readTree uvModeTree (fun i => Tables.kfUVModeProbs.getD i 128) (yRead (segSkip h d).2.2).2).1 := hfu
    have hi : impliedBMode (yRead (segSkip h d).2.2).1 = rfcB g := by rw [← hgy]; exact implied_rfc g hg4
    rw [hi]
    generalize BoolDec.readTree uvModeTree (fun i => Tables.kfUVModeProbs.getD i 128) (yRead (segSkip h d).2.2).2 = UV at hfu' ⊢
    refine ⟨{ isI4 := false, imodes := fun b => if b.val = 0 then g else prev b, uvmode := uv,
              segment := (segSkip h d).1, skip := (segSkip h d).2.1 }, { top := fun _ => g, left := fun _ => g }, rfl, ?_, ?_⟩
    · exact ModeRel.mk rfl rfl hgy.symm (fun _ => hg4) (fun hh => by cases hh) hfu'.symm
    · exact implied_crel mbX sc.above gc sc hc g hg4

end Webp.Proofs.C04RefineModes
