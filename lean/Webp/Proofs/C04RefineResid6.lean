import Webp.Proofs.C04RefineResid4
import Mathlib.Tactic.IntervalCases
/-
  C04 refinement, residuals, part 6: the block step on the reference decoder (`T.getCoeffs` = `readBlock`), `readBlock`
  with `first ≥ 1` commutes with a store into the block's DC slot, and the bit arithmetic of the packed context words.
-/
namespace Webp.Proofs.C04RefineResid
open Webp.Spec.VP8
open Webp.Impl.VP8SyntaxBytes (P runR rd)
open Webp.Impl.VP8Recon (Slot Coeffs)
open Webp.Proofs.C04RefineOps Webp.Proofs.C04RefineTokens Webp.Proofs.C04RefineSyntax

/-- one block on the reference decoder -/
theorem getCoeffs_runD (prob : Slot → UInt8) (probs : Array Nat) (t ctx : Nat) (dq0 dq1 : Int)
    (first base : Nat) (coeffs : Array Int) (hc : CoefOK prob probs t) (hfix : FixedOK prob) (hf : first ≤ 16) (hctx : ctx ≤ 2)
    (hsz : base + 16 ≤ coeffs.size) (d : BoolDec) :
    runD prob (Webp.Impl.VP8SyntaxBytes.T.getCoeffs t ctx dq0 dq1 first (toC coeffs base)) d =
      some (((readBlock probs t first ctx dq0 dq1 base coeffs d).1,
             toC (readBlock probs t first ctx dq0 dq1 base coeffs d).2.1 base),
            (readBlock probs t first ctx dq0 dq1 base coeffs d).2.2.2) := by
  rw [getCoeffs_block t ctx dq0 dq1 first hf]
  exact blockP_runD prob probs t dq0 dq1 base hc hfix 16 first ctx false coeffs false d hctx hsz

theorem zigzag_pos' (p : Nat) (hp : p < 16) (h1 : 1 ≤ p) : Tables.zigzag.getD p 0 ≠ 0 := zigzag_pos ⟨p, hp⟩ h1

/-- `readBlock` from a position `≥ 1` commutes with a store into slot `base` -/
theorem readBlock_go_set0 (probs : Array Nat) (t : Nat) (dcQ acQ : Int) (base : Nat) (v : Int) :
    ∀ (fuel i ctx : Nat) (az : Bool) (coeffs : Array Int) (ovf : Bool) (d : BoolDec), 1 ≤ i →
      readBlock.go probs t dcQ acQ base fuel i ctx az (coeffs.setIfInBounds base v) ovf d =
        ((readBlock.go probs t dcQ acQ base fuel i ctx az coeffs ovf d).1,
         (readBlock.go probs t dcQ acQ base fuel i ctx az coeffs ovf d).2.1.setIfInBounds base v,
         (readBlock.go probs t dcQ acQ base fuel i ctx az coeffs ovf d).2.2.1,
         (readBlock.go probs t dcQ acQ base fuel i ctx az coeffs ovf d).2.2.2) := by
  intro fuel
  induction fuel with
  | zero => intro i ctx az coeffs ovf d _; rw [readBlock.go, readBlock.go]
  | succ fuel ih =>
    intro i ctx az coeffs ovf d h1
    by_cases hi : i < 16
    · cases hr : BoolDec.readTree.go coeffTree
        (fun n => probs.getD (((t * 8 + Tables.coeffBands.getD i 0) * 3 + ctx) * 11 + n) 128) 16 (if az then 2 else 0) d with
      | mk tok d1 =>
        rw [readBlock_go_succ probs t dcQ acQ base fuel i ctx az _ ovf d hi tok d1 hr,
          readBlock_go_succ probs t dcQ acQ base fuel i ctx az coeffs ovf d hi tok d1 hr]
        by_cases h11 : tok = 11
        · rw [if_pos h11, if_pos h11]
        · rw [if_neg h11, if_neg h11]
          by_cases h0 : tok = 0
          · rw [if_pos h0, if_pos h0]; exact ih _ _ _ _ _ _ (by omega)
          · rw [if_neg h0, if_neg h0, Array.setIfInBounds_comm _ _ (by have := zigzag_pos' i hi h1; omega)]
            exact ih _ _ _ _ _ _ (by omega)
    · rw [readBlock_go_16 _ _ _ _ _ _ _ _ _ _ _ _ hi, readBlock_go_16 _ _ _ _ _ _ _ _ _ _ _ _ hi]

theorem readBlock_set0 (probs : Array Nat) (t first ctx : Nat) (dcQ acQ : Int) (base : Nat) (v : Int) (hf : 1 ≤ first)
    (coeffs : Array Int) (d : BoolDec) :
    readBlock probs t first ctx dcQ acQ base (coeffs.setIfInBounds base v) d =
      ((readBlock probs t first ctx dcQ acQ base coeffs d).1,
       (readBlock probs t first ctx dcQ acQ base coeffs d).2.1.setIfInBounds base v,
       (readBlock probs t first ctx dcQ acQ base coeffs d).2.2.1,
       (readBlock probs t first ctx dcQ acQ base coeffs d).2.2.2) :=
  readBlock_go_set0 probs t dcQ acQ base v 16 first ctx false coeffs false d hf

/-! ## bits of the packed words -/

/-- bit `k` of `w` as a number -/
def bit (w k : Nat) : Nat := (w >>> k) % 2

theorem bit_eq (w k : Nat) : bit w k = (w.testBit k).toNat := by
  unfold bit; rw [Nat.toNat_testBit, Nat.shiftRight_eq_div_pow]

theorem bit_le (w k : Nat) : bit w k ≤ 1 := by unfold bit; omega

theorem bit_and1 (w : Nat) : w &&& 1 = bit w 0 := by
  unfold bit; rw [Nat.and_one_is_mod]; rfl

theorem bit_shr (w s k : Nat) : bit (w >>> s) k = bit w (s + k) := by
  rw [bit_eq, bit_eq, Nat.testBit_shiftRight]

theorem bit_high (w p k : Nat) (hw : w < 2 ^ p) (hk : p ≤ k) : bit w k = 0 := by
  rw [bit_eq, Nat.testBit_lt_two_pow (Nat.lt_of_lt_of_le hw (Nat.pow_le_pow_right (by omega) hk))]; rfl

/-- the queue step of the context words: `w >> 1 | f << p` -/
theorem bit_push (w f p k : Nat) (hf : f ≤ 1) (hw : w < 2 ^ (p + 1)) :
    bit (w >>> 1 ||| f <<< p) k = if k = p then f else if k < p then bit w (k + 1) else 0 := by
  have hwk : ∀ j, p ≤ j → w.testBit (1 + j) = false := fun j hj =>
    Nat.testBit_lt_two_pow (Nat.lt_of_lt_of_le hw (Nat.pow_le_pow_right (by omega) (by omega)))
  rw [bit_eq, Nat.testBit_or, Nat.testBit_shiftRight, Nat.testBit_shiftLeft]
  have hf' : f = 0 ∨ f = 1 := by omega
  by_cases h1 : k = p
  · subst h1
    rw [if_pos rfl, hwk k (Nat.le_refl _), Nat.sub_self]
    rcases hf' with rfl | rfl <;> simp
  · rw [if_neg h1]
    by_cases h2 : k < p
    · rw [if_pos h2, bit_eq, Nat.add_comm k 1]
      simp [Nat.not_le.mpr h2]
    · rw [if_neg h2, hwk k (by omega)]
      have : 1 ≤ k - p := by omega
      rcases hf' with rfl | rfl
      · simp
      · have h1' : (1 : Nat).testBit (k - p) = false := by
          cases hb : (1 : Nat).testBit (k - p) with
          | false => rfl
          | true => have := Nat.testBit_one_eq_true_iff_self_eq_zero.mp hb; omega
        simp [h1']

theorem push_lt (w f p : Nat) (hf : f ≤ 1) (hw : w < 2 ^ (p + 1)) : w >>> 1 ||| f <<< p < 2 ^ (p + 1) := by
  apply Nat.or_lt_two_pow
  · rw [Nat.shiftRight_eq_div_pow]; have : 2 ^ (p + 1) = 2 * 2 ^ p := by rw [Nat.pow_succ]; omega
    omega
  · rw [Nat.shiftLeft_eq]; have : 2 ^ (p + 1) = 2 * 2 ^ p := by rw [Nat.pow_succ]; omega
    have : f * 2 ^ p ≤ 1 * 2 ^ p := Nat.mul_le_mul_right _ hf
    have : 0 < 2 ^ p := Nat.pow_pos (by omega)
    omega

end Webp.Proofs.C04RefineResid
