import Webp.Proofs.C01FullAPI
import Webp.Proofs.AlphaChunk
/-
  C07 ← C01: the ALPH chunk stores the VP8L stream WITHOUT its five header bytes
  (/repo/internal/lossy/alpha.go: `payload := vp8lData[5:]`), and `DecodeAlpha` re-synthesises them

      stream[0] = 0x2f; PutUint32(stream[1:5], uint32(w-1) | uint32(h-1)<<14); copy(stream[5:], payload)

  i.e. with `alpha_is_used = 0` and version 0, whatever the encoder had written there.  This file
  proves that the re-synthesised stream has the bits of the SAME plan with `hasAlpha := false`
  (`resynth_bits`), that validity of a plan does not depend on `hasAlpha`, and hence that the
  specification decoder returns the plan's image for it (`decode_resynth`).
-/
namespace Webp.Proofs.C07Plans
open Webp.Go
open Webp.Spec.VP8L
open Webp.Impl.VP8LEntropy
open Webp.Impl.Alpha (alphaVP8LStream)
open Webp.Proofs.VP8LEntropyBits Webp.Proofs.VP8LEntropyWriter Webp.Proofs.VP8LEntropyStream
open Webp.Proofs.C01FullStream Webp.Proofs.C01FullAPI
open Webp.Proofs.VP8LSpecBridge (specDecoder_undoes_encoder)

/-! ## bits of dropped / re-synthesised bytes -/

theorem bytesToBits_drop (l : List UInt8) (k : Nat) : bytesToBits (l.drop k) = (bytesToBits l).drop (8 * k) := by
  induction k generalizing l with
  | zero => simp
  | succ k ih =>
    cases l with
    | nil => simp [bytesToBits]
    | cons b t =>
      rw [List.drop_succ_cons, ih t]
      show _ = List.drop (8 * (k + 1)) (bitsLE b.toNat 8 ++ bytesToBits t)
      rw [Nat.mul_add, Nat.mul_one, Nat.add_comm, ← List.drop_drop]
      congr 1
      try rw [List.drop_left' (by simp)]

/-- a bit list is determined by its length and its value -/
theorem bits_eq_of_value {a b : List Bool} (hl : a.length = b.length) (hv : ofBitsLE a = ofBitsLE b) : a = b := by
  rw [← bitsLE_ofBitsLE a, ← bitsLE_ofBitsLE b, hl, hv]

theorem ofNat_toNat_mod (x : Nat) : (UInt8.ofNat x).toNat = x % 256 := by
  simp [UInt8.toNat_ofNat']

/-- the four bytes `PutUint32` writes carry the 32 bits of the value -/
theorem bytesToBits_putLE32 (v : Nat) (hv : v < 268435456) (t : List UInt8) :
    bytesToBits (putLE32 v ++ t) = bitsLE v 32 ++ bytesToBits t := by
  rw [bytesToBits_append]
  congr 1
  apply bits_eq_of_value
  · simp [putLE32]
  · rw [ofBitsLE_bitsLE_of_lt (by omega)]
    simp only [putLE32, bytesToBits, List.append_nil, ofBitsLE_append, bitsLE_length, ofNat_toNat_mod, Nat.mod_mod]
    have hb : ∀ x : Nat, ofBitsLE (bitsLE (x % 256) 8) = x % 256 := fun x =>
      ofBitsLE_bitsLE_of_lt (Nat.lt_of_lt_of_le (Nat.mod_lt _ (by decide)) (by decide))
    simp only [hb, Nat.reducePow]
    have h4 : v / 16777216 % 256 = v / 16777216 := Nat.mod_eq_of_lt (by omega)
    rw [h4]
    omega

/-- `uint32(w-1) | uint32(h-1)<<14` as a sum -/
theorem or_shift14 (x y : Nat) (hx : x < 16384) : x ||| (y <<< 14) = x + y * 16384 := by
  rw [Nat.or_comm, ← Nat.shiftLeft_add_eq_or_of_lt (show x < 2 ^ 14 by omega), Nat.shiftLeft_eq, Nat.add_comm]

/-- the 32 header bits after the signature: width−1, height−1, alpha_is_used = 0, version = 0 -/
theorem header_word_bits (x y : Nat) (hx : x < 16384) (hy : y < 16384) :
    bitsLE (x ||| (y <<< 14)) 32 = bitsLE x 14 ++ (bitsLE y 14 ++ (bitsLE 0 1 ++ bitsLE 0 3)) := by
  rw [or_shift14 x y hx]
  have e1 := bitsLE_concat (a := x) (v := y) (u := 14) (by omega) 18
  rw [show (14 : Nat) + 18 = 32 by rfl, show (2 : Nat) ^ 14 = 16384 by rfl] at e1
  rw [e1]
  have e2 := bitsLE_concat (a := y) (v := 0) (u := 14) (by omega) 4
  rw [Nat.zero_mul, Nat.add_zero, show (14 : Nat) + 4 = 18 by rfl] at e2
  rw [e2]
  have e3 := bitsLE_add 0 1 3
  rw [show (1 : Nat) + 3 = 4 by rfl, Nat.zero_div] at e3
  rw [e3]

/-! ## the plan without the alpha hint -/

/-- the same plan with `alpha_is_used` cleared -/
def clearAlpha (sp : StreamPlanMeta) : StreamPlanMeta := { sp with hasAlpha := false }

theorem clearAlpha_valid (sp : StreamPlanMeta) (hv : StreamValidMeta sp) : StreamValidMeta (clearAlpha sp) :=
  ⟨hv.width, hv.height, hv.kinds, hv.xfs, hv.main_width, hv.main_height, hv.main⟩

theorem clearAlpha_encodes (sp : StreamPlanMeta) (argb : Array UInt32) (he : PlanEncodes sp argb) :
    PlanEncodes (clearAlpha sp) argb :=
  ⟨he.size, he.main, he.chain⟩

/-- everything `encodeStream` writes after the five header bytes -/
def bodyCalls (p : StreamPlanMeta) : List Call :=
  p.transforms.flatMap writeTransform ++ [(0, 1)] ++ storeColorCacheInfo p.cacheBits ++ encodeMainBody p.main

theorem encodeStreamMeta_split (p : StreamPlanMeta) :
    callsBits (encodeStreamMeta p) =
      bitsLE 0x2f 8 ++ (bitsLE (p.width - 1) 14 ++ (bitsLE (p.height - 1) 14 ++
        (bitsLE (if p.hasAlpha then 1 else 0) 1 ++ (bitsLE 0 3 ++ callsBits (bodyCalls p))))) := by
  unfold encodeStreamMeta bodyCalls
  simp only [List.append_assoc, List.cons_append, List.nil_append, VP8LEntropyCodeLengths.callsBits_cons]

/-- **the re-synthesised stream has the bits of the plan with the alpha hint cleared** -/
theorem resynth_bits (sp : StreamPlanMeta) (hv : StreamValidMeta sp) (w h : Nat) (hw : sp.width = w)
    (hh : sp.height = h) :
    ∃ pad, bytesToBits (alphaVP8LStream ((streamList sp).drop 5) w h) =
      callsBits (encodeStreamMeta (clearAlpha sp)) ++ List.replicate pad false := by
  obtain ⟨pad, _, hb⟩ := restBits_bytes _ (encodeStreamMeta_ok sp hv)
  have hb' : bytesToBits (streamList sp) = callsBits (encodeStreamMeta sp) ++ List.replicate pad false := by
    have : restBits { data := ByteArray.mk (runCalls (encodeStreamMeta sp)).finish } =
        bytesToBits (streamList sp) := by
      unfold restBits streamList streamBytesMeta
      simp
    rw [← this]; exact hb
  have hwb := hv.width
  have hhb := hv.height
  refine ⟨pad, ?_⟩
  unfold alphaVP8LStream
  show bytesToBits ([(0x2f : UInt8)] ++ (putLE32 ((w - 1) ||| ((h - 1) <<< 14)) ++ List.drop 5 (streamList sp))) = _
  rw [bytesToBits_append, bytesToBits_singleton]
  have hlt : (w - 1) ||| ((h - 1) <<< 14) < 268435456 := by
    rw [or_shift14 _ _ (by omega)]; omega
  rw [bytesToBits_putLE32 _ hlt, header_word_bits (w - 1) (h - 1) (by omega) (by omega), bytesToBits_drop, hb',
    encodeStreamMeta_split sp, encodeStreamMeta_split (clearAlpha sp)]
  have hdrop : ∀ (R : List Bool),
      List.drop (8 * 5) (bitsLE 0x2f 8 ++ (bitsLE (sp.width - 1) 14 ++ (bitsLE (sp.height - 1) 14 ++
        (bitsLE (if sp.hasAlpha then 1 else 0) 1 ++ (bitsLE 0 3 ++ R))))) = R := by
    intro R
    have e : bitsLE 0x2f 8 ++ (bitsLE (sp.width - 1) 14 ++ (bitsLE (sp.height - 1) 14 ++
        (bitsLE (if sp.hasAlpha then 1 else 0) 1 ++ (bitsLE 0 3 ++ R)))) =
        (bitsLE 0x2f 8 ++ (bitsLE (sp.width - 1) 14 ++ (bitsLE (sp.height - 1) 14 ++
        (bitsLE (if sp.hasAlpha then 1 else 0) 1 ++ bitsLE 0 3)))) ++ R := by
      simp only [List.append_assoc]
    rw [e, List.drop_left' (by simp)]
  simp only [List.append_assoc]
  rw [hdrop]
  have hb2 : bodyCalls (clearAlpha sp) = bodyCalls sp := rfl
  have hcw : (clearAlpha sp).width = w := hw
  have hch : (clearAlpha sp).height = h := hh
  have hca : (clearAlpha sp).hasAlpha = false := rfl
  rw [hb2, hcw, hch, hca]
  rfl

/-! ## decoding any byte string that carries a valid plan's bits -/

theorem decode_of_bits (sp : StreamPlanMeta) (hv : StreamValidMeta sp) (argb : Array UInt32)
    (he : PlanEncodes sp argb) (data : ByteArray) (rest : List Bool)
    (hb : restBits { data := data } = callsBits (encodeStreamMeta sp) ++ rest) :
    decode data = .ok { width := sp.width, height := sp.height, hasAlpha := sp.hasAlpha, pixels := argb } := by
  obtain ⟨info, br', h1, h2, h3, _⟩ := stream_roundtrip_meta_bits sp hv data rest hb
  unfold decode
  rw [h1]
  simp only [Res.bind_ok, Res.pure_eq, h2, h3]
  rw [he.main, specDecoder_undoes_encoder sp.height (planXfs sp) sp.width argb _ rfl (widthsOK_plan sp hv)
    he.chain he.size]

/-- **the specification decoder on the re-synthesised ALPH stream**: the plan's image, with the
    alpha hint cleared (the pixels do not depend on it) -/
theorem decode_resynth (sp : StreamPlanMeta) (w h : Nat) (argb : Array UInt32) (hv : ValidPlanFor w h argb sp) :
    decode (ByteArray.mk (alphaVP8LStream ((streamList sp).drop 5) w h).toArray) =
      .ok { width := w, height := h, hasAlpha := false, pixels := argb } := by
  obtain ⟨pad, hb⟩ := resynth_bits sp hv.valid w h hv.width hv.height
  have hd := decode_of_bits (clearAlpha sp) (clearAlpha_valid sp hv.valid) argb
    (clearAlpha_encodes sp argb hv.encodes) (ByteArray.mk (alphaVP8LStream ((streamList sp).drop 5) w h).toArray)
    (List.replicate pad false)
    (by
      unfold restBits
      simpa using hb)
  rw [hd]
  simp only [clearAlpha]
  rw [hv.width, hv.height]

/-- the stored stream has at least its five header bytes -/
theorem streamList_length (sp : StreamPlanMeta) (hv : StreamValidMeta sp) : 5 ≤ (streamList sp).length := by
  have h := stream_header sp hv
  unfold Webp.Impl.Parser.parseVP8LHeader at h
  split at h
  · cases h
  · omega

end Webp.Proofs.C07Plans
