import Webp.Impl.BoolCoderFast
import Webp.Proofs.BoolReaderAlt
import Webp.Proofs.C04RefineOps
/-
  The inlined reader of decode_mb.go (`fastBit`, `fastSigned`, `brLoad`, `brSync` on locals) is the
  `BoolReader` itself: with `abs s` = the reader `brSync` would write back, one
  `if brB < 0 { brLoad }; fastBit` step is `GetBitAlt` on `abs s`, one `…; fastSigned` step is
  `GetSigned`.
-/
namespace Webp.Proofs.BoolCoderFastRead
open Webp.Go (Bytes)
open Webp.Impl.BoolCoder
open Webp.Proofs.BoolReader (wrap32_of_lt)

/-- the reader the locals stand for (what `brSync` writes back) -/
def abs (s : FastSt) : BoolReader := brSync s

/-- the window offset stays in `−8 ..= 55` -/
def BitsOK (r : BoolReader) : Prop := -8 ≤ r.bits ∧ r.bits ≤ 55

theorem load_range_comm (r : BoolReader) (ρ : Nat) :
    loadNewBytes { r with range := ρ } = { loadNewBytes r with range := ρ } := by
  unfold loadNewBytes loadFinalBytes
  simp only
  split_ifs <;> rfl

theorem load_range (r : BoolReader) : (loadNewBytes r).range = r.range := by
  unfold loadNewBytes loadFinalBytes
  split_ifs <;> rfl

theorem load_bits {r : BoolReader} (h : BitsOK r) (hneg : r.bits < 0) :
    0 ≤ (loadNewBytes r).bits ∧ (loadNewBytes r).bits ≤ 55 := by
  unfold loadNewBytes loadFinalBytes
  obtain ⟨h1, h2⟩ := h
  split_ifs <;> constructor <;> simp only <;> omega

/-- `brLoad` is `LoadNewBytes` on the reader the locals stand for -/
theorem abs_brLoad (s : FastSt) : abs (brLoad s) = loadNewBytes (abs s) := by
  show ({ loadNewBytes { s.br with value := s.v, bits := s.b } with
          value := (loadNewBytes { s.br with value := s.v, bits := s.b }).value, range := s.r,
          bits := (loadNewBytes { s.br with value := s.v, bits := s.b }).bits } : BoolReader) =
       loadNewBytes { s.br with value := s.v, range := s.r, bits := s.b }
  have := load_range_comm { s.br with value := s.v, bits := s.b } s.r
  simp only at this
  rw [this]

/-- `GetBitAlt` after the load -/
def altCore (r : BoolReader) (range prob : Nat) : Bool × BoolReader :=
  let pos := r.bits
  let split := wrap32 (wrap32 (range * prob) >>> 8)
  let value := wrap32 (shrU64 r.value pos)
  let bit : Bool := value > split
  let range' := if bit then wrap32 (range + 2^32 - (split + 1)) else split
  let val' := if bit then subU64 r.value (shlU64 (split + 1) pos) else r.value
  if range' ≤ 0x7e then
    (bit, { r with value := val', bits := r.bits - kNorm.getD range' 0, range := kNewRange.getD range' 0 })
  else
    (bit, { r with value := val', range := range' })

theorem getBitAlt_eq (r : BoolReader) (p : Nat) :
    getBitAlt r p = altCore (if r.bits < 0 then loadNewBytes r else r) r.range p := rfl

theorem sh63_of {b : Int} {B : Nat} (hb : b = (B : Int)) (h64 : B < 64) : sh63 b = B := by
  unfold sh63; rw [hb]; omega

theorem split_wrap (range p : Nat) : wrap32 (wrap32 (range * p) >>> 8) = wrap32 (range * p) >>> 8 := by
  apply wrap32_of_lt
  have h1 : wrap32 (range * p) < 2 ^ 32 := Nat.mod_lt _ (by norm_num)
  have h2 : wrap32 (range * p) >>> 8 ≤ wrap32 (range * p) := by
    rw [Nat.shiftRight_eq_div_pow]; exact Nat.div_le_self _ _
  omega

/-- `fastBit` on the locals is the body of `GetBitAlt` on the reader, for a window offset in `0 ..< 64` -/
theorem altCore_eq_fastBit (r : BoolReader) (p : Nat) (h0 : 0 ≤ r.bits) (h64 : r.bits < 64) :
    altCore r r.range p =
      ((fastBit p r.value r.range r.bits).1,
       { r with value := (fastBit p r.value r.range r.bits).2.1, range := (fastBit p r.value r.range r.bits).2.2.1,
                bits := (fastBit p r.value r.range r.bits).2.2.2 }) := by
  obtain ⟨B, hB⟩ : ∃ B : Nat, r.bits = (B : Int) := ⟨r.bits.toNat, by omega⟩
  have hB64 : B < 64 := by omega
  have hsh := sh63_of hB hB64
  have hshr : shrU64 r.value r.bits = r.value >>> B := by
    unfold shrU64
    have : ¬ (r.bits < 0 ∨ r.bits ≥ 64) := by omega
    rw [if_neg this, hB, Int.toNat_natCast]
  have hshl : ∀ x, shlU64 x r.bits = wrap64 (x <<< B) := by
    intro x
    unfold shlU64
    have : ¬ (r.bits < 0 ∨ r.bits ≥ 64) := by omega
    rw [if_neg this, hB, Int.toNat_natCast]
  unfold altCore fastBit fastNorm
  simp only [split_wrap, hshr, hshl, hsh]
  split_ifs <;> rfl

theorem kNorm_le : ∀ r, r ≤ 0x7e → kNorm.getD r 0 ≤ 7 := by decide

theorem fastNorm_bits (bit : Bool) (v1 r1 : Nat) (b : Int) :
    b - 7 ≤ (fastNorm bit v1 r1 b).2.2.2 ∧ (fastNorm bit v1 r1 b).2.2.2 ≤ b := by
  unfold fastNorm
  by_cases hc : r1 ≤ 0x7e
  · have := kNorm_le _ hc
    simp only [hc, if_true]; omega
  · simp only [hc, if_false]; omega

theorem fastBit_bits (p v r : Nat) (b : Int) :
    b - 7 ≤ (fastBit p v r b).2.2.2 ∧ (fastBit p v r b).2.2.2 ≤ b := by
  unfold fastBit
  exact fastNorm_bits _ _ _ _

/-- **one `fastBit` step (with its `brLoad`) is one `GetBitAlt`** on the reader the locals stand for -/
theorem fastBitStep_eq (s : FastSt) (p : Nat) (hb : BitsOK (abs s)) :
    (fastBitStep s p).1 = (getBitAlt (abs s) p).1 ∧ abs (fastBitStep s p).2 = (getBitAlt (abs s) p).2 ∧
      BitsOK (abs (fastBitStep s p).2) := by
  have hbits : (abs s).bits = s.b := rfl
  have hrange : (abs s).range = s.r := rfl
  -- the state after the optional load
  have key : ∀ s1 : FastSt, abs s1 = (if (abs s).bits < 0 then loadNewBytes (abs s) else abs s) →
      0 ≤ (abs s1).bits → (abs s1).bits ≤ 55 → (abs s1).range = (abs s).range →
      (fastBit p s1.v s1.r s1.b).1 = (getBitAlt (abs s) p).1 ∧
      abs { s1 with v := (fastBit p s1.v s1.r s1.b).2.1, r := (fastBit p s1.v s1.r s1.b).2.2.1,
                    b := (fastBit p s1.v s1.r s1.b).2.2.2 } = (getBitAlt (abs s) p).2 ∧
      BitsOK (abs { s1 with v := (fastBit p s1.v s1.r s1.b).2.1, r := (fastBit p s1.v s1.r s1.b).2.2.1,
                            b := (fastBit p s1.v s1.r s1.b).2.2.2 }) := by
    intro s1 h1 h0 h55 hr
    rw [getBitAlt_eq, ← h1, ← hr, altCore_eq_fastBit (abs s1) p h0 (by omega)]
    refine ⟨rfl, rfl, ?_⟩
    show -8 ≤ (fastBit p s1.v s1.r s1.b).2.2.2 ∧ (fastBit p s1.v s1.r s1.b).2.2.2 ≤ 55
    have hb1 : (abs s1).bits = s1.b := rfl
    rw [hb1] at h0 h55
    have := fastBit_bits p s1.v s1.r s1.b
    omega
  unfold fastBitStep
  by_cases hneg : s.b < 0
  · simp only [hneg, if_true]
    have hl := load_bits hb (by rw [hbits]; exact hneg)
    exact key (brLoad s) (by rw [abs_brLoad, hbits]; simp [hneg]) (by rw [abs_brLoad]; exact hl.1)
      (by rw [abs_brLoad]; exact hl.2) (by rw [abs_brLoad, load_range])
  · simp only [hneg, if_false]
    exact key s (by rw [hbits]; simp [hneg]) (by rw [hbits]; omega) hb.2 rfl

/-- a run of `fastBit` steps, then `brSync`, is the same run of `GetBitAlt` on the reader -/
theorem fastRun_eq_alt (ps : List Nat) (s : FastSt) (hb : BitsOK (abs s)) :
    (fastRun s ps).1 = (readAltSt (abs s) ps).1 ∧ brSync (fastRun s ps).2 = (readAltSt (abs s) ps).2 := by
  induction ps generalizing s with
  | nil => exact ⟨rfl, rfl⟩
  | cons p ps ih =>
    obtain ⟨h1, h2, h3⟩ := fastBitStep_eq s p hb
    obtain ⟨i1, i2⟩ := ih (fastBitStep s p).2 h3
    refine ⟨?_, ?_⟩
    · show (fastBitStep s p).1 :: (fastRun (fastBitStep s p).2 ps).1 = (getBitAlt (abs s) p).1 :: _
      rw [h1, i1, h2]
    · show brSync (fastRun (fastBitStep s p).2 ps).2 = (readAltSt (getBitAlt (abs s) p).2 ps).2
      rw [i2, h2]

theorem abs_fastOpen (r : BoolReader) : abs (fastOpen r) = r := rfl

/-! ### `fastSigned` -/

open Webp.Proofs.C04RefineOps (getSignedCore getSigned_eq) in
/-- one `fastSigned` step (with its `brLoad`) is one `GetSigned` -/
theorem fastSignedStep_eq (s : FastSt) (hb : BitsOK (abs s)) :
    (fastSignedStep s).1 = (getSigned (abs s)).1 ∧ abs (fastSignedStep s).2 = (getSigned (abs s)).2 := by
  have hbits : (abs s).bits = s.b := rfl
  have key : ∀ s1 : FastSt, abs s1 = (if (abs s).bits < 0 then loadNewBytes (abs s) else abs s) →
      0 ≤ (abs s1).bits → (abs s1).bits ≤ 55 →
      (fastSigned s1.v s1.r s1.b).1 = (getSigned (abs s)).1 ∧
      abs { s1 with v := (fastSigned s1.v s1.r s1.b).2.1, r := (fastSigned s1.v s1.r s1.b).2.2.1,
                    b := (fastSigned s1.v s1.r s1.b).2.2.2 } = (getSigned (abs s)).2 := by
    intro s1 h1 h0 h55
    have hb1 : (abs s1).bits = s1.b := rfl
    have hv1 : (abs s1).value = s1.v := rfl
    have hr1 : (abs s1).range = s1.r := rfl
    obtain ⟨B, hB⟩ : ∃ B : Nat, s1.b = (B : Int) := ⟨s1.b.toNat, by rw [hb1] at h0; omega⟩
    have hB64 : B < 64 := by rw [hb1] at h55; omega
    have hsh := sh63_of hB hB64
    have hnot : ¬ (s1.b < 0 ∨ s1.b ≥ 64) := by omega
    have hnot' : ¬ ((B : Int) < 0 ∨ (B : Int) ≥ 64) := by omega
    rw [getSigned_eq, ← h1]
    unfold getSignedCore fastSigned
    simp only [hb1, hv1, hr1, hsh]
    unfold shrU64 shlU64
    simp only [hnot', if_false, hB, Int.toNat_natCast]
    exact ⟨trivial, rfl⟩
  unfold fastSignedStep
  by_cases hneg : s.b < 0
  · simp only [hneg, if_true]
    have hl := load_bits hb (by rw [hbits]; exact hneg)
    exact key (brLoad s) (by rw [abs_brLoad, hbits]; simp [hneg]) (by rw [abs_brLoad]; exact hl.1)
      (by rw [abs_brLoad]; exact hl.2)
  · simp only [hneg, if_false]
    exact key s (by rw [hbits]; simp [hneg]) (by rw [hbits]; omega) hb.2

end Webp.Proofs.BoolCoderFastRead
