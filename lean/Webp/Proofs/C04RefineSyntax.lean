import Webp.Proofs.C04RefineOps
import Webp.Spec.VP8.Macroblock
/-
  C04 refinement, layer 2 (syntax): the Go decoder's parse functions (`Webp.Impl.VP8SyntaxBytes.T.*`,
  decision trees transcribed from decode_tree.go / decode_mb.go) are the RFC's trees
  (`Webp.Spec.VP8.segmentTree`, `kfYModeTree`, `uvModeTree`, `bModeTree`, `coeffTree` walked by
  `BoolDec.readTree`), up to the renumbering of the intra modes (libwebp numbers them differently).

  `treeP tree sl` turns an RFC tree array into a decision tree (`P`); `treeP_runD` says running it
  on the reference decoder IS `BoolDec.readTree`; the `*_tree` theorems say the Go parse functions
  are these trees.
-/
namespace Webp.Proofs.C04RefineSyntax
open Webp.Go (Bytes)
open Webp.Impl.BoolCoder
open Webp.Spec.VP8 (BoolDec)
open Webp.Impl.VP8SyntaxBytes (P runR rd)
open Webp.Impl.VP8Recon (Slot b2n treeAt)
open Webp.Proofs.C04RefineOps
namespace T
export Webp.Impl.VP8SyntaxBytes.T (readSegmentID readI16Mode readUVMode readI4Mode readI4Loop readLevel readExtra getLoop getCoeffs)
end T

/-! ## RFC trees as decision trees -/

/-- `treed_read` over the tree array `tree` from node `i`, the probability of node `i` being slot
    `sl (i >> 1)` -/
def treeP (tree : Array Int) (sl : Nat → Slot) : (fuel i : Nat) → P Nat
  | 0, _ => .pure 0
  | fuel + 1, i =>
    .read (sl (i >>> 1)) fun b =>
      if tree.getD (i + (if b then 1 else 0)) 0 ≤ 0 then .pure (tree.getD (i + (if b then 1 else 0)) 0).natAbs
      else treeP tree sl fuel (tree.getD (i + (if b then 1 else 0)) 0).toNat

/-- running `treeP` on the reference decoder is `BoolDec.readTree` -/
theorem treeP_runD (prob : Slot → UInt8) (tree : Array Int) (sl : Nat → Slot) (probs : Nat → Nat)
    (hp : ∀ i, (prob (sl i)).toNat = probs i) (fuel i : Nat) (d : BoolDec) :
    runD prob (treeP tree sl fuel i) d = some (BoolDec.readTree.go tree probs fuel i d) := by
  induction fuel generalizing i d with
  | zero => rfl
  | succ fuel ih =>
    show runD prob (if tree.getD (i + (if (d.readBool (prob (sl (i >>> 1))).toNat).1 then 1 else 0)) 0 ≤ 0 then _ else _) _ = _
    rw [hp]
    unfold BoolDec.readTree.go
    simp only
    split_ifs <;> first | rfl | exact ih _ _

theorem p_read_congr {α : Type} {sl : Slot} {k k' : Bool → P α} (h0 : k false = k' false) (h1 : k true = k' true) :
    P.read sl k = P.read sl k' := by
  congr 1; funext b; cases b <;> assumption

/-- walk two closed decision trees in parallel -/
macro "ptree" : tactic => `(tactic| repeat (first | rfl | refine p_read_congr ?_ ?_))

/-! ## mode renumbering (libwebp → RFC 6386) -/

/-- 16×16 / chroma modes: Go `DC 0, TM 1, V 2, H 3` → RFC `DC_PRED 0, V_PRED 1, H_PRED 2, TM_PRED 3` -/
def rfcY : Nat → Nat
  | 0 => 0 | 1 => 3 | 2 => 1 | 3 => 2 | n => n

/-- sub-block modes: Go `… RD 4, VR 5, LD 6 …` → RFC `… LD 4, RD 5, VR 6 …` -/
def rfcB : Nat → Nat
  | 4 => 5 | 5 => 6 | 6 => 4 | n => n

/-! ## the four mode trees -/

theorem segment_tree : T.readSegmentID = treeP Webp.Spec.VP8.segmentTree Slot.seg 16 0 := by
  ptree

/-- the luma mode: `!GetBit(145)` = B_PRED, else the 16×16 mode tree -/
def readYModeGo : P Nat :=
  rd (.fixed 145) >>= fun b => if b then T.readI16Mode >>= fun m => pure (rfcY m) else pure 4

theorem ymode_tree :
    readYModeGo = treeP Webp.Spec.VP8.kfYModeTree (fun i => .fixed (Webp.Spec.VP8.Tables.kfYModeProbs.getD i 128)) 16 0 := by
  ptree

theorem uvmode_tree :
    (T.readUVMode >>= fun m => pure (rfcY m)) =
      treeP Webp.Spec.VP8.uvModeTree (fun i => .fixed (Webp.Spec.VP8.Tables.kfUVModeProbs.getD i 128)) 16 0 := by
  ptree

theorem bmode_tree (top left : Nat) :
    (T.readI4Mode top left >>= fun m => pure (rfcB m)) =
      treeP Webp.Spec.VP8.bModeTree (fun i => .bmode top left i) 16 0 := by
  ptree

/-! ## coefficient tokens -/

open Webp.Impl.VP8Recon (catTab Coeffs zz wrap16 coefSlot)

/-- extra-bit probabilities of a token (RFC `Pcat1 … Pcat6`), as the Go code has them -/
def catList : Nat → List Nat
  | 5 => [159]
  | 6 => [165, 145]
  | 7 => catTab 0
  | 8 => catTab 1
  | 9 => catTab 2
  | _ => catTab 3

/-- smallest magnitude of a token's category -/
def catBase : Nat → Nat
  | 5 => 5 | 6 => 7 | 7 => 11 | 8 => 19 | 9 => 35 | _ => 67

/-- §13.2: magnitude of a token other than `dct_eob` -/
def magP (tok : Nat) : P Nat :=
  if tok ≤ 4 then pure tok else T.readExtra (catList tok) 0 >>= fun e => pure (e + catBase tok)

/-- **the value tree of `getCoeffsInline` from `p[2]` on is the RFC's `coeff_tree` from its third
    node on, followed by the category's extra bits** -/
theorem level_tree (p : Nat → Slot) :
    T.readLevel p = treeP Webp.Spec.VP8.coeffTree p 16 4 >>= magP := by
  ptree

/-- one coefficient position as the RFC reads it: a token from `coeff_tree` (from the second node
    on after a `DCT_0`), then by token: end of block / zero / magnitude -/
def posP {β : Type} (sl : Nat → Slot) (kEob kZero : P β) (kVal : Nat → P β) (az : Bool) : P β :=
  treeP Webp.Spec.VP8.coeffTree sl 16 (if az then 2 else 0) >>= fun tok =>
    if tok = 11 then kEob else if tok = 0 then kZero else magP tok >>= kVal

/-- one coefficient position as `getCoeffsInline` reads it: `p[0]` (unless after a zero), `p[1]`,
    then the value tree -/
def goPos {β : Type} (sl : Nat → Slot) (kEob kZero : P β) (kVal : Nat → P β) (az : Bool) : P β :=
  if az then
    rd (sl 1) >>= fun b => if !b then kZero else T.readLevel sl >>= kVal
  else
    rd (sl 0) >>= fun b => if !b then kEob else
      rd (sl 1) >>= fun b => if !b then kZero else T.readLevel sl >>= kVal

theorem pos_eq {β : Type} (sl : Nat → Slot) (kEob kZero : P β) (kVal : Nat → P β) (az : Bool) :
    goPos sl kEob kZero kVal az = posP sl kEob kZero kVal az := by
  unfold goPos
  rw [level_tree]
  cases az
  · ptree
  · ptree

/-- §13 the tokens of one block, as a decision tree mirroring `Spec.VP8.readBlock.go` -/
def blockP (t : Nat) (dq0 dq1 : Int) : (fuel i ctx : Nat) → (az : Bool) → Coeffs → P (Nat × Coeffs)
  | 0, i, _, _, out => pure (i, out)
  | fuel + 1, i, ctx, az, out =>
    if h : i < 16 then
      posP (coefSlot t i ctx) (pure (i, out)) (blockP t dq0 dq1 fuel (i + 1) 0 true out)
        (fun mag => rd (.fixed 128) >>= fun neg =>
          blockP t dq0 dq1 fuel (i + 1) (if mag = 1 then 1 else 2) false
            (out.set (zz ⟨i, h⟩) (wrap16 ((if neg then -(mag : Int) else (mag : Int)) * (if i = 0 then dq0 else dq1)))))
        az
    else pure (16, out)

theorem blockP_succ (t : Nat) (dq0 dq1 : Int) (f i ctx : Nat) (az : Bool) (out : Coeffs) :
    blockP t dq0 dq1 (f + 1) i ctx az out =
      if h : i < 16 then
        posP (coefSlot t i ctx) (pure (i, out)) (blockP t dq0 dq1 f (i + 1) 0 true out)
          (fun mag => rd (.fixed 128) >>= fun neg =>
            blockP t dq0 dq1 f (i + 1) (if mag = 1 then 1 else 2) false
              (out.set (zz ⟨i, h⟩) (wrap16 ((if neg then -(mag : Int) else (mag : Int)) * (if i = 0 then dq0 else dq1)))))
          az
      else pure (16, out) := rfl

theorem blockP_16 (t : Nat) (dq0 dq1 : Int) (f ctx : Nat) (az : Bool) (out : Coeffs) :
    blockP t dq0 dq1 f 16 ctx az out = pure (16, out) := by
  cases f with
  | zero => rfl
  | succ f => rw [blockP_succ]; simp

theorem getLoop_false (t : Nat) (dq0 dq1 : Int) (F n ctx : Nat) (out : Coeffs) :
    T.getLoop t dq0 dq1 (F + 1) n ctx false out =
      if n ≥ 16 then pure (16, out)
      else rd (coefSlot t n ctx 0) >>= fun b =>
        if !b then pure (n, out) else T.getLoop t dq0 dq1 F n ctx true out := rfl

theorem getLoop_true (t : Nat) (dq0 dq1 : Int) (F n ctx : Nat) (out : Coeffs) :
    T.getLoop t dq0 dq1 (F + 1) n ctx true out =
      if h : n < 16 then
        rd (coefSlot t n ctx 1) >>= fun b =>
        if !b then
          (if n + 1 = 16 then pure (16, out) else T.getLoop t dq0 dq1 F (n + 1) 0 true out)
        else
          T.readLevel (coefSlot t n ctx) >>= fun v =>
          rd (.fixed 128) >>= fun neg =>
          T.getLoop t dq0 dq1 F (n + 1) (if v = 1 then 1 else 2) false
            (out.set (zz ⟨n, h⟩) (wrap16 ((if neg then -(v : Int) else (v : Int)) * (if n = 0 then dq0 else dq1))))
      else .fail := rfl

/-- **`getCoeffsInline` reads the RFC's token syntax**: its two-state loop is the RFC's per-position
    loop (`blockP`), for every block type, context, position and probability slot -/
theorem getLoop_block (t : Nat) (dq0 dq1 : Int) :
    ∀ (f i ctx : Nat) (az : Bool) (out : Coeffs) (F : Nat), i ≤ 16 → (az = true → i < 16) → 16 ≤ i + f →
      2 * f + 2 ≤ F → T.getLoop t dq0 dq1 F i ctx az out = blockP t dq0 dq1 f i ctx az out := by
  intro f
  induction f with
  | zero =>
    intro i ctx az out F hi haz hf hF
    have h16 : i = 16 := by omega
    subst h16
    have : az = false := by
      cases az
      · rfl
      · exact absurd (haz rfl) (by omega)
    subst this
    obtain ⟨F', rfl⟩ : ∃ F', F = F' + 1 := ⟨F - 1, by omega⟩
    rw [getLoop_false]
    simp
    rfl
  | succ f ih =>
    intro i ctx az out F hi haz hf hF
    obtain ⟨F', rfl⟩ : ∃ F', F = F' + 2 := ⟨F - 2, by omega⟩
    by_cases h16 : i = 16
    · subst h16
      have : az = false := by
        cases az
        · rfl
        · exact absurd (haz rfl) (by omega)
      subst this
      rw [blockP_16]
      show T.getLoop t dq0 dq1 (F' + 1 + 1) 16 ctx false out = _
      rw [getLoop_false]
      simp
    · have hlt : i < 16 := by omega
      -- the continuations agree by induction
      have hzero : (if i + 1 = 16 then (pure (16, out) : P (Nat × Coeffs)) else T.getLoop t dq0 dq1 F' (i + 1) 0 true out)
          = blockP t dq0 dq1 f (i + 1) 0 true out := by
        by_cases h : i + 1 = 16
        · rw [if_pos h, h, blockP_16]
        · rw [if_neg h]
          exact ih (i + 1) 0 true out F' (by omega) (fun _ => by omega) (by omega) (by omega)
      have hzero' : (if i + 1 = 16 then (pure (16, out) : P (Nat × Coeffs)) else T.getLoop t dq0 dq1 (F' + 1) (i + 1) 0 true out)
          = blockP t dq0 dq1 f (i + 1) 0 true out := by
        by_cases h : i + 1 = 16
        · rw [if_pos h, h, blockP_16]
        · rw [if_neg h]
          exact ih (i + 1) 0 true out (F' + 1) (by omega) (fun _ => by omega) (by omega) (by omega)
      have hval : ∀ (F0 : Nat), 2 * f + 2 ≤ F0 → ∀ c out', T.getLoop t dq0 dq1 F0 (i + 1) c false out' = blockP t dq0 dq1 f (i + 1) c false out' :=
        fun F0 hF0 c out' => ih (i + 1) c false out' F0 (by omega) (fun h => by cases h) (by omega) hF0
      cases az
      · -- top of the position loop: `p[0]`, then the zero-run state
        have e : T.getLoop t dq0 dq1 (F' + 2) i ctx false out =
            goPos (coefSlot t i ctx) (pure (i, out))
              (if i + 1 = 16 then pure (16, out) else T.getLoop t dq0 dq1 F' (i + 1) 0 true out)
              (fun v => rd (.fixed 128) >>= fun neg =>
                T.getLoop t dq0 dq1 F' (i + 1) (if v = 1 then 1 else 2) false
                  (out.set (zz ⟨i, hlt⟩) (wrap16 ((if neg then -(v : Int) else (v : Int)) * (if i = 0 then dq0 else dq1)))))
              false := by
          have hn : ¬ i ≥ 16 := by omega
          show T.getLoop t dq0 dq1 (F' + 1 + 1) i ctx false out = _
          rw [getLoop_false, if_neg hn, getLoop_true]
          simp only [hlt, dite_true]
          rfl
        rw [e, pos_eq, hzero]
        simp only [hval F' (by omega)]
        rw [blockP_succ, dif_pos hlt]
      · have e : T.getLoop t dq0 dq1 (F' + 2) i ctx true out =
            goPos (coefSlot t i ctx) (pure (i, out))
              (if i + 1 = 16 then pure (16, out) else T.getLoop t dq0 dq1 (F' + 1) (i + 1) 0 true out)
              (fun v => rd (.fixed 128) >>= fun neg =>
                T.getLoop t dq0 dq1 (F' + 1) (i + 1) (if v = 1 then 1 else 2) false
                  (out.set (zz ⟨i, hlt⟩) (wrap16 ((if neg then -(v : Int) else (v : Int)) * (if i = 0 then dq0 else dq1)))))
              true := by
          show T.getLoop t dq0 dq1 (F' + 1 + 1) i ctx true out = _
          rw [getLoop_true]
          simp only [hlt, dite_true]
          rfl
        rw [e, pos_eq, hzero']
        simp only [hval (F' + 1) (by omega)]
        rw [blockP_succ, dif_pos hlt]

/-- `getCoeffsInline(…, n = first, …)` = the RFC block loop from position `first` -/
theorem getCoeffs_block (t ctx : Nat) (dq0 dq1 : Int) (first : Nat) (hf : first ≤ 16) (out : Coeffs) :
    T.getCoeffs t ctx dq0 dq1 first out = blockP t dq0 dq1 16 first ctx false out :=
  getLoop_block t dq0 dq1 16 first ctx false out 34 hf (fun h => by cases h) (by omega) (by omega)

end Webp.Proofs.C04RefineSyntax
