import Webp.Proofs.VP8LEntropyWriter
/-
  The VP8L 64-bit-window bit reader (`internal/bitio/reader_lossless.go`, model
  `Webp.Impl.VP8LEntropy.Reader`) against the specification's `BitReader`.

  No `bv_decide` is used in this file.
-/
namespace Webp.Proofs.VP8LEntropyReader
open Webp.Go (Res)
open Webp.Spec.VP8L (BitReader Err)
open Webp.Impl.VP8LEntropy
open Webp.Proofs.VP8LEntropyBits
open Webp.Proofs.VP8LEntropyWriter

/-! ## definitions -/

/-- the input zero-extended to at least 8 bytes: what the 64-bit window makes of a short input -/
def pad8 (buf : Array UInt8) : Array UInt8 := buf ++ Array.replicate (8 - buf.size) 0

/-- successive `ReadBits(n)` calls -/
def runReads (r : Reader) : List Nat → List UInt32 × Reader
  | [] => ([], r)
  | n :: ns => ((r.readBits n).1 :: (runReads (r.readBits n).2 ns).1, (runReads (r.readBits n).2 ns).2)

/-- successive `ReadBits(n)` of the specification -/
def specReads (br : BitReader) : List Nat → Res Err (List Nat × BitReader)
  | [] => .ok ([], br)
  | n :: ns =>
    match br.readBits n with
    | .ok (v, br) =>
      match specReads br ns with
      | .ok (vs, br) => .ok (v :: vs, br)
      | .err e => .err e
      | .panic => .panic
      | .hang => .hang
    | .err e => .err e
    | .panic => .panic
    | .hang => .hang

/-- the bits of the zero-extended input -/
def padBits (buf : Array UInt8) : List Bool := bytesToBits (pad8 buf).toList

/-- the values successive reads of widths `ns` starting at bit `P` pick out of a bit list -/
def bitReads (bits : List Bool) (P : Nat) : List Nat → List Nat
  | [] => []
  | n :: ns => ofBitsLE ((bits.drop P).take n) :: bitReads bits (P + n) ns

/-- little-endian value of a byte list -/
def leVal (l : List UInt8) : Nat := ofBitsLE (bytesToBits l)

/-! ## bit lists -/

theorem pad8_size (buf : Array UInt8) : (pad8 buf).size = max buf.size 8 := by
  simp [pad8]; omega

theorem pad8_of_ge (buf : Array UInt8) (h : 8 ≤ buf.size) : pad8 buf = buf := by
  have : 8 - buf.size = 0 := by omega
  simp [pad8, this]

theorem pad8_toList (buf : Array UInt8) :
    (pad8 buf).toList = buf.toList ++ List.replicate (8 - buf.size) 0 := by
  simp [pad8]

theorem padBits_length (buf : Array UInt8) : (padBits buf).length = 8 * (pad8 buf).size := by
  simp [padBits]

theorem pad8_getElem (buf : Array UInt8) (i : Nat) (h : i < buf.size) :
    (pad8 buf).toList[i]'(by simp [pad8]; omega) = buf[i] := by
  simp only [pad8_toList]
  rw [List.getElem_append_left (by simpa using h)]
  simp

theorem bytesToBits_replicate_zero (k : Nat) :
    bytesToBits (List.replicate k (0 : UInt8)) = List.replicate (8 * k) false := by
  induction k with
  | zero => rfl
  | succ k ih =>
    rw [List.replicate_succ, bytesToBits, ih]
    have : 8 * (k + 1) = 8 + 8 * k := by omega
    rw [this, ← List.replicate_append_replicate]
    rfl

/-- the bits of the zero-extended input: the input's bits, then zeros -/
theorem padBits_eq (buf : Array UInt8) :
    padBits buf = bytesToBits buf.toList ++ List.replicate (8 * (8 - buf.size)) false := by
  rw [padBits, pad8_toList, bytesToBits_append, bytesToBits_replicate_zero]

theorem ofBitsLE_replicate_false (k : Nat) : ofBitsLE (List.replicate k false) = 0 := by
  induction k with
  | zero => rfl
  | succ k ih => simp [List.replicate_succ, ofBitsLE, ih]

theorem bytesToBits_drop (l : List UInt8) (k : Nat) :
    bytesToBits (l.drop k) = (bytesToBits l).drop (8 * k) := by
  induction l generalizing k with
  | nil => simp [bytesToBits]
  | cons b r ih =>
    cases k with
    | zero => simp
    | succ k =>
      simp only [List.drop_succ_cons, bytesToBits, ih]
      have hlen : (bitsLE b.toNat 8).length = 8 := bitsLE_length _ _
      have hd : List.drop (8 * (k + 1)) (bitsLE b.toNat 8) = [] := List.drop_eq_nil_of_le (by omega)
      have : 8 * (k + 1) - 8 = 8 * k := by omega
      rw [List.drop_append, hlen, hd, List.nil_append, this]

theorem bytesToBits_take (l : List UInt8) (k : Nat) :
    bytesToBits (l.take k) = (bytesToBits l).take (8 * k) := by
  induction l generalizing k with
  | nil => simp [bytesToBits]
  | cons b r ih =>
    cases k with
    | zero => simp [bytesToBits]
    | succ k =>
      simp only [List.take_succ_cons, bytesToBits, ih]
      have hlen : (bitsLE b.toNat 8).length = 8 := bitsLE_length _ _
      have ht : List.take (8 * (k + 1)) (bitsLE b.toNat 8) = bitsLE b.toNat 8 :=
        List.take_of_length_le (by omega)
      have : 8 * (k + 1) - 8 = 8 * k := by omega
      rw [List.take_append, hlen, ht, this]

theorem add_mul_div_pow {a k : Nat} (b : Nat) (h : a < 2 ^ k) : (a + 2 ^ k * b) / 2 ^ k = b := by
  rw [Nat.add_mul_div_left _ _ (Nat.two_pow_pos k), Nat.div_eq_of_lt h, Nat.zero_add]

/-- a field of a number is the corresponding slice of its bit list -/
theorem ofBitsLE_div_mod (l : List Bool) (k n : Nat) :
    ofBitsLE l / 2 ^ k % 2 ^ n = ofBitsLE ((l.drop k).take n) := by
  have h1 : ofBitsLE l / 2 ^ k = ofBitsLE (l.drop k) := by
    by_cases hk : k ≤ l.length
    · conv => lhs; rw [← List.take_append_drop k l, ofBitsLE_append]
      have hl : (l.take k).length = k := by simp; omega
      have := ofBitsLE_lt (l.take k)
      rw [hl] at this
      rw [hl, add_mul_div_pow _ this]
    · rw [List.drop_eq_nil_of_le (by omega)]
      have h2 := ofBitsLE_lt l
      have h3 : 2 ^ l.length ≤ 2 ^ k := Nat.pow_le_pow_right (by decide) (by omega)
      rw [Nat.div_eq_of_lt (by omega)]
      rfl
  rw [h1]
  generalize l.drop k = d
  by_cases hn : n ≤ d.length
  · conv => lhs; rw [← List.take_append_drop n d, ofBitsLE_append]
    have hl : (d.take n).length = n := by simp; omega
    rw [hl, Nat.add_mul_mod_self_left]
    have := ofBitsLE_lt (d.take n)
    rw [hl] at this
    exact Nat.mod_eq_of_lt this
  · rw [List.take_of_length_le (by omega)]
    have h2 := ofBitsLE_lt d
    have h3 : 2 ^ d.length ≤ 2 ^ n := Nat.pow_le_pow_right (by decide) (by omega)
    exact Nat.mod_eq_of_lt (by omega)

/-! ## little-endian byte values -/

theorem leVal_nil : leVal [] = 0 := rfl

theorem leVal_lt (l : List UInt8) : leVal l < 2 ^ (8 * l.length) := by
  have := ofBitsLE_lt (bytesToBits l)
  simpa [leVal] using this

theorem leVal_append (a b : List UInt8) : leVal (a ++ b) = leVal a + 2 ^ (8 * a.length) * leVal b := by
  simp [leVal, bytesToBits_append, ofBitsLE_append]

theorem leVal_singleton (b : UInt8) : leVal [b] = b.toNat := by
  have h : b.toNat < 2 ^ 8 := b.toNat_lt
  simp [leVal, bytesToBits, ofBitsLE_bitsLE_of_lt h]

/-- sliding the 8-byte window by `k` bytes -/
theorem leVal_slide (L : List UInt8) (w k : Nat) (hk : k ≤ 8) (h : w + 8 + k ≤ L.length) :
    leVal ((L.drop (w + k)).take 8) =
      leVal ((L.drop w).take 8) / 2 ^ (8 * k) + leVal ((L.drop (w + 8)).take k) * 2 ^ (8 * (8 - k)) := by
  have e1 : (L.drop w).take 8 = (L.drop w).take k ++ (L.drop (w + k)).take (8 - k) := by
    have : 8 = k + (8 - k) := by omega
    conv => lhs; rw [this, List.take_add, List.drop_drop]
  have e2 : (L.drop (w + k)).take 8 = (L.drop (w + k)).take (8 - k) ++ (L.drop (w + 8)).take k := by
    have : 8 = (8 - k) + k := by omega
    conv => lhs; rw [this, List.take_add, List.drop_drop]
    have : w + k + (8 - k) = w + 8 := by omega
    rw [this]
  rw [e1, e2, leVal_append, leVal_append]
  have l1 : ((L.drop w).take k).length = k := by simp; omega
  have l2 : ((L.drop (w + k)).take (8 - k)).length = 8 - k := by simp; omega
  rw [l1, l2]
  have hA := leVal_lt ((L.drop w).take k)
  rw [l1] at hA
  rw [add_mul_div_pow _ hA, Nat.mul_comm]

/-! ## word-level facts (UInt64 / UInt32 → Nat) -/

/-- `x | (y << s)` is an addition when `x` is below bit `s` and nothing is shifted out -/
theorem or_shl_toNat (x y s : UInt64) (hs : s.toNat < 64) (hx : x.toNat < 2 ^ s.toNat)
    (hy : y.toNat * 2 ^ s.toNat < 2 ^ 64) :
    (x ||| (y <<< s)).toNat = x.toNat + y.toNat * 2 ^ s.toNat := by
  rw [UInt64.toNat_or, UInt64.toNat_shiftLeft, Nat.mod_eq_of_lt hs, Nat.shiftLeft_eq, Nat.mod_eq_of_lt hy,
    Nat.or_comm, ← Nat.shiftLeft_eq, ← Nat.shiftLeft_add_eq_or_of_lt hx, Nat.add_comm]

/-- `kBitMask[n]` -/
theorem mask_toNat (n : Nat) (hn : n ≤ 24) : (((1 : UInt32) <<< n.toUInt32) - 1).toNat = 2 ^ n - 1 := by
  have h : ∀ n : Fin 25, (((1 : UInt32) <<< n.val.toUInt32) - 1).toNat = 2 ^ n.val - 1 := by decide
  exact h ⟨n, by omega⟩

/-- `PrefetchBits()` as a number -/
theorem prefetch_toNat (r : Reader) : r.prefetchBits.toNat = r.val.toNat / 2 ^ (r.bitPos % 64) % 2 ^ 32 := by
  unfold Reader.prefetchBits
  have e : r.bitPos &&& 63 = r.bitPos % 64 := Nat.and_two_pow_sub_one_eq_mod r.bitPos 6
  rw [UInt64.toNat_toUInt32, UInt64.toNat_shiftRight, e, Nat.shiftRight_eq_div_pow]
  simp only [Nat.toUInt64_eq, UInt64.toNat_ofNat']
  have : r.bitPos % 64 % 2 ^ 64 % 64 = r.bitPos % 64 := by omega
  rw [this]

/-- the value `ReadBits(n)` returns when the end-of-stream flag is not yet set -/
theorem readBits_val (r : Reader) (n : Nat) (he : r.eos = false) (hn : n ≤ 24) :
    (r.readBits n).1.toNat = r.val.toNat / 2 ^ (r.bitPos % 64) % 2 ^ n := by
  unfold Reader.readBits
  rw [if_pos (by simp [he, hn])]
  simp only [UInt32.toNat_and, mask_toNat n hn, Nat.and_two_pow_sub_one_eq_mod, prefetch_toNat]
  exact Nat.mod_mod_of_dvd _ (Nat.pow_dvd_pow 2 (by omega))

theorem readBits_snd (r : Reader) (n : Nat) (he : r.eos = false) (hn : n ≤ 24) :
    (r.readBits n).2 = Reader.shiftBytes { r with bitPos := r.bitPos + n } := by
  unfold Reader.readBits
  rw [if_pos (by simp [he, hn])]

theorem readBits_eos (r : Reader) (n : Nat) (he : r.eos = true) :
    (r.readBits n).1 = 0 ∧ (r.readBits n).2.eos = true := by
  unfold Reader.readBits
  rw [if_neg (by simp [he])]
  exact ⟨rfl, rfl⟩

theorem mul_pow_lt {a k m : Nat} (ha : a < 2 ^ m) (hk : m + k ≤ 64) : a * 2 ^ k < 2 ^ 64 := by
  have h1 : a * 2 ^ k < 2 ^ m * 2 ^ k := Nat.mul_lt_mul_of_pos_right ha (Nat.two_pow_pos _)
  have h2 : 2 ^ m * 2 ^ k ≤ 2 ^ 64 := by
    rw [← Nat.pow_add]; exact Nat.pow_le_pow_right (by decide) hk
  omega

theorem or_shl_toNat' (x y s : UInt64) (k : Nat) (hsk : s.toNat = k) (hs : k < 64) (hx : x.toNat < 2 ^ k)
    (hy : y.toNat * 2 ^ k < 2 ^ 64) : (x ||| (y <<< s)).toNat = x.toNat + y.toNat * 2 ^ k := by
  subst hsk; exact or_shl_toNat x y s hs hx hy

theorem leVal_replicate_zero (k : Nat) : leVal (List.replicate k 0) = 0 := by
  rw [leVal, bytesToBits_replicate_zero, ofBitsLE_replicate_false]

/-! ## the window invariant -/

/-- index (in the zero-extended input) of the first byte of the window -/
def wstart (buf : Array UInt8) (r : Reader) : Nat := r.pos - min buf.size 8

/-- `r` is a non-eos reader over `buf` whose window holds the 8 bytes of `pad8 buf` starting at
    `wstart`, and which has consumed `P` bits -/
structure Win (buf : Array UInt8) (r : Reader) (P : Nat) : Prop where
  buf_eq : r.buf = buf
  noeos : r.eos = false
  pos_ge : min buf.size 8 ≤ r.pos
  pos_le : r.pos ≤ buf.size
  val_eq : r.val.toNat = leVal (((pad8 buf).toList.drop (wstart buf r)).take 8)
  P_eq : P = 8 * wstart buf r + r.bitPos

/-- the state between two `ReadBits` calls: additionally `shiftBytes` has run -/
structure Inv (buf : Array UInt8) (r : Reader) (P : Nat) : Prop where
  win : Win buf r P
  le64 : r.bitPos ≤ 64
  shifted : r.bitPos < 8 ∨ r.pos = buf.size

theorem loadInitial_spec (buf : Array UInt8) (n i : Nat) (v : UInt64) (h : i + n ≤ buf.size)
    (h8 : i + n ≤ 8) (hv : v.toNat = leVal (buf.toList.take i)) :
    (loadInitial buf n i v).toNat = leVal (buf.toList.take (i + n)) := by
  induction n generalizing i v with
  | zero => simpa [loadInitial] using hv
  | succ n ih =>
    unfold loadInitial
    have e : i + (n + 1) = (i + 1) + n := by omega
    rw [e]
    apply ih (i + 1) _ (by omega) (by omega)
    have hi : i < buf.size := by omega
    have hlen : (buf.toList.take i).length = i := by simp; omega
    have hx : v.toNat < 2 ^ (8 * i) := by
      have := leVal_lt (buf.toList.take i)
      rw [hlen] at this; rw [hv]; exact this
    have hs : ((8 * i).toUInt64).toNat = 8 * i := by
      simp only [Nat.toUInt64_eq, UInt64.toNat_ofNat']; omega
    have hb : (buf.getD i 0) = buf[i] := by simp [Array.getD, hi]
    have hy : (buf.getD i 0).toUInt64.toNat * 2 ^ (8 * i) < 2 ^ 64 := by
      rw [UInt8.toNat_toUInt64]
      exact mul_pow_lt (m := 8) (buf.getD i 0).toNat_lt (by omega)
    rw [or_shl_toNat' _ _ _ (8 * i) hs (by omega) hx hy, UInt8.toNat_toUInt64, hv, hb,
      List.take_succ_eq_append_getElem (by simpa using hi), leVal_append, hlen, leVal_singleton,
      Array.getElem_toList, Nat.mul_comm]

/-- `NewLosslessReader(buf)` -/
theorem new_win (buf : Array UInt8) : Win buf (Reader.new buf) 0 := by
  have hv := loadInitial_spec buf (min buf.size 8) 0 0 (by omega) (by omega) (by simp [leVal_nil])
  refine ⟨rfl, rfl, ?_, ?_, ?_, ?_⟩
  · show min buf.size 8 ≤ min buf.size 8
    exact Nat.le_refl _
  · show min buf.size 8 ≤ buf.size
    omega
  · have hw : wstart buf (Reader.new buf) = 0 := by
      show min buf.size 8 - min buf.size 8 = 0
      omega
    rw [hw, List.drop_zero, pad8_toList]
    show (loadInitial buf (min buf.size 8) 0 0).toNat = _
    rw [hv, Nat.zero_add]
    by_cases h : 8 ≤ buf.size
    · have e1 : min buf.size 8 = 8 := by omega
      have e2 : 8 - buf.size = 0 := by omega
      simp [e1, e2]
    · have e1 : min buf.size 8 = buf.size := by omega
      have ht : (buf.toList ++ List.replicate (8 - buf.size) 0).take 8 =
          buf.toList ++ List.replicate (8 - buf.size) 0 := List.take_of_length_le (by simp; omega)
      rw [e1, ht, leVal_append, leVal_replicate_zero, List.take_of_length_le (by simp)]
      simp
  · show 0 = 8 * (min buf.size 8 - min buf.size 8) + 0
    omega

theorem new_inv (buf : Array UInt8) : Inv buf (Reader.new buf) 0 :=
  ⟨new_win buf, by show 0 ≤ 64; omega, Or.inl (by show 0 < 8; omega)⟩

/-- a field of the window is a slice of the zero-extended bit stream -/
theorem window_field {buf : Array UInt8} {r : Reader} {P : Nat} (hw : Win buf r P) (k n : Nat)
    (h : k + n ≤ 64 ∨ r.pos = buf.size) :
    r.val.toNat / 2 ^ k % 2 ^ n = ofBitsLE (((padBits buf).drop (8 * wstart buf r + k)).take n) := by
  rw [hw.val_eq, leVal, bytesToBits_take, bytesToBits_drop, ofBitsLE_div_mod, ← List.drop_drop]
  show _ = ofBitsLE ((((bytesToBits (pad8 buf).toList).drop (8 * wstart buf r)).drop k).take n)
  generalize hX : (bytesToBits (pad8 buf).toList).drop (8 * wstart buf r) = X
  have hXl : r.pos = buf.size → X.length = 64 := by
    intro hp
    rw [← hX]
    have := hw.pos_ge
    simp only [List.length_drop, bytesToBits_length, Array.length_toList, pad8_size, wstart]
    omega
  congr 1
  rw [List.drop_take, List.take_take]
  rcases h with h | h
  · have : min n (8 * 8 - k) = n := by omega
    rw [this]
  · have hl : (X.drop k).length = 64 - k := by rw [List.length_drop, hXl h]
    by_cases hn : n ≤ 64 - k
    · have : min n (8 * 8 - k) = n := by omega
      rw [this]
    · rw [List.take_of_length_le (by omega), List.take_of_length_le (by omega)]

/-! ## `shiftBytes` -/

/-- one iteration of the loop of `shiftBytes` keeps the window consistent -/
theorem shift_one {buf : Array UInt8} {r : Reader} {P : Nat} (hw : Win buf r P) (h8 : 8 ≤ r.bitPos)
    (hp : r.pos < buf.size) :
    Win buf { r with val := (r.val >>> 8) ||| ((r.buf.getD r.pos 0).toUInt64 <<< 56),
                     pos := r.pos + 1, bitPos := r.bitPos - 8 } P := by
  have hge := hw.pos_ge
  have hle := hw.pos_le
  have hm : min buf.size 8 = 8 := by omega
  have hw1 : ∀ (v : UInt64) (b : Nat),
      wstart buf { r with val := v, pos := r.pos + 1, bitPos := b } = wstart buf r + 1 := by
    intro v b; simp only [wstart]; omega
  have hw8 : wstart buf r + 8 = r.pos := by simp only [wstart]; omega
  refine ⟨hw.buf_eq, hw.noeos, ?_, ?_, ?_, ?_⟩
  · show min buf.size 8 ≤ r.pos + 1
    omega
  · show r.pos + 1 ≤ buf.size
    omega
  · rw [hw1]
    show ((r.val >>> 8) ||| ((r.buf.getD r.pos 0).toUInt64 <<< 56)).toNat = _
    have hL : wstart buf r + 8 + 1 ≤ (pad8 buf).toList.length := by
      simp only [Array.length_toList, pad8_size]; omega
    have hx : (r.val >>> 8).toNat < 2 ^ 56 := by
      rw [UInt64.toNat_shiftRight, Nat.shiftRight_eq_div_pow]
      have := r.val.toNat_lt
      show r.val.toNat / 2 ^ 8 < 2 ^ 56
      omega
    have hb : r.buf.getD r.pos 0 = buf[r.pos] := by
      rw [hw.buf_eq]; simp [Array.getD, hp]
    have hy : (r.buf.getD r.pos 0).toUInt64.toNat * 2 ^ 56 < 2 ^ 64 := by
      rw [UInt8.toNat_toUInt64]
      exact mul_pow_lt (m := 8) (r.buf.getD r.pos 0).toNat_lt (by omega)
    rw [or_shl_toNat' _ _ 56 56 rfl (by omega) hx hy, leVal_slide _ _ 1 (by omega) hL,
      ← hw.val_eq, UInt64.toNat_shiftRight, Nat.shiftRight_eq_div_pow, UInt8.toNat_toUInt64, hb]
    have ht : ((pad8 buf).toList.drop (wstart buf r + 8)).take 1 = [buf[r.pos]] := by
      rw [List.drop_eq_getElem_cons (by omega)]
      simp only [List.take_succ_cons, List.take_zero]
      congr 1
      simp only [hw8]
      exact pad8_getElem buf r.pos hp
    rw [ht, leVal_singleton]
    rfl
  · rw [hw1]
    show P = 8 * (wstart buf r + 1) + (r.bitPos - 8)
    have := hw.P_eq
    omega

theorem shiftLoop_spec {buf : Array UInt8} (f : Nat) {r : Reader} {P : Nat} (hw : Win buf r P) :
    Win buf (Reader.shiftLoop f r) P ∧
    (r.bitPos / 8 < f → (Reader.shiftLoop f r).bitPos < 8 ∨ (Reader.shiftLoop f r).pos = buf.size) := by
  induction f generalizing r with
  | zero => exact ⟨hw, fun h => by omega⟩
  | succ f ih =>
    unfold Reader.shiftLoop
    by_cases hc : r.bitPos ≥ 8 ∧ r.pos < r.buf.size
    · rw [if_pos hc]
      have hp : r.pos < buf.size := by rw [← hw.buf_eq]; exact hc.2
      obtain ⟨a, b⟩ := ih (shift_one hw hc.1 hp)
      refine ⟨a, fun h => b ?_⟩
      show (r.bitPos - 8) / 8 < f
      omega
    · rw [if_neg hc]
      refine ⟨hw, fun _ => ?_⟩
      have := hw.pos_le
      rw [hw.buf_eq] at hc
      omega

theorem isEndOfStream_iff {buf : Array UInt8} {r : Reader} {P : Nat} (hw : Win buf r P) :
    r.isEndOfStream = true ↔ r.pos = buf.size ∧ 64 < r.bitPos := by
  simp [Reader.isEndOfStream, hw.noeos, hw.buf_eq]

theorem isEndOfStream_of_eos {r : Reader} (h : r.eos = true) : r.isEndOfStream = true := by
  simp [Reader.isEndOfStream, h]

theorem Inv.isEndOfStream {buf : Array UInt8} {r : Reader} {P : Nat} (hi : Inv buf r P) :
    r.isEndOfStream = false := by
  have := isEndOfStream_iff hi.win
  have h64 := hi.le64
  cases h : r.isEndOfStream
  · rfl
  · have := this.mp h; omega

/-- the consumed bit count of a shifted state never exceeds the zero-extended input -/
theorem Inv.P_le {buf : Array UInt8} {r : Reader} {P : Nat} (hi : Inv buf r P) : P ≤ 8 * (pad8 buf).size := by
  have h1 := hi.win.P_eq
  have h2 := hi.win.pos_ge
  have h3 := hi.win.pos_le
  have h4 := hi.le64
  have h5 := hi.shifted
  rw [pad8_size]
  simp only [wstart] at h1
  omega

/-- `shiftBytes()`: the end-of-stream flag is raised exactly when more bits were consumed than the
    zero-extended input holds -/
theorem shiftBytes_spec {buf : Array UInt8} {r : Reader} {P : Nat} (hw : Win buf r P) :
    (P ≤ 8 * (pad8 buf).size → Inv buf r.shiftBytes P) ∧
    (8 * (pad8 buf).size < P → r.shiftBytes.eos = true) := by
  obtain ⟨hw1, hs⟩ := shiftLoop_spec (r.bitPos / 8 + 1) hw
  have hs := hs (by omega)
  unfold Reader.shiftBytes
  generalize Reader.shiftLoop (r.bitPos / 8 + 1) r = r1 at hw1 hs
  simp only
  have h1 := hw1.P_eq
  have h2 := hw1.pos_ge
  have h3 := hw1.pos_le
  simp only [wstart] at h1
  rw [pad8_size]
  by_cases hc : r1.pos = buf.size ∧ 64 < r1.bitPos
  · rw [if_pos ((isEndOfStream_iff hw1).mpr hc)]
    exact ⟨fun h => by omega, fun _ => rfl⟩
  · have hne : ¬ r1.isEndOfStream = true := fun h => hc ((isEndOfStream_iff hw1).mp h)
    rw [if_neg hne]
    refine ⟨fun _ => ⟨hw1, by omega, hs⟩, fun h => by omega⟩

/-! ## one `ReadBits` -/

theorem win_addBits {buf : Array UInt8} {r : Reader} {P : Nat} (hw : Win buf r P) (n : Nat) :
    Win buf { r with bitPos := r.bitPos + n } (P + n) := by
  refine ⟨hw.buf_eq, hw.noeos, hw.pos_ge, hw.pos_le, hw.val_eq, ?_⟩
  show P + n = 8 * wstart buf r + (r.bitPos + n)
  have := hw.P_eq
  omega

/-- One `ReadBits(n)`, `n ≤ 24`, in a state that has consumed `P` bits of the zero-extended input:
    * the value is the next `n` bits (zeros past the end), except when the window is completely
      used up (`bitPos = 64`), where `bitPos & 63 = 0` makes it the *first* `n` bits of the window,
      i.e. the stale bits `8·size − 64 …`;
    * if `P + n` bits exist the state stays consistent, otherwise the end-of-stream flag is raised. -/
theorem readBits_step {buf : Array UInt8} {r : Reader} {P : Nat} (hi : Inv buf r P) (n : Nat) (hn : n ≤ 24) :
    (r.bitPos < 64 → (r.readBits n).1.toNat = ofBitsLE (((padBits buf).drop P).take n)) ∧
    (r.bitPos = 64 → (r.readBits n).1.toNat = ofBitsLE (((padBits buf).drop (P - 64)).take n)) ∧
    (P + n ≤ 8 * (pad8 buf).size → Inv buf (r.readBits n).2 (P + n)) ∧
    (8 * (pad8 buf).size < P + n → (r.readBits n).2.eos = true) := by
  have hw := hi.win
  have hP := hw.P_eq
  rw [readBits_val r n hw.noeos hn, readBits_snd r n hw.noeos hn]
  obtain ⟨a, b⟩ := shiftBytes_spec (win_addBits hw n)
  refine ⟨fun h => ?_, fun h => ?_, a, b⟩
  · rw [Nat.mod_eq_of_lt h, hP]
    apply window_field hw
    have := hi.shifted
    omega
  · have e : r.bitPos % 64 = 0 := by omega
    have e2 : P - 64 = 8 * wstart buf r + 0 := by omega
    rw [e, e2]
    exact window_field hw 0 n (Or.inl (by omega))

/-- `ReadBits(n)` that stays inside the zero-extended input returns the specification's value -/
theorem readBits_ok {buf : Array UInt8} {r : Reader} {P : Nat} (hi : Inv buf r P) (n : Nat) (hn : n ≤ 24)
    (h : P + n ≤ 8 * (pad8 buf).size) :
    (r.readBits n).1.toNat = ofBitsLE (((padBits buf).drop P).take n) ∧ Inv buf (r.readBits n).2 (P + n) := by
  obtain ⟨a, b, c, _⟩ := readBits_step hi n hn
  refine ⟨?_, c h⟩
  by_cases h64 : r.bitPos < 64
  · exact a h64
  · have hle := hi.le64
    have hP := hi.win.P_eq
    have h2 := hi.win.pos_ge
    have hsh := hi.shifted
    have hS := pad8_size buf
    simp only [wstart] at hP
    have hn0 : n = 0 := by omega
    subst hn0
    rw [b (by omega)]
    simp [ofBitsLE]

/-! ## sequences of reads -/

theorem specReads_bits (data : ByteArray) (P : Nat) (ns : List Nat) (h : P + ns.sum ≤ 8 * data.size) :
    specReads { data := data, pos := P } ns =
      .ok (bitReads (bytesToBits data.data.toList) P ns, { data := data, pos := P + ns.sum }) := by
  induction ns generalizing P with
  | nil => simp [specReads, bitReads]
  | cons n ns ih =>
    simp only [List.sum_cons] at h
    have hr : restBits { data := data, pos := P } =
        ((bytesToBits data.data.toList).drop P).take n ++ ((bytesToBits data.data.toList).drop P).drop n :=
      (List.take_append_drop _ _).symm
    have hl : (((bytesToBits data.data.toList).drop P).take n).length = n := by
      simp; omega
    obtain ⟨h1, _⟩ := readBits_of_rest hr
    rw [hl] at h1
    have := ih (P + n) (by omega)
    simp only [specReads, h1, adv, this, bitReads, List.sum_cons, Nat.add_assoc]

theorem runReads_eos (r : Reader) (ns : List Nat) (he : r.eos = true) :
    (runReads r ns).2.eos = true ∧ ∀ v ∈ (runReads r ns).1, v = 0 := by
  induction ns generalizing r with
  | nil => exact ⟨he, by simp [runReads]⟩
  | cons n ns ih =>
    obtain ⟨h1, h2⟩ := readBits_eos r n he
    obtain ⟨h3, h4⟩ := ih _ h2
    refine ⟨h3, ?_⟩
    intro v hv
    simp only [runReads, List.mem_cons] at hv
    rcases hv with hv | hv
    · rw [hv, h1]
    · exact h4 v hv

theorem runReads_spec {buf : Array UInt8} {r : Reader} {P : Nat} (hi : Inv buf r P) (ns : List Nat)
    (hn : ∀ n ∈ ns, n ≤ 24) :
    (P + ns.sum ≤ 8 * (pad8 buf).size →
      (runReads r ns).1.map UInt32.toNat = bitReads (padBits buf) P ns ∧
      Inv buf (runReads r ns).2 (P + ns.sum)) ∧
    (8 * (pad8 buf).size < P + ns.sum → (runReads r ns).2.eos = true) := by
  induction ns generalizing r P with
  | nil => exact ⟨fun _ => ⟨rfl, hi⟩, fun h => by have := hi.P_le; simp at h; omega⟩
  | cons n ns ih =>
    have hn1 : n ≤ 24 := hn n (by simp)
    have hn2 : ∀ m ∈ ns, m ≤ 24 := fun m hm => hn m (by simp [hm])
    simp only [List.sum_cons, runReads]
    by_cases hc : P + n ≤ 8 * (pad8 buf).size
    · obtain ⟨hv, hi'⟩ := readBits_ok hi n hn1 hc
      obtain ⟨a, b⟩ := ih hi' hn2
      refine ⟨fun h => ?_, fun h => b (by omega)⟩
      obtain ⟨a1, a2⟩ := a (by omega)
      refine ⟨?_, by rw [← Nat.add_assoc]; exact a2⟩
      simp only [List.map_cons, bitReads, hv, a1]
    · obtain ⟨_, _, _, d⟩ := readBits_step hi n hn1
      refine ⟨fun h => by omega, fun _ => (runReads_eos _ ns (d (by omega))).1⟩

/-- **R1.**  As long as the end-of-stream flag is not raised, every `ReadBits(n)` returned exactly
    the specification's value on the zero-extended buffer. -/
theorem reader_window_eq_bits' (buf : Array UInt8) (ns : List Nat) (hn : ∀ n ∈ ns, n ≤ 24)
    (he : (runReads (Reader.new buf) ns).2.isEndOfStream = false) :
    specReads { data := ⟨pad8 buf⟩ } ns =
      .ok ((runReads (Reader.new buf) ns).1.map UInt32.toNat, { data := ⟨pad8 buf⟩, pos := ns.sum }) := by
  obtain ⟨a, b⟩ := runReads_spec (new_inv buf) ns hn
  by_cases hc : 0 + ns.sum ≤ 8 * (pad8 buf).size
  · obtain ⟨a1, _⟩ := a hc
    have := specReads_bits ⟨pad8 buf⟩ 0 ns hc
    rw [a1]
    simpa [padBits] using this
  · have := isEndOfStream_of_eos (b (by omega))
    rw [this] at he
    cases he

theorem reader_window_eq_bits (buf : Array UInt8) (ns : List Nat) (hn : ∀ n ∈ ns, n ≤ 24) :
    let (vs, r) := runReads (Reader.new buf) ns
    r.isEndOfStream = false →
      specReads { data := ⟨pad8 buf⟩ } ns =
        .ok (vs.map UInt32.toNat, { data := ⟨pad8 buf⟩, pos := ns.sum }) := by
  have := reader_window_eq_bits' buf ns hn
  revert this
  generalize runReads (Reader.new buf) ns = p
  obtain ⟨vs, r⟩ := p
  exact fun h => h

/-- R1 for inputs of at least 8 bytes: no padding is involved -/
theorem reader_window_eq_bits_of_ge (buf : Array UInt8) (hb : 8 ≤ buf.size) (ns : List Nat)
    (hn : ∀ n ∈ ns, n ≤ 24) :
    let (vs, r) := runReads (Reader.new buf) ns
    r.isEndOfStream = false →
      specReads { data := ⟨buf⟩ } ns = .ok (vs.map UInt32.toNat, { data := ⟨buf⟩, pos := ns.sum }) := by
  have := reader_window_eq_bits buf ns hn
  rw [pad8_of_ge buf hb] at this
  exact this

/-- **R2.**  After a sequence of `ReadBits` calls `IsEndOfStream()` holds exactly when MORE bits
    were requested than the zero-extended input holds.  (The flag is sticky and the widths are
    non-negative, so "some prefix overran" and "the total overran" are the same thing.) -/
theorem eos_iff_overrun (buf : Array UInt8) (ns : List Nat) (hn : ∀ n ∈ ns, n ≤ 24) :
    (runReads (Reader.new buf) ns).2.isEndOfStream = true ↔ ns.sum > 8 * (pad8 buf).size := by
  obtain ⟨a, b⟩ := runReads_spec (new_inv buf) ns hn
  constructor
  · intro h
    by_cases hc : 0 + ns.sum ≤ 8 * (pad8 buf).size
    · have := (a hc).2.isEndOfStream
      rw [this] at h
      cases h
    · omega
  · intro h
    exact isEndOfStream_of_eos (b (by omega))

/-- in terms of the input itself -/
theorem eos_iff_overrun' (buf : Array UInt8) (ns : List Nat) (hn : ∀ n ∈ ns, n ≤ 24) :
    (runReads (Reader.new buf) ns).2.isEndOfStream = true ↔ ns.sum > 8 * max buf.size 8 := by
  rw [eos_iff_overrun buf ns hn, pad8_size]

/-- once raised, the flag stays and all further reads return 0 -/
theorem eos_sticky (r : Reader) (ns : List Nat) (hr : r.eos = true) :
    (runReads r ns).2.isEndOfStream = true ∧ ∀ v ∈ (runReads r ns).1, v = 0 :=
  ⟨isEndOfStream_of_eos (runReads_eos r ns hr).1, (runReads_eos r ns hr).2⟩

/-- the state after reads that did not overrun -/
theorem runReads_inv (buf : Array UInt8) (ns : List Nat) (hn : ∀ n ∈ ns, n ≤ 24)
    (h : ns.sum ≤ 8 * (pad8 buf).size) : Inv buf (runReads (Reader.new buf) ns).2 ns.sum := by
  have := ((runReads_spec (new_inv buf) ns hn).1 (by omega)).2
  simpa using this

/-- **The read that crosses the end** (`P ≤ 8·size < P + n`): the flag is raised, and the value is
    the available bits zero-extended — except when exactly all bits had been consumed (`P = 8·size`,
    `bitPos = 64`), where it is the stale first `n` bits of the last 8 bytes. -/
theorem crossing_read_inv {buf : Array UInt8} {r : Reader} {P : Nat} (hi : Inv buf r P) (n : Nat)
    (hn : n ≤ 24) (hc : 8 * (pad8 buf).size < P + n) :
    (r.readBits n).2.isEndOfStream = true ∧
    (P < 8 * (pad8 buf).size → (r.readBits n).1.toNat = ofBitsLE ((padBits buf).drop P)) ∧
    (P = 8 * (pad8 buf).size →
      (r.readBits n).1.toNat = ofBitsLE (((padBits buf).drop (8 * (pad8 buf).size - 64)).take n)) := by
  obtain ⟨a, b, _, d⟩ := readBits_step hi n hn
  have hle := hi.le64
  have hP := hi.win.P_eq
  have h2 := hi.win.pos_ge
  have h3 := hi.win.pos_le
  have hsh := hi.shifted
  have hS := pad8_size buf
  simp only [wstart] at hP
  refine ⟨isEndOfStream_of_eos (d hc), fun h => ?_, fun h => ?_⟩
  · rw [a (by omega), List.take_of_length_le]
    rw [List.length_drop, padBits_length]
    omega
  · rw [b (by omega), h]

theorem crossing_read (buf : Array UInt8) (ns : List Nat) (n : Nat) (hn : ∀ m ∈ ns, m ≤ 24) (hn' : n ≤ 24)
    (h1 : ns.sum ≤ 8 * (pad8 buf).size) (h2 : 8 * (pad8 buf).size < ns.sum + n) :
    let r := (runReads (Reader.new buf) ns).2
    (r.readBits n).2.isEndOfStream = true ∧
    (ns.sum < 8 * (pad8 buf).size → (r.readBits n).1.toNat = ofBitsLE ((padBits buf).drop ns.sum)) ∧
    (ns.sum = 8 * (pad8 buf).size →
      (r.readBits n).1.toNat = ofBitsLE (((padBits buf).drop (8 * (pad8 buf).size - 64)).take n)) :=
  crossing_read_inv (runReads_inv buf ns hn h1) n hn' h2

/-! ## short inputs (R3) -/

/-- **R3.**  For an input shorter than 8 bytes the reader behaves like the specification's reader
    on the input zero-extended to 8 bytes: no end-of-stream until MORE than 64 bits were read, and
    a read that lies beyond the real input (but inside the 64-bit window) returns 0 without raising
    the flag.  (The specification's reader fails with `eos` there.) -/
theorem short_buffer_reads_zeros (buf : Array UInt8) (hb : buf.size < 8) (ns : List Nat) (n : Nat)
    (hn : ∀ m ∈ ns, m ≤ 24) (hn' : n ≤ 24) (h1 : 8 * buf.size ≤ ns.sum) (h2 : ns.sum + n ≤ 64) :
    let r := (runReads (Reader.new buf) ns).2
    r.isEndOfStream = false ∧ (r.readBits n).1 = 0 ∧ (r.readBits n).2.isEndOfStream = false := by
  have hS : (pad8 buf).size = 8 := by rw [pad8_size]; omega
  have hi := runReads_inv buf ns hn (by omega)
  obtain ⟨hv, hi'⟩ := readBits_ok hi n hn' (by omega)
  refine ⟨hi.isEndOfStream, ?_, hi'.isEndOfStream⟩
  apply UInt32.toNat_inj.mp
  rw [hv, padBits_eq, List.drop_append, List.drop_eq_nil_of_le (by simp; omega), List.nil_append,
    List.drop_replicate, List.take_replicate, ofBitsLE_replicate_false]
  rfl

/-- for a short input the flag is raised exactly after more than 64 bits -/
theorem short_buffer_eos_iff (buf : Array UInt8) (hb : buf.size < 8) (ns : List Nat)
    (hn : ∀ n ∈ ns, n ≤ 24) :
    (runReads (Reader.new buf) ns).2.isEndOfStream = true ↔ ns.sum > 64 := by
  rw [eos_iff_overrun' buf ns hn]
  have : max buf.size 8 = 8 := by omega
  rw [this]

/-- 1-byte input, `ReadBits(8)` then `ReadBits(24)`: the second value is 0 and no end-of-stream;
    the specification's reader reports `eos` -/
example :
    (runReads (Reader.new #[0xAB]) [8, 24]).1 = [0xAB, 0] ∧
    (runReads (Reader.new #[0xAB]) [8, 24]).2.isEndOfStream = false ∧
    (match specReads { data := ⟨#[0xAB]⟩ } [8, 24] with | .err .eos => true | _ => false) = true := by
  decide

/-- the stale read at `bitPos = 64`: 8-byte input, 64 bits consumed, `ReadBits(8)` returns the
    FIRST byte of the window again (0xAB) and raises the flag; with 60 bits consumed the same read
    returns the 4 available bits zero-extended (0) -/
example :
    (runReads (Reader.new #[0xAB, 1, 2, 3, 4, 5, 6, 7]) [24, 24, 16, 8]).1 = [131499, 328707, 1798, 0xAB] ∧
    (runReads (Reader.new #[0xAB, 1, 2, 3, 4, 5, 6, 7]) [24, 24, 16, 8]).2.isEndOfStream = true ∧
    (runReads (Reader.new #[0xAB, 1, 2, 3, 4, 5, 6, 0x77]) [24, 24, 12, 8]).1 = [131499, 328707, 1798, 7] ∧
    (runReads (Reader.new #[0xAB, 1, 2, 3, 4, 5, 6, 0x77]) [24, 24, 12, 8]).2.isEndOfStream = true := by
  decide

/-! ## the prefetch path of `ReadSymbol` (R4): `FillBitWindow`, `PrefetchBits`, `SetBitPos` -/

theorem leVal_cons (b : UInt8) (r : List UInt8) : leVal (b :: r) = b.toNat + 2 ^ 8 * leVal r := by
  have := leVal_append [b] r
  rwa [leVal_singleton] at this

/-- `binary.LittleEndian.Uint32` -/
theorem le32_toNat (b0 b1 b2 b3 : UInt8) :
    (b0.toUInt64 ||| (b1.toUInt64 <<< 8) ||| (b2.toUInt64 <<< 16) ||| (b3.toUInt64 <<< 24)).toNat =
      leVal [b0, b1, b2, b3] := by
  have h0 := b0.toNat_lt
  have h1 := b1.toNat_lt
  have h2 := b2.toNat_lt
  have h3 := b3.toNat_lt
  have e1 : (b0.toUInt64 ||| (b1.toUInt64 <<< 8)).toNat = b0.toNat + b1.toNat * 2 ^ 8 := by
    rw [or_shl_toNat' _ _ 8 8 rfl (by omega) (by rw [UInt8.toNat_toUInt64]; omega)
      (by rw [UInt8.toNat_toUInt64]; omega)]
    simp only [UInt8.toNat_toUInt64]
  have e2 : (b0.toUInt64 ||| (b1.toUInt64 <<< 8) ||| (b2.toUInt64 <<< 16)).toNat =
      b0.toNat + b1.toNat * 2 ^ 8 + b2.toNat * 2 ^ 16 := by
    rw [or_shl_toNat' _ _ 16 16 rfl (by omega) (by rw [e1]; omega) (by rw [UInt8.toNat_toUInt64]; omega), e1]
    simp only [UInt8.toNat_toUInt64]
  rw [or_shl_toNat' _ _ 24 24 rfl (by omega) (by rw [e2]; omega) (by rw [UInt8.toNat_toUInt64]; omega), e2]
  simp only [UInt8.toNat_toUInt64, leVal_cons, leVal_nil]
  omega

theorem take4_drop (L : List UInt8) (p : Nat) (h : p + 4 ≤ L.length) :
    (L.drop p).take 4 = [L[p], L[p + 1], L[p + 2], L[p + 3]] := by
  apply List.ext_getElem
  · simp; omega
  · intro i h1 h2
    simp only [List.getElem_take, List.getElem_drop]
    have h4 : i < 4 := by simpa using h2
    match i, h4 with
    | 0, _ => rfl
    | 1, _ => rfl
    | 2, _ => rfl
    | 3, _ => rfl

/-- the fast path of `doFillBitWindow` (4 bytes at once) -/
theorem doFill_fast {buf : Array UInt8} {r : Reader} {P : Nat} (hw : Win buf r P) (h32 : 32 ≤ r.bitPos)
    (hp : r.pos + 4 ≤ buf.size) :
    Win buf r.doFillBitWindow P ∧ r.doFillBitWindow.bitPos = r.bitPos - 32 ∧
      r.doFillBitWindow.pos = r.pos + 4 := by
  have hge := hw.pos_ge
  have hm : min buf.size 8 = 8 := by omega
  have hw8 : wstart buf r + 8 = r.pos := by simp only [wstart]; omega
  unfold Reader.doFillBitWindow
  rw [if_pos (by rw [hw.buf_eq]; exact hp)]
  refine ⟨⟨hw.buf_eq, hw.noeos, ?_, ?_, ?_, ?_⟩, rfl, rfl⟩
  · show min buf.size 8 ≤ r.pos + 4
    omega
  · show r.pos + 4 ≤ buf.size
    omega
  · have hw1 : ∀ (v : UInt64) (b : Nat),
        wstart buf { r with val := v, bitPos := b, pos := r.pos + 4 } = wstart buf r + 4 := by
      intro v b; simp only [wstart]; omega
    simp only [hw1]
    have hL : wstart buf r + 8 + 4 ≤ (pad8 buf).toList.length := by
      simp only [Array.length_toList, pad8_size]; omega
    have hg : ∀ i, (hi : r.pos + i < buf.size) → r.buf.getD (r.pos + i) 0 = buf[r.pos + i] := by
      intro i hi; rw [hw.buf_eq]; simp [Array.getD, hi]
    have hg0 : r.buf.getD r.pos 0 = buf[r.pos] := hg 0 (by omega)
    rw [hg0, hg 1 (by omega), hg 2 (by omega), hg 3 (by omega)]
    have hx : (r.val >>> 32).toNat < 2 ^ 32 := by
      rw [UInt64.toNat_shiftRight, Nat.shiftRight_eq_div_pow]
      have := r.val.toNat_lt
      show r.val.toNat / 2 ^ 32 < 2 ^ 32
      omega
    have hlt := leVal_lt [buf[r.pos], buf[r.pos + 1], buf[r.pos + 2], buf[r.pos + 3]]
    simp only [List.length_cons, List.length_nil] at hlt
    rw [or_shl_toNat' _ _ 32 32 rfl (by omega) hx (by rw [le32_toNat]; omega), le32_toNat,
      leVal_slide _ _ 4 (by omega) hL, ← hw.val_eq, UInt64.toNat_shiftRight, Nat.shiftRight_eq_div_pow,
      take4_drop _ _ (by omega)]
    simp only [hw8]
    rw [pad8_getElem buf r.pos (by omega), pad8_getElem buf (r.pos + 1) (by omega),
      pad8_getElem buf (r.pos + 2) (by omega), pad8_getElem buf (r.pos + 3) (by omega)]
    rfl
  · have hw1 : ∀ (v : UInt64) (b : Nat),
        wstart buf { r with val := v, bitPos := b, pos := r.pos + 4 } = wstart buf r + 4 := by
      intro v b; simp only [wstart]; omega
    simp only [hw1]
    show P = 8 * (wstart buf r + 4) + (r.bitPos - 32)
    have := hw.P_eq
    omega

/-- `PrefetchBits()` is the next 32 bits of the zero-extended stream (zeros past its end) whenever
    the window still covers them: `bitPos ≤ 32`, or the window is the end of the stream and
    `bitPos < 64` -/
theorem prefetch_eq_peek {buf : Array UInt8} {r : Reader} {P : Nat} (hw : Win buf r P)
    (h : r.bitPos ≤ 32 ∨ (r.pos = buf.size ∧ r.bitPos < 64)) :
    r.prefetchBits.toNat = peekBits { data := ⟨pad8 buf⟩, pos := P } 32 := by
  have hlt : r.bitPos < 64 := by omega
  rw [prefetch_toNat, Nat.mod_eq_of_lt hlt, window_field hw r.bitPos 32 (by omega), ← hw.P_eq]
  rfl

/-- `SetBitPos(BitPos() + n)` -/
theorem advance_win {buf : Array UInt8} {r : Reader} {P : Nat} (hw : Win buf r P) (n : Nat) :
    Win buf (r.advance n) (P + n) := win_addBits hw n

/-- **R4.**  `FillBitWindow()` in any consistent state with `bitPos ≤ 64` keeps the state consistent
    (same consumed-bit count, no end-of-stream), leaves `bitPos ≤ 32` unless the window has reached
    the end of the input, and afterwards `PrefetchBits()` equals the specification-side
    `peekBits … 32` of the zero-extended stream — provided at least one unread bit is left
    (`P < 8·size`; at `P = 8·size` with `bitPos = 64` the prefetch is the stale low half of the window,
    see the example below). -/
theorem fill_prefetch_eq_peek {buf : Array UInt8} {r : Reader} {P : Nat} (hw : Win buf r P)
    (h64 : r.bitPos ≤ 64) :
    Win buf r.fillBitWindow P ∧ r.fillBitWindow.bitPos ≤ 64 ∧
    (r.fillBitWindow.bitPos ≤ 32 ∨ r.fillBitWindow.pos = buf.size) ∧
    (P < 8 * (pad8 buf).size →
      r.fillBitWindow.prefetchBits.toNat = peekBits { data := ⟨pad8 buf⟩, pos := P } 32) := by
  have key : ∀ r' : Reader, Win buf r' P → r'.bitPos ≤ 64 → (r'.bitPos ≤ 32 ∨ r'.pos = buf.size) →
      Win buf r' P ∧ r'.bitPos ≤ 64 ∧ (r'.bitPos ≤ 32 ∨ r'.pos = buf.size) ∧
      (P < 8 * (pad8 buf).size → r'.prefetchBits.toNat = peekBits { data := ⟨pad8 buf⟩, pos := P } 32) := by
    intro r' hw' hle hsh
    refine ⟨hw', hle, hsh, fun hP => prefetch_eq_peek hw' ?_⟩
    have h1 := hw'.P_eq
    have h2 := hw'.pos_ge
    rw [pad8_size] at hP
    simp only [wstart] at h1
    omega
  unfold Reader.fillBitWindow
  by_cases h32 : r.bitPos ≥ 32
  · rw [if_pos h32]
    by_cases hp : r.pos + 4 ≤ buf.size
    · obtain ⟨a, b, c⟩ := doFill_fast hw h32 hp
      exact key _ a (by omega) (Or.inl (by omega))
    · have hd : r.doFillBitWindow = r.shiftBytes := by
        unfold Reader.doFillBitWindow
        rw [if_neg (by rw [hw.buf_eq]; exact hp)]
      rw [hd]
      have hPle : P ≤ 8 * (pad8 buf).size := by
        have h1 := hw.P_eq
        have h2 := hw.pos_ge
        have h3 := hw.pos_le
        rw [pad8_size]
        simp only [wstart] at h1
        omega
      have hi := (shiftBytes_spec hw).1 hPle
      exact key _ hi.win hi.le64 (by have := hi.shifted; omega)
  · rw [if_neg h32]
    exact key r hw h64 (Or.inl (by omega))

/-- after `FillBitWindow(); …; SetBitPos(BitPos() + n)` with `n ≤ 32` (a `ReadSymbol`),
    `IsEndOfStream()` holds exactly when the symbol used more bits than the zero-extended input
    holds — the test `br.pos + used > 8 * br.data.size` of the model `readSymbol` -/
theorem fill_advance_eos_iff {buf : Array UInt8} {r : Reader} {P : Nat} (hw : Win buf r P)
    (h64 : r.bitPos ≤ 64) (n : Nat) (hn : n ≤ 32) :
    (r.fillBitWindow.advance n).isEndOfStream = true ↔ 8 * (pad8 buf).size < P + n := by
  obtain ⟨a, b, c, _⟩ := fill_prefetch_eq_peek hw h64
  have ha := advance_win a n
  rw [isEndOfStream_iff ha, pad8_size]
  have h1 := a.P_eq
  have h2 := a.pos_ge
  have h3 := a.pos_le
  simp only [wstart] at h1
  show r.fillBitWindow.pos = buf.size ∧ 64 < r.fillBitWindow.bitPos + n ↔ _
  omega

/-- every state reached by `ReadBits` calls that did not overrun is a valid starting point for R4 -/
theorem Inv.fill_ready {buf : Array UInt8} {r : Reader} {P : Nat} (hi : Inv buf r P) :
    Win buf r P ∧ r.bitPos ≤ 64 := ⟨hi.win, hi.le64⟩

/-- the stale prefetch at `bitPos = 64`: all 64 bits of an 8-byte input consumed; `peekBits` is 0,
    `PrefetchBits()` after `FillBitWindow()` is the first 4 bytes again -/
example :
    ((runReads (Reader.new #[0xAB, 1, 2, 3, 4, 5, 6, 7]) [24, 24, 16]).2.fillBitWindow.prefetchBits = 0x030201AB) ∧
    (runReads (Reader.new #[0xAB, 1, 2, 3, 4, 5, 6, 7]) [24, 24, 16]).2.fillBitWindow.isEndOfStream = false ∧
    peekBits { data := ⟨#[0xAB, 1, 2, 3, 4, 5, 6, 7]⟩, pos := 64 } 32 = 0 := by
  decide

/-- non-vacuity of R4, fast path: 16-byte input, `SetBitPos(40)`, `FillBitWindow()` loads 4 bytes at
    once (`pos` 8 → 12, `bitPos` 40 → 8) and the prefetch is bytes 5…8 -/
example :
    ((Reader.new #[0, 1, 2, 3, 4, 5, 6, 7, 8, 9, 10, 11, 12, 13, 14, 15]).advance 40).fillBitWindow.prefetchBits =
      0x08070605 ∧
    ((Reader.new #[0, 1, 2, 3, 4, 5, 6, 7, 8, 9, 10, 11, 12, 13, 14, 15]).advance 40).fillBitWindow.pos = 12 ∧
    ((Reader.new #[0, 1, 2, 3, 4, 5, 6, 7, 8, 9, 10, 11, 12, 13, 14, 15]).advance 40).fillBitWindow.bitPos = 8 ∧
    peekBits { data := ⟨#[0, 1, 2, 3, 4, 5, 6, 7, 8, 9, 10, 11, 12, 13, 14, 15]⟩, pos := 40 } 32 = 0x08070605 := by
  decide

/-- slow path: 10-byte input, `SetBitPos(40)`: two bytes are shifted in, then the window is at the
    end of the input with `bitPos = 24`; the prefetch is bytes 5…8 -/
example :
    ((Reader.new #[0, 1, 2, 3, 4, 5, 6, 7, 8, 9]).advance 40).fillBitWindow.prefetchBits = 0x08070605 ∧
    ((Reader.new #[0, 1, 2, 3, 4, 5, 6, 7, 8, 9]).advance 40).fillBitWindow.pos = 10 ∧
    ((Reader.new #[0, 1, 2, 3, 4, 5, 6, 7, 8, 9]).advance 40).fillBitWindow.bitPos = 24 := by
  decide

end Webp.Proofs.VP8LEntropyReader
