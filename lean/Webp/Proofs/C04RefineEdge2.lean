import Webp.Proofs.C04RefineEdge
/-
  C04 refinement, loop filter (stage D), one position of one edge, part 2: `edgeStep` (= the body of
  `Spec.VP8.filterEdge`) in terms of `Webp.Impl.VP8Kernels.RFC.simpleSegment` / `subblockFilter` / `mbFilter`.
-/
namespace Webp.Proofs.C04RefineEdge
open Webp.Spec.VP8
open Webp.Impl.VP8Kernels

theorem le_cast (a b : Nat) (I : Nat) : decide (absDiff a b ≤ I) = decide (RFC.iabs ((a : Int) - (b : Int)) ≤ (I : Int)) := by
  apply decide_eq_decide.mpr
  rw [← absDiff_cast]; omega

theorem gt_cast (a b : Nat) (t : Nat) : decide (absDiff a b > t) = decide (RFC.iabs ((a : Int) - (b : Int)) > (t : Int)) := by
  apply decide_eq_decide.mpr
  rw [← absDiff_cast]; omega

/-- **§15.2 simple filter, one position** -/
theorem edgeStep_simple (E I hevT : Nat) (d : ByteArray) (o across : Nat) :
    edgeStep 0 E I hevT d o across =
      if RFC.edgeTest E (readSeg d o across).p1 (readSeg d o across).p0 (readSeg d o across).q0 (readSeg d o across).q1 then
        (d.set! (o - across) (u8 (RFC.simpleSegment E (readSeg d o across)).p0)).set! o
          (u8 (RFC.simpleSegment E (readSeg d o across)).q0)
      else d := by
  unfold edgeStep
  simp only [if_true, simpleThreshold_eq, commonAdjust_eq]
  unfold RFC.simpleSegment readSeg
  simp only []
  split_ifs <;> rfl

/-- `filter_yes` -/
theorem yes_eq (E I : Nat) (d : ByteArray) (o across : Nat) :
    (simpleThreshold E (d.get! (o - 2 * across)).toNat (d.get! (o - across)).toNat (d.get! o).toNat (d.get! (o + across)).toNat
      && decide (absDiff (d.get! (o - 4 * across)).toNat (d.get! (o - 3 * across)).toNat ≤ I)
      && decide (absDiff (d.get! (o - 3 * across)).toNat (d.get! (o - 2 * across)).toNat ≤ I)
      && decide (absDiff (d.get! (o - 2 * across)).toNat (d.get! (o - across)).toNat ≤ I)
      && decide (absDiff (d.get! (o + 3 * across)).toNat (d.get! (o + 2 * across)).toNat ≤ I)
      && decide (absDiff (d.get! (o + 2 * across)).toNat (d.get! (o + across)).toNat ≤ I)
      && decide (absDiff (d.get! (o + across)).toNat (d.get! o).toNat ≤ I)) =
    RFC.filterYes I E (readSeg d o across) := by
  unfold RFC.filterYes readSeg
  simp only [simpleThreshold_eq, le_cast]

theorem hev_eq (hevT : Nat) (d : ByteArray) (o across : Nat) :
    (decide (absDiff (d.get! (o - 2 * across)).toNat (d.get! (o - across)).toNat > hevT)
      || decide (absDiff (d.get! (o + across)).toNat (d.get! o).toNat > hevT)) =
    RFC.hevTest hevT (readSeg d o across) := by
  unfold RFC.hevTest readSeg
  simp only [gt_cast]

/-- **§15.3 normal filter on a sub-block edge, one position** -/
theorem edgeStep_sub (E I hevT : Nat) (d : ByteArray) (o across : Nat) :
    edgeStep 2 E I hevT d o across =
      if RFC.filterYes I E (readSeg d o across) then
        (if RFC.hevTest hevT (readSeg d o across) then
          (d.set! (o - across) (u8 (RFC.subblockFilter hevT I E (readSeg d o across)).p0)).set! o
            (u8 (RFC.subblockFilter hevT I E (readSeg d o across)).q0)
         else
          ((((d.set! (o - across) (u8 (RFC.subblockFilter hevT I E (readSeg d o across)).p0)).set! o
            (u8 (RFC.subblockFilter hevT I E (readSeg d o across)).q0)).set! (o + across)
            (u8 (RFC.subblockFilter hevT I E (readSeg d o across)).q1)).set! (o - 2 * across)
            (u8 (RFC.subblockFilter hevT I E (readSeg d o across)).p1)))
      else d := by
  unfold edgeStep
  simp only [show ¬ (2 = 0) by decide, if_false, if_true, yes_eq, hev_eq, commonAdjust_eq, Int.shiftRight_eq_div_pow,
    s2u_eq]
  unfold RFC.subblockFilter
  by_cases hy : RFC.filterYes (↑I) (↑E) (readSeg d o across) = true
  · by_cases hh : RFC.hevTest (↑hevT) (readSeg d o across) = true
    · simp only [hy, hh, if_true, Bool.not_true, Bool.false_eq_true, if_false]
      rfl
    · have hh' : RFC.hevTest (↑hevT) (readSeg d o across) = false := by simpa using hh
      simp only [hy, hh', if_true, Bool.not_false, Bool.false_eq_true, if_false]
      rfl
  · simp only [hy, if_false, Bool.false_eq_true]

/-- **§15.3 normal filter on a macroblock edge, one position** -/
theorem edgeStep_mb (E I hevT : Nat) (d : ByteArray) (o across : Nat) :
    edgeStep 1 E I hevT d o across =
      if RFC.filterYes I E (readSeg d o across) then
        (if RFC.hevTest hevT (readSeg d o across) then
          (d.set! (o - across) (u8 (RFC.mbFilter hevT I E (readSeg d o across)).p0)).set! o
            (u8 (RFC.mbFilter hevT I E (readSeg d o across)).q0)
         else
          ((((((d.set! o (u8 (RFC.mbFilter hevT I E (readSeg d o across)).q0)).set! (o - across)
            (u8 (RFC.mbFilter hevT I E (readSeg d o across)).p0)).set! (o + across)
            (u8 (RFC.mbFilter hevT I E (readSeg d o across)).q1)).set! (o - 2 * across)
            (u8 (RFC.mbFilter hevT I E (readSeg d o across)).p1)).set! (o + 2 * across)
            (u8 (RFC.mbFilter hevT I E (readSeg d o across)).q2)).set! (o - 3 * across)
            (u8 (RFC.mbFilter hevT I E (readSeg d o across)).p2)))
      else d := by
  unfold edgeStep
  simp only [show ¬ (1 = 0) by decide, show ¬ (1 = 2) by decide, if_false, if_true, yes_eq, hev_eq, commonAdjust_eq,
    Int.shiftRight_eq_div_pow, s2u_eq, c8_eq]
  unfold RFC.mbFilter
  by_cases hy : RFC.filterYes (↑I) (↑E) (readSeg d o across) = true
  · by_cases hh : RFC.hevTest (↑hevT) (readSeg d o across) = true
    · simp only [hy, hh, if_true, Bool.not_true, Bool.false_eq_true, if_false]
      rfl
    · have hh' : RFC.hevTest (↑hevT) (readSeg d o across) = false := by simpa using hh
      simp only [hy, hh', if_true, Bool.not_false, Bool.false_eq_true, if_false]
      rfl
  · simp only [hy, if_false, Bool.false_eq_true]

end Webp.Proofs.C04RefineEdge
