import Webp.Proofs.VP8Kernels
/-
  Value ranges of the reference transforms: for the input ranges the codec itself produces every
  intermediate fits the narrow integer types an optimised implementation (16-bit SIMD lanes, a 32-bit Go
  `int`) works with; outside them it does not (witnesses in `Props/C13`).
-/
namespace Webp.Proofs.VP8Range
open Webp.Impl.VP8Kernels Webp.Proofs.VP8Kernels

/-- `|x| ≤ b` -/
def Within (b x : Int) : Prop := -b ≤ x ∧ x ≤ b

/-- every value one 1-D pass of the inverse DCT computes from the four inputs `x0..x3` (`bias` is the
    rounding constant added to `x0` in the second pass) -/
def idctPassVals (x0 x1 x2 x3 bias : Int) : List Int :=
  let dc := x0 + bias
  let a := dc + x2
  let b := dc - x2
  let cc := mul2 x1 - mul1 x3
  let d := mul1 x1 + mul2 x3
  [dc, a, b, mul1 x1, mul2 x1, mul1 x3, mul2 x3, cc, d, a + d, b + cc, b - cc, a - d]

theorem idctPass_bound (B x0 x1 x2 x3 bias : Int) (_hB : 0 ≤ B) (hb : 0 ≤ bias ∧ bias ≤ 4)
    (h0 : Within B x0) (h1 : Within B x1) (h2 : Within B x2) (h3 : Within B x3) :
    ∀ x ∈ idctPassVals x0 x1 x2 x3 bias, Within (4 * B + 6) x := by
  unfold Within at *
  intro x hx
  simp only [idctPassVals, List.mem_cons, List.mem_nil_iff, or_false] at hx
  unfold mul1 mul2 at hx
  rcases hx with rfl | rfl | rfl | rfl | rfl | rfl | rfl | rfl | rfl | rfl | rfl | rfl | rfl <;> omega

/-- sharper bound on the four outputs of a pass: `(1 + 1 + 1.3066 + 0.5412)·B` -/
theorem idctPass_out_bound (B x0 x1 x2 x3 bias : Int) (_hB : 0 ≤ B) (hb : 0 ≤ bias ∧ bias ≤ 4)
    (h0 : Within B x0) (h1 : Within B x1) (h2 : Within B x2) (h3 : Within B x3) :
    let dc := x0 + bias
    let a := dc + x2
    let b := dc - x2
    let cc := mul2 x1 - mul1 x3
    let d := mul1 x1 + mul2 x3
    Within ((252167 * B) / 65536 + 6) (a + d) ∧ Within ((252167 * B) / 65536 + 6) (b + cc) ∧
    Within ((252167 * B) / 65536 + 6) (b - cc) ∧ Within ((252167 * B) / 65536 + 6) (a - d) := by
  unfold Within at *
  unfold mul1 mul2
  refine ⟨?_, ?_, ?_, ?_⟩ <;> omega

theorem vtmp_eq_pass (c : Nat → Int) (col : Nat) (hc : col < 4) :
    vtmp c col = (c col + 0 + c (8 + col)) + (mul1 (c (4 + col)) + mul2 (c (12 + col))) ∧
    vtmp c (4 + col) = (c col + 0 - c (8 + col)) + (mul2 (c (4 + col)) - mul1 (c (12 + col))) ∧
    vtmp c (8 + col) = (c col + 0 - c (8 + col)) - (mul2 (c (4 + col)) - mul1 (c (12 + col))) ∧
    vtmp c (12 + col) = (c col + 0 + c (8 + col)) - (mul1 (c (4 + col)) + mul2 (c (12 + col))) := by
  have : col = 0 ∨ col = 1 ∨ col = 2 ∨ col = 3 := by omega
  rcases this with rfl | rfl | rfl | rfl <;> simp [vtmp]

/-- first pass on coefficients within ±2048: every `tmp` entry is within ±7887 -/
theorem vtmp_bound (c : Nat → Int) (h : ∀ k, k < 16 → Within 2048 (c k)) (k : Nat) (hk : k < 16) :
    Within 7887 (vtmp c k) := by
  have key : ∀ col, col < 4 → Within 7887 (vtmp c col) ∧ Within 7887 (vtmp c (4 + col)) ∧
      Within 7887 (vtmp c (8 + col)) ∧ Within 7887 (vtmp c (12 + col)) := by
    intro col hc
    obtain ⟨e0, e1, e2, e3⟩ := vtmp_eq_pass c col hc
    have b := idctPass_out_bound 2048 (c col) (c (4 + col)) (c (8 + col)) (c (12 + col)) 0 (by omega) (by omega)
      (h col (by omega)) (h (4 + col) (by omega)) (h (8 + col) (by omega)) (h (12 + col) (by omega))
    simp only at b
    rw [e0, e1, e2, e3]
    unfold Within at b ⊢
    omega
  have hcases : k = k % 4 ∨ k = 4 + k % 4 ∨ k = 8 + k % 4 ∨ k = 12 + k % 4 := by omega
  have hlt : k % 4 < 4 := by omega
  rcases hcases with e | e | e | e <;> rw [e]
  · exact (key _ hlt).1
  · exact (key _ hlt).2.1
  · exact (key _ hlt).2.2.1
  · exact (key _ hlt).2.2.2

/-! ## Walsh–Hadamard -/

theorem iwhtTmp_bound (B : Int) (c : Nat → Int) (h : ∀ k, k < 16 → Within B (c k)) (k : Nat) (hk : k < 16) :
    Within (4 * B) (iwhtTmp c k) := by
  have h0 := h (k % 4) (by omega); have h1 := h (4 + k % 4) (by omega)
  have h2 := h (8 + k % 4) (by omega); have h3 := h (12 + k % 4) (by omega)
  unfold Within at *
  unfold iwhtTmp
  have : k / 4 = 0 ∨ k / 4 = 1 ∨ k / 4 = 2 ∨ k / 4 = 3 := by omega
  rcases this with e | e | e | e <;> simp only [e] <;> strip_mdata <;> omega

/-! ## Forward DCT -/

theorem fdctTmp_bound (d : Nat → Int) (h : ∀ k, k < 16 → Within 255 (d k)) (k : Nat) (hk : k < 16) :
    Within 8160 (fdctTmp d k) := by
  have h0 := h (4 * (k / 4)) (by omega); have h1 := h (4 * (k / 4) + 1) (by omega)
  have h2 := h (4 * (k / 4) + 2) (by omega); have h3 := h (4 * (k / 4) + 3) (by omega)
  unfold Within at *
  unfold fdctTmp
  have : k % 4 = 0 ∨ k % 4 = 1 ∨ k % 4 = 2 ∨ k % 4 = 3 := by omega
  rcases this with e | e | e | e <;> simp only [e] <;> strip_mdata <;> omega

/-- the value `fTransform` converts to `int16` at position `k`, before the conversion -/
def fTransformRaw (t : Nat → Int) (k : Nat) : Int :=
  let i := k % 4
  let a0 := t i + t (12 + i)
  let a1 := t (4 + i) + t (8 + i)
  let a2 := t (4 + i) - t (8 + i)
  let a3 := t i - t (12 + i)
  match k / 4 with
  | 0 => (a0 + a1 + 7) / 16
  | 1 => (a2 * 2217 + a3 * 5352 + 12000) / 65536 + (if a3 ≠ 0 then 1 else 0)
  | 2 => (a0 - a1 + 7) / 16
  | _ => (a3 * 2217 - a2 * 5352 + 51000) / 65536

theorem fTransform_eq_raw (src ref : Nat → Int) (k : Nat) :
    fTransform src ref k = toI16 (fTransformRaw (fdctTmp (fun i => src i - ref i)) k) := by
  unfold fTransform fTransformRaw
  have : k / 4 = 0 ∨ k / 4 = 1 ∨ k / 4 = 2 ∨ k / 4 ≥ 3 := by omega
  rcases this with e | e | e | e
  · simp only [e]
  · simp only [e]
  · simp only [e]
  · obtain ⟨m, hm⟩ : ∃ m, k / 4 = m + 3 := ⟨k / 4 - 3, by omega⟩
    simp only [hm]

theorem fTransformRaw_bound (t : Nat → Int) (h : ∀ k, k < 16 → Within 8160 (t k)) (k : Nat) (hk : k < 16) :
    Within 2040 (fTransformRaw t k) := by
  have h0 := h (k % 4) (by omega); have h1 := h (4 + k % 4) (by omega)
  have h2 := h (8 + k % 4) (by omega); have h3 := h (12 + k % 4) (by omega)
  unfold Within at *
  unfold fTransformRaw
  have : k / 4 = 0 ∨ k / 4 = 1 ∨ k / 4 = 2 ∨ k / 4 = 3 := by omega
  rcases this with e | e | e | e <;> simp only [e] <;> strip_mdata <;> (try split) <;> omega

/-- the value `transformWHT` converts to `int16` at position `k`, before the conversion -/
def whtRaw (t : Nat → Int) (k : Nat) : Int :=
  let r := 4 * (k / 4)
  let dc := t r + 3
  let a0 := dc + t (r + 3)
  let a1 := t (r + 1) + t (r + 2)
  let a2 := t (r + 1) - t (r + 2)
  let a3 := dc - t (r + 3)
  match k % 4 with
  | 0 => a0 + a1
  | 1 => a3 + a2
  | 2 => a0 - a1
  | _ => a3 - a2

theorem transformWHT_eq_raw (c : Nat → Int) (k : Nat) : transformWHT c k = toI16 (whtRaw (iwhtTmp c) k / 8) := by
  unfold transformWHT whtRaw
  have : k % 4 = 0 ∨ k % 4 = 1 ∨ k % 4 = 2 ∨ k % 4 = 3 := by omega
  rcases this with e | e | e | e <;> simp only [e]

theorem whtRaw_bound (B : Int) (t : Nat → Int) (h : ∀ k, k < 16 → Within B (t k)) (k : Nat) (hk : k < 16) :
    Within (4 * B + 3) (whtRaw t k) := by
  have h0 := h (4 * (k / 4)) (by omega); have h1 := h (4 * (k / 4) + 1) (by omega)
  have h2 := h (4 * (k / 4) + 2) (by omega); have h3 := h (4 * (k / 4) + 3) (by omega)
  unfold Within at *
  unfold whtRaw
  have : k % 4 = 0 ∨ k % 4 = 1 ∨ k % 4 = 2 ∨ k % 4 = 3 := by omega
  rcases this with e | e | e | e <;> simp only [e] <;> strip_mdata <;> omega

/-! ## Quantiser: the `uint32` arithmetic does not wrap on the encoder's own parameter range -/

theorem quant_no_wrap (a iq bias : Int) (ha : 0 ≤ a ∧ a ≤ 4096) (hq : 0 ≤ iq ∧ iq ≤ 131072)
    (hb : 0 ≤ bias ∧ bias ≤ 131072) :
    u32 (u32 a * u32 iq + u32 bias) = a * iq + bias ∧ a * iq + bias < 2147483648 := by
  have h0 : 0 ≤ a * iq := Int.mul_nonneg ha.1 hq.1
  have h1 : a * iq ≤ 4096 * 131072 := Int.mul_le_mul ha.2 hq.2 hq.1 (by omega)
  have e1 : u32 a = a := by unfold u32; omega
  have e2 : u32 iq = iq := by unfold u32; omega
  have e3 : u32 bias = bias := by unfold u32; omega
  rw [e1, e2, e3]
  unfold u32
  omega

end Webp.Proofs.VP8Range
