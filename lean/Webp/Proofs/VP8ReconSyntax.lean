import Webp.Proofs.VP8ReconMB
import Webp.Proofs.VP8ReconModes
/-
  C06 helper: the syntax of a whole frame — the decoder's `parseIntraModeRow` + `decodeMB` read back
  what `writeMBModes` and the token pass wrote, macroblock after macroblock, because both sides
  carry the same mode and non-zero contexts along (this is the "contexts agree" half of the
  no-drift statement; the other half is in `VP8ReconFrame`).
-/
namespace Webp.Proofs.VP8ReconSyntax
open Webp.Impl.VP8Recon Webp.Proofs.VP8ReconTokens Webp.Proofs.VP8ReconMB Webp.Proofs.VP8ReconModes

/-- one macroblock's tokens, skip flag included -/
theorem tokens_roundtrip (K : Kernels) (qm : QuantMatrix) (d : MBDesc) (hlev : ∀ b, LevelsInRange (d.levels b))
    (useSkip : Bool) (hs : d.skip = true → useSkip = true) (stale : Nat → Coeffs) (n : NzCtx) (hn : n.WF)
    (rest : Stream) :
    parseTokens K qm d.isI4 (if useSkip then d.skip else false) useSkip stale n ((emitTokens d n).1 ++ rest) =
      some (if d.skip then decSkipped stale else decCoeffs K qm d, (emitTokens d n).2, rest) := by
  unfold parseTokens emitTokens
  cases hsk : d.skip
  · have : (useSkip && if useSkip = true then false else false) = false := by cases useSkip <;> rfl
    simp only [this, Bool.false_eq_true, if_false]
    rw [parseResiduals_roundtrip K qm d hlev n hn rest]
    rfl
  · have hu := hs hsk
    subst hu
    simp

/-- what the decoder must hold for a macroblock described by `d` -/
def ParsedOK (K : Kernels) (dqm : Fin 4 → QuantMatrix) (fs : FrameSyntax) (d : MBDesc) (p : MBModes × ResData) : Prop :=
  p.1.isI4 = d.isI4 ∧ (d.isI4 = true → p.1.imodes = d.i4modes) ∧ (d.isI4 = false → p.1.imodes 0 = d.i16mode) ∧
  p.1.uvmode = d.uvmode ∧ p.1.segment = (if fs.updateMap then d.segment else 0) ∧
  (if d.skip then p.2.nonZeroY = 0 ∧ p.2.nonZeroUV = 0 else p.2 = decCoeffs K (dqm (segFin p.1.segment)) d)

def CtxWF (c : TokCtx) : Prop := ∀ x, (c.nz x).WF

theorem ctxWF_init : CtxWF TokCtx.init := by
  intro x; simp [TokCtx.init, TokCtx.nz, NzCtx.WF]

theorem ctxWF_rowStart (c : TokCtx) (h : CtxWF c) : CtxWF c.rowStart := by
  intro x
  obtain ⟨a, _, b, _⟩ := h x
  exact ⟨a, by simp [TokCtx.rowStart, TokCtx.nz], b, by simp [TokCtx.rowStart, TokCtx.nz]⟩

theorem ctxWF_setModes (c : TokCtx) (x : Nat) (m : ModeCtx) (h : CtxWF c) : CtxWF (c.setModes x m) := h

theorem ctxWF_setNz (c : TokCtx) (x : Nat) (n : NzCtx) (h : CtxWF c) (hn : n.WF) : CtxWF (c.setNz x n) := by
  intro x'
  obtain ⟨a, _, b, _⟩ := h x'
  obtain ⟨a', c', b', d'⟩ := hn
  unfold TokCtx.setNz TokCtx.nz NzCtx.WF
  simp only
  refine ⟨?_, c', ?_, d'⟩
  · split
    · exact a'
    · exact a
  · split
    · exact b'
    · exact b

/-- **the syntax of the frame round-trips.**  For every list `ks` of distinct macroblock indices
    processed in that order, from any well-formed running context: the decoder consumes exactly what
    the encoder emitted and ends with a record `ParsedOK` for every macroblock of the list. -/
theorem parseMBs_roundtrip (K : Kernels) (dqm : Fin 4 → QuantMatrix) (fs : FrameSyntax) (descs : Nat → MBDesc)
    :
    ∀ (ks : List Nat), ks.Nodup → (∀ k, k ∈ ks → (descs k).WF) →
      (∀ k, k ∈ ks → (descs k).skip = true → fs.useSkip = true) →
      ∀ (c : TokCtx), CtxWF c → ∀ (r0 : Stream) (rp : Nat → Stream) (col : ColData)
      (out : Nat → MBModes × ResData),
      ∃ out', parseMBs K dqm fs ks c
          { part0 := (emitMBs descs fs ks c).part0 ++ r0, parts := fun p => (emitMBs descs fs ks c).parts p ++ rp p }
          col out = some out' ∧
        (∀ k, k ∈ ks → ParsedOK K dqm fs (descs k) (out' k)) ∧ (∀ k, k ∉ ks → out' k = out k) := by
  intro ks
  induction ks with
  | nil =>
    intro _ _ _ c _ r0 rp col out
    exact ⟨out, rfl, fun k h => absurd h (by simp), fun _ _ => rfl⟩
  | cons k ks ih =>
    intro hnd hwf hskip c hc r0 rp col out
    obtain ⟨hk, hnd'⟩ := List.nodup_cons.mp hnd
    simp only [parseMBs, emitMBs, List.append_assoc]
    -- the context after the optional row start
    generalize hc1 : (if k % fs.mbW = 0 then c.rowStart else c) = c1
    have hc1wf : CtxWF c1 := by
      rw [← hc1]; split
      · exact ctxWF_rowStart c hc
      · exact hc
    have hd := hwf k (by simp)
    rw [modes_roundtrip (descs k) hd fs.updateMap fs.useSkip (col.imodes (k % fs.mbW)) (c1.modes (k % fs.mbW))]
    simp only [Option.bind_some, if_true, List.append_assoc]
    have hm1 : (modesOf (descs k) fs.updateMap fs.useSkip (col.imodes (k % fs.mbW))).isI4 = (descs k).isI4 := rfl
    have hm2 : (modesOf (descs k) fs.updateMap fs.useSkip (col.imodes (k % fs.mbW))).skip =
        (if fs.useSkip then (descs k).skip else false) := rfl
    rw [hm1, hm2, tokens_roundtrip K _ (descs k) hd.lev fs.useSkip (hskip k (by simp)) _ _ (hc1wf _)]
    simp only [Option.bind_some]
    -- the remaining macroblocks
    have hnext : CtxWF ((c1.setModes (k % fs.mbW) (emitModes (descs k) fs.updateMap fs.useSkip (c1.modes (k % fs.mbW))).2).setNz
        (k % fs.mbW) (emitTokens (descs k) (c1.nz (k % fs.mbW))).2) :=
      ctxWF_setNz _ _ _ (ctxWF_setModes _ _ _ hc1wf) (emitTokens_wf _ _ (hc1wf _))
    have hparts : (fun p => if p = k / fs.mbW &&& (fs.numParts - 1) then
          (emitMBs descs fs ks ((c1.setModes (k % fs.mbW) (emitModes (descs k) fs.updateMap fs.useSkip (c1.modes (k % fs.mbW))).2).setNz
            (k % fs.mbW) (emitTokens (descs k) (c1.nz (k % fs.mbW))).2)).parts (k / fs.mbW &&& (fs.numParts - 1)) ++
            rp (k / fs.mbW &&& (fs.numParts - 1))
        else
          (if p = k / fs.mbW &&& (fs.numParts - 1) then
            (emitTokens (descs k) (c1.nz (k % fs.mbW))).1 ++
              (emitMBs descs fs ks ((c1.setModes (k % fs.mbW) (emitModes (descs k) fs.updateMap fs.useSkip (c1.modes (k % fs.mbW))).2).setNz
                (k % fs.mbW) (emitTokens (descs k) (c1.nz (k % fs.mbW))).2)).parts p
          else
            (emitMBs descs fs ks ((c1.setModes (k % fs.mbW) (emitModes (descs k) fs.updateMap fs.useSkip (c1.modes (k % fs.mbW))).2).setNz
              (k % fs.mbW) (emitTokens (descs k) (c1.nz (k % fs.mbW))).2)).parts p) ++ rp p) =
        (fun p => (emitMBs descs fs ks ((c1.setModes (k % fs.mbW) (emitModes (descs k) fs.updateMap fs.useSkip (c1.modes (k % fs.mbW))).2).setNz
          (k % fs.mbW) (emitTokens (descs k) (c1.nz (k % fs.mbW))).2)).parts p ++ rp p) := by
      funext p
      by_cases hp : p = k / fs.mbW &&& (fs.numParts - 1)
      · subst hp; simp
      · simp [hp]
    rw [hparts]
    obtain ⟨out', hp, hin, hnot⟩ := ih hnd' (fun k' h => hwf k' (List.mem_cons_of_mem _ h))
      (fun k' h => hskip k' (List.mem_cons_of_mem _ h)) _ hnext r0 rp
      { imodes := fun x' => if x' = k % fs.mbW then (modesOf (descs k) fs.updateMap fs.useSkip (col.imodes (k % fs.mbW))).imodes
                            else col.imodes x'
        coeffs := fun x' => if x' = k % fs.mbW then
            (if (descs k).skip then decSkipped (col.coeffs (k % fs.mbW))
             else decCoeffs K (dqm (segFin (modesOf (descs k) fs.updateMap fs.useSkip (col.imodes (k % fs.mbW))).segment)) (descs k)).coeffs
          else col.coeffs x' }
      (fun k' => if k' = k then
          (modesOf (descs k) fs.updateMap fs.useSkip (col.imodes (k % fs.mbW)),
           if (descs k).skip then decSkipped (col.coeffs (k % fs.mbW))
           else decCoeffs K (dqm (segFin (modesOf (descs k) fs.updateMap fs.useSkip (col.imodes (k % fs.mbW))).segment)) (descs k))
        else out k')
    refine ⟨out', hp, ?_, ?_⟩
    · intro k' hk'
      rcases List.mem_cons.mp hk' with e | e
      · subst e
        rw [hnot k' hk]
        simp only [if_true]
        refine ⟨rfl, ?_, ?_, rfl, rfl, ?_⟩
        · intro hI; simp [modesOf, hI]
        · intro hI; simp [modesOf, hI]
        · cases hsk : (descs k').skip
          · simp
          · simp [decSkipped]
      · exact hin k' e
    · intro k' hk'
      have h1 : k' ≠ k := fun e => hk' (by simp [e])
      have h2 : k' ∉ ks := fun e => hk' (List.mem_cons_of_mem _ e)
      rw [hnot k' h2]
      simp [h1]

end Webp.Proofs.VP8ReconSyntax
