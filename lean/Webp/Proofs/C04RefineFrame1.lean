import Webp.Proofs.C04RefineResid14
import Webp.Proofs.C04RefineResid5
import Webp.Props.C04Refine2
/-
  C04 refinement, towards the frame-level syntax theorem, part 1: what `parseIntraModeRow` yields beside `ModeRel`
  (skip flag down when the frame has no skip probability, segment id below 4), the link from the segment id to the
  dequantisation factors `decodeCore` uses, and the frame-wide relation of the packed non-zero contexts (`NFRel`).
-/
namespace Webp.Proofs.C04RefineFrame
open Webp.Impl.BoolCoder
open Webp.Spec.VP8
open Webp.Impl.VP8SyntaxBytes (P runR rd)
open Webp.Impl.VP8Recon (Slot NzCtx TokCtx MBModes)
open Webp.Proofs.C04RefineOps Webp.Proofs.C04RefineResid

theorem leaves_bind_of {α β : Type} (Q1 : α → Prop) (Q : β → Prop) (t : P α) (f : α → P β) (h1 : Leaves Q1 t)
    (h : ∀ a, Q1 a → Leaves Q (f a)) : Leaves Q (t >>= f) := by
  induction t with
  | pure a => exact h a h1
  | fail => trivial
  | read sl k ih => intro b; exact ih b (h1 b)

theorem runD_leaves {α : Type} (Q : α → Prop) (prob : Slot → UInt8) (t : P α) (hl : Leaves Q t) (d : BoolDec) (a : α)
    (d' : BoolDec) (h : runD prob t d = some (a, d')) : Q a := by
  induction t generalizing d with
  | pure b => cases h; exact hl
  | fail => cases h
  | read sl k ih => exact ih _ (hl _) _ h

theorem segment_leaves : Leaves (fun s => s < 4) Webp.Impl.VP8SyntaxBytes.T.readSegmentID := by
  unfold Webp.Impl.VP8SyntaxBytes.T.readSegmentID
  refine leaves_rd _ _ _ (fun b => ?_)
  cases b
  · refine leaves_rd _ _ _ (fun b => ?_)
    cases b
    · exact (by decide : Webp.Impl.VP8Recon.b2n false < 4)
    · exact (by decide : Webp.Impl.VP8Recon.b2n true < 4)
  · refine leaves_rd _ _ _ (fun b => ?_)
    cases b
    · exact (by decide : Webp.Impl.VP8Recon.b2n false + 2 < 4)
    · exact (by decide : Webp.Impl.VP8Recon.b2n true + 2 < 4)

/-- every result of `parseIntraModeRow` (one macroblock): segment id below 4; skip flag down when `useSkipProba` is off -/
theorem parseModes_leaves (um us : Bool) (prev : Fin 16 → Nat) (gc : Webp.Impl.VP8Recon.ModeCtx) :
    Leaves (fun x : MBModes × Webp.Impl.VP8Recon.ModeCtx => (us = false → x.1.skip = false) ∧ x.1.segment < 4)
      (Webp.Impl.VP8SyntaxBytes.T.parseModes um us prev gc) := by
  unfold Webp.Impl.VP8SyntaxBytes.T.parseModes
  refine leaves_bind_of (fun s => s < 4) _ _ _ (by cases um; exact (by decide : (0 : Nat) < 4); exact segment_leaves) (fun seg hseg => ?_)
  refine leaves_bind_of (fun sk => us = false → sk = false) _ _ _
    (by cases us; exact fun _ => rfl; exact fun b hh => by cases hh) (fun sk hsk => ?_)
  refine leaves_rd _ _ _ (fun b => ?_)
  cases b
  · exact leaves_bind _ _ _ (fun r => leaves_bind _ _ _ (fun uv => ⟨hsk, hseg⟩))
  · exact leaves_bind _ _ _ (fun ym => leaves_bind _ _ _ (fun uv => ⟨hsk, hseg⟩))

theorem parseModes_runR (prob : Slot → UInt8) (um us : Bool) (prev : Fin 16 → Nat) (gc : Webp.Impl.VP8Recon.ModeCtx) (r : BoolReader)
    (g : MBModes) (gc' : Webp.Impl.VP8Recon.ModeCtx) (r' : BoolReader)
    (h : runR prob (Webp.Impl.VP8SyntaxBytes.T.parseModes um us prev gc) r = some ((g, gc'), r')) :
    (us = false → g.skip = false) ∧ g.segment < 4 :=
  runR_leaves _ prob _ (parseModes_leaves um us prev gc) r (g, gc') r' h

/-! ## segment → factors -/

theorem factors_getD (h : FrameHdr) (cv : Conv) (s : Nat) (hs : s < 4) :
    ((Array.range 4).map (dequantFactors h cv)).getD s default = dequantFactors h cv s := by
  simp [Array.getD_eq_getD_getElem?, hs]

theorem dequant_cv (h : FrameHdr) (cv : Conv) (hcv : cv.segDefaultAbsolute = false) (s : Nat) :
    dequantFactors h cv s = dequantFactors h {} s := by
  unfold dequantFactors segmentQIndex
  simp only [hcv, Bool.false_and, Bool.or_false]

theorem segFin_lt (s : Nat) (hs : s < 4) : Webp.Impl.VP8Recon.segFin s = ⟨s, hs⟩ := by
  unfold Webp.Impl.VP8Recon.segFin
  apply Fin.ext
  exact Nat.mod_eq_of_lt hs

/-! ## the non-zero contexts of the whole row of macroblock columns -/

structure NFRel (mbW : Nat) (c : TokCtx) (cc : CoeffCtx) : Prop where
  t : ∀ x, x < mbW → ∀ k, k < 8 → cc.above.getD (9 * x + k) 0 = (c.topNz x >>> k) % 2
  l : ∀ k, k < 8 → cc.left.getD k 0 = (c.leftNz >>> k) % 2
  tdc : ∀ x, x < mbW → cc.above.getD (9 * x + 8) 0 = c.topNzDC x
  ldc : cc.left.getD 8 0 = c.leftNzDC
  asz : cc.above.size = 9 * mbW
  lsz : 9 ≤ cc.left.size
  tb : ∀ x, x < mbW → c.topNz x < 256
  lb : c.leftNz < 256
  tdb : ∀ x, x < mbW → c.topNzDC x ≤ 1
  ldb : c.leftNzDC ≤ 1

theorem nzrel_of_nfrel {mbW : Nat} {c : TokCtx} {cc : CoeffCtx} (h : NFRel mbW c cc) (x : Nat) (hx : x < mbW) :
    NzRel x cc.above (c.nz x) cc :=
  ⟨h.t x hx, h.l, h.tdc x hx, h.ldc, fun _ _ => rfl, rfl, by rw [h.asz]; omega, h.lsz, h.tb x hx, h.lb, h.tdb x hx, h.ldb⟩

theorem nfrel_of_nzrel {mbW : Nat} {c : TokCtx} {cc : CoeffCtx} (h : NFRel mbW c cc) (x : Nat) (_hx : x < mbW)
    (n' : NzCtx) (cc' : CoeffCtx) (hn : NzRel x cc.above n' cc') : NFRel mbW (c.setNz x n') cc' := by
  refine ⟨fun x' hx' k hk => ?_, hn.l, fun x' hx' => ?_, hn.ldc, hn.asz.trans h.asz, hn.lsz, fun x' hx' => ?_, hn.lb,
    fun x' hx' => ?_, hn.ldb⟩
  · show _ = ((if x' = x then n'.tnz else c.topNz x') >>> k) % 2
    by_cases he : x' = x
    · rw [if_pos he, he]; exact hn.t k hk
    · rw [if_neg he, hn.o _ (by omega)]; exact h.t x' hx' k hk
  · show _ = (if x' = x then n'.tnzDC else c.topNzDC x')
    by_cases he : x' = x
    · rw [if_pos he, he]; exact hn.tdc
    · rw [if_neg he, hn.o _ (by omega)]; exact h.tdc x' hx'
  · show (if x' = x then n'.tnz else c.topNz x') < 256
    by_cases he : x' = x
    · rw [if_pos he]; exact hn.tb
    · rw [if_neg he]; exact h.tb x' hx'
  · show (if x' = x then n'.tnzDC else c.topNzDC x') ≤ 1
    by_cases he : x' = x
    · rw [if_pos he]; exact hn.tdb
    · rw [if_neg he]; exact h.tdb x' hx'

theorem rep9 (k : Nat) : (Array.replicate 9 (0 : Nat)).getD k 0 = 0 := by
  rw [Array.getD_eq_getD_getElem?]
  by_cases h : k < 9
  · rw [Array.getElem?_eq_getElem (by simp; exact h)]; simp
  · rw [Array.getElem?_eq_none (by simp; omega)]; rfl

/-- start of a macroblock row: Go zeroes `leftNz` / `leftNzDC`, the specification `cctx.left` -/
theorem nfrel_rowStart {mbW : Nat} {c : TokCtx} {cc : CoeffCtx} (h : NFRel mbW c cc) :
    NFRel mbW c.rowStart { cc with left := Array.replicate 9 0 } :=
  ⟨h.t, fun k _ => by show (Array.replicate 9 0).getD k 0 = (0 >>> k) % 2; rw [rep9, Nat.zero_shiftRight],
   h.tdc, rep9 8, h.asz, by show 9 ≤ (Array.replicate 9 0).size; simp, h.tb, by show (0 : Nat) < 256; omega, h.tdb,
   by show (0 : Nat) ≤ 1; omega⟩

theorem nfrel_setModes {mbW : Nat} {c : TokCtx} {cc : CoeffCtx} (h : NFRel mbW c cc) (x : Nat) (m : Webp.Impl.VP8Recon.ModeCtx) :
    NFRel mbW (c.setModes x m) cc :=
  ⟨h.t, h.l, h.tdc, h.ldc, h.asz, h.lsz, h.tb, h.lb, h.tdb, h.ldb⟩

theorem repN (n k : Nat) : (Array.replicate n (0 : Nat)).getD k 0 = 0 := by
  rw [Array.getD_eq_getD_getElem?]
  by_cases h : k < n
  · rw [Array.getElem?_eq_getElem (by simp; exact h)]; simp
  · rw [Array.getElem?_eq_none (by simp; omega)]; rfl

/-- the contexts a frame starts with -/
theorem nfrel_init (mbW : Nat) : NFRel mbW TokCtx.init { above := Array.replicate (9 * mbW) 0 } :=
  ⟨fun _ _ k _ => by show (Array.replicate (9 * mbW) 0).getD _ 0 = (0 >>> k) % 2; rw [repN, Nat.zero_shiftRight],
   fun k _ => by show (Array.replicate 9 0).getD k 0 = (0 >>> k) % 2; rw [rep9, Nat.zero_shiftRight],
   fun _ _ => repN _ _, rep9 8, by simp, by show 9 ≤ (Array.replicate 9 0).size; simp,
   fun _ _ => by show (0 : Nat) < 256; omega, by show (0 : Nat) < 256; omega,
   fun _ _ => by show (0 : Nat) ≤ 1; omega, by show (0 : Nat) ≤ 1; omega⟩

end Webp.Proofs.C04RefineFrame
