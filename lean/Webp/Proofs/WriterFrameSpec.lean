import Webp.Proofs.WriterFrame
import Webp.Spec.VP8.Header
/-
  `lossy.assembleFrame` against the frame-tag reader of the VP8 *spec decoder*
  (`Webp.Spec.VP8.parseFrameTag`, which works on `ByteArray`).
-/
namespace Webp.Impl.Writer
open Webp.Go Webp.Spec.VP8
set_option maxHeartbeats 400000

/-- a byte list as the `ByteArray` the VP8 spec decoder works on -/
def toBA (l : Bytes) : ByteArray := ByteArray.mk l.toArray

theorem toBA_get (l : Bytes) (i : Nat) : ((toBA l).get! i).toNat = byteAt l i := by
  unfold byteAt
  show (l.toArray[i]!).toNat = _
  simp [List.getD]
  rfl

theorem toBA_size (l : Bytes) : (toBA l).size = l.length := by
  simp [toBA, ByteArray.size]

theorem and_1 (x : Nat) : x &&& 1 = x % 2 := Nat.and_two_pow_sub_one_eq_mod x 1
theorem and_7 (x : Nat) : x &&& 7 = x % 8 := Nat.and_two_pow_sub_one_eq_mod x 3
theorem and_16383 (x : Nat) : x &&& 16383 = x % 16384 := Nat.and_two_pow_sub_one_eq_mod x 14
theorem shr_1 (x : Nat) : x >>> 1 = x / 2 := Nat.shiftRight_eq_div_pow x 1
theorem shr_4 (x : Nat) : x >>> 4 = x / 16 := Nat.shiftRight_eq_div_pow x 4
theorem shr_5 (x : Nat) : x >>> 5 = x / 32 := Nat.shiftRight_eq_div_pow x 5
theorem shr_14 (x : Nat) : x >>> 14 = x / 16384 := Nat.shiftRight_eq_div_pow x 14

theorem parseFrameTag_assembled (w h : Nat) (part0 rest : Bytes)
    (hp0 : part0.length < 524288)
    (hw1 : 1 ≤ w) (hw2 : w ≤ 16383) (hh1 : 1 ≤ h) (hh2 : h ≤ 16383) :
    parseFrameTag (toBA (frameHeader w h part0.length ++ (part0 ++ rest))) =
      .ok { version := 0, showFrame := true, firstPartSize := part0.length, width := w, height := h,
            xScale := 0, yScale := 0 } := by
  obtain ⟨f0, f3, f4, f5, f6, f8⟩ := frameHeader_fields w h part0.length (part0 ++ rest)
  have hl : (frameHeader w h part0.length ++ (part0 ++ rest)).length =
      10 + (part0.length + rest.length) := by
    rw [List.length_append, List.length_append, frameHeader_length]
  generalize frameHeader w h part0.length ++ (part0 ++ rest) = X at *
  rw [frameTag_eq] at f0
  have htag : (16 + part0.length % 134217728 * 32) % 16777216 = 16 + part0.length * 32 := by omega
  rw [htag] at f0
  unfold le24 at f0
  unfold le16 at f6 f8
  unfold parseFrameTag
  simp only [toBA_get, toBA_size]
  have hT : byteAt X 0 + byteAt X 1 * 256 + byteAt X 2 * 65536 = 16 + part0.length * 32 := f0
  have hW : byteAt X 6 + byteAt X 7 * 256 = w := by
    have : byteAt X 6 + byteAt X 7 * 256 = w % 16384 := f6
    omega
  have hH : byteAt X 8 + byteAt X 9 * 256 = h := by
    have : byteAt X 8 + byteAt X 9 * 256 = h % 16384 := f8
    omega
  rw [hT, hW, hH, f3, f4, f5]
  simp only [and_1, and_7, and_16383, shr_1, shr_4, shr_5, shr_14]
  have a1 : (16 + part0.length * 32) % 2 = 0 := by omega
  have a2 : (16 + part0.length * 32) / 2 % 8 = 0 := by omega
  have a3 : (16 + part0.length * 32) / 16 % 2 = 1 := by omega
  have a4 : (16 + part0.length * 32) / 32 = part0.length := by omega
  have a5 : w % 16384 = w := by omega
  have a6 : h % 16384 = h := by omega
  have a7 : w / 16384 = 0 := by omega
  have a8 : h / 16384 = 0 := by omega
  rw [a1, a2, a3, a4, a5, a6, a7, a8, if_neg (by omega), if_neg (by simp), if_neg (by omega),
    if_neg (by simp), if_neg (by omega), if_neg (by simp), if_neg (by omega), if_neg (by omega)]
  simp
end Webp.Impl.Writer
