import Webp.Proofs.C01FullMeta
/-
  C01, stages 1–2: the main image with its meta prefix, and whole streams.

    `mainBody_roundtrip`        meta bit [+ bits + entropy sub-image] + all groups + pixel data
                                ↔ spec `readMetaPrefix` + `decodePixels`
    `stream_roundtrip_meta_bits/_bytes/_decode`   the capstone for `encodeStreamMeta`
    `toMeta_*`                  the single-histogram capstone is the special case `groups = [g]`
-/
namespace Webp.Proofs.C01FullStream
open Webp.Go (Res)
open Webp.Spec.VP8L
open Webp.Impl.VP8LEntropy
open Webp.Proofs.VP8LEntropyBits Webp.Proofs.VP8LEntropyRev Webp.Proofs.VP8LEntropyCanon
open Webp.Proofs.VP8LEntropyPrefix Webp.Proofs.VP8LEntropyCodeLengths Webp.Proofs.VP8LEntropyTokens
open Webp.Proofs.VP8LEntropyStream Webp.Proofs.C01FullMeta

/-- the group index the decoder derives from a pixel of the entropy image (`(px >> 8) & 0xffff`) -/
def metaIndexOf (px : UInt32) : Nat := ((px >>> 8) &&& 0xffff).toNat

/-- the pixels the main plan's tokens produce -/
def planPixelsMain (cb : Nat) (p : MainPlan) : Array UInt32 := planPixels cb p.asImage

/-- **validity of the main image plan** -/
structure MainValid (cb : Nat) (p : MainPlan) : Prop where
  width_pos : 0 < p.width
  cache : cb = 0 ∨ (1 ≤ cb ∧ cb ≤ 11)
  groups_pos : 0 < p.groups.length
  groups : ∀ g ∈ p.groups, GroupValid cb g
  /-- with several histograms: the bits field, the entropy sub-image (itself a valid plan without
      cache), `symbols` is what the decoder derives from it, and the decoder's group count
      `max + 1` is the number of groups the encoder writes -/
  entropy : p.groups.length > 1 →
    2 ≤ p.histoBits ∧ p.histoBits ≤ 9 ∧
    p.entropy.width = subSampleSize p.width p.histoBits ∧
    p.entropy.height = subSampleSize p.height p.histoBits ∧
    ImageValid 0 p.entropy ∧
    p.symbols = (planPixels 0 p.entropy).map metaIndexOf ∧
    p.groups.length = p.symbols.foldl max 0 + 1
  /-- every token can be written with the trees of the histogram at its start position -/
  tokens : TokensValidFrom p 0 (planTokens p.asImage)
  /-- the tokens produce exactly `width * height` pixels -/
  exec : refDecode listSource (fun _ => 0) p.width p.height cb (planTokens p.asImage) =
    .ok (planPixelsMain cb p, [])

/-! ### arithmetic of the group count -/

theorem le_foldl_max (l : List Nat) : ∀ (init : Nat), init ≤ l.foldl max init ∧ ∀ x ∈ l, x ≤ l.foldl max init := by
  induction l with
  | nil => intro init; exact ⟨Nat.le_refl _, fun x hx => by cases hx⟩
  | cons a l ih =>
    intro init
    obtain ⟨h1, h2⟩ := ih (max init a)
    simp only [List.foldl_cons]
    refine ⟨by omega, fun x hx => ?_⟩
    rcases List.mem_cons.mp hx with rfl | hx
    · omega
    · exact h2 x hx

theorem getD_le_foldl_max (a : Array Nat) (i : Nat) : a.getD i 0 ≤ a.foldl max 0 := by
  rw [← Array.foldl_toList]
  by_cases hi : i < a.size
  · rw [getD_eq_getElem a i hi]
    exact (le_foldl_max a.toList 0).2 _ (by simp)
  · simp only [Array.getD_eq_getD_getElem?]
    rw [Array.getElem?_eq_none (by omega)]
    exact Nat.zero_le _

theorem refs_as_tokens (w : Nat) (refs : List PixOrCopy) :
    locality2D w refs = (refs.map refToken).map (tokenRef' w) := by
  rw [locality2D_eq, List.map_map]
  apply List.map_congr_left
  intro v _
  simp [tokenRef']

/-! ### the main image -/

/-- the parameters `readMetaPrefix` returns for a plan with several histograms -/
def epMeta (p : MainPlan) (cb : Nat) (qs : List Group) : EntropyParams :=
  { width := p.width, height := p.height, cacheBits := cb, prefixBits := p.histoBits, entropy := p.symbols,
    groups := #[] ++ qs.toArray }

/-- meta prefix, codes of all groups and pixel data of a valid main plan are read back by the
    specification's `readMetaPrefix` + `decodePixels` -/
theorem mainBody_roundtrip (cb : Nat) (p : MainPlan) (hv : MainValid cb p) (br : BitReader)
    (rest : List Bool) (hb : restBits br = callsBits (encodeMainBody p) ++ rest) :
    ∃ ep br1 br', readMetaPrefix p.width p.height cb br = .ok (ep, br1) ∧
      decodePixels ep br1 = .ok (planPixelsMain cb p, br') ∧
      ep.width = p.width ∧ ep.height = p.height ∧ ep.cacheBits = cb ∧
      restBits br' = rest ∧ br'.data = br.data := by
  obtain ⟨hw, hcb, hgp, hgv, hent, htoks, hexec⟩ := hv
  have hlens : ∀ g ∈ p.groups, g.lens5.length = 5 := fun g hg => (hgv g hg).lens5_len
  unfold encodeMainBody at hb
  rw [refs_as_tokens] at hb
  -- common tail: given the decoded parameters, run the pixel loop
  have tail : ∀ (ep : EntropyParams) (qs : List Group) (br1 : BitReader), Selects p ep qs →
      ep.height = p.height → ep.cacheBits = cb →
      restBits br1 = callsBits (storeImageData ((p.refs.map refToken).map (tokenRef' p.width)) p.symbols
        (p.groups.map groupTrees).toArray p.width p.histoBits) ++ rest →
      ∃ br', decodePixels ep br1 = .ok (planPixelsMain cb p, br') ∧ restBits br' = rest ∧ br'.data = br1.data := by
    intro ep qs br1 hs hh hc hb1
    rw [VP8LEntropyLoop.refDecode_spec]
    unfold refDecode at hexec ⊢
    rw [hs.width, hh, hc]
    exact refLoop_tokens_groups p hw ep qs hs _ cb rest _ _ (planTokens p.asImage) #[] (cacheNew cb) br1 0 0
      (by simp) hw htoks hb1 hexec
  by_cases hm : p.groups.length > 1
  · -- several histograms
    obtain ⟨h2, h9, hew, heh, hev, hsym, hcount⟩ := hent hm
    rw [if_pos hm] at hb
    simp only [List.cons_append, VP8LEntropyCodeLengths.callsBits_cons, VP8LEntropyCodeLengths.callsBits_append,
      List.append_assoc] at hb
    obtain ⟨r1, b1⟩ := readBits_bitsLE (by omega) hb
    obtain ⟨r2, b2⟩ := readBits_bitsLE (show p.histoBits - 2 < 2 ^ 3 by omega) b1
    rw [encodeSubImage_eq] at b2
    obtain ⟨br3, r3, b3, d3⟩ := entropyImage_roundtrip 0 p.entropy hev _ _ b2
    obtain ⟨qs, br4, r4, hrel, b4, d4⟩ := groups_roundtrip cb hcb _ p.groups #[] br3 hgv b3
    have hbits : p.histoBits - 2 + 2 = p.histoBits := by omega
    have hsel : Selects p (epMeta p cb qs) qs := by
      refine ⟨rfl, by simp [epMeta], hrel, hlens, fun pos => ?_⟩
      have e1 : groupIndexAt (epMeta p cb qs) pos = p.histoIdxAt pos := by
        unfold groupIndexAt MainPlan.histoIdxAt epMeta
        simp only
        rw [if_neg (by omega), if_pos ⟨hm, by omega⟩]
      refine ⟨e1, ?_⟩
      unfold MainPlan.histoIdxAt
      rw [if_pos ⟨hm, by omega⟩, hcount]
      exact Nat.lt_succ_of_le (getD_le_foldl_max _ _)
    obtain ⟨br', r5, b5, d5⟩ := tail _ qs br4 hsel rfl rfl b4
    refine ⟨_, br4, br', ?_, r5, rfl, rfl, rfl, b5, by rw [d5, d4, d3]; rfl⟩
    unfold readMetaPrefix
    rw [r1]
    simp only [Webp.Go.Res.bind_ok, if_true]
    rw [r2]
    simp only [Webp.Go.Res.bind_ok]
    rw [hbits, ← hew, ← heh, r3]
    simp only [Webp.Go.Res.bind_ok, Array.emptyWithCapacity_eq]
    have hm' : (planPixels 0 p.entropy).map (fun (px : UInt32) => ((px >>> 8) &&& 0xffff).toNat) = p.symbols := by
      rw [hsym]; rfl
    rw [hm', ← hcount, r4]
    rfl
  · -- a single histogram
    rw [if_neg hm] at hb
    obtain ⟨g, hg⟩ : ∃ g, p.groups = [g] := by
      match hgl : p.groups with
      | [] => rw [hgl] at hgp; simp at hgp
      | [g] => exact ⟨g, rfl⟩
      | _ :: _ :: _ => rw [hgl] at hm; simp at hm
    have hb' := hb
    rw [hg] at hb'
    simp only [List.flatMap_cons, List.flatMap_nil, List.append_nil, VP8LEntropyCodeLengths.callsBits_cons,
      callsBits_nil, VP8LEntropyCodeLengths.callsBits_append, List.append_assoc, List.nil_append] at hb'
    obtain ⟨r1, b1⟩ := readBits_bitsLE (by omega) hb'
    obtain ⟨q, br2, r2, hq, b2, d2⟩ := oneGroup_roundtrip cb hcb g (hgv g (by rw [hg]; exact List.mem_cons_self)) _ _ b1
    have hsel : Selects p { width := p.width, height := p.height, cacheBits := cb, groups := #[q] } [q] := by
      refine ⟨rfl, rfl, by rw [hg]; exact ⟨hq, trivial⟩, hlens, fun pos => ?_⟩
      have e0 : p.histoIdxAt pos = 0 := by
        unfold MainPlan.histoIdxAt
        rw [if_neg (fun h => hm h.1)]
      rw [e0]
      exact ⟨rfl, hgp⟩
    rw [← hg] at b2
    obtain ⟨br', r5, b5, d5⟩ := tail _ [q] br2 hsel rfl rfl b2
    refine ⟨_, br2, br', ?_, r5, rfl, rfl, rfl, b5, by rw [d5, d2]; rfl⟩
    unfold readMetaPrefix
    rw [r1]
    simp only [Webp.Go.Res.bind_ok]
    rw [if_neg (by omega), r2]
    rfl

/-! ### every `WriteBits` call of the main body is well formed -/

theorem storeGroup_ok (cb : Nat) (hcb : cb = 0 ∨ (1 ≤ cb ∧ cb ≤ 11)) (g : GroupPlan) (hv : GroupValid cb g) :
    CallsOK (storeGroup g) := by
  obtain ⟨l5, c5, vecs⟩ := hv
  obtain ⟨a, b, c, d, e, hl⟩ := list5 _ l5
  obtain ⟨ca, cb', cc, cd, ce, hc⟩ := list5 _ c5
  have v0 := vecs 0 (by omega)
  have v1 := vecs 1 (by omega)
  have v2 := vecs 2 (by omega)
  have v3 := vecs 3 (by omega)
  have v4 := vecs 4 (by omega)
  unfold storeGroup
  rw [hl, hc]
  rw [hl, hc] at v0 v1 v2 v3 v4
  simp only [List.getD_cons_zero, List.getD_cons_succ] at v0 v1 v2 v3 v4
  obtain ⟨gp, gl⟩ := greenAlphabetSize_bounds cb hcb
  have one : ∀ {n lens cl}, VecValid n lens cl → n ≤ 65539 → CallsOK (storeHuffmanCode lens cl) := by
    intro n lens cl hv hn
    obtain ⟨hsz, h15, _, hfull⟩ := hv
    exact storeHuffmanCode_ok lens cl h15 (by omega) (fun h => (hfull h).2.1)
  simp only [List.zip_cons_cons, List.zip_nil_right, List.flatMap_cons, List.flatMap_nil, List.append_nil]
  have k256 : (256 : Nat) ≤ 65539 := by omega
  have k40 : numDistanceCodes ≤ 65539 := by decide
  exact (one v0 gl).append ((one v1 k256).append ((one v2 k256).append ((one v3 k256).append (one v4 k40))))

theorem histoIdxAt_lt (cb : Nat) (p : MainPlan) (hv : MainValid cb p) (pos : Nat) :
    p.histoIdxAt pos < p.groups.length := by
  unfold MainPlan.histoIdxAt
  by_cases hm : p.groups.length > 1
  · obtain ⟨h2, _, _, _, _, _, hcount⟩ := hv.entropy hm
    rw [if_pos ⟨hm, by omega⟩, hcount]
    exact Nat.lt_succ_of_le (getD_le_foldl_max _ _)
  · rw [if_neg (fun h => hm h.1)]
    exact hv.groups_pos

theorem lensAt_le15 (cb : Nat) (p : MainPlan) (hv : MainValid cb p) (pos i : Nat) :
    ∀ x ∈ lensAt p pos i, x ≤ 15 := by
  have hlt := histoIdxAt_lt cb p hv pos
  have hmem : p.groups.getD (p.histoIdxAt pos) default ∈ p.groups := by
    rw [List.getD_eq_getElem?_getD, List.getElem?_eq_getElem hlt]; exact List.getElem_mem hlt
  have hg := hv.groups _ hmem
  unfold lensAt GroupPlan.l
  by_cases hi : i < 5
  · exact (hg.vecs i hi).2.1
  · intro x hx
    rw [List.getD_eq_getElem?_getD, List.getElem?_eq_none (by rw [hg.lens5_len]; omega)] at hx
    simp at hx

theorem mainBody_ok (cb : Nat) (p : MainPlan) (hv : MainValid cb p) : CallsOK (encodeMainBody p) := by
  unfold encodeMainBody
  rw [refs_as_tokens]
  refine (CallsOK.append ?_ ?_).append ?_
  · by_cases hm : p.groups.length > 1
    · obtain ⟨h2, h9, _, _, hev, _, _⟩ := hv.entropy hm
      rw [if_pos hm]
      rw [encodeSubImage_eq]
      exact CallsOK.cons ⟨by omega, by omega⟩ (CallsOK.cons ⟨by omega, by omega⟩ (entropyImage_ok 0 _ hev))
    · rw [if_neg hm]
      exact CallsOK.cons ⟨by omega, by omega⟩ CallsOK.nil
  · exact CallsOK.flatMap _ _ (fun g hg => storeGroup_ok cb hv.cache g (hv.groups g hg))
  · exact storeImageDataLoop_ok p hv.width_pos (fun g hg => (hv.groups g hg).lens5_len)
      (lensAt_le15 cb p hv) (histoIdxAt_lt cb p hv) _ 0 0 0 (by simp) hv.width_pos hv.tokens

/-! ### the whole stream -/

/-- validity of a stream plan: any list of transforms of pairwise distinct kinds, every sub-image a
    valid plan, the main image with one or several histograms -/
structure StreamValidMeta (sp : StreamPlanMeta) : Prop where
  width : 1 ≤ sp.width ∧ sp.width ≤ 16384
  height : 1 ≤ sp.height ∧ sp.height ≤ 16384
  kinds : (sp.transforms.map xfKind).Pairwise (· ≠ ·)
  xfs : xfsValid sp.height sp.width sp.transforms
  main_width : sp.main.width = xfsWidth sp.width sp.transforms
  main_height : sp.main.height = sp.height
  main : MainValid sp.cacheBits sp.main

/-- the decoder's view of the plan's transforms -/
def planTransformsMeta (sp : StreamPlanMeta) : Array (Transform × Nat) :=
  (xfsDecoded sp.width sp.transforms).toArray

theorem stream_roundtrip_meta_bits (sp : StreamPlanMeta) (hv : StreamValidMeta sp) (data : ByteArray)
    (rest : List Bool) (hb : restBits { data := data } = callsBits (encodeStreamMeta sp) ++ rest) :
    ∃ info br', decodeStream data = .ok (info, planPixelsMain sp.cacheBits sp.main, br') ∧
      info.header = { width := sp.width, height := sp.height, hasAlpha := sp.hasAlpha } ∧
      info.transforms = planTransformsMeta sp ∧
      restBits br' = rest ∧ br'.data = data := by
  obtain ⟨hw, hh, hk, hx, hmw, hmh, hm⟩ := hv
  unfold encodeStreamMeta at hb
  simp only [List.append_assoc, VP8LEntropyCodeLengths.callsBits_append] at hb
  obtain ⟨br1, r1, b1, d1⟩ := header_roundtrip data sp.width sp.height sp.hasAlpha hw hh _ hb
  rw [← List.append_assoc, ← VP8LEntropyCodeLengths.callsBits_append] at b1
  have hlen := transforms_length_le sp.transforms hk
  obtain ⟨br2, r2, b2, d2⟩ := readTransforms_roundtrip sp.height _ sp.transforms 5 sp.width #[] br1
    (by omega) hx hk (fun q hq => by simp at hq) b1
  obtain ⟨br3, r3, b3, d3⟩ := colorCacheInfo_roundtrip sp.cacheBits hm.cache br2 _ b2
  obtain ⟨ep, br4, br5, r4, r5, _, _, _, b5, d5⟩ := mainBody_roundtrip sp.cacheBits sp.main hm br3 rest b3
  refine ⟨{ header := { width := sp.width, height := sp.height, hasAlpha := sp.hasAlpha },
            transforms := planTransformsMeta sp, params := ep },
    br5, ?_, rfl, rfl, b5, by rw [d5, d3, d2, d1]⟩
  unfold decodeStream
  rw [r1]
  simp only [Webp.Go.Res.bind_ok, Array.emptyWithCapacity_eq]
  rw [r2]
  simp only [Webp.Go.Res.bind_ok]
  rw [r3]
  simp only [Webp.Go.Res.bind_ok]
  rw [← hmw, ← hmh, r4]
  simp only [Webp.Go.Res.bind_ok]
  rw [r5]
  simp only [Webp.Go.Res.bind_ok, Webp.Go.Res.pure_eq, planTransformsMeta, Array.empty_append]

theorem encodeStreamMeta_ok (sp : StreamPlanMeta) (hv : StreamValidMeta sp) : CallsOK (encodeStreamMeta sp) := by
  obtain ⟨hw, hh, hk, hx, hmw, hmh, hm⟩ := hv
  unfold encodeStreamMeta
  have one : CallsOK [((0 : Nat), 1)] := CallsOK.cons ⟨by omega, by omega⟩ CallsOK.nil
  refine ((((?_ : CallsOK _).append (transforms_ok _ _ _ hx)).append one).append
    (colorCacheInfo_ok _ hm.cache)).append (mainBody_ok _ _ hm)
  exact CallsOK.cons ⟨by omega, by omega⟩ (CallsOK.cons ⟨by omega, by omega⟩ (CallsOK.cons ⟨by omega, by omega⟩
    (CallsOK.cons ⟨by omega, by cases sp.hasAlpha <;> decide⟩ (CallsOK.cons ⟨by omega, by omega⟩ CallsOK.nil))))

/-- **Stage 1 capstone**: the bytes the bit writer produces for a valid plan — with or without a meta
    prefix image — are parsed by the SPECIFICATION `decodeStream` into the plan's transforms and the
    pixels the plan's tokens produce; only the zero padding of `Finish` is left unread. -/
theorem stream_roundtrip_meta_stream (sp : StreamPlanMeta) (hv : StreamValidMeta sp) :
    ∃ info br' pad, decodeStream (streamBytesMeta sp) = .ok (info, planPixelsMain sp.cacheBits sp.main, br') ∧
      info.header = { width := sp.width, height := sp.height, hasAlpha := sp.hasAlpha } ∧
      info.transforms = planTransformsMeta sp ∧
      pad < 8 ∧ restBits br' = List.replicate pad false ∧ br'.data = streamBytesMeta sp := by
  obtain ⟨pad, hp, hb⟩ := restBits_bytes _ (encodeStreamMeta_ok sp hv)
  obtain ⟨info, br', h1, h2, h3, h8, h9⟩ := stream_roundtrip_meta_bits sp hv (streamBytesMeta sp) _ hb
  exact ⟨info, br', pad, h1, h2, h3, hp, h8, h9⟩

theorem stream_roundtrip_meta_decode (sp : StreamPlanMeta) (hv : StreamValidMeta sp) :
    decode (streamBytesMeta sp) = .ok
      { width := sp.width, height := sp.height, hasAlpha := sp.hasAlpha,
        pixels := applyInverseTransforms sp.height (planTransformsMeta sp)
          (planPixelsMain sp.cacheBits sp.main) } := by
  obtain ⟨info, br', pad, h1, h2, h3, _⟩ := stream_roundtrip_meta_stream sp hv
  unfold decode
  rw [h1]
  simp only [Webp.Go.Res.bind_ok, Webp.Go.Res.pure_eq, h2, h3]

/-! ### the single-histogram emitter is the special case `groups = [g]` -/

theorem toMeta_calls (sp : StreamPlan) : encodeStreamMeta sp.toMeta = encodeStream sp := by
  unfold encodeStreamMeta encodeStream StreamPlan.toMeta encodeMainBody ImagePlan.toMain encodeImageBody
    storeGroup groupTrees
  simp [List.append_assoc]

theorem toMeta_bytes (sp : StreamPlan) : streamBytesMeta sp.toMeta = streamBytes sp := by
  unfold streamBytesMeta streamBytes
  rw [toMeta_calls]

end Webp.Proofs.C01FullStream
