import Webp.Spec.VP8.Bool
import Webp.Proofs.BoolReader
/-
  The RFC-6386-style reference decoder `Webp.Spec.VP8.BoolDec` (two-byte window, one shift per
  round, a byte enters every 8 shifts) refines the ideal decoder, as long as the ideal decoder keeps
  8 units of exponent (true for everything `Finish` wrote: it pads at least 8 zero bits).

  `SInv F d D e`: with `u = 8·(len F − pos)` bits not yet brought in and `c = bitCount`
      value = (D / 2^u) · 2^c,   D % 2^u = beNum (F.drop pos),   e + c = u + 8
-/
namespace Webp.Proofs.BoolSpecDec
open Webp.Go (Bytes)
open Webp.Impl.BoolCoder (beNum)
open Webp.Spec.VP8 (BoolDec)
open Webp.Spec.VP8.BoolIdeal
open Webp.Proofs.BoolIdeal
open Webp.Proofs.BoolWriter (beNum_append beNum_single beNum_lt pow256 beNum_nil)
open Webp.Proofs.BoolReader (split_load or_eq_add)

/-- decode one bit per probability with the reference decoder -/
def specBitsSt (d : BoolDec) : List Nat → List Bool × BoolDec
  | [] => ([], d)
  | p :: ps => ((d.readBool p).1 :: (specBitsSt (d.readBool p).2 ps).1, (specBitsSt (d.readBool p).2 ps).2)

def specBits (d : BoolDec) (ps : List Nat) : List Bool := (specBitsSt d ps).1

/-- the reference decoder over a whole byte string -/
def specInit (F : Bytes) : BoolDec := BoolDec.init (ByteArray.mk F.toArray) 0 F.length

theorem get!_mk (F : Bytes) (i : Nat) : (ByteArray.mk F.toArray).get! i = F.getD i 0 := by
  show F.toArray[i]! = F.getD i 0
  simp [List.getD_eq_getElem?_getD]
  rfl

structure SInv (F : Bytes) (d : BoolDec) (D e : Nat) : Prop where
  hdata : d.data = ByteArray.mk F.toArray
  hstart : d.start = 0
  hstop : d.stop = F.length
  hpos : d.pos ≤ F.length
  hpos2 : 2 ≤ d.pos
  hc : d.bitCount ≤ 7
  hval : d.value = D / 2 ^ (8 * (F.length - d.pos)) * 2 ^ d.bitCount
  hmod : D % 2 ^ (8 * (F.length - d.pos)) = beNum (F.drop d.pos)
  he : e + d.bitCount = 8 * (F.length - d.pos) + 8
  hover : d.over = false

/-- one round of `normalize` -/
def round (d : BoolDec) : BoolDec :=
  if d.bitCount = 7 then
    { d with value := ((d.value <<< 1) &&& 0xffff) ||| d.byteAt d.pos, range := d.range <<< 1, bitCount := 0,
             pos := d.pos + 1 }
  else { d with value := (d.value <<< 1) &&& 0xffff, range := d.range <<< 1, bitCount := d.bitCount + 1 }

theorem normalize_succ (fuel : Nat) (d : BoolDec) :
    BoolDec.normalize (fuel + 1) d = if d.range ≥ 128 then d else BoolDec.normalize fuel (round d) := by
  unfold round
  rw [BoolDec.normalize]
  split_ifs <;> rfl

theorem round_inv {F : Bytes} {d : BoolDec} {D e : Nat} (h : SInv F d D e) (hr : d.range < 128)
    (hD : D < d.range * 2 ^ e) (he9 : 9 ≤ e) :
    SInv F (round d) D (e - 1) ∧ (round d).range = d.range * 2 := by
  set u := 8 * (F.length - d.pos) with hu
  have he := h.he
  have hc := h.hc
  -- the window has its top bit clear
  have hX : D / 2 ^ u * 2 ^ d.bitCount < 2 ^ 15 := by
    have h1 : D < 128 * 2 ^ e := lt_of_lt_of_le hD (Nat.mul_le_mul_right _ (by omega))
    have h2 : D / 2 ^ u < 2 ^ (15 - d.bitCount) := by
      apply Nat.div_lt_of_lt_mul
      have e1 : 2 ^ u * 2 ^ (15 - d.bitCount) = 128 * 2 ^ e := by
        have : (128 : Nat) = 2 ^ 7 := by norm_num
        rw [this, ← pow_add, ← pow_add]; congr 1; omega
      rw [e1]; exact h1
    calc D / 2 ^ u * 2 ^ d.bitCount < 2 ^ (15 - d.bitCount) * 2 ^ d.bitCount :=
          Nat.mul_lt_mul_of_pos_right h2 (Nat.two_pow_pos _)
      _ = 2 ^ 15 := by rw [← pow_add]; congr 1; omega
  have hshl : (d.value <<< 1) &&& 0xffff = d.value * 2 := by
    rw [Nat.shiftLeft_eq, pow_one]
    have : (0xffff : Nat) = 2 ^ 16 - 1 := by norm_num
    rw [this, Nat.and_two_pow_sub_one_eq_mod, Nat.mod_eq_of_lt]
    rw [h.hval, ← hu]; have : (2:Nat) ^ 16 = 2 * 2 ^ 15 := by norm_num
    omega
  have hrange : d.range <<< 1 = d.range * 2 := by rw [Nat.shiftLeft_eq, pow_one]
  unfold round
  by_cases h7 : d.bitCount = 7
  · simp only [h7, if_true, hshl, hrange]
    have hu8 : 8 ≤ u := by omega
    have hlt : d.pos < F.length := by omega
    have hbyte : d.byteAt d.pos = beNum ((F.drop d.pos).take 1) := by
      unfold BoolDec.byteAt
      rw [h.hstop, if_pos hlt, h.hdata, get!_mk]
      have e2 : (F.drop d.pos).take 1 = [F[d.pos]] := by rw [List.drop_eq_getElem_cons hlt]; rfl
      rw [e2, beNum_single]
      simp [hlt]
    set u' := 8 * (F.length - (d.pos + 1)) with hu'
    have huu : u = 8 + u' := by omega
    set A := beNum ((F.drop d.pos).take 1) with hA
    have hAlt : A < 2 ^ 8 := by
      have := beNum_lt ((F.drop d.pos).take 1)
      have hl : ((F.drop d.pos).take 1).length = 1 := by rw [List.length_take, List.length_drop]; omega
      rw [hl] at this; simpa using this
    have hB : beNum (F.drop (d.pos + 1)) < 2 ^ u' := by
      have := beNum_lt (F.drop (d.pos + 1))
      rwa [pow256, List.length_drop] at this
    have hsplit : D % 2 ^ (8 + u') = A * 2 ^ u' + beNum (F.drop (d.pos + 1)) := by
      rw [← huu, h.hmod]
      have e : F.drop d.pos = (F.drop d.pos).take 1 ++ F.drop (d.pos + 1) := by
        rw [← List.drop_drop]; exact (List.take_append_drop 1 _).symm
      conv_lhs => rw [e]
      rw [beNum_append, pow256, List.length_drop]
    obtain ⟨hq, hm⟩ := split_load hB hsplit
    refine ⟨⟨h.hdata, h.hstart, h.hstop, by show d.pos + 1 ≤ F.length; omega, by show 2 ≤ d.pos + 1; have := h.hpos2; omega,
      by show (0 : Nat) ≤ 7; omega, ?_, ?_, ?_, h.hover⟩, trivial⟩
    · show d.value * 2 ||| d.byteAt d.pos = D / 2 ^ (8 * (F.length - (d.pos + 1))) * 2 ^ 0
      rw [hbyte, ← hu', hq, ← huu, h.hval, h7, pow_zero, Nat.mul_one, Nat.or_comm]
      have e3 : D / 2 ^ u * 2 ^ 7 * 2 = D / 2 ^ u * 2 ^ 8 := by ring
      rw [e3, or_eq_add hAlt]
    · show D % 2 ^ (8 * (F.length - (d.pos + 1))) = beNum (F.drop (d.pos + 1))
      rw [← hu']; exact hm
    · show e - 1 + 0 = 8 * (F.length - (d.pos + 1)) + 8
      omega
  · simp only [h7, if_false, hshl, hrange]
    refine ⟨⟨h.hdata, h.hstart, h.hstop, h.hpos, h.hpos2, by show d.bitCount + 1 ≤ 7; omega, ?_, h.hmod, ?_, h.hover⟩, trivial⟩
    · show d.value * 2 = D / 2 ^ u * 2 ^ (d.bitCount + 1)
      rw [h.hval, pow_succ]; ring
    · show e - 1 + (d.bitCount + 1) = u + 8
      omega

theorem normShift_double : ∀ r, r < 128 → 1 ≤ r → normShift r = normShift (r * 2) + 1 := by decide

/-- `normalize` performs exactly `normShift range` rounds -/
theorem normalize_inv (fuel : Nat) {F : Bytes} {d : BoolDec} {D e : Nat} (h : SInv F d D e)
    (hr1 : 1 ≤ d.range) (hr : d.range ≤ 255) (hD : D < d.range * 2 ^ e)
    (hfuel : normShift d.range ≤ fuel) (he : normShift d.range + 8 ≤ e) :
    SInv F (BoolDec.normalize fuel d) D (e - normShift d.range) ∧
      (BoolDec.normalize fuel d).range = d.range * 2 ^ normShift d.range := by
  induction fuel generalizing d e with
  | zero =>
    have hz : normShift d.range = 0 := by omega
    rw [hz]; exact ⟨h, by simp [BoolDec.normalize]⟩
  | succ fuel ih =>
    rw [normalize_succ]
    by_cases h128 : d.range ≥ 128
    · have hz : normShift d.range = 0 := Webp.Proofs.BoolWriter.normShift_zero_of_ge h128
      simp only [h128, if_true, hz, pow_zero, Nat.mul_one, Nat.sub_zero]
      exact ⟨h, trivial⟩
    · simp only [h128, if_false]
      have hlt : d.range < 128 := by omega
      have hns := normShift_double d.range hlt hr1
      obtain ⟨hinv, hrange⟩ := round_inv h hlt hD (by omega)
      have hD' : D < (round d).range * 2 ^ (e - 1) := by
        rw [hrange, Nat.mul_assoc, ← pow_succ']
        have : e - 1 + 1 = e := by omega
        rw [this]; exact hD
      have := ih hinv (by rw [hrange]; omega) (by rw [hrange]; omega) hD' (by rw [hrange]; omega) (by rw [hrange]; omega)
      rw [hrange] at this
      obtain ⟨a, b⟩ := this
      refine ⟨?_, ?_⟩
      · have e1 : e - 1 - normShift (d.range * 2) = e - normShift d.range := by omega
        rw [← e1]; exact a
      · rw [b, hns, pow_succ]; ring

/-- **One `readBool` of the reference decoder refines one ideal decoder step.** -/
theorem readBool_refines {F : Bytes} {d : BoolDec} {di : Dec} (h : SInv F d di.val di.e)
    (hrange : d.range = di.range) (hd : DInv di) {p : Nat} (hp : p ≤ 255) (hsh : shiftOf di p + 8 ≤ di.e) :
    (d.readBool p).1 = (di.get p).1 ∧ SInv F (d.readBool p).2 (di.get p).2.val (di.get p).2.e ∧
      (d.readBool p).2.range = (di.get p).2.range := by
  obtain ⟨hd1, hd2, hd3⟩ := hd
  set u := 8 * (F.length - d.pos) with hu
  have he := h.he
  have hc := h.hc
  have hsplit_lt := split_lt (r := di.range) (p := p) (by omega) hp
  have hsplit_pos := split_pos di.range p
  have hsplit_254 := split_le_254 hd2 hp
  -- the bookkeeping of `over` does not fire and does not touch the coder state
  have hneed : ¬ d.needed > d.stop - d.start := by
    unfold BoolDec.needed
    rw [h.hstop, h.hstart]
    have := h.hpos
    split_ifs <;> omega
  set d0 : BoolDec := { d with used := true } with hd0
  have hd0inv : SInv F d0 di.val di.e :=
    ⟨h.hdata, h.hstart, h.hstop, h.hpos, h.hpos2, h.hc, h.hval, h.hmod, h.he, h.hover⟩
  have hrb : d.readBool p =
      if d0.value ≥ (1 + (((d0.range - 1) * p) >>> 8)) <<< 8 then
        (true, BoolDec.normalize 8 { d0 with range := d0.range - (1 + (((d0.range - 1) * p) >>> 8)),
                                             value := d0.value - (1 + (((d0.range - 1) * p) >>> 8)) <<< 8 })
      else (false, BoolDec.normalize 8 { d0 with range := 1 + (((d0.range - 1) * p) >>> 8) }) := by
    unfold BoolDec.readBool
    simp only [hneed, if_false]
    rfl
  rw [hrb]
  have hr0 : d0.range = di.range := hrange
  have hsp : 1 + (((d0.range - 1) * p) >>> 8) = split di.range p := by rw [hr0]; rfl
  rw [hsp]
  set sp := split di.range p with hspdef
  have hv0 : d0.value = di.val / 2 ^ u * 2 ^ d.bitCount := h.hval
  -- the decision
  have hdec : d0.value ≥ sp <<< 8 ↔ sp * 2 ^ di.e ≤ di.val := by
    rw [hv0, Nat.shiftLeft_eq, ge_iff_le]
    have e8 : (2 : Nat) ^ 8 = 2 ^ (8 - d.bitCount) * 2 ^ d.bitCount := by rw [← pow_add]; congr 1; omega
    rw [e8, ← Nat.mul_assoc, Nat.mul_le_mul_right_iff (Nat.two_pow_pos _),
      Nat.le_div_iff_mul_le (Nat.two_pow_pos u), Nat.mul_assoc, ← pow_add]
    have : 8 - d.bitCount + u = di.e := by omega
    rw [this]
  have hbitd : (di.get p).1 = decide (sp * 2 ^ di.e ≤ di.val) := rfl
  have hn7 := normShift_le
  by_cases hbit : sp * 2 ^ di.e ≤ di.val
  · have hge : d0.value ≥ sp <<< 8 := hdec.mpr hbit
    have hb1 : (di.get p).1 = true := by rw [hbitd]; simpa using hbit
    have hshift : shiftOf di p = normShift (di.range - sp) := by unfold shiftOf; rw [hb1]; rfl
    simp only [hge, if_true]
    set d1 : BoolDec := { d0 with range := d0.range - sp, value := d0.value - sp <<< 8 } with hd1def
    have hd1inv : SInv F d1 (di.val - sp * 2 ^ di.e) di.e := by
      refine ⟨h.hdata, h.hstart, h.hstop, h.hpos, h.hpos2, h.hc, ?_, ?_, h.he, h.hover⟩
      · show d0.value - sp <<< 8 = (di.val - sp * 2 ^ di.e) / 2 ^ u * 2 ^ d.bitCount
        have e8 : sp <<< 8 = sp * 2 ^ (8 - d.bitCount) * 2 ^ d.bitCount := by
          rw [Nat.shiftLeft_eq, Nat.mul_assoc, ← pow_add]; congr 2; omega
        have ee : sp * 2 ^ di.e = 2 ^ u * (sp * 2 ^ (8 - d.bitCount)) := by
          have : di.e = u + (8 - d.bitCount) := by omega
          rw [this, pow_add]; ring
        rw [hv0, e8, ← Nat.sub_mul, ee, Nat.sub_mul_div_of_le]
        rw [← ee]; exact hbit
      · show (di.val - sp * 2 ^ di.e) % 2 ^ u = beNum (F.drop d.pos)
        have ee : sp * 2 ^ di.e = 2 ^ u * (sp * 2 ^ (8 - d.bitCount)) := by
          have : di.e = u + (8 - d.bitCount) := by omega
          rw [this, pow_add]; ring
        rw [← h.hmod, ee]
        rw [ee] at hbit
        exact Nat.sub_mul_mod hbit
    have hr1 : d1.range = di.range - sp := by show d0.range - sp = _; rw [hr0]
    have hD1 : di.val - sp * 2 ^ di.e < d1.range * 2 ^ di.e := by
      rw [hr1, Nat.sub_mul]; omega
    obtain ⟨a, b⟩ := normalize_inv 8 hd1inv (by rw [hr1]; omega) (by rw [hr1]; omega) hD1
      (by rw [hr1]; have := hn7 (di.range - sp); omega) (by rw [hr1, ← hshift]; exact hsh)
    rw [hr1, ← hshift] at a b
    refine ⟨hb1.symm, ?_, ?_⟩
    · have e1 : (di.get p).2.val = di.val - sp * 2 ^ di.e := by rw [get_val, hb1]; rfl
      have e2 : (di.get p).2.e = di.e - shiftOf di p := get_e di p
      rw [e1, e2]; exact a
    · rw [b, get_range, hb1]; rfl
  · have hnge : ¬ d0.value ≥ sp <<< 8 := fun hh => hbit (hdec.mp hh)
    have hb0 : (di.get p).1 = false := by rw [hbitd]; simpa using hbit
    have hshift : shiftOf di p = normShift sp := by unfold shiftOf; rw [hb0]; rfl
    simp only [hnge, if_false]
    set d1 : BoolDec := { d0 with range := sp } with hd1def
    have hd1inv : SInv F d1 di.val di.e :=
      ⟨h.hdata, h.hstart, h.hstop, h.hpos, h.hpos2, h.hc, h.hval, h.hmod, h.he, h.hover⟩
    have hr1 : d1.range = sp := rfl
    have hD1 : di.val < d1.range * 2 ^ di.e := by rw [hr1]; omega
    obtain ⟨a, b⟩ := normalize_inv 8 hd1inv (by rw [hr1]; omega) (by rw [hr1]; omega) hD1
      (by rw [hr1]; have := hn7 sp; omega) (by rw [hr1, ← hshift]; exact hsh)
    rw [hr1, ← hshift] at a b
    refine ⟨hb0.symm, ?_, ?_⟩
    · have e1 : (di.get p).2.val = di.val := by rw [get_val, hb0]; rfl
      have e2 : (di.get p).2.e = di.e - shiftOf di p := get_e di p
      rw [e1, e2]; exact a
    · rw [b, get_range, hb0]; rfl

theorem specBits_refines {F : Bytes} {probs : List Nat} (hp : ∀ p ∈ probs, p ≤ 255)
    {d : BoolDec} {di : Dec} (h : SInv F d di.val di.e) (hrange : d.range = di.range) (hd : DInv di)
    (hok : DecOkM 8 di probs) :
    (specBitsSt d probs).1 = di.run probs ∧ (specBitsSt d probs).2.over = false := by
  induction probs generalizing d di with
  | nil => exact ⟨rfl, h.hover⟩
  | cons p ps ih =>
    obtain ⟨hsh, hok'⟩ := hok
    have hp0 := hp p (by simp)
    obtain ⟨hb, hinv, hr⟩ := readBool_refines h hrange hd hp0 hsh
    obtain ⟨ih1, ih2⟩ := ih (fun q hq => hp q (by simp [hq])) hinv hr (get_dinv hd hp0 (by omega)) hok'
    refine ⟨?_, ih2⟩
    show (d.readBool p).1 :: (specBitsSt (d.readBool p).2 ps).1 = (di.get p).1 :: (di.get p).2.run ps
    rw [hb, ih1]

/-- the invariant holds after `init` on a byte string of at least two bytes -/
theorem sinv_init (F : Bytes) (hlen : 2 ≤ F.length) :
    SInv F (specInit F) (beNum F) (8 * F.length - 8) ∧ (specInit F).range = 255 := by
  obtain ⟨a, b, rest, rfl⟩ : ∃ a b rest, F = a :: b :: rest := by
    match F, hlen with
    | a :: b :: rest, _ => exact ⟨a, b, rest, rfl⟩
  have hsz : (ByteArray.mk (a :: b :: rest).toArray).size = rest.length + 2 := by simp [ByteArray.size]
  have hmin : min (a :: b :: rest).length (ByteArray.mk (a :: b :: rest).toArray).size = rest.length + 2 := by
    rw [hsz]; simp
  have hB : beNum rest < 2 ^ (8 * rest.length) := by
    have := beNum_lt rest
    rwa [pow256] at this
  have hnum : beNum (a :: b :: rest) = (a.toNat * 256 + b.toNat) * 2 ^ (8 * rest.length) + beNum rest := by
    rw [Webp.Proofs.BoolWriter.beNum_cons, Webp.Proofs.BoolWriter.beNum_cons, List.length_cons, pow_succ, pow256]
    ring
  have hlen' : (a :: b :: rest).length = rest.length + 2 := rfl
  refine ⟨⟨rfl, rfl, ?_, ?_, ?_, ?_, ?_, ?_, ?_, rfl⟩, rfl⟩
  · exact hmin
  · show 0 + 2 ≤ (a :: b :: rest).length; omega
  · show 2 ≤ 0 + 2; omega
  · show (0 : Nat) ≤ 7; omega
  · show (if 0 < min (a :: b :: rest).length (ByteArray.mk (a :: b :: rest).toArray).size
          then ((ByteArray.mk (a :: b :: rest).toArray).get! 0).toNat else 0) * 256
        + (if 0 + 1 < min (a :: b :: rest).length (ByteArray.mk (a :: b :: rest).toArray).size
          then ((ByteArray.mk (a :: b :: rest).toArray).get! (0 + 1)).toNat else 0)
        = beNum (a :: b :: rest) / 2 ^ (8 * ((a :: b :: rest).length - (0 + 2))) * 2 ^ 0
    rw [hmin, if_pos (by omega), if_pos (by omega), get!_mk, get!_mk, pow_zero, Nat.mul_one, hnum, hlen']
    have e2 : rest.length + 2 - (0 + 2) = rest.length := by omega
    rw [e2, Nat.add_comm _ (beNum rest), Nat.add_mul_div_right _ _ (Nat.two_pow_pos _), Nat.div_eq_of_lt hB,
      Nat.zero_add]
    simp
  · show beNum (a :: b :: rest) % 2 ^ (8 * ((a :: b :: rest).length - (0 + 2))) = beNum ((a :: b :: rest).drop (0 + 2))
    have e2 : (a :: b :: rest).length - (0 + 2) = rest.length := by rw [hlen']; omega
    rw [e2, hnum, Nat.add_comm _ (beNum rest), Nat.add_mul_mod_self_right, Nat.mod_eq_of_lt hB]
    rfl
  · show 8 * (a :: b :: rest).length - 8 + 0 = 8 * ((a :: b :: rest).length - (0 + 2)) + 8
    rw [hlen']; omega

end Webp.Proofs.BoolSpecDec
