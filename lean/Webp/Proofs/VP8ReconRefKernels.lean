import Webp.Impl.VP8Recon
import Mathlib.Tactic.Ring
/-
  C06 helper: the pure-Go kernels (`transformOne`/`iTransformOne`, `transformAC3`, `transformUV`,
  `transformWHT` of internal/dsp/transforms.go, exact integer arithmetic) satisfy `KernelFacts`
  for every coefficient value — the witness that the hypotheses of the C06 theorems are
  satisfiable, and the instance that applies to builds without SIMD kernels.
-/
namespace Webp.Proofs.VP8ReconRefKernels
open Webp.Impl.VP8Recon

theorem mul1_zero : mul1 0 = 0 := by decide
theorem mul2_zero : mul2 0 = 0 := by decide

theorem clip8_id (v : UInt8) (x : Int) (hx : x = 0) : clip8 ((v.toNat : Int) + x) = v := by
  subst hx
  unfold clip8
  simp only [Int.add_zero]
  rw [if_neg (by omega), if_neg (by have := v.toNat_lt; omega)]
  simp

theorem cAt_eq (c : Coeffs) (k : Nat) (h : k < 16) : cAt c k = c ⟨k, h⟩ := by
  unfold cAt; simp [h]

theorem idct_zero (p : Blk4) : idctRef Coeffs.zero p = p := by
  funext o
  have ht : ∀ k, idctTmp Coeffs.zero k = 0 := by
    intro k
    have hc : ∀ j, cAt Coeffs.zero j = 0 := by intro j; unfold cAt Coeffs.zero; split <;> rfl
    unfold idctTmp
    simp only [hc, mul1_zero, mul2_zero]
    split <;> rfl
  unfold idctRef
  simp only [ht, mul1_zero, mul2_zero]
  apply clip8_id
  split <;> rfl

/-- the vertical pass on a DC-only block -/
theorem idctTmp_dc (c : Coeffs) (hz : ∀ i : Fin 16, i.val ≠ 0 → c i = 0) (k : Nat) (_hk : k < 16) :
    idctTmp c k = if k % 4 = 0 then c 0 else 0 := by
  have hc : ∀ j, j ≠ 0 → cAt c j = 0 := by
    intro j hj
    unfold cAt
    split
    · exact hz _ hj
    · rfl
  have h0 : cAt c 0 = c 0 := cAt_eq c 0 (by omega)
  unfold idctTmp
  by_cases hm : k % 4 = 0
  · simp only [hm, h0, hc (8 + 0) (by omega), hc (4 + 0) (by omega), hc (12 + 0) (by omega), mul1_zero, mul2_zero, if_true]
    split <;> omega
  · have e0 : cAt c (k % 4) = 0 := hc _ hm
    simp only [hm, e0, hc (8 + k % 4) (by omega), hc (4 + k % 4) (by omega), hc (12 + k % 4) (by omega),
      mul1_zero, mul2_zero, if_false]
    split <;> omega

theorem idct_dc (c : Coeffs) (p : Blk4) (hz : ∀ i : Fin 16, i.val ≠ 0 → c i = 0) : idctRef c p = dcAdd (c 0) p := by
  funext o
  have ht := idctTmp_dc c hz
  unfold idctRef dcAdd
  dsimp only
  have hr : o.val / 4 < 4 := by omega
  rw [ht (4 * (o.val / 4)) (by omega), ht (4 * (o.val / 4) + 2) (by omega), ht (4 * (o.val / 4) + 1) (by omega),
    ht (4 * (o.val / 4) + 3) (by omega)]
  have e0 : 4 * (o.val / 4) % 4 = 0 := by omega
  have e1 : ¬ ((4 * (o.val / 4) + 1) % 4 = 0) := by omega
  have e2 : ¬ ((4 * (o.val / 4) + 2) % 4 = 0) := by omega
  have e3 : ¬ ((4 * (o.val / 4) + 3) % 4 = 0) := by omega
  simp only [e0, e1, e2, e3, if_true, if_false, mul1_zero, mul2_zero]
  congr 2
  split <;> simp

/-- the vertical pass of the WHT on a DC-only block -/
theorem iwhtTmp_dc (c : Coeffs) (hz : ∀ i : Fin 16, i.val ≠ 0 → c i = 0) (k : Nat) (_hk : k < 16) :
    iwhtTmp c k = if k % 4 = 0 then c 0 else 0 := by
  have hc : ∀ j, j ≠ 0 → cAt c j = 0 := by
    intro j hj
    unfold cAt
    split
    · exact hz _ hj
    · rfl
  have h0 : cAt c 0 = c 0 := cAt_eq c 0 (by omega)
  unfold iwhtTmp
  by_cases hm : k % 4 = 0
  · simp only [hm, h0, hc (8 + 0) (by omega), hc (4 + 0) (by omega), hc (12 + 0) (by omega), if_true]
    split <;> omega
  · have e0 : cAt c (k % 4) = 0 := hc _ hm
    simp only [hm, e0, hc (8 + k % 4) (by omega), hc (4 + k % 4) (by omega), hc (12 + k % 4) (by omega), if_false]
    split <;> omega

theorem wht_dc (c : Coeffs) (hz : ∀ i : Fin 16, i.val ≠ 0 → c i = 0) :
    iwhtRef c = fun _ => wrap16 ((c 0 + 3) >>> 3) := by
  funext o
  have ht := iwhtTmp_dc c hz
  unfold iwhtRef
  dsimp only
  have hr : o.val / 4 < 4 := by omega
  rw [ht (4 * (o.val / 4)) (by omega), ht (4 * (o.val / 4) + 2) (by omega), ht (4 * (o.val / 4) + 1) (by omega),
    ht (4 * (o.val / 4) + 3) (by omega)]
  have e0 : 4 * (o.val / 4) % 4 = 0 := by omega
  have e1 : ¬ ((4 * (o.val / 4) + 1) % 4 = 0) := by omega
  have e2 : ¬ ((4 * (o.val / 4) + 2) % 4 = 0) := by omega
  have e3 : ¬ ((4 * (o.val / 4) + 3) % 4 = 0) := by omega
  simp only [e0, e1, e2, e3, if_true, if_false]
  split <;> simp

theorem shr_congr (a b : Int) (h : a = b) : a >>> 3 = b >>> 3 := by rw [h]

/-- the vertical pass on a block with coefficients at raster 0, 1, 4 only -/
theorem idctTmp_ac3 (c : Coeffs) (hz : ∀ i : Fin 16, i.val ≠ 0 → i.val ≠ 1 → i.val ≠ 4 → c i = 0) (k : Nat) (_hk : k < 16) :
    idctTmp c k =
      if k % 4 = 0 then
        (match k / 4 with
         | 0 => c 0 + mul1 (c 4)
         | 1 => c 0 + mul2 (c 4)
         | 2 => c 0 - mul2 (c 4)
         | _ => c 0 - mul1 (c 4))
      else if k % 4 = 1 then c 1 else 0 := by
  have hc : ∀ j, j ≠ 0 → j ≠ 1 → j ≠ 4 → cAt c j = 0 := by
    intro j h0 h1 h4
    unfold cAt
    split
    · exact hz _ h0 h1 h4
    · rfl
  have h0 : cAt c 0 = c 0 := cAt_eq c 0 (by omega)
  have h1 : cAt c 1 = c 1 := cAt_eq c 1 (by omega)
  have h4 : cAt c 4 = c 4 := cAt_eq c 4 (by omega)
  unfold idctTmp
  have hm : k % 4 = 0 ∨ k % 4 = 1 ∨ k % 4 = 2 ∨ k % 4 = 3 := by omega
  rcases hm with hm | hm | hm | hm
  · simp only [hm, h0, h4, hc (8 + 0) (by omega) (by omega) (by omega), hc (12 + 0) (by omega) (by omega) (by omega),
      mul1_zero, mul2_zero, if_true, Nat.add_zero]
    have hq : k / 4 = 0 ∨ k / 4 = 1 ∨ k / 4 = 2 ∨ k / 4 = 3 := by omega
    rcases hq with hq | hq | hq | hq <;> simp [hq]
  · simp only [hm, h1, hc (8 + 1) (by omega) (by omega) (by omega), hc (4 + 1) (by omega) (by omega) (by omega),
      hc (12 + 1) (by omega) (by omega) (by omega), mul1_zero, mul2_zero]
    split <;> simp
  · simp only [hm, hc 2 (by omega) (by omega) (by omega), hc (8 + 2) (by omega) (by omega) (by omega),
      hc (4 + 2) (by omega) (by omega) (by omega), hc (12 + 2) (by omega) (by omega) (by omega), mul1_zero, mul2_zero]
    split <;> simp
  · simp only [hm, hc 3 (by omega) (by omega) (by omega), hc (8 + 3) (by omega) (by omega) (by omega),
      hc (4 + 3) (by omega) (by omega) (by omega), hc (12 + 3) (by omega) (by omega) (by omega), mul1_zero, mul2_zero]
    split <;> simp

theorem idct_ac3 (c : Coeffs) (p : Blk4) (hz : ∀ i : Fin 16, i.val ≠ 0 → i.val ≠ 1 → i.val ≠ 4 → c i = 0) :
    ac3Ref c p = idctRef c p := by
  funext o
  have ht := idctTmp_ac3 c hz
  unfold idctRef ac3Ref
  dsimp only
  have hr : o.val / 4 < 4 := by omega
  rw [ht (4 * (o.val / 4)) (by omega), ht (4 * (o.val / 4) + 2) (by omega), ht (4 * (o.val / 4) + 1) (by omega),
    ht (4 * (o.val / 4) + 3) (by omega)]
  have e0 : 4 * (o.val / 4) % 4 = 0 := by omega
  have e0' : 4 * (o.val / 4) / 4 = o.val / 4 := by omega
  have e1 : (4 * (o.val / 4) + 1) % 4 = 1 := by omega
  have e2 : (4 * (o.val / 4) + 2) % 4 = 2 := by omega
  have e3 : (4 * (o.val / 4) + 3) % 4 = 3 := by omega
  simp only [e0, e0', e1, e2, e3, if_true, mul1_zero, mul2_zero, show ¬ ((1 : Nat) = 0) by omega,
    show ¬ ((2 : Nat) = 0) by omega, show ¬ ((3 : Nat) = 0) by omega, show ¬ ((2 : Nat) = 1) by omega,
    show ¬ ((3 : Nat) = 1) by omega, if_false]
  congr 2
  have hq : o.val / 4 = 0 ∨ o.val / 4 = 1 ∨ o.val / 4 = 2 ∨ o.val / 4 = 3 := by omega
  have hm : o.val % 4 = 0 ∨ o.val % 4 = 1 ∨ o.val % 4 = 2 ∨ o.val % 4 = 3 := by omega
  rcases hq with hq | hq | hq | hq <;> rcases hm with hm | hm | hm | hm <;> simp only [hq, hm] <;>
    (try simp) <;> (try (apply shr_congr; ring))

/-- **the pure-Go kernels satisfy every kernel fact, for all coefficient values** -/
theorem refKernels_facts (pred16 : Nat → Edge16 → Blk16) (pred8 : Nat → Edge8 → Blk8) (pred4 : Nat → Edge4 → Blk4)
    (B Bw : Int) : KernelFacts (refKernels pred16 pred8 pred4) B Bw :=
  { idct_same := fun _ _ _ => rfl
    idct_zero := idct_zero
    idct_dc := fun c p _ hz => idct_dc c p hz
    idct_ac3 := fun c p _ hz => idct_ac3 c p hz
    idct_uv := fun _ _ _ => rfl
    wht_dc := fun c _ hz => wht_dc c hz
    pred16_same := fun _ _ _ => rfl
    pred8_same := fun _ _ _ => rfl }

/-- `transformWHT` stores `int16`s -/
theorem iwhtRef_range (c : Coeffs) : Int16Range (iwhtRef c) := by
  intro o
  unfold iwhtRef
  dsimp only
  split <;> (unfold wrap16; omega)

end Webp.Proofs.VP8ReconRefKernels
