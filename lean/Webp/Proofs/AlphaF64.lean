import Webp.Proofs.AlphaQuant
import Mathlib.Algebra.Order.Field.Power
import Mathlib.Tactic.Ring
/-
  The binary64 numeric model `Num.f64` (round-to-nearest-even after every operation) satisfies
  `RndOK`: rounding is monotone and exact on the half-integers up to 1024.
-/
namespace Webp.Proofs.AlphaF64
open Webp.Impl.Alpha Webp.Proofs.AlphaQuant

theorem pow2_zpow (e : Int) : pow2 e = (2 : ℚ) ^ e := by
  unfold pow2
  split
  · rename_i h
    have : e = (e.toNat : Int) := (Int.toNat_of_nonneg h).symm
    rw [Nat.cast_pow, Nat.cast_ofNat]
    conv_rhs => rw [this]
    rw [zpow_natCast]
  · rename_i h
    have : e = -((-e).toNat : Int) := by
      rw [Int.toNat_of_nonneg (by omega)]; ring
    rw [Nat.cast_pow, Nat.cast_ofNat]
    conv_rhs => rw [this]
    rw [zpow_neg, zpow_natCast, one_div]

theorem two_zpow_pos (e : Int) : (0 : ℚ) < (2 : ℚ) ^ e := zpow_pos (by norm_num) e

theorem two_zpow_le {a b : Int} (h : a ≤ b) : (2 : ℚ) ^ a ≤ (2 : ℚ) ^ b :=
  zpow_le_zpow_right₀ (by norm_num) h

theorem two_zpow_succ (e : Int) : (2 : ℚ) ^ (e + 1) = 2 * (2 : ℚ) ^ e := by
  rw [zpow_add₀ (by norm_num : (2 : ℚ) ≠ 0), zpow_one]; ring

/-- `ilog2` is the binary exponent: `2^e ≤ a < 2^(e+1)` -/
theorem ilog2_spec (a : ℚ) (ha : 0 < a) :
    (2 : ℚ) ^ (ilog2 a) ≤ a ∧ a < (2 : ℚ) ^ (ilog2 a + 1) := by
  have hnum : 0 < a.num := Rat.num_pos.mpr ha
  have hn0 : a.num.natAbs ≠ 0 := by omega
  have hd0 : a.den ≠ 0 := a.den_nz
  have hA1 := Nat.log2_self_le hn0
  have hA2 := @Nat.lt_log2_self a.num.natAbs
  have hB1 := Nat.log2_self_le hd0
  have hB2 := @Nat.lt_log2_self a.den
  generalize hA : Nat.log2 a.num.natAbs = A at hA1 hA2
  generalize hB : Nat.log2 a.den = B at hB1 hB2
  have hdpos : (0 : ℚ) < (a.den : ℚ) := by exact_mod_cast Nat.pos_of_ne_zero hd0
  have ha_eq : a = (a.num.natAbs : ℚ) / (a.den : ℚ) := by
    have h1 : ((a.num.natAbs : Int) : ℚ) = (a.num : ℚ) := by
      rw [Int.natAbs_of_nonneg (le_of_lt hnum)]
    have : (a.num.natAbs : ℚ) = (a.num : ℚ) := by rw [← h1, Int.cast_natCast]
    rw [this, Rat.num_div_den]
  -- bounds in ℚ
  have hA1q : (2 : ℚ) ^ (A : Int) ≤ (a.num.natAbs : ℚ) := by
    rw [zpow_natCast]; exact_mod_cast hA1
  have hA2q : (a.num.natAbs : ℚ) < (2 : ℚ) ^ ((A : Int) + 1) := by
    have : ((A : Int) + 1) = ((A + 1 : Nat) : Int) := by push_cast; ring
    rw [this, zpow_natCast]; exact_mod_cast hA2
  have hB1q : (2 : ℚ) ^ (B : Int) ≤ (a.den : ℚ) := by
    rw [zpow_natCast]; exact_mod_cast hB1
  have hB2q : (a.den : ℚ) < (2 : ℚ) ^ ((B : Int) + 1) := by
    have : ((B : Int) + 1) = ((B + 1 : Nat) : Int) := by push_cast; ring
    rw [this, zpow_natCast]; exact_mod_cast hB2
  -- 2^(A-B-1) < a < 2^(A-B+1)
  have hlo : (2 : ℚ) ^ ((A : Int) - B - 1) ≤ a := by
    rw [ha_eq, le_div_iff₀ hdpos]
    have : (2 : ℚ) ^ ((A : Int) - B - 1) * (2 : ℚ) ^ ((B : Int) + 1) = (2 : ℚ) ^ (A : Int) := by
      rw [← zpow_add₀ (by norm_num : (2 : ℚ) ≠ 0)]; congr 1; ring
    calc (2 : ℚ) ^ ((A : Int) - B - 1) * (a.den : ℚ)
        ≤ (2 : ℚ) ^ ((A : Int) - B - 1) * (2 : ℚ) ^ ((B : Int) + 1) :=
          mul_le_mul_of_nonneg_left (le_of_lt hB2q) (le_of_lt (two_zpow_pos _))
      _ = (2 : ℚ) ^ (A : Int) := this
      _ ≤ _ := hA1q
  have hhi : a < (2 : ℚ) ^ ((A : Int) - B + 1) := by
    rw [ha_eq, div_lt_iff₀ hdpos]
    have : (2 : ℚ) ^ ((A : Int) - B + 1) * (2 : ℚ) ^ (B : Int) = (2 : ℚ) ^ ((A : Int) + 1) := by
      rw [← zpow_add₀ (by norm_num : (2 : ℚ) ≠ 0)]; congr 1; ring
    calc (a.num.natAbs : ℚ) < (2 : ℚ) ^ ((A : Int) + 1) := hA2q
      _ = (2 : ℚ) ^ ((A : Int) - B + 1) * (2 : ℚ) ^ (B : Int) := this.symm
      _ ≤ (2 : ℚ) ^ ((A : Int) - B + 1) * (a.den : ℚ) :=
          mul_le_mul_of_nonneg_left hB1q (le_of_lt (two_zpow_pos _))
  unfold ilog2
  simp only [hA, hB, pow2_zpow]
  split
  · rename_i hlt
    refine ⟨hlo, ?_⟩
    have : (A : Int) - B - 1 + 1 = (A : Int) - B := by ring
    rw [this]; exact hlt
  · rename_i hge
    exact ⟨not_lt.mp hge, hhi⟩

/-! ## round half to even -/

theorem rhe_def (x : ℚ) : roundHalfEven x =
    if x - ((⌊x⌋ : Int) : ℚ) < 1 / 2 then ⌊x⌋ else if 1 / 2 < x - ((⌊x⌋ : Int) : ℚ) then ⌊x⌋ + 1
    else if ⌊x⌋ % 2 = 0 then ⌊x⌋ else ⌊x⌋ + 1 := rfl

theorem rhe_cases (x : ℚ) : roundHalfEven x = ⌊x⌋ ∨ roundHalfEven x = ⌊x⌋ + 1 := by
  rw [rhe_def]
  split_ifs
  · left; rfl
  · right; rfl
  · left; rfl
  · right; rfl

theorem rhe_int (k : Int) : roundHalfEven (k : ℚ) = k := by
  rw [rhe_def, Int.floor_intCast]
  simp

theorem rhe_mono {x y : ℚ} (h : x ≤ y) : roundHalfEven x ≤ roundHalfEven y := by
  have hf : ⌊x⌋ ≤ ⌊y⌋ := Int.floor_le_floor h
  rcases lt_or_eq_of_le hf with hlt | heq
  · rcases rhe_cases x with hx | hx <;> rcases rhe_cases y with hy | hy <;> omega
  · rw [rhe_def, rhe_def, heq]
    split_ifs <;> first | omega | (exfalso; linarith)

/-- rounding never crosses an integer -/
theorem rhe_le_int {x : ℚ} {k : Int} (h : x ≤ (k : ℚ)) : roundHalfEven x ≤ k := by
  have := rhe_mono h; rwa [rhe_int] at this

theorem int_le_rhe {x : ℚ} {k : Int} (h : (k : ℚ) ≤ x) : k ≤ roundHalfEven x := by
  have := rhe_mono h; rwa [rhe_int] at this

/-! ## rounding a positive rational to 53 significant bits -/

/-- `rndF64` on positive arguments -/
def rndPos (a : ℚ) : ℚ := ((roundHalfEven (a / (2 : ℚ) ^ (ilog2 a - 52)) : Int) : ℚ) * (2 : ℚ) ^ (ilog2 a - 52)

theorem rndF64_pos (a : ℚ) (ha : 0 < a) : rndF64 a = rndPos a := by
  unfold rndF64 rndPos
  have h0 : a ≠ 0 := ne_of_gt ha
  have h1 : ¬ a < 0 := not_lt.mpr (le_of_lt ha)
  simp only [h0, h1, if_false, pow2_zpow]

theorem rndF64_neg (a : ℚ) (ha : a < 0) : rndF64 a = - rndPos (-a) := by
  unfold rndF64 rndPos
  have h0 : a ≠ 0 := ne_of_lt ha
  simp only [h0, ha, if_false, if_true, pow2_zpow]

theorem rndF64_zero : rndF64 0 = 0 := by simp [rndF64]

theorem pow_mul_u (n : Nat) (e : Int) :
    (((2 : Int) ^ n : Int) : ℚ) * (2 : ℚ) ^ (e - 52) = (2 : ℚ) ^ (e - 52 + (n : Int)) := by
  rw [Int.cast_pow, Int.cast_ofNat, ← zpow_natCast (2 : ℚ) n,
    ← zpow_add₀ (by norm_num : (2 : ℚ) ≠ 0)]
  congr 1; ring

theorem pow52_mul_u (e : Int) : (((2 : Int) ^ (52 : Nat) : Int) : ℚ) * (2 : ℚ) ^ (e - 52) = (2 : ℚ) ^ e := by
  rw [pow_mul_u]; congr 1; simp

theorem pow53_mul_u (e : Int) : (((2 : Int) ^ (53 : Nat) : Int) : ℚ) * (2 : ℚ) ^ (e - 52) = (2 : ℚ) ^ (e + 1) := by
  rw [pow_mul_u]; congr 1; push_cast; ring

/-- a positive value and its rounding lie in the same closed binade -/
theorem rndPos_bounds (a : ℚ) (ha : 0 < a) :
    (2 : ℚ) ^ (ilog2 a) ≤ rndPos a ∧ rndPos a ≤ (2 : ℚ) ^ (ilog2 a + 1) := by
  obtain ⟨h1, h2⟩ := ilog2_spec a ha
  have hu := two_zpow_pos (ilog2 a - 52)
  unfold rndPos
  constructor
  · have hk : (((2 : Int) ^ (52 : Nat) : Int) : ℚ) ≤ a / (2 : ℚ) ^ (ilog2 a - 52) := by
      rw [le_div_iff₀ hu, pow52_mul_u]; exact h1
    have hc : (((2 : Int) ^ (52 : Nat) : Int) : ℚ) ≤ ((roundHalfEven (a / (2 : ℚ) ^ (ilog2 a - 52)) : Int) : ℚ) :=
      Int.cast_le.mpr (int_le_rhe hk)
    calc (2 : ℚ) ^ (ilog2 a) = (((2 : Int) ^ (52 : Nat) : Int) : ℚ) * (2 : ℚ) ^ (ilog2 a - 52) :=
          (pow52_mul_u _).symm
      _ ≤ _ := mul_le_mul_of_nonneg_right hc (le_of_lt hu)
  · have hk : a / (2 : ℚ) ^ (ilog2 a - 52) ≤ (((2 : Int) ^ (53 : Nat) : Int) : ℚ) := by
      rw [div_le_iff₀ hu, pow53_mul_u]; exact le_of_lt h2
    have hc : ((roundHalfEven (a / (2 : ℚ) ^ (ilog2 a - 52)) : Int) : ℚ) ≤ (((2 : Int) ^ (53 : Nat) : Int) : ℚ) :=
      Int.cast_le.mpr (rhe_le_int hk)
    calc _ ≤ (((2 : Int) ^ (53 : Nat) : Int) : ℚ) * (2 : ℚ) ^ (ilog2 a - 52) :=
          mul_le_mul_of_nonneg_right hc (le_of_lt hu)
      _ = (2 : ℚ) ^ (ilog2 a + 1) := pow53_mul_u _

theorem ilog2_mono {x y : ℚ} (hx : 0 < x) (h : x ≤ y) : ilog2 x ≤ ilog2 y := by
  have hy : 0 < y := lt_of_lt_of_le hx h
  obtain ⟨h1, _⟩ := ilog2_spec x hx
  obtain ⟨_, h4⟩ := ilog2_spec y hy
  by_contra hc
  have hlt : ilog2 y + 1 ≤ ilog2 x := by omega
  have := two_zpow_le hlt
  linarith

theorem rndPos_mono {x y : ℚ} (hx : 0 < x) (h : x ≤ y) : rndPos x ≤ rndPos y := by
  have hy : 0 < y := lt_of_lt_of_le hx h
  rcases lt_or_eq_of_le (ilog2_mono hx h) with hlt | heq
  · have h1 := (rndPos_bounds x hx).2
    have h2 := (rndPos_bounds y hy).1
    have := two_zpow_le (show ilog2 x + 1 ≤ ilog2 y by omega)
    linarith
  · unfold rndPos
    rw [heq]
    have hu := two_zpow_pos (ilog2 y - 52)
    apply mul_le_mul_of_nonneg_right _ (le_of_lt hu)
    have : x / (2 : ℚ) ^ (ilog2 y - 52) ≤ y / (2 : ℚ) ^ (ilog2 y - 52) :=
      div_le_div_of_nonneg_right h (le_of_lt hu)
    exact Int.cast_le.mpr (rhe_mono this)

theorem rndPos_pos (a : ℚ) (ha : 0 < a) : 0 < rndPos a :=
  lt_of_lt_of_le (two_zpow_pos _) (rndPos_bounds a ha).1

theorem rndF64_mono (x y : ℚ) (h : x ≤ y) : rndF64 x ≤ rndF64 y := by
  rcases lt_trichotomy x 0 with hx | hx | hx
  · rcases lt_trichotomy y 0 with hy | hy | hy
    · rw [rndF64_neg x hx, rndF64_neg y hy]
      have := rndPos_mono (show 0 < -y by linarith) (show -y ≤ -x by linarith)
      linarith
    · rw [hy, rndF64_zero, rndF64_neg x hx]
      have := rndPos_pos (-x) (by linarith); linarith
    · rw [rndF64_neg x hx, rndF64_pos y hy]
      have := rndPos_pos (-x) (by linarith)
      have := rndPos_pos y hy
      linarith
  · rw [hx, rndF64_zero]
    rcases lt_or_eq_of_le (hx ▸ h) with hy | hy
    · rw [rndF64_pos y hy]; exact le_of_lt (rndPos_pos y hy)
    · rw [← hy, rndF64_zero]
  · have hy : 0 < y := lt_of_lt_of_le hx h
    rw [rndF64_pos x hx, rndF64_pos y hy]
    exact rndPos_mono hx h

/-! ## half-integers up to 1024 are exact -/

theorem rndPos_exact (a : ℚ) (m : Int) (hm : a / (2 : ℚ) ^ (ilog2 a - 52) = (m : ℚ)) :
    rndPos a = a := by
  unfold rndPos
  rw [hm, rhe_int, ← hm]
  exact div_mul_cancel₀ a (ne_of_gt (two_zpow_pos _))

theorem rndPos_half (k : Nat) (hk0 : 0 < k) (hk : k ≤ 2048) :
    rndPos ((k : ℚ) / 2) = (k : ℚ) / 2 := by
  have ha : (0 : ℚ) < (k : ℚ) / 2 := by positivity
  obtain ⟨h1, _⟩ := ilog2_spec _ ha
  generalize he : ilog2 ((k : ℚ) / 2) = e at h1
  have he10 : e ≤ 10 := by
    by_contra hc
    have h11 : (2 : ℚ) ^ (11 : Int) ≤ (2 : ℚ) ^ e := two_zpow_le (by omega)
    have hk' : (k : ℚ) ≤ 2048 := by exact_mod_cast hk
    have : (2 : ℚ) ^ (11 : Int) = 2048 := by norm_num
    linarith
  apply rndPos_exact _ ((k : Int) * (2 : Int) ^ (51 - e).toNat)
  rw [he]
  have hexp : (51 - e) = ((51 - e).toNat : Int) := (Int.toNat_of_nonneg (by omega)).symm
  have h2 : (2 : ℚ) ^ (51 - e) = (((2 : Int) ^ (51 - e).toNat : Int) : ℚ) := by
    rw [Int.cast_pow, Int.cast_ofNat, ← zpow_natCast, ← hexp]
  rw [Int.cast_mul, ← h2, Int.cast_natCast]
  have h3 : (2 : ℚ) ^ (51 - e) = (2 : ℚ) ^ (-1 : Int) / (2 : ℚ) ^ (e - 52) := by
    rw [← zpow_sub₀ (by norm_num : (2 : ℚ) ≠ 0)]; congr 1; ring
  rw [h3]
  have : (2 : ℚ) ^ (-1 : Int) = 1 / 2 := by norm_num
  rw [this]
  field_simp

theorem rndF64_half (k : Int) (h1 : -2048 ≤ k) (h2 : k ≤ 2048) :
    rndF64 ((k : ℚ) / 2) = (k : ℚ) / 2 := by
  rcases lt_trichotomy k 0 with hk | hk | hk
  · have hneg : (k : ℚ) / 2 < 0 := by
      have : (k : ℚ) < 0 := by exact_mod_cast hk
      linarith
    rw [rndF64_neg _ hneg]
    have hn : -((k : ℚ) / 2) = ((k.natAbs : Nat) : ℚ) / 2 := by
      have : ((k.natAbs : Nat) : Int) = -k := by omega
      have : ((k.natAbs : Nat) : ℚ) = -(k : ℚ) := by
        rw [← Int.cast_natCast, this, Int.cast_neg]
      rw [this]; ring
    rw [hn, rndPos_half _ (by omega) (by omega), ← hn]; ring
  · subst hk; simp [rndF64_zero]
  · have hpos : 0 < (k : ℚ) / 2 := by
      have : (0 : ℚ) < (k : ℚ) := by exact_mod_cast hk
      linarith
    rw [rndF64_pos _ hpos]
    have hn : (k : ℚ) = ((k.natAbs : Nat) : ℚ) := by
      have : ((k.natAbs : Nat) : Int) = k := by omega
      rw [← Int.cast_natCast, this]
    rw [hn, rndPos_half _ (by omega) (by omega)]

/-- **the binary64 model qualifies** for the "extremes kept" theorem -/
theorem rndOK_f64 : RndOK Num.f64 := ⟨rndF64_mono, rndF64_half⟩

end Webp.Proofs.AlphaF64
