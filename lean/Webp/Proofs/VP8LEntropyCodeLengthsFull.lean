import Webp.Proofs.VP8LEntropyCodeLengths
import Webp.Proofs.VP8LEntropyPrefixFree
/-
  `codeLengths_roundtrip` / `storeHuffmanCode_roundtrip` with the symbol-decoding hypothesis
  discharged by `prefix_roundtrip` (the code-length code is itself a canonical prefix code).
-/
namespace Webp.Proofs.VP8LEntropyCodeLengthsFull
open Webp.Spec.VP8L
open Webp.Impl.VP8LEntropy
open Webp.Proofs.VP8LEntropyBits Webp.Proofs.VP8LEntropyPrefix Webp.Proofs.VP8LEntropyCodeLengths

theorem symRoundtrip_of_buildCode {clLens : Array Nat} {clCode : Code} (h : buildCode clLens = .ok clCode) :
    SymRoundtrip clLens clCode := by
  intro s br rest hs hl hb
  exact prefix_roundtrip h s hs (by omega) br rest hb

/-- the normal (code-length coded) form of a prefix code is read back exactly -/
theorem codeLengths_roundtrip (lens clLens : Array Nat) (clCode : Code) (n : Nat)
    (hsize : lens.size = n) (hl : ∀ l ∈ lens, l ≤ 15) (hn : n ≤ 65539)
    (h19 : clLens.size = 19) (h7 : ∀ l ∈ clLens, l ≤ 7)
    (hcode : buildCode clLens = .ok clCode)
    (hpos : ∀ t ∈ (buildCodeLengthTokens lens).toList, 0 < clLens.getD t.code 0)
    (br : BitReader) (rest : List Bool)
    (hbits : restBits br = callsBits (storeFullHuffmanCode lens clLens) ++ rest) :
    ∃ br', readCodeLengthVector n br = .ok (lens, br') ∧ restBits br' = rest ∧ br'.data = br.data :=
  codeLengths_roundtrip_rest lens clLens clCode n hsize hl hn h19 h7 hcode
    (symRoundtrip_of_buildCode hcode) hpos br rest hbits

/-- `StoreHuffmanCode` (simple and normal codes) is read back as `normLens lens` -/
theorem storeHuffmanCode_roundtrip (lens clLens : Array Nat) (n : Nat)
    (hsize : lens.size = n) (hn0 : 0 < n) (hl : ∀ l ∈ lens, l ≤ 15) (hn : n ≤ 65539)
    (hfull : ¬ IsSimple lens → clLens.size = 19 ∧ (∀ l ∈ clLens, l ≤ 7) ∧
      (∃ clCode, buildCode clLens = .ok clCode) ∧
      ∀ t ∈ (buildCodeLengthTokens lens).toList, 0 < clLens.getD t.code 0)
    (br : BitReader) (rest : List Bool)
    (hbits : restBits br = callsBits (storeHuffmanCode lens clLens) ++ rest) :
    ∃ br', readCodeLengthVector n br = .ok (normLens lens, br') ∧ restBits br' = rest ∧ br'.data = br.data := by
  by_cases hs : IsSimple lens
  · have := storeHuffmanCode_roundtrip_simple lens clLens n hsize hn0 hs br rest hbits
    exact ⟨_, this, by rw [restBits_adv, hbits, List.drop_left'] ; rfl, rfl⟩
  · obtain ⟨h19, h7, ⟨clCode, hcode⟩, hpos⟩ := hfull hs
    exact storeHuffmanCode_roundtrip_rest lens clLens clCode n hsize hn0 hl hn
      (fun _ => ⟨h19, h7, hcode, symRoundtrip_of_buildCode hcode, hpos⟩) br rest hbits

end Webp.Proofs.VP8LEntropyCodeLengthsFull
