import Webp.Proofs.BoolWriter
/-
  C1, part 3: `PutBitUniform`, `PutBits`, and `Finish`.

  `Finish` codes `9 − nbBits` (9 … 17) zeros at probability 1/2 and flushes once more with `nbBits`
  forced to 0.  Result (`finish_spec`): the bytes returned are exactly the code number `low` of the
  ideal encoder (`k + 8` bits) followed by `j ≥ 8` zero bits.
-/
namespace Webp.Proofs.BoolWriter
open Webp.Go (Bytes)
open Webp.Impl.BoolCoder
open Webp.Spec.VP8.BoolIdeal
open Webp.Proofs.BoolIdeal

theorem kNorm_one : ∀ r, r < 127 → 63 ≤ r → kNorm.getD r 0 = 1 := by decide

/-- `PutBitUniform(bit)` is `PutBit(bit, 128)` whenever `127 ≤ range_ ≤ 254` (always, from `newWriter`) -/
theorem putBitUniform_eq (w : BoolWriter) (b : Bool) (h1 : 127 ≤ w.range) (h2 : w.range ≤ 254) :
    putBitUniform w b = putBit w b 128 := by
  have hs : (w.range * 128) >>> 8 = w.range >>> 1 := by
    rw [Nat.shiftRight_eq_div_pow, Nat.shiftRight_eq_div_pow]
    have : (2:Nat) ^ 8 = 256 := by norm_num
    have : (2:Nat) ^ 1 = 2 := by norm_num
    omega
  have hv : w.range >>> 1 = w.range / 2 := by rw [Nat.shiftRight_eq_div_pow, pow_one]
  unfold putBitUniform putBit
  rw [hs, hv]
  by_cases hp : w.panicked
  · simp [hp]
  · simp only [hp, Bool.false_eq_true, if_false]
    have hnp : ¬ (w.range < w.range / 2 + 1) := by omega
    simp only [hnp, decide_false, Bool.and_false, Bool.false_eq_true, if_false]
    by_cases h127 : (if b = true then w.range - (w.range / 2 + 1) else w.range / 2) < 127
    · have hk : kNorm.getD (if b = true then w.range - (w.range / 2 + 1) else w.range / 2) 0 = 1 := by
        apply kNorm_one _ h127
        cases b <;> simp <;> omega
      simp only [h127, if_true, hk]
      rfl
    · simp only [h127, if_false]

theorem winv_range {w : BoolWriter} {s : Enc} {q : Nat} (h : WInv w s q) : 127 ≤ w.range ∧ w.range ≤ 254 := by
  have := h.hr; have := h.rng.1; have := h.rng.2; omega

theorem pad_shift {s : Enc} (hs : Rng s) (h254 : s.range ≤ 254) : normShift (preRange s false 128) = 1 := by
  have h1 := hs.1
  have e : preRange s false 128 = split s.range 128 := rfl
  rw [e]
  have : 64 ≤ split s.range 128 ∧ split s.range 128 ≤ 127 := by
    unfold split; rw [Nat.shiftRight_eq_div_pow]; omega
  unfold normShift
  split_ifs <;> omega

theorem pad_put {s : Enc} (hs : Rng s) (h254 : s.range ≤ 254) :
    s.put false 128 = { low := s.low * 2, range := split s.range 128 * 2, k := s.k + 1 } := by
  rw [put_eq, pad_shift hs h254]
  rfl

/-- `i` zeros at probability 1/2 (the loop of `PutBits(0, i)`), from a state with `range ≤ 254`:
    `low` is shifted by exactly `i` bits; once a flush has happened there is no pending carry. -/
theorem pad_inv (i : Nat) {w : BoolWriter} {s : Enc} {q : Nat} (h : WInv w s q) (hq8 : q ≤ 8)
    (h254 : s.range ≤ 254) (hnc : w.value < 2 ^ (q + 8) ∨ 9 ≤ q + i) :
    ∃ q' r', q' ≤ 8 ∧ WInv (putBitsLoop w 0 i) { low := s.low * 2 ^ i, range := r', k := s.k + i } q' ∧
      (putBitsLoop w 0 i).value < 2 ^ (q' + 8) := by
  induction i generalizing w s q with
  | zero =>
    have e : ({ low := s.low * 2 ^ 0, range := s.range, k := s.k + 0 } : Enc) = s := by simp
    refine ⟨q, s.range, hq8, by rw [e]; exact h, ?_⟩
    rcases hnc with h1 | h1
    · exact h1
    · omega
  | succ i ih =>
    have hr := winv_range h
    have hstep : putBitsLoop w 0 (i + 1) = putBitsLoop (putBit w false 128) 0 i := by
      show putBitsLoop (putBitUniform w ((0 : Nat).testBit i)) 0 i = _
      rw [Nat.zero_testBit, putBitUniform_eq w false hr.1 hr.2]
    rw [hstep]
    have hsh := pad_shift h.rng h254
    have hinv := putBit_inv h hq8 false (by norm_num : 128 ≤ 255)
    have hncs := putBit_false_nc h hq8 (by norm_num : 128 ≤ 255)
    rw [hsh] at hinv hncs
    rw [pad_put h.rng h254] at hinv
    have h254' : ({ low := s.low * 2, range := split s.range 128 * 2, k := s.k + 1 } : Enc).range ≤ 254 := by
      show split s.range 128 * 2 ≤ 254
      have h1 := h.rng.1
      unfold split; rw [Nat.shiftRight_eq_div_pow]; omega
    have hq8' := nextQ_le hq8 (by norm_num : 1 ≤ 7)
    have hnc' : (putBit w false 128).value < 2 ^ (nextQ q 1 + 8) ∨ 9 ≤ nextQ q 1 + i := by
      by_cases h9 : 9 ≤ q + 1
      · left; exact hncs (Or.inr h9)
      · rcases hnc with h1 | h1
        · left; exact hncs (Or.inl h1)
        · right; unfold nextQ; split_ifs <;> omega
    obtain ⟨q', r', hq', hw', hv'⟩ := ih hinv hq8' h254' hnc'
    refine ⟨q', r', hq', ?_, hv'⟩
    have e1 : s.low * 2 * 2 ^ i = s.low * 2 ^ (i + 1) := by rw [pow_succ]; ring
    have e2 : s.k + 1 + i = s.k + (i + 1) := by omega
    simpa [e1, e2] using hw'

/-- the zero padding of `Finish`, from any reachable state -/
theorem finishPad_inv {w : BoolWriter} {s : Enc} {q : Nat} (h : WInv w s q) (hq8 : q ≤ 8) :
    ∃ t q' r', 9 ≤ t ∧ q' ≤ 8 ∧ (q + t = 17 ∨ (q = 0 ∧ t = 16)) ∧
      WInv (putBits w 0 (9 - w.nbBits).toNat) { low := s.low * 2 ^ t, range := r', k := s.k + t } q' ∧
      (putBits w 0 (9 - w.nbBits).toNat).value < 2 ^ (q' + 8) := by
  have hm : (9 - w.nbBits).toNat = 17 - q := by have := h.hq; omega
  have hpb : putBits w 0 (17 - q) = putBitsLoop w 0 (17 - q) := by
    unfold putBits
    have : ¬ (17 - q = 0 ∨ 17 - q > 32) := by omega
    simp [this]
  rw [hm, hpb]
  by_cases h254 : s.range ≤ 254
  · obtain ⟨q', r', a, b, c⟩ := pad_inv (17 - q) h hq8 h254 (Or.inr (by omega))
    exact ⟨17 - q, q', r', by omega, a, Or.inl (by omega), b, c⟩
  · -- the initial width 255: the first zero does not shift
    have h255 : s.range = 255 := by have := h.rng.2; omega
    have hq0 : q = 0 := h.h255 h255
    subst hq0
    have hr := winv_range h
    have hstep : putBitsLoop w 0 (17 - 0) = putBitsLoop (putBit w false 128) 0 16 := by
      show putBitsLoop (putBitUniform w ((0 : Nat).testBit 16)) 0 16 = _
      rw [Nat.zero_testBit, putBitUniform_eq w false hr.1 hr.2]
    rw [hstep]
    have hpre : preRange s false 128 = 128 := by
      show split s.range 128 = 128
      rw [h255]; decide
    have hsh : normShift (preRange s false 128) = 0 := by rw [hpre]; decide
    have hinv := putBit_inv h hq8 false (by norm_num : 128 ≤ 255)
    have hncs := putBit_false_nc h hq8 (by norm_num : 128 ≤ 255)
    rw [hsh] at hinv hncs
    have hput : s.put false 128 = { low := s.low, range := 128, k := s.k } := by
      rw [put_eq, hsh, hpre]; simp [preLow]
    rw [hput] at hinv
    have hv0 : w.value < 2 ^ (0 + 8) := by
      have := h.hval; rw [h255] at this; norm_num at this ⊢; omega
    have hnq : nextQ 0 0 = 0 := by decide
    rw [hnq] at hinv hncs
    obtain ⟨q', r', a, b, c⟩ := pad_inv 16 hinv (by omega) (by show (128 : Nat) ≤ 254; norm_num) (Or.inl (hncs (Or.inl hv0)))
    exact ⟨16, q', r', by omega, a, Or.inr ⟨rfl, rfl⟩, b, c⟩

/-- **`Finish` returns the ideal code number followed by at least 8 zero bits.** -/
theorem finish_spec {w : BoolWriter} {s : Enc} {q : Nat} (h : WInv w s q) (hq8 : q ≤ 8) :
    ∃ j, 8 ≤ j ∧ beNum (finish w) = s.low * 2 ^ j ∧ 8 * (finish w).length = s.k + 8 + j := by
  obtain ⟨t, q', r', ht, hq', hqt, hw, hnc⟩ := finishPad_inv h hq8
  set wm := putBits w 0 (9 - w.nbBits).toNat with hwm
  -- q' is determined
  have hk := h.hk
  have hkm : 8 * (wm.buf.length + wm.run) + q' = s.k + t := hw.hk
  have hq1 : 1 ≤ q' := by
    by_contra hc
    have : q' = 0 := by omega
    have := hw.hq0 this
    simp at this; omega
  have hq't : q' + 8 ≤ t := by omega
  -- the value register is 0
  set M := 2 ^ (q' + 8) with hM
  have hlow : s.low * 2 ^ t + M = (beNum wm.buf + 1) * 256 ^ wm.run * M + wm.value := hw.hlow
  have h2t : 2 ^ t = 2 ^ (t - (q' + 8)) * M := by rw [hM, ← pow_add]; congr 1; omega
  have hdvd : M ∣ wm.value := by
    have h1 : M ∣ s.low * 2 ^ t + M := by
      rw [h2t, ← Nat.mul_assoc]; exact Nat.dvd_add (Dvd.intro_left _ rfl) (dvd_refl M)
    rw [hlow] at h1
    exact (Nat.dvd_add_right (Dvd.intro_left _ rfl)).mp h1
  have hv0 : wm.value = 0 := Nat.eq_zero_of_dvd_of_lt hdvd hnc
  -- the last flush
  have hfin : finish w = wm.buf ++ List.replicate wm.run 0xff ++ [0] := by
    unfold finish finishPad
    rw [← hwm]
    unfold flush
    simp [hv0, run_append]
  rw [hfin]
  refine ⟨t - q', by omega, ?_, ?_⟩
  · have hem := beNum_emit wm.buf wm.run 0
    rw [hv0, Nat.add_zero] at hlow
    have hM2 : M = 256 * 2 ^ q' := by rw [hM, pow_add]; ring
    have h2t' : 2 ^ t = 2 ^ (t - q') * 2 ^ q' := by rw [← pow_add]; congr 1; omega
    apply Nat.eq_of_mul_eq_mul_right (Nat.two_pow_pos q')
    have hz : (0 : UInt8).toNat = 0 := rfl
    rw [hz, Nat.add_zero] at hem
    generalize beNum (wm.buf ++ List.replicate wm.run 0xff ++ [0]) = N at hem ⊢
    generalize (beNum wm.buf + 1) * 256 ^ wm.run = X at hem hlow
    have e1 : s.low * 2 ^ (t - q') * 2 ^ q' = s.low * 2 ^ t := by rw [h2t']; ring
    rw [e1]
    have e2 : (N + 256) * 2 ^ q' = X * M := by rw [hem, hM2]; ring
    have e3 : (N + 256) * 2 ^ q' = N * 2 ^ q' + M := by rw [hM2]; ring
    omega
  · simp only [List.length_append, List.length_replicate, List.length_singleton]
    omega

end Webp.Proofs.BoolWriter
