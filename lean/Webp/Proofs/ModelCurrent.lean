import Lean.Elab.Tactic
import Webp.Impl.Transcribed
/-
  Tactic `model_current` for goals `Webp.Impl.Transcribed.stale xs = []`.

  It closes the goal with `decide +kernel` (the kernel evaluates the numeric comparisons).  When that
  fails it evaluates the left-hand side with `Lean.Meta.whnf`, element by element, and reports the
  KEYS of the stale entries in the first line of the error message, so that `./check` (which keeps
  the lines containing "error") shows which Go declarations changed (a transcribed function, a
  same-package function it reaches, or a package-level constant / variable: `pkg.const:Name`).
  Only the error message is produced by this code; a proof is always the kernel's `decide`.
-/
namespace Webp.Proofs.ModelCurrent
open Lean Meta Elab Tactic

/-- the elements of a closed `List String` term, by weak-head normalisation -/
def listStrings (e : Expr) (fuel : Nat := 100000) : MetaM (List String) := do
  let mut out : Array String := #[]
  let mut cur := e
  for _ in [0:fuel] do
    let c ← whnf cur
    match c.getAppFnArgs with
    | (``List.cons, #[_, h, t]) =>
      let h' ← whnf h
      match h' with
      | .lit (.strVal s) => out := out.push s
      | _ => out := out.push (toString (← ppExpr h'))
      cur := t
    | _ => break
  return out.toList

elab "model_current" : tactic => do
  let g ← getMainGoal
  let ty ← instantiateMVars (← g.getType)
  try
    evalTactic (← `(tactic| decide +kernel))
  catch _ =>
    match ty.eq? with
    | some (_, lhs, _) =>
      -- the lists have several hundred entries: `whnf` of the filter needs a deeper recursion limit
      let names := (← withTheReader Core.Context (fun c => { c with maxRecDepth := 65536 }) (listStrings lhs)).eraseDups
      let shown := ", ".intercalate names
      throwError "model currency: {names.length} pinned Go declaration(s) (transcribed functions, their same-package callees, constants, variables) changed since the model was validated: {shown} -- re-validate the model(s), then run tools/update_fingerprints.py"
    | none => throwError "model_current: goal is not of the form `stale xs = []`"

end Webp.Proofs.ModelCurrent

namespace Webp.Impl.Transcribed

/-- what `stale xs = []` means: every entry's current fingerprint is the recorded one -/
theorem stale_eq_nil_iff (xs : List Entry) : stale xs = [] ↔ ∀ e ∈ xs, e.2.1 = e.2.2 := by
  simp [stale, List.filter_eq_nil_iff]

end Webp.Impl.Transcribed
