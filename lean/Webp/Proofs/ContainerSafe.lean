import Webp.Proofs.ContainerParser
/-
  C05 helper lemmas, container parser: no `panic`, no `hang` (the fuel handed to each loop
  suffices because every iteration consumes at least the 8-byte chunk header).
-/
namespace Webp.Impl.Parser
open Webp.Go
set_option maxHeartbeats 200000

/-- closes `(ok _).Safe` / `(err _).Safe` without trying `decide` (which may diverge) -/
macro "safe_triv" : tactic => `(tactic| first | exact Res.safe_ok _ | exact Res.safe_err _)

theorem subFinish_safe (fr : FrameInfo) (al : Option Bytes) (fc : Nat) (pl : Bytes) :
    (subFinish fr al fc pl).Safe := by
  unfold subFinish
  split_ifs <;> try safe_triv
  rcases parseVP8LHeader_cases pl with ⟨e, h⟩ | ⟨h, _⟩ <;> rw [h] <;> safe_triv

theorem extFinish_safe (st : State) (fr : FrameInfo) (al : Option Bytes) (fc : Nat) (pl : Bytes) :
    (extFinish st fr al fc pl).Safe := by
  unfold extFinish
  split_ifs <;> try safe_triv
  · rcases parseVP8LHeader_cases pl with ⟨e, h⟩ | ⟨h, _⟩ <;> rw [h] <;> safe_triv
  · rcases parseVP8Header_cases pl with ⟨e, h⟩ | ⟨h, _⟩ <;> rw [h] <;> safe_triv

theorem simpleFinish_safe (st : State) (fc : Nat) (pl : Bytes) :
    (simpleFinish st fc pl).Safe := by
  unfold simpleFinish
  split_ifs
  · rcases parseVP8LHeader_cases pl with ⟨e, h⟩ | ⟨h, _⟩ <;> rw [h] <;> safe_triv
  · rcases parseVP8Header_cases pl with ⟨e, h⟩ | ⟨h, _⟩ <;> rw [h] <;> safe_triv

theorem parseFrameSubChunks_safe (fuel : Nat) :
    ∀ (fr : FrameInfo) (al : Option Bytes) (buf : Bytes), buf.length < fuel →
      (parseFrameSubChunks fuel fr al buf).Safe := by
  induction fuel with
  | zero => intro _ _ _ h; omega
  | succ fuel ih =>
    intro fr al buf hlen
    rw [parseFrameSubChunks_succ]
    by_cases h8 : buf.length < 8
    · rw [subStep_short h8]; split_ifs <;> safe_triv
    · rcases chunkAt_cases buf with ⟨e, h⟩ | ⟨hle, h⟩
      · rw [subStep_chunkErr h8 h]; safe_triv
      · by_cases hfc : le32 buf 0 = ccALPH
        · rw [subStep_alph h8 h hfc hle]
          apply ih
          rw [List.length_drop]; omega
        · rw [subStep_fin h8 h hfc]
          exact subFinish_safe _ _ _ _

theorem parseANMF_safe (payload : Bytes) : (parseANMF payload).Safe := by
  rcases parseANMF_cases payload with ⟨e, h⟩ | ⟨_, _, h⟩
  · rw [h]; safe_triv
  · rw [h]; exact parseFrameSubChunks_safe _ _ _ _ (by omega)

theorem parseExtSingleImage_safe (fuel : Nat) :
    ∀ (st : State) (fr : FrameInfo) (al : Option Bytes) (buf : Bytes), buf.length < fuel →
      (parseExtSingleImage fuel st fr al buf).Safe := by
  induction fuel with
  | zero => intro _ _ _ _ h; omega
  | succ fuel ih =>
    intro st fr al buf hlen
    rw [parseExtSingleImage_succ]
    by_cases h8 : buf.length < 8
    · rw [extStep_short h8]; safe_triv
    · rcases chunkAt_cases buf with ⟨e, h⟩ | ⟨hle, h⟩
      · rw [extStep_chunkErr h8 h]; safe_triv
      · by_cases hfc : le32 buf 0 = ccALPH
        · rw [extStep_alph h8 h hfc hle]
          apply ih
          rw [List.length_drop]; omega
        · rw [extStep_fin h8 h hfc]
          exact extFinish_safe _ _ _ _ _

theorem vp8xDecide_safe (st : State) (ac fc ps : Nat) (pl : Bytes) :
    (vp8xDecide st ac fc ps pl).Safe := by
  unfold vp8xDecide
  generalize maxMetadataSize = MM
  split_ifs <;> try safe_triv
  have := parseANMF_safe pl
  cases h : parseANMF pl <;> rw [h] at this <;> first | safe_triv | exact this

theorem parseVP8XChunks_safe (fuel : Nat) :
    ∀ (st : State) (ac : Nat) (buf : Bytes), buf.length < fuel →
      (parseVP8XChunks fuel st ac buf).Safe := by
  induction fuel with
  | zero => intro _ _ _ h; omega
  | succ fuel ih =>
    intro st ac buf hlen
    rw [parseVP8XChunks_succ]
    by_cases h8 : buf.length < 8
    · rw [vp8xStep_short h8]; safe_triv
    · rcases chunkAt_cases buf with ⟨e, h⟩ | ⟨hle, h⟩
      · rw [vp8xStep_chunkErr h8 h]; safe_triv
      · have hd := vp8xDecide_safe st ac (le32 buf 0) (le32 buf 4)
          ((buf.take (8 + le32 buf 4)).drop 8)
        cases hdec : vp8xDecide st ac (le32 buf 0) (le32 buf 4)
            ((buf.take (8 + le32 buf 4)).drop 8) with
        | err e => rw [vp8xStep_err h8 h hdec]; safe_triv
        | panic => rw [hdec] at hd; exact absurd hd id
        | hang => rw [hdec] at hd; exact absurd hd id
        | ok o =>
          cases o with
          | none =>
            rw [vp8xStep_ext h8 h hdec]
            exact parseExtSingleImage_safe _ _ _ _ _ (by omega)
          | some v =>
            obtain ⟨st', ac'⟩ := v
            rw [vp8xStep_next h8 h hdec hle]
            apply ih
            rw [List.length_drop]; omega

theorem parseSingleImage_safe (st : State) (buf : Bytes) : (parseSingleImage st buf).Safe := by
  rw [parseSingleImage_eq]
  rcases chunkAt_cases buf with ⟨e, h⟩ | ⟨_, h⟩
  · rw [h]; safe_triv
  · rw [h]; exact simpleFinish_safe _ _ _

theorem parseVP8X_safe (buf : Bytes) : (parseVP8X buf).Safe := by
  rcases parseVP8X_cases buf with ⟨e, h⟩ | ⟨_, _, h⟩
  · rw [h]; safe_triv
  · rw [h]; exact parseVP8XChunks_safe _ _ _ _ (by omega)

theorem dispatch_safe (buf : Bytes) : (dispatch buf).Safe := by
  unfold dispatch
  split_ifs
  · exact parseVP8X_safe _
  · exact parseSingleImage_safe _ _
  · exact parseSingleImage_safe _ _
  · safe_triv

theorem parse_safe (data : Bytes) : (parse data).Safe := by
  rcases parse_cases data with ⟨e, h⟩ | ⟨_, _, _, _, _, h⟩
  · rw [h]; safe_triv
  · rw [h]; exact dispatch_safe _

end Webp.Impl.Parser
